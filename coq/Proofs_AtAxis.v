(** T4: the layout-level "apply at an axis" combinator [model_ax] refines the value-level
    specification [spec_ax]: same value, same error status, never EOob / EFuel. *)
From Coq Require Import ZArith List Bool Lia ZifyBool.
From AwkV Require Import Base Layout LayoutInd Valid Types AtAxis Typing Proofs_Typing Proofs_C11
                         Proofs_Lists Proofs_ToList Proofs_Carry.
Import ListNotations.
Open Scope Z_scope.

(* ---------------------------------------------------------------- the fragment *)
(* [frag1]: 1-d leaves, no unions (strings allowed); [frag]: the same with n-d leaves
   ([expand] maps [frag] into [frag1]) *)
Fixpoint frag1 (c : content) : bool :=
  match c with
  | Numpy _ shape _ => match shape with [_] => true | _ => false end
  | Empty => true
  | ListOffset _ _ c' | ListA _ _ _ c' | Regular c' _ _ | Indexed _ _ c' | IndexedOption _ _ c'
  | ByteMasked _ _ c' | BitMasked _ _ _ _ c' | Unmasked c' | Par _ _ c' => frag1 c'
  | Union _ _ _ _ => false
  | Record cs _ _ =>
      (fix all (l : list content) : bool := match l with [] => true | x :: xs => frag1 x && all xs end) cs
  end.
Fixpoint frag (c : content) : bool :=
  match c with
  | Numpy _ shape _ => match shape with [] => false | _ :: _ => true end
  | Empty => true
  | ListOffset _ _ c' | ListA _ _ _ c' | Regular c' _ _ | Indexed _ _ c' | IndexedOption _ _ c'
  | ByteMasked _ _ c' | BitMasked _ _ _ _ c' | Unmasked c' | Par _ _ c' => frag c'
  | Union _ _ _ _ => false
  | Record cs _ _ =>
      (fix all (l : list content) : bool := match l with [] => true | x :: xs => frag x && all xs end) cs
  end.
Lemma frag1_all cs :
  (fix all (l : list content) : bool := match l with [] => true | x :: xs => frag1 x && all xs end) cs = true <->
  Forall (fun x => frag1 x = true) cs.
Proof.
  induction cs as [|x xs IH]; [split; constructor|]. rewrite andb_true_iff, IH. split.
  - intros [? ?]. constructor; assumption.
  - intros H. inversion H; auto.
Qed.
Lemma frag_all cs :
  (fix all (l : list content) : bool := match l with [] => true | x :: xs => frag x && all xs end) cs = true <->
  Forall (fun x => frag x = true) cs.
Proof.
  induction cs as [|x xs IH]; [split; constructor|]. rewrite andb_true_iff, IH. split.
  - intros [? ?]. constructor; assumption.
  - intros H. inversion H; auto.
Qed.

(* ---------------------------------------------------------------- axis resolution *)
Lemma resolve_err t d axis e : resolve_axis t d axis = Err e -> e = EValue.
Proof.
  unfold resolve_axis. destruct (0 <=? axis); [discriminate|]. destruct (minmax t) as [mn mx].
  destruct (mn =? mx).
  - destruct (mx + axis <? 0); [congruence|discriminate].
  - destruct (mn + axis =? 0); [congruence|discriminate].
Qed.
Lemma resolve_idem t d axis ax : 0 <= d -> resolve_axis t d axis = Ok ax -> resolve_axis t d ax = Ok ax.
Proof.
  intros Hd. unfold resolve_axis. destruct (0 <=? axis) eqn:E.
  - intros H. inversion H; subst. rewrite E. reflexivity.
  - destruct (minmax t) as [mn mx]. destruct (mn =? mx) eqn:Em.
    + destruct (mx + axis <? 0) eqn:E2; [discriminate|]. intros H. inversion H; subst.
      destruct (0 <=? d + mx + axis) eqn:E3; [reflexivity|lia].
    + destruct (mn + axis =? 0) eqn:E2; [discriminate|]. intros H. inversion H; subst.
      rewrite E, E2. reflexivity.
Qed.

(* ---------------------------------------------------------------- unfolding the three recursions *)
Section Unfold.
  Variable f : ty -> list value -> res value.
  Variable g : option akind -> content -> res content.
  Variable unk : res content.
  Variables (unk_ok : bool) (fchk : ty -> bool) (str_ok : bool).

  Definition check_all (d ax : Z) (ts : list ty) : res unit :=
    (fix all (l : list ty) : res unit :=
       match l with [] => Ok tt | x :: xs => do _ <- check_ax unk_ok fchk str_ok x d ax; all xs end) ts.
  Definition check_body (t : ty) (d ax : Z) : res unit :=
    match t with
    | TNum _ => Err EValue
    | TUnk => if unk_ok then Ok tt else Err EValue
    | TList _ str t' =>
        if ax =? d + 1 then
          (if fchk t' && (str_ok || match str with None => true | Some _ => false end) then Ok tt else Err EValue)
        else check_ax unk_ok fchk str_ok t' (d + 1) ax
    | TOpt t' => check_ax unk_ok fchk str_ok t' d ax
    | TRec _ ts => check_all d ax ts
    | TUnion ts => check_all d ax ts
    end.
  Lemma check_ax_eq t d axis :
    check_ax unk_ok fchk str_ok t d axis = do ax <- resolve_axis t d axis; check_body t d ax.
  Proof. destruct t; reflexivity. Qed.
  Lemma check_all_cons d ax t ts :
    check_all d ax (t :: ts) = do _ <- check_ax unk_ok fchk str_ok t d ax; check_all d ax ts.
  Proof. reflexivity. Qed.

  Fixpoint tup_go (d ax : Z) (ts : list ty) (xs : list value) : res (list value) :=
    match ts, xs with
    | [], [] => Ok []
    | t1 :: ts', x :: xs' => do y <- spec_v f t1 d ax x; do ys <- tup_go d ax ts' xs'; Ok (y :: ys)
    | _, _ => Err EValue
    end.
  Fixpoint rec_go (d ax : Z) (ts : list ty) (fs : list (name * value)) : res (list (name * value)) :=
    match ts, fs with
    | [], [] => Ok []
    | t1 :: ts', (k, x) :: fs' => do y <- spec_v f t1 d ax x; do ys <- rec_go d ax ts' fs'; Ok ((k, y) :: ys)
    | _, _ => Err EValue
    end.
  Definition spec_body (t : ty) (d ax : Z) (v : value) : res value :=
    match t with
    | TNum _ | TUnk => Err EValue
    | TList _ _ t' =>
        let go (l : list value) :=
          if ax =? d + 1 then f t' l else rmap VList (mapM (spec_v f t' (d + 1) ax) l) in
        match v with
        | VList l => go l
        | VStr _ s => go (chars_of s)
        | _ => Err EValue
        end
    | TOpt t' => match v with VNone => Ok VNone | _ => spec_v f t' d ax v end
    | TRec _ ts =>
        match v with
        | VRec fs => rmap VRec (rec_go d ax ts fs)
        | VTup xs => rmap VTup (tup_go d ax ts xs)
        | _ => Err EValue
        end
    | TUnion _ => Err EValue
    end.
  Lemma tup_go_eq d ax ts xs :
    (fix go (ts : list ty) (xs : list value) : res (list value) :=
       match ts, xs with
       | [], [] => Ok []
       | t1 :: ts', x :: xs' => do y <- spec_v f t1 d ax x; do ys <- go ts' xs'; Ok (y :: ys)
       | _, _ => Err EValue
       end) ts xs = tup_go d ax ts xs.
  Proof. revert xs. induction ts as [|t ts IH]; intros [|x xs]; try reflexivity. cbn [tup_go]. rewrite <- IH. reflexivity. Qed.
  Lemma rec_go_eq d ax ts fs :
    (fix go (ts : list ty) (fs : list (name * value)) : res (list (name * value)) :=
       match ts, fs with
       | [], [] => Ok []
       | t1 :: ts', (k, x) :: fs' => do y <- spec_v f t1 d ax x; do ys <- go ts' fs'; Ok ((k, y) :: ys)
       | _, _ => Err EValue
       end) ts fs = rec_go d ax ts fs.
  Proof.
    revert fs. induction ts as [|t ts IH]; intros [|[k x] fs]; try reflexivity. cbn [rec_go]. rewrite <- IH. reflexivity.
  Qed.
  Lemma spec_v_eq t d axis v :
    spec_v f t d axis v = do ax <- resolve_axis t d axis; spec_body t d ax v.
  Proof.
    destruct t; try reflexivity.
    cbn [spec_v spec_body]. destruct (resolve_axis _ d axis) as [ax|]; [|reflexivity]. cbn [bind].
    destruct v; try reflexivity.
    - rewrite <- rec_go_eq. reflexivity.
    - rewrite <- tup_go_eq. reflexivity.
  Qed.

  Definition model_body (p : option akind) (c : content) (d ax : Z) : res content :=
    match c with
    | Numpy _ _ _ => Err EValue
    | Empty => unk
    | ListOffset w o c' =>
        if ax =? d + 1 then gs g str_ok p c else rmap (ListOffset w o) (model_axp g unk str_ok None c' (d + 1) ax)
    | ListA w s e c' =>
        if ax =? d + 1 then gs g str_ok p c else rmap (ListA w s e) (model_axp g unk str_ok None c' (d + 1) ax)
    | Regular c' size zl =>
        if ax =? d + 1 then gs g str_ok p c else rmap (fun x => Regular x size zl) (model_axp g unk str_ok None c' (d + 1) ax)
    | Indexed w ix c' => rmap (Indexed w ix) (model_axp g unk str_ok None c' d ax)
    | IndexedOption w ix c' => rmap (IndexedOption w ix) (model_axp g unk str_ok None c' d ax)
    | ByteMasked m vw c' => rmap (ByteMasked m vw) (model_axp g unk str_ok None c' d ax)
    | BitMasked m vw lsb n c' => rmap (BitMasked m vw lsb n) (model_axp g unk str_ok None c' d ax)
    | Unmasked c' => rmap Unmasked (model_axp g unk str_ok None c' d ax)
    | Union w t ix cs => rmap (Union w t ix) (mapM (fun x => model_axp g unk str_ok None x d ax) cs)
    | Record cs ks n => rmap (fun cs' => Record cs' ks n) (mapM (fun x => model_axp g unk str_ok None x d ax) cs)
    | Par a r c' => model_axp g unk str_ok a c' d ax
    end.
  Lemma model_axp_eq p c d axis :
    model_axp g unk str_ok p c d axis = do ax <- resolve_axis (type_of_p p c) d axis; model_body p c d ax.
  Proof.
    destruct c; try reflexivity.
    - cbn [model_axp model_body]. destruct (resolve_axis _ d axis) as [ax|]; [|reflexivity]. cbn [bind]. f_equal.
      induction cs as [|x xs IH]; [reflexivity|]. cbn [mapM]. rewrite <- IH. reflexivity.
    - cbn [model_axp model_body]. destruct (resolve_axis _ d axis) as [ax|]; [|reflexivity]. cbn [bind]. f_equal.
      induction cs as [|x xs IH]; [reflexivity|]. cbn [mapM]. rewrite <- IH. reflexivity.
  Qed.

  (* re-resolving an already resolved axis changes nothing *)
  Lemma check_ax_resolved t d axis ax :
    0 <= d -> resolve_axis t d axis = Ok ax ->
    check_ax unk_ok fchk str_ok t d ax = check_ax unk_ok fchk str_ok t d axis.
  Proof. intros Hd H. rewrite !check_ax_eq, H, (resolve_idem _ _ _ _ Hd H). reflexivity. Qed.
  Lemma spec_v_resolved t d axis ax v :
    0 <= d -> resolve_axis t d axis = Ok ax -> spec_v f t d ax v = spec_v f t d axis v.
  Proof. intros Hd H. rewrite !spec_v_eq, H, (resolve_idem _ _ _ _ Hd H). reflexivity. Qed.
  Lemma model_axp_resolved p c d axis ax :
    0 <= d -> resolve_axis (type_of_p p c) d axis = Ok ax ->
    model_axp g unk str_ok p c d ax = model_axp g unk str_ok p c d axis.
  Proof. intros Hd H. rewrite !model_axp_eq, H, (resolve_idem _ _ _ _ Hd H). reflexivity. Qed.
End Unfold.

(* ---------------------------------------------------------------- value-level commutation lemmas *)
Lemma mapM_square {A B C} (P : A -> res B) (Q : A -> res C) (S : B -> res C) l vs :
  (forall x v, In x l -> P x = Ok v -> exists w, Q x = Ok w /\ S v = Ok w) ->
  mapM P l = Ok vs -> exists ws, mapM Q l = Ok ws /\ mapM S vs = Ok ws.
Proof.
  revert vs. induction l as [|x l IH]; intros vs H Hp; cbn [mapM] in Hp.
  - inversion Hp; subst. exists []. split; reflexivity.
  - apply bind_Ok in Hp as (v & Hv & Hp). apply bind_Ok in Hp as (vs' & Hvs' & Hp). inversion Hp; subst.
    destruct (H x v (or_introl eq_refl) Hv) as (w & Hq & Hs).
    destruct (IH vs') as (ws & Hqs & Hss); [intros y u Hy; apply H; right; exact Hy|exact Hvs'|].
    exists (w :: ws). cbn [mapM]. rewrite Hq, Hqs, Hs, Hss. split; reflexivity.
Qed.

Lemma gather_all {A} (l : list A) : mapM (get l) (iota (zlen l)) = Ok l.
Proof.
  pose proof (zlen_nonneg l).
  replace (iota (zlen l)) with (range 0 (zlen l)) by (unfold range, iota; rewrite Z.sub_0_r; reflexivity).
  rewrite gather_range by lia. rewrite slice_ok by lia. rewrite Z.sub_0_r. unfold drop. cbn [Z.to_nat skipn].
  rewrite take_all by lia. reflexivity.
Qed.

(* a RegularArray's chunks as cuts at the bounds list_bounds computes *)
Lemma chunks_as_cuts {A} (vs : list A) size zl ch :
  chunks vs size zl = Ok ch ->
  mapM (cut1 vs) (map (fun i => (i * size, (i + 1) * size)) (iota (zlen ch))) = Ok ch.
Proof.
  intros H. rewrite mapM_map. transitivity (mapM (get ch) (iota (zlen ch))); [|apply gather_all]. apply mapM_ext_in. intros i Hi. apply iota_In' in Hi.
  rewrite (chunks_get _ _ _ _ i H Hi). unfold cut1.
  destruct (i * size =? (i + 1) * size) eqn:E; [|reflexivity].
  pose proof (chunks_zlen _ _ _ _ H) as [Hs _]. assert (size = 0) by lia. subst size.
  rewrite !Z.mul_0_r. rewrite slice_ok by (pose proof (zlen_nonneg vs); lia). reflexivity.
Qed.

Section Commute.
  Variable F : value -> res value.

  Lemma cut1_mapM vs0 ws0 ab l :
    mapM F vs0 = Ok ws0 -> cut1 vs0 ab = Ok l -> exists l', cut1 ws0 ab = Ok l' /\ mapM F l = Ok l'.
  Proof.
    intros HF. destruct ab as [a b]. unfold cut1. destruct (a =? b).
    - intros H. inversion H; subst. exists []. split; reflexivity.
    - intros H. pose proof (slice_inv _ _ _ _ H) as (H1 & H2 & H3 & _).
      pose proof (mapM_zlen _ _ _ HF) as Hz.
      rewrite <- gather_range in H by lia.
      rewrite <- gather_range by lia. rewrite <- (mapM_gather_ok F vs0 ws0 (range a b) l HF H).
      destruct (gather_ok ws0 (range a b)) as [l' Hl'].
      { apply Forall_forall. intros i Hi. apply range_In in Hi. lia. }
      exists l'. rewrite (mapM_gather_ok F vs0 ws0 (range a b) l HF H). split; exact Hl'.
  Qed.

  Lemma cuts_mapM vs0 ws0 bs ls :
    mapM F vs0 = Ok ws0 -> mapM (cut1 vs0) bs = Ok ls ->
    exists ls', mapM (cut1 ws0) bs = Ok ls' /\ mapM (fun l => rmap VList (mapM F l)) ls = Ok (map VList ls').
  Proof.
    intros HF H.
    destruct (mapM_square (cut1 vs0) (cut1 ws0) (mapM F) bs ls) as (ls' & H1 & H2); [|exact H|].
    { intros ab l _ Hl. destruct (cut1_mapM vs0 ws0 ab l HF Hl) as (l' & ? & ?). eauto. }
    exists ls'. split; [exact H1|]. rewrite mapM_rmap, H2. reflexivity.
  Qed.

  Definition optF (v : value) : res value := match v with VNone => Ok VNone | _ => F v end.

  Lemma pick_square vs0 ws0 b i v :
    mapM F vs0 = Ok ws0 -> (forall x, In x vs0 -> x <> VNone) -> pick_opt vs0 b i = Ok v ->
    exists w, pick_opt ws0 b i = Ok w /\ optF v = Ok w.
  Proof.
    intros HF Hnn. unfold pick_opt. destruct b.
    - intros Hg. pose proof (get_In _ _ _ Hg) as Hin. destruct (mapM_Ok_In F vs0 ws0 v HF Hin) as (w & Hw & _).
      exists w. rewrite (mapM_get F vs0 ws0 i HF), Hg. cbn [bind]. split; [exact Hw|].
      specialize (Hnn v Hin). destruct v; try exact Hw. congruence.
    - intros H. inversion H; subst. exists VNone. split; reflexivity.
  Qed.

  Lemma optF_nonone vs0 ws0 :
    mapM F vs0 = Ok ws0 -> (forall x, In x vs0 -> x <> VNone) -> mapM optF vs0 = Ok ws0.
  Proof.
    intros HF Hnn. rewrite <- HF. apply mapM_ext_in. intros v Hv. specialize (Hnn v Hv).
    destruct v; try reflexivity. congruence.
  Qed.
End Commute.

(* records: one function per column *)
Fixpoint tupF (Fs : list (value -> res value)) (xs : list value) : res (list value) :=
  match Fs, xs with
  | [], [] => Ok []
  | F1 :: Fs', x :: xs' => do y <- F1 x; do ys <- tupF Fs' xs'; Ok (y :: ys)
  | _, _ => Err EValue
  end.
Fixpoint recF (Fs : list (value -> res value)) (fs : list (name * value)) : res (list (name * value)) :=
  match Fs, fs with
  | [], [] => Ok []
  | F1 :: Fs', (k, x) :: fs' => do y <- F1 x; do ys <- recF Fs' fs'; Ok ((k, y) :: ys)
  | _, _ => Err EValue
  end.
Lemma tup_go_tupF f d ax ts xs : tup_go f d ax ts xs = tupF (map (fun t => spec_v f t d ax) ts) xs.
Proof. revert xs. induction ts as [|t ts IH]; intros [|x xs]; try reflexivity. cbn [tup_go map tupF]. rewrite IH. reflexivity. Qed.
Lemma rec_go_recF f d ax ts fs : rec_go f d ax ts fs = recF (map (fun t => spec_v f t d ax) ts) fs.
Proof.
  revert fs. induction ts as [|t ts IH]; intros [|[k x] fs]; try reflexivity. cbn [rec_go map recF]. rewrite IH. reflexivity.
Qed.
Lemma recF_zip Fs : forall ks xs ys,
  tupF Fs xs = Ok ys -> length ks = length xs -> recF Fs (zip ks xs) = Ok (zip ks ys).
Proof.
  induction Fs as [|F1 Fs IH]; intros ks xs ys H Hlen.
  - destruct xs; [|discriminate]. inversion H; subst. destruct ks; [reflexivity|discriminate].
  - destruct xs as [|x xs]; [discriminate|]. cbn [tupF] in H.
    apply bind_Ok in H as (y & Hy & H). apply bind_Ok in H as (ys' & Hys & H). inversion H; subst.
    destruct ks as [|k ks]; [discriminate|]. cbn [zip recF]. rewrite Hy. cbn [bind].
    rewrite (IH ks xs ys' Hys) by (cbn in Hlen; lia). reflexivity.
Qed.
Lemma tupF_length Fs : forall xs ys, tupF Fs xs = Ok ys -> length ys = length xs.
Proof.
  induction Fs as [|F1 Fs IH]; intros [|x xs] ys H; try discriminate.
  - inversion H; reflexivity.
  - cbn [tupF] in H. apply bind_Ok in H as (y & Hy & H). apply bind_Ok in H as (ys' & Hys & H). inversion H; subst.
    cbn [length]. f_equal. eapply IH, Hys.
Qed.

Inductive cols_rel : list (value -> res value) -> list (list value) -> list (list value) -> Prop :=
| cols_nil : cols_rel [] [] []
| cols_cons F Fs col vss wcol wss :
    mapM F col = Ok wcol -> cols_rel Fs vss wss -> cols_rel (F :: Fs) (col :: vss) (wcol :: wss).

Lemma fields_commute Fs vss wss i : cols_rel Fs vss wss -> forall xs,
  mapM (fun col : list value => get col i) vss = Ok xs ->
  exists ys, mapM (fun col : list value => get col i) wss = Ok ys /\ tupF Fs xs = Ok ys.
Proof.
  induction 1 as [|F Fs col vss wcol wss HF Hrel IH]; intros xs Hx.
  - inversion Hx; subst. exists []. split; reflexivity.
  - cbn [mapM] in Hx. apply bind_Ok in Hx as (x & Hgx & Hx). apply bind_Ok in Hx as (xs' & Hxs' & Hx). inversion Hx; subst.
    destruct (IH xs' Hxs') as (ys & Hys & Ht).
    pose proof (get_In _ _ _ Hgx) as Hin. destruct (mapM_Ok_In F col wcol x HF Hin) as (y & Hy & _).
    exists (y :: ys). cbn [mapM tupF]. rewrite (mapM_get F col wcol i HF), Hgx. cbn [bind]. rewrite Hy, Hys, Ht. split; reflexivity.
Qed.

Definition recS (Fs : list (value -> res value)) (v : value) : res value :=
  match v with
  | VRec fs => rmap VRec (recF Fs fs)
  | VTup xs => rmap VTup (tupF Fs xs)
  | _ => Err EValue
  end.
Lemma row_commute Fs ks vss wss i v :
  cols_rel Fs vss wss -> row ks vss i = Ok v -> exists w, row ks wss i = Ok w /\ recS Fs v = Ok w.
Proof.
  intros Hrel. unfold row. intros H. apply bind_Ok in H as (xs & Hxs & H).
  destruct (fields_commute Fs vss wss i Hrel xs Hxs) as (ys & Hys & Ht). rewrite Hys. cbn [bind].
  pose proof (tupF_length _ _ _ Ht) as Hlen.
  destruct ks as [k|].
  - destruct (Nat.eqb (length k) (length xs)) eqn:E; [|discriminate]. inversion H; subst.
    rewrite Hlen, E. apply Nat.eqb_eq in E. eexists. split; [reflexivity|]. cbn [recS].
    rewrite (recF_zip Fs k xs ys Ht E). reflexivity.
  - inversion H; subst. eexists. split; [reflexivity|]. cbn [recS]. rewrite Ht. reflexivity.
Qed.

(* ---------------------------------------------------------------- typing facts used below *)
Lemma has_type_list_inv sz t v :
  has_type (TList sz None t) v -> exists l, v = VList l /\ Forall (has_type t) l.
Proof.
  unfold has_type. cbn [has_typeb]. destruct v; try discriminate. intros H. apply andb_true_iff in H as [H _].
  exists l. split; [reflexivity|]. apply Forall_forall. intros x Hx. rewrite forallb_forall in H. apply H, Hx.
Qed.

Lemma optionlike_Par a r c : optionlike (Par a r c) = optionlike c.
Proof. reflexivity. Qed.

Lemma typed_nonone c : forall p, frag1 c = true -> optionlike c = false -> has_typeb (type_of_p p c) VNone = false.
Proof.
  induction c using content_ind'; intros p Hfr Ho; cbn [type_of_p]; try reflexivity; try discriminate.
  - cbn [frag1] in Hfr. destruct shape as [|x [|? ?]]; try discriminate. reflexivity.
  - destruct (strflag p); reflexivity.
  - destruct (strflag p); reflexivity.
  - destruct (strflag p); reflexivity.
  - destruct ks; reflexivity.
  - rewrite optionlike_Par in Ho. apply IHc; assumption.
Qed.

Lemma nonone_values c vs :
  Valid None c -> frag1 c = true -> optionlike c = false -> to_list c = Ok vs -> forall x, In x vs -> x <> VNone.
Proof.
  intros HV Hfr Ho Hl x Hx ->. pose proof (to_list_typed_thm c vs HV Hl) as Ht.
  rewrite Forall_forall in Ht. specialize (Ht VNone Hx). unfold has_type, type_of in Ht.
  rewrite (typed_nonone c None Hfr Ho) in Ht. discriminate.
Qed.

Lemma Valid_param p c : Valid p c -> p = None \/ is_strk p = true.
Proof.
  intros H. destruct p as [[]|]; auto; exfalso; inversion H; subst;
    match goal with Hp : ParamOk _ _ |- _ => exact Hp end.
Qed.

(* ---------------------------------------------------------------- the refinement *)
Definition refines (m : res content) (chk : res unit) (sv : res (list value)) : Prop :=
  match m with
  | Ok c' => chk = Ok tt /\ exists ws, sv = Ok ws /\ to_list c' = Ok ws
  | Err EValue => chk = Err EValue
  | Err _ => False
  end.

Lemma refines_rmap (K : content -> content) m chk sv0 sv :
  refines m chk sv0 ->
  (forall c' ws0, to_list c' = Ok ws0 -> sv0 = Ok ws0 -> exists ws, sv = Ok ws /\ to_list (K c') = Ok ws) ->
  refines (rmap K m) chk sv.
Proof.
  intros H HK. destruct m as [c'|[]]; cbn [rmap refines] in *; auto.
  destruct H as (Hc & ws0 & Hs & Ht). split; [exact Hc|]. eapply HK; eassumption.
Qed.

Section Generic.
  Variable f : ty -> list value -> res value.
  Variable g : option akind -> content -> res content.
  Variable unk : res content.
  Variables (unk_ok : bool) (fchk : ty -> bool) (str_ok : bool).

  (* (Hg) the action on a list node's buffers computes the action on each of its lists *)
  Hypothesis Hg : forall p c cc vs,
    Valid p c -> list_content c = Some cc -> to_list c = Ok vs -> fchk (type_of cc) = true ->
    (is_strk p = true -> str_ok = true) ->
    exists c', g p c = Ok c' /\
               to_list c' = mapM (fun v => match v with VList l => f (type_of cc) l | _ => Err EValue end) vs.
  (* where the element type is not acceptable the layout-level action refuses, too *)
  Hypothesis Hgchk : forall p c cc,
    Valid p c -> list_content c = Some cc -> fchk (type_of cc) = false -> g p c = Err EValue.
  (* (Hf) the value-level action is total on well-typed lists *)
  Hypothesis Hf : forall t l, fchk t = true -> Forall (has_type t) l -> exists v, f t l = Ok v.
  (* (Hunk) below an EmptyArray *)
  Hypothesis Hunk : if unk_ok then exists c', unk = Ok c' /\ to_list c' = Ok [] else unk = Err EValue.

  Notation MA := (model_axp g unk str_ok).
  Notation CA := (check_ax unk_ok fchk str_ok).
  Notation SV := (spec_v f).
  Notation MB := (model_body g unk str_ok).
  Notation CB := (check_body unk_ok fchk str_ok).
  Notation SB := (spec_body f).

  Lemma refines_resolve p c d axis vs :
    (forall ax, resolve_axis (type_of_p p c) d axis = Ok ax ->
                refines (MB p c d ax) (CB (type_of_p p c) d ax) (mapM (SB (type_of_p p c) d ax) vs)) ->
    refines (MA p c d axis) (CA (type_of_p p c) d axis) (mapM (SV (type_of_p p c) d axis) vs).
  Proof.
    intros H. rewrite model_axp_eq, check_ax_eq.
    destruct (resolve_axis (type_of_p p c) d axis) as [ax|e] eqn:Er.
    - cbn [bind]. rewrite (mapM_ext_in (SV (type_of_p p c) d axis) (SB (type_of_p p c) d ax)).
      + apply H. reflexivity.
      + intros v _. rewrite spec_v_eq, Er. reflexivity.
    - apply resolve_err in Er. subst e. reflexivity.
  Qed.

  (* nodes that do not change the type (IndexedArray, parameter-less Par) *)
  Lemma refines_transparent p c t0 d axis vs (M : Z -> res content) :
    0 <= d -> type_of_p p c = t0 -> (forall ax, MB p c d ax = M ax) ->
    (forall ax, resolve_axis t0 d axis = Ok ax -> refines (M ax) (CA t0 d ax) (mapM (SV t0 d ax) vs)) ->
    refines (MA p c d axis) (CA t0 d axis) (mapM (SV t0 d axis) vs).
  Proof.
    intros Hd Ht HM H. rewrite model_axp_eq, Ht.
    destruct (resolve_axis t0 d axis) as [ax|e] eqn:Er.
    - cbn [bind]. rewrite HM. rewrite <- (check_ax_resolved unk_ok fchk str_ok t0 d axis ax Hd Er).
      rewrite (mapM_ext_in (SV t0 d axis) (SV t0 d ax)).
      + apply H. reflexivity.
      + intros v _. symmetry. apply spec_v_resolved; assumption.
    - rewrite check_ax_eq, Er. apply resolve_err in Er. subst e. reflexivity.
  Qed.

  Lemma SB_list_at sz str t' d ax v :
    (ax =? d + 1) = true ->
    SB (TList sz str t') d ax v =
    match v with VList l => f t' l | VStr _ s => f t' (chars_of s) | _ => Err EValue end.
  Proof. intros E. cbn [spec_body]. rewrite E. destruct v; reflexivity. Qed.
  Lemma SB_list_below sz str t' d ax l :
    (ax =? d + 1) = false -> SB (TList sz str t') d ax (VList l) = rmap VList (mapM (SV t' (d + 1) ax) l).
  Proof. intros E. cbn [spec_body]. rewrite E. reflexivity. Qed.

  (* the axis sits at this list node (no string parameter) *)
  Lemma at_axis_none c cc sz vs :
    Valid None c -> list_content c = Some cc -> type_of_p None c = TList sz None (type_of_p None cc) ->
    to_list c = Ok vs ->
    refines (gs g str_ok None c)
            (if fchk (type_of_p None cc) && (str_ok || true) then Ok tt else Err EValue)
            (mapM (fun v => match v with
                            | VList l => f (type_of_p None cc) l
                            | VStr _ s => f (type_of_p None cc) (chars_of s)
                            | _ => Err EValue end) vs).
  Proof.
    intros HV Hc Ht Hl. unfold gs. cbn [is_strk andb]. rewrite orb_true_r, andb_true_r.
    destruct (fchk (type_of_p None cc)) eqn:Efc.
    - destruct (Hg None c cc vs HV Hc Hl Efc) as (c' & Hgc & Hlc); [discriminate|].
      rewrite Hgc. cbn [refines]. split; [reflexivity|].
      pose proof (to_list_typed_thm c vs HV Hl) as Hty. unfold type_of in Hty. rewrite Ht in Hty.
      destruct (mapM_total (fun v => match v with
                                     | VList l => f (type_of_p None cc) l
                                     | VStr _ s => f (type_of_p None cc) (chars_of s)
                                     | _ => Err EValue end) vs) as [ws Hws].
      { intros v Hv. rewrite Forall_forall in Hty. destruct (has_type_list_inv _ _ _ (Hty v Hv)) as (l & -> & Hl0).
        apply Hf; assumption. }
      exists ws. split; [exact Hws|]. rewrite Hlc, <- Hws. apply mapM_ext_in. intros v Hv.
      rewrite Forall_forall in Hty. destruct (has_type_list_inv _ _ _ (Hty v Hv)) as (l & -> & _). reflexivity.
    - rewrite (Hgchk None c cc HV Hc Efc). reflexivity.
  Qed.

  (* ... or below it *)
  Lemma below_list (K : content -> content) c0 t0 d ax vs0 bs ls sz :
    (forall c' ws0 ls', to_list c' = Ok ws0 -> zlen ws0 = zlen vs0 -> mapM (cut1 ws0) bs = Ok ls' ->
                        to_list (K c') = Ok (map VList ls')) ->
    (ax =? d + 1) = false -> mapM (cut1 vs0) bs = Ok ls ->
    refines (MA None c0 (d + 1) ax) (CA t0 (d + 1) ax) (mapM (SV t0 (d + 1) ax) vs0) ->
    refines (rmap K (MA None c0 (d + 1) ax)) (CA t0 (d + 1) ax) (mapM (SB (TList sz None t0) d ax) (map VList ls)).
  Proof.
    intros HK Eax Hcut IH. eapply refines_rmap; [exact IH|].
    intros c' ws0 Hc' HF.
    destruct (cuts_mapM (SV t0 (d + 1) ax) vs0 ws0 bs ls HF Hcut) as (ls' & Hls' & Hm).
    exists (map VList ls'). split.
    - rewrite mapM_map, <- Hm. apply mapM_ext_in. intros l _. apply SB_list_below, Eax.
    - eapply HK; [exact Hc'|apply (mapM_zlen _ _ _ HF)|exact Hls'].
  Qed.

  (* option nodes *)
  Lemma below_option (K : content -> content) {I} c0 t0 d ax vs0 vs (ixs : list I) (b : I -> bool) (idx : I -> Z) :
    (forall x, In x vs0 -> x <> VNone) ->
    (forall c' ws0 ws, to_list c' = Ok ws0 -> zlen ws0 = zlen vs0 -> mapM (fun i => pick_opt ws0 (b i) (idx i)) ixs = Ok ws ->
                       to_list (K c') = Ok ws) ->
    mapM (fun i => pick_opt vs0 (b i) (idx i)) ixs = Ok vs ->
    refines (MA None c0 d ax) (CA t0 d ax) (mapM (SV t0 d ax) vs0) ->
    refines (rmap K (MA None c0 d ax)) (CA t0 d ax) (mapM (SB (TOpt t0) d ax) vs).
  Proof.
    intros Hnn HK Hvs IH. eapply refines_rmap; [exact IH|].
    intros c' ws0 Hc' HF.
    destruct (mapM_square (fun i => pick_opt vs0 (b i) (idx i)) (fun i => pick_opt ws0 (b i) (idx i))
                          (optF (SV t0 d ax)) ixs vs) as (ws & Hq & Hs); [|exact Hvs|].
    { intros i v _ Hp. eapply pick_square; eassumption. }
    exists ws. split; [exact Hs|]. eapply HK; [exact Hc'|apply (mapM_zlen _ _ _ HF)|exact Hq].
  Qed.

  (* the fields of a record, in order *)
  Lemma rec_fields d ax : forall cs vss,
    Forall (fun x => forall vs, to_list x = Ok vs ->
                     refines (MA None x d ax) (CA (type_of_p None x) d ax) (mapM (SV (type_of_p None x) d ax) vs)) cs ->
    mapM to_list cs = Ok vss ->
    match mapM (fun x => MA None x d ax) cs with
    | Ok cs' => check_all unk_ok fchk str_ok d ax (map (type_of_p None) cs) = Ok tt /\
                exists wss, mapM to_list cs' = Ok wss /\
                            cols_rel (map (fun t => SV t d ax) (map (type_of_p None) cs)) vss wss
    | Err EValue => check_all unk_ok fchk str_ok d ax (map (type_of_p None) cs) = Err EValue
    | Err _ => False
    end.
  Proof.
    induction cs as [|x xs IH]; intros vss HF Hv.
    - inversion Hv; subst. cbn. split; [reflexivity|]. exists []. split; [reflexivity|constructor].
    - cbn [mapM] in Hv. apply bind_Ok in Hv as (col & Hcol & Hv). apply bind_Ok in Hv as (vss' & Hvss' & Hv). inversion Hv; subst.
      inversion HF as [|? ? Hx Hxs]; subst. specialize (Hx col Hcol). specialize (IH vss' Hxs Hvss').
      cbn [mapM map]. rewrite check_all_cons.
      destruct (MA None x d ax) as [x'|[]]; cbn [refines bind] in *; try contradiction.
      + destruct Hx as (Hchk & ws & Hs & Ht). rewrite Hchk. cbn [bind].
        destruct (mapM (fun x0 => MA None x0 d ax) xs) as [xs'|[]]; cbn [bind] in *; try contradiction.
        * destruct IH as (Hchks & wss & Hwss & Hrel). split; [exact Hchks|].
          exists (ws :: wss). cbn [mapM]. rewrite Ht, Hwss. split; [reflexivity|]. constructor; assumption.
        * exact IH.
      + rewrite Hx. reflexivity.
  Qed.

  (* string / bytestring nodes: the character buffer below is not a place an axis can point to *)
  Lemma chars_model k rn dt n dd d a : MA None (Par (Some k) rn (Numpy dt [n] dd)) d a = Err EValue.
  Proof.
    rewrite model_axp_eq. destruct (resolve_axis _ d a) as [ax|e] eqn:E; [|apply resolve_err in E; subst; reflexivity].
    cbn [bind model_body]. rewrite model_axp_eq.
    destruct (resolve_axis _ d ax) as [ax'|e] eqn:E'; [reflexivity|apply resolve_err in E'; subst; reflexivity].
  Qed.
  Lemma chars_check dt d a : CA (TNum dt) d a = Err EValue.
  Proof.
    rewrite check_ax_eq. destruct (resolve_axis _ d a) as [ax|e] eqn:E; [reflexivity|apply resolve_err in E; subst; reflexivity].
  Qed.

  Lemma bytes_of_chars l s : bytes_of (VList l) = Ok s -> l = chars_of s.
  Proof.
    cbn [bytes_of]. unfold chars_of. revert s. induction l as [|x l IH]; intros s H; cbn [mapM] in H.
    - inversion H. reflexivity.
    - apply bind_Ok in H as (z & Hz & H). apply bind_Ok in H as (s' & Hs' & H). inversion H; subst.
      cbn [map]. rewrite <- (IH s' Hs'). destruct x as [[] | | | | | |]; try discriminate. inversion Hz. reflexivity.
  Qed.

  Lemma string_node p rn c0 vs d axis :
    is_strk p = true -> Valid p c0 -> 0 <= d -> to_list (Par p rn c0) = Ok vs ->
    refines (MA p c0 d axis) (CA (type_of_p p c0) d axis) (mapM (SV (type_of_p p c0) d axis) vs).
  Proof.
    intros Es HV Hd Hl.
    assert (Hp : ParamOk p c0) by (inversion HV; subst; try assumption; discriminate).
    destruct (ParamOk_str p c0 Hp Es) as (cc & k & rn' & n & dd & Hcc & Hccdef & Hk).
    rewrite to_list_Par in Hl. apply bind_Ok in Hl as (raw & Hraw & Hl).
    assert (Hcook : exists b, strflag p = Some b /\ mapM (fun v => rmap (VStr b) (bytes_of v)) raw = Ok vs).
    { destruct p as [[]|]; try discriminate; eexists; split; try reflexivity; exact Hl. }
    destruct Hcook as (b & Hb & Hcook). clear Hl.
    (* raw values are lists of character codes *)
    assert (Hshape : exists ls, raw = map VList ls).
    { destruct c0; try discriminate.
      - rewrite to_list_ListOffset in Hraw. apply bind_Ok in Hraw as (? & _ & H). apply rmap_Ok in H as (ls & _ & ->). eauto.
      - rewrite to_list_ListA in Hraw. apply bind_Ok in Hraw as (? & _ & H). apply rmap_Ok in H as (ls & _ & ->). eauto.
      - rewrite to_list_Regular in Hraw. apply bind_Ok in Hraw as (? & _ & H). apply rmap_Ok in H as (ls & _ & ->). eauto. }
    destruct Hshape as (ls & ->).
    assert (Hty : exists sz, type_of_p p c0 = TList sz (Some b) (TNum DUInt8) /\
                  forall ax, MB p c0 d ax = if ax =? d + 1 then gs g str_ok p c0 else Err EValue).
    { destruct c0; try discriminate; cbn [list_content] in Hcc; inversion Hcc; subst; cbn [type_of_p model_body];
        rewrite Hb; eexists; (split; [reflexivity|]); intros ax; destruct (ax =? d + 1); try reflexivity;
        rewrite chars_model; reflexivity. }
    destruct Hty as (sz & Ht & HMB).
    apply refines_resolve. intros ax _. rewrite Ht, HMB. cbn [check_body].
    destruct (ax =? d + 1) eqn:Eax.
    - unfold gs. rewrite Es. cbn [andb]. destruct str_ok eqn:Eso; cbn [negb orb].
      + rewrite andb_true_r.
        assert (Htc : type_of cc = TNum DUInt8) by (subst cc; reflexivity).
        destruct (fchk (TNum DUInt8)) eqn:Efc.
        * destruct (Hg p c0 cc (map VList ls) HV Hcc Hraw) as (c' & Hgc & Hlc); [rewrite Htc; exact Efc|auto|].
          rewrite Hgc. cbn [refines]. split; [reflexivity|]. rewrite Htc in Hlc.
          assert (Heq : mapM (SB (TList sz (Some b) (TNum DUInt8)) d ax) vs =
                        mapM (fun v => match v with VList l => f (TNum DUInt8) l | _ => Err EValue end) (map VList ls)).
          { rewrite (mapM_mapM _ _ _ _ Hcook). apply mapM_ext_in. intros v Hv.
            destruct (mapM_Ok_In _ _ _ _ Hcook Hv) as (y & Hy & _). apply in_map_iff in Hv as (l & <- & _).
            apply rmap_Ok in Hy as (s & Hs & ->). rewrite Hs. cbn [rmap bind]. rewrite SB_list_at by exact Eax.
            rewrite (bytes_of_chars l s Hs). reflexivity. }
          rewrite Heq, <- Hlc.
          destruct (mapM_total (fun v => match v with VList l => f (TNum DUInt8) l | _ => Err EValue end) (map VList ls)) as [ws Hws].
          { intros v Hv. pose proof Hv as Hv'. apply in_map_iff in Hv as (l & <- & _).
            destruct (mapM_Ok_In _ _ _ _ Hcook Hv') as (y & Hy & _). apply rmap_Ok in Hy as (s & Hs & _).
            apply Hf; [exact Efc|]. rewrite (bytes_of_chars l s Hs). apply Forall_forall. intros x Hx.
            apply in_map_iff in Hx as (z & <- & _). reflexivity. }
          exists ws. rewrite Hlc. split; exact Hws.
        * rewrite (Hgchk p c0 cc HV Hcc); [reflexivity|]. rewrite Htc. exact Efc.
      + rewrite andb_false_r. reflexivity.
    - cbn [refines]. apply chars_check.
  Qed.

  Lemma chunks_indep {A B} (vs : list A) (ws : list B) size zl ch :
    chunks vs size zl = Ok ch -> zlen ws = zlen vs -> exists ch', chunks ws size zl = Ok ch' /\ zlen ch' = zlen ch.
  Proof.
    intros H Hz. pose proof (chunks_zlen _ _ _ _ H) as [Hs Hc]. unfold chunks in *.
    destruct (size <? 0); [discriminate|]. destruct (size =? 0) eqn:E.
    - destruct (zl <? 0) eqn:E2; [discriminate|]. eexists. split; [reflexivity|]. rewrite zlen_map, zlen_iota by lia. lia.
    - eexists. split; [reflexivity|]. unfold zlen at 1. rewrite chunks_nat_length, Hz.
      pose proof (zlen_nonneg vs). rewrite Z2Nat.id by (apply Z.div_pos; lia). lia.
  Qed.

  Definition ref_at (c : content) : Prop :=
    forall d axis vs, Valid None c -> frag1 c = true -> 0 <= d -> to_list c = Ok vs ->
      refines (MA None c d axis) (CA (type_of_p None c) d axis) (mapM (SV (type_of_p None c) d axis) vs).

  Lemma model_axp_refines_all c : ref_at c.
  Proof.
    induction c as [dt shape data| |w o c IHc|w s e c IHc|c size zl IHc|w ix c IHc|w ix c IHc|m vw c IHc
                   |m vw lsb n c IHc|c IHc|w t ix cs IHcs|cs ks n IHcs|arr rn c IHc] using content_ind';
      intros d axis vs HV Hfr Hd Hl; pose proof HV as HV0; cbn [frag1] in Hfr.
    - (* Numpy *)
      destruct shape as [|x [|? ?]]; try discriminate.
      apply refines_resolve. intros ax _. reflexivity.
    - (* Empty *)
      apply refines_resolve. intros ax _. cbn [model_body check_body type_of_p]. inversion Hl; subst. cbn [mapM].
      destruct unk_ok.
      + destruct Hunk as (c' & -> & Hc'). cbn [refines]. split; [reflexivity|]. exists []. split; [reflexivity|exact Hc'].
      + rewrite Hunk. reflexivity.
    - (* ListOffset *)
      inversion HV; subst.
      match goal with H : is_strk None = false -> Valid None c |- _ => specialize (H eq_refl); rename H into HVc end.
      rewrite to_list_ListOffset in Hl. apply bind_Ok in Hl as (vs0 & Hl0 & Hl). apply rmap_Ok in Hl as (ls & Hcut & ->).
      apply refines_resolve. intros ax _. cbn [type_of_p strflag model_body check_body].
      destruct (ax =? d + 1) eqn:Eax.
      + rewrite (mapM_ext_in _ _ _ (fun v _ => SB_list_at _ _ _ _ _ v Eax)).
        eapply at_axis_none; [exact HV0|reflexivity|reflexivity|].
        rewrite to_list_ListOffset, Hl0. cbn [bind]. rewrite Hcut. reflexivity.
      + unfold cut in Hcut. destruct o as [|a o]; [discriminate|].
        eapply below_list with (bs := pairs (a :: o)); [|exact Eax|exact Hcut|apply IHc; [assumption|assumption|lia|assumption]].
        intros c' ws0 ls' Hc' _ Hls'. rewrite to_list_ListOffset, Hc'. cbn [bind]. unfold cut. rewrite Hls'. reflexivity.
    - (* ListA *)
      inversion HV; subst.
      match goal with H : is_strk None = false -> Valid None c |- _ => specialize (H eq_refl); rename H into HVc end.
      rewrite to_list_ListA in Hl. apply bind_Ok in Hl as (vs0 & Hl0 & Hl). apply rmap_Ok in Hl as (ls & Hcut & ->).
      apply refines_resolve. intros ax _. cbn [type_of_p strflag model_body check_body].
      destruct (ax =? d + 1) eqn:Eax.
      + rewrite (mapM_ext_in _ _ _ (fun v _ => SB_list_at _ _ _ _ _ v Eax)).
        eapply at_axis_none; [exact HV0|reflexivity|reflexivity|].
        rewrite to_list_ListA, Hl0. cbn [bind]. rewrite Hcut. reflexivity.
      + unfold cut2 in Hcut. destruct (zlen e <? zlen s) eqn:Ese; [discriminate|].
        eapply below_list with (bs := zip s e); [|exact Eax|exact Hcut|apply IHc; [assumption|assumption|lia|assumption]].
        intros c' ws0 ls' Hc' _ Hls'. rewrite to_list_ListA, Hc'. cbn [bind]. unfold cut2. rewrite Ese, Hls'. reflexivity.
    - (* Regular *)
      inversion HV; subst.
      match goal with H : is_strk None = false -> Valid None c |- _ => specialize (H eq_refl); rename H into HVc end.
      rewrite to_list_Regular in Hl. apply bind_Ok in Hl as (vs0 & Hl0 & Hl). apply rmap_Ok in Hl as (ch & Hch & ->).
      apply refines_resolve. intros ax _. cbn [type_of_p strflag model_body check_body].
      destruct (ax =? d + 1) eqn:Eax.
      + rewrite (mapM_ext_in _ _ _ (fun v _ => SB_list_at _ _ _ _ _ v Eax)).
        eapply at_axis_none; [exact HV0|reflexivity|reflexivity|].
        rewrite to_list_Regular, Hl0. cbn [bind]. rewrite Hch. reflexivity.
      + eapply below_list with (bs := map (fun i => (i * size, (i + 1) * size)) (iota (zlen ch)));
          [|exact Eax|apply (chunks_as_cuts _ _ _ _ Hch)|apply IHc; [assumption|assumption|lia|assumption]].
        intros c' ws0 ls' Hc' Hz Hls'. rewrite to_list_Regular, Hc'. cbn [bind].
        destruct (chunks_indep vs0 ws0 size zl ch Hch Hz) as (ch' & Hch' & Hzc).
        rewrite Hch'. cbn [rmap]. pose proof (chunks_as_cuts _ _ _ _ Hch') as Hc2. rewrite Hzc, Hls' in Hc2.
        inversion Hc2; subst. reflexivity.
    - (* Indexed *)
      inversion HV; subst.
      rewrite to_list_Indexed in Hl. apply bind_Ok in Hl as (vs0 & Hl0 & Hl).
      cbn [type_of_p]. eapply refines_transparent with (M := fun ax => rmap (Indexed w ix) (MA None c d ax));
        [exact Hd|reflexivity|reflexivity|].
      intros ax _. eapply refines_rmap; [apply IHc; eassumption|].
      intros c' ws0 Hc' HF.
      destruct (gather_same_len vs0 ws0 ix) as [ws Hws]; [symmetry; apply (mapM_zlen _ _ _ HF)|eauto|].
      exists ws. split.
      + rewrite (mapM_gather_ok _ _ _ _ _ HF Hl). exact Hws.
      + rewrite to_list_Indexed, Hc'. exact Hws.
    - (* IndexedOption *)
      inversion HV; subst.
      rewrite to_list_IndexedOption in Hl. apply bind_Ok in Hl as (vs0 & Hl0 & Hl).
      assert (Hnn : forall x, In x vs0 -> x <> VNone) by (eapply nonone_values; eassumption).
      apply refines_resolve. intros ax _. cbn [type_of_p model_body check_body].
      eapply (below_option (IndexedOption w ix) c _ d ax vs0 vs ix (fun i => 0 <=? i) (fun i => i));
        [exact Hnn| |exact Hl|apply IHc; eassumption].
      intros c' ws0 ws Hc' _ Hq. rewrite to_list_IndexedOption, Hc'. exact Hq.
    - (* ByteMasked *)
      inversion HV; subst.
      rewrite to_list_ByteMasked in Hl. apply bind_Ok in Hl as (vs0 & Hl0 & Hl).
      assert (Hnn : forall x, In x vs0 -> x <> VNone) by (eapply nonone_values; eassumption).
      apply refines_resolve. intros ax _. cbn [type_of_p model_body check_body].
      eapply (below_option (ByteMasked m vw) c _ d ax vs0 vs (zip (iota (zlen m)) m)
                (fun im : Z * Z => Bool.eqb (negb (snd im =? 0)) vw) (fun im : Z * Z => fst im));
        [exact Hnn| | |apply IHc; eassumption].
      + intros c' ws0 ws Hc' _ Hq. rewrite to_list_ByteMasked, Hc'. cbn [bind]. rewrite <- Hq.
        apply mapM_ext_in. intros [i b] _. reflexivity.
      + rewrite <- Hl. apply mapM_ext_in. intros [i b] _. reflexivity.
    - (* BitMasked *)
      inversion HV; subst.
      rewrite to_list_BitMasked in Hl. apply bind_Ok in Hl as (vs0 & Hl0 & Hl).
      destruct (n <? 0) eqn:En; [discriminate|].
      assert (Hnn : forall x, In x vs0 -> x <> VNone) by (eapply nonone_values; eassumption).
      assert (Hbits : forall i, In i (iota n) -> exists b, bit_at m lsb i = Ok b).
      { intros i Hi. destruct (mapM_Ok_In _ _ _ _ Hl Hi) as (y & Hy & _). destruct (bit_at m lsb i); [eauto|discriminate]. }
      apply refines_resolve. intros ax _. cbn [type_of_p model_body check_body].
      eapply (below_option (BitMasked m vw lsb n) c _ d ax vs0 vs (iota n)
                (fun i => match bit_at m lsb i with Ok b => Bool.eqb b vw | Err _ => false end) (fun i => i));
        [exact Hnn| | |apply IHc; eassumption].
      + intros c' ws0 ws Hc' _ Hq. rewrite to_list_BitMasked, Hc'. cbn [bind]. rewrite En, <- Hq.
        apply mapM_ext_in. intros i Hi. destruct (Hbits i Hi) as [b ->]. reflexivity.
      + rewrite <- Hl. apply mapM_ext_in. intros i Hi. destruct (Hbits i Hi) as [b ->]. reflexivity.
    - (* Unmasked *)
      inversion HV; subst. rewrite to_list_Unmasked in Hl.
      assert (Hnn : forall x, In x vs -> x <> VNone) by (eapply nonone_values; eassumption).
      apply refines_resolve. intros ax _. cbn [type_of_p model_body check_body].
      eapply refines_rmap; [apply IHc; eassumption|].
      intros c' ws0 Hc' HF. exists ws0. split; [|rewrite to_list_Unmasked; exact Hc'].
      apply (optF_nonone _ vs ws0 HF Hnn).
    - discriminate.
    - (* Record *)
      inversion HV; subst.
      rewrite to_list_Record in Hl. apply bind_Ok in Hl as (vss & Hvss & Hl). rewrite all_lists_mapM in Hvss.
      destruct (n <? 0) eqn:En; [discriminate|].
      apply frag1_all in Hfr.
      apply refines_resolve. intros ax _. cbn [type_of_p model_body check_body].
      assert (HF : Forall (fun x => forall vs, to_list x = Ok vs ->
                     refines (MA None x d ax) (CA (type_of_p None x) d ax) (mapM (SV (type_of_p None x) d ax) vs)) cs).
      { apply Forall_forall. intros x Hx col Hcol. rewrite Forall_forall in IHcs, Hfr.
        match goal with H : Forall (Valid None) cs |- _ => rewrite Forall_forall in H; pose proof (H x Hx) as HVx end.
        apply IHcs; auto. }
      pose proof (rec_fields d ax cs vss HF Hvss) as HR.
      destruct (mapM (fun x => MA None x d ax) cs) as [cs'|[]]; cbn [rmap refines] in *; try contradiction; try exact HR.
      destruct HR as (Hchk & wss & Hwss & Hrel). split; [exact Hchk|].
      destruct (mapM_square (row ks vss) (row ks wss)
                  (recS (map (fun t => SV t d ax) (map (type_of_p None) cs))) (iota n) vs) as (ws & Hq & Hs); [|exact Hl|].
      { intros i v _ Hr. eapply row_commute; eassumption. }
      exists ws. split.
      + rewrite <- Hs. apply mapM_ext_in. intros v _. cbn [spec_body].
        destruct v; try reflexivity; cbn [recS]; rewrite ?rec_go_recF, ?tup_go_tupF; reflexivity.
      + rewrite to_list_Record, all_lists_mapM, Hwss. cbn [bind]. rewrite En. exact Hq.
    - (* Par *)
      inversion HV; subst.
      match goal with H : Valid arr c |- _ => rename H into HVc end.
      destruct (Valid_param arr c HVc) as [-> | Es].
      + rewrite to_list_Par in Hl. apply bind_Ok in Hl as (vs0 & Hl0 & Hl). inversion Hl; subst.
        cbn [type_of_p]. eapply refines_transparent with (M := fun ax => MA None c d ax); [exact Hd|reflexivity|reflexivity|].
        intros ax _. apply IHc; assumption.
      + cbn [type_of_p]. eapply refines_transparent with (M := fun ax => MA arr c d ax); [exact Hd|reflexivity|reflexivity|].
        intros ax _. eapply string_node; eassumption.
  Qed.

  Theorem model_axp_refines c d axis vs :
    Valid None c -> frag1 c = true -> 0 <= d -> to_list c = Ok vs ->
    refines (MA None c d axis) (CA (type_of c) d axis) (mapM (SV (type_of c) d axis) vs).
  Proof. intros. apply model_axp_refines_all; assumption. Qed.
End Generic.

(* ---------------------------------------------------------------- [expand]: n-d leaves become RegularArray chains *)
Lemma np_clen dt : forall dims n data, clen (np_regular dt n dims data) = n.
Proof.
  induction dims as [|d ds IH]; intros n data; cbn [np_regular clen]; [reflexivity|].
  destruct (d =? 0) eqn:E; [reflexivity|]. rewrite IH. apply Z.div_mul. lia.
Qed.
Lemma np_type dt : forall dims n data p, p = None -> type_of_p p (np_regular dt n dims data) = numpy_ty dt dims.
Proof.
  induction dims as [|d ds IH]; intros n data p ->; cbn [np_regular type_of_p numpy_ty tl strflag]; [reflexivity|].
  rewrite IH by reflexivity. reflexivity.
Qed.
Lemma np_frag1 dt : forall dims n data, frag1 (np_regular dt n dims data) = true.
Proof. induction dims as [|d ds IH]; intros n data; cbn [np_regular frag1]; auto. Qed.
Lemma np_valid dt : forall dims n data,
  Forall (fun d => 0 <= d) dims -> 0 <= n -> zlen data = n * prodZ dims -> Valid None (np_regular dt n dims data).
Proof.
  induction dims as [|d ds IH]; intros n data Hd Hn Hz; cbn [np_regular].
  - constructor; [exact I|discriminate|constructor; [exact Hn|constructor]|]. cbn in *. lia.
  - inversion Hd; subst. constructor; [exact I|assumption|assumption|]. intros _.
    apply IH; [assumption|nia|]. rewrite Hz, prodZ_cons. ring.
Qed.
Lemma np_to_list dt : forall dims n data,
  Forall (fun d => 0 <= d) dims -> 0 <= n -> zlen data = n * prodZ dims ->
  to_list (np_regular dt n dims data) = nest dims n (map (leaf dt) data).
Proof.
  induction dims as [|d ds IH]; intros n data Hd Hn Hz; cbn [np_regular nest].
  - rewrite to_list_Numpy. cbn [existsb prodZ fold_right] in *. rewrite Z.mul_1_r in *.
    destruct (n <? 0) eqn:E1; [lia|]. cbn [orb]. destruct (zlen data <? n) eqn:E2; [lia|].
    cbn [nest]. rewrite take_all by lia. reflexivity.
  - inversion Hd; subst. rewrite to_list_Regular, IH; [|assumption|nia|rewrite Hz, prodZ_cons; ring].
    destruct (nest ds (n * d) (map (leaf dt) data)) as [inner|]; [|reflexivity]. cbn [bind].
    destruct (chunks inner d n); reflexivity.
Qed.

Lemma clen_expand c : clen (expand c) = clen c.
Proof.
  induction c using content_ind'; cbn [expand clen]; try reflexivity; try assumption.
  - destruct shape as [|n dims]; [reflexivity|]. apply np_clen.
  - rewrite IHc. reflexivity.
Qed.
Lemma strip_expand_class c :
  optionlike (expand c) = optionlike c /\ unionlike (expand c) = unionlike c.
Proof.
  induction c using content_ind'; try (split; reflexivity).
  - destruct shape as [|n [|d ds]]; split; reflexivity.
  - exact IHc.
Qed.
Lemma expand_not_par c : (forall a r x, c <> Par a r x) -> forall a r x, expand c <> Par a r x.
Proof.
  intros H a r x. destruct c; cbn [expand]; try discriminate.
  - destruct shape as [|n [|d ds]]; discriminate.
  - exfalso. eapply H. reflexivity.
Qed.
Lemma list_content_expand c cc : list_content c = Some cc -> list_content (expand c) = Some (expand cc).
Proof. destruct c; try discriminate; cbn [list_content expand]; intros H; inversion H; reflexivity. Qed.
Lemma ParamOk_expand p c : ParamOk p c -> ParamOk p (expand c).
Proof.
  destruct p as [[]|]; cbn [ParamOk]; auto;
    intros (c' & rn & n & d & Hc & ->); apply list_content_expand in Hc; do 4 eexists; (split; [exact Hc|reflexivity]).
Qed.

Definition exp_ok (c : content) : Prop :=
  forall p, Valid p c -> frag c = true ->
  Valid p (expand c) /\ to_list (expand c) = to_list c /\ type_of_p p (expand c) = type_of_p p c /\ frag1 (expand c) = true.

Lemma chars_expand k rn n dd :
  let cc := Par (Some k) rn (Numpy DUInt8 [n] dd) in
  to_list (expand cc) = to_list cc /\ type_of_p None (expand cc) = type_of_p None cc /\ frag1 (expand cc) = true.
Proof.
  cbn zeta. split; [|split; reflexivity].
  cbn [expand np_regular]. rewrite !to_list_Par. f_equal. rewrite !to_list_Numpy.
  cbn [existsb prodZ fold_right]. rewrite Z.mul_1_r. destruct (n <? 0) eqn:E1; [reflexivity|]. cbn [orb].
  pose proof (zlen_nonneg dd).
  destruct (zlen dd <? n) eqn:E2.
  - rewrite take_all by lia. rewrite E2. reflexivity.
  - rewrite zlen_take by lia. rewrite Z.ltb_irrefl. rewrite (take_all (take n dd)) by (rewrite zlen_take; lia). reflexivity.
Qed.

Lemma content_expand p c cc :
  exp_ok cc -> ParamOk p c -> list_content c = Some cc -> (is_strk p = false -> Valid None cc) -> frag cc = true ->
  to_list (expand cc) = to_list cc /\ type_of_p None (expand cc) = type_of_p None cc /\ frag1 (expand cc) = true /\
  (is_strk p = false -> Valid None (expand cc)).
Proof.
  intros IH Hp Hc Hv Hfr. destruct (is_strk p) eqn:Es.
  - destruct (ParamOk_str _ _ Hp Es) as (c' & k & rn & n & d & Hc' & -> & Hk). rewrite Hc in Hc'. inversion Hc'; subst.
    destruct (chars_expand k rn n d) as (H1 & H2 & H3). repeat split; try assumption. discriminate.
  - destruct (IH None (Hv eq_refl) Hfr) as (H1 & H2 & H3 & H4). repeat split; try assumption. intros _. exact H1.
Qed.

Lemma expand_ok_all c : exp_ok c.
Proof.
  induction c as [dt shape data| |w o c IHc|w s e c IHc|c size zl IHc|w ix c IHc|w ix c IHc|m vw c IHc
                 |m vw lsb n c IHc|c IHc|w t ix cs IHcs|cs ks n IHcs|arr rn c IHc] using content_ind';
    intros p HV Hfr; cbn [frag] in Hfr; inversion HV; subst;
    try (match goal with Hp : ParamOk p _ |- _ => pose proof (ParamOk_expand _ _ Hp) as Hpe end).
  - (* Numpy *)
    match goal with Hp : ParamOk p _ |- _ => pose proof (ParamOk_nonlist _ _ Hp eq_refl); subst p end.
    destruct shape as [|n dims]; [congruence|].
    match goal with H : Forall _ (n :: dims) |- _ => rename H into Hs end. inversion Hs as [|? ? Hn Hds]; subst.
    assert (Hz : zlen (take (prodZ (n :: dims)) data) = n * prodZ dims).
    { rewrite zlen_take; [reflexivity|]. split; [apply prodZ_nonneg, Hs|assumption]. }
    cbn [expand]. repeat split.
    + apply np_valid; assumption.
    + rewrite np_to_list by assumption. rewrite to_list_Numpy, (Forall_nonneg_existsb _ Hs).
      destruct (zlen data <? prodZ (n :: dims)) eqn:E; [lia|]. reflexivity.
    + apply np_type. reflexivity.
    + apply np_frag1.
  - repeat split; assumption.
  - (* ListOffset *)
    match goal with Hp : ParamOk p _, Hs : _ -> Valid None c |- _ =>
      destruct (content_expand p _ c IHc Hp eq_refl Hs Hfr) as (X1 & X2 & X3 & X4) end.
    cbn [expand]. repeat split.
    + constructor; [exact Hpe|assumption|rewrite clen_expand; assumption|exact X4].
    + rewrite !to_list_ListOffset, X1. reflexivity.
    + cbn [type_of_p]. rewrite X2. reflexivity.
    + exact X3.
  - (* ListA *)
    match goal with Hp : ParamOk p _, Hs : _ -> Valid None c |- _ =>
      destruct (content_expand p _ c IHc Hp eq_refl Hs Hfr) as (X1 & X2 & X3 & X4) end.
    cbn [expand]. repeat split.
    + constructor; [exact Hpe|assumption|rewrite clen_expand; assumption|exact X4].
    + rewrite !to_list_ListA, X1. reflexivity.
    + cbn [type_of_p]. rewrite X2. reflexivity.
    + exact X3.
  - (* Regular *)
    match goal with Hp : ParamOk p _, Hs : _ -> Valid None c |- _ =>
      destruct (content_expand p _ c IHc Hp eq_refl Hs Hfr) as (X1 & X2 & X3 & X4) end.
    cbn [expand]. repeat split.
    + constructor; [exact Hpe|assumption|assumption|exact X4].
    + rewrite !to_list_Regular, X1. reflexivity.
    + cbn [type_of_p]. rewrite X2. reflexivity.
    + exact X3.
  - (* Indexed *)
    destruct (IHc None) as (X1 & X2 & X3 & X4); [assumption..|]. destruct (strip_expand_class c) as [Ho _].
    cbn [expand]. repeat split.
    + constructor; [exact Hpe|rewrite clen_expand; assumption|rewrite Ho; assumption|exact X1].
    + rewrite !to_list_Indexed, X2. reflexivity.
    + cbn [type_of_p]. exact X3.
    + exact X4.
  - (* IndexedOption *)
    destruct (IHc None) as (X1 & X2 & X3 & X4); [assumption..|]. destruct (strip_expand_class c) as [Ho _].
    cbn [expand]. repeat split.
    + constructor; [exact Hpe|rewrite clen_expand; assumption|rewrite Ho; assumption|exact X1].
    + rewrite !to_list_IndexedOption, X2. reflexivity.
    + cbn [type_of_p]. rewrite X3. reflexivity.
    + exact X4.
  - (* ByteMasked *)
    destruct (IHc None) as (X1 & X2 & X3 & X4); [assumption..|]. destruct (strip_expand_class c) as [Ho _].
    cbn [expand]. repeat split.
    + constructor; [exact Hpe|rewrite clen_expand; assumption|rewrite Ho; assumption|exact X1].
    + rewrite !to_list_ByteMasked, X2. reflexivity.
    + cbn [type_of_p]. rewrite X3. reflexivity.
    + exact X4.
  - (* BitMasked *)
    destruct (IHc None) as (X1 & X2 & X3 & X4); [assumption..|]. destruct (strip_expand_class c) as [Ho _].
    cbn [expand]. repeat split.
    + constructor; [exact Hpe|assumption|assumption|rewrite clen_expand; assumption|rewrite Ho; assumption|exact X1].
    + rewrite !to_list_BitMasked, X2. reflexivity.
    + cbn [type_of_p]. rewrite X3. reflexivity.
    + exact X4.
  - (* Unmasked *)
    destruct (IHc None) as (X1 & X2 & X3 & X4); [assumption..|]. destruct (strip_expand_class c) as [Ho _].
    cbn [expand]. repeat split.
    + constructor; [exact Hpe|rewrite Ho; assumption|exact X1].
    + rewrite !to_list_Unmasked. exact X2.
    + cbn [type_of_p]. rewrite X3. reflexivity.
    + exact X4.
  - discriminate.
  - (* Record *)
    apply frag_all in Hfr.
    match goal with H : Forall (Valid None) cs |- _ => rename H into HVs end.
    assert (Hall : forall x, In x cs -> Valid None (expand x) /\ to_list (expand x) = to_list x /\
                                      type_of_p None (expand x) = type_of_p None x /\ frag1 (expand x) = true).
    { intros x Hx. rewrite Forall_forall in IHcs, HVs, Hfr. apply IHcs; auto. }
    cbn [expand]. repeat split.
    + constructor; [exact Hpe|assumption| | |].
      * apply Forall_map. match goal with H : Forall (fun x => n <= clen x) cs |- _ => eapply Forall_impl; [|exact H] end.
        cbv beta. intros x Hx. rewrite clen_expand. exact Hx.
      * intros k Hk. rewrite map_length. auto.
      * apply Forall_map. apply Forall_forall. intros x Hx. apply Hall, Hx.
    + rewrite !to_list_Record, !all_lists_mapM, mapM_map.
      rewrite (mapM_ext_in (fun x => to_list (expand x)) to_list cs); [reflexivity|]. intros x Hx. apply Hall, Hx.
    + cbn [type_of_p]. f_equal. rewrite map_map. apply map_ext_in. intros x Hx. apply Hall, Hx.
    + cbn [frag1]. apply frag1_all. apply Forall_map. apply Forall_forall. intros x Hx. apply Hall, Hx.
  - (* Par *)
    destruct (IHc arr) as (X1 & X2 & X3 & X4); [assumption..|].
    cbn [expand]. repeat split.
    + constructor; [apply expand_not_par; assumption|exact X1].
    + rewrite !to_list_Par, X2. reflexivity.
    + cbn [type_of_p]. exact X3.
    + exact X4.
Qed.

Theorem expand_to_list c : Valid None c -> frag c = true -> to_list (expand c) = to_list c.
Proof. intros HV Hf. apply (expand_ok_all c None HV Hf). Qed.
Theorem expand_type_of c : Valid None c -> frag c = true -> type_of (expand c) = type_of c.
Proof. intros HV Hf. apply (expand_ok_all c None HV Hf). Qed.
Theorem expand_valid c : Valid None c -> frag c = true -> Valid None (expand c).
Proof. intros HV Hf. apply (expand_ok_all c None HV Hf). Qed.
Theorem expand_frag1 c : Valid None c -> frag c = true -> frag1 (expand c) = true.
Proof. intros HV Hf. apply (expand_ok_all c None HV Hf). Qed.

(* on 1-d leaves [expand] only trims the unused tail of the data buffer *)
Lemma expand_1d dt n data : expand (Numpy dt [n] data) = Numpy dt [n] (take (prodZ [n]) data).
Proof. reflexivity. Qed.

(* ---------------------------------------------------------------- T4 *)
Section T4.
  Variable f : ty -> list value -> res value.
  Variable g : option akind -> content -> res content.
  Variable unk : res content.
  Variables (unk_ok : bool) (fchk : ty -> bool) (str_ok : bool).
  Hypothesis Hg : forall p c cc vs,
    Valid p c -> list_content c = Some cc -> to_list c = Ok vs -> fchk (type_of cc) = true ->
    (is_strk p = true -> str_ok = true) ->
    exists c', g p c = Ok c' /\
               to_list c' = mapM (fun v => match v with VList l => f (type_of cc) l | _ => Err EValue end) vs.
  Hypothesis Hgchk : forall p c cc,
    Valid p c -> list_content c = Some cc -> fchk (type_of cc) = false -> g p c = Err EValue.
  Hypothesis Hf : forall t l, fchk t = true -> Forall (has_type t) l -> exists v, f t l = Ok v.
  Hypothesis Hunk : if unk_ok then exists c', unk = Ok c' /\ to_list c' = Ok [] else unk = Err EValue.

  Theorem model_ax_refines c axis vs :
    Valid None c -> frag c = true -> to_list c = Ok vs ->
    match model_ax g unk str_ok c axis with
    | Ok c' => spec_ax f unk_ok fchk str_ok (type_of c) axis vs = to_list c'
    | Err EValue => spec_ax f unk_ok fchk str_ok (type_of c) axis vs = Err EValue
    | Err _ => False
    end.
  Proof.
    intros HV Hfr Hl. unfold model_ax, spec_ax.
    pose proof (model_axp_refines f g unk unk_ok fchk str_ok Hg Hgchk Hf Hunk (expand c) 0 axis vs
                  (expand_valid c HV Hfr) (expand_frag1 c HV Hfr) (Z.le_refl 0)) as H.
    rewrite (expand_to_list c HV Hfr), (expand_type_of c HV Hfr) in H. specialize (H Hl).
    destruct (model_axp g unk str_ok None (expand c) 0 axis) as [c'|[]]; cbn [refines] in H; try contradiction.
    - destruct H as (Hc & ws & Hs & Ht). rewrite Hc. cbn [bind]. rewrite Hs, Ht. reflexivity.
    - rewrite H. reflexivity.
  Qed.

  (* the same as one equation between observations *)
  Definition obs (r : res content) : res (list value) := match r with Ok c' => to_list c' | Err e => Err e end.
  Corollary model_ax_obs c axis vs :
    Valid None c -> frag c = true -> to_list c = Ok vs ->
    obs (model_ax g unk str_ok c axis) = spec_ax f unk_ok fchk str_ok (type_of c) axis vs.
  Proof.
    intros HV Hfr Hl. pose proof (model_ax_refines c axis vs HV Hfr Hl) as H.
    destruct (model_ax g unk str_ok c axis) as [c'|[]]; cbn [obs]; try contradiction; symmetry; exact H.
  Qed.
End T4.
