(** C17 proofs, part 2: the type obtained from the form of a valid layout is the core type of the layout;
    carry / range slicing keep the type. *)
From Coq Require Import ZArith List Bool Lia.
From AwkV Require Import Base Layout LayoutInd Valid Types Carry.
From AwkTypes Require Import Json Forms TypeStr Proofs_Depth.
Import ListNotations.
Open Scope Z_scope.

Definition rerase (r : res rty) : res ty := rmap erase r.

Lemma strflag_params_of a r : strflag_params (params_of a r) = strflag a.
Proof. destruct a as [[]|], r; reflexivity. Qed.

Lemma erase_numpy_fold s p dt dims :
  erase (fold_right (fun d t => RReg [] s d t) (RNum p s (FD dt)) dims) = numpy_ty dt dims.
Proof. induction dims; simpl; [reflexivity|]. rewrite IHdims. reflexivity. Qed.

Lemma mapM_id_types ts (cs : list content) :
  Forall (fun c => rerase (type_of_form ts (form_of_p None None c)) = Ok (type_of_p None c)) cs ->
  exists l, mapM_id (map (type_of_form ts) (map (form_of_p None None) cs)) = Ok l /\
            map erase l = map (type_of_p None) cs.
Proof.
  induction 1 as [|c cs Hc Hcs IH]; simpl.
  - exists []. split; reflexivity.
  - destruct IH as (l & Hl & Hm).
    unfold rerase in Hc. destruct (type_of_form ts (form_of_p None None c)) as [t|e]; simpl in Hc; [|discriminate].
    inversion Hc; subst. simpl. rewrite Hl. simpl. eexists. split; [reflexivity|]. simpl. rewrite Hm. reflexivity.
Qed.

(* parameters of an IndexedArray that are pushed onto the content's type never change the erased type,
   as long as they do not carry __array__ (always the case under Valid) *)
Lemma erase_set_params p t : strflag_params p = strflag_params (rty_params t) -> erase (rty_set_params p t) = erase t.
Proof. destruct t; simpl; intros H; try reflexivity; rewrite H; reflexivity. Qed.

Lemma params_of_none_r r : params_of None r = match r with Some n => [(k_record, JStr n)] | None => [] end.
Proof. destruct r; reflexivity. Qed.

Lemma bytes_eqb_eq (a b : bytes) : bytes_eqb a b = true -> a = b.
Proof.
  revert b. unfold bytes_eqb. induction a as [|x a IH]; intros [|y b]; simpl; try discriminate; auto.
  intros H. apply andb_true_iff in H as [H1 H2]. apply Z.eqb_eq in H1. subst. f_equal. auto.
Qed.

Lemma strflag_pset_record n (p : params) :
  strflag_params (pset k_record (JStr n) p) = strflag_params p.
Proof.
  unfold strflag_params, param_is_str.
  assert (H : pfind k_array (pset k_record (JStr n) p) = pfind k_array p).
  { induction p as [|[k v] p IH]; [reflexivity|].
    cbn [pset]. destruct (bytes_ltb k_record k) eqn:E1.
    - reflexivity.
    - destruct (bytes_ltb k k_record) eqn:E2.
      + cbn [pfind]. rewrite IH. reflexivity.
      + (* k = k_record as far as the order goes: neither is the key __array__ *)
        cbn [pfind]. destruct (bytes_eqb k k_array) eqn:E3.
        * exfalso. apply bytes_eqb_eq in E3. subst k. vm_compute in E2. discriminate.
        * change (bytes_eqb k_record k_array) with false. cbv iota. reflexivity. }
  rewrite H. reflexivity.
Qed.

Lemma rec_neq_arr : bytes_eqb k_record k_array = false.
Proof. reflexivity. Qed.

Lemma type_of_form_indexed ts m i f t :
  type_of_form ts f = Ok t ->
  type_of_form ts (FIndexed m i f) =
  match rty_params t, m_params m with
  | _, [] => Ok t
  | [], _ => Ok (rty_set_params (categorical_fix (m_params m) (m_params m) true) t)
  | op, _ =>
      Ok (rty_set_params
            (categorical_fix (m_params m)
               (fold_left (fun acc kv => if bytes_eqb (fst kv) k_array then acc
                                         else setparameter (fst kv) (snd kv) acc) (m_params m) op) false) t)
  end.
Proof. intros H. cbn [type_of_form]. rewrite H. reflexivity. Qed.

(* an IndexedArray that carries at most a record name: pushing its parameters onto the content's type
   does not change the erased type *)
Lemma erase_indexed_record ts w f t r :
  type_of_form ts f = Ok t ->
  rerase (type_of_form ts (FIndexed (meta_of None r) w f)) = Ok (erase t).
Proof.
  intros H. rewrite (type_of_form_indexed ts _ _ _ _ H). unfold meta_of. cbn [m_params]. rewrite params_of_none_r.
  destruct r as [n|]; [|destruct (rty_params t); reflexivity].
  destruct (rty_params t) as [|kv op] eqn:Ep.
  - unfold rerase, rmap. f_equal. apply erase_set_params. rewrite Ep.
    unfold categorical_fix, param_is_str. cbn [pfind]. rewrite rec_neq_arr. reflexivity.
  - unfold rerase, rmap. f_equal. apply erase_set_params. rewrite Ep.
    unfold categorical_fix, param_is_str. cbn [pfind]. rewrite rec_neq_arr.
    cbn [fold_left fst snd]. rewrite rec_neq_arr. unfold setparameter. apply strflag_pset_record.
Qed.

Theorem type_of_form_of_gen ts c : forall p r, Valid p c ->
  rerase (type_of_form ts (form_of_p p r c)) = Ok (type_of_p p c).
Proof.
  induction c using content_ind'; intros p r HV; inversion HV; subst; unfold rerase.
  - (* Numpy *)
    simpl. rewrite erase_numpy_fold. reflexivity.
  - reflexivity.
  - (* ListOffset *)
    simpl. destruct (is_strk p) eqn:Es.
    + destruct p as [[]|]; try discriminate Es;
        match goal with Hp : ParamOk _ _ |- _ => simpl in Hp; destruct Hp as (c' & rn & n & d & Hc & ->); inversion Hc; subst end;
        simpl; rewrite strflag_params_of; reflexivity.
    + match goal with Hs : _ = false -> Valid None c |- _ => specialize (IHc None None (Hs eq_refl)) end.
      unfold rerase in IHc. destruct (type_of_form ts (form_of_p None None c)); simpl in IHc; [|discriminate].
      inversion IHc; subst. simpl. rewrite strflag_params_of. reflexivity.
  - (* ListA *)
    simpl. destruct (is_strk p) eqn:Es.
    + destruct p as [[]|]; try discriminate Es;
        match goal with Hp : ParamOk _ _ |- _ => simpl in Hp; destruct Hp as (c' & rn & n & d & Hc & ->); inversion Hc; subst end;
        simpl; rewrite strflag_params_of; reflexivity.
    + match goal with Hs : _ = false -> Valid None c |- _ => specialize (IHc None None (Hs eq_refl)) end.
      unfold rerase in IHc. destruct (type_of_form ts (form_of_p None None c)); simpl in IHc; [|discriminate].
      inversion IHc; subst. simpl. rewrite strflag_params_of. reflexivity.
  - (* Regular *)
    simpl. destruct (is_strk p) eqn:Es.
    + destruct p as [[]|]; try discriminate Es;
        match goal with Hp : ParamOk _ _ |- _ => simpl in Hp; destruct Hp as (c' & rn & n & d & Hc & ->); inversion Hc; subst end;
        simpl; rewrite strflag_params_of; reflexivity.
    + match goal with Hs : _ = false -> Valid None c |- _ => specialize (IHc None None (Hs eq_refl)) end.
      unfold rerase in IHc. destruct (type_of_form ts (form_of_p None None c)); simpl in IHc; [|discriminate].
      inversion IHc; subst. simpl. rewrite strflag_params_of. reflexivity.
  - (* Indexed: p is None under Valid (no list below) *)
    match goal with Hp : ParamOk p _ |- _ => destruct p as [[]|]; simpl in Hp; try contradiction;
      try (destruct Hp as (c' & rn & n & d & Hc & _); discriminate Hc) end.
    match goal with Hv : Valid None c |- _ => specialize (IHc None None Hv) end.
    unfold rerase in IHc.
    destruct (type_of_form ts (form_of_p None None c)) as [t|] eqn:Et; simpl in IHc; [|discriminate].
    inversion IHc; subst. cbn [form_of_p]. fold (rerase (type_of_form ts (FIndexed (meta_of None r) (iform_of_width w) (form_of_p None None c)))).
    rewrite (erase_indexed_record ts _ _ _ r Et). cbn [type_of_p]. congruence.
  - (* IndexedOption *)
    match goal with Hp : ParamOk p _ |- _ => destruct p as [[]|]; simpl in Hp; try contradiction;
      try (destruct Hp as (c' & rn & n & d & Hc & _); discriminate Hc) end.
    match goal with Hv : Valid None c |- _ => specialize (IHc None None Hv) end.
    unfold rerase in IHc. simpl.
    destruct (type_of_form ts (form_of_p None None c)) as [t|]; simpl in IHc; [|discriminate].
    inversion IHc; subst. reflexivity.
  - match goal with Hp : ParamOk p _ |- _ => destruct p as [[]|]; simpl in Hp; try contradiction;
      try (destruct Hp as (c' & rn & n & d & Hc & _); discriminate Hc) end.
    match goal with Hv : Valid None c |- _ => specialize (IHc None None Hv) end.
    unfold rerase in IHc. simpl.
    destruct (type_of_form ts (form_of_p None None c)) as [t|]; simpl in IHc; [|discriminate].
    inversion IHc; subst. reflexivity.
  - match goal with Hp : ParamOk p _ |- _ => destruct p as [[]|]; simpl in Hp; try contradiction;
      try (destruct Hp as (c' & rn & n' & d & Hc & _); discriminate Hc) end.
    match goal with Hv : Valid None c |- _ => specialize (IHc None None Hv) end.
    unfold rerase in IHc. simpl.
    destruct (type_of_form ts (form_of_p None None c)) as [t|]; simpl in IHc; [|discriminate].
    inversion IHc; subst. reflexivity.
  - match goal with Hp : ParamOk p _ |- _ => destruct p as [[]|]; simpl in Hp; try contradiction;
      try (destruct Hp as (c' & rn & n & d & Hc & _); discriminate Hc) end.
    match goal with Hv : Valid None c |- _ => specialize (IHc None None Hv) end.
    unfold rerase in IHc. simpl.
    destruct (type_of_form ts (form_of_p None None c)) as [t|]; simpl in IHc; [|discriminate].
    inversion IHc; subst. reflexivity.
  - (* Union *)
    simpl.
    destruct (mapM_id_types ts cs) as (l & Hl & Hm).
    { match goal with HF : Forall (Valid None) cs |- _ =>
        eapply Forall_impl2; [|exact H|exact HF]; intros x Hx Hv; apply (Hx None None Hv) end. }
    rewrite Hl. simpl. rewrite Hm. reflexivity.
  - (* Record *)
    simpl.
    destruct (mapM_id_types ts cs) as (l & Hl & Hm).
    { match goal with HF : Forall (Valid None) cs |- _ =>
        eapply Forall_impl2; [|exact H|exact HF]; intros x Hx Hv; apply (Hx None None Hv) end. }
    rewrite Hl. simpl. rewrite Hm. reflexivity.
  - (* Par *)
    cbn [form_of_p type_of_p por]. eapply IHc. eassumption.
Qed.

(* ---------------------------------------------------------------- carry keeps the type *)
Lemma carry_all_types (cs : list content) ix :
  Forall (fun c => forall p ix c', carry c ix = Ok c' -> type_of_p p c' = type_of_p p c) cs ->
  forall cs',
    (fix all (l : list content) : res (list content) :=
       match l with
       | [] => Ok []
       | x :: xs => do y <- carry x ix; do ys <- all xs; Ok (y :: ys)
       end) cs = Ok cs' ->
    map (type_of_p None) cs' = map (type_of_p None) cs.
Proof.
  induction 1 as [|c cs Hc Hcs IH]; intros cs' H.
  - inversion H. reflexivity.
  - destruct (carry c ix) as [y|] eqn:Ey; [|discriminate]. simpl in H.
    match type of H with bind ?X _ = _ => destruct X as [ys|] eqn:Eys end; [|discriminate].
    simpl in H. inversion H; subst. simpl. rewrite (Hc None ix y Ey). rewrite (IH ys eq_refl). reflexivity.
Qed.

Theorem carry_preserves_type c : forall p ix c', carry c ix = Ok c' -> type_of_p p c' = type_of_p p c.
Proof.
  induction c as [ | | | | | | | | | | w t ix cs HF | cs ks n HF | ] using content_ind'; intros p ix' c' H; simpl in H.
  - destruct shape as [|n dims]; [discriminate|].
    destruct (mapM _ ix') as [rows|]; [|discriminate]. simpl in H. inversion H; subst. reflexivity.
  - destruct ix'; inversion H; reflexivity.
  - destruct (gather (removelast o) ix'); [|discriminate]. simpl in H.
    destruct (gather (tl o) ix'); [|discriminate]. simpl in H. inversion H; subst. reflexivity.
  - destruct (gather s ix'); [|discriminate]. simpl in H.
    destruct (gather e ix'); [|discriminate]. simpl in H. inversion H; subst. reflexivity.
  - destruct (mapM _ ix') as [next|]; [|discriminate]. simpl in H.
    destruct (carry c (concat next)) as [c''|] eqn:Ec; [|discriminate]. simpl in H. inversion H; subst.
    simpl. rewrite (IHc None _ _ Ec). reflexivity.
  - destruct (gather ix ix'); [|discriminate]. simpl in H. inversion H; subst. reflexivity.
  - destruct (gather ix ix'); [|discriminate]. simpl in H. inversion H; subst. reflexivity.
  - destruct (gather m ix'); [|discriminate]. simpl in H.
    destruct (carry c ix') as [c''|] eqn:Ec; [|discriminate]. simpl in H. inversion H; subst.
    simpl. rewrite (IHc None _ _ Ec). reflexivity.
  - destruct (bytemask_of_bits m lsb n) as [bm|]; [|discriminate]. simpl in H.
    destruct (gather bm ix'); [|discriminate]. simpl in H.
    destruct (carry c ix') as [c''|] eqn:Ec; [|discriminate]. simpl in H. inversion H; subst.
    simpl. rewrite (IHc None _ _ Ec). reflexivity.
  - destruct (carry c ix') as [c''|] eqn:Ec; [|discriminate]. simpl in H. inversion H; subst.
    simpl. rewrite (IHc None _ _ Ec). reflexivity.
  - destruct (gather t ix'); [|discriminate]. simpl in H.
    destruct (gather (take (zlen t) ix) ix'); [|discriminate]. simpl in H. inversion H; subst. reflexivity.
  - destruct (forallb _ ix'); [|discriminate].
    match type of H with bind ?X _ = _ => destruct X as [cs'|] eqn:Ecs end; [|discriminate].
    simpl in H. inversion H; subst. simpl. f_equal.
    apply (carry_all_types cs ix'); [|exact Ecs].
    eapply Forall_impl; [|exact HF]. intros x Hx. exact Hx.
  - destruct (carry c ix') as [c''|] eqn:Ec; [|discriminate]. simpl in H. inversion H; subst.
    simpl. apply (IHc arr _ _ Ec).
Qed.
