(** C17 proofs, part 1: the depth / field queries answered by a layout and by its form agree. *)
From Coq Require Import ZArith List Bool Lia.
From AwkV Require Import Base Layout LayoutInd Valid Types.
From AwkTypes Require Import Json Forms.
Import ListNotations.
Open Scope Z_scope.

Lemma mapM_id_map_ok {A B C} (f : B -> res C) (h : A -> B) (g : A -> C) (l : list A) :
  Forall (fun x => f (h x) = Ok (g x)) l -> mapM_id (map f (map h l)) = Ok (map g l).
Proof.
  induction 1 as [|x l Hx Hl IH]; simpl; [reflexivity|].
  rewrite Hx. simpl. rewrite IH. reflexivity.
Qed.

Lemma map_map_ok {A B C} (f : B -> res C) (h : A -> B) (g : A -> C) (l : list A) :
  Forall (fun x => f (h x) = Ok (g x)) l -> map f (map h l) = map Ok (map g l).
Proof. induction 1 as [|x l Hx Hl IH]; simpl; [reflexivity|]. rewrite Hx, IH. reflexivity. Qed.

Lemma depth_scan_ok d0 l :
  depth_scan d0 (map Ok l) = Ok (if forallb (Z.eqb d0) l then d0 else -1).
Proof.
  induction l as [|d l IH]; simpl; [reflexivity|].
  destruct (d0 =? d); simpl; [exact IH|reflexivity].
Qed.

Lemma all_regular_ok l : all_regular (map Ok l) = Ok (forallb (fun b : bool => b) l).
Proof. induction l as [|b l IH]; simpl; [reflexivity|]. destruct b; simpl; [exact IH|reflexivity]. Qed.

Lemma is_string_params_of a r : is_string_params (params_of a r) = is_string_kind a.
Proof. destruct a as [[]|], r; reflexivity. Qed.

Lemma forallb_Forall_np cs : forallb np_ok cs = true -> Forall (fun c => np_ok c = true) cs.
Proof. intros H. apply Forall_forall. intros x Hx. rewrite forallb_forall in H. auto. Qed.

Lemma Forall_impl2 {A} (P Q R : A -> Prop) l :
  (forall x, P x -> Q x -> R x) -> Forall P l -> Forall Q l -> Forall R l.
Proof. intros H HP. induction HP; intros HQ; inversion HQ; subst; constructor; auto. Qed.

Lemma zlen_tl_shape (shape : list Z) : shape <> [] -> zlen (tl shape) + 1 = zlen shape.
Proof. destruct shape; [congruence|]. intros _. unfold zlen. simpl length. lia. Qed.

Ltac np_shape shape H :=
  destruct shape as [|n dims]; [discriminate H|];
  change (tl (n :: dims)) with dims;
  replace (zlen (n :: dims)) with (zlen dims + 1) by (unfold zlen; simpl length; lia).

Ltac list_case a r IH Hnp :=
  simpl; rewrite is_string_params_of; destruct (is_string_kind a); [reflexivity|];
  rewrite (IH None None Hnp); reflexivity.

Lemma purelist_depth_agree c : forall a r, np_ok c = true ->
  f_purelist_depth (form_of_p a r c) = Ok (c_purelist_depth a c).
Proof.
  induction c using content_ind'; intros a r Hnp; simpl in Hnp.
  - simpl. np_shape shape Hnp. reflexivity.
  - reflexivity.
  - list_case a r IHc Hnp.
  - list_case a r IHc Hnp.
  - list_case a r IHc Hnp.
  - simpl. apply (IHc None None Hnp).
  - simpl. apply (IHc None None Hnp).
  - simpl. apply (IHc None None Hnp).
  - simpl. apply (IHc None None Hnp).
  - simpl. apply (IHc None None Hnp).
  - simpl.
    rewrite (map_map_ok f_purelist_depth (form_of_p None None) (c_purelist_depth None)).
    + destruct (map (c_purelist_depth None) cs) as [|d0 rest]; simpl; [reflexivity|]. apply depth_scan_ok.
    + apply forallb_Forall_np in Hnp.
      eapply Forall_impl2; [|exact H|exact Hnp]. intros x Hx Hn. apply Hx, Hn.
  - reflexivity.
  - simpl. apply IHc, Hnp.
Qed.

Lemma minmax_depth_agree c : forall a r, np_ok c = true ->
  f_minmax_depth (form_of_p a r c) = Ok (c_minmax_depth a c).
Proof.
  induction c using content_ind'; intros a r Hnp; simpl in Hnp.
  - simpl. np_shape shape Hnp. reflexivity.
  - reflexivity.
  - list_case a r IHc Hnp.
  - list_case a r IHc Hnp.
  - list_case a r IHc Hnp.
  - simpl. apply (IHc None None Hnp).
  - simpl. apply (IHc None None Hnp).
  - simpl. apply (IHc None None Hnp).
  - simpl. apply (IHc None None Hnp).
  - simpl. apply (IHc None None Hnp).
  - simpl.
    rewrite (mapM_id_map_ok f_minmax_depth (form_of_p None None) (c_minmax_depth None)).
    + reflexivity.
    + apply forallb_Forall_np in Hnp.
      eapply Forall_impl2; [|exact H|exact Hnp]. intros x Hx Hn. apply Hx, Hn.
  - simpl.
    rewrite (mapM_id_map_ok f_minmax_depth (form_of_p None None) (c_minmax_depth None)).
    + reflexivity.
    + apply forallb_Forall_np in Hnp.
      eapply Forall_impl2; [|exact H|exact Hnp]. intros x Hx Hn. apply Hx, Hn.
  - simpl. apply IHc, Hnp.
Qed.

Lemma branch_depth_agree c : forall a r, np_ok c = true ->
  f_branch_depth (form_of_p a r c) = Ok (c_branch_depth a c).
Proof.
  induction c using content_ind'; intros a r Hnp; simpl in Hnp.
  - simpl. np_shape shape Hnp. reflexivity.
  - reflexivity.
  - list_case a r IHc Hnp.
  - list_case a r IHc Hnp.
  - list_case a r IHc Hnp.
  - simpl. apply (IHc None None Hnp).
  - simpl. apply (IHc None None Hnp).
  - simpl. apply (IHc None None Hnp).
  - simpl. apply (IHc None None Hnp).
  - simpl. apply (IHc None None Hnp).
  - simpl.
    rewrite (mapM_id_map_ok f_branch_depth (form_of_p None None) (c_branch_depth None)).
    + reflexivity.
    + apply forallb_Forall_np in Hnp.
      eapply Forall_impl2; [|exact H|exact Hnp]. intros x Hx Hn. apply Hx, Hn.
  - simpl. destruct cs as [|c0 cs']; [reflexivity|].
    change (map (form_of_p None None) (c0 :: cs')) with (form_of_p None None c0 :: map (form_of_p None None) cs').
    cbv iota beta.
    change (form_of_p None None c0 :: map (form_of_p None None) cs') with (map (form_of_p None None) (c0 :: cs')).
    rewrite (mapM_id_map_ok f_branch_depth (form_of_p None None) (c_branch_depth None)).
    + reflexivity.
    + apply forallb_Forall_np in Hnp.
      eapply Forall_impl2; [|exact H|exact Hnp]. intros x Hx Hn. apply Hx, Hn.
  - simpl. apply IHc, Hnp.
Qed.

Lemma purelist_isregular_agree c : forall a r,
  f_purelist_isregular (form_of_p a r c) = Ok (c_purelist_isregular c).
Proof.
  induction c using content_ind'; intros a r; simpl; try reflexivity; try apply IHc.
  rewrite (map_map_ok f_purelist_isregular (form_of_p None None) c_purelist_isregular).
  - rewrite all_regular_ok. f_equal. clear H. induction cs; simpl; [reflexivity|]. rewrite IHcs. reflexivity.
  - eapply Forall_impl; [|exact H]. intros x Hx. apply Hx.
Qed.

Lemma keys_agree c : forall a r, f_keys (form_of_p a r c) = Ok (c_keys c).
Proof.
  induction c using content_ind'; intros a r; simpl; try reflexivity; try apply IHc.
  - rewrite (mapM_id_map_ok f_keys (form_of_p None None) c_keys).
    + reflexivity.
    + eapply Forall_impl; [|exact H]. intros x Hx. apply Hx.
  - destruct ks; [reflexivity|]. rewrite map_length. reflexivity.
Qed.

Lemma numfields_agree c : forall a r, f_numfields (form_of_p a r c) = Ok (c_numfields c).
Proof.
  induction c using content_ind'; intros a r; simpl; try reflexivity; try apply IHc.
  - rewrite (mapM_id_map_ok f_keys (form_of_p None None) c_keys).
    + reflexivity.
    + apply Forall_forall. intros x _. apply keys_agree.
  - unfold zlen. rewrite map_length. reflexivity.
Qed.

(* a valid layout has no zero-dimensional NumpyArray node *)
Lemma valid_np_ok c : forall p, Valid p c -> np_ok c = true.
Proof.
  induction c using content_ind'; intros p HV; inversion HV; subst; simpl; auto.
  - destruct shape; [congruence|reflexivity].
  - match goal with Hp : ParamOk p _, Hs : is_strk p = false -> _ |- _ =>
      destruct p as [[]|]; simpl in Hp; try contradiction;
      try (destruct Hp as (c' & rn & n & d & Hc & ->); inversion Hc; subst; reflexivity);
      eapply IHc; apply Hs; reflexivity end.
  - match goal with Hp : ParamOk p _, Hs : is_strk p = false -> _ |- _ =>
      destruct p as [[]|]; simpl in Hp; try contradiction;
      try (destruct Hp as (c' & rn & n & d & Hc & ->); inversion Hc; subst; reflexivity);
      eapply IHc; apply Hs; reflexivity end.
  - match goal with Hp : ParamOk p _, Hs : is_strk p = false -> _ |- _ =>
      destruct p as [[]|]; simpl in Hp; try contradiction;
      try (destruct Hp as (c' & rn & n & d & Hc & ->); inversion Hc; subst; reflexivity);
      eapply IHc; apply Hs; reflexivity end.
  - eauto.
  - eauto.
  - eauto.
  - eauto.
  - eauto.
  - apply forallb_forall. intros x Hx.
    rewrite Forall_forall in H. match goal with HF : Forall (Valid None) cs |- _ => rewrite Forall_forall in HF; eauto end.
  - apply forallb_forall. intros x Hx.
    rewrite Forall_forall in H. match goal with HF : Forall (Valid None) cs |- _ => rewrite Forall_forall in HF; eauto end.
  - eauto.
Qed.
