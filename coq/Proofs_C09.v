(** C09: what the pad / fill specifications do to one list / one value. *)
From AwkV Require Import Layout Ops_Struct Ops_Option.
From Coq Require Import ZifyBool.

Lemma zlen_app {A} (l m : list A) : zlen (l ++ m) = zlen l + zlen m.
Proof. unfold zlen. rewrite app_length. lia. Qed.
Lemma zlen_repeatZ {A} (x : A) n : zlen (repeatZ x n) = Z.max 0 n.
Proof. unfold zlen, repeatZ. rewrite repeat_length. lia. Qed.
Lemma zlen_nonneg {A} (l : list A) : 0 <= zlen l.
Proof. unfold zlen. lia. Qed.

(* pad_none(target): every list gets length max(len, target), by appending None only *)
Theorem rpad_length target t l out :
  rpad_f target t l = Ok (VList out) -> zlen out = Z.max (zlen l) target.
Proof.
  unfold rpad_f. intros H. inversion H; subst. rewrite zlen_app, zlen_repeatZ.
  pose proof (zlen_nonneg l). lia.
Qed.
Theorem rpad_prefix_and_suffix target t l :
  exists k, rpad_f target t l = Ok (VList (l ++ repeat VNone k)) /\ Z.of_nat k = Z.max 0 (target - zlen l).
Proof.
  exists (Z.to_nat (target - zlen l)). split; [reflexivity|]. lia.
Qed.

Lemma firstn_app_le {A} (l m : list A) n : (n <= length l)%nat -> firstn n (l ++ m) = firstn n l.
Proof. intros H. rewrite firstn_app. replace (n - length l)%nat with 0%nat by lia. cbn. apply app_nil_r. Qed.

(* with clip=True every list gets exactly length target: a prefix of the list, then None *)
Theorem rpadclip_length target t l out :
  0 <= target -> rpadclip_f target t l = Ok (VList out) -> zlen out = target.
Proof.
  unfold rpadclip_f, take. intros Ht H. inversion H; subst.
  unfold zlen. rewrite firstn_length, app_length. unfold repeatZ. rewrite repeat_length.
  unfold zlen. lia.
Qed.
Theorem rpadclip_is_prefix_then_none target t l :
  0 <= target ->
  rpadclip_f target t l =
  Ok (VList (if target <=? zlen l then firstn (Z.to_nat target) l
             else l ++ repeat VNone (Z.to_nat (target - zlen l)))).
Proof.
  intros Ht. unfold rpadclip_f, take, repeatZ. f_equal. f_equal.
  destruct (Z.leb_spec target (zlen l)) as [H|H].
  - apply firstn_app_le. unfold zlen in H. lia.
  - rewrite firstn_all2; auto. rewrite app_length, repeat_length. unfold zlen in *. lia.
Qed.

(* the model's index: positions start..stop-1, then -1 (missing), clipped when asked *)
Theorem pad_index_spec clip target a b :
  a <= b ->
  pad_index clip target (a, b) =
  let ix := range a b ++ repeat (-1) (Z.to_nat (target - (b - a))) in
  if clip then firstn (Z.to_nat target) ix else ix.
Proof. intros _. reflexivity. Qed.

(* fill_none replaces exactly the missing values (of the outermost option level of each branch) *)
Theorem fillna_replaces_none v0 t : fillna_v v0 (TOpt t) VNone = Ok v0.
Proof. reflexivity. Qed.
Theorem fillna_keeps_present v0 t v : v <> VNone -> fillna_v v0 (TOpt t) v = Ok v.
Proof. intros H. destruct v; cbn; congruence. Qed.
Theorem fillna_keeps_leaves v0 dt v : fillna_v v0 (TNum dt) v = Ok v.
Proof. reflexivity. Qed.

Lemma mapM_length_ok {A B} (f : A -> res B) l ys : mapM f l = Ok ys -> length ys = length l.
Proof.
  revert ys. induction l as [|x xs IH]; intros ys H; cbn in H.
  - inversion H. reflexivity.
  - destruct (f x); [|discriminate]. cbn in H. destruct (mapM f xs) eqn:E; [|discriminate].
    cbn in H. inversion H; subst. cbn. f_equal. apply IH. reflexivity.
Qed.
Theorem fillna_keeps_list_lengths v0 sz t l out :
  fillna_v v0 (TList sz None t) (VList l) = Ok (VList out) -> length out = length l.
Proof.
  cbn [fillna_v]. intros H. destruct (mapM (fillna_v v0 t) l) as [ys|] eqn:E; [|discriminate].
  cbn in H. inversion H; subst. eapply mapM_length_ok. exact E.
Qed.

Example pad_examples :
  rpad_f 3 TUnk [VNum (DZ 1)] = Ok (VList [VNum (DZ 1); VNone; VNone]) /\
  rpadclip_f 1 TUnk [VNum (DZ 1); VNum (DZ 2)] = Ok (VList [VNum (DZ 1)]) /\
  rpad_f 1 TUnk [VNum (DZ 1); VNum (DZ 2)] = Ok (VList [VNum (DZ 1); VNum (DZ 2)]).
Proof. repeat split; reflexivity. Qed.

(** The option encodings are interchangeable: every option node has the value of the
    IndexedOptionArray64 that [option_index] (toIndexedOptionArray64) computes. *)
From AwkV Require Import Carry.

Lemma mapM_map {A B C} (f : B -> res C) (g : A -> B) l : mapM f (map g l) = mapM (fun x => f (g x)) l.
Proof. induction l as [|x xs IH]; cbn; auto. rewrite IH. reflexivity. Qed.
Lemma mapM_ext {A B} (f g : A -> res B) l : (forall x, In x l -> f x = g x) -> mapM f l = mapM g l.
Proof.
  induction l as [|x xs IH]; cbn; intros H; auto.
  rewrite (H x (or_introl eq_refl)), IH; auto.
Qed.

Theorem indexedoption_normalised w ix c vs :
  to_list c = Ok vs ->
  to_list (IndexedOption w ix c) =
  to_list (IndexedOption I64 (map (fun i => if i <? 0 then -1 else i) ix) c).
Proof.
  intros H. cbn [to_list]. rewrite H. cbn [bind]. rewrite mapM_map.
  apply mapM_ext. intros i _. destruct (i <? 0) eqn:E.
  - replace (0 <=? i) with false by lia. reflexivity.
  - reflexivity.
Qed.

Lemma zip_iota_ge {B} s n (m : list B) i b : In (i, b) (zip (iota_nat s n) m) -> s <= i.
Proof.
  revert s m. induction n as [|n IH]; intros s m Hin; cbn in Hin; [destruct Hin|].
  destruct m as [|b0 m']; [destruct Hin|]. cbn in Hin. destruct Hin as [E|Hin].
  - inversion E; subst. lia.
  - specialize (IH (s + 1) m' Hin). lia.
Qed.

Theorem bytemasked_as_indexedoption m vw c vs :
  to_list c = Ok vs ->
  to_list (ByteMasked m vw c) =
  to_list (IndexedOption I64
             (map (fun im : Z * Z => let (i, b) := im in if Bool.eqb (negb (b =? 0)) vw then i else -1)
                  (zip (iota (zlen m)) m)) c).
Proof.
  intros H. cbn [to_list]. rewrite H. cbn [bind]. rewrite mapM_map.
  apply mapM_ext. intros [i b] Hin.
  assert (Hi : 0 <= i) by (unfold iota in Hin; apply (zip_iota_ge _ _ _ _ _ Hin)).
  destruct (Bool.eqb (negb (b =? 0)) vw).
  - replace (0 <=? i) with true by lia. reflexivity.
  - reflexivity.
Qed.

Theorem unmasked_as_indexedoption c vs :
  to_list c = Ok vs -> zlen vs = clen c ->
  to_list (Unmasked c) = to_list (IndexedOption I64 (iota (clen c)) c).
Proof.
  intros H Hl. cbn [to_list]. rewrite H. cbn [bind]. rewrite <- Hl. clear H Hl.
  (* mapM (pick_opt vs (0<=?i) i) (iota (zlen vs)) = Ok vs *)
  unfold iota, zlen. rewrite Nat2Z.id.
  assert (G : forall pre, mapM (fun i => pick_opt (pre ++ vs) (0 <=? i) i) (iota_nat (Z.of_nat (length pre)) (length vs)) = Ok vs).
  { induction vs as [|v vs' IH]; intros pre; cbn; auto.
    replace (0 <=? Z.of_nat (length pre)) with true by lia. cbn [pick_opt].
    unfold get. replace (Z.of_nat (length pre) <? 0) with false by lia.
    rewrite Nat2Z.id, nth_error_app2 by lia. rewrite Nat.sub_diag. cbn.
    specialize (IH (pre ++ [v])). rewrite <- app_assoc in IH. cbn in IH.
    rewrite app_length in IH. cbn in IH.
    replace (Z.of_nat (length pre + 1)) with (Z.of_nat (length pre) + 1) in IH by lia.
    rewrite IH. reflexivity. }
  specialize (G []). cbn in G. symmetry. exact G.
Qed.
