(** C08 proofs. *)
From Coq Require Import ZArith List Bool Lia ZifyBool.
From AwkV Require Import Base Layout LayoutInd Valid Types Carry Proofs_C11.
From AwkMerge Require Import Merge Lemmas_C08.
Import ListNotations.
Open Scope Z_scope.

(* ================================================================ (a) promotion *)
Lemma promotion_table_is_numpy_pf : forall a b, promote a b = numpy_promote a b.
Proof. destruct a, b; reflexivity. Qed.

(* the fill switch accepts every source the promotion can produce: NumpyArray::mergemany never reaches
   its "dtype not in {...}" runtime errors *)
Lemma fill_ok_promote_pf : forall a b, fill_ok a (promote a b) = true /\ fill_ok b (promote a b) = true.
Proof. destruct a, b; split; reflexivity. Qed.
Lemma promote_idem : forall a, promote a a = a.
Proof. destruct a; reflexivity. Qed.
Lemma fill_ok_trans : forall a b c, fill_ok a b = true -> fill_ok b c = true -> fill_ok a c = true.
Proof. destruct a, b, c; cbn; intros; congruence. Qed.
Lemma fill_ok_refl : forall a, fill_ok a a = true.
Proof. destruct a; reflexivity. Qed.
Lemma fill_ok_promote_l : forall a b, fill_ok a (promote a b) = true.
Proof. intros. apply fill_ok_promote_pf. Qed.
Lemma fill_ok_promote_r : forall a b, fill_ok b (promote a b) = true.
Proof. intros. apply fill_ok_promote_pf. Qed.

(* ================================================================ length of the value list *)
Lemma chunks_nat_length {A} (vs : list A) n c : length (chunks_nat vs n c) = c.
Proof. revert vs. induction c; cbn; intros; [reflexivity|]. now rewrite IHc. Qed.

Lemma chunks_zlen {A} (vs : list A) size zl r :
  chunks vs size zl = Ok r -> 0 <= size /\ zlen r = (if size =? 0 then zl else zlen vs / size).
Proof.
  unfold chunks. destruct (size <? 0) eqn:E1; [discriminate|].
  destruct (size =? 0) eqn:E2.
  - destruct (zl <? 0) eqn:E3; [discriminate|]. intros H; inversion H; subst.
    split; [lia|]. rewrite zlen_map, zlen_iota; lia.
  - intros H; inversion H; subst. split; [lia|].
    unfold zlen at 1. rewrite chunks_nat_length.
    pose proof (zlen_nonneg vs). assert (0 <= zlen vs / size) by (apply Z.div_pos; lia). lia.
Qed.

Lemma prodZ_nonneg l : Forall (fun d => 0 <= d) l -> 0 <= prodZ l.
Proof. induction 1; cbn; [lia|]. unfold prodZ in *. cbn. nia. Qed.

Lemma nest_zlen dims : forall count vs r,
  Forall (fun d => 0 <= d) dims -> 0 <= count ->
  zlen vs = count * prodZ dims -> nest dims count vs = Ok r -> zlen r = count.
Proof.
  induction dims as [|d ds IH]; intros count vs r HF Hc Hl H; cbn in H.
  - inversion H; subst. unfold prodZ in Hl; cbn in Hl. lia.
  - inversion HF; subst.
    apply bind_ok in H. destruct H as (inner & Hi & H).
    apply bind_ok in H. destruct H as (ch & Hch & H). inversion H; subst.
    assert (Hinner : zlen inner = count * d).
    { eapply IH; eauto; [nia|]. rewrite Hl. unfold prodZ. cbn. fold (prodZ ds). ring. }
    apply chunks_zlen in Hch. destruct Hch as [_ Hch]. rewrite zlen_map, Hch.
    destruct (d =? 0) eqn:E; [reflexivity|]. rewrite Hinner. apply Z.div_mul. lia.
Qed.

Lemma existsb_neg_Forall l : existsb (fun d => d <? 0) l = false -> Forall (fun d => 0 <= d) l.
Proof.
  induction l; cbn; intros H; constructor.
  - apply orb_false_iff in H. lia.
  - apply IHl. apply orb_false_iff in H. tauto.
Qed.

Lemma pairs_length o : o <> [] -> length (pairs o) = (length o - 1)%nat.
Proof.
  induction o as [|a [|b t] IH]; intros H; try congruence; try reflexivity.
  change (pairs (a :: b :: t)) with ((a, b) :: pairs (b :: t)). cbn [length].
  rewrite IH by discriminate. cbn [length]. lia.
Qed.
Lemma zip_length {A B} (l : list A) (m : list B) : length (zip l m) = Nat.min (length l) (length m).
Proof. revert m. induction l; destruct m; cbn; auto. Qed.

Lemma all_fix_to_list cs :
  (fix all (l : list content) : res (list (list value)) :=
     match l with
     | [] => Ok []
     | x :: xs => do v <- to_list x; do vs <- all xs; Ok (v :: vs)
     end) cs = mapM to_list cs.
Proof. induction cs as [|x xs IH]; cbn; [reflexivity|]. now rewrite IH. Qed.

Theorem to_list_len c : forall vs, to_list c = Ok vs -> zlen vs = clen c.
Proof.
  induction c using content_ind'; intros vs HT; cbn [to_list clen] in *.
  - (* Numpy *)
    destruct shape as [|n dims]; [discriminate|].
    destruct (existsb (fun d => d <? 0) (n :: dims)) eqn:E; [discriminate|].
    destruct (zlen data <? prodZ (n :: dims)) eqn:E2; [discriminate|].
    apply bind_ok in HT. destruct HT as (r & Hr & HT). inversion HT; subst.
    apply existsb_neg_Forall in E. inversion E; subst.
    pose proof (prodZ_nonneg _ E).
    eapply nest_zlen; eauto.
    rewrite zlen_map, zlen_take by lia. unfold prodZ. reflexivity.
  - inversion HT. reflexivity.
  - (* ListOffset *)
    apply bind_ok in HT. destruct HT as (v & Hv & HT). apply rmap_ok in HT. destruct HT as (r & Hr & ->).
    unfold cut in Hr. destruct o as [|a t]; [discriminate|].
    apply mapM_length in Hr. rewrite zlen_map. unfold zlen. rewrite Hr, pairs_length by discriminate.
    cbn [length]. lia.
  - (* ListA *)
    apply bind_ok in HT. destruct HT as (v & Hv & HT). apply rmap_ok in HT. destruct HT as (r & Hr & ->).
    unfold cut2 in Hr. destruct (zlen e <? zlen s) eqn:E; [discriminate|].
    apply mapM_length in Hr. rewrite zlen_map. unfold zlen in *. rewrite Hr, zip_length. lia.
  - (* Regular *)
    apply bind_ok in HT. destruct HT as (v & Hv & HT). apply rmap_ok in HT. destruct HT as (r & Hr & ->).
    apply chunks_zlen in Hr. destruct Hr as [_ Hr]. rewrite zlen_map, Hr.
    destruct (size =? 0); [reflexivity|]. now rewrite (IHc _ Hv).
  - apply bind_ok in HT. destruct HT as (v & Hv & HT). now apply mapM_zlen in HT.
  - apply bind_ok in HT. destruct HT as (v & Hv & HT). now apply mapM_zlen in HT.
  - (* ByteMasked *)
    apply bind_ok in HT. destruct HT as (v & Hv & HT). apply mapM_length in HT.
    unfold zlen. rewrite HT, zip_length. unfold iota. rewrite iota_nat_length. unfold zlen. lia.
  - (* BitMasked *)
    apply bind_ok in HT. destruct HT as (v & Hv & HT). destruct (n <? 0) eqn:E; [discriminate|].
    apply mapM_zlen in HT. rewrite HT. apply zlen_iota. lia.
  - auto.
  - (* Union *)
    rewrite all_fix_to_list in HT.
    apply bind_ok in HT. destruct HT as (v & Hv & HT). destruct (zlen ix <? zlen t) eqn:E; [discriminate|].
    apply mapM_length in HT. unfold zlen in *. rewrite HT, zip_length. lia.
  - (* Record *)
    rewrite all_fix_to_list in HT.
    apply bind_ok in HT. destruct HT as (v & Hv & HT). destruct (n <? 0) eqn:E; [discriminate|].
    apply mapM_zlen in HT. rewrite HT. apply zlen_iota. lia.
  - (* Par *)
    apply bind_ok in HT. destruct HT as (v & Hv & HT). rewrite <- (IHc _ Hv).
    destruct arr as [[]|]; try (inversion HT; reflexivity); now apply mapM_zlen in HT.
Qed.

(* ================================================================ (c) merge_as_union *)
Theorem merge_as_union_app_pf a b va vb :
  to_list a = Ok va -> to_list b = Ok vb -> to_list (merge_as_union a b) = Ok (va ++ vb).
Proof.
  intros Ha Hb. pose proof (to_list_len _ _ Ha) as La. pose proof (to_list_len _ _ Hb) as Lb.
  pose proof (zlen_nonneg va). pose proof (zlen_nonneg vb).
  unfold merge_as_union. cbn [to_list]. rewrite Ha, Hb. cbn [bind].
  unfold zeros, consts. rewrite <- La, <- Lb.
  rewrite !zlen_app, !zlen_map, !zlen_iota by lia.
  destruct (zlen va + zlen vb <? zlen va + zlen vb) eqn:E; [lia|].
  rewrite zip_app by (rewrite map_length; reflexivity).
  rewrite mapM_app.
  rewrite !zip_map_l, !zip_same, !map_map, !mapM_map. cbn [fst snd].
  assert (E0 : get [va; vb] 0 = Ok va) by reflexivity.
  assert (E1 : get [va; vb] 1 = Ok vb) by reflexivity.
  rewrite E0, E1. cbn [bind].
  rewrite !mapM_get_iota. reflexivity.
Qed.

Lemma forallb_app' {A} (f : A -> bool) l m : forallb f (l ++ m) = forallb f l && forallb f m.
Proof. apply forallb_app. Qed.

Theorem merge_as_union_valid_pf a b :
  valid_b a = true -> valid_b b = true -> unionlike a = false -> unionlike b = false ->
  valid_b (merge_as_union a b) = true.
Proof.
  unfold valid_b. intros Va Vb Ua Ub. unfold merge_as_union. cbn [validb paramcheck existsb].
  rewrite Ua, Ub, Va, Vb. cbn [orb negb andb].
  unfold zeros, consts.
  assert (Hl : zlen (map (fun _ : Z => 0) (iota (clen a)) ++ map (fun _ : Z => 1) (iota (clen b)))
               <=? zlen (iota (clen a) ++ iota (clen b)) = true).
  { rewrite !zlen_app, !zlen_map. lia. }
  rewrite Hl. cbn [andb]. rewrite andb_true_r.
  rewrite zip_app by (rewrite map_length; reflexivity).
  rewrite forallb_app. rewrite !zip_map_l, !zip_same, !map_map. cbn [fst snd].
  apply andb_true_iff. split; apply forallb_forall; intros p Hp; apply in_map_iff in Hp;
    destruct Hp as (i & <- & Hi); apply iota_In in Hi; unfold union_okb; cbn [map].
  - change (get [clen a; clen b] 0) with (Ok (clen a)). lia.
  - change (get [clen a; clen b] 1) with (Ok (clen b)). lia.
Qed.
