(** T5: num / local_index / pad_none (rpad, rpad_and_clip) / combinations on layouts compute the
    value-level specification (instances of Proofs_AtAxis.model_ax_refines). *)
From Coq Require Import ZArith List Bool Lia ZifyBool.
From AwkV Require Import Base Layout LayoutInd Valid Types AtAxis Ops_Struct Typing Proofs_Typing
                         Proofs_Lists Proofs_ToList Proofs_Carry Proofs_AtAxis Proofs_C07.
Import ListNotations.
Open Scope Z_scope.

(* ---------------------------------------------------------------- the bounds of a list node *)
Lemma list_bounds_spec c cc vs :
  list_content c = Some cc -> to_list c = Ok vs ->
  exists bs vs0 ls, list_bounds c = Ok (bs, cc) /\ to_list cc = Ok vs0 /\ mapM (cut1 vs0) bs = Ok ls /\ vs = map VList ls.
Proof.
  intros Hc Hl. destruct c; try discriminate; cbn [list_content] in Hc; inversion Hc; subst.
  - rewrite to_list_ListOffset in Hl. apply bind_Ok in Hl as (vs0 & Hl0 & Hl). apply rmap_Ok in Hl as (ls & Hcut & ->).
    unfold cut in Hcut. destruct offsets as [|a o]; [discriminate|]. exists (pairs (a :: o)), vs0, ls. auto.
  - rewrite to_list_ListA in Hl. apply bind_Ok in Hl as (vs0 & Hl0 & Hl). apply rmap_Ok in Hl as (ls & Hcut & ->).
    unfold cut2 in Hcut. cbn [list_bounds]. destruct (zlen stops <? zlen starts); [discriminate|].
    exists (zip starts stops), vs0, ls. auto.
  - rewrite to_list_Regular in Hl. apply bind_Ok in Hl as (vs0 & Hl0 & Hl). apply rmap_Ok in Hl as (ch & Hch & ->).
    pose proof (chunks_zlen _ _ _ _ Hch) as [Hs Hz]. rewrite (to_list_len _ _ Hl0) in Hz.
    cbn [list_bounds]. destruct (size <? 0) eqn:E; [lia|]. rewrite <- Hz.
    eexists _, vs0, ch. split; [reflexivity|]. split; [exact Hl0|]. split; [|reflexivity].
    apply (chunks_as_cuts _ _ _ _ Hch).
Qed.

Lemma cut1_zlen {A} (vs : list A) ab l : cut1 vs ab = Ok l -> zlen l = snd ab - fst ab.
Proof.
  destruct ab as [a b]. unfold cut1. cbn [fst snd]. destruct (a =? b) eqn:E.
  - intros H. inversion H. rewrite zlen_nil. lia.
  - apply slice_zlen.
Qed.
Lemma cuts_lens {A} (vs : list A) bs ls : mapM (cut1 vs) bs = Ok ls -> lens_of bs = map zlen ls.
Proof.
  revert ls. induction bs as [|ab bs IH]; intros ls H; cbn [mapM] in H.
  - inversion H. reflexivity.
  - apply bind_Ok in H as (l & Hl & H). apply bind_Ok in H as (ls' & Hls' & H). inversion H; subst.
    unfold lens_of in *. cbn [map]. rewrite (IH _ Hls'), (cut1_zlen _ _ _ Hl). reflexivity.
Qed.

(* transfer along the cuts *)
Lemma mapM_transfer {A B C} (P : A -> res B) (G : A -> res C) (H : B -> C) bs (ls : list B) :
  mapM P bs = Ok ls -> (forall ab l, In ab bs -> P ab = Ok l -> G ab = Ok (H l)) -> mapM G bs = Ok (map H ls).
Proof.
  revert ls. induction bs as [|ab bs IH]; intros ls Hm HG; cbn [mapM] in Hm.
  - inversion Hm. reflexivity.
  - apply bind_Ok in Hm as (l & Hl & Hm). apply bind_Ok in Hm as (ls' & Hls' & Hm). inversion Hm; subst.
    cbn [mapM map]. rewrite (HG ab l (or_introl eq_refl) Hl). cbn [bind].
    rewrite (IH ls' Hls'); [reflexivity|]. intros ab' l' Hin. apply HG. right. exact Hin.
Qed.

Lemma to_list_np64 l : to_list (np64 l) = Ok (map (fun z => VNum (DZ z)) l).
Proof.
  unfold np64. rewrite to_list_Numpy. cbn [existsb prodZ fold_right]. rewrite Z.mul_1_r, zlen_map.
  pose proof (zlen_nonneg l). destruct (zlen l <? 0) eqn:E; [lia|]. cbn [orb]. rewrite Z.ltb_irrefl. cbn [nest].
  rewrite take_all by (rewrite zlen_map; lia). rewrite map_map. reflexivity.
Qed.

(* offsets of consecutive lists cut their concatenation back into the lists *)
Lemma pairs_offsets a b l : pairs (a :: offsets_from b l) = (a, b) :: pairs (offsets_from b l).
Proof. destruct l; reflexivity. Qed.
Lemma cut_concat_gen {A} (Ls : list (list A)) : forall pre,
  mapM (cut1 (pre ++ concat Ls)) (pairs (offsets_from (zlen pre) (map zlen Ls))) = Ok Ls.
Proof.
  induction Ls as [|L Ls IH]; intros pre; cbn [map offsets_from concat]; [reflexivity|].
  rewrite pairs_offsets. cbn [mapM].
  assert (Hc : cut1 (pre ++ L ++ concat Ls) (zlen pre, zlen pre + zlen L) = Ok L).
  { unfold cut1. pose proof (zlen_nonneg L). pose proof (zlen_nonneg pre).
    destruct (zlen pre =? zlen pre + zlen L) eqn:E.
    - f_equal. symmetry. apply zlen_0_nil. lia.
    - rewrite slice_ok by (rewrite ?zlen_app; pose proof (zlen_nonneg (concat Ls)); lia).
      rewrite drop_app_exact by reflexivity. replace (zlen pre + zlen L - zlen pre) with (zlen L) by ring.
      rewrite take_app_exact by reflexivity. reflexivity. }
  rewrite Hc. cbn [bind]. specialize (IH (pre ++ L)). rewrite <- app_assoc, zlen_app in IH. rewrite IH. reflexivity.
Qed.
Lemma offsets_from_nonempty s l : offsets_from s l <> [].
Proof. destruct l; discriminate. Qed.
Lemma cut_concat {A} (Ls : list (list A)) : cut (concat Ls) (offsets_from 0 (map zlen Ls)) = Ok Ls.
Proof.
  unfold cut. destruct (offsets_from 0 (map zlen Ls)) eqn:E; [exfalso; eapply offsets_from_nonempty, E|].
  rewrite <- E. apply (cut_concat_gen Ls []).
Qed.
Lemma cut_concat_lens {A} (Ls : list (list A)) lens :
  lens = map zlen Ls -> cut (concat Ls) (offsets_from 0 lens) = Ok Ls.
Proof. intros ->. apply cut_concat. Qed.

Lemma mapM_mapM_lens {A B} (F : A -> res B) xs ys : mapM (mapM F) xs = Ok ys -> map zlen xs = map zlen ys.
Proof.
  revert ys. induction xs as [|x xs IH]; intros ys H; cbn [mapM] in H.
  - inversion H. reflexivity.
  - apply bind_Ok in H as (y & Hy & H). apply bind_Ok in H as (ys' & Hys' & H). inversion H; subst.
    cbn [map]. rewrite (IH _ Hys'), (mapM_zlen _ _ _ Hy). reflexivity.
Qed.

(* the generic side conditions that all five operations discharge trivially *)
Lemma fchk_true_chk (g : option akind -> content -> res content) :
  forall p c cc, Valid p c -> list_content c = Some cc -> (fun _ : ty => true) (type_of cc) = false -> g p c = Err EValue.
Proof. intros. discriminate. Qed.

(* ---------------------------------------------------------------- num *)
Lemma num_Hg : forall p c cc vs,
  Valid p c -> list_content c = Some cc -> to_list c = Ok vs -> (fun _ : ty => true) (type_of cc) = true ->
  (is_strk p = true -> true = true) ->
  exists c', num_g p c = Ok c' /\
             to_list c' = mapM (fun v => match v with VList l => num_f (type_of cc) l | _ => Err EValue end) vs.
Proof.
  intros p c cc vs _ Hc Hl _ _. destruct (list_bounds_spec c cc vs Hc Hl) as (bs & vs0 & ls & Hb & Hl0 & Hcut & ->).
  unfold num_g. rewrite Hb. cbn [bind fst]. eexists. split; [reflexivity|].
  rewrite to_list_np64, (cuts_lens _ _ _ Hcut), mapM_map, map_map. unfold num_f. rewrite mapM_pure. reflexivity.
Qed.

Theorem num_refines : forall c axis vs,
  Valid None c -> frag c = true -> to_list c = Ok vs ->
  obs (num_model axis c) = num_spec axis (type_of c) vs.
Proof.
  intros c axis vs HV Hfr Hl. unfold num_model, num_spec.
  apply (model_ax_obs num_f num_g (Ok (np64 [])) true (fun _ => true) true num_Hg (fchk_true_chk num_g)); try assumption.
  - intros t l _ _. eexists. reflexivity.
  - exists (np64 []). split; reflexivity.
Qed.

Example num_refines_ex :
  let c := ListOffset I64 [0; 2; 2; 3]
             (IndexedOption I64 [1; -1; 0] (Record [ListA I64 [0; 3] [3; 4] (Numpy DInt64 [5] [DZ 1; DZ 2; DZ 3; DZ 4; DZ 5]);
                                                    Numpy DFloat64 [2; 2] [DZ 1; DZ 2; DZ 3; DZ 4]] None 2)) in
  validb None c = true /\ frag c = true /\
  obs (num_model 2 c) = Ok [VList [VTup [VNum (DZ 1); VNum (DZ 2)]; VNone]; VList []; VList [VTup [VNum (DZ 3); VNum (DZ 2)]]] /\
  obs (num_model (-1) c) = obs (num_model 2 c) /\ obs (num_model 3 c) = Err EValue.
Proof. vm_compute. repeat split. Qed.

(* ---------------------------------------------------------------- local_index *)
Lemma localindex_Hg : forall p c cc vs,
  Valid p c -> list_content c = Some cc -> to_list c = Ok vs -> (fun _ : ty => true) (type_of cc) = true ->
  (is_strk p = true -> true = true) ->
  exists c', localindex_g p c = Ok c' /\
             to_list c' = mapM (fun v => match v with VList l => localindex_f (type_of cc) l | _ => Err EValue end) vs.
Proof.
  intros p c cc vs _ Hc Hl _ _. destruct (list_bounds_spec c cc vs Hc Hl) as (bs & vs0 & ls & Hb & Hl0 & Hcut & ->).
  unfold localindex_g. rewrite Hb. cbn [bind fst]. eexists. split; [reflexivity|].
  rewrite to_list_ListOffset, to_list_np64. cbn [bind]. rewrite (cuts_lens _ _ _ Hcut).
  rewrite concat_map, !map_map.
  rewrite (cut_concat_lens (map (fun l : list value => map (fun z => VNum (DZ z)) (iota (zlen l))) ls)).
  - cbn [rmap]. rewrite mapM_map, map_map. unfold localindex_f. rewrite mapM_pure. reflexivity.
  - rewrite map_map. apply map_ext. intros l. rewrite zlen_map, zlen_iota by apply zlen_nonneg. reflexivity.
Qed.

Theorem localindex_refines : forall c axis vs,
  Valid None c -> frag c = true -> to_list c = Ok vs ->
  obs (localindex_model axis c) = localindex_spec axis (type_of c) vs.
Proof.
  intros c axis vs HV Hfr Hl. unfold localindex_model, localindex_spec.
  apply (model_ax_obs localindex_f localindex_g (Ok (np64 [])) true (fun _ => true) true localindex_Hg
           (fchk_true_chk localindex_g)); try assumption.
  - intros t l _ _. eexists. reflexivity.
  - exists (np64 []). split; reflexivity.
Qed.

Example localindex_refines_ex :
  let c := Regular (ByteMasked [1; 0; 1; 1] true (ListOffset I64 [0; 2; 2; 3; 3] (Numpy DBool [3] [DZ 1; DZ 0; DZ 1]))) 2 0 in
  validb None c = true /\ frag c = true /\
  to_list c = Ok [VList [VList [VBool true; VBool false]; VNone]; VList [VList [VBool true]; VList []]] /\
  obs (localindex_model 2 c) = Ok [VList [VList [VNum (DZ 0); VNum (DZ 1)]; VNone]; VList [VList [VNum (DZ 0)]; VList []]] /\
  obs (localindex_model 1 c) = Ok [VList [VNum (DZ 0); VNum (DZ 1)]; VList [VNum (DZ 0); VNum (DZ 1)]].
Proof. vm_compute. repeat split. Qed.

(* ---------------------------------------------------------------- pad_none *)
Lemma mapM_take {A B} (F : A -> res B) l ys n : mapM F l = Ok ys -> mapM F (take n l) = Ok (take n ys).
Proof.
  unfold take. generalize (Z.to_nat n) as k. intros k. revert l ys.
  induction k as [|k IH]; intros l ys H; [reflexivity|].
  destruct l as [|x l]; cbn [mapM] in H.
  - inversion H. reflexivity.
  - apply bind_Ok in H as (y & Hy & H). apply bind_Ok in H as (ys' & Hys' & H). inversion H; subst.
    cbn [firstn mapM]. rewrite Hy, (IH _ _ Hys'). reflexivity.
Qed.

Section Pad.
  Variable vs0 : list value.
  Let pick := fun i => pick_opt vs0 (0 <=? i) i.

  Lemma pick_range a b l : cut1 vs0 (a, b) = Ok l -> mapM pick (range a b) = Ok l.
  Proof.
    unfold cut1. destruct (a =? b) eqn:E.
    - intros H. inversion H; subst. rewrite range_empty by lia. reflexivity.
    - intros H. pose proof (slice_inv _ _ _ _ H) as (H1 & H2 & H3 & _). rewrite <- H, <- gather_range by lia.
      apply mapM_ext_in. intros i Hi. apply range_In in Hi. unfold pick, pick_opt.
      destruct (0 <=? i) eqn:E0; [reflexivity|lia].
  Qed.
  Lemma pick_neg k : mapM pick (repeatZ (-1) k) = Ok (repeatZ VNone k).
  Proof.
    unfold repeatZ. induction (Z.to_nat k) as [|m IH]; [reflexivity|]. cbn [repeat mapM]. rewrite IH. reflexivity.
  Qed.
  Lemma pick_pad (clip : bool) target ab l :
    cut1 vs0 ab = Ok l ->
    mapM pick (pad_index clip target ab) =
    Ok (let padded := l ++ repeatZ VNone (target - zlen l) in if clip then take target padded else padded).
  Proof.
    intros H. pose proof (cut1_zlen _ _ _ H) as Hz. destruct ab as [a b]. cbn [fst snd] in Hz.
    assert (Hp : mapM pick (range a b ++ repeatZ (-1) (target - (b - a))) = Ok (l ++ repeatZ VNone (target - zlen l))).
    { rewrite mapM_app, (pick_range a b l H), pick_neg, Hz. reflexivity. }
    unfold pad_index. destruct clip; [apply mapM_take|]; exact Hp.
  Qed.
End Pad.

Lemma pad_lists (clip : bool) target cc vs0 bs ls :
  to_list cc = Ok vs0 -> mapM (cut1 vs0) bs = Ok ls ->
  let pad := fun l : list value =>
               let padded := l ++ repeatZ VNone (target - zlen l) in if clip then take target padded else padded in
  to_list (IndexedOption I64 (concat (map (pad_index clip target) bs)) cc) = Ok (concat (map pad ls)) /\
  map zlen (map (pad_index clip target) bs) = map zlen (map pad ls).
Proof.
  intros Hl0 Hcut pad.
  assert (H : mapM (mapM (fun i => pick_opt vs0 (0 <=? i) i)) (map (pad_index clip target) bs) = Ok (map pad ls)).
  { rewrite mapM_map. eapply mapM_transfer; [exact Hcut|]. intros ab l _ Hab. apply pick_pad, Hab. }
  split.
  - rewrite to_list_IndexedOption, Hl0. cbn [bind]. rewrite mapM_concat, H. reflexivity.
  - apply (mapM_mapM_lens _ _ _ H).
Qed.

Lemma rpad_Hg target : forall p c cc vs,
  Valid p c -> list_content c = Some cc -> to_list c = Ok vs -> (fun _ : ty => true) (type_of cc) = true ->
  (is_strk p = true -> true = true) ->
  exists c', rpad_g target p c = Ok c' /\
             to_list c' = mapM (fun v => match v with VList l => rpad_f target (type_of cc) l | _ => Err EValue end) vs.
Proof.
  intros p c cc vs _ Hc Hl _ _. destruct (list_bounds_spec c cc vs Hc Hl) as (bs & vs0 & ls & Hb & Hl0 & Hcut & ->).
  unfold rpad_g. rewrite Hb. cbn [bind fst snd]. eexists. split; [reflexivity|].
  destruct (pad_lists false target cc vs0 bs ls Hl0 Hcut) as [Hi Hlens]. cbv zeta in Hi, Hlens.
  rewrite to_list_ListOffset, Hi. cbn [bind]. rewrite (cut_concat_lens _ _ Hlens). cbn [rmap].
  rewrite mapM_map, map_map. unfold rpad_f. rewrite mapM_pure. reflexivity.
Qed.

Theorem rpad_refines : forall target c axis vs,
  Valid None c -> frag c = true -> to_list c = Ok vs ->
  obs (rpad_model target axis c) = rpad_spec target axis (type_of c) vs.
Proof.
  intros target c axis vs HV Hfr Hl. unfold rpad_model, rpad_spec.
  apply (model_ax_obs (rpad_f target) (rpad_g target) (Err EValue) false (fun _ => true) true (rpad_Hg target)
           (fchk_true_chk (rpad_g target))); try assumption.
  - intros t l _ _. eexists. reflexivity.
  - reflexivity.
Qed.

Example rpad_refines_ex :
  let c := ListA I64 [2; 0; 1] [3; 2; 1] (Regular (Numpy DInt32 [6] [DZ 1; DZ 2; DZ 3; DZ 4; DZ 5; DZ 6; DZ 7]) 2 0) in
  let p := fun a b => VList [VNum (DZ a); VNum (DZ b)] in
  validb None c = true /\ frag c = true /\
  to_list c = Ok [VList [p 5 6]; VList [p 1 2; p 3 4]; VList []] /\
  obs (rpad_model 2 1 c) = Ok [VList [p 5 6; VNone]; VList [p 1 2; p 3 4]; VList [VNone; VNone]] /\
  obs (rpad_model 3 (-1) c) = Ok [VList [VList [VNum (DZ 5); VNum (DZ 6); VNone]];
                                  VList [VList [VNum (DZ 1); VNum (DZ 2); VNone]; VList [VNum (DZ 3); VNum (DZ 4); VNone]]; VList []].
Proof. vm_compute. repeat split. Qed.

Lemma zlen_repeatZ {A} (x : A) k : zlen (repeatZ x k) = Z.max 0 k.
Proof. unfold repeatZ. rewrite zlen_repeat. lia. Qed.

Lemma rpadclip_Hg target : 0 <= target -> forall p c cc vs,
  Valid p c -> list_content c = Some cc -> to_list c = Ok vs -> (fun _ : ty => true) (type_of cc) = true ->
  (is_strk p = true -> true = true) ->
  exists c', rpadclip_g target p c = Ok c' /\
             to_list c' = mapM (fun v => match v with VList l => rpadclip_f target (type_of cc) l | _ => Err EValue end) vs.
Proof.
  intros Ht p c cc vs _ Hc Hl _ _. destruct (list_bounds_spec c cc vs Hc Hl) as (bs & vs0 & ls & Hb & Hl0 & Hcut & ->).
  unfold rpadclip_g. rewrite Hb. cbn [bind fst snd]. eexists. split; [reflexivity|].
  destruct (pad_lists true target cc vs0 bs ls Hl0 Hcut) as [Hi Hlens]. cbv zeta in Hi, Hlens.
  rewrite to_list_Regular, Hi. cbn [bind].
  replace (zlen (map (pad_index true target) bs))
    with (zlen (map (fun l : list value => take target (l ++ repeatZ VNone (target - zlen l))) ls)).
  2:{ rewrite !zlen_map. rewrite (mapM_zlen _ _ _ Hcut). reflexivity. }
  rewrite chunks_concat; [|exact Ht|].
  - cbn [rmap]. rewrite mapM_map, map_map. unfold rpadclip_f. rewrite mapM_pure. reflexivity.
  - apply Forall_forall. intros l' Hl'. apply in_map_iff in Hl' as (l & <- & _).
    apply zlen_take. rewrite zlen_app, zlen_repeatZ. pose proof (zlen_nonneg l). lia.
Qed.

Theorem rpadclip_refines : forall target c axis vs,
  Valid None c -> frag c = true -> to_list c = Ok vs ->
  obs (rpadclip_model target axis c) = rpadclip_spec target axis (type_of c) vs.
Proof.
  intros target c axis vs HV Hfr Hl. unfold rpadclip_model, rpadclip_spec.
  destruct (target <? 0) eqn:E; [reflexivity|].
  apply (model_ax_obs (rpadclip_f target) (rpadclip_g target) (Err EValue) false (fun _ => true) true
           (rpadclip_Hg target ltac:(lia)) (fchk_true_chk (rpadclip_g target))); try assumption.
  - intros t l _ _. eexists. reflexivity.
  - reflexivity.
Qed.

Example rpadclip_refines_ex :
  let c := Par (Some AString) None (ListOffset I64 [0; 2; 5] (Par (Some AChar) None (Numpy DUInt8 [5] [DZ 104; DZ 105; DZ 97; DZ 98; DZ 99]))) in
  validb None c = true /\ frag c = true /\
  to_list c = Ok [VStr true [104; 105]; VStr true [97; 98; 99]] /\
  obs (rpadclip_model 2 1 c) = Ok [VList [VNum (DZ 104); VNum (DZ 105)]; VList [VNum (DZ 97); VNum (DZ 98)]] /\
  obs (rpadclip_model 3 1 c) = Ok [VList [VNum (DZ 104); VNum (DZ 105); VNone]; VList [VNum (DZ 97); VNum (DZ 98); VNum (DZ 99)]] /\
  obs (rpadclip_model (-1) 1 c) = Err EValue.
Proof. vm_compute. repeat split. Qed.

(* ---------------------------------------------------------------- combinations *)
Lemma mapM_map_cons {A B} (F : A -> res B) x y L L' :
  F x = Ok y -> mapM (mapM F) L = Ok L' -> mapM (mapM F) (map (cons x) L) = Ok (map (cons y) L').
Proof.
  intros Hx. revert L'. induction L as [|t L IH]; intros L' H; cbn [mapM] in H.
  - inversion H. reflexivity.
  - apply bind_Ok in H as (t' & Ht & H). apply bind_Ok in H as (L'' & HL & H). inversion H; subst.
    cbn [map mapM]. rewrite Hx. cbn [bind]. rewrite Ht. cbn [bind]. rewrite (IH _ HL). reflexivity.
Qed.
Lemma mapM_app_ok {A B} (F : A -> res B) l m l' m' :
  mapM F l = Ok l' -> mapM F m = Ok m' -> mapM F (l ++ m) = Ok (l' ++ m').
Proof. intros H1 H2. rewrite mapM_app, H1, H2. reflexivity. Qed.

Lemma combs_mapM {A B} (F : A -> res B) : forall k xs ys,
  mapM F xs = Ok ys -> mapM (mapM F) (combs k xs) = Ok (combs k ys).
Proof.
  induction k as [|k IHk]; intros xs ys H; [reflexivity|].
  revert ys H. induction xs as [|x xs IHxs]; intros ys H; cbn [mapM] in H.
  - inversion H. reflexivity.
  - apply bind_Ok in H as (y & Hy & H). apply bind_Ok in H as (ys' & Hys & H). inversion H; subst.
    rewrite !combs_S_cons. apply mapM_app_ok; [|apply IHxs, Hys].
    apply mapM_map_cons; [exact Hy|apply IHk, Hys].
Qed.
Lemma combs_r_mapM {A B} (F : A -> res B) : forall k xs ys,
  mapM F xs = Ok ys -> mapM (mapM F) (combs_r k xs) = Ok (combs_r k ys).
Proof.
  induction k as [|k IHk]; intros xs ys H; [reflexivity|].
  revert ys H. induction xs as [|x xs IHxs]; intros ys H.
  - inversion H. reflexivity.
  - pose proof H as H0. cbn [mapM] in H.
    apply bind_Ok in H as (y & Hy & H). apply bind_Ok in H as (ys' & Hys & H). inversion H; subst.
    rewrite !combs_r_S_cons. apply mapM_app_ok; [|apply IHxs, Hys].
    apply mapM_map_cons; [exact Hy|apply IHk, H0].
Qed.
Lemma combos_mapM {A B} (F : A -> res B) repl n xs ys :
  mapM F xs = Ok ys -> mapM (mapM F) (combos repl n xs) = Ok (combos repl n ys).
Proof. unfold combos. destruct repl; [apply combs_r_mapM|apply combs_mapM]. Qed.
Lemma combos_tuple_length {A} repl n (l : list A) t : In t (combos repl n l) -> length t = Z.to_nat n.
Proof. unfold combos. destruct repl; [apply combs_r_tuple_length|apply combs_tuple_length]. Qed.

Lemma columns_get k : forall tuples i t,
  Forall (fun t : list Z => length t = k) tuples -> get tuples i = Ok t ->
  mapM (fun col : list Z => get col i) (columns k tuples) = Ok t.
Proof.
  induction k as [|k IH]; intros tuples i t HF Hg.
  - apply get_In in Hg. rewrite Forall_forall in HF. specialize (HF t Hg). destruct t; [reflexivity|discriminate].
  - pose proof (get_In _ _ _ Hg) as Hin. rewrite Forall_forall in HF. pose proof (HF t Hin) as Ht.
    destruct t as [|a t']; [discriminate|]. cbn [columns mapM].
    rewrite get_map, Hg. cbn [rmap hd bind].
    rewrite (IH (map (@tl Z) tuples) i t'); [reflexivity| |rewrite get_map, Hg; reflexivity].
    apply Forall_forall. intros u Hu. apply in_map_iff in Hu as (u0 & <- & Hu0). specialize (HF u0 Hu0).
    destruct u0; [discriminate|]. cbn in *. lia.
Qed.
Lemma columns_In k : forall tuples col x,
  Forall (fun t : list Z => length t = k) tuples -> In col (columns k tuples) -> In x col ->
  exists t, In t tuples /\ In x t.
Proof.
  induction k as [|k IH]; intros tuples col x HF Hc Hx; [contradiction|].
  cbn [columns] in Hc. destruct Hc as [<- | Hc].
  - apply in_map_iff in Hx as (t & <- & Ht). exists t. split; [exact Ht|].
    rewrite Forall_forall in HF. specialize (HF t Ht). destruct t; [discriminate|]. left. reflexivity.
  - destruct (IH (map (@tl Z) tuples) col x) as (t' & Ht' & Hxt'); [|exact Hc|exact Hx|].
    { apply Forall_forall. intros u Hu. apply in_map_iff in Hu as (u0 & <- & Hu0).
      rewrite Forall_forall in HF. specialize (HF u0 Hu0). destruct u0; [discriminate|]. cbn in *. lia. }
    apply in_map_iff in Ht' as (t & <- & Ht). exists t. split; [exact Ht|]. destruct t; [contradiction|]. right. exact Hxt'.
Qed.

Lemma mapM_iota_tabulate {B} (F : Z -> res B) ys n :
  zlen ys = n -> (forall i, 0 <= i < n -> F i = get ys i) -> mapM F (iota n) = Ok ys.
Proof.
  intros Hz HF. rewrite <- (gather_all ys), Hz. apply mapM_ext_in. intros i Hi. apply iota_In' in Hi. apply HF, Hi.
Qed.

Lemma comb_record cc vs0 k tuples xss :
  to_list cc = Ok vs0 -> Forall (fun t : list Z => length t = k) tuples -> mapM (mapM (get vs0)) tuples = Ok xss ->
  to_list (Record (map (fun col => Indexed I64 col cc) (columns k tuples)) None (zlen tuples)) = Ok (map VTup xss).
Proof.
  intros Hl0 HF Hx.
  rewrite to_list_Record, all_lists_mapM, mapM_map.
  rewrite (mapM_ext_in _ (fun col => mapM (get vs0) col)) by (intros col _; rewrite to_list_Indexed, Hl0; reflexivity).
  destruct (mapM_total (fun col => mapM (get vs0) col) (columns k tuples)) as [vss Hvss].
  { intros col Hcol. apply gather_ok. apply Forall_forall. intros x Hxc.
    destruct (columns_In k tuples col x HF Hcol Hxc) as (t & Ht & Hxt).
    destruct (mapM_Ok_In _ _ _ _ Hx Ht) as (xs & Hxs & _). destruct (mapM_Ok_In _ _ _ _ Hxs Hxt) as (v & Hv & _).
    eapply get_range, Hv. }
  rewrite Hvss. cbn [bind]. pose proof (zlen_nonneg tuples). destruct (zlen tuples <? 0) eqn:E; [lia|].
  apply mapM_iota_tabulate; [rewrite zlen_map; apply (mapM_zlen _ _ _ Hx)|].
  intros i Hi. destruct (get_ok tuples i Hi) as [t Ht].
  rewrite get_map, (mapM_get _ _ _ i Hx), Ht. cbn [bind]. unfold row.
  replace (mapM (fun col : list value => get col i) vss) with (mapM (get vs0) t); [destruct (mapM (get vs0) t); reflexivity|].
  rewrite (mapM_mapM _ (fun col : list value => get col i) _ _ Hvss).
  rewrite (mapM_mapM _ (get vs0) _ _ (columns_get k tuples i t HF Ht)).
  apply mapM_ext_in. intros col Hcol. destruct (mapM_Ok_In _ _ _ _ Hvss Hcol) as (col' & Hcol' & _).
  rewrite Hcol'. cbn [bind]. rewrite (mapM_get _ _ _ i Hcol'). reflexivity.
Qed.

Lemma cut1_gather {A} (vs0 : list A) ab l : cut1 vs0 ab = Ok l -> mapM (get vs0) (range (fst ab) (snd ab)) = Ok l.
Proof.
  destruct ab as [a b]. unfold cut1. cbn [fst snd]. destruct (a =? b) eqn:E.
  - intros H. inversion H. rewrite range_empty by lia. reflexivity.
  - intros H. pose proof (slice_inv _ _ _ _ H) as (H1 & H2 & H3 & _). rewrite gather_range by lia. exact H.
Qed.

Lemma comb_Hg n repl : forall p c cc vs,
  Valid p c -> list_content c = Some cc -> to_list c = Ok vs -> (fun _ : ty => true) (type_of cc) = true ->
  (is_strk p = true -> false = true) ->
  exists c', comb_g n repl p c = Ok c' /\
             to_list c' = mapM (fun v => match v with VList l => comb_f n repl (type_of cc) l | _ => Err EValue end) vs.
Proof.
  intros p c cc vs _ Hc Hl _ _. destruct (list_bounds_spec c cc vs Hc Hl) as (bs & vs0 & ls & Hb & Hl0 & Hcut & ->).
  unfold comb_g. rewrite Hb. cbn [bind fst snd]. eexists. split; [reflexivity|].
  set (per_list := map (fun ab : Z * Z => combos repl n (range (fst ab) (snd ab))) bs).
  assert (Hper : mapM (mapM (mapM (get vs0))) per_list = Ok (map (combos repl n) ls)).
  { unfold per_list. rewrite mapM_map. eapply mapM_transfer; [exact Hcut|].
    intros ab l _ Hab. apply combos_mapM, cut1_gather, Hab. }
  assert (Htup : mapM (mapM (get vs0)) (concat per_list) = Ok (concat (map (combos repl n) ls))).
  { rewrite mapM_concat, Hper. reflexivity. }
  assert (Hlen : Forall (fun t : list Z => length t = Z.to_nat n) (concat per_list)).
  { apply Forall_forall. intros t Ht. apply in_concat in Ht as (L & HL & Ht). unfold per_list in HL.
    apply in_map_iff in HL as (ab & <- & _). eapply combos_tuple_length, Ht. }
  rewrite to_list_ListOffset, (comb_record cc vs0 _ _ _ Hl0 Hlen Htup). cbn [bind].
  rewrite concat_map.
  rewrite (cut_concat_lens (map (map VTup) (map (combos repl n) ls))).
  - cbn [rmap]. rewrite mapM_map, !map_map. unfold comb_f. rewrite mapM_pure. reflexivity.
  - rewrite (mapM_mapM_lens _ _ _ Hper), !map_map. apply map_ext. intros l. rewrite zlen_map. reflexivity.
Qed.

Theorem combinations_refines : forall n repl c axis vs,
  Valid None c -> frag c = true -> to_list c = Ok vs ->
  obs (comb_model n repl axis c) = comb_spec n repl axis (type_of c) vs.
Proof.
  intros n repl c axis vs HV Hfr Hl. unfold comb_model, comb_spec.
  destruct (n <? 1) eqn:E; [reflexivity|].
  apply (model_ax_obs (comb_f n repl) (comb_g n repl) (Ok Empty) true (fun _ => true) false (comb_Hg n repl)
           (fchk_true_chk (comb_g n repl))); try assumption.
  - intros t l _ _. eexists. reflexivity.
  - exists Empty. split; reflexivity.
Qed.

Example combinations_refines_ex :
  let c := IndexedOption I64 [1; -1; 0] (ListOffset I64 [0; 1; 4] (Numpy DInt64 [4] [DZ 10; DZ 20; DZ 30; DZ 40])) in
  let t := fun a b => VTup [VNum (DZ a); VNum (DZ b)] in
  validb None c = true /\ frag c = true /\
  to_list c = Ok [VList [VNum (DZ 20); VNum (DZ 30); VNum (DZ 40)]; VNone; VList [VNum (DZ 10)]] /\
  obs (comb_model 2 false 1 c) = Ok [VList [t 20 30; t 20 40; t 30 40]; VNone; VList []] /\
  obs (comb_model 2 true 1 c) = Ok [VList [t 20 20; t 20 30; t 20 40; t 30 30; t 30 40; t 40 40]; VNone; VList [t 10 10]].
Proof. vm_compute. repeat split. Qed.
