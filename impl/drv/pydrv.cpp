// pydrv: serves the Python substitute of awkward._ext (/verif/pyshim) with /repo's libawkward.
//
// Protocol: one request per stdin line  (id op args...)  ->  exactly one final reply line
//   (id ok RESULT) | (id err value xMSG) | (id err runtime xMSG) | (id err other xMSG) | (id bad xMSG)
// Between request and reply the driver may emit call-backs (virtual arrays):
//   (cb gen GENID) | (cb cacheget CACHEID xKEY) | (cb cacheset CACHEID xKEY LAYOUT)
// each answered by one stdin line: (ok LAYOUT) | (ok none) | (err xMSG)
//
// Atoms starting with 'x' are hex-encoded byte strings ("x" = empty).
// P  ::= - | ((xKEY xJSONVALUE) ...)                                  parameters
// I  ::= - | (id32|id64 REF ((LOC xKEY)...) WIDTH LENGTH xDATA)       identities
// IX ::= (i8|u8|i32|u32|i64 xDATA)                                    index (raw little endian)
// L  ::= (np P I DTYPENAME xFORMAT (shape..) (strides_bytes..) BYTEOFFSET xSPAN)
//      | (empty P I) | (lo P I IX L) | (la P I IX IX L) | (reg P I SIZE ZEROSLEN L)
//      | (ix P I IX L) | (ixo P I IX L) | (bym P I IX VALIDWHEN L) | (bim P I IX VALIDWHEN LENGTH LSB L)
//      | (unm P I L) | (un P I IX IX L...) | (rec P I LENGTH tuple|(xKEY...) L...)
//      | (record AT L) | (virt P I GEN CACHE xKEY|-)
// GEN   ::= (pygen GENID FORM LENGTH) | (slicegen FORM LENGTH L SLICE)     FORM ::= - | xJSON ; LENGTH -1 = unknown
// CACHE ::= - | (cache CACHEID)
// results additionally: (none) | (scalar DTYPENAME xFORMAT xBYTES)
#include "drv_common.h"
#include <complex>
#include <map>
#include <set>
#include "awkward/type/Type.h"
#include "awkward/type/ArrayType.h"
#include "awkward/type/ListType.h"
#include "awkward/type/OptionType.h"
#include "awkward/type/PrimitiveType.h"
#include "awkward/type/RecordType.h"
#include "awkward/type/RegularType.h"
#include "awkward/type/UnionType.h"
#include "awkward/type/UnknownType.h"
#include "awkward/builder/ArrayBuilder.h"
#include "awkward/builder/ArrayBuilderOptions.h"
#include "awkward/layoutbuilder/LayoutBuilder.h"
#include "awkward/io/json.h"
#include "awkward/io/uproot.h"
#include "awkward/forth/ForthMachine.h"
#include "awkward/forth/ForthInputBuffer.h"
#include "awkward/forth/ForthOutputBuffer.h"
#include "awkward/partition/IrregularlyPartitionedArray.h"
#include "awkward/virtual/ArrayGenerator.h"
#include "awkward/virtual/ArrayCache.h"
#include "awkward/Iterator.h"

using namespace drv;

// ------------------------------------------------------------------ hex
static const char* HEXD = "0123456789abcdef";
static std::string hex_of(const void* p, size_t n) {
  std::string o;
  o.resize(n * 2 + 1);
  o[0] = 'x';
  const unsigned char* b = (const unsigned char*)p;
  for (size_t i = 0; i < n; i++) { o[1 + 2 * i] = HEXD[b[i] >> 4]; o[2 + 2 * i] = HEXD[b[i] & 15]; }
  return o;
}
static std::string hexs(const std::string& s) { return hex_of(s.data(), s.size()); }
static inline int hv(char c) {
  if (c >= '0' && c <= '9') return c - '0';
  if (c >= 'a' && c <= 'f') return c - 'a' + 10;
  if (c >= 'A' && c <= 'F') return c - 'A' + 10;
  throw std::logic_error("bad hex digit");
}
static std::string unhex(const Sx& x) {
  if (!x.atom || x.a.empty() || x.a[0] != 'x' || (x.a.size() % 2) != 1)
    throw std::logic_error("hex atom expected, got " + x.str().substr(0, 40));
  std::string o;
  o.resize((x.a.size() - 1) / 2);
  for (size_t i = 0; i < o.size(); i++) o[i] = (char)((hv(x.a[1 + 2 * i]) << 4) | hv(x.a[2 + 2 * i]));
  return o;
}
static bool to_b(const Sx& x) { return to_i64(x) != 0; }
static double to_d(const Sx& x) {   // doubles travel as 8 raw bytes in hex, or as integers
  if (x.atom && !x.a.empty() && x.a[0] == 'x') {
    std::string b = unhex(x);
    if (b.size() != 8) throw std::logic_error("double: 8 bytes expected");
    double d; std::memcpy(&d, b.data(), 8); return d;
  }
  return to_f64(x);
}
static std::string dbl(double d) { return hex_of(&d, 8); }
static std::string b01(bool b) { return b ? "1" : "0"; }

struct OptStr {     // const char* argument that may be null
  bool has = false; std::string s;
  const char* c() const { return has ? s.c_str() : nullptr; }
};
static OptStr optstr(const Sx& x) { OptStr o; if (!x.is("-")) { o.has = true; o.s = unhex(x); } return o; }

// ------------------------------------------------------------------ call-back channel
static void prescan(const Sx& x);
static Sx callback(const std::string& line) {
  std::cout << line << std::endl;
  std::string reply;
  if (!std::getline(std::cin, reply)) throw std::runtime_error("pydrv: call-back channel closed");
  Sx r = parse_line(reply);
  prescan(r);
  if (r.head() == "err") throw std::runtime_error(unhex(r[1]));
  if (r.head() != "ok") throw std::runtime_error("pydrv: malformed call-back reply");
  return r;
}

// ------------------------------------------------------------------ parameters / identities / index
static util::Parameters rd_params(const Sx& x) {
  util::Parameters p;
  if (x.atom) { if (x.a == "-") return p; throw std::logic_error("parameters expected"); }
  for (auto& kv : x.l) p[unhex(kv[0])] = unhex(kv[1]);
  return p;
}
static std::string wr_params(const util::Parameters& p) {
  if (p.empty()) return "-";
  std::string o = "(";
  bool first = true;
  for (auto& kv : p) { if (!first) o += " "; first = false; o += "(" + hexs(kv.first) + " " + hexs(kv.second) + ")"; }
  return o + ")";
}
static IdentitiesPtr rd_ident(const Sx& x) {
  if (x.is("-")) return Identities::none();
  Identities::Ref ref = to_i64(x[1]);
  Identities::FieldLoc fl;
  for (auto& e : x[2].l) fl.push_back(std::pair<int64_t, std::string>(to_i64(e[0]), unhex(e[1])));
  int64_t width = to_i64(x[3]), length = to_i64(x[4]);
  std::string data = unhex(x[5]);
  if (x.head() == "id32") {
    auto out = std::make_shared<Identities32>(ref, fl, width, length);
    size_t want = (size_t)(width * length) * 4;
    if (data.size() < want) throw std::logic_error("identities: not enough data");
    if (want) std::memcpy(out->data(), data.data(), want);
    return out;
  }
  if (x.head() == "id64") {
    auto out = std::make_shared<Identities64>(ref, fl, width, length);
    size_t want = (size_t)(width * length) * 8;
    if (data.size() < want) throw std::logic_error("identities: not enough data");
    if (want) std::memcpy(out->data(), data.data(), want);
    return out;
  }
  throw std::logic_error("identities expected");
}
static std::string wr_ident(const IdentitiesPtr& id) {
  if (id.get() == nullptr) return "-";
  std::string fl = "(";
  bool first = true;
  for (auto& pr : id->fieldloc()) { if (!first) fl += " "; first = false; fl += "(" + std::to_string(pr.first) + " " + hexs(pr.second) + ")"; }
  fl += ")";
  std::string head, data;
  if (Identities32* r = dynamic_cast<Identities32*>(id.get())) { head = "id32"; data = hex_of(r->data(), (size_t)(r->width() * r->length()) * 4); }
  else if (Identities64* r = dynamic_cast<Identities64*>(id.get())) { head = "id64"; data = hex_of(r->data(), (size_t)(r->width() * r->length()) * 8); }
  else throw std::runtime_error("unknown Identities subtype");
  return "(" + head + " " + std::to_string(id->ref()) + " " + fl + " " + std::to_string(id->width()) + " " + std::to_string(id->length()) + " " + data + ")";
}

// ---- input buffers of the current request, by key (see pyshim/core.py "buffer identity")
struct Mem { std::shared_ptr<void> ptr; size_t nbytes; };
static std::map<std::string, Mem> g_mem;
static std::map<uintptr_t, std::string> g_mem_by_addr;
static std::map<std::string, util::RecordLookupPtr> g_lookups;
static std::shared_ptr<void> mem_get(const Sx* keyatom, const std::string& data, bool have_data_atom) {
  if (keyatom != nullptr) {
    auto it = g_mem.find(keyatom->a);
    if (it != g_mem.end()) return it->second.ptr;
  }
  std::shared_ptr<void> ptr = kernel::malloc<void>(kernel::lib::cpu, (int64_t)(data.size() > 0 ? data.size() : 1));
  if (!data.empty()) std::memcpy(ptr.get(), data.data(), data.size());
  if (keyatom != nullptr) {
    if (data.empty()) throw std::logic_error("buffer key " + keyatom->a + " used before it was defined");
    Mem m; m.ptr = ptr; m.nbytes = data.size();
    g_mem[keyatom->a] = m;
    g_mem_by_addr[(uintptr_t)ptr.get()] = keyatom->a;
  }
  return ptr;
}
// Register every keyed buffer definition of a request (or call-back reply) up front, so that the order in which
// the builder visits nodes (content before offsets, unspecified argument order) does not matter: a later node
// may name a key whose data appears textually earlier *or later* in the same line.
static void prescan(const Sx& x) {
  if (x.atom) return;
  const std::string h = x.head();
  const Sx* key = nullptr; const Sx* data = nullptr;
  if ((h == "i8" || h == "u8" || h == "i32" || h == "u32" || h == "i64") && x.size() == 3 && x[1].atom && x[2].atom) { data = &x[1]; key = &x[2]; }
  else if (h == "np" && x.size() > 10 && x[8].atom && x[10].atom) { data = &x[8]; key = &x[10]; }
  if (key != nullptr && data->a.size() > 1 && data->a[0] == 'x' && g_mem.find(key->a) == g_mem.end()) {
    std::string raw;
    raw.resize((data->a.size() - 1) / 2);
    for (size_t i = 0; i < raw.size(); i++) {
      auto hv2 = [](char c) -> int { return (c >= '0' && c <= '9') ? c - '0' : (c >= 'a' && c <= 'f') ? c - 'a' + 10 : c - 'A' + 10; };
      raw[i] = (char)((hv2(data->a[1 + 2 * i]) << 4) | hv2(data->a[2 + 2 * i]));
    }
    mem_get(key, raw, true);
  }
  for (auto& e : x.l) prescan(e);
}

// is [p, p+n) inside an input buffer?  -> key and offset
static bool mem_find(const void* p, size_t n, std::string& key, size_t& off) {
  if (g_mem_by_addr.empty() || n == 0) return false;
  uintptr_t a = (uintptr_t)p;
  auto it = g_mem_by_addr.upper_bound(a);
  if (it == g_mem_by_addr.begin()) return false;
  --it;
  const Mem& m = g_mem[it->second];
  if (a >= it->first && a + n <= it->first + m.nbytes) { key = it->second; off = (size_t)(a - it->first); return true; }
  return false;
}

template <typename T> struct IxName;
template <> struct IxName<int8_t> { static const char* n() { return "i8"; } };
template <> struct IxName<uint8_t> { static const char* n() { return "u8"; } };
template <> struct IxName<int32_t> { static const char* n() { return "i32"; } };
template <> struct IxName<uint32_t> { static const char* n() { return "u32"; } };
template <> struct IxName<int64_t> { static const char* n() { return "i64"; } };

template <typename T>
static IndexOf<T> rd_ix(const Sx& x) {
  if (x.head() != IxName<T>::n()) throw std::logic_error(std::string("index of type ") + IxName<T>::n() + " expected, got " + x.head());
  std::string d = unhex(x[1]);
  if (x.size() > 2) {   // keyed: shared with every other node that names the same key
    std::shared_ptr<void> ptr = mem_get(&x[2], d, true);
    size_t nbytes = g_mem[x[2].a].nbytes;
    return IndexOf<T>(std::static_pointer_cast<T>(ptr), 0, (int64_t)(nbytes / sizeof(T)), kernel::lib::cpu);
  }
  int64_t n = (int64_t)(d.size() / sizeof(T));
  IndexOf<T> out(n);
  if (n) std::memcpy(out.data(), d.data(), (size_t)n * sizeof(T));
  return out;
}
template <typename T>
static std::string wr_ix(const IndexOf<T>& ix) {
  std::string key; size_t off;
  if (mem_find(ix.data(), (size_t)ix.length() * sizeof(T), key, off))
    return std::string("(") + IxName<T>::n() + " @ " + key + " " + std::to_string(off) + " " + std::to_string(ix.length()) + ")";
  return std::string("(") + IxName<T>::n() + " " + hex_of(ix.data(), (size_t)ix.length() * sizeof(T)) + ")";
}
static std::vector<std::string> rd_strs(const Sx& x) {
  std::vector<std::string> o;
  if (x.atom) throw std::logic_error("list of strings expected");
  for (auto& e : x.l) o.push_back(unhex(e));
  return o;
}
static std::string wr_strs(const std::vector<std::string>& v) {
  std::string o = "(";
  for (size_t i = 0; i < v.size(); i++) { if (i) o += " "; o += hexs(v[i]); }
  return o + ")";
}
static std::string wr_i64s(const std::vector<int64_t>& v) {
  std::string o = "(";
  for (size_t i = 0; i < v.size(); i++) { if (i) o += " "; o += std::to_string(v[i]); }
  return o + ")";
}
static util::TypeStrs rd_typestrs(const Sx& x) {
  util::TypeStrs t;
  if (x.is("-")) return t;
  for (auto& kv : x.l) t[unhex(kv[0])] = unhex(kv[1]);
  return t;
}
static FormPtr rd_form(const Sx& x) {
  if (x.is("-")) return FormPtr(nullptr);
  return Form::fromjson(unhex(x));
}
static std::string wr_form(const FormPtr& f) {
  if (f.get() == nullptr) return "-";
  return hexs(f->tojson(false, true));
}

// ------------------------------------------------------------------ layouts
static ContentPtr pb(const Sx& x);
static std::string pd(const ContentPtr& c);
static Slice rd_slice(const Sx& items);
static std::string wr_slice(const Slice& s);

class RemoteCache : public ArrayCache {
public:
  RemoteCache(int64_t id) : id_(id) {}
  int64_t id() const { return id_; }
  ContentPtr get(const std::string& key) const override {
    Sx r = callback("(cb cacheget " + std::to_string(id_) + " " + hexs(key) + ")");
    if (r[1].is("none")) return ContentPtr(nullptr);
    return pb(r[1]);
  }
  void set(const std::string& key, const ContentPtr& value) override {
    callback("(cb cacheset " + std::to_string(id_) + " " + hexs(key) + " " + pd(value) + ")");
  }
  bool is_broken() const override { return false; }
  const std::string tostring_part(const std::string& indent, const std::string& pre, const std::string& post) const override {
    return indent + pre + "<ArrayCache remote=\"" + std::to_string(id_) + "\"/>" + post;
  }
private:
  int64_t id_;
};

class RemoteGenerator : public ArrayGenerator {
public:
  RemoteGenerator(const FormPtr& form, int64_t length, int64_t id) : ArrayGenerator(form, length), id_(id) {}
  void set_inferred(const FormPtr& f) { inferred_form_ = f; }
  const FormPtr declared_form() const { return form_; }
  const FormPtr inferred_form() const { return inferred_form_; }
  int64_t id() const { return id_; }
  const ContentPtr generate() const override {
    Sx r = callback("(cb gen " + std::to_string(id_) + ")");
    return pb(r[1]);
  }
  void caches(std::vector<ArrayCachePtr>& out) const override {}
  const std::string tostring_part(const std::string& indent, const std::string& pre, const std::string& post) const override {
    return indent + pre + "<ArrayGenerator remote=\"" + std::to_string(id_) + "\"/>" + post;
  }
  const std::shared_ptr<ArrayGenerator> shallow_copy() const override { return std::make_shared<RemoteGenerator>(form_, length_, id_); }
  const std::shared_ptr<ArrayGenerator> with_form(const FormPtr& form) const override { return std::make_shared<RemoteGenerator>(form, length_, id_); }
  const std::shared_ptr<ArrayGenerator> with_length(int64_t length) const override { return std::make_shared<RemoteGenerator>(form_, length, id_); }
  bool referentially_equal(const ArrayGeneratorPtr& other) const override {
    if (RemoteGenerator* r = dynamic_cast<RemoteGenerator*>(other.get())) return r->id() == id_ && r->length() == length_;
    return false;
  }
private:
  int64_t id_;
};

static ArrayGeneratorPtr rd_gen(const Sx& x) {
  if (x.head() == "pygen") {
    auto g = std::make_shared<RemoteGenerator>(rd_form(x[2]), to_i64(x[3]), to_i64(x[1]));
    if (x.size() > 4) g->set_inferred(rd_form(x[4]));
    return g;
  }
  if (x.head() == "slicegen") return std::make_shared<SliceGenerator>(rd_form(x[1]), to_i64(x[2]), pb(x[3]), rd_slice(x[4]));
  throw std::logic_error("generator expected");
}
static std::string wr_gen(const ArrayGeneratorPtr& g) {
  if (RemoteGenerator* r = dynamic_cast<RemoteGenerator*>(g.get()))
    return "(pygen " + std::to_string(r->id()) + " " + wr_form(r->declared_form()) + " " + std::to_string(r->length()) + " " + wr_form(r->inferred_form()) + ")";
  if (SliceGenerator* r = dynamic_cast<SliceGenerator*>(g.get()))
    return "(slicegen " + wr_form(r->form()) + " " + std::to_string(r->length()) + " " + pd(r->content()) + " " + wr_slice(r->slice()) + ")";
  throw std::runtime_error("unknown ArrayGenerator subtype");
}
static ArrayCachePtr rd_cache(const Sx& x) {
  if (x.is("-")) return ArrayCachePtr(nullptr);
  return std::make_shared<RemoteCache>(to_i64(x[1]));
}
static std::string wr_cache(const ArrayCachePtr& c) {
  if (c.get() == nullptr) return "-";
  if (RemoteCache* r = dynamic_cast<RemoteCache*>(c.get())) return "(cache " + std::to_string(r->id()) + ")";
  throw std::runtime_error("unknown ArrayCache subtype");
}

static ContentPtrVec pb_many(const Sx& x, size_t from) {
  ContentPtrVec out;
  for (size_t i = from; i < x.size(); i++) out.push_back(pb(x[i]));
  return out;
}
static ContentPtrVec pb_list(const Sx& x) {
  if (x.atom) throw std::logic_error("list of layouts expected");
  return pb_many(x, 0);
}

static ContentPtr pb(const Sx& x) {
  const std::string h = x.head();
  if (h == "record") {
    ContentPtr arr = pb(x[2]);
    std::shared_ptr<const RecordArray> ra = std::dynamic_pointer_cast<const RecordArray>(arr);
    if (!ra) throw std::logic_error("record: RecordArray expected");
    return std::make_shared<Record>(ra, to_i64(x[1]));
  }
  if (x.size() < 3) throw std::logic_error("layout expected, got " + x.str().substr(0, 60));
  util::Parameters ps = rd_params(x[1]);
  IdentitiesPtr id = rd_ident(x[2]);
  if (h == "np") {
    std::string dtname = x[3].a;
    std::string format = unhex(x[4]);
    std::vector<int64_t> shape = to_i64s(x[5]);
    std::vector<int64_t> strides = to_i64s(x[6]);
    int64_t byteoffset = to_i64(x[7]);
    std::string data = unhex(x[8]);
    int64_t itemsize = to_i64(x[9]);
    util::dtype d;
    if (dtname.rfind("datetime64", 0) == 0 || dtname.rfind("timedelta64", 0) == 0) d = util::name_to_dtype(dtname);
    else d = util::format_to_dtype(format, itemsize);
    std::shared_ptr<void> ptr = mem_get(x.size() > 10 ? &x[10] : nullptr, data, true);
    std::vector<ssize_t> sh, st;
    for (auto s : shape) sh.push_back((ssize_t)s);
    for (auto s : strides) st.push_back((ssize_t)s);
    return std::make_shared<NumpyArray>(id, ps, ptr, sh, st, (ssize_t)byteoffset, (ssize_t)itemsize, format, d, kernel::lib::cpu);
  }
  if (h == "empty") return std::make_shared<EmptyArray>(id, ps);
  if (h == "lo") {
    const std::string w = x[3].head();
    ContentPtr c = pb(x[4]);
    if (w == "i32") return std::make_shared<ListOffsetArray32>(id, ps, rd_ix<int32_t>(x[3]), c);
    if (w == "u32") return std::make_shared<ListOffsetArrayU32>(id, ps, rd_ix<uint32_t>(x[3]), c);
    return std::make_shared<ListOffsetArray64>(id, ps, rd_ix<int64_t>(x[3]), c);
  }
  if (h == "la") {
    const std::string w = x[3].head();
    ContentPtr c = pb(x[5]);
    if (w == "i32") return std::make_shared<ListArray32>(id, ps, rd_ix<int32_t>(x[3]), rd_ix<int32_t>(x[4]), c);
    if (w == "u32") return std::make_shared<ListArrayU32>(id, ps, rd_ix<uint32_t>(x[3]), rd_ix<uint32_t>(x[4]), c);
    return std::make_shared<ListArray64>(id, ps, rd_ix<int64_t>(x[3]), rd_ix<int64_t>(x[4]), c);
  }
  if (h == "reg") return std::make_shared<RegularArray>(id, ps, pb(x[5]), to_i64(x[3]), to_i64(x[4]));
  if (h == "ix") {
    const std::string w = x[3].head();
    ContentPtr c = pb(x[4]);
    if (w == "i32") return std::make_shared<IndexedArray32>(id, ps, rd_ix<int32_t>(x[3]), c);
    if (w == "u32") return std::make_shared<IndexedArrayU32>(id, ps, rd_ix<uint32_t>(x[3]), c);
    return std::make_shared<IndexedArray64>(id, ps, rd_ix<int64_t>(x[3]), c);
  }
  if (h == "ixo") {
    const std::string w = x[3].head();
    ContentPtr c = pb(x[4]);
    if (w == "i32") return std::make_shared<IndexedOptionArray32>(id, ps, rd_ix<int32_t>(x[3]), c);
    return std::make_shared<IndexedOptionArray64>(id, ps, rd_ix<int64_t>(x[3]), c);
  }
  if (h == "bym") return std::make_shared<ByteMaskedArray>(id, ps, rd_ix<int8_t>(x[3]), pb(x[5]), to_b(x[4]));
  if (h == "bim") return std::make_shared<BitMaskedArray>(id, ps, rd_ix<uint8_t>(x[3]), pb(x[7]), to_b(x[4]), to_i64(x[5]), to_b(x[6]));
  if (h == "unm") return std::make_shared<UnmaskedArray>(id, ps, pb(x[3]));
  if (h == "un") {
    const std::string w = x[4].head();
    Index8 tags = rd_ix<int8_t>(x[3]);
    ContentPtrVec cs = pb_many(x, 5);
    if (w == "i32") return std::make_shared<UnionArray8_32>(id, ps, tags, rd_ix<int32_t>(x[4]), cs);
    if (w == "u32") return std::make_shared<UnionArray8_U32>(id, ps, tags, rd_ix<uint32_t>(x[4]), cs);
    return std::make_shared<UnionArray8_64>(id, ps, tags, rd_ix<int64_t>(x[4]), cs);
  }
  if (h == "rec") {
    int64_t len = to_i64(x[3]);
    util::RecordLookupPtr lookup(nullptr);
    if (!x[4].is("tuple")) {
      // equal key lists share one RecordLookup within a request (derived arrays share it in a real process;
      // RecordArray::referentially_equal compares the pointers)
      std::string sig = x[4].str();
      auto it = g_lookups.find(sig);
      if (it != g_lookups.end()) lookup = it->second;
      else {
        lookup = std::make_shared<util::RecordLookup>();
        for (auto& k : x[4].l) lookup->push_back(unhex(k));
        g_lookups[sig] = lookup;
      }
    }
    return std::make_shared<RecordArray>(id, ps, pb_many(x, 5), lookup, len);
  }
  if (h == "virt") {
    ArrayGeneratorPtr gen = rd_gen(x[3]);
    ArrayCachePtr cache = rd_cache(x[4]);
    if (x[5].is("-")) return std::make_shared<VirtualArray>(id, ps, gen, cache);
    return std::make_shared<VirtualArray>(id, ps, gen, cache, unhex(x[5]));
  }
  throw std::logic_error("pb: unknown node " + x.str().substr(0, 60));
}

static void span_of(const std::vector<ssize_t>& shape, const std::vector<ssize_t>& strides, ssize_t itemsize,
                    int64_t& low, int64_t& high) {
  low = 0; high = 0;
  for (size_t i = 0; i < shape.size(); i++) {
    if (shape[i] == 0) { low = 0; high = 0; return; }
    int64_t ext = (int64_t)(shape[i] - 1) * (int64_t)strides[i];
    if (ext < 0) low += ext; else high += ext;
  }
  high += itemsize;
}

static std::string pd_numpy(const NumpyArray* r, bool scalar_ok) {
  util::dtype d = r->dtype();
  std::string dtname = util::dtype_to_name(d);
  if (r->ndim() == 0 && scalar_ok) {
    return "(scalar " + dtname + " " + hexs(r->format()) + " " + hex_of(r->data(), (size_t)r->itemsize()) + ")";
  }
  int64_t low, high;
  span_of(r->shape(), r->strides(), r->itemsize(), low, high);
  const char* base = (const char*)r->data();
  std::string sh = "(", st = "(";
  for (size_t i = 0; i < r->shape().size(); i++) { if (i) { sh += " "; st += " "; } sh += std::to_string(r->shape()[i]); st += std::to_string(r->strides()[i]); }
  sh += ")"; st += ")";
  std::string key; size_t off;
  std::string datafield;
  if (mem_find(base + low, (size_t)(high - low), key, off))
    datafield = "(ref " + key + " " + std::to_string(off) + " " + std::to_string(high - low) + ")";
  else
    datafield = hex_of(base + low, (size_t)(high - low));
  return "(np " + wr_params(r->parameters()) + " " + wr_ident(r->identities()) + " " + dtname + " " + hexs(r->format()) + " " + sh + " " + st + " "
         + std::to_string(-low) + " " + datafield + " " + std::to_string(r->itemsize()) + ")";
}

static std::string pd_raw(const Content* c) {
  std::string PI = wr_params(c->parameters()) + " " + wr_ident(c->identities());
  if (const NumpyArray* r = dynamic_cast<const NumpyArray*>(c)) return pd_numpy(r, true);
  if (dynamic_cast<const EmptyArray*>(c)) return "(empty " + PI + ")";
#define PLO(T, U) if (const T* r = dynamic_cast<const T*>(c)) return "(lo " + PI + " " + wr_ix<U>(r->offsets()) + " " + pd(r->content()) + ")";
  PLO(ListOffsetArray32, int32_t) PLO(ListOffsetArrayU32, uint32_t) PLO(ListOffsetArray64, int64_t)
#define PLA(T, U) if (const T* r = dynamic_cast<const T*>(c)) return "(la " + PI + " " + wr_ix<U>(r->starts()) + " " + wr_ix<U>(r->stops()) + " " + pd(r->content()) + ")";
  PLA(ListArray32, int32_t) PLA(ListArrayU32, uint32_t) PLA(ListArray64, int64_t)
  if (const RegularArray* r = dynamic_cast<const RegularArray*>(c))
    return "(reg " + PI + " " + std::to_string(r->size()) + " " + std::to_string(r->length()) + " " + pd(r->content()) + ")";
#define PIX(T, H, U) if (const T* r = dynamic_cast<const T*>(c)) return std::string("(" H " ") + PI + " " + wr_ix<U>(r->index()) + " " + pd(r->content()) + ")";
  PIX(IndexedArray32, "ix", int32_t) PIX(IndexedArrayU32, "ix", uint32_t) PIX(IndexedArray64, "ix", int64_t)
  PIX(IndexedOptionArray32, "ixo", int32_t) PIX(IndexedOptionArray64, "ixo", int64_t)
  if (const ByteMaskedArray* r = dynamic_cast<const ByteMaskedArray*>(c))
    return "(bym " + PI + " " + wr_ix<int8_t>(r->mask()) + " " + b01(r->valid_when()) + " " + pd(r->content()) + ")";
  if (const BitMaskedArray* r = dynamic_cast<const BitMaskedArray*>(c))
    return "(bim " + PI + " " + wr_ix<uint8_t>(r->mask()) + " " + b01(r->valid_when()) + " " + std::to_string(r->length()) + " "
           + b01(r->lsb_order()) + " " + pd(r->content()) + ")";
  if (const UnmaskedArray* r = dynamic_cast<const UnmaskedArray*>(c)) return "(unm " + PI + " " + pd(r->content()) + ")";
#define PUN(T, U) if (const T* r = dynamic_cast<const T*>(c)) { std::string o = "(un " + PI + " " + wr_ix<int8_t>(r->tags()) + " " + wr_ix<U>(r->index()); \
    for (auto& k : r->contents()) o += " " + pd(k); return o + ")"; }
  PUN(UnionArray8_32, int32_t) PUN(UnionArray8_U32, uint32_t) PUN(UnionArray8_64, int64_t)
  if (const RecordArray* r = dynamic_cast<const RecordArray*>(c)) {
    std::string o = "(rec " + PI + " " + std::to_string(r->length()) + " ";
    if (r->istuple()) o += "tuple";
    else o += wr_strs(*r->recordlookup());
    for (auto& k : r->contents()) o += " " + pd(k);
    return o + ")";
  }
  if (const VirtualArray* r = dynamic_cast<const VirtualArray*>(c))
    return "(virt " + PI + " " + wr_gen(r->generator()) + " " + wr_cache(r->cache()) + " " + hexs(r->cache_key()) + ")";
  throw std::runtime_error("pd: unknown Content subtype " + c->classname());
}

static std::string pd(const ContentPtr& c) {
  if (c.get() == nullptr) return "(none)";
  if (dynamic_cast<const None*>(c.get())) return "(none)";
  if (const Record* r = dynamic_cast<const Record*>(c.get()))
    return "(record " + std::to_string(r->at()) + " " + pd(r->array()->shallow_copy()) + ")";
  return pd_raw(c.get());
}
// an array-typed result that must stay a NumpyArray node even when zero-dimensional
static std::string pd_array(const ContentPtr& c) {
  if (const NumpyArray* r = dynamic_cast<const NumpyArray*>(c.get())) return pd_numpy(r, false);
  return pd(c);
}

// ------------------------------------------------------------------ types
static TypePtr rd_type(const Sx& x) {
  const std::string h = x.head();
  util::Parameters ps = rd_params(x[1]);
  std::string ts = x[2].is("-") ? std::string() : unhex(x[2]);
  if (h == "ArrayType") return std::make_shared<ArrayType>(ps, ts, rd_type(x[3]), to_i64(x[4]));
  if (h == "ListType") return std::make_shared<ListType>(ps, ts, rd_type(x[3]));
  if (h == "OptionType") return std::make_shared<OptionType>(ps, ts, rd_type(x[3]));
  if (h == "RegularType") return std::make_shared<RegularType>(ps, ts, rd_type(x[3]), to_i64(x[4]));
  if (h == "UnknownType") return std::make_shared<UnknownType>(ps, ts);
  if (h == "PrimitiveType") {
    util::dtype dt = util::name_to_dtype(unhex(x[3]));
    if (dt == util::dtype::NOT_PRIMITIVE) throw std::invalid_argument("unrecognized primitive type: " + unhex(x[3]));
    return std::make_shared<PrimitiveType>(ps, ts, dt);
  }
  if (h == "UnionType") {
    std::vector<TypePtr> ts2;
    for (size_t i = 3; i < x.size(); i++) ts2.push_back(rd_type(x[i]));
    return std::make_shared<UnionType>(ps, ts, ts2);
  }
  if (h == "RecordType") {
    util::RecordLookupPtr lookup(nullptr);
    if (!x[3].is("tuple")) { lookup = std::make_shared<util::RecordLookup>(); for (auto& k : x[3].l) lookup->push_back(unhex(k)); }
    std::vector<TypePtr> ts2;
    for (size_t i = 4; i < x.size(); i++) ts2.push_back(rd_type(x[i]));
    return std::make_shared<RecordType>(ps, ts, ts2, lookup);
  }
  throw std::logic_error("type expected, got " + x.str().substr(0, 60));
}
static std::string wr_type(const TypePtr& t) {
  std::string PT = wr_params(t->parameters()) + " " + (t->typestr().empty() ? std::string("-") : hexs(t->typestr()));
  if (ArrayType* r = dynamic_cast<ArrayType*>(t.get())) return "(ArrayType " + PT + " " + wr_type(r->type()) + " " + std::to_string(r->length()) + ")";
  if (ListType* r = dynamic_cast<ListType*>(t.get())) return "(ListType " + PT + " " + wr_type(r->type()) + ")";
  if (OptionType* r = dynamic_cast<OptionType*>(t.get())) return "(OptionType " + PT + " " + wr_type(r->type()) + ")";
  if (RegularType* r = dynamic_cast<RegularType*>(t.get())) return "(RegularType " + PT + " " + wr_type(r->type()) + " " + std::to_string(r->size()) + ")";
  if (dynamic_cast<UnknownType*>(t.get())) return "(UnknownType " + PT + ")";
  if (PrimitiveType* r = dynamic_cast<PrimitiveType*>(t.get())) return "(PrimitiveType " + PT + " " + hexs(util::dtype_to_name(r->dtype())) + ")";
  if (UnionType* r = dynamic_cast<UnionType*>(t.get())) {
    std::string o = "(UnionType " + PT;
    for (auto& k : r->types()) o += " " + wr_type(k);
    return o + ")";
  }
  if (RecordType* r = dynamic_cast<RecordType*>(t.get())) {
    std::string o = "(RecordType " + PT + " ";
    if (r->recordlookup().get() == nullptr) o += "tuple"; else o += wr_strs(*r->recordlookup());
    for (auto& k : r->types()) o += " " + wr_type(k);
    return o + ")";
  }
  throw std::runtime_error("unknown Type subtype");
}

// ------------------------------------------------------------------ slices
static SliceItemPtr rd_item(const Sx& x) {
  if (x.is("ell")) return std::make_shared<SliceEllipsis>();
  if (x.is("newaxis")) return std::make_shared<SliceNewAxis>();
  const std::string h = x.head();
  if (h == "at") return std::make_shared<SliceAt>(to_i64(x[1]));
  if (h == "rng") return std::make_shared<SliceRange>(bound(x[1]), bound(x[2]), bound(x[3]));
  if (h == "arr") {   // (arr IX (shape..) (strides_items..) FROMBOOL)
    return std::make_shared<SliceArray64>(rd_ix<int64_t>(x[1]), to_i64s(x[2]), to_i64s(x[3]), to_b(x[4]));
  }
  if (h == "fld") return std::make_shared<SliceField>(unhex(x[1]));
  if (h == "flds") return std::make_shared<SliceFields>(rd_strs(x[1]));
  if (h == "miss") return std::make_shared<SliceMissing64>(rd_ix<int64_t>(x[1]), rd_ix<int8_t>(x[2]), rd_item(x[3]));
  if (h == "jag") return std::make_shared<SliceJagged64>(rd_ix<int64_t>(x[1]), rd_item(x[2]));
  if (h == "content") return pb(x[1])->asslice();
  throw std::logic_error("slice item expected, got " + x.str().substr(0, 60));
}
static Slice rd_slice(const Sx& items) {
  Slice s;
  if (items.atom) throw std::logic_error("slice expected");
  for (auto& it : items.l) s.append(rd_item(it));
  s.become_sealed();
  return s;
}
static std::string wr_bound(int64_t v) { return v == Slice::none() ? "none" : std::to_string(v); }
static std::string wr_item(const SliceItemPtr& it) {
  if (SliceAt* r = dynamic_cast<SliceAt*>(it.get())) return "(at " + std::to_string(r->at()) + ")";
  if (SliceRange* r = dynamic_cast<SliceRange*>(it.get())) return "(rng " + wr_bound(r->start()) + " " + wr_bound(r->stop()) + " " + wr_bound(r->step()) + ")";
  if (dynamic_cast<SliceEllipsis*>(it.get())) return "ell";
  if (dynamic_cast<SliceNewAxis*>(it.get())) return "newaxis";
  if (SliceArray64* r = dynamic_cast<SliceArray64*>(it.get())) {
    // re-base: the index buffer is shared with the shape/strides; dump the whole index
    return "(arr " + wr_ix<int64_t>(r->index()) + " " + wr_i64s(r->shape()) + " " + wr_i64s(r->strides()) + " " + b01(r->frombool()) + ")";
  }
  if (SliceField* r = dynamic_cast<SliceField*>(it.get())) return "(fld " + hexs(r->key()) + ")";
  if (SliceFields* r = dynamic_cast<SliceFields*>(it.get())) return "(flds " + wr_strs(r->keys()) + ")";
  if (SliceMissing64* r = dynamic_cast<SliceMissing64*>(it.get()))
    return "(miss " + wr_ix<int64_t>(r->index()) + " " + wr_ix<int8_t>(r->originalmask()) + " " + wr_item(r->content()) + ")";
  if (SliceJagged64* r = dynamic_cast<SliceJagged64*>(it.get()))
    return "(jag " + wr_ix<int64_t>(r->offsets()) + " " + wr_item(r->content()) + ")";
  throw std::runtime_error("unknown SliceItem subtype");
}
static std::string wr_slice(const Slice& s) {
  std::string o = "(";
  bool first = true;
  for (auto& it : s.items()) { if (!first) o += " "; first = false; o += wr_item(it); }
  return o + ")";
}

// ------------------------------------------------------------------ content methods
static std::string reduce_op(const std::string& n, const ContentPtr& c, const Sx& cs, size_t a) {
  int64_t axis = to_i64(cs[a]); bool mask = to_b(cs[a + 1]); bool keepdims = to_b(cs[a + 2]);
#define RED(NAME, CLS) if (n == NAME) { CLS r; return pd(c->reduce(r, axis, mask, keepdims)); }
  RED("count", ReducerCount) RED("count_nonzero", ReducerCountNonzero) RED("sum", ReducerSum) RED("prod", ReducerProd)
  RED("any", ReducerAny) RED("all", ReducerAll) RED("argmin", ReducerArgmin) RED("argmax", ReducerArgmax)
  if (n == "min" || n == "max") {
    bool has_initial = cs.size() > a + 3 && !cs[a + 3].is("-");
    if (!has_initial) {
      if (n == "min") { ReducerMin r; return pd(c->reduce(r, axis, mask, keepdims)); }
      ReducerMax r; return pd(c->reduce(r, axis, mask, keepdims));
    }
    // (f64 u64 i64) prepared by the Python side exactly as the binding does
    double f = to_d(cs[a + 3][0]); uint64_t u = (uint64_t)to_i64(cs[a + 3][1]); int64_t i = to_i64(cs[a + 3][2]);
    if (n == "min") { ReducerMin r(f, u, i); return pd(c->reduce(r, axis, mask, keepdims)); }
    ReducerMax r(f, u, i); return pd(c->reduce(r, axis, mask, keepdims));
  }
  throw std::logic_error("unknown reducer " + n);
}

static std::string pair_depth(const std::pair<int64_t, int64_t>& p) { return "(" + std::to_string(p.first) + " " + std::to_string(p.second) + ")"; }

template <typename T>
static std::string identity_of(const T& self) {
  if (self.identities().get() == nullptr)
    throw std::invalid_argument(self.classname() + std::string(" instance has no associated identities (use 'setidentities' to assign one to the array it is in)"));
  Identities::FieldLoc fieldloc = self.identities()->fieldloc();
  std::string o = "(";
  int64_t width = self.identities()->width();
  bool scalar = self.isscalar();
  for (int64_t i = 0; i < width; i++) {
    if (scalar || i < width - 1) o += " " + std::to_string(self.identities()->value(0, i));
    for (auto pair : fieldloc) if (pair.first == i) o += " " + hexs(pair.second);
  }
  return o + ")";
}

static std::string call_content(const std::string& m, const Sx& cs) {
  // cs = (id call METHOD RECV args...)   args start at 4
  ContentPtr c = pb(cs[3]);
  const size_t A = 4;
  if (m == "id") return pd(c);
  if (m == "tostring") return hexs(c->tostring());
  if (m == "type") return wr_type(c->type(rd_typestrs(cs[A])));
  if (m == "form") return wr_form(c->form(false));
  if (m == "form_materialized") return wr_form(c->form(true));
  if (m == "len") return std::to_string(c->length());
  if (m == "getitem") return pd(c->getitem(rd_slice(cs[A])));
  if (m == "getitem_at") return pd(c->getitem_at(to_i64(cs[A])));
  if (m == "getitem_at_nowrap") return pd(c->getitem_at_nowrap(to_i64(cs[A])));
  if (m == "getitem_range") return pd(c->getitem_range(bound(cs[A]), bound(cs[A + 1])));
  if (m == "getitem_range_nowrap") return pd(c->getitem_range_nowrap(to_i64(cs[A]), to_i64(cs[A + 1])));
  if (m == "getitem_field") return pd(c->getitem_field(unhex(cs[A])));
  if (m == "getitem_fields") return pd(c->getitem_fields(rd_strs(cs[A])));
  if (m == "getitem_nothing") return pd(c->getitem_nothing());
  if (m == "iter_all") {
    c->check_for_iteration();
    std::string o = "(";
    int64_t n = c->length();
    for (int64_t i = 0; i < n; i++) { if (i) o += " "; o += pd(c->getitem_at_nowrap(i)); }
    return o + ")";
  }
  if (m == "iter_fields") {   // RecordArray: for every field, all rows (what Record::field(j) returns for each row)
    const RecordArray* r = dynamic_cast<const RecordArray*>(c.get());
    if (!r) throw std::logic_error("iter_fields: RecordArray expected");
    c->check_for_iteration();
    std::string o = "(";
    int64_t n = r->length();
    bool firstf = true;
    for (auto& f : r->contents()) {
      if (!firstf) o += " "; firstf = false;
      o += "(";
      for (int64_t i = 0; i < n; i++) { if (i) o += " "; o += pd(f->getitem_at_nowrap(i)); }
      o += ")";
    }
    return o + ")";
  }
  if (m == "tojson") {
    OptStr nan = optstr(cs[A + 2]), inf = optstr(cs[A + 3]), minf = optstr(cs[A + 4]), cre = optstr(cs[A + 5]), cim = optstr(cs[A + 6]);
    return hexs(c->tojson(to_b(cs[A]), to_i64(cs[A + 1]), nan.c(), inf.c(), minf.c(), cre.c(), cim.c()));
  }
  if (m == "nbytes") return std::to_string(c->nbytes());
  if (m == "deep_copy") return pd(c->deep_copy(to_b(cs[A]), to_b(cs[A + 1]), to_b(cs[A + 2])));
  if (m == "identity") {
    if (const Record* r = dynamic_cast<const Record*>(c.get())) return identity_of(*r);
    return identity_of(*c);
  }
  if (m == "setidentities") { c->setidentities(); return pd(c); }
  if (m == "setidentities_to") { c->setidentities(rd_ident(cs[A])); return pd(c); }
  if (m == "numfields") return std::to_string(c->numfields());
  if (m == "fieldindex") return std::to_string(c->fieldindex(unhex(cs[A])));
  if (m == "key") return hexs(c->key(to_i64(cs[A])));
  if (m == "haskey") return b01(c->haskey(unhex(cs[A])));
  if (m == "keys") return wr_strs(c->keys());
  if (m == "purelist_isregular") return b01(c->purelist_isregular());
  if (m == "purelist_depth") return std::to_string(c->purelist_depth());
  if (m == "branch_depth") { auto p = c->branch_depth(); return "(" + b01(p.first) + " " + std::to_string(p.second) + ")"; }
  if (m == "minmax_depth") return pair_depth(c->minmax_depth());
  if (m == "parameter") return hexs(c->parameter(unhex(cs[A])));
  if (m == "purelist_parameter") return hexs(c->purelist_parameter(unhex(cs[A])));
  if (m == "validityerror") return hexs(c->validityerror(std::string("layout")));
  if (m == "fillna") return pd(c->fillna(pb(cs[A])));
  if (m == "num") return pd(c->num(to_i64(cs[A]), 0));
  if (m == "flatten") return pd(c->offsets_and_flattened(to_i64(cs[A]), 0).second);
  if (m == "offsets_and_flatten") {
    auto p = c->offsets_and_flattened(to_i64(cs[A]), 0);
    return "(" + wr_ix<int64_t>(p.first) + " " + pd(p.second) + ")";
  }
  if (m == "rpad") return pd(c->rpad(to_i64(cs[A]), to_i64(cs[A + 1]), 0));
  if (m == "rpad_and_clip") return pd(c->rpad_and_clip(to_i64(cs[A]), to_i64(cs[A + 1]), 0));
  if (m == "mergeable") return b01(c->mergeable(pb(cs[A]), to_b(cs[A + 1])));
  if (m == "merge") return pd(c->merge(pb(cs[A])));
  if (m == "merge_as_union") return pd(c->merge_as_union(pb(cs[A])));
  if (m == "mergemany") return pd(c->mergemany(pb_list(cs[A])));
  if (m == "axis_wrap_if_negative") return std::to_string(c->axis_wrap_if_negative(to_i64(cs[A])));
  if (m == "reduce") return reduce_op(unhex(cs[A]), c, cs, A + 1);
  if (m == "localindex") return pd(c->localindex(to_i64(cs[A]), 0));
  if (m == "combinations") {   // n replacement keys|- params axis
    int64_t n = to_i64(cs[A]);
    util::RecordLookupPtr lookup(nullptr);
    if (!cs[A + 2].is("-")) {
      lookup = std::make_shared<util::RecordLookup>();
      for (auto& k : cs[A + 2].l) lookup->push_back(unhex(k));
      if (n != (int64_t)lookup->size()) throw std::invalid_argument("if provided, the length of 'keys' must be 'n'");
    }
    return pd(c->combinations(n, to_b(cs[A + 1]), lookup, rd_params(cs[A + 3]), to_i64(cs[A + 4]), 0));
  }
  if (m == "sort") return pd(c->sort(to_i64(cs[A]), to_b(cs[A + 1]), to_b(cs[A + 2])));
  if (m == "argsort") return pd(c->argsort(to_i64(cs[A]), to_b(cs[A + 1]), to_b(cs[A + 2])));
  if (m == "numbers_to_type") return pd(c->numbers_to_type(unhex(cs[A])));
  if (m == "is_unique") return b01(c->is_unique());
  if (m == "unique") return pd(c->unique());
  if (m == "copy_to") {
    std::string lib = unhex(cs[A]);
    if (lib == "cpu") return pd(c->copy_to(kernel::lib::cpu));
    if (lib == "cuda") return pd(c->copy_to(kernel::lib::cuda));
    throw std::invalid_argument("specify 'cpu' or 'cuda'");
  }
  if (m == "carry") return pd(c->carry(rd_ix<int64_t>(cs[A]), to_b(cs[A + 1])));
  if (m == "shallow_simplify") return pd(c->shallow_simplify());
  if (m == "kernels") { switch (c->kernels()) { case kernel::lib::cpu: return hexs("cpu"); case kernel::lib::cuda: return hexs("cuda"); default: return hexs("mixed"); } }

  // ---- class-specific
#define AS(T) const T* r = dynamic_cast<const T*>(c.get())
#define OPTION_METHODS(T) \
  if (AS(T)) { \
    if (m == "project") { if (cs.size() > A && !cs[A].is("-")) return pd(r->project(rd_ix<int8_t>(cs[A]))); return pd(r->project()); } \
    if (m == "bytemask") return wr_ix<int8_t>(r->bytemask()); \
    if (m == "simplify") return pd(r->simplify_optiontype()); \
  }
  OPTION_METHODS(IndexedArray32) OPTION_METHODS(IndexedArrayU32) OPTION_METHODS(IndexedArray64)
  OPTION_METHODS(IndexedOptionArray32) OPTION_METHODS(IndexedOptionArray64)
  OPTION_METHODS(ByteMaskedArray) OPTION_METHODS(BitMaskedArray) OPTION_METHODS(UnmaskedArray)
  if (AS(ByteMaskedArray)) { if (m == "toIndexedOptionArray64") return pd(r->toIndexedOptionArray64()); }
  if (AS(BitMaskedArray)) {
    if (m == "toIndexedOptionArray64") return pd(r->toIndexedOptionArray64());
    if (m == "toByteMaskedArray") return pd(r->toByteMaskedArray());
  }
  if (AS(UnmaskedArray)) {
    if (m == "toIndexedOptionArray64") return pd(r->toIndexedOptionArray64());
    if (m == "toByteMaskedArray") return pd(r->toByteMaskedArray());
  }
#define LIST_METHODS(T) \
  if (AS(T)) { \
    if (m == "compact_offsets64") return wr_ix<int64_t>(r->compact_offsets64(to_b(cs[A]))); \
    if (m == "broadcast_tooffsets64") return pd(r->broadcast_tooffsets64(rd_ix<int64_t>(cs[A]))); \
    if (m == "toListOffsetArray64") return pd(r->toListOffsetArray64(to_b(cs[A]))); \
    if (m == "toRegularArray") return pd(r->toRegularArray()); \
    if (m == "simplify") return pd(r->shallow_simplify()); \
  }
  LIST_METHODS(ListArray32) LIST_METHODS(ListArrayU32) LIST_METHODS(ListArray64)
  LIST_METHODS(ListOffsetArray32) LIST_METHODS(ListOffsetArrayU32) LIST_METHODS(ListOffsetArray64)
  LIST_METHODS(RegularArray)
  if (AS(ListOffsetArray32)) { if (m == "starts") return wr_ix<int32_t>(r->starts()); if (m == "stops") return wr_ix<int32_t>(r->stops()); }
  if (AS(EmptyArray)) {
    if (m == "toNumpyArray") return pd_array(r->toNumpyArray("d", sizeof(double), util::dtype::float64));
    if (m == "simplify") return pd(r->shallow_simplify());
  }
  if (AS(NumpyArray)) {
    if (m == "toRegularArray") return pd(r->toRegularArray());
    if (m == "contiguous") { NumpyArray out = r->contiguous(); return pd_numpy(&out, false); }
    if (m == "iscontiguous") return b01(r->iscontiguous());
    if (m == "simplify") return pd(r->shallow_simplify());
  }
  if (AS(RecordArray)) {
    if (m == "setitem_field") {    // where: - (append) | xKEY | int
      ContentPtr what = pb(cs[A + 1]);
      if (cs[A].is("-")) return pd(r->setitem_field(r->numfields(), what));
      if (cs[A].atom && cs[A].a[0] == 'x') return pd(r->setitem_field(unhex(cs[A]), what));
      return pd(r->setitem_field(to_i64(cs[A]), what));
    }
    if (m == "field") { if (cs[A].atom && cs[A].a[0] == 'x') return pd(r->field(unhex(cs[A]))); return pd(r->field(to_i64(cs[A]))); }
    if (m == "fields") { std::string o = "("; bool f = true; for (auto& k : r->fields()) { if (!f) o += " "; f = false; o += pd(k); } return o + ")"; }
    if (m == "fielditems") { std::string o = "("; bool f = true; for (auto& k : r->fielditems()) { if (!f) o += " "; f = false; o += "(" + hexs(k.first) + " " + pd(k.second) + ")"; } return o + ")"; }
    if (m == "astuple") return pd(r->astuple());
    if (m == "simplify") return pd(r->shallow_simplify());
  }
  if (AS(Record)) {
    if (m == "field") { if (cs[A].atom && cs[A].a[0] == 'x') return pd(r->field(unhex(cs[A]))); return pd(r->field(to_i64(cs[A]))); }
    if (m == "fields") { std::string o = "("; bool f = true; for (auto& k : r->fields()) { if (!f) o += " "; f = false; o += pd(k); } return o + ")"; }
    if (m == "fielditems") { std::string o = "("; bool f = true; for (auto& k : r->fielditems()) { if (!f) o += " "; f = false; o += "(" + hexs(k.first) + " " + pd(k.second) + ")"; } return o + ")"; }
    if (m == "astuple") return pd(r->astuple());
    if (m == "simplify") return pd(r->shallow_simplify());
  }
#define UNION_METHODS(T) \
  if (AS(T)) { \
    if (m == "project") return pd(r->project(to_i64(cs[A]))); \
    if (m == "simplify") return pd(r->simplify_uniontype(to_b(cs[A]), to_b(cs[A + 1]))); \
  }
  UNION_METHODS(UnionArray8_32) UNION_METHODS(UnionArray8_U32) UNION_METHODS(UnionArray8_64)
  if (AS(VirtualArray)) {
    if (m == "array") return pd(r->array());
    if (m == "peek_array") return pd(r->peek_array());
    if (m == "virtual_len") return std::to_string(r->length());
  }
  throw std::logic_error("unknown method " + m + " for " + c->classname());
}

// static methods of UnionArray
static std::string call_static(const std::string& m, const Sx& cs) {
  const std::string w = cs[3].a;
  const size_t A = 4;
#define USTAT(W, T) if (w == W) { \
    if (m == "sparse_index") return wr_ix(T::sparse_index(to_i64(cs[A]))); \
    if (m == "regular_index") return wr_ix(T::regular_index(rd_ix<int8_t>(cs[A]))); \
    if (m == "nested_tags_index") { std::vector<Index64> counts; for (auto& e : cs[A + 1].l) counts.push_back(rd_ix<int64_t>(e)); \
      auto p = T::nested_tags_index(rd_ix<int64_t>(cs[A]), counts); return "(" + wr_ix(p.first) + " " + wr_ix(p.second) + ")"; } }
  USTAT("i32", UnionArray8_32) USTAT("u32", UnionArray8_U32) USTAT("i64", UnionArray8_64)
  throw std::logic_error("unknown static " + m);
}

// ------------------------------------------------------------------ stateful objects
static int64_t next_handle = 1;
static std::map<int64_t, std::shared_ptr<ArrayBuilder>> builders;
static std::map<int64_t, std::shared_ptr<LayoutBuilder>> lbuilders;
static std::map<int64_t, std::shared_ptr<ForthMachine32>> vm32;
static std::map<int64_t, std::shared_ptr<ForthMachine64>> vm64;

template <typename M>
static typename M::mapped_type& handle_of(M& m, const Sx& x) {
  auto it = m.find(to_i64(x));
  if (it == m.end()) throw std::logic_error("stale handle " + x.str());
  return it->second;
}

template <typename B>
static std::string builder_getitem(B& b, const Sx& cs, size_t A) {
  // (kind args): at i | range s e | field k | fields ks | slice S
  const std::string k = cs[A].a;
  if (k == "at") return pd(b.getitem_at(to_i64(cs[A + 1])));
  if (k == "range") return pd(b.getitem_range(bound(cs[A + 1]), bound(cs[A + 2])));
  if (k == "field") return pd(b.getitem_field(unhex(cs[A + 1])));
  if (k == "fields") return pd(b.getitem_fields(rd_strs(cs[A + 1])));
  if (k == "slice") return pd(b.getitem(rd_slice(cs[A + 1])));
  throw std::logic_error("builder getitem kind");
}

static void ab_cmd(ArrayBuilder& b, const Sx& c) {
  const std::string n = c[0].a;
  if (n == "null") b.null();
  else if (n == "boolean") b.boolean(to_b(c[1]));
  else if (n == "integer") b.integer(to_i64(c[1]));
  else if (n == "real") b.real(to_d(c[1]));
  else if (n == "complex") b.complex(std::complex<double>(to_d(c[1]), to_d(c[2])));
  else if (n == "datetime") b.datetime(to_i64(c[1]), unhex(c[2]));
  else if (n == "timedelta") b.timedelta(to_i64(c[1]), unhex(c[2]));
  else if (n == "bytestring") b.bytestring(unhex(c[1]));
  else if (n == "string") b.string(unhex(c[1]));
  else if (n == "beginlist") b.beginlist();
  else if (n == "endlist") b.endlist();
  else if (n == "begintuple") b.begintuple(to_i64(c[1]));
  else if (n == "index") b.index(to_i64(c[1]));
  else if (n == "endtuple") b.endtuple();
  else if (n == "beginrecord") { if (c.size() > 1 && !c[1].is("-")) b.beginrecord_check(unhex(c[1])); else b.beginrecord(); }
  else if (n == "field") b.field_check(unhex(c[1]));
  else if (n == "endrecord") b.endrecord();
  else if (n == "append") b.append(pb(c[1]), to_i64(c[2]));
  else if (n == "extend") b.extend(pb(c[1]));
  else if (n == "clear") b.clear();
  else throw std::logic_error("unknown ArrayBuilder command " + n);
}

static std::string forth_err_name(util::ForthError err) {
  switch (err) {
    case util::ForthError::none: return "-";
    case util::ForthError::not_ready: return hexs("not ready");
    case util::ForthError::is_done: return hexs("is done");
    case util::ForthError::user_halt: return hexs("user halt");
    case util::ForthError::recursion_depth_exceeded: return hexs("recursion depth exceeded");
    case util::ForthError::stack_underflow: return hexs("stack underflow");
    case util::ForthError::stack_overflow: return hexs("stack overflow");
    case util::ForthError::read_beyond: return hexs("read beyond");
    case util::ForthError::seek_beyond: return hexs("seek beyond");
    case util::ForthError::skip_beyond: return hexs("skip beyond");
    case util::ForthError::rewind_beyond: return hexs("rewind beyond");
    case util::ForthError::division_by_zero: return hexs("division by zero");
    case util::ForthError::varint_too_big: return hexs("varint too big");
    default: throw std::invalid_argument("unrecognized ForthError: " + std::to_string((int64_t)err));
  }
}

template <typename VM>
static std::string forth_maybe_throw(VM& vm, util::ForthError err, const Sx& flags) {
  // flags: 10 booleans in the binding's order
  static const util::ForthError order[10] = {
    util::ForthError::user_halt, util::ForthError::recursion_depth_exceeded, util::ForthError::stack_underflow,
    util::ForthError::stack_overflow, util::ForthError::read_beyond, util::ForthError::seek_beyond,
    util::ForthError::skip_beyond, util::ForthError::rewind_beyond, util::ForthError::division_by_zero,
    util::ForthError::varint_too_big };
  std::set<util::ForthError> ignore;
  for (size_t i = 0; i < 10; i++) if (!to_b(flags[i])) ignore.insert(order[i]);
  vm.maybe_throw(err, ignore);
  return forth_err_name(err);
}

template <typename VM>
static std::map<std::string, std::shared_ptr<ForthInputBuffer>> forth_inputs(VM& vm, const Sx& x) {
  std::map<std::string, std::shared_ptr<ForthInputBuffer>> ins;
  for (auto& e : x.l) {
    std::string name = unhex(e[0]);
    std::string data = unhex(e[1]);
    std::shared_ptr<void> ptr = kernel::malloc<void>(kernel::lib::cpu, (int64_t)(data.size() > 0 ? data.size() : 1));
    if (!data.empty()) std::memcpy(ptr.get(), data.data(), data.size());
    ins[name] = std::make_shared<ForthInputBuffer>(ptr, 0, (int64_t)data.size());
  }
  return ins;
}

template <typename VM, typename T>
static std::string forth_call(VM& vm, const std::string& m, const Sx& cs, size_t A) {
  if (m == "getitem") {
    std::string key = unhex(cs[A]);
    if (vm.is_variable(key)) return "(int " + std::to_string((int64_t)vm.variable_at(key)) + ")";
    if (vm.is_output(key)) return "(array " + pd_array(vm.output_NumpyArray_at(key)) + ")";
    if (vm.is_defined(key)) {
      const std::vector<std::string> dictionary = vm.dictionary();
      int64_t index = 0;
      for (; index < (int64_t)dictionary.size(); index++) if (dictionary[index] == key) break;
      ContentPtr bytecodes = vm.bytecodes();
      return "(array " + pd_array(bytecodes->getitem_at_nowrap(index + 1)) + ")";
    }
    throw std::invalid_argument("unrecognized AwkwardForth variable/output/dictionary word: " + key);
  }
  if (m == "source") return hexs(vm.source());
  if (m == "bytecodes") return pd(vm.bytecodes());
  if (m == "decompiled") return hexs(vm.decompiled());
  if (m == "dictionary") return wr_strs(vm.dictionary());
  if (m == "stack_max_depth") return std::to_string(vm.stack_max_depth());
  if (m == "recursion_max_depth") return std::to_string(vm.recursion_max_depth());
  if (m == "output_initial_size") return std::to_string(vm.output_initial_size());
  if (m == "output_resize_factor") return dbl(vm.output_resize_factor());
  if (m == "stack") { std::string o = "("; bool f = true; for (auto v : vm.stack()) { if (!f) o += " "; f = false; o += std::to_string((int64_t)v); } return o + ")"; }
  if (m == "stack_push") {
    if (!vm.stack_can_push()) throw std::invalid_argument("AwkwardForth stack overflow");
    vm.stack_push((T)to_i64(cs[A])); return "-";
  }
  if (m == "stack_pop") {
    if (!vm.stack_can_pop()) throw std::invalid_argument("AwkwardForth stack underflow");
    return std::to_string((int64_t)vm.stack_pop());
  }
  if (m == "stack_clear") { vm.stack_clear(); return "-"; }
  if (m == "string_at") return hexs(vm.string_at(to_i64(cs[A])));
  if (m == "variables") {
    std::string o = "("; bool f = true;
    for (auto& kv : vm.variables()) { if (!f) o += " "; f = false; o += "(" + hexs(kv.first) + " " + std::to_string((int64_t)kv.second) + ")"; }
    return o + ")";
  }
  if (m == "input_position") return std::to_string(vm.input_position_at(unhex(cs[A])));
  if (m == "outputs") {
    std::string o = "("; bool f = true;
    for (auto name : vm.output_index()) { if (!f) o += " "; f = false; o += "(" + hexs(name) + " " + pd_array(vm.output_NumpyArray_at(name)) + ")"; }
    return o + ")";
  }
  if (m == "output_NumpyArray") return pd_array(vm.output_NumpyArray_at(unhex(cs[A])));
  if (m == "output_Index8") return wr_ix(vm.output_Index8_at(unhex(cs[A])));
  if (m == "output_IndexU8") return wr_ix(vm.output_IndexU8_at(unhex(cs[A])));
  if (m == "output_Index32") return wr_ix(vm.output_Index32_at(unhex(cs[A])));
  if (m == "output_IndexU32") return wr_ix(vm.output_IndexU32_at(unhex(cs[A])));
  if (m == "output_Index64") return wr_ix(vm.output_Index64_at(unhex(cs[A])));
  if (m == "reset") { vm.reset(); return "-"; }
  if (m == "input_must_be_writable") return b01(vm.input_must_be_writable(unhex(cs[A])));
  if (m == "begin") { vm.begin(forth_inputs(vm, cs[A])); return "-"; }
  if (m == "step") { util::ForthError err = vm.step(); return forth_maybe_throw(vm, err, cs[A]); }
  if (m == "run") { vm.begin(forth_inputs(vm, cs[A])); util::ForthError err = vm.resume(); return forth_maybe_throw(vm, err, cs[A + 1]); }
  if (m == "resume") { util::ForthError err = vm.resume(); return forth_maybe_throw(vm, err, cs[A]); }
  if (m == "call") { util::ForthError err = vm.call(unhex(cs[A])); return forth_maybe_throw(vm, err, cs[A + 1]); }
  if (m == "current_bytecode_position") return std::to_string(vm.current_bytecode_position());
  if (m == "current_recursion_depth") return std::to_string(vm.current_recursion_depth());
  if (m == "current_instruction") return hexs(vm.current_instruction());
  if (m == "count_reset") { vm.count_reset(); return "-"; }
  if (m == "count_instructions") return std::to_string(vm.count_instructions());
  if (m == "count_reads") return std::to_string(vm.count_reads());
  if (m == "count_writes") return std::to_string(vm.count_writes());
  if (m == "count_nanoseconds") return std::to_string(vm.count_nanoseconds());
  if (m == "is_variable") return b01(vm.is_variable(unhex(cs[A])));
  if (m == "is_input") return b01(vm.is_input(unhex(cs[A])));
  if (m == "is_output") return b01(vm.is_output(unhex(cs[A])));
  if (m == "is_defined") return b01(vm.is_defined(unhex(cs[A])));
  if (m == "is_ready") return b01(vm.is_ready());
  if (m == "is_done") return b01(vm.is_done());
  if (m == "is_segment_done") return b01(vm.is_segment_done());
  throw std::logic_error("unknown ForthMachine method " + m);
}

static std::shared_ptr<IrregularlyPartitionedArray> rd_part(const Sx& x) {
  // (part (stops..) L...)
  std::vector<int64_t> stops = to_i64s(x[1]);
  return std::make_shared<IrregularlyPartitionedArray>(pb_many(x, 2), stops);
}
static std::string wr_part(const PartitionedArrayPtr& p) {
  IrregularlyPartitionedArray* r = dynamic_cast<IrregularlyPartitionedArray*>(p.get());
  if (!r) throw std::runtime_error("unknown PartitionedArray subtype");
  std::string o = "(part " + wr_i64s(r->stops());
  for (auto& k : r->partitions()) o += " " + pd(k);
  return o + ")";
}

// ------------------------------------------------------------------ dispatch
static std::string handle(const Sx& cs) {
  const std::string op = cs[1].a;
  if (op == "call") return call_content(cs[2].a, cs);
  if (op == "static") return call_static(cs[2].a, cs);
  if (op == "ping") return "pong";
  if (op == "newref") return std::to_string(Identities::newref());
  if (op == "newkey") return hexs(ArrayCache::newkey());
  if (op == "fromjson") {   // (id fromjson xSRC nan inf minf initial resize)
    std::string src = unhex(cs[2]);
    OptStr nan = optstr(cs[3]), inf = optstr(cs[4]), minf = optstr(cs[5]);
    return pd(FromJsonString(src.c_str(), ArrayBuilderOptions(to_i64(cs[6]), to_d(cs[7])), nan.c(), inf.c(), minf.c()));
  }
  if (op == "fromjsonfile") {
    std::string path = unhex(cs[2]);
    OptStr nan = optstr(cs[3]), inf = optstr(cs[4]), minf = optstr(cs[5]);
    FILE* file = fopen(path.c_str(), "rb");
    if (file == nullptr) throw std::invalid_argument("file \"" + path + "\" could not be opened for reading");
    ContentPtr out(nullptr);
    try { out = FromJsonFile(file, ArrayBuilderOptions(to_i64(cs[6]), to_d(cs[7])), to_i64(cs[8]), nan.c(), inf.c(), minf.c()); }
    catch (...) { fclose(file); throw; }
    fclose(file);
    return pd(out);
  }
  // ---- forms: (id form METHOD xJSON args)
  if (op == "form") {
    const std::string m = cs[2].a;
    if (m == "from_numpy") {   // kind itemsize (inner_shape)
      return wr_form(Form::fromnumpy(unhex(cs[3])[0], to_i64(cs[4]), to_i64s(cs[5])));
    }
    FormPtr f = Form::fromjson(unhex(cs[3]));
    if (m == "canonical") return wr_form(f);
    if (m == "tojson") return hexs(f->tojson(to_b(cs[4]), to_b(cs[5])));
    if (m == "tostring") return hexs(f->tostring());
    if (m == "eq") return b01(f->equal(Form::fromjson(unhex(cs[4])), true, true, true, false));
    if (m == "equal") return b01(f->equal(Form::fromjson(unhex(cs[4])), to_b(cs[5]), to_b(cs[6]), to_b(cs[7]), to_b(cs[8])));
    if (m == "type") return wr_type(f->type(rd_typestrs(cs[4])));
    if (m == "purelist_depth") return std::to_string(f->purelist_depth());
    if (m == "purelist_isregular") return b01(f->purelist_isregular());
    if (m == "purelist_parameter") return hexs(f->purelist_parameter(unhex(cs[4])));
    if (m == "minmax_depth") return pair_depth(f->minmax_depth());
    if (m == "branch_depth") { auto p = f->branch_depth(); return "(" + b01(p.first) + " " + std::to_string(p.second) + ")"; }
    if (m == "numfields") return std::to_string(f->numfields());
    if (m == "fieldindex") return std::to_string(f->fieldindex(unhex(cs[4])));
    if (m == "key") return hexs(f->key(to_i64(cs[4])));
    if (m == "haskey") return b01(f->haskey(unhex(cs[4])));
    if (m == "keys") return wr_strs(f->keys());
    if (m == "getitem_field") return wr_form(f->getitem_field(unhex(cs[4])));
    throw std::logic_error("unknown form method " + m);
  }
  // ---- types: (id type METHOD T args)
  if (op == "type") {
    const std::string m = cs[2].a;
    TypePtr t = rd_type(cs[3]);
    if (m == "canonical") return wr_type(t);
    if (m == "tostring") return hexs(t->tostring());
    if (m == "eq") return b01(t->equal(rd_type(cs[4]), true));
    if (m == "numfields") return std::to_string(t->numfields());
    if (m == "fieldindex") return std::to_string(t->fieldindex(unhex(cs[4])));
    if (m == "key") return hexs(t->key(to_i64(cs[4])));
    if (m == "haskey") return b01(t->haskey(unhex(cs[4])));
    if (m == "keys") return wr_strs(t->keys());
    if (m == "empty") return pd(t->empty());
    throw std::logic_error("unknown type method " + m);
  }
  // ---- ArrayBuilder
  if (op == "ab_new") { int64_t h = next_handle++; builders[h] = std::make_shared<ArrayBuilder>(ArrayBuilderOptions(to_i64(cs[2]), to_d(cs[3]))); return std::to_string(h); }
  if (op == "ab_del") { builders.erase(to_i64(cs[2])); return "-"; }
  if (op == "ab_batch") {   // (id ab_batch H (cmd..) (cmd..) ...)
    ArrayBuilder& b = *handle_of(builders, cs[2]);
    for (size_t i = 3; i < cs.size(); i++) ab_cmd(b, cs[i]);
    return "-";
  }
  if (op == "ab") {
    ArrayBuilder& b = *handle_of(builders, cs[2]);
    const std::string m = cs[3].a;
    if (m == "len") return std::to_string(b.length());
    if (m == "tostring") return hexs(b.tostring());
    if (m == "type") return wr_type(b.type(rd_typestrs(cs[4])));
    if (m == "snapshot") return pd(b.snapshot());
    if (m == "getitem") return builder_getitem(b, cs, 4);
    throw std::logic_error("unknown ArrayBuilder method " + m);
  }
  // ---- LayoutBuilder
  if (op == "lb_new") {   // form initial resize vm_init
    int64_t h = next_handle++;
    lbuilders[h] = std::make_shared<LayoutBuilder>(Form::fromjson(unhex(cs[2])), ArrayBuilderOptions(to_i64(cs[3]), to_d(cs[4])), to_b(cs[5]));
    return std::to_string(h);
  }
  if (op == "lb_del") { lbuilders.erase(to_i64(cs[2])); return "-"; }
  if (op == "lb") {
    LayoutBuilder& b = *handle_of(lbuilders, cs[2]);
    const std::string m = cs[3].a;
    if (m == "len") return std::to_string(b.length());
    if (m == "tostring") return hexs(b.tostring());
    if (m == "type") return wr_type(b.type(rd_typestrs(cs[4])));
    if (m == "snapshot") return pd(b.snapshot());
    if (m == "getitem") return builder_getitem(b, cs, 4);
    if (m == "null") { b.null(); return "-"; }
    if (m == "boolean") { b.boolean(to_b(cs[4])); return "-"; }
    if (m == "int64") { b.int64(to_i64(cs[4])); return "-"; }
    if (m == "float64") { b.float64(to_d(cs[4])); return "-"; }
    if (m == "complex") { b.complex(std::complex<double>(to_d(cs[4]), to_d(cs[5]))); return "-"; }
    if (m == "bytestring") { b.bytestring(unhex(cs[4])); return "-"; }
    if (m == "string") { b.string(unhex(cs[4])); return "-"; }
    if (m == "begin_list") { b.begin_list(); return "-"; }
    if (m == "end_list") { b.end_list(); return "-"; }
    if (m == "tag") { b.tag(to_i64(cs[4])); return "-"; }
    if (m == "vm_source") return hexs(b.vm_source());
    if (m == "form") return wr_form(b.form());
    if (m == "connect") { b.connect(handle_of(vm32, cs[4])); return "-"; }
    throw std::logic_error("unknown LayoutBuilder method " + m);
  }
  // ---- ForthMachine
  if (op == "vm_new") {   // width xSRC stack recursion outinit outresize
    int64_t h = next_handle++;
    std::string src = unhex(cs[3]);
    if (cs[2].is("32")) vm32[h] = std::make_shared<ForthMachine32>(src, to_i64(cs[4]), to_i64(cs[5]), to_i64(cs[6]), to_d(cs[7]));
    else vm64[h] = std::make_shared<ForthMachine64>(src, to_i64(cs[4]), to_i64(cs[5]), to_i64(cs[6]), to_d(cs[7]));
    return std::to_string(h);
  }
  if (op == "vm_del") { vm32.erase(to_i64(cs[2])); vm64.erase(to_i64(cs[2])); return "-"; }
  if (op == "vm") {
    int64_t h = to_i64(cs[2]);
    if (vm32.count(h)) return forth_call<ForthMachine32, int32_t>(*vm32[h], cs[3].a, cs, 4);
    if (vm64.count(h)) return forth_call<ForthMachine64, int64_t>(*vm64[h], cs[3].a, cs, 4);
    throw std::logic_error("stale handle " + cs[2].str());
  }
  // ---- partitioned
  if (op == "part") {
    const std::string m = cs[2].a;
    std::shared_ptr<IrregularlyPartitionedArray> p = rd_part(cs[3]);
    if (m == "check") return wr_part(p);
    if (m == "len") return std::to_string(p->length());
    if (m == "tostring") return hexs(p->tostring());
    if (m == "start") return std::to_string(p->start(to_i64(cs[4])));
    if (m == "stop") return std::to_string(p->stop(to_i64(cs[4])));
    if (m == "partitionid_index_at") { int64_t pid, ix; p->partitionid_index_at(to_i64(cs[4]), pid, ix); return "(" + std::to_string(pid) + " " + std::to_string(ix) + ")"; }
    if (m == "repartition") return wr_part(p->repartition(to_i64s(cs[4])));
    if (m == "tojson") return hexs(p->tojson(to_b(cs[4]), to_i64(cs[5])));
    if (m == "getitem_at") return pd(p->getitem_at(to_i64(cs[4])));
    if (m == "getitem_range") return wr_part(p->getitem_range(bound(cs[4]), bound(cs[5]), bound(cs[6])));
    if (m == "copy_to") {
      std::string lib = unhex(cs[4]);
      if (lib == "cpu") return wr_part(p->copy_to(kernel::lib::cpu));
      if (lib == "cuda") return wr_part(p->copy_to(kernel::lib::cuda));
      throw std::invalid_argument("specify 'cpu' or 'cuda'");
    }
    throw std::logic_error("unknown partition method " + m);
  }
  if (op == "uproot_issue_90") {   // xFORMJSON L(np) IX(i32)
    FormPtr f = Form::fromjson(unhex(cs[2]));
    ContentPtr data = pb(cs[3]);
    const NumpyArray* raw = dynamic_cast<const NumpyArray*>(data.get());
    if (!raw) throw std::invalid_argument("uproot_issue_90: data must be a NumpyArray");
    return pd(uproot_issue_90(*f, *raw, rd_ix<int32_t>(cs[4])));
  }
  if (op == "slice_tostring") return hexs(rd_slice(cs[2]).tostring());
  if (op == "generate_and_check") {  // (id generate_and_check GEN)
    return pd(rd_gen(cs[2])->generate_and_check());
  }
  throw std::logic_error("unknown op " + op);
}

int main() {
  std::ios::sync_with_stdio(false);
  std::string line;
  while (std::getline(std::cin, line)) {
    if (line.empty() || line[0] == '#') continue;
    std::string id = "?";
    g_mem.clear();
    g_mem_by_addr.clear();
    g_lookups.clear();
    try {
      Sx cs = parse_line(line);
      id = cs[0].a;
      prescan(cs);
      std::string out = handle(cs);
      std::cout << "(" << id << " ok " << out << ")" << std::endl;
    } catch (std::invalid_argument& e) {
      std::cout << "(" << id << " err value " << hexs(e.what()) << ")" << std::endl;
    } catch (std::out_of_range& e) {
      std::cout << "(" << id << " err index " << hexs(e.what()) << ")" << std::endl;
    } catch (std::domain_error& e) {
      std::cout << "(" << id << " err value " << hexs(e.what()) << ")" << std::endl;
    } catch (std::length_error& e) {
      std::cout << "(" << id << " err value " << hexs(e.what()) << ")" << std::endl;
    } catch (std::overflow_error& e) {
      std::cout << "(" << id << " err overflow " << hexs(e.what()) << ")" << std::endl;
    } catch (std::range_error& e) {
      std::cout << "(" << id << " err value " << hexs(e.what()) << ")" << std::endl;
    } catch (std::logic_error& e) {      // driver-side misuse (bad request syntax); also std::out_of_range etc.
      std::cout << "(" << id << " bad " << hexs(e.what()) << ")" << std::endl;
    } catch (std::runtime_error& e) {
      std::cout << "(" << id << " err runtime " << hexs(e.what()) << ")" << std::endl;
    } catch (std::exception& e) {
      std::cout << "(" << id << " err other " << hexs(e.what()) << ")" << std::endl;
    }
  }
  return 0;
}
