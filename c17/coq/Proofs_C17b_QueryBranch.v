(** C17b, queries part 6: when branch_depth says "not branching", minmax_depth is (d, d) -- the strongest true variant. *)
From Coq Require Import ZArith List Bool Lia String.
From AwkV Require Import Base Layout LayoutInd Valid Types Proofs_Lists.
From AwkTypes Require Import Json Forms TypeStr Typing Proofs_Depth Proofs_Types Proofs_Typing Proofs_Json Proofs_Parse
                             Proofs_C17b_Query Proofs_C17b_QueryCons.
Import ListNotations.
Open Scope Z_scope.

Definition bstep (acc bd : bool * Z) : bool * Z :=
  let mind := if snd acc =? -1 then snd bd else snd acc in
  let anyb := fst acc || fst bd || negb (mind =? snd bd) in
  (anyb, if snd bd <? mind then snd bd else mind).

Lemma branch_fold_eq l : branch_fold l = fold_left bstep l (false, -1).
Proof. reflexivity. Qed.

(* the running minimum stays -1 (nothing seen) or >= 1 *)
Lemma bfold_pos l : forall acc, (snd acc = -1 \/ 1 <= snd acc) -> Forall (fun bd : bool * Z => 1 <= snd bd) l ->
  (l = [] /\ fold_left bstep l acc = acc) \/ 1 <= snd (fold_left bstep l acc).
Proof.
  induction l as [|bd l IH]; intros acc Ha HF; [left; split; reflexivity|]. right. inversion HF; subst.
  cbn [fold_left].
  assert (Hs : 1 <= snd (bstep acc bd)).
  { unfold bstep. cbn [snd]. destruct (snd acc =? -1) eqn:E1; [apply Z.eqb_eq in E1|apply Z.eqb_neq in E1];
      destruct (snd bd <? _) eqn:E2; try lia. }
  destruct (IH (bstep acc bd) (or_intror Hs) H2) as [[-> ->]|H]; [exact Hs|exact H].
Qed.

Lemma bfold_false l : forall acc, (snd acc = -1 \/ 1 <= snd acc) -> Forall (fun bd : bool * Z => 1 <= snd bd) l ->
  fst (fold_left bstep l acc) = false ->
  fst acc = false /\ (snd acc <> -1 -> snd (fold_left bstep l acc) = snd acc) /\
  Forall (fun bd => bd = (false, snd (fold_left bstep l acc))) l.
Proof.
  induction l as [|bd l IH]; intros acc Ha HF Hf; cbn [fold_left] in *; [repeat split; auto|].
  inversion HF; subst.
  assert (Hs : 1 <= snd (bstep acc bd)).
  { unfold bstep. cbn [snd]. destruct (snd acc =? -1) eqn:E1; [apply Z.eqb_eq in E1|apply Z.eqb_neq in E1];
      destruct (snd bd <? _) eqn:E2; try lia. }
  destruct (IH (bstep acc bd) (or_intror Hs) H2 Hf) as (I1 & I2 & I3).
  unfold bstep in I1. cbn [fst] in I1. apply orb_false_iff in I1 as [I1 I1c]. apply orb_false_iff in I1 as [I1a I1b].
  apply negb_false_iff in I1c. apply Z.eqb_eq in I1c.
  assert (Hfin : snd (fold_left bstep l (bstep acc bd)) = snd bd).
  { rewrite I2 by lia. unfold bstep. cbn [snd]. rewrite I1c. rewrite Z.ltb_irrefl. reflexivity. }
  split; [exact I1a|]. split.
  - intros Hne. rewrite Hfin. rewrite <- I1c. destruct (snd acc =? -1) eqn:E1; [apply Z.eqb_eq in E1; contradiction|reflexivity].
  - constructor; [|exact I3]. rewrite Hfin. destruct bd as [b0 d0]. cbn [fst snd] in *. subst. reflexivity.
Qed.

(* every record / union has at least one content *)
Fixpoint f_nonempty (f : form) : bool :=
  match f with
  | FNumpy _ _ _ _ _ | FEmpty _ | FVirtual _ None _ => true
  | FListOffset _ _ c | FList _ _ _ c | FRegular _ c _ | FIndexed _ _ c | FIndexedOption _ _ c
  | FByteMasked _ _ c _ | FBitMasked _ _ c _ _ | FUnmasked _ c => f_nonempty c
  | FVirtual _ (Some g) _ => f_nonempty g
  | FUnion _ _ _ cs | FRecord _ _ cs => match cs with [] => false | _ => forallb f_nonempty cs end
  end.

Lemma mapM_id_nonempty {A B} (q : A -> res B) cs l : mapM_id (map q cs) = Ok l -> cs <> [] -> l <> [].
Proof. intros H Hne. apply mapM_id_inv in H. destruct cs; [congruence|]. destruct l; [discriminate|congruence]. Qed.

Lemma record_branch m rk cs : cs <> [] ->
  f_branch_depth (FRecord m rk cs) = (do l <- mapM_id (map f_branch_depth cs); Ok (branch_fold l)).
Proof. destruct cs; [congruence|reflexivity]. Qed.

Lemma branch_depth_pos f : f_nonempty f = true -> forall bd, f_branch_depth f = Ok bd -> 1 <= snd bd.
Proof.
  induction f as [m inner isz fmt dt|m|m o c IH|m s e c IH|m c size IH|m i c IH|m i c IH|m k0 c vw IH|m k0 c vw lsb IH
                 |m c IH|m tg i cs IH|m rk cs IH|m hl|m g hl IH] using form_ind'; intros Hne bd H;
    cbn [f_nonempty] in Hne; try (cbn [f_branch_depth] in H); eauto.
  - inversion H. cbn [snd]. pose proof (zlen_nonneg inner). lia.
  - inversion H. cbn [snd]. lia.
  - destruct (is_string_params (m_params m)); [inversion H; cbn [snd]; lia|].
    destruct (f_branch_depth c) as [bd'|er]; cbn [bind] in H; [|discriminate]. inversion H. cbn [snd]. specialize (IH Hne _ eq_refl). lia.
  - destruct (is_string_params (m_params m)); [inversion H; cbn [snd]; lia|].
    destruct (f_branch_depth c) as [bd'|er]; cbn [bind] in H; [|discriminate]. inversion H. cbn [snd]. specialize (IH Hne _ eq_refl). lia.
  - destruct (is_string_params (m_params m)); [inversion H; cbn [snd]; lia|].
    destruct (f_branch_depth c) as [bd'|er]; cbn [bind] in H; [|discriminate]. inversion H. cbn [snd]. specialize (IH Hne _ eq_refl). lia.
  - assert (Hcs : cs <> []) by (destruct cs; [discriminate|congruence]).
    assert (Hall : forallb f_nonempty cs = true) by (destruct cs; [discriminate|exact Hne]).
    destruct (mapM_id (map f_branch_depth cs)) as [l|er] eqn:El; cbn [bind] in H; [|discriminate]. inversion H; subst.
    assert (HF : Forall (fun bd : bool * Z => 1 <= snd bd) l).
    { apply (mapM_id_Forall f_branch_depth _ cs l El). rewrite Forall_forall in *. rewrite forallb_forall in Hall. intros x Hx y Hy. exact (IH x Hx (Hall x Hx) y Hy). }
    rewrite branch_fold_eq. destruct (bfold_pos l (false, -1) (or_introl eq_refl) HF) as [[Hl _]|Hp]; [|exact Hp].
    exfalso. exact (mapM_id_nonempty _ _ _ El Hcs Hl).
  - assert (Hcs : cs <> []) by (destruct cs; [discriminate|congruence]).
    assert (Hall : forallb f_nonempty cs = true) by (destruct cs; [discriminate|exact Hne]).
    assert (H' : (do l <- mapM_id (map f_branch_depth cs); Ok (branch_fold l)) = Ok bd) by (destruct cs; [discriminate Hne|exact H]).
    clear H; rename H' into H.
    destruct (mapM_id (map f_branch_depth cs)) as [l|er] eqn:El; cbn [bind] in H; [|discriminate]. inversion H; subst.
    assert (HF : Forall (fun bd : bool * Z => 1 <= snd bd) l).
    { apply (mapM_id_Forall f_branch_depth _ cs l El). rewrite Forall_forall in *. rewrite forallb_forall in Hall. intros x Hx y Hy. exact (IH x Hx (Hall x Hx) y Hy). }
    rewrite branch_fold_eq. destruct (bfold_pos l (false, -1) (or_introl eq_refl) HF) as [[Hl _]|Hp]; [|exact Hp].
    exfalso. exact (mapM_id_nonempty _ _ _ El Hcs Hl).
  - discriminate.
Qed.

Lemma const_minmax_lists (l : list (Z * Z)) D a b0 : Forall (fun x => x = (D, D)) l ->
  zmin_list a (map fst l) = match l with [] => a | _ => Z.min D a end /\
  zmax_list b0 (map snd l) = match l with [] => b0 | _ => Z.max D b0 end.
Proof.
  induction 1 as [|x l Hx Hl [IH1 IH2]]; [split; reflexivity|]. subst x. cbn [map fst snd zmin_list zmax_list fold_right].
  fold (zmin_list a (map fst l)). fold (zmax_list b0 (map snd l)). rewrite IH1, IH2. destruct l; split; lia.
Qed.

Lemma minmax_fold_const l D : Forall (fun x => x = (D, D)) l -> l <> [] -> 0 <= D <= kMaxInt64 -> minmax_fold l = (D, D).
Proof.
  intros HF Hne HD. destruct l as [|x l]; [congruence|]. unfold minmax_fold. rewrite minmax_fold_step.
  destruct (const_minmax_lists (x :: l) D kMaxInt64 0 HF) as [H1 H2]. rewrite H1, H2. f_equal; lia.
Qed.

Lemma mapM_id_In_back {A B} (q : A -> res B) cs l y : mapM_id (map q cs) = Ok l -> In y l -> exists c, In c cs /\ q c = Ok y.
Proof.
  intros H Hy. apply mapM_id_inv in H. assert (Hin : In (Ok y) (map q cs)) by (rewrite H; apply in_map, Hy).
  apply in_map_iff in Hin as (c & Hc & Hin). exists c. split; assumption.
Qed.
Lemma mapM_id_In_fwd {A B} (q : A -> res B) cs l c : mapM_id (map q cs) = Ok l -> In c cs -> exists y, In y l /\ q c = Ok y.
Proof.
  intros H Hc. apply mapM_id_inv in H. assert (Hin : In (q c) (map Ok l)) by (rewrite <- H; apply in_map, Hc).
  apply in_map_iff in Hin as (y & Hy & Hin). exists y. split; [exact Hin|symmetry; exact Hy].
Qed.

(* the common part of the union / record cases *)
Lemma branch_false_node cs lb lm :
  cs <> [] -> forallb f_nonempty cs = true ->
  Forall (fun f => f_nonempty f = true -> forall bd mm, f_branch_depth f = Ok bd -> f_minmax_depth f = Ok mm ->
                   snd mm < kMaxInt64 -> fst bd = false -> mm = (snd bd, snd bd)) cs ->
  mapM_id (map f_branch_depth cs) = Ok lb -> mapM_id (map f_minmax_depth cs) = Ok lm ->
  snd (minmax_fold lm) < kMaxInt64 -> fst (branch_fold lb) = false ->
  minmax_fold lm = (snd (branch_fold lb), snd (branch_fold lb)).
Proof.
  intros Hcs Hall IH Elb Elm Hsmall Hf. rewrite forallb_forall in Hall. rewrite Forall_forall in IH.
  assert (HFpos : Forall (fun bd : bool * Z => 1 <= snd bd) lb).
  { apply Forall_forall. intros y Hy. destruct (mapM_id_In_back _ _ _ _ Elb Hy) as (c & Hc & Hq).
    exact (branch_depth_pos c (Hall c Hc) y Hq). }
  rewrite branch_fold_eq in *.
  destruct (bfold_false lb (false, -1) (or_introl eq_refl) HFpos Hf) as (_ & _ & Hconst).
  set (D := snd (fold_left bstep lb (false, -1))) in *.
  assert (HD1 : 1 <= D).
  { destruct (bfold_pos lb (false, -1) (or_introl eq_refl) HFpos) as [[Hl _]|Hp]; [|exact Hp].
    exfalso. exact (mapM_id_nonempty _ _ _ Elb Hcs Hl). }
  assert (Hlm : Forall (fun x => x = (D, D)) lm).
  { apply Forall_forall. intros mmi Hmi. destruct (mapM_id_In_back _ _ _ _ Elm Hmi) as (c & Hc & Hq).
    destruct (mapM_id_In_fwd _ _ _ _ Elb Hc) as (bdc & Hbin & Hbq).
    rewrite Forall_forall in Hconst. pose proof (Hconst bdc Hbin) as Hb. 
    destruct (minmax_fold_bounds lm mmi Hmi) as [_ Hle].
    rewrite (IH c Hc (Hall c Hc) bdc mmi Hbq Hq); [rewrite Hb; reflexivity|lia|rewrite Hb; reflexivity]. }
  assert (Hne : lm <> []) by exact (mapM_id_nonempty _ _ _ Elm Hcs).
  assert (HDle : D <= kMaxInt64).
  { destruct lm as [|x lm']; [congruence|]. inversion Hlm; subst.
    destruct (minmax_fold_bounds ((D, D) :: lm') (D, D) (or_introl eq_refl)) as [_ Hle]. cbn [snd] in Hle. lia. }
  apply minmax_fold_const; [exact Hlm|exact Hne|lia].
Qed.

(* "not branching" (branch_depth.first = false) means minmax_depth = (d, d) with d = branch_depth.second --
   _partial: the form has no record / union without contents (a field-less record answers minmax (0,0) but branch
   (false,1); an empty union (0,0) and (false,-1): depth_laws_refuted) and the depth fits an int64 *)
Theorem branch_false_minmax_partial f : f_nonempty f = true -> forall bd mm,
  f_branch_depth f = Ok bd -> f_minmax_depth f = Ok mm -> snd mm < kMaxInt64 -> fst bd = false ->
  mm = (snd bd, snd bd).
Proof.
  induction f as [m inner isz fmt dt|m|m o c IH|m s e c IH|m c size IH|m i c IH|m i c IH|m k0 c vw IH|m k0 c vw lsb IH
                 |m c IH|m tg i cs IH|m rk cs IH|m hl|m g hl IH] using form_ind'; intros Hne bd mm Hb Hm Hs Hf;
    cbn [f_nonempty] in Hne; cbn [f_minmax_depth] in Hm; try (cbn [f_branch_depth] in Hb); eauto.
  - inversion Hb; inversion Hm; subst. reflexivity.
  - inversion Hb; inversion Hm; subst. reflexivity.
  - destruct (is_string_params (m_params m)); [inversion Hb; inversion Hm; subst; reflexivity|].
    destruct (f_branch_depth c) as [bd'|er]; cbn [bind] in Hb; [|discriminate].
    destruct (f_minmax_depth c) as [mm'|er]; cbn [bind] in Hm; [|discriminate].
    inversion Hb; inversion Hm; subst. cbn [fst snd] in *. rewrite (IH Hne bd' mm' eq_refl eq_refl); [reflexivity|lia|exact Hf].
  - destruct (is_string_params (m_params m)); [inversion Hb; inversion Hm; subst; reflexivity|].
    destruct (f_branch_depth c) as [bd'|er]; cbn [bind] in Hb; [|discriminate].
    destruct (f_minmax_depth c) as [mm'|er]; cbn [bind] in Hm; [|discriminate].
    inversion Hb; inversion Hm; subst. cbn [fst snd] in *. rewrite (IH Hne bd' mm' eq_refl eq_refl); [reflexivity|lia|exact Hf].
  - destruct (is_string_params (m_params m)); [inversion Hb; inversion Hm; subst; reflexivity|].
    destruct (f_branch_depth c) as [bd'|er]; cbn [bind] in Hb; [|discriminate].
    destruct (f_minmax_depth c) as [mm'|er]; cbn [bind] in Hm; [|discriminate].
    inversion Hb; inversion Hm; subst. cbn [fst snd] in *. rewrite (IH Hne bd' mm' eq_refl eq_refl); [reflexivity|lia|exact Hf].
  - assert (Hcs : cs <> []) by (destruct cs; [discriminate|congruence]).
    assert (Hall : forallb f_nonempty cs = true) by (destruct cs; [discriminate|exact Hne]).
    destruct (mapM_id (map f_branch_depth cs)) as [lb|er] eqn:Elb; cbn [bind] in Hb; [|discriminate].
    destruct (mapM_id (map f_minmax_depth cs)) as [lm|er] eqn:Elm; cbn [bind] in Hm; [|discriminate].
    inversion Hb; inversion Hm; subst. exact (branch_false_node cs lb lm Hcs Hall IH Elb Elm Hs Hf).
  - assert (Hcs : cs <> []) by (destruct cs; [discriminate|congruence]).
    assert (Hall : forallb f_nonempty cs = true) by (destruct cs; [discriminate|exact Hne]).
    assert (Hb' : (do l <- mapM_id (map f_branch_depth cs); Ok (branch_fold l)) = Ok bd) by (destruct cs; [discriminate Hne|exact Hb]).
    clear Hb; rename Hb' into Hb.
    destruct (mapM_id (map f_branch_depth cs)) as [lb|er] eqn:Elb; cbn [bind] in Hb; [|discriminate].
    destruct (mapM_id (map f_minmax_depth cs)) as [lm|er] eqn:Elm; cbn [bind] in Hm; [|discriminate].
    inversion Hb; inversion Hm; subst. exact (branch_false_node cs lb lm Hcs Hall IH Elb Elm Hs Hf).
  - discriminate.
Qed.

Example branch_false_minmax_example :
  let f := FListOffset meta0 Fi64 (FUnion meta0 Fi8 Fi64
             [FRecord meta0 None [FListOffset meta0 Fi64 f_i64; FIndexedOption meta0 Fi64 (FRegular meta0 f_i64 3)];
              FListOffset meta0 Fi64 (FVirtual meta0 (Some (FRecord meta0 (Some [[97]]) [f_i64])) true)]) in
  f_nonempty f = true /\ f_branch_depth f = Ok (false, 3) /\ f_minmax_depth f = Ok (3, 3) /\ f_purelist_depth f = Ok 0.
Proof. vm_compute. repeat split. Qed.

Theorem c_branch_false_minmax_partial c : np_ok c = true -> f_nonempty (form_of c) = true ->
  snd (c_minmax_depth None c) < kMaxInt64 -> fst (c_branch_depth None c) = false ->
  c_minmax_depth None c = (snd (c_branch_depth None c), snd (c_branch_depth None c)).
Proof.
  intros Hnp Hne Hs Hf.
  exact (branch_false_minmax_partial (form_of c) Hne _ _ (branch_depth_agree c None None Hnp) (minmax_depth_agree c None None Hnp) Hs Hf).
Qed.
