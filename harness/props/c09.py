"""C09: missing values — pad_none (rpad / rpad_and_clip) and fill_none at the C++ layer, all five option encodings."""
import common as C
import gen as G

THEOREMS = ['pad_gives_max_len_target', 'pad_appends_only_none', 'pad_clip_gives_exactly_target',
            'pad_clip_is_prefix_then_none', 'fill_replaces_exactly_none', 'fill_keeps_structure',
            'negative_index_values_are_interchangeable', 'byte_mask_is_index', 'unmasked_is_index',
            'pad_refines_spec', 'pad_clip_refines_spec', 'fillna_refines_spec', 'fillna_refines_spec_wide',
            'frag_in_fillna_fragment', 'fillna_never_fails']
PY_HALF = True     # harness/pyhalves.py: the Python-layer functions of this property under pyshim
RULE = ('value-first random layouts with options at any level (five encodings, both polarities/bit orders, bit masks not a '
        'multiple of 8) x (rpad | rpadclip: target 0..6 x axis) | fillna(value); non-trivial = input has >= 1 None or a '
        'list shorter than the target; distinct by case text')
ASSUMPTIONS = ['is_none / mask / fill_none(axis) are Python-layer functions (not executable here)',
               'fillna inputs use non-bool numeric leaves (the documented merge of bool into int would change True to 1)',
               'types containing unions are skipped; axis=0 padding of the outer dimension not exercised']
NUM = ['int64', 'int64', 'float64', 'int32', 'uint8', 'int16', 'float32']


def has_none(v):
    if v is None:
        return True
    if isinstance(v, list):
        return any(has_none(x) for x in v)
    if isinstance(v, tuple) and v and v[0] == '$rec':
        return any(has_none(x) for x in v[1])
    return False


def cases(rng, tier):
    n = 15000 if tier == 'quick' else 300000
    out = []
    for i in range(n):
        r = rng.random()
        if r < 0.7:
            a = G.gen_array(rng, depth=rng.choice([2, 3, 3]), canonical_too=False, type_kw=dict(allow_union=False))
            t = a['type']
            op = rng.choice(['rpad', 'rpadclip'])
            target = rng.choice([0, 1, 2, 3, 3, 4, 5, 6] + ([-1] if op == 'rpad' else []))
            axis = G.pick_axis(rng, t)
            tags = dict(op=op, target=target, axis=axis, negaxis_rec=bool(axis < 0 and G.has_rec_under_list(t)))
            out.append(C.Case('c%d' % i, op, [str(target), str(axis)], [G.sx(a['layout'])],
                              dict(nontrivial=True, tags=tags)))
        else:
            a = G.gen_array(rng, depth=rng.choice([1, 2, 3]), canonical_too=False,
                            type_kw=dict(allow_union=False, allow_str=False, leaf_dtypes=NUM), special=False)
            val = ['np', 'int64', [1], [rng.randint(-9, 99)]]
            out.append(C.Case('c%d' % i, 'fillna', [], [G.sx(a['layout']), G.sx(val)],
                              dict(nontrivial=any(has_none(v) for v in a['vals']), tags=dict(op='fillna'))))
    return out


def signature(c, impl, v):
    if c.meta.get('tags', {}).get('negaxis_rec'):
        return 'negaxis-record-under-list'
    return None
