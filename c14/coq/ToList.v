(** C14 — the snapshot of a well-formed builder is a layout whose [to_list] is [bvals]. *)
From Coq Require Import ZArith List Bool Lia.
From AwkV Require Import Base Layout.
From AwkBuilder Require Import Builder GbLemmas Invariant StepLemmas.
Import ListNotations.
Open Scope Z_scope.

Lemma mapM_ok {A B} (f : A -> res B) (g : A -> B) l :
  (forall x, In x l -> f x = Ok (g x)) -> mapM f l = Ok (map g l).
Proof.
  induction l as [|a t IH]; intro H; [reflexivity|]. cbn [mapM map].
  rewrite (H a (or_introl eq_refl)). cbn [bind]. rewrite IH by (intros; apply H; now right). reflexivity.
Qed.

Lemma mapM_map_ok {A B C} (f : B -> res C) (h : A -> B) (g : A -> C) l :
  (forall x, f (h x) = Ok (g x)) -> mapM f (map h l) = Ok (map g l).
Proof.
  intro H. induction l as [|a t IH]; [reflexivity|]. cbn [mapM map]. rewrite H. cbn [bind]. rewrite IH. reflexivity.
Qed.

Lemma get_nth {A} (l : list A) i d : 0 <= i < zlen l -> get l i = Ok (nth (Z.to_nat i) l d).
Proof.
  intro H. unfold get. destruct (i <? 0) eqn:E; [lia|].
  destruct (nth_error l (Z.to_nat i)) eqn:En.
  - f_equal. symmetry. now apply nth_error_nth.
  - apply nth_error_None in En. unfold zlen in H. lia.
Qed.

Lemma numpy1_to_list dt g :
  gbwf g -> to_list (numpy1 dt g) = Ok (map (leaf dt) (map DZ (gb_list g))).
Proof.
  intro W. pose proof (gb_list_len g W) as L. pose proof W as (H0 & _).
  unfold numpy1. cbn [to_list existsb]. replace (glen g <? 0) with false by (symmetry; apply Z.ltb_ge; lia).
  cbn [orb]. unfold prodZ. cbn [fold_right]. rewrite Z.mul_1_r, zlen_map, L, Z.ltb_irrefl.
  rewrite take_all by (rewrite zlen_map; lia). cbn [nest bind]. reflexivity.
Qed.

Lemma cut_ok {A} (vs : list A) o : okoff o (zlen vs) -> cut vs o = Ok (cuts o vs).
Proof.
  intros ((t & ->) & F & _). unfold cut, cuts. apply mapM_ok. intros [a b] Hin.
  rewrite Forall_forall in F. specialize (F _ Hin). cbn [fst snd] in F. unfold cut1.
  destruct (a =? b) eqn:E.
  - apply Z.eqb_eq in E. subst. cbn [fst snd]. rewrite Z.sub_diag. reflexivity.
  - unfold slice. replace ((0 <=? a) && (a <=? b) && (b <=? zlen vs)) with true; [reflexivity|].
    symmetry. rewrite !andb_true_iff. repeat split; apply Z.leb_le; lia.
Qed.

Lemma pickopt_ok vs idx :
  Forall (fun i => i < zlen vs) idx ->
  mapM (fun i => pick_opt vs (0 <=? i) i) idx = Ok (map (lookup vs) idx).
Proof.
  intro F. apply mapM_ok. intros i Hi. rewrite Forall_forall in F. specialize (F _ Hi).
  unfold pick_opt, lookup. destruct (0 <=? i) eqn:E; [|reflexivity].
  apply get_nth. apply Z.leb_le in E. lia.
Qed.

Lemma cuts_map {A B} (f : A -> B) o l : cuts o (map f l) = map (map f) (cuts o l).
Proof.
  unfold cuts. rewrite map_map. apply map_ext. intros [a b]. cbn [fst snd].
  unfold take, drop. now rewrite skipn_map, firstn_map.
Qed.

Lemma bytes_of_ok s : bytes_of (VList (map (fun z => VNum (DZ z)) s)) = Ok s.
Proof.
  cbn [bytes_of]. induction s as [|z t IH]; [reflexivity|]. cbn [map mapM bind]. rewrite IH. reflexivity.
Qed.

Lemma leaf_uint8 l : map (leaf DUInt8) (map DZ l) = map (fun z => VNum (DZ z)) l.
Proof. rewrite map_map. reflexivity. Qed.

(* the local fixpoint of to_list over the alternatives of a union *)
Definition all_to_list : list content -> res (list (list value)) :=
  fix all (l : list content) : res (list (list value)) :=
    match l with
    | [] => Ok []
    | x :: xs => do v <- to_list x; do vs <- all xs; Ok (v :: vs)
    end.

Lemma snapshots_ok cs :
  Forall (fun b => exists c, snapshot b = Ok c /\ to_list c = Ok (bvals b)) cs ->
  exists snaps, mapMs snapshot cs = Ok snaps /\ all_to_list snaps = Ok (map bvals cs).
Proof.
  induction 1 as [|b t (c & Es & Et) _ (snaps & E1 & E2)].
  - exists []. split; reflexivity.
  - exists (c :: snaps). cbn [mapMs all_to_list map]. rewrite Es, E1, Et. cbn [bind]. rewrite E2. split; reflexivity.
Qed.

Lemma union_lookup_ok (cs : list builder) tags idx :
  Forall wf cs ->
  Forall (fun ti : Z * Z => 0 <= fst ti < zlen cs /\ 0 <= snd ti < blen (nth (Z.to_nat (fst ti)) cs (BUnknown 0)))
         (zip tags idx) ->
  mapM (fun ti : Z * Z => let (tg, i) := ti in do vs <- get (map bvals cs) tg; get vs i) (zip tags idx)
  = Ok (map (ulookup (map bvals cs)) (zip tags idx)).
Proof.
  intros W R. apply mapM_ok. intros [t k] Hin. rewrite Forall_forall in R. specialize (R _ Hin). cbn [fst snd] in R.
  destruct R as [R1 R2].
  rewrite (get_nth (map bvals cs) t []) by (rewrite zlen_map; lia). cbn [bind].
  unfold ulookup. cbn [fst snd].
  assert (nth (Z.to_nat t) (map bvals cs) [] = bvals (nth (Z.to_nat t) cs (BUnknown 0))) as En.
  { change [] with (bvals (BUnknown 0)). apply map_nth. }
  rewrite En. apply get_nth. rewrite bvals_len; [exact R2|].
  rewrite Forall_forall in W. apply W. apply nth_In. unfold zlen in R1. lia.
Qed.

Theorem bvals_correct b : wf b -> exists c, snapshot b = Ok c /\ to_list c = Ok (bvals b).
Proof.
  induction b using builder_ind'; intro W; cbn [wf] in W.
  - cbn [snapshot bvals]. destruct (n =? 0) eqn:E.
    + apply Z.eqb_eq in E. subst. eexists; split; reflexivity.
    + eexists; split; [reflexivity|]. cbn [to_list bind]. unfold fill.
      induction (Z.to_nat n) as [|k IH]; [reflexivity|]. cbn [repeat mapM]. rewrite IH. reflexivity.
  - eexists; split; [reflexivity|]. rewrite numpy1_to_list by auto. cbn [bvals]. now rewrite map_map.
  - eexists; split; [reflexivity|]. rewrite numpy1_to_list by auto. cbn [bvals]. now rewrite map_map.
  - eexists; split; [reflexivity|]. rewrite numpy1_to_list by auto. cbn [bvals]. now rewrite map_map.
  - destruct W as (Wa & Wb & OK & La). eexists; split; [reflexivity|].
    cbn [to_list bvals]. destruct e.
    + rewrite numpy1_to_list by auto. cbn [bind]. rewrite leaf_uint8.
      rewrite cut_ok by (rewrite zlen_map, gb_list_len; auto). cbn [rmap bind].
      rewrite cuts_map, map_map. apply mapM_map_ok. intros s. rewrite bytes_of_ok. reflexivity.
    + rewrite numpy1_to_list by auto. cbn [bind]. rewrite leaf_uint8.
      rewrite cut_ok by (rewrite zlen_map, gb_list_len; auto). cbn [rmap bind].
      rewrite cuts_map, map_map. apply mapM_map_ok. intros s. rewrite bytes_of_ok. reflexivity.
  - destruct W as (Wi & Wc & Fi). destruct (IHb Wc) as (c & Es & Et).
    cbn [snapshot]. rewrite Es. cbn [bind]. eexists; split; [reflexivity|].
    cbn [to_list bvals]. rewrite Et. cbn [bind]. apply pickopt_ok. now rewrite bvals_len.
  - destruct W as (Wo & Wc & OK & _). destruct (IHb Wc) as (c & Es & Et).
    cbn [snapshot]. rewrite Es. cbn [bind]. eexists; split; [reflexivity|].
    cbn [to_list bvals]. rewrite Et. cbn [bind]. rewrite cut_ok by (now rewrite bvals_len). reflexivity.
  - contradiction.
  - contradiction.
  - destruct W as (Wt & Wi & E & Wcs & R & _). apply wf_all in Wcs.
    assert (Forall (fun b => exists c, snapshot b = Ok c /\ to_list c = Ok (bvals b)) cs) as F.
    { rewrite Forall_forall in *. intros x Hx. apply H; auto. }
    destruct (snapshots_ok cs F) as (snaps & E1 & E2).
    cbn [snapshot]. rewrite E1. cbn [bind]. eexists; split; [reflexivity|].
    cbn [to_list bvals]. fold all_to_list. rewrite E2. cbn [bind].
    rewrite !gb_list_len by auto. rewrite E, Z.ltb_irrefl.
    now apply union_lookup_ok.
Qed.
