(** C04 — model = specification, part 4: the list step on the specification side; the general path (gen_branch). *)
From AwkV Require Import LayoutInd Proofs_Lists Proofs_ToList Proofs_Typing Proofs_Carry Proofs_AtAxisOps Proofs_C05 Ops_Struct.
From AwkBroadcast Require Import Broadcast Proofs_C04 Proofs_C04_Model1 Proofs_C04_Model2 Proofs_C04_Model3.
From Coq Require Import Lia ZifyBool.

(* ------------------------------------------------------------------ the list step: specification side *)
Lemma transpose2 {A} (c1 c2 : list A) n :
  length c1 = n -> length c2 = n -> transpose n [c1; c2] = map (fun ab : A * A => [fst ab; snd ab]) (zip c1 c2).
Proof.
  intros H1 H2. unfold transpose. cbn [fold_right].
  assert (Hs : zipcons c2 (repeat [] n) = map (fun y => [y]) c2).
  { rewrite <- H2. clear. induction c2 as [|y c2 IH]; [reflexivity|]. cbn. now rewrite IH. }
  rewrite Hs. clear Hs. revert c2 n H1 H2. induction c1 as [|x c1 IH]; intros [|y c2] n H1 H2; cbn in *; subst; try discriminate; [reflexivity|].
  f_equal. apply (IH c2 (length c1)); [reflexivity|]. lia.
Qed.

Lemma spec_list_row op fuel t1 t2 x y :
  jagT t1 = true -> jagT t2 = true -> is_optT t1 = false -> is_optT t2 = false -> is_listT t1 || is_listT t2 = true ->
  spec_v op false (S fuel) [(t1, x); (t2, y)] =
  do n <- first_var_len [(t1, x); (t2, y)];
  do c1 <- column n (t1, x); do c2 <- column n (t2, y);
  rmap VList (mapM (spec_v op false fuel) (rows2 (elemT t1) (elemT t2) (map snd c1) (map snd c2))).
Proof.
  intros H1 H2 O1 O2 Hl. rewrite spec_v_S. cbv zeta. rewrite rpad_nocond by (cbn [map fst]; now apply jagT_rpad).
  cbn [map fst existsb]. rewrite (jagT_notbad t1 H1), (jagT_notbad t2 H2), O1, O2. cbn [orb]. rewrite orb_false_r, Hl.
  assert (Ht : list_target [(t1, x); (t2, y)] = first_var_len [(t1, x); (t2, y)]).
  { unfold list_target. cbn [map fst filter].
    assert (P : forall t, jagT t = true -> is_listT t = true -> is_regT t = false).
    { intros t Ht Hlt. destruct t as [| |[z|] [b|] t0| | |]; try discriminate; reflexivity. }
    destruct (is_listT t1) eqn:L1.
    - cbn [forallb]. now rewrite (P t1 H1 L1).
    - cbn [orb] in Hl. rewrite Hl. cbn [forallb]. now rewrite (P t2 H2 Hl). }
  rewrite Ht. destruct (first_var_len [(t1, x); (t2, y)]) as [n|e]; [|reflexivity]. cbn [bind mapM].
  destruct (column n (t1, x)) as [c1|e] eqn:E1; [|reflexivity]. cbn [bind].
  destruct (column n (t2, y)) as [c2|e] eqn:E2; [|reflexivity]. cbn [bind].
  destruct (column_shape n (t1, x) c1 (jagT_notbad t1 H1) E1) as [Hn1 Hf1].
  destruct (column_shape n (t2, y) c2 (jagT_notbad t2 H2) E2) as [Hn2 Hf2]. cbn [fst] in Hf1, Hf2.
  rewrite (transpose2 c1 c2 (Z.to_nat n) Hn1 Hn2). do 2 f_equal. unfold rows2. rewrite zip_map, map_map.
  apply map_ext_in. intros [[ta a] [tb b]] Hin. apply zip_In in Hin as [Ha Hb]. cbn [fst snd].
  rewrite Forall_forall in Hf1, Hf2. specialize (Hf1 _ Ha). specialize (Hf2 _ Hb). cbn [fst] in Hf1, Hf2. now subst.
Qed.

Lemma rows2_app t1 t2 a1 b1 a2 b2 : length a1 = length a2 ->
  rows2 t1 t2 (a1 ++ b1) (a2 ++ b2) = rows2 t1 t2 a1 a2 ++ rows2 t1 t2 b1 b2.
Proof.
  unfold rows2. intros H. rewrite <- map_app. f_equal. revert a2 H. induction a1 as [|x a1 IH]; intros [|y a2] H; try discriminate; [reflexivity|].
  cbn [app zip]. f_equal. apply IH. cbn in H. lia.
Qed.
Lemma rows2_concat t1 t2 p1 : forall p2, map zlen p1 = map zlen p2 ->
  rows2 t1 t2 (concat p1) (concat p2) = concat (map (fun p : list value * list value => rows2 t1 t2 (fst p) (snd p)) (zip p1 p2)).
Proof.
  induction p1 as [|a p1 IH]; intros [|b p2] H; try discriminate; [reflexivity|]. cbn [map] in H. inversion H.
  cbn [concat zip map fst snd]. rewrite rows2_app by (unfold zlen in *; lia). f_equal. now apply IH.
Qed.

(* all errors of the specification on fragment types are value errors, given the fuel *)
Lemma tsize_jag c : jag c = true -> tsize (type_of c) = csize c.
Proof.
  unfold type_of.
  induction c as [dt shape data| |w o c IHc|w s e c IHc|c size zl IHc|w ix c IHc|w ix c IHc|m vw c IHc
                 |m vw lsb n c IHc|c IHc|w t ix cs IHcs|cs ks n IHcs|arr rn c IHc] using content_ind';
    try discriminate; cbn [jag type_of_p strflag tsize csize].
  - destruct shape as [|n [|d ds]]; try discriminate. reflexivity.
  - intros H. now rewrite (IHc H).
  - intros H. now rewrite (IHc H).
  - intros H. apply andb_prop in H as [H _]. now rewrite (IHc H).
Qed.

Lemma first_var_len_err args e : first_var_len args = Err e -> e = EValue.
Proof.
  induction args as [|[t v] args IH]; [intros H; now inversion H|]. cbn.
  destruct t as [dt| |[z|] [b|] t0|t0|ks fs|alts]; try exact IH. destruct v; intros H; inversion H; reflexivity.
Qed.

Lemma jagT_elem t : jagT t = true -> is_optT t = false -> jagT (elemT t) = true /\ (tsize (elemT t) <= tsize t)%nat /\
                                                           (is_listT t = true -> (tsize (elemT t) < tsize t)%nat).
Proof.
  destruct t as [dt| |[z|] [b|] t0|t0|ks fs|alts]; try discriminate; cbn [jagT elemT tsize is_listT]; intros H _; repeat split; try assumption; try lia; discriminate.
Qed.
Lemma jagT_strip t : jagT t = true -> jagT (strip_opt_t t) = true /\ (tsize (strip_opt_t t) <= tsize t)%nat /\
                                        (is_optT t = true -> (tsize (strip_opt_t t) < tsize t)%nat).
Proof.
  destruct t as [dt| |[z|] [b|] t0|t0|ks fs|alts]; try discriminate; cbn [jagT strip_opt_t tsize is_optT]; intros H; repeat split; try assumption; try lia; try discriminate.
Qed.

Lemma tsize_pos t : (1 <= tsize t)%nat.
Proof. destruct t; cbn [tsize]; lia. Qed.

Lemma spec_err_value op : forall fuel t1 t2 x y e,
  jagT t1 = true -> jagT t2 = true -> (tsize t1 + tsize t2 <= fuel)%nat ->
  spec_v op false fuel [(t1, x); (t2, y)] = Err e -> e = EValue.
Proof.
  induction fuel as [|fuel IH]; intros t1 t2 x y e H1 H2 Hf; [pose proof (tsize_pos t1); lia|].
  destruct (is_optT t1 || is_optT t2) eqn:Ho.
  - rewrite spec_opt_row by assumption. destruct (none_in _); [discriminate|]. cbn [map]. unfold strip_opt. cbn [fst snd].
    destruct (jagT_strip t1 H1) as (J1 & S1 & S1'). destruct (jagT_strip t2 H2) as (J2 & S2 & S2').
    assert (Hsz : (tsize (strip_opt_t t1) + tsize (strip_opt_t t2) <= fuel)%nat).
    { destruct (is_optT t1) eqn:O1; [specialize (S1' eq_refl); lia|]. cbn [orb] in Ho. specialize (S2' Ho). lia. }
    intros H. refine (IH (strip_opt_t t1) (strip_opt_t t2) x y e J1 J2 Hsz _).
    destruct t1, t2; exact H.
  - apply orb_false_elim in Ho as [O1 O2]. destruct (is_listT t1 || is_listT t2) eqn:Hl.
    + rewrite spec_list_row by assumption.
      destruct (first_var_len _) as [n|e0] eqn:En; cbn [bind]; [|intros H; inversion H; subst; eapply first_var_len_err; eassumption].
      destruct (column n (t1, x)) as [c1|e1] eqn:E1; cbn [bind]; [|intros H; inversion H; subst; eapply column_err; eassumption].
      destruct (column n (t2, y)) as [c2|e2] eqn:E2; cbn [bind]; [|intros H; inversion H; subst; eapply column_err; eassumption].
      destruct (mapM _ _) as [ys|e'] eqn:Em; cbn [rmap]; [discriminate|]. intros H; inversion H; subst e'.
      apply mapM_Err in Em as (row & Hin & Hrow). unfold rows2 in Hin. apply in_map_iff in Hin as ([a b] & <- & _). cbn [fst snd] in Hrow.
      destruct (jagT_elem t1 H1 O1) as (J1 & S1 & S1'). destruct (jagT_elem t2 H2 O2) as (J2 & S2 & S2').
      assert (Hsz : (tsize (elemT t1) + tsize (elemT t2) <= fuel)%nat).
      { destruct (is_listT t1) eqn:L1; [specialize (S1' eq_refl); lia|]. cbn [orb] in Hl. specialize (S2' Hl). lia. }
      exact (IH _ _ _ _ _ J1 J2 Hsz Hrow).
    + apply orb_false_elim in Hl as [L1 L2]. rewrite spec_v_S. cbv zeta. rewrite rpad_nocond by (cbn [map fst]; now apply jagT_rpad).
      cbn [map fst existsb]. rewrite (jagT_notbad t1 H1), (jagT_notbad t2 H2), O1, O2, L1, L2. cbn [orb].
      assert (R1 : is_recT t1 = false) by (destruct t1 as [| |[z|] [b|] t0| | |]; try discriminate; reflexivity).
      assert (R2 : is_recT t2 = false) by (destruct t2 as [| |[z|] [b|] t0| | |]; try discriminate; reflexivity).
      rewrite R1, R2. cbn [orb mapM].
      unfold leaf_zb. cbn [snd]. destruct x as [[z| |]| | | | | |]; cbn [bind]; try (intros H; now inversion H);
        destruct y as [[z'| |]| | | | | |]; cbn [bind]; try (intros H; now inversion H); discriminate.
Qed.

(* ------------------------------------------------------------------ the list step: putting model and specification together *)
Lemma mapM_mapM_zlen {A B} (F : A -> res B) xs ys : mapM (mapM F) xs = Ok ys -> map zlen ys = map zlen xs.
Proof. intros H. symmetry. eapply mapM_mapM_lens. exact H. Qed.

Lemma list_assemble op rec fuel n1 n2 pieces1 pieces2 (R : content -> content) rows bound :
  jag n1 = true -> jag n2 = true -> to_list n1 = Ok (concat pieces1) -> to_list n2 = Ok (concat pieces2) ->
  map zlen pieces1 = map zlen pieces2 ->
  (csize n1 + csize n2 < bound)%nat -> step_ok op rec fuel bound ->
  (forall out, to_list (R out) = do outvs <- to_list out; rmap (map VList) (cut outvs (offsets_from 0 (map zlen pieces1)))) ->
  (forall out, jag out = true -> jag (R out) = true /\ is_option_node (R out) = false) ->
  mapM (spec_v op false (S fuel)) rows =
    mapM (fun p : list value * list value =>
            rmap VList (mapM (spec_v op false fuel) (rows2 (type_of n1) (type_of n2) (fst p) (snd p)))) (zip pieces1 pieces2) ->
  agrees_c (do out <- rec [MC n1; MC n2]; Ok (R out)) (mapM (spec_v op false (S fuel)) rows) /\
  (forall out, (do out <- rec [MC n1; MC n2]; Ok (R out)) = Ok out -> jag out = true /\ is_option_node out = false).
Proof.
  intros J1 J2 L1 L2 Hlens Hsz IH HR HRj Hspec.
  assert (Hzc : zlen (concat pieces1) = zlen (concat pieces2)).
  { clear -Hlens. revert pieces2 Hlens. induction pieces1 as [|a p1 IHp]; intros [|b p2] H; try discriminate; [reflexivity|].
    cbn [map] in H. inversion H. cbn [concat]. rewrite !zlen_app. rewrite (IHp p2) by assumption. lia. }
  destruct (IH n1 n2 _ _ J1 J2 L1 L2 Hzc Hsz) as [IHa IHj].
  rewrite (rows2_concat _ _ pieces1 pieces2 Hlens), mapM_concat, mapM_map in IHa.
  set (g := spec_v op false fuel) in *. set (r2 := fun p : list value * list value => rows2 (type_of n1) (type_of n2) (fst p) (snd p)) in *.
  rewrite Hspec. change (fun p => rmap VList (mapM g (rows2 (type_of n1) (type_of n2) (fst p) (snd p)))) with (fun p => rmap VList (mapM g (r2 p))).
  rewrite (mapM_rmap (fun p => mapM g (r2 p)) VList (zip pieces1 pieces2)).
  change (fun x : list value * list value => mapM g (rows2 (type_of n1) (type_of n2) (fst x) (snd x))) with (fun x => mapM g (r2 x)) in IHa.
  split.
  - destruct (mapM (fun x => mapM g (r2 x)) (zip pieces1 pieces2)) as [yss|e] eqn:Einner; cbn [rmap agrees_c] in *.
    + destruct IHa as (out & Hrec & Hout). rewrite Hrec. cbn [bind]. eexists. split; [reflexivity|]. rewrite HR, Hout. cbn [bind].
      assert (Hl : map zlen pieces1 = map zlen yss).
      { rewrite <- (mapM_map (mapM g) r2) in Einner. rewrite (mapM_mapM_zlen _ _ _ Einner). rewrite map_map.
        clear -Hlens. revert pieces2 Hlens. induction pieces1 as [|a p1 IHp]; intros [|b p2] H; try discriminate; [reflexivity|].
        cbn [map] in H. inversion H. cbn [zip map]. f_equal; [|now apply IHp].
        unfold r2, rows2. cbn [fst snd]. rewrite zlen_map, zlen_zip. lia. }
      rewrite (cut_concat_lens yss _ Hl). reflexivity.
    + destruct IHa as [-> IHa]. split; [reflexivity|]. rewrite IHa. reflexivity.
  - intros out Hd. apply bind_Ok in Hd as (o & Hrec & Hd). inversion Hd; subst out.
    destruct (IHj o Hrec) as [Jo Oo]. now apply HRj.
Qed.

(* ------------------------------------------------------------------ rows of the three shapes of a list step *)
Lemma column_list n t' l : zlen l = n -> column n (TList None None t', VList l) = Ok (map (fun x => (t', x)) l).
Proof. intros H. unfold column. now rewrite H, Z.eqb_refl. Qed.
Lemma column_list_bad n t' l : zlen l <> n -> column n (TList None None t', VList l) = Err EValue.
Proof. intros H. unfold column. destruct (Z.eqb_spec (zlen l) n); [contradiction|reflexivity]. Qed.
Lemma column_leaf n t v : is_listT t = false -> badT t = false -> column n (t, v) = Ok (repeat (t, v) (Z.to_nat n)).
Proof. intros Hl Hb. unfold column. destruct t as [| |[z|] [b|] t0| | |]; try discriminate; reflexivity. Qed.
Lemma map_snd_pair {A B} (t : A) (l : list B) : map snd (map (fun x => (t, x)) l) = l.
Proof. rewrite map_map. cbn. apply map_id. Qed.
Lemma map_snd_repeat {A B} (t : A) (v : B) n : map snd (repeat (t, v) n) = repeat v n.
Proof. induction n; cbn; congruence. Qed.

Lemma jagT_list_form t : jagT t = true -> is_listT t = true -> t = TList None None (elemT t).
Proof. destruct t as [| |[z|] [b|] t0| | |]; try discriminate; reflexivity. Qed.

Lemma spec_row_LL op fuel t1 t2 l1 l2 :
  jagT t1 = true -> jagT t2 = true -> is_listT t1 = true -> is_listT t2 = true ->
  spec_v op false (S fuel) [(t1, VList l1); (t2, VList l2)] =
  if zlen l2 =? zlen l1 then rmap VList (mapM (spec_v op false fuel) (rows2 (elemT t1) (elemT t2) l1 l2)) else Err EValue.
Proof.
  intros H1 H2 L1 L2.
  destruct t1 as [| |[z1|] [b1|] t1'| | |]; try discriminate. destruct t2 as [| |[z2|] [b2|] t2'| | |]; try discriminate.
  rewrite spec_list_row by (try assumption; reflexivity).
  cbn [first_var_len bind elemT].
  rewrite column_list by reflexivity. cbn [bind]. destruct (Z.eqb_spec (zlen l2) (zlen l1)) as [E|E].
  - rewrite column_list by exact E. cbn [bind]. now rewrite !map_snd_pair.
  - now rewrite column_list_bad by exact E.
Qed.
Lemma spec_row_LN op fuel t1 t2 l1 y :
  jagT t1 = true -> jagT t2 = true -> is_listT t1 = true -> is_listT t2 = false -> is_optT t2 = false ->
  spec_v op false (S fuel) [(t1, VList l1); (t2, y)] =
  rmap VList (mapM (spec_v op false fuel) (rows2 (elemT t1) t2 l1 (repeat y (length l1)))).
Proof.
  intros H1 H2 L1 L2 O2.
  destruct t1 as [| |[z1|] [b1|] t1'| | |]; try discriminate.
  rewrite spec_list_row by (try assumption; reflexivity).
  cbn [first_var_len bind elemT].
  rewrite column_list by reflexivity. cbn [bind]. rewrite column_leaf by (try assumption; now apply jagT_notbad). cbn [bind].
  rewrite map_snd_pair, map_snd_repeat. replace (Z.to_nat (zlen l1)) with (length l1) by (unfold zlen; lia).
  destruct t2 as [| |[z|] [b|] t0| | |]; try discriminate; reflexivity.
Qed.
Lemma spec_row_NL op fuel t1 t2 x l2 :
  jagT t1 = true -> jagT t2 = true -> is_listT t1 = false -> is_optT t1 = false -> is_listT t2 = true ->
  spec_v op false (S fuel) [(t1, x); (t2, VList l2)] =
  rmap VList (mapM (spec_v op false fuel) (rows2 t1 (elemT t2) (repeat x (length l2)) l2)).
Proof.
  intros H1 H2 L1 O1 L2.
  destruct t2 as [| |[z2|] [b2|] t2'| | |]; try discriminate.
  rewrite spec_list_row by (try assumption; try reflexivity; now rewrite orb_true_r).
  assert (Hf : first_var_len [(t1, x); (TList None None t2', VList l2)] = Ok (zlen l2)).
  { destruct t1 as [| |[z|] [b|] t0| | |]; try discriminate; reflexivity. }
  rewrite Hf. cbn [bind elemT]. rewrite column_leaf by (try assumption; now apply jagT_notbad). cbn [bind].
  rewrite column_list by reflexivity. cbn [bind].
  rewrite map_snd_pair, map_snd_repeat. replace (Z.to_nat (zlen l2)) with (length l2) by (unfold zlen; lia).
  destruct t1 as [| |[z|] [b|] t0| | |]; try discriminate; reflexivity.
Qed.

Lemma zip_rep_each {A B C} (G : list A * list B -> C) (ls : list (list A)) : forall (vs : list B),
  map G (zip ls (rep_each vs (map zlen ls))) = map (fun p => G (fst p, repeat (snd p) (length (fst p)))) (zip ls vs).
Proof.
  induction ls as [|l ls IH]; intros [|v vs]; try reflexivity. unfold rep_each in *. cbn [map zip fst snd].
  f_equal; [|apply IH]. now replace (Z.to_nat (zlen l)) with (length l) by (unfold zlen; lia).
Qed.
Lemma zip_rep_each_l {A B C} (G : list B * list A -> C) (ls : list (list A)) : forall (vs : list B),
  map G (zip (rep_each vs (map zlen ls)) ls) = map (fun p => G (repeat (fst p) (length (snd p)), snd p)) (zip vs ls).
Proof.
  induction ls as [|l ls IH]; intros [|v vs]; try reflexivity. unfold rep_each in *. cbn [map zip fst snd].
  f_equal; [|apply IH]. now replace (Z.to_nat (zlen l)) with (length l) by (unfold zlen; lia).
Qed.
Lemma zlen_rep_each {A} (vs : list A) : forall counts, Forall (fun k => 0 <= k) counts -> length counts = length vs ->
  map zlen (rep_each vs counts) = counts.
Proof.
  induction vs as [|v vs IH]; intros [|k counts] Hc H; try discriminate; [reflexivity|]. unfold rep_each in *. cbn [zip map fst snd].
  inversion Hc; subst. f_equal; [unfold zlen; rewrite repeat_length; lia|]. apply IH; [assumption|cbn in H; lia].
Qed.
Lemma zlen_all_nonneg {A} (ls : list (list A)) : Forall (fun k => 0 <= k) (map zlen ls).
Proof. apply Forall_forall. intros k Hk. apply in_map_iff in Hk as (l & <- & _). apply zlen_nonneg. Qed.
Lemma zip_lens_in {A B} (l1 : list (list A)) : forall (l2 : list (list B)) a b,
  map zlen l1 = map zlen l2 -> In (a, b) (zip l1 l2) -> zlen b = zlen a.
Proof.
  induction l1 as [|x l1 IH]; intros [|y l2] a b H Hin; try contradiction. cbn [map] in H. inversion H.
  destruct Hin as [E|Hin]; [inversion E; subst; lia|eapply IH; eassumption].
Qed.

(* ------------------------------------------------------------------ the general path (compact offsets of the first list) *)
Lemma lists_differ {A B} (l1 : list (list A)) : forall (l2 : list (list B)),
  length l1 = length l2 -> map zlen l1 <> map zlen l2 ->
  exists i a b, get l1 i = Ok a /\ get l2 i = Ok b /\ zlen b <> zlen a.
Proof.
  induction l1 as [|x l1 IH]; intros [|y l2] H Hne; try discriminate; [now contradiction Hne|].
  destruct (Z.eq_dec (zlen y) (zlen x)) as [E|E].
  - destruct (IH l2) as (i & a & b & Ha & Hb & Hab); [cbn in H; lia|intros E'; apply Hne; cbn [map]; congruence|].
    pose proof (get_range _ _ _ Ha). exists (i + 1), a, b. rewrite !get_cons_S by lia. auto.
  - exists 0, x, y. auto.
Qed.
Lemma mapM_has_err {A B} (f : A -> res B) l x e0 : In x l -> f x = Err e0 -> exists e, mapM f l = Err e.
Proof.
  induction l as [|y l IH]; [contradiction|]. intros [->|Hin] Hx; rewrite mapM_cons.
  - rewrite Hx. cbn [bind]. eauto.
  - destruct (f y); cbn [bind]; [|eauto]. destruct (IH Hin Hx) as [e He]. rewrite He. cbn [bind]. eauto.
Qed.
Lemma get_In {A} (l : list A) i x : get l i = Ok x -> In x l.
Proof. unfold get. destruct (i <? 0); [discriminate|]. destruct (nth_error l (Z.to_nat i)) eqn:E; [|discriminate]. intros H; inversion H; subst. eapply nth_error_In; eassumption. Qed.

Lemma mapM_zip_rep_each {A B C} (F : list A * list B -> res C) (ls : list (list A)) : forall (vs : list B),
  mapM F (zip ls (rep_each vs (map zlen ls))) = mapM (fun p => F (fst p, repeat (snd p) (length (fst p)))) (zip ls vs).
Proof.
  induction ls as [|l ls IH]; intros [|v vs]; try reflexivity. unfold rep_each in *. cbn [map zip fst snd mapM].
  rewrite IH. now replace (Z.to_nat (zlen l)) with (length l) by (unfold zlen; lia).
Qed.
Lemma mapM_zip_rep_each_l {A B C} (F : list B * list A -> res C) (ls : list (list A)) : forall (vs : list B),
  mapM F (zip (rep_each vs (map zlen ls)) ls) = mapM (fun p => F (repeat (fst p) (length (snd p)), snd p)) (zip vs ls).
Proof.
  induction ls as [|l ls IH]; intros [|v vs]; try reflexivity. unfold rep_each in *. cbn [map zip fst snd mapM].
  rewrite IH. now replace (Z.to_nat (zlen l)) with (length l) by (unfold zlen; lia).
Qed.

Lemma jag_nonlist_leaf c : jag c = true -> is_option_node c = false -> is_list_node c = false ->
  is_listT (type_of c) = false /\ is_optT (type_of c) = false.
Proof. intros Hj Ho Hl. destruct (type_of_jag c Hj) as (_ & H1 & H2). rewrite H1, H2. auto. Qed.

Lemma inner_types c : jag c = true -> is_list_node c = true ->
  elemT (type_of c) = type_of (inner c) /\ is_listT (type_of c) = true /\ is_optT (type_of c) = false.
Proof. destruct c; try discriminate; intros _ _; cbn; auto. Qed.

Lemma gen_case op rec fuel c1 c2 vs1 vs2 :
  jag c1 = true -> jag c2 = true -> to_list c1 = Ok vs1 -> to_list c2 = Ok vs2 -> zlen vs1 = zlen vs2 ->
  is_option_node c1 = false -> is_option_node c2 = false -> is_list_node c1 || is_list_node c2 = true ->
  (csize c1 + csize c2 <= S fuel)%nat ->
  step_ok op rec fuel (csize c1 + csize c2) ->
  agrees_c (gen_branch rec [MC c1; MC c2])
         (mapM (spec_v op false (S fuel)) (rows2 (type_of c1) (type_of c2) vs1 vs2)) /\
  (forall out, gen_branch rec [MC c1; MC c2] = Ok out -> jag out = true /\ is_option_node out = false).
Proof.
  intros H1 H2 L1 L2 Hz O1 O2 Hl Hfuel IH.
  destruct (jag_nodes c1 H1) as (_ & _ & _ & _ & _ & R1 & _ & _). destruct (jag_nodes c2 H2) as (_ & _ & _ & _ & _ & R2 & _ & _).
  destruct (type_of_jag c1 H1) as (JT1 & OT1 & LT1). destruct (type_of_jag c2 H2) as (JT2 & OT2 & LT2).
  assert (HR : forall offs out, to_list (ListOffset I64 offs out) = do outvs <- to_list out; rmap (map VList) (cut outvs offs)) by reflexivity.
  assert (HRj : forall offs out, jag out = true ->
                                 jag (ListOffset I64 offs out) = true /\ is_option_node (ListOffset I64 offs out) = false) by (intros; cbn; auto).
  unfold gen_branch. cbn [contents_of flat_map app filter]. rewrite R1, R2. cbn [negb]. rewrite !andb_true_r.
  destruct (is_list_node c1) eqn:N1.
  - (* the first input is the first list *)
    destruct (list_view c1 vs1 H1 N1 L1) as (vs1' & ls1 & Li1 & Hc1 & -> & Ji1 & S1 & T1 & Zs1 & Zl1).
    destruct (inner_types c1 H1 N1) as (E1 & LT1' & _).
    rewrite (compact_offsets_jag c1 vs1' ls1 H1 N1 Hc1 Zs1 Zl1). cbn [bind]. unfold map_c. cbn [mapM]. rewrite N1.
    destruct (bto_list_ok c1 vs1' ls1 H1 N1 Li1 Ji1 Hc1 Zs1 Zl1) as (n1 & B1 & Jn1 & Ln1 & Tn1 & Sn1 & _ & _). rewrite B1. cbn [rmap bind].
    destruct (is_list_node c2) eqn:N2.
    + (* list with list *)
      destruct (list_view c2 vs2 H2 N2 L2) as (vs2' & ls2 & Li2 & Hc2 & -> & Ji2 & S2 & T2 & Zs2 & Zl2).
      destruct (inner_types c2 H2 N2) as (E2 & LT2' & _).
      rewrite !zlen_map in Hz.
      destruct (list_eq_dec Z.eq_dec (map zlen ls1) (map zlen ls2)) as [Elens|Nlens].
      * destruct (bto_list_ok c2 vs2' ls2 H2 N2 Li2 Ji2 Hc2 Zs2 Zl2) as (n2 & B2 & Jn2 & Ln2 & Tn2 & Sn2 & _ & _).
        rewrite Elens, B2. cbn [rmap bind]. rewrite <- Elens.
        apply (list_assemble op rec fuel n1 n2 ls1 ls2 (ListOffset I64 (offsets_from 0 (map zlen ls1)))) with (bound := (csize c1 + csize c2)%nat); try assumption.
        -- clear - Sn1 Sn2 S1 S2; lia.
        -- apply HR.
        -- apply HRj.
        -- unfold rows2 at 1. rewrite zip_map, map_map, mapM_map. apply mapM_ext_in. intros [a b] Hin. cbn [fst snd].
           rewrite spec_row_LL by assumption. rewrite (zip_lens_in ls1 ls2 a b Elens Hin), Z.eqb_refl.
           now rewrite Tn1, Tn2, E1, E2.
      * (* some list of the second input has another length: an error on both sides *)
        destruct (lists_differ ls1 ls2) as (i & a & b & Ga & Gb & Hab); [apply zlen_eq_length; exact Hz|exact Nlens|].
        assert (Gk : get (map zlen ls1) i = Ok (zlen a)) by (rewrite get_map, Ga; reflexivity).
        rewrite (bto_list_err c2 vs2' ls2 (map zlen ls1) i b (zlen a) H2 N2 Hc2 Zs2 Zl2); try assumption.
        2:{ rewrite zlen_map. rewrite <- (to_list_len _ _ L2), zlen_map. clear - Hz; lia. }
        cbn [bind rmap]. split; [|discriminate].
        set (rows := rows2 (type_of c1) (type_of c2) (map VList ls1) (map VList ls2)).
        assert (Hrow : In [(type_of c1, VList a); (type_of c2, VList b)] rows).
        { unfold rows, rows2. apply in_map_iff. exists (VList a, VList b). split; [reflexivity|].
          apply (get_In _ i). rewrite get_zip, !get_map, Ga, Gb. reflexivity. }
        assert (Hbad : spec_v op false (S fuel) [(type_of c1, VList a); (type_of c2, VList b)] = Err EValue).
        { rewrite spec_row_LL by assumption. destruct (Z.eqb_spec (zlen b) (zlen a)); [contradiction|reflexivity]. }
        destruct (mapM_has_err (spec_v op false (S fuel)) rows _ _ Hrow Hbad) as [e He]. rewrite He. cbn [agrees_c]. split; [|reflexivity].
        apply mapM_Err in He as (row & Hin & Hrow'). unfold rows, rows2 in Hin. apply in_map_iff in Hin as ([x y] & <- & _).
        eapply (spec_err_value op (S fuel)); [exact JT1|exact JT2| |exact Hrow'].
        rewrite (tsize_jag c1 H1), (tsize_jag c2 H2). exact Hfuel.
    + (* list with a shallower input: tree-left *)
      destruct (jag_nonlist_leaf c2 H2 O2 N2) as [LT2' OT2'].
      assert (Hcz : zlen (map zlen ls1) = zlen vs2) by (rewrite zlen_map; rewrite zlen_map in Hz; exact Hz).
      destruct (bto_leaf_ok c2 vs2 (map zlen ls1) H2 N2 L2 Hcz (zlen_all_nonneg ls1)) as (n2 & B2 & Jn2 & Ln2 & Tn2 & Sn2 & _ & _).
      rewrite B2. cbn [rmap bind].
      apply (list_assemble op rec fuel n1 n2 ls1 (rep_each vs2 (map zlen ls1)) (ListOffset I64 (offsets_from 0 (map zlen ls1)))) with (bound := (csize c1 + csize c2)%nat); try assumption.
      * symmetry. apply zlen_rep_each; [apply zlen_all_nonneg|]. apply zlen_eq_length; exact Hcz.
      * clear - Sn1 Sn2 S1; lia.
      * apply HR.
      * apply HRj.
      * rewrite mapM_zip_rep_each. unfold rows2 at 1.
        replace vs2 with (map (fun v : value => v) vs2) at 1 by apply map_id.
        rewrite zip_map, map_map, mapM_map. apply mapM_ext_in. intros [a y] Hin. cbn [fst snd].
        rewrite spec_row_LN by assumption. now rewrite Tn1, Tn2, E1.
  - (* the second input is the first list; the first one is shallower *)
    cbn [orb] in Hl. rename Hl into N2.
    destruct (list_view c2 vs2 H2 N2 L2) as (vs2' & ls2 & Li2 & Hc2 & -> & Ji2 & S2 & T2 & Zs2 & Zl2).
    destruct (inner_types c2 H2 N2) as (E2 & LT2' & _).
    destruct (jag_nonlist_leaf c1 H1 O1 N1) as [LT1' OT1'].
    rewrite N2. rewrite (compact_offsets_jag c2 vs2' ls2 H2 N2 Hc2 Zs2 Zl2). cbn [bind]. unfold map_c. cbn [mapM]. rewrite N1, N2.
    assert (Hcz : zlen (map zlen ls2) = zlen vs1) by (rewrite zlen_map; rewrite zlen_map in Hz; symmetry; exact Hz).
    destruct (bto_leaf_ok c1 vs1 (map zlen ls2) H1 N1 L1 Hcz (zlen_all_nonneg ls2)) as (n1 & B1 & Jn1 & Ln1 & Tn1 & Sn1 & _ & _).
    destruct (bto_list_ok c2 vs2' ls2 H2 N2 Li2 Ji2 Hc2 Zs2 Zl2) as (n2 & B2 & Jn2 & Ln2 & Tn2 & Sn2 & _ & _).
    rewrite B1, B2. cbn [rmap bind].
    assert (Hlens : map zlen (rep_each vs1 (map zlen ls2)) = map zlen ls2).
    { apply zlen_rep_each; [apply zlen_all_nonneg|]. apply zlen_eq_length; exact Hcz. }
    rewrite <- Hlens.
    apply (list_assemble op rec fuel n1 n2 (rep_each vs1 (map zlen ls2)) ls2
             (ListOffset I64 (offsets_from 0 (map zlen (rep_each vs1 (map zlen ls2)))))) with (bound := (csize c1 + csize c2)%nat); try assumption.
    + clear - Sn1 Sn2 S2; lia.
    + apply HR.
    + apply HRj.
    + rewrite mapM_zip_rep_each_l. unfold rows2 at 1.
      replace vs1 with (map (fun v : value => v) vs1) at 1 by apply map_id.
      rewrite zip_map, map_map, mapM_map. apply mapM_ext_in. intros [x b] Hin. cbn [fst snd].
      rewrite spec_row_NL by assumption. now rewrite Tn1, Tn2, E2.
Qed.
