(** Slicing with the "array-like" items that Ops_Getitem.v leaves out: value-level specification only
    (there is no layout-level model for these items).  No proofs here.

    Items ([advitem]):
      [ANd shape data]   an n-d integer array (row-major data), NumPy semantics: the indexed dimension is replaced by
                         the dimensions of the index;
      [ABool shape bits] a rectilinear boolean array = the integer arrays numpy.nonzero gives, one per dimension;
      [AIdx depth topopt j] an index array that is not rectilinear-without-missing-values ([jag]): a 1-d integer / boolean
                         array with missing values (depth 1), or a jagged array (lists of lists ..., [depth] levels) of
                         integers / booleans, None allowed at every level ([topopt]: the outermost level has option type).

    A slice is [pre ++ [the item] ++ post]:
      specified   pre  = ranges only (any bounds / steps);
                  post = anything [getitem_spec] specifies except a further integer array;
                  [ANd]: result = the EXISTING specification applied to the raveled 1-d array, the dimension of that
                         array (at depth [length pre]) regrouped by [shape];
                  [ABool]: [pre = []] only; the existing specification applied to the nonzero positions;
                  [AIdx]: applied level by level to the nested-list value below the [length pre] leading ranges; the rest
                         of the slice ([post]) is applied (by the existing specification) to every selected element.
      unspecified ([Err EFuel], as in Ops_Getitem.v): every other combination, and
                  - a boolean mask (rectilinear or at the deepest level of a jagged index) whose length differs from the
                    length of the list it filters (the library only ever sees the true positions);
                  - a rectilinear boolean mask of rank >= 2 on dimensions that are not regular of the same sizes;
                  - an index item that arrives at a string (as a list of characters) or at a record;
                  - an integer item in [post] after a non-integer item when the index is an n-d / boolean array ("advanced
                    indexes separated by basic indexes": documented refusal);
                  - undocumented refusals of the library (all raise an error, none returns data):
                    a 1-d option-type index followed by an integer item; a 1-d option-type index after leading ranges
                    applied to lists of option type; an option-type jagged index (depth >= 2) after leading ranges; a
                    jagged index of depth >= 3 whose outermost level has a None facing anything but an empty list; a
                    non-empty list of index lists facing a missing list of the array;
                  - a jagged index of depth >= 3 after leading ranges that select more than one list (refused);
                  - a jagged / missing index after leading ranges that select no list at all (the library then compares the
                    index with regular sizes and with unreachable content). *)
From AwkV Require Export Ops_Getitem.

Inductive jag :=
| JInts (ix : list (option Z))        (* deepest level: integer positions, None passes through *)
| JBools (m : list (option bool))     (* deepest level: a mask, None passes through *)
| JLists (subs : list (option jag)).  (* one entry per list of the array; None = that list becomes None *)

Inductive advitem :=
| ANd (shape : list Z) (data : list Z)
| ABool (shape : list Z) (bits : list bool)
| AIdx (depth : nat) (topopt : bool) (j : jag).   (* topopt: the index array itself has option type *)

(* ---------------------------------------------------------------- reading an index out of an array's value *)
Definition int_dtype (dt : dtype) : bool :=
  match dt with DBool | DFloat32 | DFloat64 => false | _ => true end.

(* [t] = type of the elements [vs] of the index array; result: (number of list levels, index) *)
Fixpoint jag_of_value (t : ty) (vs : list value) {struct t} : res (nat * jag) :=
  match t with
  | TOpt t' => jag_of_value t' vs
  | TNum DBool =>
      do m <- mapM (fun v => match v with VBool b => Ok (Some b) | VNone => Ok None | _ => Err EValue end) vs;
      Ok (1%nat, JBools m)
  | TNum dt =>
      if int_dtype dt then
        do ix <- mapM (fun v => match v with VNum (DZ z) => Ok (Some z) | VNone => Ok None | _ => Err EValue end) vs;
        Ok (1%nat, JInts ix)
      else Err EValue
  | TUnk => match vs with [] => Ok (1%nat, JInts []) | _ => Err EValue end
  | TList None None t' =>
      do subs <- mapM (fun v => match v with
                                | VList l => rmap Some (jag_of_value t' l)
                                | VNone => Ok None
                                | _ => Err EValue
                                end) vs;
      (* the depth is a property of the type: read it off the empty index *)
      do d <- jag_of_value t' [];
      Ok (S (fst d), JLists (map (fun o : option (nat * jag) => match o with Some dj => Some (snd dj) | None => None end) subs))
  | TList (Some _) _ _ => Err EFuel      (* mixed regular/variable index arrays (SliceVarNewAxis): not specified *)
  | _ => Err EValue
  end.

(* ---------------------------------------------------------------- shapes *)
(* nest a flat list (of length prod shape) by [shape]; rank 1 is the list itself *)
Fixpoint shape_nest (shape : list Z) (l : list value) : value :=
  match shape with
  | [] => VList l
  | [_] => VList l
  | d :: ds => VList (map (shape_nest ds) (chunks_nat l (prodZ ds) (Z.to_nat d)))
  end.

Definition shape_ok (shape : list Z) (n : Z) : bool :=
  match shape with [] => false | _ => forallb (fun d => 0 <=? d) shape && (prodZ shape =? n) end.

(* regroup the dimension found [k] list levels down *)
Fixpoint reshape_at (k : nat) (shape : list Z) (v : value) : res value :=
  match k with
  | O => match v with
         | VList l => Ok (shape_nest shape l)
         | VNone => Ok VNone
         | VStr _ _ => Err EFuel
         | _ => Err EValue
         end
  | S k' => match v with
            | VList l => rmap VList (mapM (reshape_at k' shape) l)
            | VNone => Ok VNone
            | _ => Err EValue
            end
  end.

(* numpy.nonzero of a row-major boolean array: the multi-indexes of the true entries, one list per dimension *)
Definition true_positions (bits : list bool) : list Z :=
  flat_map (fun bk : bool * Z => if fst bk then [snd bk] else []) (zip bits (iota (zlen bits))).
Fixpoint unravel (shape : list Z) (k : Z) : list Z :=    (* multi-index of flat position k *)
  match shape with
  | [] => []
  | _ :: ds => (k / prodZ ds) :: unravel ds (k mod prodZ ds)
  end.
Definition nonzero (shape : list Z) (bits : list bool) : list (list Z) :=
  let multi := map (unravel shape) (true_positions bits) in
  map (fun d => map (fun mi : list Z => nth d mi 0) multi) (seq 0 (length shape)).

(* ---------------------------------------------------------------- the rest of the slice on selected elements *)
Definition is_range (it : item) : bool := match it with IRange _ _ _ => true | _ => false end.
Definition is_array (it : item) : bool := match it with IArray _ => true | _ => false end.
Definition is_at (it : item) : bool := match it with IAt _ => true | _ => false end.

(* [post] applied to each of the elements [xs] (of type [t]) by the existing specification *)
Definition cont (post : list item) (t : ty) (xs : list value) : res (list value) :=
  match post with
  | [] => Ok xs
  | _ => do r <- sg (items_fuel (IAt 0 :: post)) None None t (map (fun x => Some [x]) xs) (IAt 0 :: post) None;
         Ok (snd r)
  end.
Definition cont1 (post : list item) (t : ty) (e : value) : res value :=
  do r <- cont post t [e];
  match r with [v] => Ok v | _ => Err EOob end.

(* ---------------------------------------------------------------- a jagged / missing index on one list *)
(* [k] = what happens to a selected element *)
Fixpoint jag_apply (k : value -> res value) (j : jag) (l : list value) {struct j} : res (list value) :=
  match j with
  | JInts ix =>
      mapM (fun o : option Z => match o with
                                | None => Ok VNone
                                | Some i => do p <- wrap_at (zlen l) i; do e <- get l p; k e
                                end) ix
  | JBools m =>
      if negb (zlen m =? zlen l) then Err EFuel else
      mapM (fun r : res value => r)
           (flat_map (fun be : option bool * value => match fst be with
                                                      | None => [Ok VNone]
                                                      | Some true => [k (snd be)]
                                                      | Some false => []
                                                      end) (zip m l))
  | JLists subs =>
      (fix go (subs : list (option jag)) (l : list value) {struct subs} : res (list value) :=
         match subs, l with
         | [], [] => Ok []
         | oj :: subs', e :: l' =>
             do r <- (match oj with
                      | None => Ok VNone
                      | Some j' =>
                          match e with
                          | VList l1 => rmap VList (jag_apply k j' l1)
                          | VNone => match j' with JLists (_ :: _) => Err EFuel | _ => Ok VNone end
                          | VStr _ _ | VRec _ | VTup _ => Err EFuel
                          | _ => Err EValue            (* the index is deeper than the array *)
                          end
                      end);
             do rs <- go subs' l';
             Ok (r :: rs)
         | _, _ => Err EValue                          (* lengths differ *)
         end) subs l
  end.

(* element type [d] list levels below a list type (through options); strings / records: not specified *)
Fixpoint elem_ty (d : nat) (t : ty) : res ty :=
  match d with
  | O => Ok t
  | S d' => match so_ty t with
            | TList _ None t' => elem_ty d' t'
            | TList _ (Some _) _ | TRec _ _ | TUnion _ => Err EFuel
            | _ => Err EValue
            end
  end.

(* apply [f] to the lists found [k] list levels below [v] *)
Fixpoint at_depth (k : nat) (f : list value -> res value) (v : value) : res value :=
  match k with
  | O => match v with
         | VList l => f l
         | VNone => Ok VNone
         | VStr _ _ => Err EFuel
         | _ => Err EValue
         end
  | S k' => match v with
            | VList l => rmap VList (mapM (at_depth k' f) l)
            | VNone => Ok VNone
            | VStr _ _ => Err EFuel
            | _ => Err EValue
            end
  end.
Definition has_some_none {A} (l : list (option A)) : bool :=
  existsb (fun o => match o with None => true | Some _ => false end) l.

(* number of (non-missing) lists found [k] levels below [v] *)
Fixpoint lists_at_depth (k : nat) (v : value) : Z :=
  match k with
  | O => match v with VList _ => 1 | _ => 0 end
  | S k' => match v with VList l => sumZ (map (lists_at_depth k') l) | _ => 0 end
  end.

(* a None at the outermost level of the index faces an empty list (what the library insists on for depth >= 3) *)
Definition top_none_ok (j : jag) (v : value) : bool :=
  match j, v with
  | JLists subs, VList l =>
      forallb (fun oe : option jag * value =>
                 match fst oe with
                 | None => match snd oe with VList [] => true | _ => false end
                 | Some _ => true
                 end) (zip subs l)
  | _, _ => true
  end.
(* an integer item after a non-integer item *)
Fixpoint at_after_basic (seen : bool) (post : list item) : bool :=
  match post with
  | [] => false
  | IAt _ :: tl => seen || at_after_basic seen tl
  | _ :: tl => at_after_basic true tl
  end.

(* ---------------------------------------------------------------- the whole operation *)
Definition getitem_adv_spec (pre : list item) (a : advitem) (post : list item) (t : ty) (vs : list value) : res value :=
  if negb (forallb is_range pre) || existsb is_array post then Err EFuel else
  let k := length pre in
  match a with
  | ANd shape data =>
      if negb (shape_ok shape (zlen data)) then Err EValue else
      if at_after_basic false post then Err EFuel else
      do r <- getitem_spec (pre ++ IArray data :: post) t vs;
      match r with
      | [v] => reshape_at k shape v
      | _ => Err EOob
      end
  | ABool shape bits =>
      if negb (shape_ok shape (zlen bits)) then Err EValue else
      match pre with _ :: _ => Err EFuel | [] =>
      (* the mask must cover the dimensions it filters exactly: the first is the array itself, the others regular *)
      let fits := (fix fits (dims : list Z) (t : ty) : bool :=
                     match dims with
                     | [] => true
                     | d :: ds => match t with TList (Some n) None t' => (d =? n) && fits ds t' | _ => false end
                     end) in
      match shape with
      | d :: ds =>
          if negb ((d =? zlen vs) && fits ds t) || at_after_basic false post then Err EFuel else
          do r <- getitem_spec (map IArray (nonzero shape bits) ++ post) t vs;
          match r with [v] => Ok v | _ => Err EOob end
      | [] => Err EValue
      end end
  | AIdx depth topopt j =>
      match depth with O => Err EValue | S _ =>
      let deep := negb (Nat.eqb depth 1) in
      if negb deep && topopt && existsb is_at post then Err EFuel else
      if deep && topopt && (0 <? Z.of_nat k) then Err EFuel else
      do r <- sg (items_fuel pre) None (Some (zlen vs)) t [Some vs] pre None;
      match snd r with
      | [v] =>
          if (0 <? Z.of_nat k) && (lists_at_depth k v =? 0) then Err EFuel else
          if (0 <? Z.of_nat k) && (3 <=? Z.of_nat depth) && negb (lists_at_depth k v =? 1) then Err EFuel else
          do tk <- elem_ty k (fst r);             (* type of the lists the index applies to *)
          if negb deep && topopt && (0 <? Z.of_nat k) && (match tk with TOpt _ => true | _ => false end) then Err EFuel else
          if (3 <=? Z.of_nat depth) && negb (top_none_ok j v) then Err EFuel else
          do te <- elem_ty depth tk;              (* type of the selected elements *)
          do _ <- cont post te [];                (* errors of the rest of the slice that do not depend on the data *)
          at_depth k (fun l => rmap VList (jag_apply (cont1 post te) j l)) v
      | _ => Err EOob
      end end
  end.
