(** C11 (closure), part 9: every modelled operation in one statement, each with exactly the hypothesis that is left.

    operation                      hypothesis left            why (witness)
    ---------------------------------------------------------------------------------------------------------------
    num, local_index               none
    rpad, rpad_and_clip            ax_frag Qpad c axis        string at the axis: the C++ result is invalid too (known finding
                                                              axis-into-string-characters; rpad_preserves_valid_refuted_string);
                                                              option-type content: the model omits simplify_optiontype
                                                              (.._refuted_option); content of negative length (.._refuted_neglen)
    combinations                   ax_frag Qcomb c axis       model: IndexedArray over option-type content (comb_.._refuted)
    field_content                  fc_frag k false c          model omits simplify_optiontype (field_content_.._refuted);
                                                              "has a value" is no longer needed (Proofs_Closure7)
    fields_content, setfield       none
    fillna                         fn_frag c, value non-union model omits simplify_uniontype (the three fillna_.._refuted_.. examples)
    flatten                        to_list c = Ok vs          the proof reads lengths off the value (no counter-example known)
    sort, argsort (innermost)      none
    sort along outer axes          none                       (Proofs_Closure8)
    sort_model_all                 none
    reduce                         red_frag mask keepdims ..  model: IndexedOptionArray below an option/indexed node
                                                              (reduce_preserves_valid_refuted); none when keepdims or not mask
    carry, crange                  none                       (Proofs_Closure7; success implies in-range indices)
    getitem                        nostr c, gi_frag c         strings: an item that reaches the characters returns the bare
                                                              char-tagged buffer -- in the model AND in the C++
                                                              (getitem_preserves_valid_refuted_string below); nested option /
                                                              indexed nodes: the model omits simplify_optiontype
                                                              (getitem_preserves_valid_refuted) *)
From Coq Require Import ZArith List Bool Lia ZifyBool.
From AwkV Require Import Base Layout LayoutInd Valid Types AtAxis Carry Ops_Struct Ops_Flatten Ops_Option Ops_Getitem
                         Ops_Fields Ops_Sort Ops_SortAxes Ops_Reduce Proofs_ToList Proofs_CarryValid
                         Proofs_Closure Proofs_Closure2 Proofs_Closure3 Proofs_Closure4 Proofs_Closure6
                         Proofs_Closure7 Proofs_Closure8.
Import ListNotations.
Open Scope Z_scope.

(* ---------------------------------------------------------------- getitem: the string restriction is needed *)
(* ["ab", "c"][:, 0]: the integer reaches the characters; the result (inside the model's outer length-1 list) is the
   uint8 buffer still tagged __array__ = "char", which validityerror only accepts directly below a string node.
   The C++ returns the same layout, (par char none (np uint8 (2) (97 99))), and its own validityerror rejects it
   (run through awkdrv: getitem ((rng none none none) (at 0)), then valid -> 0).  Same family as the open findings
   jagged-index-into-string-characters / string-empty-selection; this item kind is not registered. *)
Example getitem_preserves_valid_refuted_string :
  let c := Par (Some AString) None (ListOffset I64 [0; 2; 3] (Par (Some AChar) None (Numpy DUInt8 [3] [DZ 97; DZ 98; DZ 99]))) in
  let r := ListOffset I64 [0; 2] (Par (Some AChar) None (Numpy DUInt8 [2] [DZ 97; DZ 99])) in
  valid_b c = true /\ nostr c = false /\ gi_frag c = true /\
  getitem_model [IRange None None None; IAt 0] c = Ok r /\ valid_b r = false.
Proof. vm_compute. repeat split. Qed.
(* ["ab", "c"][:, :, newaxis]: a length-1 dimension below the characters *)
Example getitem_preserves_valid_refuted_string_newaxis :
  let c := Par (Some AString) None (ListOffset I64 [0; 2; 3] (Par (Some AChar) None (Numpy DUInt8 [3] [DZ 97; DZ 98; DZ 99]))) in
  valid_b c = true /\ nostr c = false /\ gi_frag c = true /\
  (do r <- getitem_model [IRange None None None; IRange None None None; INewAxis] c; Ok (valid_b r)) = Ok false.
Proof. vm_compute. repeat split. Qed.
(* items that stay above the characters keep strings valid: the restriction is only about reaching the characters *)
Example getitem_strings_above_characters_ex :
  let c := ListOffset I64 [0; 2; 3]
             (Par (Some AString) None (ListOffset I64 [0; 2; 3; 3] (Par (Some AChar) None (Numpy DUInt8 [3] [DZ 97; DZ 98; DZ 99])))) in
  let ok := fun r : res content => match r with Ok c' => valid_b c' | Err _ => false end in
  valid_b c = true /\ nostr c = false /\
  forallb ok [getitem_model [IAt 1] c; getitem_model [IRange None None (Some (-1)); IAt 0] c;
              getitem_model [IArray [1; 0]; IArray [0; 1]] c; getitem_model [IEllipsis; INewAxis] c] = true.
Proof. vm_compute. repeat split. Qed.

(* ---------------------------------------------------------------- all modelled operations *)
Theorem closure_all_modelled : forall c, Valid None c ->
  (forall axis c', num_model axis c = Ok c' -> Valid None c') /\
  (forall axis c', localindex_model axis c = Ok c' -> Valid None c') /\
  (forall target axis c', ax_frag Qpad c axis = true -> rpad_model target axis c = Ok c' -> Valid None c') /\
  (forall target axis c', ax_frag Qpad c axis = true -> rpadclip_model target axis c = Ok c' -> Valid None c') /\
  (forall n repl axis c', ax_frag Qcomb c axis = true -> comb_model n repl axis c = Ok c' -> Valid None c') /\
  (forall k c', fc_frag k false c = true -> field_content k c = Ok c' -> Valid None c') /\
  (forall ks c', fields_content ks c = Ok c' -> Valid None c') /\
  (forall k what c', Valid None what -> setfield_model k c what = Ok c' -> Valid None c') /\
  (forall value c', Valid None value -> unionlike value = false -> fn_frag c = true ->
                    fillna_model value c = Ok c' -> Valid None c') /\
  (forall axis vs c', to_list c = Ok vs -> flatten_model axis c = Ok c' -> Valid None c') /\
  (forall asc argsort axis c', sort_model asc argsort axis c = Ok c' -> Valid None c') /\
  (forall asc axis c', sort_axes_model asc axis c = Ok c' -> Valid None c') /\
  (forall asc argsort axis c', sort_model_all asc argsort axis c = Ok c' -> Valid None c') /\
  (forall r axis mask keepdims c', red_frag mask keepdims c axis = true ->
                                   reduce_model r axis mask keepdims c = Ok c' -> Valid None c') /\
  (forall ix c', carry c ix = Ok c' -> Valid None c') /\
  (forall a b c', crange c a b = Ok c' -> Valid None c') /\
  (forall items c', nostr c = true -> gi_frag c = true -> getitem_model items c = Ok c' -> Valid None c').
Proof.
  intros c HV. repeat split.
  - intros axis c'. apply num_preserves_valid, HV.
  - intros axis c'. apply localindex_preserves_valid, HV.
  - intros target axis c'. apply rpad_preserves_valid_partial, HV.
  - intros target axis c'. apply rpadclip_preserves_valid_partial, HV.
  - intros n repl axis c'. apply comb_preserves_valid_partial, HV.
  - intros k c'. apply field_content_preserves_valid_novalue_partial, HV.
  - intros ks c' H. exact (proj1 (fields_content_valid_all ks c c' HV H)).
  - intros k what c'. apply setfield_preserves_valid, HV.
  - intros value c' HVv Hu Hf. apply fillna_preserves_valid_partial; assumption.
  - intros axis vs c'. apply flatten_preserves_valid, HV.
  - intros asc argsort axis c'. apply sort_preserves_valid, HV.
  - intros asc axis c'. apply sort_axes_preserves_valid, HV.
  - intros asc argsort axis c'. apply sort_all_preserves_valid, HV.
  - intros r axis mask keepdims c'. apply reduce_preserves_valid_partial, HV.
  - intros ix c'. apply carry_valid_full, HV.
  - intros a b c'. apply crange_valid_full, HV.
  - intros items c'. apply getitem_preserves_valid_partial, HV.
Qed.

(* the operations that need no hypothesis at all, on every valid layout *)
Corollary closure_unconditional : forall c, Valid None c ->
  Valid None (expand c) /\
  (forall axis c', num_model axis c = Ok c' -> Valid None c') /\
  (forall axis c', localindex_model axis c = Ok c' -> Valid None c') /\
  (forall ks c', fields_content ks c = Ok c' -> Valid None c') /\
  (forall k what c', Valid None what -> setfield_model k c what = Ok c' -> Valid None c') /\
  (forall asc argsort axis c', sort_model_all asc argsort axis c = Ok c' -> Valid None c') /\
  (forall r axis mask keepdims c', keepdims || negb mask = true -> reduce_model r axis mask keepdims c = Ok c' -> Valid None c') /\
  (forall ix c', carry c ix = Ok c' -> Valid None c') /\
  (forall a b c', crange c a b = Ok c' -> Valid None c').
Proof.
  intros c HV. destruct (closure_all_modelled c HV) as (A1 & A2 & _ & _ & _ & _ & A7 & A8 & _ & _ & _ & _ & A13 & _ & A15 & A16 & _).
  repeat split; auto.
  - apply expand_valid_p, HV.
  - intros r axis mask keepdims c' Hk. apply reduce_preserves_valid_nomask; assumption.
Qed.

(* one layout: union of (nested lists + option + record) and an n-d leaf -- the operations that accept unions; and its
   first alternative -- all operations, inside every fragment at once, with non-error valid results *)
Example closure_all_modelled_ex :
  let a := ListOffset I64 [0; 2; 3]
             (ByteMasked [1; 0; 1] true
                (Record [Regular (Numpy DInt64 [6] [DZ 1; DZ 2; DZ 3; DZ 4; DZ 5; DZ 6]) 2 3;
                         ListOffset I64 [0; 1; 1; 3] (Numpy DInt32 [3] [DZ 7; DZ 8; DZ 9])] (Some [[120]; [121]]) 3)) in
  let u := Union I64 [0; 1; 0] [0; 0; 1] [a; Numpy DInt32 [1; 2; 2] [DZ 1; DZ 2; DZ 3; DZ 4]] in
  let s := ListOffset I64 [0; 2; 3; 3]
             (ListA I64 [0; 3; 5] [3; 5; 6] (IndexedOption I64 [2; -1; 0; 1; 3; -1] (Numpy DInt64 [4] [DZ 5; DZ 1; DZ 9; DZ 4]))) in
  let ok := fun r : res content => match r with Ok c' => valid_b c' | Err _ => false end in
  valid_b a = true /\ valid_b u = true /\ valid_b s = true /\
  ax_frag Qpad a 2 = true /\ ax_frag Qcomb a 2 = true /\ fc_frag [121] false a = true /\ fn_frag a = true /\
  red_frag true false a 2 = true /\ nostr a = true /\ gi_frag a = true /\
  ax_frag Qpad u 2 = true /\ ax_frag Qcomb u 2 = true /\ fn_frag u = true /\
  forallb ok [num_model 2 a; localindex_model 2 a; rpad_model 3 2 a; rpadclip_model 1 2 a; comb_model 2 false 2 a;
              field_content [121] a; fields_content [[121]; [120]] a; fillna_model (Numpy DInt64 [1] [DZ 0]) a; flatten_model 1 a;
              reduce_model RSum 2 true false a; carry a [1; 1; 0]; crange a 1 2;
              getitem_model [IRange None None (Some (-1)); IAt 0; IField [121]] a;
              num_model 2 u; localindex_model 1 u; rpad_model 3 2 u; rpadclip_model 1 2 u; comb_model 2 true 2 u;
              fillna_model (Numpy DInt64 [1] [DZ 0]) u; carry u [2; 2; 1; 0]; crange u 1 3;
              sort_model true false 2 s; sort_axes_model false 1 s; sort_model_all true false 1 s; sort_model_all true true (-1) s;
              setfield_model [122] (Record [a] None 2) a] = true.
Proof. vm_compute. repeat split. Qed.
