(** C17b, Python range slices in the slicing model: [getitem_model [IRange start stop step] c] (array[start:stop:step],
    any bounds, negative steps included) is the gather of Python's index sequence, presented as the single element of
    a one-element list; so EVERY range slice keeps the core type, Form::type with all parameters and the item types. *)
From Coq Require Import ZArith List Bool Lia ZifyBool String.
From AwkV Require Import Base Layout LayoutInd Valid Types Carry AtAxis Ops_Getitem Proofs_Lists Proofs_ToList
                         Proofs_Carry Proofs_CarryValid Proofs_C01 Proofs_C11.
From AwkTypes Require Import Json Forms TypeStr Typing Proofs_Depth Proofs_Types Proofs_Typing Examples_C17
                             Proofs_C17b_Elem Proofs_C17b_ElemRange Proofs_C17b_ElemField.
Import ListNotations.
Open Scope Z_scope.
Ltac Zify.zify_post_hook ::= Z.to_euclidean_division_equations.

Lemma map_add0 l : map (fun j => 0 + j) l = l.
Proof. induction l as [|x l IH]; [reflexivity|]. cbn [map]. rewrite IH. reflexivity. Qed.

Theorem getitem_range_model_thm s e st c :
  getitem_model [IRange s e st] c =
  if stepof st =? 0 then Err EValue else
  if clen c <? 0 then Err EValue else
  do r <- carry c (py_indices (clen c) s e (stepof st));
  Ok (ListOffset I64 [0; zlen (py_indices (clen c) s e (stepof st))] r).
Proof.
  unfold getitem_model. change (items_fuel [IRange s e st]) with (S (S 34)).
  cbn [gn].
  unfold list_bounds.
  destruct (clen c <? 0) eqn:En.
  - cbn [bind]. destruct (stepof st =? 0); reflexivity.
  - assert (Hb : map (fun i => (i * clen c, (i + 1) * clen c)) (iota (if clen c =? 0 then 1 else clen c / clen c)) = [(0, clen c)]).
    { destruct (clen c =? 0) eqn:E0.
      - change (iota 1) with [0]. cbn [map]. do 2 f_equal; lia.
      - rewrite Z.div_same by lia. change (iota 1) with [0]. cbn [map]. do 2 f_equal; lia. }
    rewrite Hb. cbn [bind fst snd map concat]. destruct (stepof st =? 0) eqn:Est; [reflexivity|].
    rewrite Z.sub_0_r, map_add0, app_nil_r.
    destruct (carry c (py_indices (clen c) s e (stepof st))) as [r|err]; cbn [bind]; [|reflexivity].
    cbn [offsets_from]. rewrite Z.add_0_l. reflexivity.
Qed.

(* every Python range slice keeps the type: the result is a one-element list holding the sliced array r, and r has
   the core type, the Form::type with parameters and the item types of c; its length is the number of selected
   positions *)
Theorem getitem_range_model_type_thm s e st c c' :
  getitem_model [IRange s e st] c = Ok c' ->
  exists r, c' = ListOffset I64 [0; zlen (py_indices (clen c) s e (stepof st))] r /\
    carry c (py_indices (clen c) s e (stepof st)) = Ok r /\
    type_of r = type_of c /\
    (forall ts, type_of_form ts (form_of r) = type_of_form ts (form_of c)) /\
    (forall ts, item_types ts (form_of r) = item_types ts (form_of c)) /\
    (reg_nonneg c = true -> clen r = zlen (py_indices (clen c) s e (stepof st))).
Proof.
  rewrite getitem_range_model_thm. destruct (stepof st =? 0); [discriminate|]. destruct (clen c <? 0); [discriminate|].
  intros H. apply bind_Ok in H as (r & Hr & H). inversion H; subst. exists r. split; [reflexivity|]. split; [exact Hr|].
  split; [exact (carry_preserves_type c None _ _ Hr)|].
  split; [intros ts; exact (carry_preserves_rtype_thm ts c _ _ Hr)|].
  split; [intros ts; exact (carry_preserves_item_types_thm ts c _ _ Hr)|].
  intros Hn. exact (carry_len_thm c _ _ Hn Hr).
Qed.

(* on a valid array every range slice with a non-zero step exists (never out of bounds), is valid, and its elements
   are the selected elements, typed by the original item type *)
Theorem getitem_range_model_total_thm s e st c vs :
  Valid None c -> to_list c = Ok vs -> stepof st <> 0 ->
  exists r ws, getitem_model [IRange s e st] c = Ok (ListOffset I64 [0; zlen (py_indices (clen c) s e (stepof st))] r) /\
    Valid None r /\ to_list r = Ok ws /\ mapM (get vs) (py_indices (clen c) s e (stepof st)) = Ok ws /\
    Forall (has_type (type_of c)) ws /\ type_of r = type_of c /\
    (forall ts, type_of_form ts (form_of r) = type_of_form ts (form_of c)).
Proof.
  intros HV Hl Hst. rewrite getitem_range_model_thm.
  destruct (stepof st =? 0) eqn:E; [lia|].
  assert (Hn : 0 <= clen c) by (rewrite <- (to_list_len _ _ Hl); apply zlen_nonneg).
  destruct (clen c <? 0) eqn:E2; [lia|].
  set (ix := py_indices (clen c) s e (stepof st)).
  assert (HF : Forall (fun i => 0 <= i < clen c) ix).
  { apply Forall_forall. intros i Hi. exact (py_indices_in_range (clen c) s e (stepof st) i Hn Hst Hi). }
  destruct (carry_spec c vs ix HV Hl HF) as (r & Hr & Hlr & _). rewrite Hr. cbn [bind].
  pose proof (carry_valid c vs ix r HV Hl HF Hr) as HVr.
  destruct (gather_ok vs ix) as (ws & Hws).
  { rewrite (to_list_len _ _ Hl). exact HF. }
  exists r, ws. split; [reflexivity|]. split; [exact HVr|]. rewrite Hws in Hlr. split; [exact Hlr|]. split; [exact Hws|].
  pose proof (carry_preserves_type c None _ _ Hr) as Ht. fold (type_of r) in Ht. fold (type_of c) in Ht.
  split; [rewrite <- Ht; exact (to_list_typed_thm r ws HVr Hlr)|]. split; [exact Ht|].
  intros ts. exact (carry_preserves_rtype_thm ts c _ _ Hr).
Qed.

(* ---------------------------------------------------------------- examples *)
(* ex_param_layout[::-2]: reversed with step 2; type string with the record name and the string kept *)
Example ex_range_model :
  exists r, getitem_model [IRange None None (Some (-2))] ex_param_layout = Ok (ListOffset I64 [0; 2] r) /\
    to_list r = Ok [VList [VRec [([120], VList [VNum (DZ 5); VNum (DZ 6)]); ([121], VStr true [99])]];
                    VList [VRec [([120], VList [VNum (DZ 1); VNum (DZ 2)]); ([121], VStr true [97; 98])];
                           VRec [([120], VList [VNum (DZ 3); VNum (DZ 4)]); ([121], VStr true [])]]] /\
    rmap type_tostring (type_of_form [(s_string, p_string)] (form_of r)) =
      Ok (bytes_of_string "option[var * Pt[""x"": 2 * int64, ""y"": string]]"%string).
Proof. eexists. split; [vm_compute; reflexivity|]. split; vm_compute; reflexivity. Qed.

Example ex_range_model_empty :
  getitem_model [IRange (Some 2) (Some 2) None] (Numpy DInt64 [3; 2] [DZ 1; DZ 2; DZ 3; DZ 4; DZ 5; DZ 6]) =
    Ok (ListOffset I64 [0; 0] (Numpy DInt64 [0; 2] [])) /\
  getitem_model [IRange None None (Some 0)] (Numpy DInt64 [3; 2] [DZ 1; DZ 2; DZ 3; DZ 4; DZ 5; DZ 6]) = Err EValue.
Proof. split; vm_compute; reflexivity. Qed.

(* ---------------------------------------------------------------- array["k"] / array[["k1", ...]] in the slicing model *)
Theorem getitem_field_model_thm k c :
  getitem_model [IField k] c = rmap (fun x => Regular x (clen c) 1) (field_content k c).
Proof.
  unfold getitem_model. change (items_fuel [IField k]) with (S (S 34)). cbn [gn field_content].
  destruct (field_content k c); reflexivity.
Qed.

Theorem getitem_fields_model_thm ks c :
  getitem_model [IFields ks] c = rmap (fun x => Regular x (clen c) 1) (fields_content ks c).
Proof.
  unfold getitem_model. change (items_fuel [IFields ks]) with (S (S 34)). cbn [gn fields_content].
  destruct (fields_content ks c); reflexivity.
Qed.

Theorem getitem_field_model_type_thm k c c2 :
  getitem_model [IField k] c = Ok c2 ->
  exists c', c2 = Regular c' (clen c) 1 /\ field_content k c = Ok c' /\ proj_ty k (type_of c) = Ok (type_of c') /\
    forall ts t, type_of_form ts (form_of c) = Ok t ->
      exists t', proj_rty k t = Ok t' /\ type_of_form ts (form_of c') = Ok t'.
Proof.
  rewrite getitem_field_model_thm. intros H. apply rmap_Ok in H as (c' & Hc' & ->). exists c'.
  split; [reflexivity|]. split; [exact Hc'|]. split; [exact (field_content_type_thm k c c' Hc')|].
  intros ts t Ht. exact (getitem_field_rtype_thm ts k c c' t Hc' Ht).
Qed.

Theorem getitem_fields_model_type_thm ks c c2 :
  getitem_model [IFields ks] c = Ok c2 ->
  exists c', c2 = Regular c' (clen c) 1 /\ fields_content ks c = Ok c' /\ projs_ty ks (type_of c) = Ok (type_of c').
Proof.
  rewrite getitem_fields_model_thm. intros H. apply rmap_Ok in H as (c' & Hc' & ->). exists c'.
  split; [reflexivity|]. split; [exact Hc'|]. exact (fields_content_type_thm ks c c' Hc').
Qed.

Example ex_field_model :
  (do c2 <- getitem_model [IField [121]] ex_layout; to_list c2) = Ok [VList [VList [VStr true [97; 98]; VNone]; VList []]].
Proof. vm_compute. reflexivity. Qed.
