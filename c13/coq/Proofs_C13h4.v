(** Proofs_C13h4.v -- k_safe for the five awkward_Identities_from_* kernels (models of Kernels2.v).
    Extents: toptr has tolength rows of (fromwidth + 1) cells (fromwidth for Indexed/Union), fromptr has fromlength rows
    of fromwidth cells. *)
From Coq Require Import ZArith List Bool Lia ZifyBool.
From AwkV Require Import Base.
From AwkKernels Require Import Kernels KLemmas Proofs_C13 Proofs_C13b Proofs_C13c Proofs_C13d.
From AwkKernels Require Export Kernels2.
From AwkKernels Require Import Proofs_C13e Proofs_C13f Proofs_C13g Proofs_C13h Proofs_C13h2.
Import ListNotations.
Open Scope Z_scope.

Ltac Zify.zify_post_hook ::= Z.to_euclidean_division_equations.

(** [for k in lo..hi: tp[k] = v] stays inside a buffer of at least [hi] cells *)
Lemma np_fill_const lo hi v (tp : list Z) (L : Z) :
  0 <= lo -> hi <= L -> zlen tp = L ->
  noob_post (kfor lo hi (fun k tp => kupd tp k v) tp) (fun tp' => zlen tp' = L).
Proof.
  intros H0 H1 H2. apply (np_kfor_c _ (fun t => zlen t = L)); auto.
  intros k t Hk Lt. np_auto. now rewrite zlen_set_nth.
Qed.

(** copying row [i] of fromptr (width w) to cells [base .. base + w) of tp *)
Lemma np_copy_row fromptr i w base (tp : list Z) (L : Z) :
  0 <= i -> 0 <= w -> (i + 1) * w <= zlen fromptr -> 0 <= base -> base + w <= L -> zlen tp = L ->
  noob_post (kfor 0 w (fun k tp => let* v := kget fromptr (i * w + k) in kupd tp (base + k) v) tp)
            (fun tp' => zlen tp' = L).
Proof.
  intros H0 H1 H2 H3 H4 H5. apply (np_kfor_c _ (fun t => zlen t = L)); auto.
  intros k t Hk Lt. assert (0 <= i * w + k < zlen fromptr) by nia. np_auto. now rewrite zlen_set_nth.
Qed.

(* ================================================================================================ *)
(** * awkward_Identities_from_RegularArray *)
Theorem Identities_from_RegularArray_safe tID toptr fromptr size tolength fromlength fromwidth :
  0 <= fromlength -> 0 <= size -> 0 <= fromwidth ->
  fromlength * fromwidth <= zlen fromptr ->
  fromlength * size * (fromwidth + 1) <= zlen toptr -> tolength * (fromwidth + 1) <= zlen toptr ->
  Identities_from_RegularArray tID toptr fromptr size tolength fromlength fromwidth <> KOob.
Proof.
  intros H0 H1 H2 H3 H4 H5. unfold Identities_from_RegularArray. cbv zeta. apply (np_noob _ (fun _ => True)).
  set (w1 := fromwidth + 1) in *.
  eapply np_bind.
  - apply (np_kfor_c _ (fun t => zlen t = zlen toptr)); auto. intros i t Hi Lt.
    apply (np_kfor_c _ (fun t => zlen t = zlen toptr)); auto. intros j t' Hj Lt'.
    assert (A1 : i * size + j + 1 <= fromlength * size) by nia.
    assert (A2 : (i * size + j + 1) * w1 <= fromlength * size * w1) by nia.
    assert (A3 : 0 <= (i * size + j) * w1) by nia.
    eapply np_bind.
    + apply (np_kfor_c _ (fun t => zlen t = zlen toptr)); auto. intros k t2 Hk Lt2.
      assert (0 <= i * fromwidth + k < zlen fromptr) by nia.
      assert (0 <= (i * size + j) * w1 + k < zlen toptr) by nia.
      np_auto. now rewrite zlen_set_nth.
    + intros t2 Lt2. cbv beta in Lt2. assert (0 <= (i * size + j) * w1 + fromwidth < zlen toptr) by nia.
      np_auto. now rewrite zlen_set_nth.
  - intros t Lt. cbv beta in Lt. eapply np_weaken; [apply (np_fill_const _ _ _ _ (zlen toptr)); auto; nia|auto].
Qed.

Example Identities_from_RegularArray_example :
  Identities_from_RegularArray (TI 64) [9;9;9;9;9;9;9;9] [5; 6] 2 4 2 1 = KOk [5; 0; 5; 1; 6; 0; 6; 1].
Proof. vm_compute. reflexivity. Qed.

(* ================================================================================================ *)
(** * awkward_Identities_from_ListOffsetArray.
      Extra precondition found: fromoffsets[0] <= tolength (the kernel checks stop <= tolength for non-empty lists only,
      and fills the rows below fromoffsets[0] unconditionally). *)
Theorem Identities_from_ListOffsetArray_safe tID toptr fromptr fromoffsets tolength fromlength fromwidth :
  0 <= fromlength -> 0 <= fromwidth -> fromlength + 1 <= zlen fromoffsets ->
  fromlength * fromwidth <= zlen fromptr -> tolength * (fromwidth + 1) <= zlen toptr ->
  (forall i, 0 <= i <= fromlength -> 0 <= at_ fromoffsets i) -> at_ fromoffsets 0 <= tolength ->
  Identities_from_ListOffsetArray tID toptr fromptr fromoffsets tolength fromlength fromwidth <> XOob.
Proof.
  intros H0 H1 H2 H3 H4 Ho Hg. unfold Identities_from_ListOffsetArray. cbv zeta. apply (xp_noob _ (fun _ => True)).
  set (w1 := fromwidth + 1) in *.
  pose proof (Ho 0) as O0. pose proof (Ho fromlength) as On.
  xp_auto.
  eapply xp_bind_lift; [apply (np_fill_const _ _ _ _ (zlen toptr)); auto; nia|]. intros tp0 L0.
  eapply xp_bind_lift; [apply (np_fill_const _ _ _ _ (zlen toptr)); auto; nia|]. intros tp1 L1.
  eapply xp_weaken; [apply (xp_xfor_c _ (fun t => zlen t = zlen toptr)); auto|auto].
  intros i t Hi Lt. pose proof (Ho i) as Oi. pose proof (Ho (i + 1)) as Oi1. xp_auto.
  apply xp_lift. apply (np_kfor_c _ (fun t => zlen t = zlen toptr)); auto.
  intros j t' Hj Lt'.
  assert (Hs : at_ fromoffsets (i + 1) <= tolength) by lia.
  assert (A2 : (j + 1) * w1 <= tolength * w1) by nia.
  assert (A3 : 0 <= j * w1) by nia.
  eapply np_bind.
  - apply (np_copy_row fromptr i fromwidth (j * w1) t' (zlen toptr)); auto; try lia; nia.
  - intros t2 Lt2. cbv beta in Lt2. assert (0 <= j * w1 + fromwidth < zlen toptr) by nia.
    np_auto. now rewrite zlen_set_nth.
Qed.

Example Identities_from_ListOffsetArray_example :
  Identities_from_ListOffsetArray (TI 64) [9;9;9;9;9;9;9;9] [5; 6] [1; 2; 4] 4 2 1 = XOk [-1; -1; 5; 0; 6; 0; 6; 1].
Proof. vm_compute. reflexivity. Qed.
Example Identities_from_ListOffsetArray_first_offset_refuted :
  Identities_from_ListOffsetArray (TI 64) [9;9] [] [3; 3] 1 1 1 = XOob.
Proof. vm_compute. reflexivity. Qed.

(* ================================================================================================ *)
(** * awkward_Identities_from_ListArray *)
Theorem Identities_from_ListArray_safe tID uniquecontents toptr fromptr fromstarts fromstops tolength fromlength fromwidth :
  0 <= fromwidth -> 1 <= zlen uniquecontents -> fromlength <= zlen fromstarts -> fromlength <= zlen fromstops ->
  fromlength * fromwidth <= zlen fromptr -> tolength * (fromwidth + 1) <= zlen toptr ->
  (forall i, 0 <= i < fromlength -> 0 <= at_ fromstarts i) ->
  Identities_from_ListArray tID uniquecontents toptr fromptr fromstarts fromstops tolength fromlength fromwidth <> XOob.
Proof.
  intros H1 Hu H2 H3 H4 H5 Hs. unfold Identities_from_ListArray. cbv zeta. apply (xp_noob _ (fun _ => True)).
  set (w1 := fromwidth + 1) in *.
  set (Inv := fun st : list Z * list Z * bool => zlen (fst (fst st)) = zlen uniquecontents /\ zlen (snd (fst st)) = zlen toptr).
  eapply xp_bind_lift; [apply (np_fill_const _ _ _ _ (zlen toptr)); auto; lia|]. intros tp0 L0.
  eapply xp_bind.
  - apply (xp_xfor_c _ Inv); [split; auto|].
    intros i [[uc tp] dn] Hi (L1 & L2). cbn [fst snd] in *. red_st. destruct dn; [apply xp_ret; split; auto|].
    specialize (Hs i Hi). xp_auto.
    apply (xp_xfor_c _ Inv); [split; auto|].
    intros j [[uc' tp'] dn'] Hj (L3 & L4). cbn [fst snd] in *. red_st. destruct dn'; [apply xp_ret; split; auto|].
    assert (Hst : at_ fromstops i <= tolength) by lia.
    assert (A2 : (j + 1) * w1 <= tolength * w1) by nia.
    assert (A3 : 0 <= j * w1) by nia.
    assert (0 <= j * w1 + fromwidth < zlen toptr) by nia.
    xp_auto.
    + split; cbn [fst snd]; rewrite ?zlen_set_nth; auto.
    + eapply xp_bind_lift.
      * apply (np_copy_row fromptr i fromwidth (j * w1) tp' (zlen toptr)); auto; try lia; nia.
      * intros t2 Lt2. cbv beta in Lt2. xp_auto. split; cbn [fst snd]; rewrite ?zlen_set_nth; auto.
  - intros [[uc tp] dn] (L1 & L2). cbn [fst snd] in *. red_st. destruct dn; xp_auto; auto.
Qed.

Example Identities_from_ListArray_example :
  Identities_from_ListArray (TI 64) [9] [9;9;9;9;9;9;9;9] [5; 6] [1; 2] [2; 4] 4 2 1
  = XOk ([1], [-1; -1; 5; 0; 6; 0; 6; 1]).
Proof. vm_compute. reflexivity. Qed.

(* ================================================================================================ *)
(** * awkward_Identities_from_IndexedArray / awkward_Identities_from_UnionArray *)
Theorem Identities_from_IndexedArray_safe tID uniquecontents toptr fromptr fromindex tolength fromlength fromwidth :
  1 <= fromwidth -> 1 <= zlen uniquecontents -> fromlength <= zlen fromindex ->
  fromlength * fromwidth <= zlen fromptr -> tolength * fromwidth <= zlen toptr ->
  Identities_from_IndexedArray tID uniquecontents toptr fromptr fromindex tolength fromlength fromwidth <> XOob.
Proof.
  intros H1 Hu H2 H4 H5. unfold Identities_from_IndexedArray. apply (xp_noob _ (fun _ => True)).
  set (Inv := fun st : list Z * list Z * bool => zlen (fst (fst st)) = zlen uniquecontents /\ zlen (snd (fst st)) = zlen toptr).
  eapply xp_bind_lift; [apply (np_fill_const _ _ _ _ (zlen toptr)); auto; lia|]. intros tp0 L0.
  eapply xp_bind.
  - apply (xp_xfor_c _ Inv); [split; auto|].
    intros i [[uc tp] dn] Hi (L1 & L2). cbn [fst snd] in *. red_st. destruct dn; [apply xp_ret; split; auto|].
    xp_step. xp_step. destruct (0 <=? at_ fromindex i) eqn:E0; [|apply xp_ret; split; auto].
    set (j := at_ fromindex i) in *.
    assert (A2 : (j + 1) * fromwidth <= tolength * fromwidth) by nia.
    assert (A3 : 0 <= j * fromwidth) by nia.
    xp_auto.
    + split; cbn [fst snd]; rewrite ?zlen_set_nth; auto.
    + eapply xp_bind_lift.
      * apply (np_copy_row fromptr i fromwidth (j * fromwidth) tp (zlen toptr)); auto; try lia; nia.
      * intros t2 Lt2. cbv beta in Lt2. xp_auto. split; cbn [fst snd]; auto.
  - intros [[uc tp] dn] (L1 & L2). cbn [fst snd] in *. red_st. destruct dn; xp_auto; auto.
Qed.

Example Identities_from_IndexedArray_example :
  Identities_from_IndexedArray (TI 64) [9] [9;9;9] [5; 6; 7] [2; -1; 0] 3 3 1 = XOk ([1], [7; -1; 5]).
Proof. vm_compute. reflexivity. Qed.

Theorem Identities_from_UnionArray_safe tID uniquecontents toptr fromptr fromtags fromindex tolength fromlength fromwidth which :
  1 <= fromwidth -> 1 <= zlen uniquecontents -> fromlength <= zlen fromtags -> fromlength <= zlen fromindex ->
  fromlength * fromwidth <= zlen fromptr -> tolength * fromwidth <= zlen toptr ->
  Identities_from_UnionArray tID uniquecontents toptr fromptr fromtags fromindex tolength fromlength fromwidth which <> XOob.
Proof.
  intros H1 Hu H2 H3 H4 H5. unfold Identities_from_UnionArray. apply (xp_noob _ (fun _ => True)).
  set (Inv := fun st : list Z * list Z * bool => zlen (fst (fst st)) = zlen uniquecontents /\ zlen (snd (fst st)) = zlen toptr).
  eapply xp_bind_lift; [apply (np_fill_const _ _ _ _ (zlen toptr)); auto; lia|]. intros tp0 L0.
  eapply xp_bind.
  - apply (xp_xfor_c _ Inv); [split; auto|].
    intros i [[uc tp] dn] Hi (L1 & L2). cbn [fst snd] in *. red_st. destruct dn; [apply xp_ret; split; auto|].
    xp_step. destruct (at_ fromtags i =? which) eqn:Et; [|apply xp_ret; split; auto].
    xp_step. xp_step. xp_step.
    set (j := at_ fromindex i) in *.
    assert (A2 : (j + 1) * fromwidth <= tolength * fromwidth) by nia.
    assert (A3 : 0 <= j * fromwidth) by nia.
    xp_auto.
    + split; cbn [fst snd]; rewrite ?zlen_set_nth; auto.
    + eapply xp_bind_lift.
      * apply (np_copy_row fromptr i fromwidth (j * fromwidth) tp (zlen toptr)); auto; try lia; nia.
      * intros t2 Lt2. cbv beta in Lt2. xp_auto. split; cbn [fst snd]; auto.
  - intros [[uc tp] dn] (L1 & L2). cbn [fst snd] in *. red_st. destruct dn; xp_auto; auto.
Qed.

Example Identities_from_UnionArray_example :
  Identities_from_UnionArray (TI 64) [9] [9;9] [5; 6; 7] [1; 0; 1] [1; 0; 0] 2 3 1 1 = XOk ([1], [7; 5]).
Proof. vm_compute. reflexivity. Qed.
