// mergedrv: C08 — concatenate / merge / simplify / numbers_to_type of /repo's libawkward on textual cases.
// One case per line on stdin: (id op args... layout...)  ->  (id ok RESULT) | (id err CLASS)
//
//   (id concat MERGE MERGEBOOL l1 l2 ...)     the axis=0 branch of ak.concatenate (see below)
//   (id mergemany l1 l2 ...)                  l1->mergemany({l2,...})
//   (id mergeable MERGEBOOL a b)              a->mergeable(b, mergebool)  -> 1 | 0
//   (id mergeasunion a b)                     a->merge_as_union(b)
//   (id simplify_option c)                    c->simplify_optiontype()   (c must be an option/indexed node)
//   (id simplify_union MERGE MERGEBOOL c)     c->simplify_uniontype(merge, mergebool)  (c must be a union node)
//   (id astype NAME c)                        c->numbers_to_type(NAME)   (what ak.values_astype calls)
#include "drv_common.h"

using namespace drv;

static bool is_union(const ContentPtr& c) {
  return dynamic_cast<UnionArray8_32*>(c.get()) || dynamic_cast<UnionArray8_U32*>(c.get()) ||
         dynamic_cast<UnionArray8_64*>(c.get());
}

static ContentPtr simplify_union(const ContentPtr& c, bool merge, bool mergebool) {
  if (UnionArray8_32* r = dynamic_cast<UnionArray8_32*>(c.get())) return r->simplify_uniontype(merge, mergebool);
  if (UnionArray8_U32* r = dynamic_cast<UnionArray8_U32*>(c.get())) return r->simplify_uniontype(merge, mergebool);
  if (UnionArray8_64* r = dynamic_cast<UnionArray8_64*>(c.get())) return r->simplify_uniontype(merge, mergebool);
  throw std::logic_error("simplify_union: not a union node");
}

static ContentPtr simplify_option(const ContentPtr& c) {
#define SO(T) if (T* r = dynamic_cast<T*>(c.get())) return r->simplify_optiontype();
  SO(IndexedArray32) SO(IndexedArrayU32) SO(IndexedArray64) SO(IndexedOptionArray32) SO(IndexedOptionArray64)
  SO(ByteMaskedArray) SO(BitMaskedArray) SO(UnmaskedArray)
#undef SO
  throw std::logic_error("simplify_option: not an option/indexed node");
}

// Faithful transcription of the `posaxis == 0` branch of ak.concatenate
// (/repo/src/awkward/operations/structure.py):
//
//     batch = [contents[0]]
//     for x in contents[1:]:
//         if batch[-1].mergeable(x, mergebool=mergebool):
//             batch.append(x)
//         else:
//             collapsed = batch[0].mergemany(batch[1:])
//             batch = [collapsed.merge_as_union(x)]
//     out = batch[0].mergemany(batch[1:])
//     if isinstance(out, ak._util.uniontypes):
//         out = out.simplify(merge=merge, mergebool=mergebool)
//
// (`simplify` of a UnionArray is bound to simplify_uniontype(merge, mergebool) in src/python/content.cpp.)
static ContentPtr concat_axis0(const ContentPtrVec& contents, bool merge, bool mergebool) {
  if (contents.empty()) throw std::logic_error("concat: need at least one array");
  ContentPtrVec batch({ contents[0] });
  for (size_t i = 1; i < contents.size(); i++) {
    const ContentPtr& x = contents[i];
    if (batch.back()->mergeable(x, mergebool)) {
      batch.push_back(x);
    }
    else {
      ContentPtr collapsed = batch[0]->mergemany(ContentPtrVec(batch.begin() + 1, batch.end()));
      batch = ContentPtrVec({ collapsed->merge_as_union(x) });
    }
  }
  ContentPtr out = batch[0]->mergemany(ContentPtrVec(batch.begin() + 1, batch.end()));
  if (is_union(out)) out = simplify_union(out, merge, mergebool);
  return out;
}

static std::string handle(const Sx& cs) {
  const std::string op = cs[1].a;
  auto L = [&](size_t i) { return build(cs[i]); };
  if (op == "concat") {
    ContentPtrVec contents;
    for (size_t i = 4; i < cs.size(); i++) contents.push_back(L(i));
    return dump(concat_axis0(contents, to_i64(cs[2]) != 0, to_i64(cs[3]) != 0));
  }
  if (op == "mergemany") {
    ContentPtr first = L(2);
    ContentPtrVec others;
    for (size_t i = 3; i < cs.size(); i++) others.push_back(L(i));
    return dump(first->mergemany(others));
  }
  if (op == "mergeable") return L(3)->mergeable(L(4), to_i64(cs[2]) != 0) ? "1" : "0";
  if (op == "mergeasunion") return dump(L(2)->merge_as_union(L(3)));
  if (op == "simplify_option") return dump(simplify_option(L(2)));
  if (op == "simplify_union") return dump(simplify_union(L(4), to_i64(cs[2]) != 0, to_i64(cs[3]) != 0));
  if (op == "astype") return dump(L(3)->numbers_to_type(cs[2].a));
  throw std::logic_error("unknown op " + op);
}

int main() { return run_cases(handle); }
