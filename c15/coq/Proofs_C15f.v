(** C15 — tojson_value on a wider fragment: the __array__ = "categorical" parameter (which the model's [Valid], like
    frag15, leaves out) is ignored both by to_json and by to_list, on any node.  The induction is the one of
    Proofs_C15.item_spec with one more case.  New file. *)
From Coq Require Import ZArith List Bool Lia ZifyBool.
From AwkV Require Import Base Layout LayoutInd Valid.
From AwkJson Require Import Json Proofs_C15 Proofs_C15b Proofs_C15d Proofs_C15e.
Import ListNotations.
Open Scope Z_scope.

Definition not_par (c : content) : bool := match c with Par _ _ _ => false | _ => true end.

(** frag15 plus: a categorical tag on any node that is not itself a parameter wrapper *)
Fixpoint frag15w (c : content) : bool :=
  match c with
  | Numpy _ _ _ => true
  | Empty => true
  | ListOffset _ _ c' | ListA _ _ _ c' | Regular c' _ _ | Indexed _ _ c' | IndexedOption _ _ c'
  | ByteMasked _ _ c' | BitMasked _ _ _ _ c' | Unmasked c' => frag15w c'
  | Record cs _ _ | Union _ _ _ cs =>
      (fix all (l : list content) : bool := match l with [] => true | x :: xs => frag15w x && all xs end) cs
  | Par None _ c' => frag15w c'
  | Par (Some ACategorical) _ c' => not_par c' && frag15w c'
  | Par (Some k) _ c' => match str_chars k c' with Some d => forallb byte_datum d | None => false end
  end.

Lemma akind_cat_dec (k : akind) : {k = ACategorical} + {k <> ACategorical}.
Proof. destruct k; (left; reflexivity) || (right; discriminate). Qed.

Lemma frag15w_str k rn c : k <> ACategorical ->
  frag15w (Par (Some k) rn c) = match str_chars k c with Some d => forallb byte_datum d | None => false end.
Proof. destruct k; intros H; try reflexivity. congruence. Qed.

Lemma item_cat o c i : not_par c = true -> item o (Some ACategorical) c i = item o None c i.
Proof. destruct c; intros H; try reflexivity. discriminate. Qed.

Lemma fragw_chars c : frag15w c = true -> chars_of None c = None.
Proof.
  induction c as [dt shape data| |w offs c IHc|w ss se c IHc|c size zl IHc|w ix c IHc|w ix c IHc|m vw c IHc
                  |m vw lsb n c IHc|c IHc|w tags ix cs IHcs|cs ks n IHcs|arr rn c IHc] using content_ind';
    intros F; try reflexivity.
  - destruct shape as [|n [|m t]]; reflexivity.
  - cbn [frag15w chars_of] in *. auto.
  - destruct arr as [[| | | |]|]; cbn [chars_of eff].
    + cbn [frag15w] in F. unfold str_chars in F. destruct c; cbn [list_content] in F; try discriminate F; reflexivity.
    + cbn [frag15w] in F. unfold str_chars in F. destruct c; cbn [list_content] in F; try discriminate F; reflexivity.
    + cbn [frag15w] in F. unfold str_chars in F. destruct c; cbn [list_content] in F; try discriminate F; reflexivity.
    + cbn [frag15w] in F. unfold str_chars in F. destruct c; cbn [list_content] in F; try discriminate F; reflexivity.
    + cbn [frag15w] in F. apply andb_true_iff in F. destruct F as [Np F].
      destruct c; try discriminate Np; try reflexivity.
      * destruct shape as [|n [|m t]]; reflexivity.
      * cbn [chars_of]. cbn [frag15w chars_of] in IHc. apply IHc. exact F.
    + cbn [frag15w] in F. auto.
Qed.

Lemma item_spec_w o c : frag15w c = true -> u64ok c = true -> forall vs, to_list c = Ok vs ->
  clen c = zlen vs /\ Forall2 (item_ok o c) (iota (zlen vs)) vs.
Proof.
  induction c as [dt shape data| |w offs c IHc|w ss se c IHc|c size zl IHc|w ix c IHc|w ix c IHc|m vw c IHc
                  |m vw lsb n c IHc|c IHc|w tags ix cs IHcs|cs ks n IHcs|arr rn c IHc] using content_ind';
    intros F U vs T.
  - (* NumpyArray of any rank *)
    destruct shape as [|n dims]; [discriminate T|].
    cbn [to_list] in T. destruct (existsb (fun d => d <? 0) (n :: dims)) eqn:Ex; [discriminate|].
    destruct (zlen data <? prodZ (n :: dims)) eqn:Ed; [discriminate|]. inv_bind T. injection T as <-. rename x into vs.
    assert (Hsh : Forall (fun d => 0 <= d) (n :: dims)).
    { apply Forall_forall. intros d Hd. destruct (d <? 0) eqn:E0; [|lia].
      assert (existsb (fun d => d <? 0) (n :: dims) = true) by (apply existsb_exists; eauto). congruence. }
    inversion Hsh as [|? ? Hn Hdims]; subst. pose proof (prodZ_nonneg dims Hdims) as HP.
    set (N := prodZ (n :: dims)) in *. assert (HN : N = n * prodZ dims) by reflexivity.
    assert (Hfl : zlen (take N data) = n * prodZ dims) by (rewrite take_zlen; nia).
    assert (Hu : dt = DUInt64 -> Forall (fun d => datum_i64 d = true) (take N data)).
    { intros ->. cbn [u64ok] in U. apply Forall_firstn, forallb_Forall_true. exact U. }
    destruct (nest_spec o dt (fun _ _ => or_intror I) dims n (take N data) vs Hdims Hn Hfl Hu E) as (Hz & HF).
    rewrite Hz. split; [reflexivity|].
    eapply Forall2_imp_in; [|exact HF]. cbn beta. intros i v Hi (sub & e & Hs & Hb & Hv).
    apply in_iota in Hi. exists e. split; [|exact Hv].
    cbn [item]. change (is_charp None) with false.
    destruct (slice_inv _ _ _ _ Hs) as (Ha & Hab & Hbn & ->).
    rewrite slice_ok by nia. cbn [bind]. rewrite <- Hb. f_equal.
    unfold take, drop. symmetry. apply take_drop_take. nia.
  - (* Empty *) injection T as <-. split; [reflexivity | constructor].
  - (* ListOffset *)
    cbn [frag15w u64ok] in F, U. pose proof T as T0. cbn [to_list] in T0. inv_bind T0. rename x into vs'.
    destruct (IHc F U _ E) as (Hlen & HF).
    destruct (list_view o (ListOffset w offs c) c vs' vs eq_refl E T Hlen) as (Hl & abs & ls & -> & Hcut & Hit).
    split; [exact Hl|]. apply Forall2_map_r.
    eapply Forall2_idx; [exact Hit | exact Hcut|]. cbn beta. intros i [a b] l Hi Hc. cbn [fst snd] in *.
    destruct (range_items o c vs' a b l (fragw_chars c F) HF Hc) as (e & He & Hv).
    exists e. split; [rewrite Hi; exact He | exact Hv].
  - (* ListArray *)
    cbn [frag15w u64ok] in F, U. pose proof T as T0. cbn [to_list] in T0. inv_bind T0. rename x into vs'.
    destruct (IHc F U _ E) as (Hlen & HF).
    destruct (list_view o (ListA w ss se c) c vs' vs eq_refl E T Hlen) as (Hl & abs & ls & -> & Hcut & Hit).
    split; [exact Hl|]. apply Forall2_map_r.
    eapply Forall2_idx; [exact Hit | exact Hcut|]. cbn beta. intros i [a b] l Hi Hc. cbn [fst snd] in *.
    destruct (range_items o c vs' a b l (fragw_chars c F) HF Hc) as (e & He & Hv).
    exists e. split; [rewrite Hi; exact He | exact Hv].
  - (* RegularArray *)
    cbn [frag15w u64ok] in F, U. pose proof T as T0. cbn [to_list] in T0. inv_bind T0. rename x into vs'.
    destruct (IHc F U _ E) as (Hlen & HF).
    destruct (list_view o (Regular c size zl) c vs' vs eq_refl E T Hlen) as (Hl & abs & ls & -> & Hcut & Hit).
    split; [exact Hl|]. apply Forall2_map_r.
    eapply Forall2_idx; [exact Hit | exact Hcut|]. cbn beta. intros i [a b] l Hi Hc. cbn [fst snd] in *.
    destruct (range_items o c vs' a b l (fragw_chars c F) HF Hc) as (e & He & Hv).
    exists e. split; [rewrite Hi; exact He | exact Hv].
  - (* IndexedArray *)
    cbn [frag15w u64ok] in F, U. cbn [to_list] in T. inv_bind T. rename x into vs'.
    destruct (IHc F U _ E) as (Hlen & HF).
    apply mapM_Forall2 in T. pose proof (Forall2_len _ _ _ T) as Hl.
    assert (Hz : zlen vs = zlen ix) by (unfold zlen; lia). split; [cbn [clen]; lia|]. rewrite Hz.
    eapply Forall2_idx; [apply get_iota | exact T|]. cbn beta. intros i j v G Hv.
    eapply item_ok_lift; [|eapply (Forall2_get _ _ _ _ HF); exact Hv]. cbn [item]. rewrite G. reflexivity.
  - (* IndexedOptionArray *)
    cbn [frag15w u64ok] in F, U. cbn [to_list] in T. inv_bind T. rename x into vs'.
    destruct (IHc F U _ E) as (Hlen & HF).
    apply mapM_Forall2 in T. pose proof (Forall2_len _ _ _ T) as Hl.
    assert (Hz : zlen vs = zlen ix) by (unfold zlen; lia). split; [cbn [clen]; lia|]. rewrite Hz.
    eapply Forall2_idx; [apply get_iota | exact T|]. cbn beta. intros i j v G Hv.
    unfold pick_opt in Hv. destruct (j <? 0) eqn:Ej.
    + replace (0 <=? j) with false in Hv by lia. injection Hv as <-.
      apply item_ok_null. cbn [item]. rewrite G. cbn [bind]. rewrite Ej. reflexivity.
    + replace (0 <=? j) with true in Hv by lia.
      eapply item_ok_lift; [|eapply (Forall2_get _ _ _ _ HF); exact Hv]. cbn [item]. rewrite G. cbn [bind]. rewrite Ej. reflexivity.
  - (* ByteMaskedArray *)
    cbn [frag15w u64ok] in F, U. cbn [to_list] in T. inv_bind T. rename x into vs'.
    destruct (IHc F U _ E) as (Hlen & HF).
    apply mapM_Forall2 in T. pose proof (Forall2_len _ _ _ T) as Hl.
    assert (Hzip : length (zip (iota (zlen m)) m) = length m).
    { rewrite zip_length_le; unfold iota; rewrite iota_nat_length; unfold zlen; lia. }
    assert (Hz : zlen vs = zlen m) by (unfold zlen; lia). split; [cbn [clen]; lia|]. rewrite Hz.
    eapply Forall2_idx; [exact (Forall2_zip_self _ _ _ (get_iota m)) | exact T|]. cbn beta.
    intros i [i' b] v (Ei & G) Hv. cbn [fst snd] in *. subst i'.
    unfold pick_opt in Hv. destruct (Bool.eqb (negb (b =? 0)) vw) eqn:Eb.
    + eapply item_ok_lift; [|eapply (Forall2_get _ _ _ _ HF); exact Hv]. cbn [item]. rewrite G. cbn [bind]. rewrite Eb. reflexivity.
    + injection Hv as <-. apply item_ok_null. cbn [item]. rewrite G. cbn [bind]. rewrite Eb. reflexivity.
  - (* BitMaskedArray *)
    cbn [frag15w u64ok] in F, U. cbn [to_list] in T. inv_bind T. rename x into vs'.
    destruct (IHc F U _ E) as (Hlen & HF).
    destruct (n <? 0) eqn:En; [discriminate|].
    apply mapM_Forall2 in T. pose proof (Forall2_len _ _ _ T) as Hl.
    assert (Hz : zlen vs = n) by (unfold zlen; rewrite <- Hl; unfold iota; rewrite iota_nat_length; lia).
    split; [cbn [clen]; lia|]. rewrite Hz.
    eapply Forall2_imp; [|exact T]. cbn beta. intros i v Hv. inv_bind Hv. rename x into b.
    unfold pick_opt in Hv. destruct (Bool.eqb b vw) eqn:Eb.
    + eapply item_ok_lift; [|eapply (Forall2_get _ _ _ _ HF); exact Hv]. cbn [item]. rewrite E0. cbn [bind]. rewrite Eb. reflexivity.
    + injection Hv as <-. apply item_ok_null. cbn [item]. rewrite E0. cbn [bind]. rewrite Eb. reflexivity.
  - (* UnmaskedArray *)
    cbn [frag15w u64ok] in F, U. cbn [to_list] in T.
    destruct (IHc F U _ T) as (Hlen & HF). split; [exact Hlen|].
    eapply Forall2_imp; [|exact HF]. cbn beta. intros i v H. eapply item_ok_lift; [|exact H]. reflexivity.
  - (* UnionArray *)
    cbn [frag15w u64ok] in F, U. apply frag_all_Forall in F. apply frag_all_Forall in U.
    cbn [to_list] in T. inv_bind T. rename x into vss. apply all_fix_Forall2 in E.
    destruct (zlen ix <? zlen tags) eqn:El; [discriminate|].
    apply mapM_Forall2 in T. pose proof (Forall2_len _ _ _ T) as Hl.
    assert (Hzip : length (zip tags ix) = length tags) by (apply zip_length_le; unfold zlen in El; lia).
    assert (Hz : zlen vs = zlen (zip tags ix)) by (unfold zlen; lia).
    split; [cbn [clen]; unfold zlen in *; lia|]. rewrite Hz.
    eapply Forall2_idx; [apply zip_get | exact T|]. cbn beta.
    intros i [tg j] v (G1 & G2) Hv. cbn [fst snd] in *. inv_bind Hv. rename x into vs0.
    assert (Htg : (tg <? 0) = false) by (unfold get in E0; destruct (tg <? 0); [discriminate | reflexivity]).
    assert (N : nth_error vss (Z.to_nat tg) = Some vs0).
    { unfold get in E0. rewrite Htg in E0. destruct (nth_error vss (Z.to_nat tg)); [congruence | discriminate]. }
    destruct (Forall2_nth_r _ _ _ E _ _ N) as (c0 & Nc & Tc).
    assert (Hc0 : In c0 cs) by (eapply nth_error_In; exact Nc).
    rewrite Forall_forall in F, U, IHcs.
    destruct (IHcs c0 Hc0 (F c0 Hc0) (U c0 Hc0) _ Tc) as (_ & HF0).
    eapply item_ok_lift; [|eapply (Forall2_get _ _ _ _ HF0); exact Hv].
    cbn [item]. rewrite G1, G2. cbn [bind]. rewrite Htg. exact (pick_nth_nth (fun x => item o None x j) cs _ _ Nc).
  - (* RecordArray *)
    cbn [frag15w u64ok] in F, U. apply frag_all_Forall in F. apply frag_all_Forall in U.
    cbn [to_list] in T. inv_bind T. rename x into vss. apply all_fix_Forall2 in E.
    destruct (n <? 0) eqn:En; [discriminate|].
    apply mapM_Forall2 in T. pose proof (Forall2_len _ _ _ T) as Hl.
    assert (Hz : zlen vs = n) by (unfold zlen; rewrite <- Hl; unfold iota; rewrite iota_nat_length; lia).
    split; [cbn [clen]; lia|]. rewrite Hz.
    eapply Forall2_imp; [|exact T]. cbn beta. intros i v Hrow.
    unfold row in Hrow. inv_bind Hrow. rename x into rowv.
    assert (HC : Forall2 (fun c vs0 => forall v0, get vs0 i = Ok v0 -> item_ok o c i v0) cs vss).
    { assert (A3 : Forall (fun c => frag15w c = true /\ u64ok c = true /\
                      (frag15w c = true -> u64ok c = true -> forall vs0, to_list c = Ok vs0 ->
                         clen c = zlen vs0 /\ Forall2 (item_ok o c) (iota (zlen vs0)) vs0)) cs).
      { rewrite Forall_forall in *. intros c Hc. auto. }
      eapply Forall2_imp; [|eapply Forall2_Forall_l; [exact A3 | exact E]]. cbn beta.
      intros c vs0 ((Fc & Uc & IH) & Tc) v0 Hg. destruct (IH Fc Uc _ Tc) as (_ & HF0).
      eapply (Forall2_get _ _ _ _ HF0); exact Hg. }
    pose proof (Forall2_len _ _ _ E) as Lcs.
    pose proof (Forall2_len _ _ _ (proj1 (mapM_Forall2 _ _ _) E0)) as Lrow.
    destruct ks as [k|].
    + destruct (Nat.eqb (length k) (length rowv)) eqn:Ek; [|discriminate]. apply Nat.eqb_eq in Ek.
      injection Hrow as <-.
      assert (Hkl : length k = length cs) by lia.
      destruct (fields_row o i cs vss rowv k HC E0 Hkl) as (body & Hb & Hk).
      exists (ESO :: body ++ [EEO]). split; [cbn [item]; rewrite Hb; reflexivity|].
      cbn [jv]. rewrite zip_map_jv. constructor. exact Hk.
    + injection Hrow as <-.
      destruct (fields_row o i cs vss rowv (tuple_keys (length cs)) HC E0 (tuple_keys_length _)) as (body & Hb & Hk).
      exists (ESO :: body ++ [EEO]). split; [cbn [item]; rewrite Hb; reflexivity|].
      cbn [jv]. replace (length rowv) with (length cs) by lia. constructor. exact Hk.
  - (* parameters *)
    destruct arr as [k|]; [destruct (akind_cat_dec k) as [->|Nk]|].
    + (* __array__ = categorical: ignored by to_json and by to_list *)
      cbn [frag15w u64ok] in F, U. apply andb_true_iff in F. destruct F as [Np F].
      cbn [to_list] in T. inv_bind T. injection T as <-.
      destruct (IHc F U _ E) as (Hlen & HF). split; [exact Hlen|].
      eapply Forall2_imp; [|exact HF]. cbn beta. intros i v H. eapply item_ok_lift; [|exact H].
      cbn [item eff]. apply item_cat. exact Np.
    + (* __array__ = string / bytestring *)
      rewrite (frag15w_str k rn c Nk) in F. destruct (str_chars k c) as [d|] eqn:Es; [|discriminate F].
      destruct (str_chars_inv _ _ _ Es) as (cc & k' & rn' & n & HL & -> & Hk).
      cbn [to_list] in T. inv_bind T. rename x into vsL.
      destruct (list_content_to_list _ _ _ HL E) as (cs & Ecc).
      assert (Ecs : to_list (Numpy DUInt8 [n] d) = Ok cs).
      { cbn [to_list] in Ecc. inv_bind Ecc. destruct Hk as [(_ & ->) | (_ & ->)]; injection Ecc as <-; exact E0. }
      destruct (numpy1_to_list _ _ _ _ Ecs) as (Hn & ->).
      assert (Hlen : clen (Par (Some k') rn' (Numpy DUInt8 [n] d)) = zlen (map (leaf DUInt8) (take n d))).
      { cbn [clen]. rewrite zlen_map, take_zlen by lia. reflexivity. }
      destruct (list_view o c _ _ vsL HL Ecc E Hlen) as (Hl & abs & ls & -> & Hcut & Hit).
      assert (Hd : Forall (fun x => byte_datum x = true) d) by (apply forallb_Forall_true; exact F).
      assert (Hchars : chars_of None (Par (Some k') rn' (Numpy DUInt8 [n] d)) = Some (DUInt8, d)).
      { destruct Hk as [(_ & ->) | (_ & ->)]; reflexivity. }
      assert (TS : exists bb, Forall2 (fun l v => exists zs, bytes_of (VList l) = Ok zs /\ v = VStr bb zs) ls vs).
      { destruct Hk as [(-> & _) | (-> & _)]; eexists; apply mapM_Forall2 in T;
          (apply Forall2_map_l_inv in T; eapply Forall2_imp; [|exact T]); cbn beta; intros l v Hv;
          (destruct (bytes_of (VList l)) as [zs|]; [|discriminate]); cbn [rmap] in Hv; injection Hv as <-; eauto. }
      destruct TS as (bb & TS). pose proof (Forall2_len _ _ _ TS) as Hls.
      rewrite zlen_map in *. assert (Hz : zlen vs = zlen ls) by (unfold zlen; lia).
      split; [cbn [clen]; lia|]. rewrite Hz.
      eapply Forall2_idx; [exact Hit | eapply Forall2_comp; [exact Hcut | exact TS]|]. cbn beta.
      intros i [a b] v Hi (l & Hc & zs & Hb & ->). cbn [fst snd] in *.
      exists [EStr zs]. split; [|cbn [jv]; constructor].
      cbn [item]. rewrite Hi, Hchars. eapply string_item; eassumption.
    + (* __record__ only *)
      cbn [frag15w u64ok] in F, U. cbn [to_list] in T. inv_bind T. injection T as <-.
      destruct (IHc F U _ E) as (Hlen & HF). split; [exact Hlen|].
      eapply Forall2_imp; [|exact HF]. cbn beta. intros i v H. eapply item_ok_lift; [|exact H]. reflexivity.
Qed.

(** (b) on the wider fragment: every node class, __array__ absent, categorical (anywhere) or string / bytestring in
    the shape validityerror accepts *)
Theorem tojson_value_wide_lemma o c vs : frag15w c = true -> u64ok c = true -> to_list c = Ok vs ->
  exists evs, tojson_events o c = Ok evs /\ json_value evs = Ok (VList (map (jv o) vs), []).
Proof.
  intros F U T. destruct (item_spec_w o c F U vs T) as (Hlen & HF).
  unfold tojson_events. rewrite (fragw_chars c F). unfold range_events. rewrite range_0, Hlen.
  destruct (Forall2_build _ (jv o) _ _ HF) as (xs & Hxs & Hvs).
  rewrite Hxs. cbn [bind]. eexists. split; [reflexivity|].
  apply json_value_of. constructor. exact Hvs.
Qed.

(* the new fragment contains the old one *)
Lemma frag15_frag15w c : frag15 c = true -> frag15w c = true.
Proof.
  induction c as [dt shape data| |w offs c IHc|w ss se c IHc|c size zl IHc|w ix c IHc|w ix c IHc|m vw c IHc
                  |m vw lsb n c IHc|c IHc|w tags ix cs IHcs|cs ks n IHcs|arr rn c IHc] using content_ind';
    cbn [frag15 frag15w]; intros F; auto.
  - apply frag_all_Forall in F. apply all_fix_intro. rewrite Forall_forall in *. auto.
  - apply frag_all_Forall in F. apply all_fix_intro. rewrite Forall_forall in *. auto.
  - destruct arr as [[| | | |]|]; auto.
    unfold str_chars in F. destruct (list_content c) as [cc|]; [|discriminate].
    destruct cc; try discriminate. destruct arr as [k'|]; try discriminate.
    destruct cc; try discriminate. destruct dt; try discriminate. destruct shape as [|? [|? ?]]; discriminate.
Qed.

(** the text level on the wider fragment *)
Theorem tojson_text_value_wide_lemma o c vs : frag15w c = true -> u64ok c = true -> text_exact o c = true ->
  to_list c = Ok vs ->
  exists evs, tojson_events o c = Ok evs /\ parse (render evs) = Ok (evs, []) /\
              json_value evs = Ok (VList (map (jv o) vs), []).
Proof.
  intros F U X T. destruct (tojson_value_wide_lemma o c vs F U T) as (evs & E & J).
  exists evs. split; [exact E|]. split; [|exact J].
  apply parse_render_lemma; [eapply events_wellformed_strong; exact E | eapply tojson_printable; eassumption].
Qed.

(* a categorical array of strings inside a record inside an option: in frag15w, not in frag15 (and not [Valid]) *)
Definition ex_categorical : content :=
  ByteMasked [1; 0; 1] true
    (Record [Par (Some ACategorical) None
               (Indexed I64 [1; 0; 1]
                  (Par (Some AString) None
                     (ListOffset I64 [0; 2; 3] (Par (Some AChar) None (Numpy DUInt8 [3] [DZ 104; DZ 105; DZ 33])))));
             Numpy DInt64 [3] [DZ 1; DZ 2; DZ 3]]
            (Some [[99]; [110]]) 3).

Example tojson_value_wide_ex :
  frag15w ex_categorical = true /\ frag15 ex_categorical = false /\ u64ok ex_categorical = true /\
  text_exact ex_opts ex_categorical = true /\
  to_list ex_categorical = Ok [VRec [([99], VStr true [33]); ([110], VNum (DZ 1))]; VNone;
                               VRec [([99], VStr true [33]); ([110], VNum (DZ 3))]] /\
  (do e <- tojson_events ex_opts ex_categorical; json_value e) =
    Ok (VList [VRec [([99], VStr true [33]); ([110], VNum (DZ 1))]; VNone;
               VRec [([99], VStr true [33]); ([110], VNum (DZ 3))]], []).
Proof. vm_compute. repeat split. Qed.

(* ================================================================== the witnesses, in the form stated in Props *)
Theorem fromjson_is_fromiter_dupkeys_refuted_thm :
  exists text d v, do_parse no_opts text = JDocs [d] /\ json_loads d = Ok (v, []) /\ cmds v = d /\
                   py_nodup v = false /\ cmds (py_norm v) <> d.
Proof.
  destruct Proofs_C15d.fromjson_is_fromiter_dupkeys_refuted as (d & v & H1 & H2 & H3 & H4 & _ & H6).
  eexists _, d, v. repeat split; eassumption.
Qed.

Theorem tojson_nonfinite_default_refuted_thm :
  exists o c evs, frag15 c = true /\ u64ok c = true /\ text_exact o c = false /\
                  tojson_events o c = Ok evs /\ parse (render evs) = Err EValue.
Proof.
  destruct Proofs_C15e.tojson_nonfinite_default_refuted as (H1 & H2 & H3 & H4 & H5 & H6).
  eexists _, _, _. split; [exact H1|]. split; [exact H2|]. split; [exact H3|]. split; [exact H4|].
  rewrite H5. exact H6.
Qed.

Theorem tojson_value_char_outside_string_refuted_thm :
  exists c vs v, frag15w c = false /\ to_list c = Ok vs /\
                 (do e <- tojson_events ex_opts c; json_value e) = Ok (v, []) /\ v <> VList (map (jv ex_opts) vs).
Proof.
  eexists (Par (Some AChar) None (Numpy DUInt8 [2] [DZ 104; DZ 105])), _, _.
  split; [reflexivity|]. split; [vm_compute; reflexivity|]. split; [vm_compute; reflexivity | discriminate].
Qed.

Theorem tojson_value_string_untagged_refuted_thm :
  exists c vs v, frag15w c = false /\ to_list c = Ok vs /\
                 (do e <- tojson_events ex_opts c; json_value e) = Ok (v, []) /\ v <> VList (map (jv ex_opts) vs).
Proof.
  eexists (Par (Some AString) None (ListOffset I64 [0; 2] (Numpy DUInt8 [2] [DZ 104; DZ 105]))), _, _.
  split; [reflexivity|]. split; [vm_compute; reflexivity|]. split; [vm_compute; reflexivity | discriminate].
Qed.

Theorem tojson_value_char_nd_refuted_thm :
  exists c vs v, frag15w c = false /\ to_list c = Ok vs /\
                 (do e <- tojson_events ex_opts c; json_value e) = Ok (v, []) /\ v <> VList (map (jv ex_opts) vs).
Proof.
  eexists (ListOffset I64 [0; 2] (Par (Some AChar) None (Numpy DUInt8 [2; 2] [DZ 97; DZ 98; DZ 99; DZ 100]))), _, _.
  split; [reflexivity|]. split; [vm_compute; reflexivity|]. split; [vm_compute; reflexivity | discriminate].
Qed.
