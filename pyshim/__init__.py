# pyshim: a Python substitute for awkward._ext (awkward-1.0 @ 1.4.0) backed by the real libawkward
# through the long-lived driver /verif/.build/std/pydrv.  See README.md.
