(** C08 model: concatenate / merge / simplify / numbers_to_type.
    MODEL ONLY (no proofs).  Follows /repo/src/libawkward (Content.cpp, array/*.cpp) per node class and
    the axis=0 branch of ak.concatenate (src/awkward/operations/structure.py). *)
From AwkV Require Export Carry AtAxis.

(* ================================================================ dtypes *)
Definition dt_idx (d : dtype) : Z :=
  match d with
  | DBool => 0 | DInt8 => 1 | DInt16 => 2 | DInt32 => 3 | DInt64 => 4
  | DUInt8 => 5 | DUInt16 => 6 | DUInt32 => 7 | DUInt64 => 8 | DFloat32 => 9 | DFloat64 => 10
  end.
Definition dt_eqb (a b : dtype) : bool := dt_idx a =? dt_idx b.

(* util::is_signed *)
Definition is_signed (d : dtype) : bool :=
  match d with DInt8 | DInt16 | DInt32 | DInt64 => true | _ => false end.
Definition in4 (d : dtype) : bool :=      (* uint64 / int64 / uint32 / int32 *)
  match d with DUInt64 | DInt64 | DUInt32 | DInt32 => true | _ => false end.

(* NumpyArray::mergemany, the "handle booleans and numbers" if-chain, restricted to the 11 modelled
   dtypes (float16/float128/complex/datetime branches cannot fire).  [n] = nextdtype, [t] = thatdtype. *)
Definition promote (n t : dtype) : dtype :=
  let is := dt_eqb in
  if is n DFloat64 || is t DFloat64 then DFloat64
  else if (is n DFloat32 && in4 t) || (is t DFloat32 && in4 n) then DFloat64
  else if is n DFloat32 || is t DFloat32 then DFloat32
  else if (is n DUInt64 && is_signed t) || (is t DUInt64 && is_signed n) then DFloat64
  else if is n DUInt64 || is t DUInt64 then DUInt64
  else if is n DInt64 || is t DInt64 then DInt64
  else if (is n DUInt32 && is_signed t) || (is t DUInt32 && is_signed n) then DInt64
  else if is n DUInt32 || is t DUInt32 then DUInt32
  else if is n DInt32 || is t DInt32 then DInt32
  else if (is n DUInt16 && is_signed t) || (is t DUInt16 && is_signed n) then DInt32
  else if is n DUInt16 || is t DUInt16 then DUInt16
  else if is n DInt16 || is t DInt16 then DInt16
  else if (is n DUInt8 && is_signed t) || (is t DUInt8 && is_signed n) then DInt16
  else if is n DUInt8 || is t DUInt8 then DUInt8
  else if is n DInt8 || is t DInt8 then DInt8
  else if is n DBool && is t DBool then DBool
  else n.

(* NumPy's promotion (numpy.result_type / what numpy.concatenate uses) for the same 11 dtypes, written
   from NumPy's rules: by kind (b < u,i < f) and item size. *)
Inductive nkind := KB | KI | KU | KF.
Definition kind_of (d : dtype) : nkind :=
  match d with
  | DBool => KB
  | DInt8 | DInt16 | DInt32 | DInt64 => KI
  | DUInt8 | DUInt16 | DUInt32 | DUInt64 => KU
  | DFloat32 | DFloat64 => KF
  end.
Definition bits_of (d : dtype) : Z :=
  match d with
  | DBool => 8
  | DInt8 | DUInt8 => 8 | DInt16 | DUInt16 => 16 | DInt32 | DUInt32 | DFloat32 => 32
  | DInt64 | DUInt64 | DFloat64 => 64
  end.
Definition sint (bits : Z) : dtype :=
  if bits <=? 8 then DInt8 else if bits <=? 16 then DInt16 else if bits <=? 32 then DInt32 else DInt64.
Definition uint (bits : Z) : dtype :=
  if bits <=? 8 then DUInt8 else if bits <=? 16 then DUInt16 else if bits <=? 32 then DUInt32 else DUInt64.
Definition flt (bits : Z) : dtype := if bits <=? 32 then DFloat32 else DFloat64.
(* smallest signed integer holding both a signed of [s] bits and an unsigned of [u] bits; float64 when none *)
Definition mix_su (s u : Z) : dtype :=
  if u <? s then sint s else if 64 <=? u then DFloat64 else sint (2 * u).
(* smallest float holding an integer of [i] bits exactly enough for NumPy: 8/16 -> float32, 32/64 -> float64 *)
Definition flt_for_int (i : Z) : Z := if i <=? 16 then 32 else 64.
Definition numpy_promote (a b : dtype) : dtype :=
  match kind_of a, kind_of b with
  | KB, _ => b
  | _, KB => a
  | KI, KI => sint (Z.max (bits_of a) (bits_of b))
  | KU, KU => uint (Z.max (bits_of a) (bits_of b))
  | KI, KU => mix_su (bits_of a) (bits_of b)
  | KU, KI => mix_su (bits_of b) (bits_of a)
  | KF, KF => flt (Z.max (bits_of a) (bits_of b))
  | KF, _ => flt (Z.max (bits_of a) (flt_for_int (bits_of b)))
  | _, KF => flt (Z.max (bits_of b) (flt_for_int (bits_of a)))
  end.

(* the per-target lists of accepted source dtypes in the fill switch of NumpyArray::mergemany *)
Definition fill_ok (src dst : dtype) : bool :=
  match dst with
  | DBool => match src with DBool => true | _ => false end
  | DInt8 => match src with DBool | DInt8 => true | _ => false end
  | DInt16 => match src with DBool | DInt8 | DInt16 | DUInt8 => true | _ => false end
  | DInt32 => match src with DBool | DInt8 | DInt16 | DInt32 | DUInt8 | DUInt16 => true | _ => false end
  | DInt64 => match src with DBool | DInt8 | DInt16 | DInt32 | DInt64 | DUInt8 | DUInt16 | DUInt32 => true | _ => false end
  | DUInt8 => match src with DBool | DUInt8 => true | _ => false end
  | DUInt16 => match src with DBool | DUInt8 | DUInt16 => true | _ => false end
  | DUInt32 => match src with DBool | DUInt8 | DUInt16 | DUInt32 => true | _ => false end
  | DUInt64 => match src with DBool | DUInt8 | DUInt16 | DUInt32 | DUInt64 => true | _ => false end
  | DFloat32 => match src with DBool | DInt8 | DInt16 | DUInt8 | DUInt16 | DFloat32 => true | _ => false end
  | DFloat64 => true
  end.

(* a stored boolean is 0/1; every widening accepted by [fill_ok] is exact on the integers the model
   carries, so the only visible cast is bool -> number *)
Definition bool_datum (d : datum) : datum :=
  match d with DZ z => DZ (if z =? 0 then 0 else 1) | _ => DZ 1 end.
Definition fill_datum (src : dtype) (d : datum) : datum :=
  match src with DBool => bool_datum d | _ => d end.

(* ================================================================ parameters (__array__, __record__) *)
Definition pars := (option akind * option name)%type.
Definition nopar : pars := (None, None).
Definition akind_eqb (a b : akind) : bool :=
  match a, b with
  | AString, AString | ABytestring, ABytestring | AChar, AChar | AByte, AByte | ACategorical, ACategorical => true
  | _, _ => false
  end.
Definition nm_eqb (a b : name) : bool := list_eqb Z.eqb a b.
(* util::parameters_equal(check_all = false) *)
Definition pars_eqb (p q : pars) : bool :=
  opt_eqb akind_eqb (fst p) (fst q) && opt_eqb nm_eqb (snd p) (snd q).
(* util::merge_parameters: a key survives iff the other side has an equal value *)
Definition merge_pars (p q : pars) : pars :=
  ((if opt_eqb akind_eqb (fst p) (fst q) then fst p else None),
   (if opt_eqb nm_eqb (snd p) (snd q) then snd p else None)).
Definition params (c : content) : pars := match c with Par a r _ => (a, r) | _ => nopar end.
Definition body (c : content) : content := match c with Par _ _ c' => c' | _ => c end.
Definition mkpar (p : pars) (c : content) : content :=
  match p with (None, None) => c | (a, r) => Par a r c end.
Definition is_chars_par (p : pars) : bool :=
  match fst p with Some AChar | Some AByte => true | _ => false end.

Definition is_ixopt (c : content) : bool :=
  match body c with
  | Indexed _ _ _ | IndexedOption _ _ _ | ByteMasked _ _ _ | BitMasked _ _ _ _ _ | Unmasked _ => true
  | _ => false
  end.
Definition is_union (c : content) : bool := match body c with Union _ _ _ _ => true | _ => false end.

(* ================================================================ mergeable *)
(* sorted key lists are compared (std::sort on std::string = bytewise lexicographic) *)
Fixpoint name_ltb (a b : name) : bool :=
  match a, b with
  | [], [] => false
  | [], _ :: _ => true
  | _ :: _, [] => false
  | x :: xs, y :: ys => if x <? y then true else if y <? x then false else name_ltb xs ys
  end.
Fixpoint insert_name (k : name) (l : list name) : list name :=
  match l with
  | [] => [k]
  | x :: xs => if name_ltb k x then k :: l else x :: insert_name k xs
  end.
Definition sort_names (l : list name) : list name := fold_right insert_name [] l.
Definition same_keys (ks ks' : list name) : bool := list_eqb nm_eqb (sort_names ks) (sort_names ks').

(* RecordArray::field(key): first field with that name *)
Fixpoint find_field (k : name) (ks : list name) (cs : list content) : option content :=
  match ks, cs with
  | k' :: ks', c :: cs' => if nm_eqb k k' then Some c else find_field k ks' cs'
  | _, _ => None
  end.

(* what a non-indexed class does with [other] before looking at its own class: parameter check, then
   EmptyArray / UnionArray => true, indexed / option node => retry with its content *)
Inductive peeled := PFalse | PTrue | PNode (b : content).
Fixpoint peel (pa pb : pars) (b : content) {struct b} : peeled :=
  match b with
  | Par x r b' => match pb with (None, None) => peel pa (x, r) b' | _ => PFalse end
  | Empty | Union _ _ _ _ => if pars_eqb pa pb then PTrue else PFalse
  | Indexed _ _ b' | IndexedOption _ _ b' | ByteMasked _ _ b' | BitMasked _ _ _ _ b' | Unmasked b' =>
      if pars_eqb pa pb then peel pa nopar b' else PFalse
  | _ => if pars_eqb pa pb then PNode b else PFalse
  end.

Definition numpy_mergeable (mb : bool) (dt : dtype) (sh : list Z) (b : content) : bool :=
  match sh with
  | [] => false
  | _ :: dims =>
      match b with
      | Numpy dt' sh' _ =>
          Nat.eqb (length sh) (length sh') &&
          negb (negb mb && negb (dt_eqb dt dt') && (dt_eqb dt DBool || dt_eqb dt' DBool)) &&
          list_eqb Z.eqb dims (tl sh')
      | _ => false
      end
  end.

Fixpoint mg (mb : bool) (pa : pars) (a : content) {struct a} : content -> bool :=
  match a with
  | Par x r a' => match pa with (None, None) => mg mb (x, r) a' | _ => fun _ => false end
  | Empty | Union _ _ _ _ => fun b => pars_eqb pa (params b)
  | Numpy dt sh _ => fun b =>
      match peel pa nopar b with
      | PFalse => false | PTrue => true
      | PNode b' => numpy_mergeable mb dt sh b'
      end
  | ListOffset _ _ ca | ListA _ _ _ ca | Regular ca _ _ => fun b =>
      match peel pa nopar b with
      | PFalse => false | PTrue => true
      | PNode b' =>
          match b' with
          | ListOffset _ _ cb | ListA _ _ _ cb | Regular cb _ _ => mg mb nopar ca cb
          | _ => false
          end
      end
  | Record cs ks _ => fun b =>
      match peel pa nopar b with
      | PFalse => false | PTrue => true
      | PNode b' =>
          match b' with
          | Record cs' ks' _ =>
              match ks, ks' with
              | None, None =>
                  (fix go (l l' : list content) : bool :=
                     match l, l' with
                     | [], [] => true
                     | x :: xs, y :: ys => mg mb nopar x y && go xs ys
                     | _, _ => false
                     end) cs cs'
              | Some k, Some k' =>
                  same_keys k k' &&
                  (fix go (l : list content) (kl : list name) : bool :=
                     match l, kl with
                     | [], _ => true
                     | x :: xs, kx :: kr =>
                         match find_field kx k' cs' with
                         | Some y => mg mb nopar x y && go xs kr
                         | None => false
                         end
                     | _ :: _, [] => false
                     end) cs k
              | _, _ => false
              end
          | _ => false
          end
      end
  | Indexed _ _ ca | IndexedOption _ _ ca | ByteMasked _ _ ca | BitMasked _ _ _ _ ca | Unmasked ca => fun b =>
      if negb (pars_eqb pa (params b)) then false else
      match body b with
      | Empty | Union _ _ _ _ => true
      | Indexed _ _ cb | IndexedOption _ _ cb | ByteMasked _ _ cb | BitMasked _ _ _ _ cb | Unmasked cb =>
          mg mb nopar ca cb
      | _ => mg mb nopar ca b
      end
  end.
Definition mergeable (mb : bool) (a b : content) : bool := mg mb nopar a b.

(* ================================================================ mergemany *)
Definition zeros (n : Z) : list Z := map (fun _ => 0) (iota n).
Definition consts (v n : Z) : list Z := map (fun _ => v) (iota n).
(* awkward_IndexedArray_fill: negative stays "missing" (-1), others are shifted by [base] *)
Definition shift_ix (base : Z) (ix : list Z) : list Z := map (fun i => if i <? 0 then -1 else i + base) ix.

(* Content::merging_strategy: head = others up to (not including) the first [stop] element *)
Fixpoint split_head (stop : content -> bool) (others : list content) : list content * list content :=
  match others with
  | [] => ([], [])
  | x :: xs => if stop x then ([], others) else let (h, t) := split_head stop xs in (x :: h, t)
  end.

(* index + content of an indexed / option node (ByteMasked, BitMasked, Unmasked go through
   toIndexedOptionArray64); the flag says "is an option type" *)
Definition ix_parts (b : content) : res (bool * list Z * content) :=
  match b with
  | Indexed _ ix c => Ok (false, ix, c)
  | IndexedOption _ _ _ | ByteMasked _ _ _ | BitMasked _ _ _ _ _ | Unmasked _ =>
      do oi <- option_index b; Ok (true, fst oi, snd oi)
  | _ => Err EValue
  end.

(* carry(index, allow_lazy = true): only RecordArray is lazy (wraps itself in an IndexedArray64) *)
Definition lazy_carry (c : content) (ix : list Z) : res content :=
  match body c with
  | Record _ _ _ => Ok (Indexed I64 ix c)
  | _ => carry c ix
  end.

(* getitem_range_nowrap(0, n) per class (used by RecordArray::mergemany to trim its fields) *)
Fixpoint trim (n : Z) (c : content) {struct c} : res content :=
  match c with
  | Numpy dt sh data => match sh with [] => Err EValue | _ :: dims => Ok (Numpy dt (n :: dims) data) end
  | Empty => Ok Empty
  | ListOffset w o c' => do o' <- slice o 0 (n + 1); Ok (ListOffset w o' c')
  | ListA w s e c' => do s' <- slice s 0 n; do e' <- slice e 0 n; Ok (ListA w s' e' c')
  | Regular c' size zl => do c'' <- trim (n * size) c'; Ok (Regular c'' size n)
  | Indexed w ix c' => do ix' <- slice ix 0 n; Ok (Indexed w ix' c')
  | IndexedOption w ix c' => do ix' <- slice ix 0 n; Ok (IndexedOption w ix' c')
  | ByteMasked m vw c' => do m' <- slice m 0 n; do c'' <- trim n c'; Ok (ByteMasked m' vw c'')
  | BitMasked m vw lsb len c' =>
      do bm <- bytemask_of_bits m lsb len;
      (* toByteMaskedArray keeps the raw bit (no flip) and valid_when *)
      do m' <- slice bm 0 n; do c'' <- trim n c'; Ok (ByteMasked m' vw c'')
  | Unmasked c' => do c'' <- trim n c'; Ok (Unmasked c'')
  | Union w t ix cs => do t' <- slice t 0 n; do ix' <- slice ix 0 n; Ok (Union w t' ix' cs)
  | Record cs ks len =>
      match cs with
      | [] => Ok (Record [] ks n)
      | _ =>
          if n =? len then Ok c else
          do cs' <- (fix all (l : list content) : res (list content) :=
                       match l with
                       | [] => Ok []
                       | x :: xs => do y <- trim n x; do ys <- all xs; Ok (y :: ys)
                       end) cs;
          Ok (Record cs' ks n)
      end
  | Par a r c' => do c'' <- trim n c'; Ok (Par a r c'')
  end.

Section MergeMany.
  (* the recursive call [mergemany] on a non-empty list self :: others (one fuel unit less) *)
  Variable rec : list content -> res content.

  (* X::reverse_merge(other): [t] is the first element of the tail, [other] the merged head *)
  Definition reverse_merge (t other : content) : res content :=
    let tl_ := clen other in
    match body t with
    | Union _ tags index contents =>
        do ix <- slice index 0 (zlen tags);
        if 127 <? zlen contents + 1 then Err EValue else
        Ok (mkpar (merge_pars (params t) (params other))
              (Union I64 (zeros tl_ ++ map (fun g => g + 1) tags) (iota tl_ ++ ix) (other :: contents)))
    | Indexed _ _ _ | IndexedOption _ _ _ | ByteMasked _ _ _ | BitMasked _ _ _ _ _ | Unmasked _ =>
        do p <- ix_parts (body t);
        let '(isopt, ix, c) := p in
        do content <- rec [other; c];
        let index := iota tl_ ++ shift_ix tl_ ix in
        Ok (mkpar (merge_pars (params t) (params other))
              (if isopt : bool then IndexedOption I64 index content else Indexed I64 index content))
    | _ => Err EValue
    end.

  Definition finish (next : content) (tail : list content) : res content :=
    match tail with
    | [] => Ok next
    | t :: rest =>
        do r <- reverse_merge t next;
        match rest with [] => Ok r | _ => rec (r :: rest) end
    end.

  Definition stop_basic (x : content) : bool := is_ixopt x || is_union x.

  (* ---- NumpyArray::mergemany ---- *)
  Definition np_part (x : content) : res (list (pars * dtype * list Z * list datum)) :=
    match body x with
    | Numpy dt sh data => Ok [(params x, dt, sh, data)]
    | Empty => Ok []
    | _ => Err EValue
    end.

  Definition mm_numpy (a : content) (dt : dtype) (sh : list Z) (others : list content) : res content :=
    match sh with
    | [] => Err EValue                                      (* "cannot merge a scalar" *)
    | _ :: dims =>
        let (head, tail) := split_head stop_basic others in
        do parts <- mapM np_part (a :: head);
        let arrs := concat parts in
        let ps := fold_left (fun acc (x : pars * dtype * list Z * list datum) =>
                               let '(p, _, _, _) := x in merge_pars acc p) arrs (params a) in
        if is_chars_par (params a) then
          (* strings: bytes copied as they are, result is a 1-d uint8 array *)
          do datas <- mapM (fun x : pars * dtype * list Z * list datum =>
                              let '(_, _, sh', d) := x in slice d 0 (hd 0 sh')) arrs;
          let data := concat datas in
          finish (mkpar ps (Numpy DUInt8 [zlen data] data)) tail
        else
          let ndt := fold_left (fun acc (x : pars * dtype * list Z * list datum) =>
                                  let '(_, d, _, _) := x in promote acc d) arrs dt in
          do datas <- mapM (fun x : pars * dtype * list Z * list datum =>
                              let '(_, d, sh', dat) := x in
                              if negb (Nat.eqb (length sh) (length sh')) then Err EValue else
                              if negb (list_eqb Z.eqb dims (tl sh')) then Err EValue else
                              if negb (fill_ok d ndt) then Err EValue else
                              do dd <- slice dat 0 (prodZ sh');
                              Ok (map (fill_datum d) dd)) arrs;
          let total := sumZ (map (fun x : pars * dtype * list Z * list datum =>
                                    let '(_, _, sh', _) := x in hd 0 sh') arrs) in
          finish (mkpar ps (Numpy ndt (total :: dims) (concat datas))) tail
    end.

  (* ---- ListArray / ListOffsetArray / RegularArray :: mergemany ---- *)
  (* starts, stops, content of a list node as ListArray_fill sees it *)
  Definition list_parts (x : content) : res (list (pars * list Z * list Z * content)) :=
    match body x with
    | ListOffset _ o c => match o with [] => Err EValue | _ => Ok [(params x, removelast o, tl o, c)] end
    | ListA _ s e c => do e' <- slice e 0 (zlen s); Ok [(params x, s, e', c)]
    | Regular c size zl =>
        if size <? 0 then Err EValue else
        let n := (if size =? 0 then zl else clen c / size) in
        Ok [(params x, map (fun i => i * size) (iota n), map (fun i => (i + 1) * size) (iota n), c)]
    | Empty => Ok []
    | _ => Err EValue
    end.

  Fixpoint fill_lists (base : Z) (l : list (pars * list Z * list Z * content)) : list Z * list Z :=
    match l with
    | [] => ([], [])
    | (_, s, e, c) :: rest =>
        let (ss, es) := fill_lists (base + clen c) rest in
        (map (fun x => x + base) s ++ ss, map (fun x => x + base) e ++ es)
    end.

  (* RegularArray self with size 1 goes through broadcast_tooffsets64's carry (lazy) of its content *)
  Definition self_list (a : content) : res content :=
    match body a with
    | Regular c size zl =>
        if size =? 1 then
          do c' <- lazy_carry c (iota (clen c)); Ok (mkpar (params a) (Regular c' size zl))
        else Ok a
    | _ => Ok a
    end.

  Definition mm_list (a : content) (others : list content) : res content :=
    let (head, tail) := split_head stop_basic others in
    do a' <- self_list a;
    do parts <- mapM list_parts (a' :: head);
    let ls := concat parts in
    let ps := fold_left (fun acc (x : pars * list Z * list Z * content) =>
                           let '(p, _, _, _) := x in merge_pars acc p) ls (params a) in
    do nextcontent <- rec (map (fun x : pars * list Z * list Z * content => let '(_, _, _, c) := x in c) ls);
    let (ss, es) := fill_lists 0 ls in
    finish (mkpar ps (ListA I64 ss es nextcontent)) tail.

  (* ---- IndexedArray / IndexedOptionArray / masked :: mergemany ---- *)
  (* per head element: (is indexed-option?, index part, content pushed, content length used as base) *)
  Definition ix_part (x : content) : res (list (bool * (Z -> list Z) * content)) :=
    match body x with
    | Indexed _ _ _ | IndexedOption _ _ _ | ByteMasked _ _ _ | BitMasked _ _ _ _ _ | Unmasked _ =>
        do p <- ix_parts (body x);
        let '(isopt, ix, c) := p in Ok [(isopt, fun base => shift_ix base ix, c)]
    | Empty => Ok []
    | _ => Ok [(false, fun base => map (fun i => i + base) (iota (clen x)), x)]
    end.
  Fixpoint fill_index (base : Z) (l : list (bool * (Z -> list Z) * content)) : list Z :=
    match l with
    | [] => []
    | (_, f, c) :: rest => f base ++ fill_index (base + clen c) rest
    end.

  Definition mm_indexed (a : content) (others : list content) : res content :=
    let (head, tail) := split_head is_union others in
    do parts <- mapM ix_part (a :: head);
    let ls := concat parts in
    let ps := fold_left (fun acc x => merge_pars acc (params x)) (a :: head) (params a) in
    let isopt := existsb (fun x : bool * (Z -> list Z) * content => let '(o, _, _) := x in o) ls in
    do nextcontent <- rec (map (fun x : bool * (Z -> list Z) * content => let '(_, _, c) := x in c) ls);
    let index := fill_index 0 ls in
    finish (mkpar ps (if isopt then IndexedOption I64 index nextcontent else Indexed I64 index nextcontent)) tail.

  (* ---- RecordArray::mergemany ---- *)
  (* column [i] (key [k] when named) of one head element, trimmed to that record's length *)
  Definition rec_column (tuple : bool) (nf : nat) (myks : list name) (i : nat) (k : name) (x : content)
    : res (list content) :=
    match body x with
    | Record cs ks len =>
        match tuple, ks with
        | true, None =>
            if negb (Nat.eqb (length cs) nf) then Err EValue else
            match nth_error cs i with Some f => do t <- trim len f; Ok [t] | None => Err EValue end
        | false, Some ks' =>
            if negb (same_keys myks ks') then Err EValue else
            match find_field k ks' cs with Some f => do t <- trim len f; Ok [t] | None => Err EValue end
        | _, _ => Err EValue
        end
    | Empty => Ok []
    | _ => Err EValue
    end.

  Definition mm_record (a : content) (cs : list content) (ks : option (list name)) (n : Z)
             (others : list content) : res content :=
    let (head, tail) := split_head stop_basic others in
    let tuple := match ks with None => true | Some _ => false end in
    let myks := match ks with Some k => k | None => [] end in
    (* every head element must be a compatible record (checked even when there are no fields) *)
    do _ <- mapM (fun x => match body x with
                           | Record cs' ks' _ =>
                               match tuple, ks' with
                               | true, None => if Nat.eqb (length cs') (length cs) then Ok tt else Err EValue
                               | false, Some k' => if same_keys myks k' then Ok tt else Err EValue
                               | _, _ => Err EValue
                               end
                           | Empty => Ok tt
                           | _ => Err EValue
                           end) head;
    do merged <- (fix cols (i : nat) (l : list content) (kl : list name) {struct l} : res (list content) :=
                    match l with
                    | [] => Ok []
                    | f :: fs =>
                        let k := hd [] kl in
                        do t0 <- trim n f;
                        do rest <- mapM (rec_column tuple (length cs) myks i k) head;
                        do m <- rec (t0 :: concat rest);
                        do ms <- cols (S i) fs (tl kl);
                        Ok (m :: ms)
                    end) O cs myks;
    let minlength :=
      match merged with
      | [] => n + sumZ (map clen head)
      | m :: ms => fold_left (fun acc x => Z.min acc (clen x)) ms (clen m)
      end in
    let ps := if tuple then fold_left (fun acc x => merge_pars acc (params x)) head (params a) else params a in
    finish (mkpar ps (Record merged ks minlength)) tail.

  (* ---- UnionArray::mergemany ---- *)
  Fixpoint fill_union (ncont : Z) (l : list content) : res (list Z * list Z * list content) :=
    match l with
    | [] => Ok ([], [], [])
    | x :: rest =>
        match body x with
        | Union _ tags index contents =>
            do ix <- slice index 0 (zlen tags);
            do r <- fill_union (ncont + zlen contents) rest;
            let '(ts, is_, cs) := r in
            Ok (map (fun g => g + ncont) tags ++ ts, ix ++ is_, contents ++ cs)
        | Empty => fill_union ncont rest
        | _ =>
            do r <- fill_union (ncont + 1) rest;
            let '(ts, is_, cs) := r in
            Ok (consts ncont (clen x) ++ ts, iota (clen x) ++ is_, x :: cs)
        end
    end.

  Definition mm_union (a : content) (others : list content) : res content :=
    let ps := fold_left (fun acc x => merge_pars acc (params x)) (a :: others) (params a) in
    do r <- fill_union 0 (a :: others);
    let '(ts, is_, cs) := r in
    if 127 <? zlen cs then Err EValue else
    Ok (mkpar ps (Union I64 ts is_ cs)).

  Definition mm_step (cs : list content) : res content :=
    match cs with
    | [] => Err EValue
    | [a] => match body a with Numpy _ [] _ => Err EValue | _ => Ok a end
    | a :: others =>
        match body a with
        | Par _ _ _ => Err EValue
        | Empty => rec others
        | Numpy dt sh _ => mm_numpy a dt sh others
        | ListOffset _ _ _ | ListA _ _ _ _ | Regular _ _ _ => mm_list a others
        | Indexed _ _ _ | IndexedOption _ _ _ | ByteMasked _ _ _ | BitMasked _ _ _ _ _ | Unmasked _ =>
            mm_indexed a others
        | Record fs ks n => mm_record a fs ks n others
        | Union _ _ _ _ => mm_union a others
        end
    end.
End MergeMany.

Fixpoint mm (fuel : nat) (cs : list content) {struct fuel} : res content :=
  match fuel with
  | O => Err EFuel
  | S f => mm_step (mm f) cs
  end.

(* a sufficient amount of fuel: every recursive call either descends one node level or consumes a
   list element *)
Fixpoint csize (c : content) : nat :=
  match c with
  | Numpy _ _ _ | Empty => 1
  | ListOffset _ _ c' | ListA _ _ _ c' | Regular c' _ _ | Indexed _ _ c' | IndexedOption _ _ c'
  | ByteMasked _ _ c' | BitMasked _ _ _ _ c' | Unmasked c' | Par _ _ c' => S (csize c')
  | Union _ _ _ cs | Record cs _ _ =>
      S ((fix all (l : list content) : nat := match l with [] => O | x :: xs => (csize x + all xs)%nat end) cs)
  end.
Definition mm_fuel (cs : list content) : nat :=
  (4 * (fold_right (fun c acc => csize c + acc) O cs) + 4 * length cs + 8)%nat.

Definition mergemany (cs : list content) : res content := mm (mm_fuel cs) cs.
Definition merge (a b : content) : res content := mergemany [a; b].

(* Content::merge_as_union *)
Definition merge_as_union (a b : content) : content :=
  Union I64 (zeros (clen a) ++ consts 1 (clen b)) (iota (clen a) ++ iota (clen b)) [a; b].

(* ================================================================ simplify_optiontype *)
(* awkward_IndexedArray_simplify *)
Definition simplify_ix (outer inner : list Z) : res (list Z) :=
  mapM (fun j => if j <? 0 then Ok (-1) else if zlen inner <=? j then Err EValue else get inner j) outer.

Definition simplify_option (c : content) : res content :=
  let pa := params c in
  match body c with
  | Indexed _ _ ci | IndexedOption _ _ ci | ByteMasked _ _ ci | BitMasked _ _ _ _ ci =>
      if is_ixopt ci then
        do po <- ix_parts (body c);
        let '(oopt, outer, _) := po in
        do pi <- ix_parts (body ci);
        let '(iopt, inner, cc) := pi in
        do r <- simplify_ix outer inner;
        Ok (mkpar pa (if (oopt || iopt)%bool then IndexedOption I64 r cc else Indexed I64 r cc))
      else Ok c
  | Unmasked ci => if is_ixopt ci then Ok ci else Ok c
  | _ => Err EValue
  end.

(* ================================================================ simplify_uniontype *)
Definition st := list (option (Z * Z)).        (* (tag, index) per position; None = not written yet *)

(* awkward_UnionArray_simplify_one *)
Definition simp_one (s : st) (otags oindex : list Z) (towhich fromwhich base : Z) : st :=
  map (fun x : (Z * Z) * option (Z * Z) =>
         let '((t, i), old) := x in if t =? fromwhich then Some (towhich, i + base) else old)
      (zip (zip otags oindex) s).
(* awkward_UnionArray_simplify *)
Definition simp_in (s : st) (otags oindex itags iindex : list Z) (towhich innerwhich outerwhich base : Z) : res st :=
  mapM (fun x : (Z * Z) * option (Z * Z) =>
          let '((t, j), old) := x in
          if t =? outerwhich then
            do it <- get itags j;
            if it =? innerwhich then do ii <- get iindex j; Ok (Some (towhich, ii + base)) else Ok old
          else Ok old)
       (zip (zip otags oindex) s).

Fixpoint find_merge (mb : bool) (k : Z) (contents : list content) (x : content) : option Z :=
  match contents with
  | [] => None
  | c :: cs => if mergeable mb c x then Some k else find_merge mb (k + 1) cs x
  end.
Fixpoint set_nth {A} (n : nat) (v : A) (l : list A) : list A :=
  match l, n with
  | [], _ => []
  | _ :: xs, O => v :: xs
  | x :: xs, S n' => x :: set_nth n' v xs
  end.

(* where does alternative [x] go: (towhich, base, new contents) *)
Definition place (merge_ mb : bool) (contents : list content) (x : content) : res (Z * Z * list content) :=
  match (if merge_ then find_merge mb 0 contents x else None) with
  | Some k =>
      do ck <- get contents k;
      do m <- merge ck x;
      Ok (k, clen ck, set_nth (Z.to_nat k) m contents)
  | None => Ok (zlen contents, 0, contents ++ [x])
  end.

(* one nested union (alternative [i] of the outer one): its alternatives [il], numbered from [j] *)
Fixpoint su_inner (merge_ mb : bool) (otags oindex itags iindex : list Z) (i j : Z) (il : list content)
         (contents : list content) (s : st) {struct il} : res (list content * st) :=
  match il with
  | [] => Ok (contents, s)
  | y :: ys =>
      do p <- place merge_ mb contents y;
      let '(k, base, contents') := p in
      do s' <- simp_in s otags oindex itags iindex k j i base;
      su_inner merge_ mb otags oindex itags iindex i (j + 1) ys contents' s'
  end.

Fixpoint su_loop (merge_ mb : bool) (otags oindex : list Z) (i : Z) (l : list content)
         (contents : list content) (s : st) {struct l} : res (list content * st) :=
  match l with
  | [] => Ok (contents, s)
  | x :: xs =>
      match body x with
      | Union _ itags iindex ics =>
          do r <- su_inner merge_ mb otags oindex itags iindex i 0 ics contents s;
          su_loop merge_ mb otags oindex (i + 1) xs (fst r) (snd r)
      | _ =>
          do p <- place merge_ mb contents x;
          let '(k, base, contents') := p in
          su_loop merge_ mb otags oindex (i + 1) xs contents' (simp_one s otags oindex k i base)
      end
  end.

Definition simplify_union (merge_ mb : bool) (c : content) : res content :=
  match body c with
  | Union _ tags index contents =>
      if zlen index <? zlen tags then Err EValue else
      do r <- su_loop merge_ mb tags index 0 contents [] (map (fun _ => None) tags);
      let (cs, s) := r in
      if 127 <? zlen cs then Err EValue else
      do ti <- mapM (fun o : option (Z * Z) => match o with Some p => Ok p | None => Err EOob end) s;
      match cs with
      | [] => Err EValue
      | [only] => lazy_carry only (map snd ti)
      | _ => Ok (mkpar (params c) (Union I64 (map fst ti) (map snd ti) cs))
      end
  | _ => Err EValue
  end.

(* ================================================================ ak.concatenate, axis = 0 *)
Fixpoint concat_loop (mb : bool) (c0 : content) (batch : list content) (l : list content) {struct l}
  : res (list content) :=
  match l with
  | [] => Ok batch
  | x :: xs =>
      if mergeable mb (last batch c0) x then concat_loop mb c0 (batch ++ [x]) xs
      else do collapsed <- mergemany batch; concat_loop mb c0 [merge_as_union collapsed x] xs
  end.
Definition concat_model (merge_ mb : bool) (cs : list content) : res content :=
  match cs with
  | [] => Err EValue
  | c0 :: rest =>
      do batch <- concat_loop mb c0 [c0] rest;
      do out <- mergemany batch;
      if is_union out then simplify_union merge_ mb out else Ok out
  end.

(* ================================================================ numbers_to_type (ak.values_astype) *)
Definition is_float (d : dtype) : bool := match d with DFloat32 | DFloat64 => true | _ => false end.
Definition wrap_int (dst : dtype) (z : Z) : Z :=
  let w := bits_of dst in
  let m := z mod 2 ^ w in
  if is_signed dst && (2 ^ (w - 1) <=? m) then m - 2 ^ w else m.
Definition in_range (dst : dtype) (z : Z) : bool :=
  let w := bits_of dst in
  if is_signed dst then (- 2 ^ (w - 1) <=? z) && (z <? 2 ^ (w - 1)) else (0 <=? z) && (z <? 2 ^ w).
(* the C conversion (TO)x done by awkward_NumpyArray_fill / _fill_tobool (= NumPy astype on the values the
   model carries).  float -> integer outside the target range (or NaN/inf) is undefined in C: EValue here,
   and never generated. *)
Definition cast_datum (src dst : dtype) (d : datum) : res datum :=
  let d := fill_datum src d in
  match dst with
  | DBool => Ok (match d with DZ z => DZ (if z =? 0 then 0 else 1) | _ => DZ 1 end)
  | DFloat32 | DFloat64 => Ok d
  | _ =>
      match d with
      | DZ z => if is_float src then (if in_range dst z then Ok (DZ z) else Err EValue) else Ok (DZ (wrap_int dst z))
      | _ => Err EValue
      end
  end.

Fixpoint astype_p (dst : dtype) (p : option akind) (c : content) {struct c} : res content :=
  match c with
  | Numpy dt sh data =>
      match p with
      | Some AChar | Some AByte => Ok c
      | _ =>
          match sh with
          | [] => Err EValue
          | _ => do dd <- slice data 0 (prodZ sh); do r <- mapM (cast_datum dt dst) dd; Ok (Numpy dst sh r)
          end
      end
  | Empty => Ok Empty
  | ListOffset w o c' => rmap (ListOffset w o) (astype_p dst None c')
  | ListA w s e c' => rmap (ListA w s e) (astype_p dst None c')
  | Regular c' size zl => rmap (fun x => Regular x size zl) (astype_p dst None c')
  | Indexed w ix c' => rmap (Indexed w ix) (astype_p dst None c')
  | IndexedOption w ix c' => rmap (IndexedOption w ix) (astype_p dst None c')
  | ByteMasked m vw c' => rmap (ByteMasked m vw) (astype_p dst None c')
  | BitMasked m vw lsb n c' =>
      do bm <- bytemask_of_bits m lsb n; rmap (ByteMasked bm vw) (astype_p dst None c')
  | Unmasked c' => rmap Unmasked (astype_p dst None c')
  | Union w t ix cs =>
      rmap (Union w t ix)
        ((fix all (l : list content) : res (list content) :=
            match l with
            | [] => Ok []
            | x :: xs => do y <- astype_p dst None x; do ys <- all xs; Ok (y :: ys)
            end) cs)
  | Record cs ks n =>
      rmap (fun cs' => Record cs' ks n)
        ((fix all (l : list content) : res (list content) :=
            match l with
            | [] => Ok []
            | x :: xs => do y <- astype_p dst None x; do ys <- all xs; Ok (y :: ys)
            end) cs)
  | Par a r c' => rmap (Par a r) (astype_p dst a c')
  end.
Definition astype_model (dst : dtype) (c : content) : res content := astype_p dst None c.

(* ================================================================ specifications on (type, values) *)
Definition bnum (b : bool) : value := VNum (DZ (if b then 1 else 0)).
Fixpoint assoc_name (k : name) (fs : list (name * value)) : option value :=
  match fs with
  | [] => None
  | (k', v) :: rest => if nm_eqb k k' then Some v else assoc_name k rest
  end.

(* A value seen at the result type [to].  The only change allowed is the documented mergebool cast
   (True/False become 1/0 where the result type is a number), and record fields are listed in the
   result's field order.  [strict] forbids even that. *)
Fixpoint cast_v (strict : bool) (to : ty) (v : value) {struct to} : res value :=
  match to with
  | TNum dt =>
      match v with
      | VBool b => if dt_eqb dt DBool then Ok v else if strict then Err EValue else Ok (bnum b)
      | VNum _ => if dt_eqb dt DBool then Err EValue else Ok v
      | _ => Err EValue
      end
  | TUnk => Err EValue
  | TList _ (Some isstr) _ =>
      match v with VStr i _ => if Bool.eqb i isstr then Ok v else Err EValue | _ => Err EValue end
  | TList _ None t' =>
      match v with VList l => rmap VList (mapM (cast_v strict t') l) | _ => Err EValue end
  | TOpt t' => match v with VNone => Ok VNone | _ => cast_v strict t' v end
  | TRec ks ts =>
      match ks, v with
      | None, VTup xs =>
          rmap VTup
            ((fix go (ts : list ty) (xs : list value) : res (list value) :=
                match ts, xs with
                | [], [] => Ok []
                | t1 :: ts', x :: xs' => do y <- cast_v strict t1 x; do ys <- go ts' xs'; Ok (y :: ys)
                | _, _ => Err EValue
                end) ts xs)
      | Some k, VRec fs =>
          if negb (Nat.eqb (length fs) (length ts)) then Err EValue else
          (* strict: the fields are already in the result's order *)
          if strict && negb (list_eqb nm_eqb (map fst fs) k) then Err EValue else
          rmap VRec
            ((fix go (ts : list ty) (kl : list name) : res (list (name * value)) :=
                match ts, kl with
                | [], [] => Ok []
                | t1 :: ts', k1 :: kl' =>
                    match assoc_name k1 fs with
                    | Some x => do y <- cast_v strict t1 x; do ys <- go ts' kl'; Ok ((k1, y) :: ys)
                    | None => Err EValue
                    end
                | _, _ => Err EValue
                end) ts k)
      | _, _ => Err EValue
      end
  | TUnion ts =>
      (* the alternative the value came from: the first that holds it unchanged, else the first that holds it
         after the mergebool cast / field reordering *)
      let pass (s : bool) :=
        (fix first (l : list ty) : res value :=
           match l with
           | [] => Err EValue
           | t1 :: rest => match cast_v s t1 v with Ok r => Ok r | Err _ => first rest end
           end) ts in
      match pass true with
      | Ok r => Ok r
      | Err e => if strict then Err e else pass false
      end
  end.
Definition cast_val (to : ty) (v : value) : res value :=
  match cast_v true to v with Ok r => Ok r | Err _ => cast_v false to v end.

(* simplifying a union (merge + mergebool may fold booleans into numbers) / an option *)
Definition simplify_union_spec (tres : ty) (vs : list value) : res (list value) := mapM (cast_val tres) vs.
Definition simplify_option_spec (vs : list value) : res (list value) := Ok vs.

Fixpoint astype_v (dst : dtype) (t : ty) (v : value) {struct t} : res value :=
  match t with
  | TNum src =>
      match v with
      | VNum d => rmap (leaf dst) (cast_datum src dst d)
      | VBool b => rmap (leaf dst) (cast_datum DBool dst (DZ (if b then 1 else 0)))
      | _ => Err EValue
      end
  | TUnk => Ok v
  | TList _ (Some _) _ => Ok v
  | TList _ None t' => match v with VList l => rmap VList (mapM (astype_v dst t') l) | _ => Err EValue end
  | TOpt t' => match v with VNone => Ok VNone | _ => astype_v dst t' v end
  | TRec _ ts =>
      match v with
      | VRec fs =>
          rmap VRec
            ((fix go (ts : list ty) (fs : list (name * value)) : res (list (name * value)) :=
                match ts, fs with
                | [], [] => Ok []
                | t1 :: ts', (k, x) :: fs' => do y <- astype_v dst t1 x; do ys <- go ts' fs'; Ok ((k, y) :: ys)
                | _, _ => Err EValue
                end) ts fs)
      | VTup xs =>
          rmap VTup
            ((fix go (ts : list ty) (xs : list value) : res (list value) :=
                match ts, xs with
                | [], [] => Ok []
                | t1 :: ts', x :: xs' => do y <- astype_v dst t1 x; do ys <- go ts' xs'; Ok (y :: ys)
                | _, _ => Err EValue
                end) ts xs)
      | _ => Err EValue
      end
  | TUnion _ => Err EValue
  end.
Definition astype_spec (dst : dtype) (t : ty) (vs : list value) : res (list value) := mapM (astype_v dst t) vs.

(* ================================================================ type-level specification *)
(* "Numeric element types are promoted as NumPy promotes them, identical list / record / option types
   merge into one type, only genuinely different types become a union."  Defined on [ty] for inputs
   without unions; list sizes are not part of the claim (this tree merges RegularArrays into ListArray64),
   so types are compared after [erase_sz]. *)
Definition unopt1 (t : ty) : ty := match t with TOpt t' => t' | _ => t end.
Definition is_opt (t : ty) : bool := match t with TOpt _ => true | _ => false end.
Fixpoint assoc_ty (k : name) (ks : list name) (ts : list ty) : option ty :=
  match ks, ts with
  | k' :: ks', t :: ts' => if nm_eqb k k' then Some t else assoc_ty k ks' ts'
  | _, _ => None
  end.

Fixpoint ty_mergeable (mb : bool) (a b : ty) {struct a} : bool :=
  match a with
  | TUnk => true
  | TUnion _ => true
  | TOpt a' => ty_mergeable mb a' (unopt1 b)
  | TNum x =>
      match unopt1 b with
      | TUnk | TUnion _ => true
      | TNum y => dt_eqb x y || mb || negb (dt_eqb x DBool || dt_eqb y DBool)
      | _ => false
      end
  | TList _ s a' =>
      match unopt1 b with
      | TUnk | TUnion _ => true
      | TList _ s' b' => opt_eqb Bool.eqb s s' && ty_mergeable mb a' b'
      | _ => false
      end
  | TRec ks ts =>
      match unopt1 b with
      | TUnk | TUnion _ => true
      | TRec ks' ts' =>
          match ks, ks' with
          | None, None =>
              (fix go (l l' : list ty) : bool :=
                 match l, l' with
                 | [], [] => true
                 | x :: xs, y :: ys => ty_mergeable mb x y && go xs ys
                 | _, _ => false
                 end) ts ts'
          | Some k, Some k' =>
              same_keys k k' &&
              (fix go (l : list ty) (kl : list name) : bool :=
                 match l, kl with
                 | [], _ => true
                 | x :: xs, kx :: kr =>
                     match assoc_ty kx k' ts' with Some y => ty_mergeable mb x y && go xs kr | None => false end
                 | _ :: _, [] => false
                 end) ts k
          | _, _ => false
          end
      | _ => false
      end
  end.

(* the merged type of two mergeable union-free types *)
Fixpoint merge_ty (a b : ty) {struct a} : ty :=
  let wrap (t : ty) := if is_opt b then TOpt t else t in
  match a with
  | TUnk => b
  | TUnion _ => a
  | TOpt a' => TOpt (merge_ty a' (unopt1 b))
  | TNum x => match unopt1 b with TNum y => wrap (TNum (numpy_promote x y)) | _ => wrap a end
  | TList _ s a' =>
      match unopt1 b with
      | TList _ _ b' => wrap (TList None s (merge_ty a' b'))
      | _ => wrap (TList None s a')
      end
  | TRec ks ts =>
      match unopt1 b with
      | TRec ks' ts' =>
          wrap (TRec ks
                  match ks, ks' with
                  | Some k, Some k' =>
                      (fix go (l : list ty) (kl : list name) : list ty :=
                         match l, kl with
                         | x :: xs, kx :: kr =>
                             match assoc_ty kx k' ts' with Some y => merge_ty x y | None => x end :: go xs kr
                         | _, _ => l
                         end) ts k
                  | _, _ =>
                      (fix go (l l' : list ty) : list ty :=
                         match l, l' with
                         | x :: xs, y :: ys => merge_ty x y :: go xs ys
                         | _, _ => l
                         end) ts ts'
                  end)
      | _ => wrap a
      end
  end.

Fixpoint erase_sz (t : ty) : ty :=
  match t with
  | TNum _ | TUnk => t
  | TList _ s t' => TList None s (erase_sz t')
  | TOpt t' => TOpt (erase_sz t')
  | TRec ks ts => TRec ks (map erase_sz ts)
  | TUnion ts => TUnion (map erase_sz ts)
  end.

(* alternatives accumulated left to right: merge into the first mergeable one, else append *)
Fixpoint add_alt (mb : bool) (alts : list ty) (t : ty) : list ty :=
  match alts with
  | [] => [t]
  | a :: rest => if ty_mergeable mb a t then merge_ty a t :: rest else a :: add_alt mb rest t
  end.
Definition concat_ty (mb : bool) (ts : list ty) : ty :=
  match fold_left (add_alt mb) (map erase_sz ts) [] with
  | [t] => t
  | alts => TUnion alts
  end.

Fixpoint ty_eqb (a b : ty) {struct a} : bool :=
  match a, b with
  | TNum x, TNum y => dt_eqb x y
  | TUnk, TUnk => true
  | TList s st x, TList s' st' y => opt_eqb Z.eqb s s' && opt_eqb Bool.eqb st st' && ty_eqb x y
  | TOpt x, TOpt y => ty_eqb x y
  | TRec ks ts, TRec ks' ts' =>
      opt_eqb (list_eqb nm_eqb) ks ks' &&
      (fix go (l l' : list ty) : bool :=
         match l, l' with
         | [], [] => true
         | x :: xs, y :: ys => ty_eqb x y && go xs ys
         | _, _ => false
         end) ts ts'
  | TUnion ts, TUnion ts' =>
      (fix go (l l' : list ty) : bool :=
         match l, l' with
         | [], [] => true
         | x :: xs, y :: ys => ty_eqb x y && go xs ys
         | _, _ => false
         end) ts ts'
  | _, _ => false
  end.

(* astype: every numeric leaf type becomes [dst]; strings stay *)
Fixpoint astype_ty (dst : dtype) (t : ty) : ty :=
  match t with
  | TNum _ => TNum dst
  | TUnk => TUnk
  | TList s (Some b) t' => t
  | TList s None t' => TList s None (astype_ty dst t')
  | TOpt t' => TOpt (astype_ty dst t')
  | TRec ks ts => TRec ks (map (astype_ty dst) ts)
  | TUnion ts => TUnion (map (astype_ty dst) ts)
  end.

(* ================================================================ concatenation, value level *)
(* the alternative of a union result that took in an operand of type [from]: the first one it is mergeable
   with and that already is the merged type *)
Definition absorbs (mb : bool) (alt from : ty) : bool :=
  ty_mergeable mb alt from && ty_eqb (erase_sz (merge_ty (erase_sz alt) (erase_sz from))) (erase_sz alt).
Definition cast_from (mb : bool) (from to : ty) (v : value) : res value :=
  match to, from with
  | TUnion _, TUnion _ => cast_val to v
  | TUnion alts, _ =>
      match find (fun a => absorbs mb a from) alts with
      | Some a => cast_v false a v
      | None => cast_val to v
      end
  | _, _ => cast_val to v
  end.
(* the values of the first array followed by those of the others, each seen at the result type [tres] *)
Definition concat_spec (mb : bool) (tres : ty) (tvs : list (ty * list value)) : res (list value) :=
  mapM (fun tv : ty * value => cast_from mb (fst tv) tres (snd tv))
       (concat (map (fun tl : ty * list value => map (fun v => (fst tl, v)) (snd tl)) tvs)).

(* the purely value-directed reading (used when the operand's alternative cannot be told from its type,
   e.g. merge=False leaves mergeable alternatives apart) *)
Definition concat_spec_v (tres : ty) (tvs : list (ty * list value)) : res (list value) :=
  mapM (cast_val tres) (concat (map snd tvs)).
