(** C11 (closure), part 7: [carry] / [crange] and the record-field projection [field_content] keep validity with
    NO side condition on values or indices: a successful gather out of a valid layout is a valid layout.
    ([Proofs_CarryValid.carry_valid] needed "the input has a value" and "the indices are in range"; the first
    was only used to know the length of a carried content, which [carry_len] gets from validity alone, the second
    follows from success: [Proofs_Closure6.carry_in_range].) *)
From Coq Require Import ZArith List Bool Lia ZifyBool.
From AwkV Require Import Base Layout LayoutInd Valid Types AtAxis Carry Ops_Struct Ops_Getitem Ops_Fields
                         Typing Proofs_Typing Proofs_C11 Proofs_Lists Proofs_ToList Proofs_Carry Proofs_CarryValid
                         Proofs_AtAxis Proofs_AtAxisOps Proofs_Closure Proofs_Closure2 Proofs_Closure6.
Import ListNotations.
Open Scope Z_scope.
Ltac Zify.zify_post_hook ::= Z.to_euclidean_division_equations.

(* ---------------------------------------------------------------- the length of a carried layout *)
Lemma regular_next_zlen size n ix next : 0 <= size ->
  mapM (fun i => if (0 <=? i) && (i <? n) then Ok (range (i * size) ((i + 1) * size)) else Err EOob) ix = Ok next ->
  zlen (concat next) = zlen ix * size.
Proof.
  intros Hs H. rewrite (zlen_concat_const next size); [rewrite (mapM_zlen _ _ _ H); reflexivity|].
  apply Forall_forall. intros l Hl. destruct (mapM_In_inv _ _ _ _ H Hl) as (i & _ & Hi).
  destruct ((0 <=? i) && (i <? n)); [|discriminate]. inversion Hi; subst. rewrite zlen_range by lia. ring.
Qed.

Lemma carry_len c : forall p ix c', Valid p c -> carry c ix = Ok c' -> clen c' = zlen ix.
Proof.
  induction c as [dt shape data| |w o c IHc|w s e c IHc|c size zl IHc|w ix0 c IHc|w ix0 c IHc|m vw c IHc
                 |m vw lsb n c IHc|c IHc|w t ix0 cs IHcs|cs ks n IHcs|arr rn c IHc] using content_ind';
    intros p ix c' HV Hc; inversion HV; subst; try rewrite carry_Record in Hc; cbn [carry] in Hc; unfold gather in Hc.
  - destruct shape as [|n dims]; [discriminate|]. apply bind_Ok in Hc as (rows & _ & Hc). inversion Hc. reflexivity.
  - destruct ix; [|discriminate]. inversion Hc. reflexivity.
  - apply bind_Ok in Hc as (s & Hs & Hc). apply bind_Ok in Hc as (e & _ & Hc). inversion Hc. cbn [clen]. apply (mapM_zlen _ _ _ Hs).
  - apply bind_Ok in Hc as (s' & Hs & Hc). apply bind_Ok in Hc as (e' & _ & Hc). inversion Hc. cbn [clen]. apply (mapM_zlen _ _ _ Hs).
  - (* Regular *)
    apply bind_Ok in Hc as (next & Hnext & Hc). apply bind_Ok in Hc as (c'' & Hc'' & Hc). inversion Hc; subst. cbn [clen].
    destruct (size =? 0) eqn:E; [reflexivity|].
    match goal with Hsz : 0 <= size |- _ => pose proof (regular_next_zlen _ _ _ _ Hsz Hnext) as Hz end.
    assert (Hcl : clen c'' = zlen (concat next)).
    { destruct (is_strk p) eqn:Es.
      - match goal with Hp : ParamOk p _ |- _ => destruct (ParamOk_str _ _ Hp Es) as (cc & k & rn' & n' & dd & Hcc & Hccd & _) end.
        cbn [list_content] in Hcc. inversion Hcc; subst. rewrite carry_Par in Hc''. apply bind_Ok in Hc'' as (cn & Hcn & Hc'').
        inversion Hc''; subst. cbn [carry] in Hcn. apply bind_Ok in Hcn as (rows & _ & Hcn). inversion Hcn. reflexivity.
      - match goal with Hv : _ -> Valid None c |- _ => exact (IHc None _ _ (Hv eq_refl) Hc'') end. }
    rewrite Hcl, Hz. apply Z.div_mul. lia.
  - apply bind_Ok in Hc as (j & Hj & Hc). inversion Hc. cbn [clen]. apply (mapM_zlen _ _ _ Hj).
  - apply bind_Ok in Hc as (j & Hj & Hc). inversion Hc. cbn [clen]. apply (mapM_zlen _ _ _ Hj).
  - apply bind_Ok in Hc as (m' & Hm & Hc). apply bind_Ok in Hc as (c'' & _ & Hc). inversion Hc. cbn [clen]. apply (mapM_zlen _ _ _ Hm).
  - apply bind_Ok in Hc as (bm & _ & Hc). apply bind_Ok in Hc as (m' & Hm & Hc). apply bind_Ok in Hc as (c'' & _ & Hc).
    inversion Hc. cbn [clen]. apply (mapM_zlen _ _ _ Hm).
  - apply bind_Ok in Hc as (c'' & Hc'' & Hc). inversion Hc. cbn [clen].
    match goal with Hv : Valid None c |- _ => exact (IHc None _ _ Hv Hc'') end.
  - apply bind_Ok in Hc as (t' & Ht & Hc). apply bind_Ok in Hc as (j & _ & Hc). inversion Hc. cbn [clen]. apply (mapM_zlen _ _ _ Ht).
  - destruct (forallb _ ix); [|discriminate]. apply bind_Ok in Hc as (cs' & _ & Hc). inversion Hc. reflexivity.
  - apply bind_Ok in Hc as (c'' & Hc'' & Hc). inversion Hc. cbn [clen].
    match goal with Hv : Valid arr c |- _ => exact (IHc arr _ _ Hv Hc'') end.
Qed.

(* ---------------------------------------------------------------- carry keeps validity: no hypothesis *)
Definition cvf_at (c : content) : Prop := forall p ix c', Valid p c -> carry c ix = Ok c' -> Valid p c'.

Lemma carry_valid_full_all c : cvf_at c.
Proof.
  induction c as [dt shape data| |w o c IHc|w s e c IHc|c size zl IHc|w ix0 c IHc|w ix0 c IHc|m vw c IHc
                 |m vw lsb n c IHc|c IHc|w t ix0 cs IHcs|cs ks n IHcs|arr rn c IHc] using content_ind';
    intros p ix c' HV Hc; pose proof HV as HV0; pose proof (carry_in_range _ _ _ Hc) as Hix; inversion HV; subst.
  - (* Numpy *)
    match goal with Hp : ParamOk p _ |- _ => pose proof (ParamOk_nonlist _ _ Hp eq_refl); subst p end.
    match goal with Hs : Forall _ shape, Hn : shape <> [] |- _ =>
      destruct (carry_numpy_valid _ _ _ _ _ Hn Hs Hc) as (dims & rows & Hsh & -> & Hlen); rewrite Hsh in Hs; inversion Hs; subst end.
    constructor; [exact I|discriminate|constructor; [apply zlen_nonneg|assumption]|exact Hlen].
  - (* Empty *)
    cbn [carry] in Hc. destruct ix; [|discriminate]. inversion Hc; subst. exact HV0.
  - (* ListOffset *)
    cbn [carry] in Hc. unfold gather in Hc. apply bind_Ok in Hc as (s & Hs & Hc). apply bind_Ok in Hc as (e & He & Hc). inversion Hc; subst.
    constructor.
    + eapply ParamOk_same_content; [|eassumption]. reflexivity.
    + rewrite (mapM_zlen _ _ _ Hs), (mapM_zlen _ _ _ He). lia.
    + assert (Hz : mapM (get (pairs o)) ix = Ok (zip s e)) by (rewrite pairs_zip, gather_zip, Hs, He; reflexivity).
      eapply gather_Forall; eassumption.
    + assumption.
  - (* ListA *)
    cbn [carry] in Hc. unfold gather in Hc. apply bind_Ok in Hc as (s' & Hs & Hc). apply bind_Ok in Hc as (e' & He & Hc). inversion Hc; subst.
    constructor.
    + eapply ParamOk_same_content; [|eassumption]. reflexivity.
    + rewrite (mapM_zlen _ _ _ Hs), (mapM_zlen _ _ _ He). lia.
    + assert (Hz : mapM (get (zip s e)) ix = Ok (zip s' e')) by (rewrite gather_zip, Hs, He; reflexivity).
      eapply gather_Forall; eassumption.
    + assumption.
  - (* Regular *)
    cbn [carry] in Hc. apply bind_Ok in Hc as (next & Hnext & Hc). apply bind_Ok in Hc as (c'' & Hc'' & Hc). inversion Hc; subst.
    constructor; try assumption; try apply zlen_nonneg.
    + (* the parameter check only looks at the shape of the character buffer *)
      match goal with Hp : ParamOk p _ |- _ => rename Hp into Hp0 end.
      destruct (is_strk p) eqn:Es.
      * destruct (ParamOk_str _ _ Hp0 Es) as (cc & k & rn' & n' & dd & Hcc & Hccd & Hk). cbn [list_content] in Hcc. inversion Hcc; subst.
        rewrite carry_Par in Hc''. apply bind_Ok in Hc'' as (cn & Hcn & Hc''). inversion Hc''; subst.
        cbn [carry] in Hcn. apply bind_Ok in Hcn as (rows & _ & Hcn). inversion Hcn; subst.
        destruct p as [[]|]; try discriminate; cbn [ParamOk list_content];
          destruct Hk as [-> | ->]; cbn [ParamOk list_content] in Hp0; destruct Hp0 as (? & ? & ? & ? & E1 & E2);
          inversion E1; subst; try discriminate; do 4 eexists; split; reflexivity.
      * rewrite (ParamOk_nostr _ _ Hp0 Es). exact I.
    + intros Es. match goal with H : is_strk p = false -> Valid None c |- _ => specialize (H Es); rename H into HVc end.
      eapply IHc; eassumption.
  - (* Indexed *)
    match goal with Hp : ParamOk p _ |- _ => pose proof (ParamOk_nonlist _ _ Hp eq_refl); subst p end.
    cbn [carry] in Hc. unfold gather in Hc. apply bind_Ok in Hc as (j & Hj & Hc). inversion Hc; subst.
    apply V_Indexed; [exact I|eapply gather_Forall; eassumption|assumption|assumption].
  - (* IndexedOption *)
    match goal with Hp : ParamOk p _ |- _ => pose proof (ParamOk_nonlist _ _ Hp eq_refl); subst p end.
    cbn [carry] in Hc. unfold gather in Hc. apply bind_Ok in Hc as (j & Hj & Hc). inversion Hc; subst.
    apply V_IndexedOption; [exact I|eapply gather_Forall; eassumption|assumption|assumption].
  - (* ByteMasked *)
    match goal with Hp : ParamOk p _ |- _ => pose proof (ParamOk_nonlist _ _ Hp eq_refl); subst p end.
    cbn [carry] in Hc. unfold gather in Hc. apply bind_Ok in Hc as (m' & Hm' & Hc). apply bind_Ok in Hc as (c'' & Hc'' & Hc). inversion Hc; subst.
    match goal with HVc : Valid None c |- _ => pose proof (carry_len c None ix c'' HVc Hc'') as Hn3 end.
    destruct (carry_class c ix c'' Hc'') as [Ho _].
    constructor; [exact I|rewrite Hn3, (mapM_zlen _ _ _ Hm'); lia|rewrite Ho; assumption|eapply IHc; eassumption].
  - (* BitMasked *)
    match goal with Hp : ParamOk p _ |- _ => pose proof (ParamOk_nonlist _ _ Hp eq_refl); subst p end.
    cbn [carry] in Hc. unfold gather in Hc. apply bind_Ok in Hc as (bm & Hbm & Hc).
    apply bind_Ok in Hc as (m' & Hm' & Hc). apply bind_Ok in Hc as (c'' & Hc'' & Hc). inversion Hc; subst.
    match goal with HVc : Valid None c |- _ => pose proof (carry_len c None ix c'' HVc Hc'') as Hn3 end.
    destruct (carry_class c ix c'' Hc'') as [Ho _].
    constructor; [exact I|rewrite Hn3, (mapM_zlen _ _ _ Hm'); lia|rewrite Ho; assumption|eapply IHc; eassumption].
  - (* Unmasked *)
    match goal with Hp : ParamOk p _ |- _ => pose proof (ParamOk_nonlist _ _ Hp eq_refl); subst p end.
    cbn [carry] in Hc. apply bind_Ok in Hc as (c'' & Hc'' & Hc). inversion Hc; subst.
    destruct (carry_class c ix c'' Hc'') as [Ho _].
    constructor; [exact I|rewrite Ho; assumption|eapply IHc; eassumption].
  - (* Union *)
    match goal with Hp : ParamOk p _ |- _ => pose proof (ParamOk_nonlist _ _ Hp eq_refl); subst p end.
    cbn [carry] in Hc. unfold gather in Hc. apply bind_Ok in Hc as (t' & Ht' & Hc). apply bind_Ok in Hc as (j & Hj & Hc). inversion Hc; subst.
    assert (Hz : mapM (get (zip t ix0)) ix = Ok (zip t' j)) by (rewrite <- (zip_take_l t ix0), gather_zip, Ht', Hj; reflexivity).
    apply V_Union; [exact I|assumption|rewrite (mapM_zlen _ _ _ Ht'), (mapM_zlen _ _ _ Hj); lia| |assumption].
    eapply gather_Forall; eassumption.
  - (* Record *)
    match goal with Hp : ParamOk p _ |- _ => pose proof (ParamOk_nonlist _ _ Hp eq_refl); subst p end.
    rewrite carry_Record in Hc. destruct (forallb _ ix); [|discriminate].
    apply bind_Ok in Hc as (cs' & Hcs' & Hc). inversion Hc; subst.
    match goal with H : Forall (Valid None) cs |- _ => rename H into HVs end.
    assert (Hall : forall x', In x' cs' -> Valid None x' /\ clen x' = zlen ix).
    { intros x' Hx'. destruct (mapM_In_inv _ _ _ _ Hcs' Hx') as (x & Hx & Hcx).
      rewrite Forall_forall in IHcs, HVs.
      split; [eapply (IHcs x Hx None ix x'); auto|eapply carry_len; [apply (HVs x Hx)|exact Hcx]]. }
    constructor; [exact I|apply zlen_nonneg| | |].
    + apply Forall_forall. intros x' Hx'. destruct (Hall x' Hx') as [_ ->]. lia.
    + intros k Hk. apply mapM_length in Hcs'. rewrite Hcs'. auto.
    + apply Forall_forall. intros x' Hx'. apply Hall, Hx'.
  - (* Par *)
    rewrite carry_Par in Hc. apply bind_Ok in Hc as (c'' & Hc'' & Hc). inversion Hc; subst.
    constructor; [eapply carry_not_par; eassumption|eapply IHc; eassumption].
Qed.

(* every valid layout (strings with unusable character buffers, unions, n-d leaves), every index list *)
Theorem carry_valid_full : forall c ix c', Valid None c -> carry c ix = Ok c' -> Valid None c'.
Proof. intros c ix c'. apply carry_valid_full_all. Qed.

Theorem crange_valid_full : forall c a b c', Valid None c -> crange c a b = Ok c' -> Valid None c'.
Proof. intros c a b c'. unfold crange. apply carry_valid_full. Qed.

(* the result has the length of the index, its node class is the class of the input *)
Theorem carry_valid_len : forall c ix c', Valid None c -> carry c ix = Ok c' ->
  Valid None c' /\ clen c' = zlen ix /\ optionlike c' = optionlike c /\ unionlike c' = unionlike c.
Proof.
  intros c ix c' HV H. split; [eapply carry_valid_full; eassumption|]. split; [eapply carry_len; eassumption|].
  apply (carry_class _ _ _ H).
Qed.

(* a string whose character buffer is too short for [to_list] (validity does not look at it), a union, an n-d leaf,
   an option node: no value, still closed *)
Example carry_valid_full_ex :
  let bad := Par (Some AString) None (ListOffset I64 [0; 2; 3] (Par (Some AChar) None (Numpy DUInt8 [5] [DZ 97]))) in
  let c := Record [bad;
                   BitMasked [6] false true 2 (Numpy DInt64 [2; 1] [DZ 1; DZ 2]);
                   Union I64 [0; 1] [0; 0] [ListOffset I64 [0; 1] (Numpy DInt64 [1] [DZ 5]); Numpy DBool [1] [DZ 1]]] None 2 in
  validb None c = true /\ to_list c = Err EValue /\
  (do c' <- carry c [1; 1; 0]; Ok (validb None c', clen c')) = Ok (true, 3) /\
  (do c' <- crange c 1 2; Ok (validb None c', clen c')) = Ok (true, 1).
Proof. vm_compute. repeat split. Qed.

(* ---------------------------------------------------------------- field_content without "has a value" *)
Lemma field_content_valid_full k c : forall u c',
  Valid None c -> fc_frag k u c = true -> field_content k c = Ok c' ->
  Valid None c' /\ clen c' = clen c /\ (u = true -> optionlike c = false -> optionlike c' = false).
Proof.
  induction c as [dt shape data| |w o c IHc|w s e c IHc|c size zl IHc|w ix c IHc|w ix c IHc|m vw c IHc
                 |m vw lsb n c IHc|c IHc|w t ix cs IHcs|cs ks n IHcs|arr rn c IHc] using content_ind';
    intros u c' HV Hf H; cbn [field_content] in H; try discriminate; cbn [fc_frag] in Hf; inversion HV; subst.
  - (* ListOffset *)
    apply rmap_Ok in H as (c'' & Hc'' & ->).
    match goal with Hs : is_strk None = false -> Valid None c |- _ => specialize (Hs eq_refl) as HVc end.
    destruct (IHc _ _ HVc Hf Hc'') as (X1 & X2 & _).
    split; [|split; [reflexivity|reflexivity]].
    constructor; [exact I|assumption|rewrite X2; assumption|intros _; exact X1].
  - (* ListA *)
    apply rmap_Ok in H as (c'' & Hc'' & ->).
    match goal with Hs : is_strk None = false -> Valid None c |- _ => specialize (Hs eq_refl) as HVc end.
    destruct (IHc _ _ HVc Hf Hc'') as (X1 & X2 & _).
    split; [|split; [reflexivity|reflexivity]].
    constructor; [exact I|assumption|rewrite X2; assumption|intros _; exact X1].
  - (* Regular *)
    apply rmap_Ok in H as (c'' & Hc'' & ->).
    match goal with Hs : is_strk None = false -> Valid None c |- _ => specialize (Hs eq_refl) as HVc end.
    destruct (IHc _ _ HVc Hf Hc'') as (X1 & X2 & _).
    split; [|split; [cbn [clen]; rewrite X2; reflexivity|reflexivity]].
    constructor; [exact I|assumption|assumption|intros _; exact X1].
  - (* Indexed *)
    apply rmap_Ok in H as (c'' & Hc'' & ->).
    match goal with HVc : Valid None c |- _ => destruct (IHc _ _ HVc Hf Hc'') as (X1 & X2 & X3) end.
    split; [|split; [reflexivity|discriminate]].
    constructor; [exact I|rewrite X2; assumption|auto|exact X1].
  - (* IndexedOption *)
    apply rmap_Ok in H as (c'' & Hc'' & ->).
    match goal with HVc : Valid None c |- _ => destruct (IHc _ _ HVc Hf Hc'') as (X1 & X2 & X3) end.
    split; [|split; [reflexivity|discriminate]].
    constructor; [exact I|rewrite X2; assumption|auto|exact X1].
  - (* ByteMasked *)
    apply rmap_Ok in H as (c'' & Hc'' & ->).
    match goal with HVc : Valid None c |- _ => destruct (IHc _ _ HVc Hf Hc'') as (X1 & X2 & X3) end.
    split; [|split; [reflexivity|discriminate]].
    constructor; [exact I|rewrite X2; assumption|auto|exact X1].
  - (* BitMasked *)
    apply rmap_Ok in H as (c'' & Hc'' & ->).
    match goal with HVc : Valid None c |- _ => destruct (IHc _ _ HVc Hf Hc'') as (X1 & X2 & X3) end.
    split; [|split; [reflexivity|discriminate]].
    constructor; [exact I|assumption|assumption|rewrite X2; assumption|auto|exact X1].
  - (* Unmasked *)
    apply rmap_Ok in H as (c'' & Hc'' & ->).
    match goal with HVc : Valid None c |- _ => destruct (IHc _ _ HVc Hf Hc'') as (X1 & X2 & X3) end.
    split; [|split; [cbn [clen]; exact X2|discriminate]].
    constructor; [exact I|auto|exact X1].
  - (* Record *)
    apply bind_Ok in H as (i & Hi & H). apply bind_Ok in H as (f & Hfi & H). rewrite Hi, Hfi in Hf.
    pose proof (get_In _ _ _ Hfi) as Hin.
    match goal with HVs : Forall (Valid None) cs |- _ => rewrite Forall_forall in HVs; pose proof (HVs f Hin) as HVf end.
    unfold crange in H. destruct (carry_valid_len f _ _ HVf H) as (Y1 & Y2 & Y3 & _).
    split; [exact Y1|]. split; [cbn [clen]; rewrite Y2, zlen_range by assumption; lia|].
    intros -> _. rewrite Y3. destruct (optionlike f); [discriminate|reflexivity].
  - (* Par *)
    destruct arr; [discriminate|].
    match goal with HVc : Valid None c |- _ => destruct (IHc _ _ HVc Hf H) as (X1 & X2 & X3) end.
    split; [exact X1|]. split; [exact X2|]. rewrite optionlike_Par. exact X3.
Qed.

(* remaining hypothesis [fc_frag k false c]: the model keeps the option node and puts the projected field below it
   without the C++'s simplify_optiontype ([Proofs_Closure2.field_content_preserves_valid_refuted]) *)
Theorem field_content_preserves_valid_novalue_partial : forall k c c',
  Valid None c -> fc_frag k false c = true -> field_content k c = Ok c' -> Valid None c'.
Proof. intros k c c' HV Hf H. exact (proj1 (field_content_valid_full k c false c' HV Hf H)). Qed.

(* without option-type / indexed nodes above the record there is nothing left to assume *)
Lemma nopt_fc_frag k c : forall u, nopt c = true -> fc_frag k u c = true.
Proof.
  intros u Hn. apply gi_fc_frag; [apply nopt_gi_frag, Hn|intros _; exact Hn].
Qed.
Theorem field_content_preserves_valid_nopt : forall k c c',
  Valid None c -> nopt c = true -> field_content k c = Ok c' -> Valid None c'.
Proof. intros k c c' HV Hn. apply field_content_preserves_valid_novalue_partial; [exact HV|apply nopt_fc_frag, Hn]. Qed.

Example field_content_preserves_valid_novalue_ex :
  let bad := Par (Some AString) None (ListOffset I64 [0; 2; 3; 3] (Par (Some AChar) None (Numpy DUInt8 [5] [DZ 97]))) in
  let c := ListOffset I64 [0; 2; 3]
             (IndexedOption I64 [2; -1; 0]
                (Record [bad; ListOffset I64 [0; 1; 1; 3] (ByteMasked [1; 0; 1] true (Numpy DFloat64 [3] [DZ 7; DNaN; DZ 9]))]
                        (Some [[120]; [121]]) 3)) in
  valid_b c = true /\ to_list c = Err EValue /\ fc_frag [120] false c = true /\ fc_frag [121] false c = true /\
  (do r <- field_content [120] c; Ok (valid_b r)) = Ok true /\ (do r <- field_content [121] c; Ok (valid_b r)) = Ok true.
Proof. vm_compute. repeat split. Qed.
