"""bin/check entry: decides one property on /repo's current tree.

  1. rebuilds the implementation from /repo (dependency tracked) and the Rocq model
  2. Rocq obligations: audits the development (no Admitted/Axiom/...), compiles Props_<id>.v and parses
     every `Print Assumptions`
  3. correspondence: corpus + generated cases through awkdrv (implementation), modelrun (extracted model + spec)
  4. classifies, minimises, writes replay + evidence, prints VIOLATION / KNOWN-FINDING lines
"""
import argparse
import importlib
import json
import os
import random
import re
import sys
import time

sys.path.insert(0, os.path.dirname(os.path.abspath(__file__)))
import common as C  # noqa: E402

ALLOWED_AXIOMS = set()   # target: closed under the global context

FORBIDDEN = re.compile(r'\b(Admitted|admit|Axiom|Axioms|Parameter|Parameters|Conjecture|Conjectures|Hypothesis|'
                       r'Hypotheses|Variable|Variables|Admit Obligations|bypass_check|Unset Guard Checking|'
                       r'Unset Positivity Checking|Unset Universe Checking|native_compute|type-in-type)\b')


def strip_comments(s):
    out, depth, i = [], 0, 0
    while i < len(s):
        if s.startswith('(*', i):
            depth += 1
            i += 2
        elif s.startswith('*)', i) and depth:
            depth -= 1
            i += 2
        else:
            if depth == 0:
                out.append(s[i])
            i += 1
    return ''.join(out)


def audit(dirs):
    """textual audit of the Rocq sources; returns list of problems"""
    probs = []
    for d in dirs:
        probs += audit_dir(d)
    return probs


def audit_dir(d):
    """audits the development = the files listed in _CoqProject (a work-in-progress file lying in the directory is not
    part of it), and checks that nothing listed requires a local module that is not listed (and so not audited)"""
    probs = []
    listed = None
    cp = os.path.join(d, '_CoqProject')
    if os.path.exists(cp):
        listed = set(l.strip() for l in open(cp) if l.strip().endswith('.v'))
    local = set(fn[:-2] for fn in os.listdir(d) if fn.endswith('.v'))
    for fn in sorted(os.listdir(d)):
        if not fn.endswith('.v'):
            continue
        if listed is not None and fn not in listed:
            continue
        src = strip_comments(open(os.path.join(d, fn)).read())
        if listed is not None:
            for m in re.finditer(r'Require\s+(?:Import|Export)?\s+([^.]*?)\.\s', src + ' '):
                for name in m.group(1).split():
                    name = name.split('.')[-1]
                    if name in local and name + '.v' not in listed:
                        probs.append('%s requires %s.v, which is not listed in _CoqProject (not audited)' % (fn, name))
        # Variables/Hypotheses are allowed inside sections only
        depth = 0
        for ln in src.splitlines():
            s = ln.strip()
            if re.match(r'Section\b', s):
                depth += 1
            elif re.match(r'End\b', s) and depth:
                depth -= 1
            for m in FORBIDDEN.finditer(ln):
                w = m.group(1)
                if w in ('Variable', 'Variables', 'Hypothesis', 'Hypotheses') and depth > 0:
                    continue
                probs.append('%s: forbidden vernacular %r in: %s' % (fn, w, s[:80]))
    return probs


def rocq_obligations(prop, theorems, d, logical, files=None):
    """compile the Props files of <prop> (default Props_<prop>.v; several files are compiled in parallel), parse every
    Print Assumptions; returns (n_obligations, n_discharged, problems, axioms)"""
    from concurrent.futures import ThreadPoolExecutor
    files = list(files or ['Props_%s.v' % prop])
    probs = []
    for fn in files:
        if not os.path.exists(os.path.join(d, fn)):
            return len(theorems), 0, ['missing ' + fn], {}
    with ThreadPoolExecutor(max_workers=len(files)) as ex:
        runs = list(ex.map(lambda fn: C.sh('cd %s && timeout 900 coqc %s %s' % (d, logical, fn)), files))
    declared, printed, axioms = [], [], {}
    for fn, r in zip(files, runs):
        if r.returncode != 0:
            m = re.search(r'File "\./%s", line (\d+)' % re.escape(fn), r.stdout)
            which = '?'
            if m:
                upto = open(os.path.join(d, fn)).read().splitlines()[:int(m.group(1))]
                names = re.findall(r'Theorem\s+(\w+)', '\n'.join(upto))
                which = names[-1] if names else '?'
            return len(theorems), 0, ['theorem %s in %s no longer checks: %s' % (which, fn, r.stdout[-600:])], {}
        src = strip_comments(open(os.path.join(d, fn)).read())
        declared += re.findall(r'Theorem\s+(\w+)', src)
        pr = re.findall(r'Print Assumptions\s+(\w+)', src)
        printed += pr
        # split coqc output into per-Print blocks
        blocks = re.split(r'(?=Closed under the global context|Axioms:)', r.stdout)
        blocks = [b for b in blocks if b.startswith('Closed') or b.startswith('Axioms:')]
        if len(blocks) != len(pr):
            probs.append('could not match Print Assumptions output of %s (%d blocks, %d commands)' % (fn, len(blocks), len(pr)))
        for name, b in zip(pr, blocks):
            if b.startswith('Closed'):
                axioms[name] = []
            else:
                axs = re.findall(r'^(\S+)\s*:', b[len('Axioms:'):], re.M)
                axioms[name] = axs
                for a in axs:
                    if a not in ALLOWED_AXIOMS:
                        probs.append('theorem %s depends on axiom %s' % (name, a))
    for t in theorems:
        if t not in declared:
            probs.append('theorem %s not stated in %s' % (t, ' / '.join(files)))
        if t not in printed:
            probs.append('no Print Assumptions for %s' % t)
    discharged = sum(1 for t in theorems if t in declared and t in axioms and not any(t in p for p in probs))
    return len(theorems), discharged, probs, axioms


def main():
    ap = argparse.ArgumentParser()
    ap.add_argument('prop')
    ap.add_argument('--tier', default=os.environ.get('VERIF_TIER', 'quick'))
    ap.add_argument('--replay')
    ap.add_argument('--seed', type=int, default=int(os.environ.get('VERIF_SEED', '20260929')))
    ap.add_argument('--no-build', action='store_true')
    a = ap.parse_args()
    prop, tier = a.prop, a.tier
    if tier not in ('quick', 'thorough'):
        tier = 'quick'
    t0 = time.time()
    mod = importlib.import_module('props.' + prop.lower())
    violations = []      # (what, replay_lines, no_input)
    notes = []

    # ---- builds
    try:
        if not a.no_build:
            drivers = tuple(getattr(mod, 'DRIVERS', ('awkdrv',)))
            C.build_impl(False, drivers)
            if getattr(mod, 'NEEDS_SAN', False) and tier == 'thorough':
                C.build_impl(True, drivers)
    except C.BuildError as e:
        # the tree no longer builds: nothing can be shown
        p = C.write_replay(prop, 'build', ['implementation build failed'], [str(e)[-3000:].replace('\n', '\n# ')])
        print('VIOLATION property=%s replay=%s no-failing-input-found' % (prop, p))
        sys.exit(1)
    rocq_probs = []
    try:
        if not a.no_build:
            C.build_model()
    except C.BuildError as e:
        rocq_probs.append(str(e)[-1500:])
    core = os.path.join(C.VERIF, 'coq')
    coqdir = getattr(mod, 'COQ_DIR', core)
    logical = getattr(mod, 'COQ_LOGICAL', '-R . AwkV')
    if hasattr(mod, 'build') and not a.no_build:
        try:
            mod.build()
        except C.BuildError as e:
            rocq_probs.append(str(e)[-1500:])
    rocq_probs += audit([core] + ([coqdir] if coqdir != core else []))
    n_obl, n_dis, probs, axioms = rocq_obligations(prop, mod.THEOREMS, coqdir, logical, getattr(mod, 'PROPS_FILES', None))
    rocq_probs += probs
    # Python half (the real /repo Python layer under pyshim against the value-level specifications of cpy/coq)
    PH = None
    if getattr(mod, 'PY_HALF', False):
        import pyhalves as PH
        try:
            if not a.no_build:
                PH.build(impl=True)
            n2, d2, probs2, ax2 = PH.rocq_obligations(prop)
            n_obl += n2
            n_dis += d2
            rocq_probs += probs2
            axioms.update(ax2)
        except C.BuildError as e:
            rocq_probs.append(str(e)[-1500:])
            PH = None

    # ---- correspondence
    rng = random.Random(a.seed)
    if a.replay:
        cases = mod.replay_cases(a.replay) if hasattr(mod, 'replay_cases') else default_replay(a.replay)
    else:
        cases = mod.cases(rng, tier)
        # corpus first: minimised past failures (modules with their own CORPUS handling load them themselves)
        cdir = os.path.join(C.VERIF, 'corpus', prop)
        if not hasattr(mod, 'CORPUS') and not hasattr(mod, 'corpus_cases') and os.path.isdir(cdir):
            pre = []
            for fn in sorted(os.listdir(cdir)):
                if fn.endswith('.case'):
                    for k, cc in enumerate(default_replay(os.path.join(cdir, fn))):
                        cc.id = 'corpus-%s-%s' % (fn[:-5], cc.id)
                        cc.meta = dict(nontrivial=True, tags=dict(stream='corpus'), corpus=True)
                        pre.append(cc)
            cases = pre + cases
    C.log('%d cases' % len(cases))
    summary = mod.run(cases, tier, rng) if hasattr(mod, 'run') else default_run(mod, cases, tier)
    if PH is not None and not a.replay:
        rng2 = random.Random(a.seed * 7919 + 13)
        pcases = PH.CASES[prop](rng2, tier)
        s2 = getattr(PH, 'run_' + prop)(pcases, tier, rng2)
        C.log('python half: %d calls, verdicts %s' % (s2['evaluations'], s2.get('verdicts')))
        summary['findings'] = list(summary['findings']) + list(s2['findings'])
        summary['corr_obligations'] = dict(summary['corr_obligations'], **s2['corr_obligations'])
        summary['evaluations'] += s2['evaluations']
        summary['distinct_nontrivial'] += s2['distinct_nontrivial']
        summary['samples'] = list(summary['samples'][:4]) + list(s2['samples'][:3])
        summary.setdefault('extra', {})
        summary['extra']['python_half'] = dict(verdicts=s2.get('verdicts'), distribution=s2.get('distribution'),
                                               **s2.get('extra', {}))
    corr_obl = summary['corr_obligations']       # dict name -> ok(bool)
    known = C.load_known()
    out_lines = []
    exit_code = 0
    nviol = 0
    for f in summary['findings']:
        # f: dict(kind, what, case_lines, signature)
        k = match_known(known, prop, f)
        if k is not None:
            out_lines.append('KNOWN-FINDING: property=%s %s' % (prop, k['what']))
            continue
        nviol += 1
        name = 'v%d' % nviol
        p = C.write_replay(prop, name, ['property %s tier %s seed %d' % (prop, tier, a.seed), f['what']],
                           f['case_lines'])
        if nviol <= 5:
            out_lines.append('VIOLATION property=%s replay=%s%s' % (
                prop, p, ' no-failing-input-found' if f.get('no_input') else ''))
        exit_code = 1
    if rocq_probs:
        p = C.write_replay(prop, 'rocq', ['Rocq obligations of %s no longer check' % prop], ['# ' + x.replace('\n', '\n# ') for x in rocq_probs])
        out_lines.append('VIOLATION property=%s replay=%s no-failing-input-found' % (prop, p))
        exit_code = 1
        nviol += 1
    seen = set()
    for l in out_lines:
        if l not in seen:
            print(l)
            seen.add(l)

    # ---- evidence
    obligations = n_obl + len(corr_obl)
    discharged = n_dis + sum(1 for v in corr_obl.values() if v)
    cov = dict(
        obligations=obligations, discharged=discharged,
        checker_cmd='coqc -R /verif/coq AwkV Props_%s.v (after full make of /verif/coq); bin/check %s --tier %s' % (prop, prop, tier),
        trusted_base=mod.TRUSTED_BASE if hasattr(mod, 'TRUSTED_BASE') else DEFAULT_TB,
        theorems={t: ('axioms: ' + ', '.join(axioms[t]) if axioms.get(t) else 'closed under the global context')
                  for t in list(mod.THEOREMS) + (PH.THEOREMS_BY_PROP.get(prop, []) if PH else []) if t in axioms},
        correspondence_obligations=corr_obl,
        evaluations=summary['evaluations'], distinct_nontrivial=summary['distinct_nontrivial'],
        rule=mod.RULE, samples=summary['samples'][:6], distribution=summary.get('distribution', {}),
        verdicts=summary.get('verdicts', {}), rocq_problems=rocq_probs,
    )
    cov.update(summary.get('extra', {}))
    C.write_evidence(prop, tier, a.seed, cov, time.time() - t0, nviol, mod.ASSUMPTIONS)
    C.log('done: exit %d, %d violation(s), obligations %d/%d' % (exit_code, nviol, discharged, obligations))
    sys.exit(exit_code)


KNOWN = C.load_known()

DEFAULT_TB = [
    'Rocq kernel: coqc 8.16.1 (vm_compute used; native_compute not used)',
    'no axioms: every property theorem is closed under the global context (parsed from Print Assumptions on this run)',
    'extraction: ExtrOcamlBasic only, no Extract Constant, Z/positive/nat kept inductive; OCaml 4.13.1; hand-written reader/printer (ocaml/rd.ml, sx.ml, modelrun.ml)',
    'correspondence harness: generators, case syntax, C++ driver impl/drv (layout builder/dumper), verdict logic',
    'RapidJSON substitute impl/rapidjson_shim (libawkward is compiled against it)',
    'model vs code: Coq definitions in coq/*.v are hand-written models of the C++; tied by differential testing only',
]


def match_known(known, prop, f):
    for k in known:
        if k.get('status') == 'fixed':
            continue
        if k.get('property') != prop and prop not in k.get('also', []):
            continue
        sig = k.get('signature')
        if sig and sig == f.get('signature'):
            return k
    return None


def default_replay(path):
    cases = []
    for ln in open(path):
        ln = ln.strip()
        if not ln or ln.startswith('#'):
            continue
        m = re.match(r'^\((\S+) (\S+) (.*)\)$', ln)
        cases.append(C.Case(m.group(1), m.group(2), [m.group(3)], [], {}))
    return cases


def default_run(mod, cases, tier):
    """evaluate cases; verdict classes: agree / viol / modeldiff / crash / skip / bad"""
    t = time.time()
    san = getattr(mod, 'NEEDS_SAN', False) and tier == 'thorough'
    res = C.evaluate(cases, san=san)
    C.log('evaluated in %.1fs' % (time.time() - t))
    verd = {}
    findings = []
    per_op_ok = {}
    distinct = set()
    samples = []
    dist = {}
    for c, impl, v, err in res:
        kind = v.split(' ', 1)[0]
        verd[kind] = verd.get(kind, 0) + 1
        op = c.op
        per_op_ok.setdefault('corr:' + op, True)
        for k2, v2 in (c.meta.get('tags') or {}).items():
            dist.setdefault(k2, {})
            dist[k2][str(v2)] = dist[k2].get(str(v2), 0) + 1
        if kind in ('agree',):
            if c.meta.get('nontrivial', True):
                distinct.add(c.body())
            if len(samples) < 6 and c.meta.get('nontrivial', True):
                samples.append(c.line()[:400])
            continue
        if kind == 'skip':
            continue
        if kind == 'bad':
            # harness/model defect, never a property verdict: fail closed
            per_op_ok['corr:' + op] = False
            findings.append(dict(kind='bad', what='correspondence corr:%s could not be evaluated: %s' % (op, v[:300]),
                                 case_lines=[c.line()], signature=None, no_input=True, size=len(c.line())))
            continue
        sig = mod.signature(c, impl, v) if hasattr(mod, 'signature') else None
        if sig is not None and match_known(KNOWN, mod.__name__.split('.')[-1].upper(), dict(signature=sig)) is None:
            per_op_ok['corr:' + op] = False
        elif sig is None:
            per_op_ok['corr:' + op] = False
        if kind == 'viol' or kind == 'crash':
            what = '%s: implementation %s  [%s]' % (op, 'crashed/hung (%s)' % impl if kind == 'crash' else 'differs from specification', v[:600])
            findings.append(dict(kind=kind, what=what, case_lines=[c.line(), '# impl: ' + impl[:1000], '# verdict: ' + v[:1500]] +
                                 (['# stderr: ' + err.replace('\n', '\n# ')] if err else []),
                                 signature=sig, size=len(c.line())))
        else:  # modeldiff
            findings.append(dict(kind=kind, what='correspondence corr:%s broken (model differs from implementation and spec) [%s]' % (op, v[:600]),
                                 case_lines=[c.line(), '# impl: ' + impl[:1000], '# verdict: ' + v[:1500]],
                                 signature=sig, no_input=True, size=len(c.line())))
    # keep the smallest representative per (kind, op, signature)
    best = {}
    for f in findings:
        key = (f['kind'], f['what'].split(':')[0], str(f['signature']))
        if key not in best or f['size'] < best[key]['size']:
            best[key] = f
    # real violations first
    fl = sorted(best.values(), key=lambda f: (f.get('no_input', False), f['size']))
    return dict(findings=fl, corr_obligations=per_op_ok, evaluations=len(cases), distinct_nontrivial=len(distinct),
                samples=samples, distribution=dist, verdicts=verd)


if __name__ == '__main__':
    main()
