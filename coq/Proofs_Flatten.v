(** flatten: the layout-level [flatten_model] (C++ offsets_and_flattened: inner offsets handed upwards)
    refines the value-level [flatten_spec], values and error status, every axis (positive, negative,
    negative through records of mixed depth), on valid layouts without unions and without EmptyArray. *)
From Coq Require Import ZArith List Bool Lia ZifyBool.
From AwkV Require Import Base Layout LayoutInd Valid Types Carry AtAxis Ops_Struct Ops_Flatten Typing Proofs_Typing
                         Proofs_Lists Proofs_ToList Proofs_Carry Proofs_CarryValid Proofs_AtAxis Proofs_AtAxisOps
                         Proofs_Fillna Proofs_FlattenA Proofs_FlattenB.
Import ListNotations.
Open Scope Z_scope.

Notation CA := flat_chk.
Notation SV := flat_sv.

(* ---------------------------------------------------------------- the list node directly above the flattened level *)
Lemma deep_list_cons bs K inner fc :
  inner <> [] ->
  deep_list bs K (inner, fc) =
  do s <- remap inner (map fst (map normb bs)); do e <- remap inner (map snd (map normb bs)); Ok ([], ListA I64 s e fc).
Proof. destruct inner; [congruence|reflexivity]. Qed.

Lemma deep_list_spec t' vs0 Ls0 fc0 bs Ls K :
  mapM elems_of vs0 = Ok Ls0 -> to_list fc0 = Ok (concat Ls0) -> mapM (cut1 vs0) bs = Ok Ls ->
  exists s e FL, deep_list bs K (offsets_from 0 (map zlen Ls0), fc0) = Ok ([], ListA I64 s e fc0) /\
                 to_list (ListA I64 s e fc0) = Ok (map VList FL) /\
                 mapM (flat_f t') Ls = Ok (map VList FL).
Proof.
  intros HLs0 Hl0 Hcut. set (inner := offsets_from 0 (map zlen Ls0)).
  pose proof (mapM_zlen _ _ _ HLs0) as Hz.
  set (A := fun ab : Z * Z => off Ls0 (fst (normb ab))). set (B := fun ab : Z * Z => off Ls0 (snd (normb ab))).
  set (G := fun ab : Z * Z => concat (take (snd (normb ab) - fst (normb ab)) (drop (fst (normb ab)) Ls0))).
  assert (Hrange : forall ab, In ab bs -> 0 <= fst (normb ab) /\ fst (normb ab) <= snd (normb ab) /\ snd (normb ab) <= zlen Ls0).
  { intros ab Hin. destruct (mapM_Ok_In _ _ _ _ Hcut Hin) as (l & Hl & _). rewrite Hz. eapply normb_range, Hl. }
  assert (Hs : remap inner (map fst (map normb bs)) = Ok (map A bs)).
  { unfold remap. rewrite !mapM_map, <- mapM_pure. apply mapM_ext_in. intros ab Hin. subst inner A. cbv beta.
    apply get_inner. specialize (Hrange ab Hin). lia. }
  assert (He : remap inner (map snd (map normb bs)) = Ok (map B bs)).
  { unfold remap. rewrite !mapM_map, <- mapM_pure. apply mapM_ext_in. intros ab Hin. subst inner B. cbv beta.
    apply get_inner. specialize (Hrange ab Hin). lia. }
  exists (map A bs), (map B bs), (map G bs). split; [|split].
  - fold inner. rewrite deep_list_cons by apply offsets_from_nonempty. rewrite Hs, He. reflexivity.
  - rewrite to_list_ListA, Hl0. cbn [bind]. unfold cut2. rewrite !zlen_map, Z.ltb_irrefl.
    rewrite zip_map_same, mapM_map.
    rewrite (mapM_ext_in _ (fun ab => Ok (G ab))); [rewrite mapM_pure; cbn [rmap]; rewrite map_map; reflexivity|].
    intros ab Hin. subst A B G. cbv beta. specialize (Hrange ab Hin). apply cut_off; lia.
  - rewrite (mapM_mapM _ _ _ _ Hcut).
    rewrite (mapM_ext_in _ (fun ab => Ok (VList (G ab)))); [rewrite mapM_pure, map_map; reflexivity|].
    intros ab Hin. destruct (mapM_Ok_In _ _ _ _ Hcut Hin) as (L & HL & _). rewrite HL. cbn [bind]. unfold flat_f.
    destruct (cut1_mapM_gen elems_of vs0 Ls0 ab L HLs0 HL) as (EL & HcE & HmE). rewrite HmE. cbn [bind].
    do 3 f_equal. subst G. cbv beta. rewrite <- cut1_normb in HcE. destruct (normb ab) as [a' b']. cbn [fst snd].
    unfold cut1 in HcE. destruct (a' =? b') eqn:E.
    + inversion HcE. replace (b' - a') with 0 by lia. reflexivity.
    + apply slice_inv in HcE as (_ & _ & _ & ->). reflexivity.
Qed.

(* ---------------------------------------------------------------- nodes above the flattened level *)
Definition B_at (c : content) : Prop :=
  forall d a vs, 0 <= d -> (0 <= a -> d + 1 <= a) -> Valid None c -> frag1 c = true -> noempty c = true ->
  to_list c = Ok vs -> resolve_axis (type_of_p None c) d a <> Ok (d + 1) ->
  refB (flat_p None c d a) (CA (type_of_p None c) d (a - 1)) (mapM (SV (type_of_p None c) d (a - 1)) vs).

(* list nodes *)
Lemma list_B c cc K bs sz d a vs0 Ls :
  0 <= d -> (0 <= a -> d + 1 <= a) ->
  type_of_p None c = TList sz None (type_of_p None cc) ->
  (forall ax, flat_body None c d ax = at_list_m None d ax bs cc K) ->
  (forall c' ws0 ls', to_list c' = Ok ws0 -> zlen ws0 = zlen vs0 -> mapM (cut1 ws0) bs = Ok ls' ->
                      to_list (K c') = Ok (map VList ls')) ->
  Valid None cc -> frag1 cc = true -> noempty cc = true -> to_list cc = Ok vs0 -> mapM (cut1 vs0) bs = Ok Ls ->
  B_at cc ->
  resolve_axis (type_of_p None c) d a <> Ok (d + 1) ->
  refB (flat_p None c d a) (CA (type_of_p None c) d (a - 1)) (mapM (SV (type_of_p None c) d (a - 1)) (map VList Ls)).
Proof.
  intros Hd Ha Ht Hb HK HV Hfr Hne Hl0 Hcut IH HnA.
  apply refB_enter; try assumption.
  - intros ax Hr Hnd Hnd1 Hge Hax Hr'. rewrite Hb, Ht. rewrite Ht in Hr. unfold at_list_m.
    destruct (ax =? d + 1) eqn:E; [lia|]. cbn [check_body].
    destruct (Z.eq_dec ax (d + 2)) as [->|Hn2].
    + (* the lists below are the flattened ones *)
      destruct (d + 2 - 1 =? d + 1) eqn:E2; [|lia].
      pose proof (flat_level_spec cc (d + 1) vs0 ltac:(lia) HV (frag1_noempty_okA _ Hfr Hne) Hl0) as HA.
      replace (d + 1 + 1) with (d + 2) in HA by ring. unfold type_of in HA.
      destruct (is_plain_list (type_of_p None cc)) eqn:Ep.
      * destruct HA as (Ls0 & fc0 & -> & HLs0 & Hlf & HVf). cbn [bind].
        destruct (deep_list_spec (type_of_p None cc) vs0 Ls0 fc0 bs Ls K HLs0 Hlf Hcut) as (s & e & FL & Hdl & Hlt & Hff).
        rewrite Hdl. cbn [refB andb orb]. split; [reflexivity|]. split; [reflexivity|].
        exists (map VList FL). split; [|exact Hlt].
        rewrite mapM_map, <- Hff. apply mapM_ext_in. intros l _. cbn [spec_body]. rewrite E2. reflexivity.
      * rewrite HA. cbn [bind refB andb]. reflexivity.
    + destruct (ax - 1 =? d + 1) eqn:E2; [lia|].
      eapply refB_bind with (K := K) (sv0 := mapM (SV (type_of_p None cc) (d + 1) (ax - 1)) vs0).
      * apply IH; try assumption; try lia.
        destruct (Z_lt_le_dec ax 0) as [Hlt|Hge0].
        -- pose proof (Hax Hlt) as Heq. subst ax. replace (d + 1 + 1) with (d + 2) by ring.
           eapply resolve_list_child; [exact Hd|exact Hlt|exact Hr].
        -- rewrite resolve_nonneg by exact Hge0. intros H. inversion H. lia.
      * intros fc. reflexivity.
      * intros fc ws0 _ Hfc HF.
        destruct (cuts_mapM (SV (type_of_p None cc) (d + 1) (ax - 1)) vs0 ws0 bs Ls HF Hcut) as (ls' & Hls' & Hm).
        exists (map VList ls'). split.
        -- rewrite mapM_map, <- Hm. apply mapM_ext_in. intros l _. cbn [spec_body]. rewrite E2. reflexivity.
        -- eapply HK; [exact Hfc|apply (mapM_zlen _ _ _ HF)|exact Hls'].
  - intros Hneg Hmix Hm. rewrite Hb. unfold at_list_m. destruct (a =? d + 1) eqn:E; [lia|]. rewrite Ht in Hmix, Hm.
    rewrite flat_p_eq, (resolve_list_child_L sz _ d a Hneg Hmix Hm). reflexivity.
Qed.

(* option nodes *)
Lemma opt_B c c' (K : content -> content) {I} (ixs : list I) (b : I -> bool) (idx : I -> Z)
      (step : list Z * content -> res (list Z * content)) d a vs0 vs :
  0 <= d ->
  type_of_p None c = TOpt (type_of_p None c') ->
  (forall ax, flat_body None c d ax = do r <- flat_p None c' d ax; step r) ->
  (forall fc, step ([], fc) = Ok ([], K fc)) ->
  (forall x, In x vs0 -> x <> VNone) ->
  (forall fc ws0 ws, to_list fc = Ok ws0 -> mapM (fun i => pick_opt ws0 (b i) (idx i)) ixs = Ok ws -> to_list (K fc) = Ok ws) ->
  mapM (fun i => pick_opt vs0 (b i) (idx i)) ixs = Ok vs ->
  refB (flat_p None c' d a) (CA (type_of_p None c') d (a - 1)) (mapM (SV (type_of_p None c') d (a - 1)) vs0) ->
  refB (flat_p None c d a) (CA (type_of_p None c) d (a - 1)) (mapM (SV (type_of_p None c) d (a - 1)) vs).
Proof.
  intros Hd Ht Hb Hstep Hnn HK Hvs IH.
  rewrite (flat_p_wrap None c c' d a step Hd) by (rewrite ?Ht; reflexivity || exact Hb).
  rewrite Ht. unfold flat_chk. rewrite CA_opt by exact Hd.
  eapply refB_bind; [exact IH|exact Hstep|].
  intros fc ws0 Hchk Hfc HF. destruct (CA_resolves _ _ _ _ _ _ Hchk) as (x & Hx).
  destruct (mapM_square (fun i => pick_opt vs0 (b i) (idx i)) (fun i => pick_opt ws0 (b i) (idx i))
                        (optF (SV (type_of_p None c') d (a - 1))) ixs vs) as (ws & Hq & Hs); [|exact Hvs|].
  { intros i v _ Hp. eapply pick_square; eassumption. }
  exists ws. split; [|eapply HK; eassumption].
  rewrite <- Hs. apply mapM_ext_in. intros v _. unfold flat_sv. eapply SV_opt; eassumption.
Qed.

(* strings: nothing below or at a string can be flattened *)
Lemma string_B arr rn c0 d a vs :
  is_strk arr = true -> Valid arr c0 -> 0 <= d -> (0 <= a -> d + 1 <= a) ->
  resolve_axis (type_of_p arr c0) d a <> Ok (d + 1) ->
  refB (flat_p None (Par arr rn c0) d a) (CA (type_of_p arr c0) d (a - 1)) (mapM (SV (type_of_p arr c0) d (a - 1)) vs).
Proof.
  intros Es HV Hd Ha HnA.
  assert (Hp : ParamOk arr c0) by (inversion HV; subst; try assumption; discriminate).
  destruct (ParamOk_str arr c0 Hp Es) as (cc & k & rn' & n & dd & Hcc & Hccdef & Hk).
  assert (Hty : exists sz b, type_of_p arr c0 = TList sz (Some b) (TNum DUInt8)).
  { destruct arr as [[]|]; try discriminate; destruct c0; try discriminate; cbn [list_content] in Hcc; inversion Hcc; subst;
      cbn [type_of_p strflag tl numpy_ty]; eauto. }
  destruct Hty as (sz & b & Hty).
  change (type_of_p arr c0) with (type_of_p None (Par arr rn c0)) in *.
  apply refB_enter; try assumption.
  - intros ax Hr Hnd Hnd1 Hge Hax Hr'. cbn [type_of_p] in *. rewrite Hty in *.
    assert (Hax0 : 0 <= ax).
    { destruct (Z_lt_le_dec ax 0) as [Hlt|]; [|assumption]. exfalso. rewrite (Hax Hlt) in *. revert Hr.
      unfold resolve_axis. cbn [minmax]. destruct (0 <=? a) eqn:E0; [lia|]. rewrite Z.eqb_refl.
      destruct (1 + a <? 0); [discriminate|]. intros H. inversion H. lia. }
    specialize (Hge Hax0).
    assert (Hchars : flat_p None cc (d + 1) ax = Err EValue).
    { subst cc. rewrite flat_p_at by lia. cbn [flat_body]. rewrite flat_p_at by lia. reflexivity. }
    assert (Hm : flat_body None (Par arr rn c0) d ax = Err EValue).
    { cbn [flat_body]. rewrite flat_p_at by lia.
      destruct c0; try discriminate; cbn [list_content] in Hcc; inversion Hcc; subst; inversion HV; subst; cbn [flat_body].
      - match goal with H : 1 <= zlen ?o |- _ => destruct o; [cbn in H; lia|] end.
        unfold at_list_m. destruct (ax =? d + 1) eqn:E; [lia|]. rewrite Hchars. reflexivity.
      - match goal with |- context [zlen ?e <? zlen ?s] => destruct (zlen e <? zlen s) eqn:E0; [lia|] end.
        unfold at_list_m. destruct (ax =? d + 1) eqn:E; [lia|]. rewrite Hchars. reflexivity.
      - cbn [list_bounds]. match goal with |- context [?size <? 0] => destruct (size <? 0) eqn:E0; [lia|] end.
        cbn [bind fst]. unfold at_list_m. destruct (ax =? d + 1) eqn:E; [lia|]. rewrite Hchars. reflexivity. }
    rewrite Hm. cbn [refB check_body]. destruct (ax - 1 =? d + 1).
    + reflexivity.
    + apply chars_check.
  - intros Hneg Hmix _. exfalso. rewrite Hty in Hmix. cbn [minmax fst snd] in Hmix. congruence.
Qed.

(* ---------------------------------------------------------------- records *)
Definition field_ok (d ax : Z) (x : content) (vs : list value) : Prop :=
  match flat_p None x d ax with
  | Ok ([], fc) =>
      resolve_axis (type_of_p None x) d ax <> Ok (d + 1) /\ CA (type_of_p None x) d (ax - 1) = Ok tt /\
      exists ws, mapM (SV (type_of_p None x) d (ax - 1)) vs = Ok ws /\ to_list fc = Ok ws
  | Ok (_ :: _, _) => resolve_axis (type_of_p None x) d ax = Ok (d + 1)
  | Err EValue => CA (type_of_p None x) d (ax - 1) = Err EValue \/ resolve_axis (type_of_p None x) d ax = Ok (d + 1)
  | Err _ => False
  end.

Lemma field_ok_of x d ax vs :
  0 <= d -> (0 <= ax -> d + 1 <= ax) -> Valid None x -> frag1 x = true -> noempty x = true -> to_list x = Ok vs ->
  B_at x -> field_ok d ax x vs.
Proof.
  intros Hd Ha HV Hfr Hne Hl HB. unfold field_ok.
  assert (Hdec : resolve_axis (type_of_p None x) d ax = Ok (d + 1) \/ resolve_axis (type_of_p None x) d ax <> Ok (d + 1)).
  { destruct (resolve_axis (type_of_p None x) d ax) as [r|e]; [|right; discriminate].
    destruct (Z.eq_dec r (d + 1)) as [->|Hn]; [left; reflexivity|right; congruence]. }
  destruct Hdec as [Hr|Hr].
  - rewrite <- (flat_p_resolved None x d ax (d + 1) Hd Hr).
    pose proof (flat_level_spec x d vs Hd HV (frag1_noempty_okA _ Hfr Hne) Hl) as HA.
    destruct (is_plain_list (type_of x)).
    + destruct HA as (Ls & fc & -> & _). destruct (offsets_from 0 (map zlen Ls)) eqn:E; [exfalso; eapply offsets_from_nonempty, E|].
      exact Hr.
    + rewrite HA. right. exact Hr.
  - specialize (HB d ax vs Hd Ha HV Hfr Hne Hl Hr). destruct (flat_p None x d ax) as [[inner fc]|[]]; cbn [refB] in HB; try contradiction.
    + destruct HB as (-> & Hc & Hws). auto.
    + left. exact HB.
Qed.

Lemma rec_all_spec d ax : forall cs vss,
  Forall (fun x => forall vs, to_list x = Ok vs -> field_ok d ax x vs) cs ->
  mapM to_list cs = Ok vss ->
  match rec_all (fun x => flat_p None x d ax) cs with
  | Ok cs' =>
      Forall (fun x => resolve_axis (type_of_p None x) d ax <> Ok (d + 1) /\ CA (type_of_p None x) d (ax - 1) = Ok tt) cs /\
      exists wss, mapM to_list cs' = Ok wss /\
                  cols_rel (map (fun t => SV t d (ax - 1)) (map (type_of_p None) cs)) vss wss
  | Err EValue =>
      Exists (fun x => CA (type_of_p None x) d (ax - 1) = Err EValue \/ resolve_axis (type_of_p None x) d ax = Ok (d + 1)) cs
  | Err _ => False
  end.
Proof.
  induction cs as [|x xs IH]; intros vss HF Hv.
  - inversion Hv; subst. cbn [rec_all]. split; [constructor|]. exists []. split; [reflexivity|constructor].
  - cbn [mapM] in Hv. apply bind_Ok in Hv as (col & Hcol & Hv). apply bind_Ok in Hv as (vss' & Hvss' & Hv). inversion Hv; subst.
    inversion HF as [|? ? Hx Hxs]; subst. specialize (Hx col Hcol). specialize (IH vss' Hxs Hvss').
    cbn [rec_all]. unfold field_ok in Hx.
    destruct (flat_p None x d ax) as [[[|i0 inner] fc]|[]]; cbn [bind fst snd]; try contradiction.
    + destruct Hx as (Hnr & Hc & ws & Hs & Ht).
      destruct (rec_all (fun x0 => flat_p None x0 d ax) xs) as [xs'|[]]; cbn [bind]; try contradiction.
      * destruct IH as (HFa & wss & Hwss & Hrel). split; [constructor; auto|].
        exists (ws :: wss). cbn [mapM map]. rewrite Ht, Hwss. split; [reflexivity|]. constructor; assumption.
      * apply Exists_cons_tl. exact IH.
    + apply Exists_cons_hd. right. exact Hx.
    + apply Exists_cons_hd. exact Hx.
Qed.

Lemma check_all_ok d ax ts :
  Forall (fun t => CA t d ax = Ok tt) ts -> check_all true is_plain_list true d ax ts = Ok tt.
Proof.
  induction 1 as [|t ts Ht _ IH]; [reflexivity|]. rewrite check_all_cons. unfold flat_chk in Ht. rewrite Ht. exact IH.
Qed.

Lemma resolve_neg_A t d a : 0 <= d -> a < 0 -> resolve_axis t d a = Ok (d + 1) -> fst (minmax t) + a = 1.
Proof.
  intros Hd Ha. unfold resolve_axis. destruct (0 <=? a) eqn:E0; [lia|]. destruct (minmax t) as [mn mx]. cbn [fst].
  destruct (mn =? mx) eqn:Em.
  - destruct (mx + a <? 0); [discriminate|]. intros H. inversion H. lia.
  - destruct (mn + a =? 0); [discriminate|]. intros H. inversion H. lia.
Qed.
Lemma resolve_neg_stays t d a : 0 <= d -> a < 0 -> resolve_axis t d a = Ok a -> fst (minmax t) + a <> 0.
Proof.
  intros Hd Ha. unfold resolve_axis. destruct (0 <=? a) eqn:E0; [lia|]. destruct (minmax t) as [mn mx]. cbn [fst].
  destruct (mn =? mx) eqn:Em.
  - destruct (mx + a <? 0) eqn:E; [discriminate|]. intros H. inversion H. lia.
  - destruct (mn + a =? 0) eqn:E; [discriminate|]. lia.
Qed.
Lemma resolve_at_min t d a :
  a < 0 -> fst (minmax t) + a = 1 -> resolve_axis t d a = Ok (d + 1) \/ resolve_axis t d (a - 1) = Err EValue.
Proof.
  intros Ha Hm. unfold resolve_axis. destruct (0 <=? a) eqn:E0; [lia|]. destruct (0 <=? a - 1) eqn:E1; [lia|].
  destruct (minmax t) as [mn mx]. cbn [fst] in Hm. destruct (mn =? mx) eqn:Em.
  - left. destruct (mx + a <? 0) eqn:E; [lia|]. f_equal. lia.
  - right. destruct (mn + (a - 1) =? 0) eqn:E; [reflexivity|lia].
Qed.

Lemma record_B cs ks n d a vs :
  0 <= d -> (0 <= a -> d + 1 <= a) -> Valid None (Record cs ks n) -> frag1 (Record cs ks n) = true ->
  noempty (Record cs ks n) = true -> to_list (Record cs ks n) = Ok vs ->
  Forall B_at cs ->
  resolve_axis (type_of_p None (Record cs ks n)) d a <> Ok (d + 1) ->
  refB (flat_p None (Record cs ks n) d a) (CA (type_of_p None (Record cs ks n)) d (a - 1))
       (mapM (SV (type_of_p None (Record cs ks n)) d (a - 1)) vs).
Proof.
  intros Hd Ha HV Hfr Hne Hl IH HnA. inversion HV; subst.
  match goal with H : Forall (Valid None) cs |- _ => rename H into HVs end.
  rewrite to_list_Record in Hl. apply bind_Ok in Hl as (vss & Hvss & Hl). rewrite all_lists_mapM in Hvss.
  destruct (n <? 0) eqn:En; [discriminate|].
  cbn [frag1] in Hfr. apply frag1_all in Hfr. cbn [noempty] in Hne. apply noempty_all in Hne.
  assert (HF : forall ax, (0 <= ax -> d + 1 <= ax) ->
                 Forall (fun x => forall vs, to_list x = Ok vs -> field_ok d ax x vs) cs).
  { intros ax Hax. apply Forall_forall. intros x Hx col Hcol. rewrite Forall_forall in IH, Hfr, Hne, HVs.
    apply field_ok_of; auto. }
  apply refB_enter; try assumption.
  - intros ax Hr Hnd Hnd1 Hge Hax Hr'. cbn [flat_body type_of_p check_body].
    destruct (ax =? d + 1) eqn:E; [lia|].
    pose proof (rec_all_spec d ax cs vss (HF ax ltac:(lia)) Hvss) as HR.
    destruct (rec_all (fun x => flat_p None x d ax) cs) as [cs'|[]]; cbn [bind refB]; try contradiction.
    + destruct HR as (HFa & wss & Hwss & Hrel). split; [reflexivity|]. split.
      * apply check_all_ok. apply Forall_map. eapply Forall_impl; [|exact HFa]. cbv beta. intros x [_ Hx]. exact Hx.
      * destruct (mapM_square (row ks vss) (row ks wss)
                    (recS (map (fun t => SV t d (ax - 1)) (map (type_of_p None) cs))) (iota n) vs) as (ws & Hq & Hs); [|exact Hl|].
        { intros i v _ Hrow. eapply row_commute; eassumption. }
        exists ws. split.
        -- rewrite <- Hs. apply mapM_ext_in. intros v _. cbn [spec_body].
           destruct v; try reflexivity; cbn [recS]; unfold flat_sv; rewrite ?rec_go_recF, ?tup_go_tupF; reflexivity.
        -- rewrite to_list_Record, all_lists_mapM, Hwss. cbn [bind]. rewrite En. exact Hq.
    + (* some field refuses, or is itself at the flattened level: the specification refuses *)
      apply Exists_exists in HR as (x & Hin & [Hx|Hx]).
      * eapply check_all_has_err; [apply in_map, Hin|exact Hx].
      * assert (Hlt : ax < 0).
        { destruct (Z_lt_le_dec ax 0) as [|Hge0]; [assumption|]. rewrite resolve_nonneg in Hx by exact Hge0. inversion Hx. lia. }
        pose proof (Hax Hlt) as Heq. subst ax. pose proof (resolve_neg_A _ _ _ Hd Hlt Hx) as Hm.
        cbn [type_of_p] in Hr'. set (t := TRec ks (map (type_of_p None) cs)) in *.
        assert (Hle : fst (minmax t) <= fst (minmax (type_of_p None x))).
        { subst t. rewrite minmax_TRec. apply mm_le. apply in_map, Hin. }
        pose proof (resolve_neg_stays t d (a - 1) Hd ltac:(lia) Hr') as Hn0.
        pose proof (chk_below true is_plain_list true t d (a - 1) Hd ltac:(lia) ltac:(lia)) as Hc.
        rewrite check_ax_eq, Hr' in Hc. exact Hc.
  - intros Hneg Hmix Hm. cbn [flat_body type_of_p] in *. destruct (a =? d + 1) eqn:E; [lia|].
    pose proof (rec_all_spec d a cs vss (HF a ltac:(lia)) Hvss) as HR.
    destruct (rec_all (fun x => flat_p None x d a) cs) as [cs'|[]]; cbn [bind]; try contradiction; [|reflexivity].
    exfalso. destruct HR as (HFa & _). rewrite minmax_TRec in Hmix, Hm.
    assert (Hne' : map (type_of_p None) cs <> []) by (intros E0; rewrite E0 in Hmix; cbn in Hmix; congruence).
    destruct (mm_attained _ Hne') as (tx & Hin & Htx). apply in_map_iff in Hin as (x & <- & Hin).
    rewrite Forall_forall in HFa. destruct (HFa x Hin) as [Hnr Hc].
    destruct (resolve_at_min (type_of_p None x) d a Hneg ltac:(lia)) as [Hr|Hr]; [contradiction|].
    unfold flat_chk in Hc. rewrite check_ax_eq, Hr in Hc. discriminate.
Qed.

(* ---------------------------------------------------------------- the induction *)
Lemma flat_above_all c : B_at c.
Proof.
  induction c as [dt shape data| |w o c IHc|w s e c IHc|c size zl IHc|w ix c IHc|w ix c IHc|m vw c IHc
                 |m vw lsb n c IHc|c IHc|w t ix cs IHcs|cs ks n IHcs|arr rn c IHc] using content_ind';
    intros d a vs Hd Ha HV Hfr Hne Hl HnA; pose proof HV as HV0.
  - (* Numpy *)
    cbn [frag1] in Hfr. destruct shape as [|x [|? ?]]; try discriminate.
    apply refB_enter; try assumption.
    + intros ax _ _ _ _ _ _. reflexivity.
    + intros _ Hmix _. exfalso. cbn in Hmix. congruence.
  - discriminate.
  - (* ListOffset *)
    inversion HV; subst.
    match goal with H : is_strk None = false -> Valid None c |- _ => specialize (H eq_refl); rename H into HVc end.
    rewrite to_list_ListOffset in Hl. apply bind_Ok in Hl as (vs0 & Hl0 & Hl). apply rmap_Ok in Hl as (Ls & Hcut & ->).
    unfold cut in Hcut. destruct o as [|o0 o]; [discriminate|].
    eapply (list_B _ c (ListOffset w (o0 :: o)) (pairs (o0 :: o))); try eassumption; try reflexivity.
    intros c' ws0 ls' Hc' _ Hls'. rewrite to_list_ListOffset, Hc'. cbn [bind]. unfold cut. rewrite Hls'. reflexivity.
  - (* ListA *)
    inversion HV; subst.
    match goal with H : is_strk None = false -> Valid None c |- _ => specialize (H eq_refl); rename H into HVc end.
    rewrite to_list_ListA in Hl. apply bind_Ok in Hl as (vs0 & Hl0 & Hl). apply rmap_Ok in Hl as (Ls & Hcut & ->).
    unfold cut2 in Hcut. destruct (zlen e <? zlen s) eqn:Ese; [discriminate|].
    eapply (list_B _ c (ListA w s e) (zip s e)); try eassumption; try reflexivity.
    + intros ax. cbn [flat_body]. rewrite Ese. reflexivity.
    + intros c' ws0 ls' Hc' _ Hls'. rewrite to_list_ListA, Hc'. cbn [bind]. unfold cut2. rewrite Ese, Hls'. reflexivity.
  - (* Regular *)
    inversion HV; subst.
    match goal with H : is_strk None = false -> Valid None c |- _ => specialize (H eq_refl); rename H into HVc end.
    destruct (list_bounds_spec (Regular c size zl) c vs eq_refl Hl) as (bs & vs0 & Ls & Hb & Hl0 & Hcut & ->).
    rewrite to_list_Regular, Hl0 in Hl. cbn [bind] in Hl. apply rmap_Ok in Hl as (ch & Hch & Heq).
    assert (Ls = ch).
    { clear - Heq. revert ch Heq. induction Ls as [|l Ls IH]; intros [|l' ch] H; try discriminate; [reflexivity|].
      cbn [map] in H. inversion H. f_equal. apply IH. assumption. }
    subst ch.
    eapply (list_B _ c (fun x => Regular x size zl) bs); try eassumption; try reflexivity.
    + intros ax. cbn [flat_body]. rewrite Hb. reflexivity.
    + intros c' ws0 ls' Hc' Hz Hls'. rewrite to_list_Regular, Hc'. cbn [bind].
      destruct (chunks_indep vs0 ws0 size zl Ls Hch Hz) as (ch' & Hch' & Hzc).
      rewrite Hch'. cbn [rmap]. pose proof (chunks_as_cuts _ _ _ _ Hch') as Hc2.
      pose proof (chunks_as_cuts _ _ _ _ Hch) as Hc1.
      assert (Hbs : bs = map (fun i => (i * size, (i + 1) * size)) (iota (zlen Ls))).
      { cbn [list_bounds] in Hb. destruct (size <? 0); [discriminate|]. inversion Hb; subst.
        pose proof (chunks_zlen _ _ _ _ Hch) as [_ Hzl]. rewrite (to_list_len _ _ Hl0) in Hzl. rewrite Hzl. reflexivity. }
      rewrite Hzc, <- Hbs, Hls' in Hc2. inversion Hc2; subst. reflexivity.
  - (* Indexed *)
    inversion HV; subst.
    rewrite to_list_Indexed in Hl. apply bind_Ok in Hl as (vs0 & Hl0 & Hl).
    rewrite (flat_p_wrap None (Indexed w ix c) c d a (opt_step ix (Indexed w ix)) Hd) by reflexivity.
    cbn [type_of_p] in *.
    eapply refB_bind; [apply IHc; eassumption|intros fc; reflexivity|].
    intros fc ws0 _ Hfc HF.
    destruct (gather_same_len vs0 ws0 ix) as [ws Hws]; [symmetry; apply (mapM_zlen _ _ _ HF)|eauto|].
    exists ws. split.
    + rewrite (mapM_gather_ok _ _ _ _ _ HF Hl). exact Hws.
    + rewrite to_list_Indexed, Hfc. exact Hws.
  - (* IndexedOption *)
    inversion HV; subst.
    rewrite to_list_IndexedOption in Hl. apply bind_Ok in Hl as (vs0 & Hl0 & Hl).
    assert (Hnn : forall x, In x vs0 -> x <> VNone) by (eapply nonone_values; eassumption).
    eapply (opt_B _ c (IndexedOption w ix) ix (fun i => 0 <=? i) (fun i => i) (opt_step ix (IndexedOption w ix)));
      try eassumption; try reflexivity.
    + intros fc ws0 ws Hfc Hq. rewrite to_list_IndexedOption, Hfc. exact Hq.
    + apply IHc; assumption.
  - (* ByteMasked *)
    inversion HV; subst.
    rewrite to_list_ByteMasked in Hl. apply bind_Ok in Hl as (vs0 & Hl0 & Hl).
    assert (Hnn : forall x, In x vs0 -> x <> VNone) by (eapply nonone_values; eassumption).
    eapply (opt_B _ c (ByteMasked m vw) (zip (iota (zlen m)) m)
              (fun im : Z * Z => Bool.eqb (negb (snd im =? 0)) vw) (fun im : Z * Z => fst im)
              (opt_step (fst (map (fun im : Z * Z => let (i, b) := im in if Bool.eqb (negb (b =? 0)) vw then i else -1)
                                  (zip (iota (zlen m)) m), c)) (ByteMasked m vw)));
      try eassumption; try reflexivity.
    + intros fc ws0 ws Hfc Hq. rewrite to_list_ByteMasked, Hfc. cbn [bind]. rewrite <- Hq.
      apply mapM_ext_in. intros [i b] _. reflexivity.
    + rewrite <- Hl. apply mapM_ext_in. intros [i b] _. reflexivity.
    + apply IHc; assumption.
  - (* BitMasked *)
    inversion HV; subst.
    destruct (option_index_spec (BitMasked m vw lsb n c) vs eq_refl Hl) as (oix & vs0' & Hoi & _ & _).
    cbn [option_content] in Hoi.
    rewrite to_list_BitMasked in Hl. apply bind_Ok in Hl as (vs0 & Hl0 & Hl).
    destruct (n <? 0) eqn:En; [discriminate|].
    assert (Hnn : forall x, In x vs0 -> x <> VNone) by (eapply nonone_values; eassumption).
    assert (Hbits : forall i, In i (iota n) -> exists b, bit_at m lsb i = Ok b).
    { intros i Hi. destruct (mapM_Ok_In _ _ _ _ Hl Hi) as (y & Hy & _). destruct (bit_at m lsb i); [eauto|discriminate]. }
    eapply (opt_B _ c (BitMasked m vw lsb n) (iota n)
              (fun i => match bit_at m lsb i with Ok b => Bool.eqb b vw | Err _ => false end) (fun i => i)
              (opt_step oix (BitMasked m vw lsb n)));
      try eassumption; try reflexivity.
    + intros ax. cbn [flat_body]. rewrite Hoi. reflexivity.
    + intros fc ws0 ws Hfc Hq. rewrite to_list_BitMasked, Hfc. cbn [bind]. rewrite En, <- Hq.
      apply mapM_ext_in. intros i Hi. destruct (Hbits i Hi) as [b ->]. reflexivity.
    + rewrite <- Hl. apply mapM_ext_in. intros i Hi. destruct (Hbits i Hi) as [b ->]. reflexivity.
    + apply IHc; assumption.
  - (* Unmasked *)
    inversion HV; subst. rewrite to_list_Unmasked in Hl.
    assert (Hnn : forall x, In x vs -> x <> VNone) by (eapply nonone_values; eassumption).
    rewrite (flat_p_wrap None (Unmasked c) c d a unmasked_step Hd) by reflexivity.
    cbn [type_of_p] in *. unfold flat_chk. rewrite CA_opt by exact Hd.
    eapply refB_bind with (K := Unmasked); [apply IHc; eassumption|intros fc; reflexivity|].
    intros fc ws0 Hchk Hfc HF. destruct (CA_resolves _ _ _ _ _ _ Hchk) as (x & Hx).
    exists ws0. split; [|rewrite to_list_Unmasked; exact Hfc].
    rewrite <- (optF_nonone _ vs ws0 HF Hnn). apply mapM_ext_in. intros v _. unfold flat_sv. eapply SV_opt; eassumption.
  - discriminate.
  - (* Record *)
    apply record_B; assumption.
  - (* Par *)
    inversion HV; subst.
    match goal with H : Valid arr c |- _ => rename H into HVc end.
    destruct (Valid_param arr c HVc) as [-> | Es].
    + rewrite to_list_Par in Hl. apply bind_Ok in Hl as (vs0 & Hl0 & Hl). inversion Hl; subst.
      rewrite flat_p_par_none by exact Hd. cbn [type_of_p] in *. apply IHc; assumption.
    + cbn [type_of_p] in *. apply string_B; assumption.
Qed.

(* ---------------------------------------------------------------- the theorems *)
(* [noempty]: no EmptyArray node (see [flatten_refines_spec_empty_refuted*] below) *)
Theorem flatten_refines_spec_partial : forall axis c vs,
  Valid None c -> frag c = true -> noempty c = true -> to_list c = Ok vs ->
  obs (flatten_model axis c) = flatten_spec axis (type_of c) vs.
Proof.
  intros axis c vs HV Hfr Hne Hl. unfold flatten_model, flatten_spec.
  pose proof (expand_valid c HV Hfr) as HV1. pose proof (expand_frag1 c HV Hfr) as Hfr1.
  pose proof (noempty_expand c Hne) as Hne1. pose proof (expand_to_list c HV Hfr) as Hl1. rewrite Hl in Hl1.
  pose proof (expand_type_of c HV Hfr) as Ht1. unfold type_of in *. set (c1 := expand c) in *. rewrite <- Ht1. clear Ht1.
  destruct (resolve_axis (type_of_p None c1) 0 axis) as [ax|e] eqn:Er.
  - cbn [bind]. destruct (ax =? 0) eqn:E0.
    + rewrite flat_p_eq, Er. cbn [bind]. rewrite E0. reflexivity.
    + destruct (ax =? 1) eqn:E1.
      * (* the top level is flattened *)
        assert (ax = 1) by lia. subst ax.
        rewrite <- (flat_p_resolved None c1 0 axis 1 (Z.le_refl 0) Er).
        pose proof (flat_level_spec c1 0 vs (Z.le_refl 0) HV1 (frag1_noempty_okA _ Hfr1 Hne1) Hl1) as HA.
        unfold type_of in HA. change (0 + 1) with 1 in HA.
        destruct (is_plain_list (type_of_p None c1)).
        -- destruct HA as (Ls & fc & -> & HLs & Hlf & _). cbn [bind obs snd]. rewrite HLs. cbn [bind]. exact Hlf.
        -- rewrite HA. reflexivity.
      * (* deeper *)
        assert (Hax : (if axis <? 0 then axis - 1 else ax - 1) = axis - 1).
        { destruct (axis <? 0) eqn:En; [reflexivity|]. rewrite resolve_nonneg in Er by lia. inversion Er. reflexivity. }
        rewrite Hax. unfold spec_ax.
        assert (Ha : 0 <= axis -> 0 + 1 <= axis).
        { intros H0. rewrite resolve_nonneg in Er by exact H0. inversion Er. subst. lia. }
        assert (HnA : resolve_axis (type_of_p None c1) 0 axis <> Ok (0 + 1)) by (rewrite Er; intros H; inversion H; lia).
        pose proof (flat_above_all c1 0 axis vs (Z.le_refl 0) Ha HV1 Hfr1 Hne1 Hl1 HnA) as HB.
        unfold flat_chk, flat_sv in HB.
        destruct (flat_p None c1 0 axis) as [[inner fc]|[]]; cbn [refB bind obs snd] in *; try contradiction.
        -- destruct HB as (_ & Hc & ws & Hs & Hlf). rewrite Hc. cbn [bind]. rewrite Hs. exact Hlf.
        -- rewrite HB. reflexivity.
  - rewrite flat_p_eq, Er. reflexivity.
Qed.

(* flatten(axis=1) *)
Corollary flatten_axis1_refines_spec_partial : forall c vs,
  Valid None c -> frag c = true -> noempty c = true -> to_list c = Ok vs ->
  obs (flatten_model 1 c) =
  (if is_plain_list (type_of c) then do ls <- mapM elems_of vs; Ok (concat ls) else Err EValue).
Proof.
  intros c vs HV Hfr Hne Hl. rewrite (flatten_refines_spec_partial 1 c vs HV Hfr Hne Hl). reflexivity.
Qed.

(* a non-trivial instance: lists of option-type lists of records; axes 1, 2, -1 and a refused one *)
Example flatten_refines_ex :
  let rec := Record [ListA I64 [0; 3; 3] [3; 4; 3] (Numpy DInt64 [5] [DZ 1; DZ 2; DZ 3; DZ 4; DZ 5]);
                     Numpy DFloat64 [3; 2] [DZ 1; DZ 2; DZ 3; DZ 4; DZ 5; DZ 6]] (Some [[120]; [121]]) 3 in
  let c := ListOffset I64 [0; 2; 2; 3] (IndexedOption I64 [1; -1; 0] (ListOffset I64 [0; 1; 3] rec)) in
  let r i := VRec [([120], VList (map (fun z => VNum (DZ z)) (nth i [[1; 2; 3]; [4]; []] [])));
                   ([121], VList (map (fun z => VNum (DZ z)) (nth i [[1; 2]; [3; 4]; [5; 6]] [])))] in
  validb None c = true /\ frag c = true /\ noempty c = true /\
  to_list c = Ok [VList [VList [r 1%nat; r 2%nat]; VNone]; VList []; VList [VList [r 0%nat]]] /\
  obs (flatten_model 1 c) = Ok [VList [r 1%nat; r 2%nat]; VNone; VList [r 0%nat]] /\
  obs (flatten_model 2 c) = Ok [VList [r 1%nat; r 2%nat]; VList []; VList [r 0%nat]] /\
  obs (flatten_model 3 c) = Err EValue /\
  obs (flatten_model (-1) c) = Err EValue.
Proof. vm_compute. repeat split. Qed.

(* a negative axis through a record whose fields have different depths: every field is flattened at its own
   innermost level *)
Example flatten_refines_mixed_depth_ex :
  let np l := Numpy DInt64 [zlen l] (map DZ l) in
  let c := Record [ListOffset I64 [0; 2; 3] (ListOffset I64 [0; 1; 3; 3] (np [1; 2; 3]));
                   ListOffset I64 [0; 1; 2] (ListOffset I64 [0; 2; 3] (ListOffset I64 [0; 1; 1; 2] (np [7; 8])))] None 2 in
  let n z := VNum (DZ z) in
  validb None c = true /\ frag c = true /\ noempty c = true /\
  obs (flatten_model (-1) c) = Ok [VTup [VList [n 1; n 2; n 3]; VList [VList [n 7]]]; VTup [VList []; VList [VList [n 8]]]] /\
  obs (flatten_model (-2) c) = Err EValue.
Proof. vm_compute. repeat split. Qed.

(* empty lists whose start = stop lies outside the content (allowed by validity) are handled *)
Example flatten_refines_far_empty_ex :
  let c := ListOffset I64 [5; 5] (ListOffset I64 [0; 1] (Numpy DInt64 [1] [DZ 1])) in
  let c' := ListA I64 [1000] [1000] (ListOffset I64 [0; 1] (Numpy DInt64 [1] [DZ 1])) in
  validb None c = true /\ obs (flatten_model 2 c) = Ok [VList []] /\ obs (flatten_model 2 c') = Ok [VList []].
Proof. vm_compute. repeat split. Qed.

(* Without [noempty] the statement is false: the layout-level operation (like the C++
   EmptyArray::offsets_and_flattened, which answers ([0], EmptyArray)) accepts an EmptyArray at the flattened
   level, the specification refuses the unknown type there ([is_plain_list TUnk = false]). *)
Example flatten_refines_spec_empty_refuted :
  validb None Empty = true /\ frag Empty = true /\ to_list Empty = Ok [] /\
  obs (flatten_model 1 Empty) = Ok [] /\ flatten_spec 1 (type_of Empty) [] = Err EValue.
Proof. vm_compute. repeat split. Qed.
Example flatten_refines_spec_empty_refuted2 :
  let c := ListOffset I64 [0; 0] Empty in
  validb None c = true /\ frag c = true /\ to_list c = Ok [VList []] /\
  obs (flatten_model 2 c) = Ok [VList []] /\ flatten_spec 2 (type_of c) [VList []] = Err EValue /\
  obs (flatten_model 3 c) = Ok [VList []] /\ flatten_spec 3 (type_of c) [VList []] = Ok [VList []].
Proof. vm_compute. repeat split. Qed.

(* ---------------------------------------------------------------- layout independence (C02) *)
Theorem layout_independent_flatten_partial : forall a b vs axis,
  Valid None a -> Valid None b -> frag a = true -> frag b = true -> noempty a = true -> noempty b = true ->
  to_list a = Ok vs -> to_list b = Ok vs -> type_of a = type_of b ->
  obs (flatten_model axis a) = obs (flatten_model axis b).
Proof.
  intros a b vs axis HVa HVb Hfa Hfb Hna Hnb Hla Hlb Hty.
  rewrite (flatten_refines_spec_partial axis a vs), (flatten_refines_spec_partial axis b vs), Hty by assumption. reflexivity.
Qed.
