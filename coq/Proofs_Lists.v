(** List / error-monad library used by Proofs_ToList, Proofs_Carry, Proofs_AtAxis:
    pointwise reasoning with the checked [get], [mapM] algebra, slices, iota, zip, cut, chunks. *)
From Coq Require Import ZArith List Bool Lia ZifyBool.
From AwkV Require Import Base Layout Proofs_Typing.
Import ListNotations.
Open Scope Z_scope.

(* ---------------------------------------------------------------- zlen *)
Lemma zlen_nil {A} : zlen (@nil A) = 0.
Proof. reflexivity. Qed.
Lemma zlen_cons {A} (x : A) l : zlen (x :: l) = zlen l + 1.
Proof. unfold zlen. cbn [length]. lia. Qed.
Lemma zlen_app {A} (l m : list A) : zlen (l ++ m) = zlen l + zlen m.
Proof. unfold zlen. rewrite app_length. lia. Qed.
Lemma zlen_map {A B} (f : A -> B) l : zlen (map f l) = zlen l.
Proof. unfold zlen. rewrite map_length. reflexivity. Qed.
Lemma zlen_nonneg {A} (l : list A) : 0 <= zlen l.
Proof. unfold zlen. lia. Qed.
Lemma zlen_0_nil {A} (l : list A) : zlen l = 0 -> l = [].
Proof. destruct l; [reflexivity|]. rewrite zlen_cons. pose proof (zlen_nonneg l). lia. Qed.
Lemma zlen_repeat {A} (x : A) n : zlen (repeat x n) = Z.of_nat n.
Proof. unfold zlen. rewrite repeat_length. reflexivity. Qed.
Lemma zlen_length_eq {A B} (l : list A) (m : list B) : length l = length m -> zlen l = zlen m.
Proof. unfold zlen. lia. Qed.
Lemma zlen_eq_length {A B} (l : list A) (m : list B) : zlen l = zlen m -> length l = length m.
Proof. unfold zlen. lia. Qed.

(* ---------------------------------------------------------------- bind / rmap *)
Lemma bind_Ok {A B} (r : res A) (f : A -> res B) b :
  bind r f = Ok b -> exists a, r = Ok a /\ f a = Ok b.
Proof. destruct r; cbn; [eauto|discriminate]. Qed.
Lemma rmap_Ok {A B} (f : A -> B) r b : rmap f r = Ok b -> exists a, r = Ok a /\ b = f a.
Proof. destruct r; cbn; [|discriminate]. intros H. inversion H. eauto. Qed.

(* ---------------------------------------------------------------- get *)
Lemma get_nil {A} i : get (@nil A) i = Err EOob.
Proof. unfold get. destruct (i <? 0); [reflexivity|]. destruct (Z.to_nat i); reflexivity. Qed.
Lemma get_cons_0 {A} (x : A) l : get (x :: l) 0 = Ok x.
Proof. reflexivity. Qed.
Lemma get_cons_S {A} (x : A) l i : 0 <= i -> get (x :: l) (i + 1) = get l i.
Proof.
  intros H. unfold get. destruct (i + 1 <? 0) eqn:E1; [lia|]. destruct (i <? 0) eqn:E2; [lia|].
  replace (Z.to_nat (i + 1)) with (S (Z.to_nat i)) by lia. reflexivity.
Qed.
Lemma get_cons_pos {A} (x : A) l i : 0 < i -> get (x :: l) i = get l (i - 1).
Proof. intros H. replace i with (i - 1 + 1) at 1 by lia. apply get_cons_S. lia. Qed.

Lemma get_range {A} (l : list A) i x : get l i = Ok x -> 0 <= i < zlen l.
Proof.
  unfold get. destruct (i <? 0) eqn:E; [discriminate|].
  destruct (nth_error l (Z.to_nat i)) eqn:En; [|discriminate]. intros _.
  assert (Z.to_nat i < length l)%nat by (apply nth_error_Some; congruence).
  unfold zlen. lia.
Qed.
Lemma get_ok {A} (l : list A) i : 0 <= i < zlen l -> exists x, get l i = Ok x.
Proof.
  intros H. unfold get. destruct (i <? 0) eqn:E; [lia|].
  destruct (nth_error l (Z.to_nat i)) eqn:En; [eauto|].
  apply nth_error_None in En. unfold zlen in H. lia.
Qed.
Lemma get_err {A} (l : list A) i e : get l i = Err e -> e = EOob /\ ~ (0 <= i < zlen l).
Proof.
  intros H. split.
  - unfold get in H. destruct (i <? 0); [congruence|]. destruct (nth_error _ _); congruence.
  - intros Hr. destruct (get_ok l i Hr) as [x Hx]. congruence.
Qed.
Lemma get_oob {A} (l : list A) i : ~ (0 <= i < zlen l) -> get l i = Err EOob.
Proof.
  intros H. destruct (get l i) eqn:E.
  - apply get_range in E. contradiction.
  - apply get_err in E. destruct E as [-> _]. reflexivity.
Qed.

Lemma get_map {A B} (f : A -> B) l i : get (map f l) i = rmap f (get l i).
Proof.
  unfold get. destruct (i <? 0); [reflexivity|]. rewrite nth_error_map.
  destruct (nth_error l (Z.to_nat i)); reflexivity.
Qed.
Lemma get_app1 {A} (l m : list A) i : i < zlen l -> get (l ++ m) i = get l i.
Proof.
  intros H. unfold get. destruct (i <? 0) eqn:E; [reflexivity|].
  rewrite nth_error_app1; [reflexivity|]. unfold zlen in H. lia.
Qed.
Lemma get_app2 {A} (l m : list A) i : zlen l <= i -> get (l ++ m) i = get m (i - zlen l).
Proof.
  intros H. pose proof (zlen_nonneg l). unfold get. destruct (i <? 0) eqn:E; [lia|].
  destruct (i - zlen l <? 0) eqn:E2; [lia|].
  rewrite nth_error_app2 by (unfold zlen in H; lia).
  replace (Z.to_nat (i - zlen l)) with (Z.to_nat i - length l)%nat by (unfold zlen; lia). reflexivity.
Qed.

Lemma get_ext {A} (l m : list A) :
  zlen l = zlen m -> (forall i, 0 <= i < zlen l -> get l i = get m i) -> l = m.
Proof.
  revert m. induction l as [|x l IH]; intros [|y m] Hlen Hget.
  - reflexivity.
  - rewrite zlen_cons, zlen_nil in Hlen. pose proof (zlen_nonneg m). lia.
  - rewrite zlen_cons, zlen_nil in Hlen. pose proof (zlen_nonneg l). lia.
  - rewrite !zlen_cons in Hlen. pose proof (zlen_nonneg l).
    assert (H0 := Hget 0). rewrite zlen_cons in H0. cbn in H0. specialize (H0 ltac:(lia)). inversion H0; subst.
    f_equal. apply IH; [lia|]. intros i Hi.
    specialize (Hget (i + 1)). rewrite zlen_cons in Hget. rewrite !get_cons_S in Hget by lia. apply Hget. lia.
Qed.

(* ---------------------------------------------------------------- mapM *)
Lemma mapM_cons {A B} (f : A -> res B) x l :
  mapM f (x :: l) = do y <- f x; do ys <- mapM f l; Ok (y :: ys).
Proof. reflexivity. Qed.

Lemma mapM_app {A B} (f : A -> res B) l m :
  mapM f (l ++ m) = do a <- mapM f l; do b <- mapM f m; Ok (a ++ b).
Proof.
  induction l as [|x l IH]; cbn [app mapM].
  - cbn. destruct (mapM f m); reflexivity.
  - destruct (f x); cbn; [|reflexivity]. rewrite IH.
    destruct (mapM f l); cbn; [|reflexivity]. destruct (mapM f m); reflexivity.
Qed.

Lemma mapM_map {A B C} (f : B -> res C) (g : A -> B) l :
  mapM f (map g l) = mapM (fun x => f (g x)) l.
Proof. induction l as [|x l IH]; cbn; [reflexivity|]. rewrite IH. reflexivity. Qed.

Lemma mapM_ext_in {A B} (f g : A -> res B) l :
  (forall x, In x l -> f x = g x) -> mapM f l = mapM g l.
Proof.
  induction l as [|x l IH]; intros H; cbn; [reflexivity|].
  rewrite (H x (or_introl eq_refl)), IH; [reflexivity|]. intros y Hy. apply H. right. exact Hy.
Qed.

Lemma mapM_pure {A B} (f : A -> B) l : mapM (fun x => Ok (f x)) l = Ok (map f l).
Proof. induction l as [|x l IH]; cbn; [reflexivity|]. rewrite IH. reflexivity. Qed.

Lemma mapM_rmap {A B C} (f : A -> res B) (g : B -> C) l :
  mapM (fun x => rmap g (f x)) l = rmap (map g) (mapM f l).
Proof.
  induction l as [|x l IH]; cbn; [reflexivity|]. rewrite IH.
  destruct (f x); cbn; [|reflexivity]. destruct (mapM f l); reflexivity.
Qed.

Lemma mapM_total {A B} (f : A -> res B) l :
  (forall x, In x l -> exists y, f x = Ok y) -> exists ys, mapM f l = Ok ys.
Proof.
  induction l as [|x l IH]; intros H; cbn; [eauto|].
  destruct (H x (or_introl eq_refl)) as [y ->]. cbn.
  destruct IH as [ys ->]; [intros z Hz; apply H; right; exact Hz|]. cbn. eauto.
Qed.

Lemma mapM_Ok_In {A B} (f : A -> res B) l ys x :
  mapM f l = Ok ys -> In x l -> exists y, f x = Ok y /\ In y ys.
Proof.
  revert ys. induction l as [|a l IH]; intros ys H Hin; [contradiction|].
  cbn in H. apply bind_Ok in H as (y & Hy & H). apply bind_Ok in H as (ys' & Hys & H). inversion H; subst.
  destruct Hin as [->|Hin].
  - exists y. split; [exact Hy|left; reflexivity].
  - destruct (IH _ Hys Hin) as (y' & ? & ?). exists y'. split; [assumption|right; assumption].
Qed.

Lemma mapM_In_inv {A B} (f : A -> res B) l ys y :
  mapM f l = Ok ys -> In y ys -> exists x, In x l /\ f x = Ok y.
Proof.
  revert ys. induction l as [|a l IH]; intros ys H Hin; cbn in H.
  - inversion H; subst. contradiction.
  - apply bind_Ok in H as (y0 & Hy & H). apply bind_Ok in H as (ys' & Hys & H). inversion H; subst.
    destruct Hin as [->|Hin].
    + exists a. split; [left; reflexivity|exact Hy].
    + destruct (IH _ Hys Hin) as (x & ? & ?). exists x. split; [right; assumption|assumption].
Qed.

Lemma mapM_zlen {A B} (f : A -> res B) l ys : mapM f l = Ok ys -> zlen ys = zlen l.
Proof. intros H. apply mapM_length in H. unfold zlen. congruence. Qed.

(* pointwise view of a successful mapM *)
Lemma mapM_get {A B} (f : A -> res B) l ys i :
  mapM f l = Ok ys -> get ys i = do x <- get l i; f x.
Proof.
  revert ys i. induction l as [|a l IH]; intros ys i H; cbn in H.
  - inversion H; subst. rewrite !get_nil. reflexivity.
  - apply bind_Ok in H as (y0 & Hy & H). apply bind_Ok in H as (ys' & Hys & H). inversion H; subst.
    destruct (Z.compare_spec i 0) as [->|Hlt|Hgt].
    + cbn. symmetry. exact Hy.
    + rewrite !get_oob by lia. reflexivity.
    + rewrite !get_cons_pos by lia. apply IH. exact Hys.
Qed.

(* errors of a mapM come from one of the elements *)
Lemma mapM_Err {A B} (f : A -> res B) l e :
  mapM f l = Err e -> exists x, In x l /\ f x = Err e.
Proof.
  induction l as [|a l IH]; cbn; [discriminate|].
  destruct (f a) eqn:Ea; cbn.
  - destruct (mapM f l) eqn:El; cbn; [discriminate|]. intros H. inversion H; subst.
    destruct (IH eq_refl) as (x & ? & ?). exists x. split; [right; assumption|assumption].
  - intros H. inversion H; subst. exists a. split; [left; reflexivity|exact Ea].
Qed.

(* composition *)
Lemma mapM_mapM {A B C} (f : A -> res B) (g : B -> res C) l ys :
  mapM f l = Ok ys -> mapM g ys = mapM (fun x => do y <- f x; g y) l.
Proof.
  revert ys. induction l as [|a l IH]; intros ys H; cbn in H.
  - inversion H; subst. reflexivity.
  - apply bind_Ok in H as (y0 & Hy & H). apply bind_Ok in H as (ys' & Hys & H). inversion H; subst.
    cbn. rewrite Hy. cbn. rewrite (IH _ Hys). reflexivity.
Qed.

Lemma mapM_concat {A B} (f : A -> res B) ls :
  mapM f (concat ls) = rmap (@concat B) (mapM (mapM f) ls).
Proof.
  induction ls as [|l ls IH]; cbn [concat mapM]; [reflexivity|].
  rewrite mapM_app, IH. destruct (mapM f l); cbn; [|reflexivity].
  destruct (mapM (mapM f) ls); reflexivity.
Qed.

(* gather commutes with an elementwise map: the key lemma behind carry *)
Lemma mapM_gather {A B} (f : A -> res B) l ys ix :
  mapM f l = Ok ys -> mapM (get ys) ix = do xs <- mapM (get l) ix; mapM f xs.
Proof.
  intros H. induction ix as [|i ix IH]; cbn; [reflexivity|].
  rewrite (mapM_get f l ys i H). destruct (get l i) as [x|e] eqn:Ex; cbn; [|reflexivity].
  rewrite IH. destruct (mapM (get l) ix) as [xs|e']; cbn.
  - destruct (f x) eqn:Ef; cbn; reflexivity.
  - destruct (f x) eqn:Ef; cbn; [reflexivity|].
    (* f x fails although x = l[i] and mapM f l succeeded: impossible *)
    exfalso. apply get_In in Ex. destruct (mapM_Ok_In f l ys x H Ex) as (y & Hy & _). congruence.
Qed.

Lemma mapM_gather_ok {A B} (f : A -> res B) l ys ix xs :
  mapM f l = Ok ys -> mapM (get l) ix = Ok xs -> mapM f xs = mapM (get ys) ix.
Proof. intros H Hx. rewrite (mapM_gather f l ys ix H), Hx. reflexivity. Qed.

(* gather of in-range indices succeeds *)
Lemma gather_ok {A} (l : list A) ix :
  Forall (fun i => 0 <= i < zlen l) ix -> exists xs, mapM (get l) ix = Ok xs.
Proof.
  intros H. apply mapM_total. intros i Hi. rewrite Forall_forall in H. apply get_ok, H, Hi.
Qed.
Lemma gather_range_inv {A} (l : list A) ix xs :
  mapM (get l) ix = Ok xs -> Forall (fun i => 0 <= i < zlen l) ix.
Proof.
  intros H. apply Forall_forall. intros i Hi.
  destruct (mapM_Ok_In _ _ _ _ H Hi) as (y & Hy & _). eapply get_range, Hy.
Qed.
Lemma gather_same_len {A B} (l : list A) (m : list B) ix :
  zlen l = zlen m -> (exists xs, mapM (get l) ix = Ok xs) -> exists ys, mapM (get m) ix = Ok ys.
Proof.
  intros Hlen [xs Hx]. apply gather_ok. rewrite <- Hlen. eapply gather_range_inv, Hx.
Qed.

Lemma gather_map {A B} (g : A -> B) l ix :
  mapM (get (map g l)) ix = rmap (map g) (mapM (get l) ix).
Proof.
  rewrite <- mapM_rmap. apply mapM_ext_in. intros i _. apply get_map.
Qed.

(* ---------------------------------------------------------------- iota / range *)
Lemma iota_nat_length' start n : length (iota_nat start n) = n.
Proof. revert start. induction n; intros; cbn [iota_nat length]; [reflexivity|]. rewrite IHn. reflexivity. Qed.
Lemma iota_nat_len start n : zlen (iota_nat start n) = Z.of_nat n.
Proof. unfold zlen. rewrite iota_nat_length'. reflexivity. Qed.
Lemma iota_nat_S start n : iota_nat start (S n) = start :: iota_nat (start + 1) n.
Proof. reflexivity. Qed.
Lemma iota_nat_app start n m : iota_nat start (n + m) = iota_nat start n ++ iota_nat (start + Z.of_nat n) m.
Proof.
  revert start. induction n as [|n IH]; intros start.
  - cbn. f_equal. lia.
  - cbn [Nat.add iota_nat app]. rewrite IH. do 3 f_equal. lia.
Qed.
Lemma iota_nat_shift start k n : iota_nat (start + k) n = map (fun i => i + k) (iota_nat start n).
Proof.
  revert start. induction n as [|n IH]; intros start; cbn; [reflexivity|].
  f_equal. replace (start + k + 1) with (start + 1 + k) by lia. apply IH.
Qed.
Lemma get_iota_nat start n i : 0 <= i < Z.of_nat n -> get (iota_nat start n) i = Ok (start + i).
Proof.
  revert start i. induction n as [|n IH]; intros start i H; [lia|].
  cbn [iota_nat]. destruct (Z.eq_dec i 0) as [->|Hn].
  - cbn. f_equal. lia.
  - rewrite get_cons_pos by lia. rewrite IH by lia. f_equal. lia.
Qed.
Lemma zlen_iota n : 0 <= n -> zlen (iota n) = n.
Proof. intros H. unfold iota. rewrite iota_nat_len. lia. Qed.
Lemma get_iota n i : 0 <= i < n -> get (iota n) i = Ok i.
Proof. intros H. unfold iota. rewrite get_iota_nat by lia. reflexivity. Qed.
Lemma iota_nat_In' k s x : In x (iota_nat s k) <-> s <= x < s + Z.of_nat k.
Proof. revert s. induction k as [|k IH]; intros s; cbn [iota_nat In]; [lia|]. rewrite IH. lia. Qed.
Lemma iota_In' n x : In x (iota n) <-> 0 <= x < n.
Proof. unfold iota. rewrite iota_nat_In'. lia. Qed.
Lemma zlen_range a b : a <= b -> zlen (range a b) = b - a.
Proof. intros H. unfold range. rewrite iota_nat_len. lia. Qed.
Lemma range_empty a b : b <= a -> range a b = [].
Proof. intros H. unfold range. replace (Z.to_nat (b - a)) with O by lia. reflexivity. Qed.
Lemma get_range_at a b i : 0 <= i < b - a -> get (range a b) i = Ok (a + i).
Proof. intros H. unfold range. apply get_iota_nat. lia. Qed.
Lemma range_In a b x : In x (range a b) <-> a <= x < b.
Proof. unfold range. rewrite iota_nat_In'. lia. Qed.
Lemma range_split a b c : a <= b <= c -> range a c = range a b ++ range b c.
Proof.
  intros H. unfold range. replace (Z.to_nat (c - a)) with (Z.to_nat (b - a) + Z.to_nat (c - b))%nat by lia.
  rewrite iota_nat_app. do 2 f_equal. lia.
Qed.
Lemma iota_S n : 0 <= n -> iota (n + 1) = iota n ++ [n].
Proof.
  intros H. unfold iota. replace (Z.to_nat (n + 1)) with (Z.to_nat n + 1)%nat by lia.
  rewrite iota_nat_app. cbn. do 2 f_equal. lia.
Qed.

(* ---------------------------------------------------------------- take / drop / slice *)
Lemma zlen_take {A} (l : list A) n : 0 <= n <= zlen l -> zlen (take n l) = n.
Proof. intros H. apply zlen_firstn_full; lia. Qed.
Lemma take_all {A} (l : list A) n : zlen l <= n -> take n l = l.
Proof. intros H. unfold take. apply firstn_all2. unfold zlen in H. lia. Qed.
Lemma take_app_exact {A} (l m : list A) n : zlen l = n -> take n (l ++ m) = l.
Proof.
  intros H. unfold take. replace (Z.to_nat n) with (length l + 0)%nat by (unfold zlen in H; lia).
  rewrite firstn_app_2. cbn. apply app_nil_r.
Qed.
Lemma drop_app_exact {A} (l m : list A) n : zlen l = n -> drop n (l ++ m) = m.
Proof.
  intros H. unfold drop. replace (Z.to_nat n) with (length l) by (unfold zlen in H; lia).
  rewrite skipn_app, skipn_all, Nat.sub_diag. reflexivity.
Qed.
Lemma take_drop_id {A} (l : list A) n : take n l ++ drop n l = l.
Proof. apply firstn_skipn. Qed.
Lemma nth_error_firstn' {A} (l : list A) n i : (i < n)%nat -> nth_error (firstn n l) i = nth_error l i.
Proof.
  revert l i. induction n as [|n IH]; intros l i H; [lia|].
  destruct l; cbn; [destruct i; reflexivity|]. destruct i; cbn; [reflexivity|]. apply IH. lia.
Qed.
Lemma get_take {A} (l : list A) n i : i < n -> get (take n l) i = get l i.
Proof.
  intros H. unfold get. destruct (i <? 0) eqn:E; [reflexivity|]. unfold take.
  rewrite nth_error_firstn' by lia. reflexivity.
Qed.
Lemma nth_error_skipn' {A} (l : list A) n i : nth_error (skipn n l) i = nth_error l (n + i).
Proof.
  revert l. induction n as [|n IH]; intros l; [reflexivity|].
  destruct l; cbn; [destruct i; reflexivity|]. apply IH.
Qed.
Lemma get_drop {A} (l : list A) n i : 0 <= n -> 0 <= i -> get (drop n l) i = get l (n + i).
Proof.
  intros Hn Hi. unfold get. destruct (i <? 0) eqn:E; [lia|]. destruct (n + i <? 0) eqn:E2; [lia|].
  unfold drop. rewrite nth_error_skipn'. replace (Z.to_nat n + Z.to_nat i)%nat with (Z.to_nat (n + i)) by lia.
  reflexivity.
Qed.
Lemma map_take {A B} (f : A -> B) n l : map f (take n l) = take n (map f l).
Proof. unfold take. symmetry. apply firstn_map. Qed.
Lemma map_drop {A B} (f : A -> B) n l : map f (drop n l) = drop n (map f l).
Proof. unfold drop. symmetry. apply skipn_map. Qed.

Lemma slice_ok {A} (l : list A) a b : 0 <= a -> a <= b -> b <= zlen l -> slice l a b = Ok (take (b - a) (drop a l)).
Proof.
  intros H1 H2 H3. unfold slice.
  destruct (0 <=? a) eqn:E1; [|lia]. destruct (a <=? b) eqn:E2; [|lia]. destruct (b <=? zlen l) eqn:E3; [|lia].
  reflexivity.
Qed.
Lemma slice_inv {A} (l : list A) a b m :
  slice l a b = Ok m -> 0 <= a /\ a <= b /\ b <= zlen l /\ m = take (b - a) (drop a l).
Proof.
  unfold slice. destruct (0 <=? a) eqn:E1; [|discriminate]. destruct (a <=? b) eqn:E2; [|discriminate].
  destruct (b <=? zlen l) eqn:E3; [|discriminate]. cbn. intros H. inversion H. repeat split; lia.
Qed.
Lemma slice_err {A} (l : list A) a b e : slice l a b = Err e -> e = EOob.
Proof. unfold slice. destruct (_ && _); [discriminate|]. congruence. Qed.
Lemma slice_zlen {A} (l : list A) a b m : slice l a b = Ok m -> zlen m = b - a.
Proof.
  intros H. apply slice_inv in H as (H1 & H2 & H3 & ->).
  rewrite zlen_take; [reflexivity|]. rewrite zlen_drop by lia. lia.
Qed.
Lemma get_slice {A} (l : list A) a b m i :
  slice l a b = Ok m -> 0 <= i < b - a -> get m i = get l (a + i).
Proof.
  intros H Hi. apply slice_inv in H as (H1 & H2 & H3 & ->).
  rewrite get_take by lia. apply get_drop; lia.
Qed.
Lemma slice_map {A B} (f : A -> B) l a b : slice (map f l) a b = rmap (map f) (slice l a b).
Proof.
  unfold slice. rewrite zlen_map. destruct (_ && _); [|reflexivity]. cbn.
  rewrite map_take, map_drop. reflexivity.
Qed.

(* gather over a contiguous range = slice *)
Lemma gather_range {A} (l : list A) a b :
  0 <= a -> a <= b -> b <= zlen l -> mapM (get l) (range a b) = slice l a b.
Proof.
  intros H1 H2 H3.
  destruct (gather_ok l (range a b)) as [xs Hx].
  { apply Forall_forall. intros i Hi. apply range_In in Hi. lia. }
  rewrite Hx, slice_ok by lia. f_equal.
  assert (Hlen : zlen xs = b - a) by (rewrite (mapM_zlen _ _ _ Hx), zlen_range; lia).
  apply get_ext.
  - rewrite Hlen, zlen_take; [reflexivity|]. rewrite zlen_drop by lia. lia.
  - intros i Hi. rewrite (mapM_get _ _ _ i Hx), get_range_at by lia. cbn.
    rewrite get_take by lia. rewrite get_drop by lia. reflexivity.
Qed.

(* ---------------------------------------------------------------- zip / pairs *)
Lemma zip_length {A B} (l : list A) (m : list B) : length (zip l m) = Nat.min (length l) (length m).
Proof. revert m. induction l as [|x l IH]; intros [|y m]; cbn; auto. Qed.
Lemma zlen_zip {A B} (l : list A) (m : list B) : zlen (zip l m) = Z.min (zlen l) (zlen m).
Proof. unfold zlen. rewrite zip_length. lia. Qed.
Lemma get_zip {A B} (l : list A) (m : list B) i :
  get (zip l m) i = do x <- get l i; do y <- get m i; Ok (x, y).
Proof.
  revert m i. induction l as [|x l IH]; intros m i.
  - cbn [zip]. rewrite !get_nil. reflexivity.
  - destruct m as [|y m].
    + cbn [zip]. rewrite !get_nil. destruct (get (x :: l) i) as [?|e] eqn:E; cbn; [reflexivity|].
      apply get_err in E. destruct E as [-> _]. reflexivity.
    + cbn [zip]. destruct (Z.compare_spec i 0) as [->|Hlt|Hgt].
      * reflexivity.
      * rewrite !get_oob by lia. reflexivity.
      * rewrite !get_cons_pos by lia. apply IH.
Qed.
Lemma zip_take_l {A B} (l : list A) (m : list B) : zip l (take (zlen l) m) = zip l m.
Proof.
  unfold take, zlen. rewrite Nat2Z.id. revert m. induction l as [|x l IH]; intros m; [reflexivity|].
  destruct m as [|y m]; cbn; [reflexivity|]. f_equal. apply IH.
Qed.
Lemma zip_map {A B A' B'} (f : A -> A') (g : B -> B') l m :
  zip (map f l) (map g m) = map (fun xy => (f (fst xy), g (snd xy))) (zip l m).
Proof. revert m. induction l as [|x l IH]; intros [|y m]; cbn; [reflexivity..|]. f_equal. apply IH. Qed.
Lemma zip_In {A B} (l : list A) (m : list B) x y : In (x, y) (zip l m) -> In x l /\ In y m.
Proof.
  revert m. induction l as [|a l IH]; intros [|b m]; cbn; try contradiction.
  intros [H|H]; [inversion H; subst; auto|]. destruct (IH _ H). auto.
Qed.

Lemma pairs_zip o : pairs o = zip (removelast o) (tl o).
Proof.
  induction o as [|a o IH]; [reflexivity|]. destruct o as [|b o]; [reflexivity|].
  change (pairs (a :: b :: o)) with ((a, b) :: pairs (b :: o)). rewrite IH.
  change (removelast (a :: b :: o)) with (a :: removelast (b :: o)). reflexivity.
Qed.
Lemma zlen_removelast {A} (l : list A) : l <> [] -> zlen (removelast l) = zlen l - 1.
Proof.
  intros H. destruct (exists_last H) as (l' & a & ->). rewrite removelast_last, zlen_app. cbn. lia.
Qed.
Lemma zlen_tl {A} (l : list A) : l <> [] -> zlen (tl l) = zlen l - 1.
Proof. destruct l; [congruence|]. intros _. rewrite zlen_cons. cbn. lia. Qed.
Lemma zlen_pairs o : o <> [] -> zlen (pairs o) = zlen o - 1.
Proof.
  intros H. rewrite pairs_zip, zlen_zip, zlen_removelast, zlen_tl by assumption. lia.
Qed.

(* gather distributes over zip *)
Lemma gather_zip {A B} (l : list A) (m : list B) ix :
  mapM (get (zip l m)) ix =
  do xs <- mapM (get l) ix; do ys <- mapM (get m) ix; Ok (zip xs ys).
Proof.
  induction ix as [|i ix IH]; cbn; [reflexivity|].
  rewrite get_zip, IH. destruct (get l i) as [x|e] eqn:El; cbn.
  - destruct (get m i) as [y|e'] eqn:Em; cbn.
    + destruct (mapM (get l) ix); cbn; [|reflexivity]. destruct (mapM (get m) ix); cbn; reflexivity.
    + apply get_err in Em. destruct Em as [-> _].
      destruct (mapM (get l) ix) as [?|e2] eqn:E2; cbn; [reflexivity|].
      apply mapM_Err in E2 as (j & _ & Ej). apply get_err in Ej. destruct Ej as [-> _]. reflexivity.
  - reflexivity.
Qed.
