// Minimal clean-room substitute for the subset of the RapidJSON API used by
// awkward-1.0's libawkward (Content.cpp, util.cpp, type/Type.cpp, io/json.cpp).
// The real RapidJSON is a git submodule that is empty in this sandbox.
// NOT part of scikit-hep/awkward-1.0; lives in /verif and is part of the
// verification trusted base (see DESIGN.md).
#pragma once
#include <cstdio>
#include <cstdint>
#include <cstring>
#include <cstdlib>
#include <cmath>
#include <string>
#include <vector>
#include <limits>
#include <memory>

namespace rapidjson {
  typedef unsigned SizeType;
  template <typename C = char> struct UTF8 { typedef C Ch; };

  enum ParseFlag {
    kParseNoFlags = 0,
    kParseStopWhenDoneFlag = 8,
    kParseNanAndInfFlag = 256
  };

  enum ParseErrorCode {
    kParseErrorNone = 0,
    kParseErrorDocumentEmpty,
    kParseErrorDocumentRootNotSingular,
    kParseErrorValueInvalid,
    kParseErrorObjectMissName,
    kParseErrorObjectMissColon,
    kParseErrorObjectMissCommaOrCurlyBracket,
    kParseErrorArrayMissCommaOrSquareBracket,
    kParseErrorStringUnicodeEscapeInvalidHex,
    kParseErrorStringUnicodeSurrogateInvalid,
    kParseErrorStringEscapeInvalid,
    kParseErrorStringMissQuotationMark,
    kParseErrorStringInvalidEncoding,
    kParseErrorNumberTooBig,
    kParseErrorNumberMissFraction,
    kParseErrorNumberMissExponent,
    kParseErrorTermination,
    kParseErrorUnspecificSyntaxError
  };

  inline const char* GetParseError_En(ParseErrorCode c) {
    switch (c) {
      case kParseErrorNone: return "No error.";
      case kParseErrorDocumentEmpty: return "The document is empty.";
      case kParseErrorDocumentRootNotSingular: return "The document root must not be followed by other values.";
      case kParseErrorValueInvalid: return "Invalid value.";
      case kParseErrorObjectMissName: return "Missing a name for object member.";
      case kParseErrorObjectMissColon: return "Missing a colon after a name of object member.";
      case kParseErrorObjectMissCommaOrCurlyBracket: return "Missing a comma or '}' after an object member.";
      case kParseErrorArrayMissCommaOrSquareBracket: return "Missing a comma or ']' after an array element.";
      case kParseErrorStringUnicodeEscapeInvalidHex: return "Incorrect hex digit after \\u escape in string.";
      case kParseErrorStringUnicodeSurrogateInvalid: return "The surrogate pair in string is invalid.";
      case kParseErrorStringEscapeInvalid: return "Invalid escape character in string.";
      case kParseErrorStringMissQuotationMark: return "Missing a closing quotation mark in string.";
      case kParseErrorStringInvalidEncoding: return "Invalid encoding in string.";
      case kParseErrorNumberTooBig: return "Number too big to be stored in double.";
      case kParseErrorNumberMissFraction: return "Miss fraction part in number.";
      case kParseErrorNumberMissExponent: return "Miss exponent in number.";
      case kParseErrorTermination: return "Terminate parsing due to Handler error.";
      default: return "Unspecific syntax error.";
    }
  }

  struct ParseResult {
    ParseErrorCode code; size_t offset;
    ParseResult(): code(kParseErrorNone), offset(0) {}
    ParseResult(ParseErrorCode c, size_t o): code(c), offset(o) {}
    operator bool() const { return code == kParseErrorNone; }
    bool IsError() const { return code != kParseErrorNone; }
    ParseErrorCode Code() const { return code; }
    size_t Offset() const { return offset; }
  };

  ////////////////////////////////////////////////////////////// streams
  struct StringStream {
    typedef char Ch;
    const char* src_; const char* head_;
    StringStream(const char* s): src_(s), head_(s) {}
    char Peek() const { return *src_; }
    char Take() { return *src_++; }
    size_t Tell() const { return (size_t)(src_ - head_); }
  };

  class FileReadStream {
  public:
    typedef char Ch;
    FileReadStream(FILE* fp, char* buffer, size_t bufferSize)
      : fp_(fp), buffer_(buffer), bufferSize_(bufferSize), bufferLast_(0),
        current_(buffer), readCount_(0), count_(0), eof_(false) { Read(); }
    char Peek() const { return *current_; }
    char Take() { char c = *current_; Read(); return c; }
    size_t Tell() const { return count_ + (size_t)(current_ - buffer_); }
  private:
    void Read() {
      if (current_ < bufferLast_) { ++current_; }
      else if (!eof_) {
        count_ += readCount_;
        readCount_ = std::fread(buffer_, 1, bufferSize_, fp_);
        bufferLast_ = buffer_ + readCount_ - 1;
        current_ = buffer_;
        if (readCount_ < bufferSize_) {
          buffer_[readCount_] = '\0';
          ++bufferLast_;
          eof_ = true;
        }
      }
    }
    FILE* fp_; char* buffer_; size_t bufferSize_; char* bufferLast_;
    char* current_; size_t readCount_; size_t count_; bool eof_;
  };

  class StringBuffer {
  public:
    typedef char Ch;
    void Put(char c) { s_.push_back(c); }
    void Flush() {}
    const char* GetString() const { return s_.c_str(); }
    size_t GetSize() const { return s_.size(); }
    void Clear() { s_.clear(); }
  private:
    std::string s_;
  };

  class FileWriteStream {
  public:
    typedef char Ch;
    FileWriteStream(FILE* fp, char* /*buffer*/, size_t /*bufferSize*/): fp_(fp) {}
    void Put(char c) { std::fputc(c, fp_); }
    void Flush() { std::fflush(fp_); }
  private:
    FILE* fp_;
  };

  ////////////////////////////////////////////////////////////// number formatting
  namespace shim_detail {
    // shortest round-trip digits and decimal exponent: v = 0.d1d2... * 10^kk
    inline void shortest(double v, std::string& digits, int& K) {
      char buf[40];
      for (int p = 1; p <= 17; p++) {
        std::snprintf(buf, sizeof buf, "%.*e", p - 1, v);
        if (std::strtod(buf, nullptr) == v) break;
      }
      // buf like d.ddde[+-]XX
      std::string s(buf);
      size_t e = s.find('e');
      int exp10 = std::atoi(s.c_str() + e + 1);
      std::string mant = s.substr(0, e);
      digits.clear();
      for (char c : mant) if (c >= '0' && c <= '9') digits.push_back(c);
      while (digits.size() > 1 && digits.back() == '0') digits.pop_back();
      // value = digits * 10^(exp10 - (len-1))
      K = exp10 - (int)(digits.size() - 1);
    }

    inline std::string prettify(const std::string& d, int k, int maxDecimalPlaces) {
      int length = (int)d.size();
      int kk = length + k;
      std::string out;
      if (0 <= k && kk <= 21) {
        out = d + std::string((size_t)k, '0') + ".0";
        return out;
      }
      else if (0 < kk && kk <= 21) {
        out = d.substr(0, (size_t)kk) + "." + d.substr((size_t)kk);
        if (0 > k + maxDecimalPlaces) {
          // truncate, dropping trailing zeros but keeping one digit
          int i = kk + maxDecimalPlaces;
          for (; i > kk + 1; i--) if (out[(size_t)i] != '0') return out.substr(0, (size_t)i + 1);
          return out.substr(0, (size_t)kk + 2);
        }
        return out;
      }
      else if (-6 < kk && kk <= 0) {
        int offset = 2 - kk;
        out = "0." + std::string((size_t)(-kk), '0') + d;
        if (length - kk > maxDecimalPlaces) {
          int i = maxDecimalPlaces + 1;
          for (; i > 2; i--) if (out[(size_t)i] != '0') return out.substr(0, (size_t)i + 1);
          return out.substr(0, 3);
        }
        (void)offset;
        return out;
      }
      else if (kk < -maxDecimalPlaces) {
        return "0.0";
      }
      else {
        char eb[16];
        int e = kk - 1;
        std::snprintf(eb, sizeof eb, "%s%d", e < 0 ? "-" : "", e < 0 ? -e : e);
        if (length == 1) return d + "e" + eb;
        return d.substr(0, 1) + "." + d.substr(1) + "e" + eb;
      }
    }

    inline std::string dtoa(double v, int maxDecimalPlaces) {
      if (v == 0) return std::signbit(v) ? "-0.0" : "0.0";
      std::string out;
      if (v < 0) { out = "-"; v = -v; }
      std::string d; int k;
      shortest(v, d, k);
      return out + prettify(d, k, maxDecimalPlaces);
    }
  }

  ////////////////////////////////////////////////////////////// writers
  template <typename OS>
  class Writer {
  public:
    explicit Writer(OS& os): os_(&os), maxDecimalPlaces_(324) {}
    virtual ~Writer() {}
    void SetMaxDecimalPlaces(int m) { maxDecimalPlaces_ = m; }
    bool Null() { Prefix(false); Raw("null"); return End(); }
    bool Bool(bool b) { Prefix(false); Raw(b ? "true" : "false"); return End(); }
    bool Int(int i) { return Int64((int64_t)i); }
    bool Uint(unsigned u) { return Uint64((uint64_t)u); }
    bool Int64(int64_t i) { Prefix(false); Raw(std::to_string((long long)i).c_str()); return End(); }
    bool Uint64(uint64_t u) { Prefix(false); Raw(std::to_string((unsigned long long)u).c_str()); return End(); }
    bool Double(double d) {
      if (std::isnan(d) || std::isinf(d)) return false;
      Prefix(false); Raw(shim_detail::dtoa(d, maxDecimalPlaces_).c_str()); return End();
    }
    bool String(const char* s, SizeType length, bool = false) { Prefix(false); WriteString(s, length); return End(); }
    bool String(const char* s) { return String(s, (SizeType)std::strlen(s)); }
    bool String(const std::string& s) { return String(s.c_str(), (SizeType)s.size()); }
    bool Key(const char* s, SizeType length, bool = false) { Prefix(true); WriteString(s, length); return End(); }
    bool Key(const char* s) { return Key(s, (SizeType)std::strlen(s)); }
    bool StartObject() { Prefix(false); os_->Put('{'); stack_.push_back(Level(false)); return true; }
    bool EndObject(SizeType = 0) {
      bool empty = stack_.back().count == 0; stack_.pop_back();
      CloseIndent(empty); os_->Put('}'); return End();
    }
    bool StartArray() { Prefix(false); os_->Put('['); stack_.push_back(Level(true)); return true; }
    bool EndArray(SizeType = 0) {
      bool empty = stack_.back().count == 0; stack_.pop_back();
      CloseIndent(empty); os_->Put(']'); return End();
    }
    void Flush() { os_->Flush(); }
  protected:
    struct Level { bool inArray; size_t count; Level(bool a): inArray(a), count(0) {} };
    virtual void Separator(const Level& lv, bool /*iskey*/) {
      if (lv.count > 0) {
        if (lv.inArray) os_->Put(',');
        else os_->Put((lv.count % 2 == 0) ? ',' : ':');
      }
    }
    virtual void CloseIndent(bool /*empty*/) {}
    void Prefix(bool iskey) {
      if (!stack_.empty()) { Separator(stack_.back(), iskey); stack_.back().count++; }
    }
    bool End() { if (stack_.empty()) os_->Flush(); return true; }
    void Raw(const char* s) { while (*s) os_->Put(*s++); }
    void WriteString(const char* s, SizeType length) {
      static const char hex[] = "0123456789ABCDEF";
      os_->Put('"');
      for (SizeType i = 0; i < length; i++) {
        unsigned char c = (unsigned char)s[i];
        switch (c) {
          case '"': os_->Put('\\'); os_->Put('"'); break;
          case '\\': os_->Put('\\'); os_->Put('\\'); break;
          case '\b': os_->Put('\\'); os_->Put('b'); break;
          case '\f': os_->Put('\\'); os_->Put('f'); break;
          case '\n': os_->Put('\\'); os_->Put('n'); break;
          case '\r': os_->Put('\\'); os_->Put('r'); break;
          case '\t': os_->Put('\\'); os_->Put('t'); break;
          default:
            if (c < 0x20) {
              os_->Put('\\'); os_->Put('u'); os_->Put('0'); os_->Put('0');
              os_->Put(hex[c >> 4]); os_->Put(hex[c & 0xF]);
            }
            else os_->Put((char)c);
        }
      }
      os_->Put('"');
    }
    OS* os_;
    int maxDecimalPlaces_;
    std::vector<Level> stack_;
  };

  template <typename OS>
  class PrettyWriter : public Writer<OS> {
  public:
    explicit PrettyWriter(OS& os): Writer<OS>(os) {}
  protected:
    typedef typename Writer<OS>::Level Level;
    void Indent(size_t depth) { for (size_t i = 0; i < depth * 4; i++) this->os_->Put(' '); }
    void Separator(const Level& lv, bool) override {
      if (lv.inArray) {
        if (lv.count > 0) this->os_->Put(',');
        this->os_->Put('\n'); Indent(this->stack_.size());
      }
      else {
        if (lv.count % 2 == 0) {
          if (lv.count > 0) this->os_->Put(',');
          this->os_->Put('\n'); Indent(this->stack_.size());
        }
        else { this->os_->Put(':'); this->os_->Put(' '); }
      }
    }
    void CloseIndent(bool empty) override {
      if (!empty) { this->os_->Put('\n'); Indent(this->stack_.size()); }
    }
  };

  ////////////////////////////////////////////////////////////// SAX reader
  template <typename Encoding, typename Derived>
  struct BaseReaderHandler {
    typedef char Ch;
    bool Default() { return true; }
    bool Null() { return static_cast<Derived&>(*this).Default(); }
    bool Bool(bool) { return static_cast<Derived&>(*this).Default(); }
    bool Int(int) { return static_cast<Derived&>(*this).Default(); }
    bool Uint(unsigned) { return static_cast<Derived&>(*this).Default(); }
    bool Int64(int64_t) { return static_cast<Derived&>(*this).Default(); }
    bool Uint64(uint64_t) { return static_cast<Derived&>(*this).Default(); }
    bool Double(double) { return static_cast<Derived&>(*this).Default(); }
    bool RawNumber(const Ch*, SizeType, bool) { return static_cast<Derived&>(*this).Default(); }
    bool String(const Ch*, SizeType, bool) { return static_cast<Derived&>(*this).Default(); }
    bool StartObject() { return static_cast<Derived&>(*this).Default(); }
    bool Key(const Ch*, SizeType, bool) { return static_cast<Derived&>(*this).Default(); }
    bool EndObject(SizeType) { return static_cast<Derived&>(*this).Default(); }
    bool StartArray() { return static_cast<Derived&>(*this).Default(); }
    bool EndArray(SizeType) { return static_cast<Derived&>(*this).Default(); }
  };

  class Reader {
  public:
    Reader(): result_() {}
    template <unsigned flags, typename IS, typename H>
    ParseResult Parse(IS& is, H& handler) {
      result_ = ParseResult();
      SkipWs(is);
      if (is.Peek() == '\0') { Fail(kParseErrorDocumentEmpty, is); return result_; }
      ParseValue<flags>(is, handler);
      if (result_.IsError()) return result_;
      if (!(flags & kParseStopWhenDoneFlag)) {
        SkipWs(is);
        if (is.Peek() != '\0') Fail(kParseErrorDocumentRootNotSingular, is);
      }
      return result_;
    }
    template <typename IS, typename H>
    ParseResult Parse(IS& is, H& handler) { return Parse<kParseNoFlags>(is, handler); }
    bool HasParseError() const { return result_.IsError(); }
    ParseErrorCode GetParseErrorCode() const { return result_.Code(); }
    size_t GetErrorOffset() const { return result_.Offset(); }
  private:
    template <typename IS> void Fail(ParseErrorCode c, IS& is) { if (!result_.IsError()) result_ = ParseResult(c, is.Tell()); }
    template <typename IS> static void SkipWs(IS& is) {
      char c;
      while ((c = is.Peek()) == ' ' || c == '\n' || c == '\r' || c == '\t') is.Take();
    }
    template <typename IS> static bool Consume(IS& is, char e) { if (is.Peek() == e) { is.Take(); return true; } return false; }

    template <unsigned flags, typename IS, typename H>
    void ParseValue(IS& is, H& h) {
      switch (is.Peek()) {
        case 'n': is.Take();
          if (Consume(is, 'u') && Consume(is, 'l') && Consume(is, 'l')) { if (!h.Null()) Fail(kParseErrorTermination, is); }
          else Fail(kParseErrorValueInvalid, is);
          break;
        case 't': is.Take();
          if (Consume(is, 'r') && Consume(is, 'u') && Consume(is, 'e')) { if (!h.Bool(true)) Fail(kParseErrorTermination, is); }
          else Fail(kParseErrorValueInvalid, is);
          break;
        case 'f': is.Take();
          if (Consume(is, 'a') && Consume(is, 'l') && Consume(is, 's') && Consume(is, 'e')) { if (!h.Bool(false)) Fail(kParseErrorTermination, is); }
          else Fail(kParseErrorValueInvalid, is);
          break;
        case '"': { std::string s; if (ParseString(is, s)) { if (!h.String(s.c_str(), (SizeType)s.size(), true)) Fail(kParseErrorTermination, is); } } break;
        case '{': ParseObject<flags>(is, h); break;
        case '[': ParseArray<flags>(is, h); break;
        default: ParseNumber<flags>(is, h); break;
      }
    }

    template <unsigned flags, typename IS, typename H>
    void ParseObject(IS& is, H& h) {
      is.Take();
      if (!h.StartObject()) { Fail(kParseErrorTermination, is); return; }
      SkipWs(is);
      if (Consume(is, '}')) { if (!h.EndObject(0)) Fail(kParseErrorTermination, is); return; }
      for (SizeType n = 0;;) {
        if (is.Peek() != '"') { Fail(kParseErrorObjectMissName, is); return; }
        std::string k;
        if (!ParseString(is, k)) return;
        if (!h.Key(k.c_str(), (SizeType)k.size(), true)) { Fail(kParseErrorTermination, is); return; }
        SkipWs(is);
        if (!Consume(is, ':')) { Fail(kParseErrorObjectMissColon, is); return; }
        SkipWs(is);
        ParseValue<flags>(is, h);
        if (result_.IsError()) return;
        SkipWs(is);
        ++n;
        switch (is.Peek()) {
          case ',': is.Take(); SkipWs(is); break;
          case '}': is.Take(); if (!h.EndObject(n)) Fail(kParseErrorTermination, is); return;
          default: Fail(kParseErrorObjectMissCommaOrCurlyBracket, is); return;
        }
      }
    }

    template <unsigned flags, typename IS, typename H>
    void ParseArray(IS& is, H& h) {
      is.Take();
      if (!h.StartArray()) { Fail(kParseErrorTermination, is); return; }
      SkipWs(is);
      if (Consume(is, ']')) { if (!h.EndArray(0)) Fail(kParseErrorTermination, is); return; }
      for (SizeType n = 0;;) {
        ParseValue<flags>(is, h);
        if (result_.IsError()) return;
        ++n;
        SkipWs(is);
        if (Consume(is, ',')) { SkipWs(is); }
        else if (Consume(is, ']')) { if (!h.EndArray(n)) Fail(kParseErrorTermination, is); return; }
        else { Fail(kParseErrorArrayMissCommaOrSquareBracket, is); return; }
      }
    }

    template <typename IS> bool Hex4(IS& is, unsigned& cp) {
      cp = 0;
      for (int i = 0; i < 4; i++) {
        char c = is.Peek(); cp <<= 4;
        if (c >= '0' && c <= '9') cp += (unsigned)(c - '0');
        else if (c >= 'A' && c <= 'F') cp += (unsigned)(c - 'A' + 10);
        else if (c >= 'a' && c <= 'f') cp += (unsigned)(c - 'a' + 10);
        else { Fail(kParseErrorStringUnicodeEscapeInvalidHex, is); return false; }
        is.Take();
      }
      return true;
    }
    static void Utf8(std::string& s, unsigned cp) {
      if (cp <= 0x7F) s.push_back((char)cp);
      else if (cp <= 0x7FF) { s.push_back((char)(0xC0 | (cp >> 6))); s.push_back((char)(0x80 | (cp & 0x3F))); }
      else if (cp <= 0xFFFF) { s.push_back((char)(0xE0 | (cp >> 12))); s.push_back((char)(0x80 | ((cp >> 6) & 0x3F))); s.push_back((char)(0x80 | (cp & 0x3F))); }
      else { s.push_back((char)(0xF0 | (cp >> 18))); s.push_back((char)(0x80 | ((cp >> 12) & 0x3F))); s.push_back((char)(0x80 | ((cp >> 6) & 0x3F))); s.push_back((char)(0x80 | (cp & 0x3F))); }
    }
    template <typename IS> bool ParseString(IS& is, std::string& out) {
      is.Take();  // opening quote
      for (;;) {
        char c = is.Peek();
        if (c == '\\') {
          is.Take();
          char e = is.Peek();
          switch (e) {
            case '"': out.push_back('"'); is.Take(); break;
            case '\\': out.push_back('\\'); is.Take(); break;
            case '/': out.push_back('/'); is.Take(); break;
            case 'b': out.push_back('\b'); is.Take(); break;
            case 'f': out.push_back('\f'); is.Take(); break;
            case 'n': out.push_back('\n'); is.Take(); break;
            case 'r': out.push_back('\r'); is.Take(); break;
            case 't': out.push_back('\t'); is.Take(); break;
            case 'u': {
              is.Take();
              unsigned cp;
              if (!Hex4(is, cp)) return false;
              if (cp >= 0xD800 && cp <= 0xDBFF) {
                if (!Consume(is, '\\') || !Consume(is, 'u')) { Fail(kParseErrorStringUnicodeSurrogateInvalid, is); return false; }
                unsigned cp2;
                if (!Hex4(is, cp2)) return false;
                if (cp2 < 0xDC00 || cp2 > 0xDFFF) { Fail(kParseErrorStringUnicodeSurrogateInvalid, is); return false; }
                cp = (((cp - 0xD800) << 10) | (cp2 - 0xDC00)) + 0x10000;
              }
              else if (cp >= 0xDC00 && cp <= 0xDFFF) { Fail(kParseErrorStringUnicodeSurrogateInvalid, is); return false; }
              Utf8(out, cp);
              break;
            }
            default: Fail(kParseErrorStringEscapeInvalid, is); return false;
          }
        }
        else if (c == '"') { is.Take(); return true; }
        else if ((unsigned char)c < 0x20) {
          if (c == '\0') Fail(kParseErrorStringMissQuotationMark, is);
          else Fail(kParseErrorStringInvalidEncoding, is);
          return false;
        }
        else { out.push_back(c); is.Take(); }
      }
    }

    template <unsigned flags, typename IS, typename H>
    void ParseNumber(IS& is, H& h) {
      std::string txt;
      bool minus = false;
      if (is.Peek() == '-') { minus = true; txt.push_back(is.Take()); }
      if ((flags & kParseNanAndInfFlag) && (is.Peek() == 'N' || is.Peek() == 'I')) {
        if (is.Peek() == 'N') {
          is.Take();
          if (Consume(is, 'a') && Consume(is, 'N')) { if (!h.Double(std::numeric_limits<double>::quiet_NaN())) Fail(kParseErrorTermination, is); }
          else Fail(kParseErrorValueInvalid, is);
        }
        else {
          is.Take();
          if (Consume(is, 'n') && Consume(is, 'f')) {
            if (is.Peek() == 'i') {
              if (!(Consume(is, 'i') && Consume(is, 'n') && Consume(is, 'i') && Consume(is, 't') && Consume(is, 'y'))) { Fail(kParseErrorValueInvalid, is); return; }
            }
            double inf = std::numeric_limits<double>::infinity();
            if (!h.Double(minus ? -inf : inf)) Fail(kParseErrorTermination, is);
          }
          else Fail(kParseErrorValueInvalid, is);
        }
        return;
      }
      bool isdouble = false;
      if (is.Peek() == '0') { txt.push_back(is.Take()); }
      else if (is.Peek() >= '1' && is.Peek() <= '9') { while (is.Peek() >= '0' && is.Peek() <= '9') txt.push_back(is.Take()); }
      else { Fail(kParseErrorValueInvalid, is); return; }
      if (is.Peek() == '.') {
        isdouble = true; txt.push_back(is.Take());
        if (!(is.Peek() >= '0' && is.Peek() <= '9')) { Fail(kParseErrorNumberMissFraction, is); return; }
        while (is.Peek() >= '0' && is.Peek() <= '9') txt.push_back(is.Take());
      }
      if (is.Peek() == 'e' || is.Peek() == 'E') {
        isdouble = true; txt.push_back(is.Take());
        if (is.Peek() == '+' || is.Peek() == '-') txt.push_back(is.Take());
        if (!(is.Peek() >= '0' && is.Peek() <= '9')) { Fail(kParseErrorNumberMissExponent, is); return; }
        while (is.Peek() >= '0' && is.Peek() <= '9') txt.push_back(is.Take());
      }
      bool ok = true;
      if (!isdouble) {
        // integer: pick Int / Uint / Int64 / Uint64 / Double like RapidJSON
        const char* digits = txt.c_str() + (minus ? 1 : 0);
        size_t nd = std::strlen(digits);
        bool fits64 = false; uint64_t u = 0;
        if (nd <= 20) {
          fits64 = true;
          for (size_t i = 0; i < nd; i++) {
            unsigned d = (unsigned)(digits[i] - '0');
            if (u > (UINT64_MAX - d) / 10) { fits64 = false; break; }
            u = u * 10 + d;
          }
        }
        if (fits64 && minus && u > (uint64_t)INT64_MAX + 1) fits64 = false;
        if (fits64) {
          if (minus) {
            int64_t i = (u == (uint64_t)INT64_MAX + 1) ? INT64_MIN : -(int64_t)u;
            if (i >= INT32_MIN) ok = h.Int((int)i); else ok = h.Int64(i);
          }
          else {
            if (u <= UINT32_MAX) ok = h.Uint((unsigned)u); else ok = h.Uint64(u);
          }
        }
        else isdouble = true;
      }
      if (isdouble) {
        double d = std::strtod(txt.c_str(), nullptr);
        if (std::isinf(d)) { Fail(kParseErrorNumberTooBig, is); return; }
        ok = h.Double(d);
      }
      if (!ok) Fail(kParseErrorTermination, is);
    }
    ParseResult result_;
  };

  ////////////////////////////////////////////////////////////// DOM
  class Value;
  struct Member;

  class Value {
  public:
    enum Kind { kNull, kFalse, kTrue, kInt, kUint, kDouble, kString, kArray, kObject };
    Value(): kind_(kNull), i_(0), u_(0), d_(0) {}
    bool IsNull() const { return kind_ == kNull; }
    bool IsBool() const { return kind_ == kFalse || kind_ == kTrue; }
    bool IsTrue() const { return kind_ == kTrue; }
    bool IsFalse() const { return kind_ == kFalse; }
    bool IsNumber() const { return kind_ == kInt || kind_ == kUint || kind_ == kDouble; }
    bool IsInt() const { return (kind_ == kInt && i_ >= INT32_MIN && i_ <= INT32_MAX) || (kind_ == kUint && u_ <= (uint64_t)INT32_MAX); }
    bool IsUint() const { return (kind_ == kUint && u_ <= UINT32_MAX) || (kind_ == kInt && i_ >= 0 && i_ <= (int64_t)UINT32_MAX); }
    bool IsInt64() const { return kind_ == kInt || (kind_ == kUint && u_ <= (uint64_t)INT64_MAX); }
    bool IsUint64() const { return kind_ == kUint || (kind_ == kInt && i_ >= 0); }
    bool IsDouble() const { return kind_ == kDouble; }
    bool IsString() const { return kind_ == kString; }
    bool IsArray() const { return kind_ == kArray; }
    bool IsObject() const { return kind_ == kObject; }
    bool GetBool() const { return kind_ == kTrue; }
    int GetInt() const { return (int)GetInt64(); }
    unsigned GetUint() const { return (unsigned)GetUint64(); }
    int64_t GetInt64() const { return kind_ == kInt ? i_ : (int64_t)u_; }
    uint64_t GetUint64() const { return kind_ == kUint ? u_ : (uint64_t)i_; }
    double GetDouble() const { return kind_ == kDouble ? d_ : (kind_ == kInt ? (double)i_ : (double)u_); }
    const char* GetString() const { return s_.c_str(); }
    SizeType GetStringLength() const { return (SizeType)s_.size(); }
    SizeType Size() const { return (SizeType)a_.size(); }
    const Value& operator[](SizeType i) const { return a_[i]; }
    const Value& operator[](int i) const { return a_[(size_t)i]; }
    inline const Value& operator[](const char* name) const;
    inline bool HasMember(const char* name) const;
    typedef const Member* ConstMemberIterator;
    inline ConstMemberIterator MemberBegin() const;
    inline ConstMemberIterator MemberEnd() const;
    typedef const Value* ConstValueIterator;
    ConstValueIterator Begin() const { return a_.data(); }
    ConstValueIterator End() const { return a_.data() + a_.size(); }

    struct ConstArray {
      const Value* v;
      const Value* begin() const { return v->Begin(); }
      const Value* end() const { return v->End(); }
      SizeType Size() const { return v->Size(); }
    };
    struct ConstObject {
      const Value* v;
      inline const Member* begin() const;
      inline const Member* end() const;
    };
    ConstArray GetArray() const { ConstArray r; r.v = this; return r; }
    ConstObject GetObject() const { ConstObject r; r.v = this; return r; }

    template <typename H> inline bool Accept(H& h) const;
    inline bool operator==(const Value& rhs) const;
    bool operator!=(const Value& rhs) const { return !(*this == rhs); }

    // construction (used by the DOM builder below)
    Kind kind_; int64_t i_; uint64_t u_; double d_;
    std::string s_;
    std::vector<Value> a_;
    std::vector<Member> m_;
  };

  struct Member { Value name; Value value; };

  inline const Value& Value::operator[](const char* name) const {
    for (const Member& m : m_) if (m.name.s_ == name) return m.value;
    static const Value nullvalue;
    return nullvalue;
  }
  inline bool Value::HasMember(const char* name) const {
    for (const Member& m : m_) if (m.name.s_ == name) return true;
    return false;
  }
  inline Value::ConstMemberIterator Value::MemberBegin() const { return m_.data(); }
  inline Value::ConstMemberIterator Value::MemberEnd() const { return m_.data() + m_.size(); }
  inline const Member* Value::ConstObject::begin() const { return v->MemberBegin(); }
  inline const Member* Value::ConstObject::end() const { return v->MemberEnd(); }

  template <typename H> inline bool Value::Accept(H& h) const {
    switch (kind_) {
      case kNull: return h.Null();
      case kFalse: return h.Bool(false);
      case kTrue: return h.Bool(true);
      case kInt: return h.Int64(i_);
      case kUint: return h.Uint64(u_);
      case kDouble: return h.Double(d_);
      case kString: return h.String(s_.c_str(), (SizeType)s_.size(), true);
      case kArray:
        if (!h.StartArray()) return false;
        for (const Value& v : a_) if (!v.Accept(h)) return false;
        return h.EndArray((SizeType)a_.size());
      case kObject:
        if (!h.StartObject()) return false;
        for (const Member& m : m_) {
          if (!h.Key(m.name.s_.c_str(), (SizeType)m.name.s_.size(), true)) return false;
          if (!m.value.Accept(h)) return false;
        }
        return h.EndObject((SizeType)m_.size());
    }
    return false;
  }

  inline bool Value::operator==(const Value& rhs) const {
    if (IsNumber() && rhs.IsNumber()) {
      if (IsDouble() || rhs.IsDouble()) { double a = GetDouble(), b = rhs.GetDouble(); return a >= b && a <= b; }
      if (kind_ == kInt && i_ < 0) return rhs.kind_ == kInt && rhs.i_ == i_;
      if (rhs.kind_ == kInt && rhs.i_ < 0) return false;
      return GetUint64() == rhs.GetUint64();
    }
    if (IsBool() && rhs.IsBool()) return kind_ == rhs.kind_;
    if (kind_ != rhs.kind_) return false;
    switch (kind_) {
      case kNull: return true;
      case kString: return s_ == rhs.s_;
      case kArray:
        if (a_.size() != rhs.a_.size()) return false;
        for (size_t i = 0; i < a_.size(); i++) if (!(a_[i] == rhs.a_[i])) return false;
        return true;
      case kObject:
        if (m_.size() != rhs.m_.size()) return false;
        for (const Member& m : m_) {
          bool found = false;
          for (const Member& r : rhs.m_) if (r.name.s_ == m.name.s_) { found = true; if (!(m.value == r.value)) return false; break; }
          if (!found) return false;
        }
        return true;
      default: return true;
    }
  }

  class Document : public Value {
  public:
    Document(): result_() {}
    template <unsigned flags> Document& Parse(const char* s) {
      *static_cast<Value*>(this) = Value();
      Builder b;
      StringStream ss(s);
      Reader r;
      result_ = r.Parse<flags>(ss, b);
      if (!result_.IsError() && b.stack.size() == 1) *static_cast<Value*>(this) = b.stack[0];
      return *this;
    }
    Document& Parse(const char* s) { return Parse<kParseNoFlags>(s); }
    bool HasParseError() const { return result_.IsError(); }
    ParseErrorCode GetParseError() const { return result_.Code(); }
    size_t GetErrorOffset() const { return result_.Offset(); }
  private:
    struct Builder : BaseReaderHandler<UTF8<>, Builder> {
      std::vector<Value> stack;
      bool Null() { stack.push_back(Value()); return true; }
      bool Bool(bool b) { Value v; v.kind_ = b ? Value::kTrue : Value::kFalse; stack.push_back(v); return true; }
      bool Int(int i) { return Int64(i); }
      bool Uint(unsigned u) { return Uint64(u); }
      bool Int64(int64_t i) { Value v; if (i >= 0) { v.kind_ = Value::kUint; v.u_ = (uint64_t)i; } else { v.kind_ = Value::kInt; v.i_ = i; } stack.push_back(v); return true; }
      bool Uint64(uint64_t u) { Value v; v.kind_ = Value::kUint; v.u_ = u; stack.push_back(v); return true; }
      bool Double(double d) { Value v; v.kind_ = Value::kDouble; v.d_ = d; stack.push_back(v); return true; }
      bool String(const char* s, SizeType n, bool) { Value v; v.kind_ = Value::kString; v.s_.assign(s, n); stack.push_back(v); return true; }
      bool Key(const char* s, SizeType n, bool c) { return String(s, n, c); }
      bool StartObject() { return true; }
      bool StartArray() { return true; }
      bool EndArray(SizeType n) {
        Value v; v.kind_ = Value::kArray;
        v.a_.assign(stack.end() - n, stack.end());
        stack.resize(stack.size() - n); stack.push_back(v); return true;
      }
      bool EndObject(SizeType n) {
        Value v; v.kind_ = Value::kObject;
        size_t base = stack.size() - 2 * (size_t)n;
        for (size_t i = 0; i < n; i++) { Member m; m.name = stack[base + 2*i]; m.value = stack[base + 2*i + 1]; v.m_.push_back(m); }
        stack.resize(base); stack.push_back(v); return true;
      }
    };
    ParseResult result_;
  };
}
