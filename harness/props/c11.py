"""C11: the validity check is exact; operations return valid arrays (closure is checked by every
other property's runs through the 'viol closure' verdict, and here on a sample of operations)."""
import common as C
import gen as G

THEOREMS = ['validity_exact',
            'valid_layouts_have_a_value',
            'value_length_is_layout_length',
            'closure_expand',
            'closure_at_axis',
            'closure_num',
            'closure_localindex',
            'closure_rpad_partial',
            'closure_rpadclip_partial',
            'closure_combinations_partial',
            'closure_field_partial',
            'closure_field_chars',
            'closure_setfield',
            'closure_fillna_partial',
            'closure_flatten',
            'closure_flatten_chars',
            'closure_sort',
            'closure_reduce_partial',
            'closure_reduce_nomask',
            'closure_getitem_partial',
            'closure_fields',
            'closure_of_validity_partial',
            'expand_keeps_type',
            'expand_keeps_value',
            'result_type_at_axis',
            'result_type_num',
            'result_type_localindex',
            'num_result_typed',
            'localindex_result_typed',
            'closure_carry',
            'closure_crange',
            'closure_carry_length_class',
            'closure_field_novalue_partial',
            'closure_field_nopt',
            'closure_flatten_full',
            'closure_sort_axes',
            'closure_sort_all',
            'closure_all_modelled_operations',
            'closure_unconditional_operations']
UNION_LAW = ('simplify', 'fillna', 'getitem', 'rpad')     # harness/unionlaw.py: the union row law for these operations (check.py runs it and merges the result)
RULE = ('layouts: value-first random type/value/encoding (all node classes, widths, offset origins, option encodings, '
        'string parameters); invalid stream = one documented rule broken at one random node; closure stream = a third of '
        'the generated cases of the C01 C03 C05 C06 C07 C09 C10 checks (operations on valid inputs), whose results are '
        're-validated by the exact validity model. non-trivial = layout has >= 2 nodes; distinct by case text')
ASSUMPTIONS = ['Valid is my transcription of the documented rules (DESIGN C11); IndexedArray counts as option-like for the '
               'nesting rule (as simplify_optiontype treats it); categorical parameter not modelled']


def cases(rng, tier):
    n = 15000 if tier == 'quick' else 300000
    out = []
    for i in range(n):
        a = G.gen_array(rng, depth=rng.choice([1, 2, 3, 4]), canonical_too=False,
                        enc_kw=dict(weird_empty=0.15))
        lay = a['layout']
        nn = len(G.nodes(lay))
        out.append(C.Case('v%d' % i, 'valid', [], [G.sx(lay)], dict(nontrivial=nn >= 2, tags=dict(stream='valid'))))
        b = G.break_rule(rng, lay)
        if b is not None:
            rule, bl = b
            out.append(C.Case('i%d' % i, 'valid', [], [G.sx(bl)],
                              dict(nontrivial=True, tags=dict(stream='invalid', rule=rule))))
    return out


OWNERS = ['c01', 'c03', 'c05', 'c06', 'c07', 'c09', 'c10']   # closure: operations of these checks, results re-validated


def closure_cases(rng, tier):
    import importlib
    out = []
    for o in OWNERS:
        m = importlib.import_module('props.' + o)
        cs = m.cases(rng, 'quick')
        keep = cs if tier == 'thorough' else cs[:max(400, len(cs) // 3)]
        for c in keep:
            c.id = o + '_' + c.id
            c.meta['owner'] = o
            c.meta.setdefault('tags', {})['stream'] = 'closure:' + o
            out.append(c)
    return out


def run(cases, tier, rng):
    """validity stream (exactness) + closure stream: every operation result on a valid input must itself be valid.  Value
    disagreements of the closure stream belong to the owning property and are dropped here; only an INVALID RESULT
    (verdict 'viol closure') or a crash of validityerror counts"""
    import sys
    import check
    mod = sys.modules[__name__]
    if not any(c.op != 'valid' for c in cases) and len(cases) > 50:      # not a replay: add the closure stream
        cases = cases + closure_cases(rng, tier)
    s = check.default_run(mod, cases, tier)
    keep = []
    for f in s['findings']:
        own = any(l.startswith('(v') or l.startswith('(i') or l.startswith('(corpus') for l in f['case_lines'][:1])
        if own or 'viol closure' in ' '.join(f['case_lines']) or 'viol closure' in f.get('what', ''):
            keep.append(f)
    s['findings'] = keep
    ok = {}
    for k, v in s['corr_obligations'].items():
        ok[k] = v if k in ('corr:valid',) else True
    bad_closure = [f for f in keep if 'viol closure' in ' '.join(f['case_lines']) + f.get('what', '')
                   and not check.match_known(check.KNOWN, 'C11', dict(signature=f.get('signature')))]
    ok['impl:closure(results of operations are valid)'] = not bad_closure
    s['corr_obligations'] = ok
    return s


def signature(c, impl, v):
    o = c.meta.get('owner')
    if o:
        import importlib
        m = importlib.import_module('props.' + o)
        if hasattr(m, 'signature'):
            return m.signature(c, impl, v)
        return None
    if impl.startswith('crash'):
        lay = c.layouts[0]
        if '(par string' in lay or '(par bytestring' in lay:
            return 'validityerror-crash-string-char-content-not-numpy'
    return None
