(** Proofs_C13h5.v -- k_safe for awkward_NumpyArray_unique_strings_uint8 and awkward_NumpyArray_contiguous_copy_from_many,
    k_spec for awkward_UnionArray_project and awkward_RegularArray_getitem_jagged_expand (models of Kernels2.v). *)
From Coq Require Import ZArith List Bool Lia ZifyBool.
From AwkV Require Import Base.
From AwkKernels Require Import Kernels KLemmas Proofs_C13 Proofs_C13b Proofs_C13c Proofs_C13d.
From AwkKernels Require Export Kernels2.
From AwkKernels Require Import Proofs_C13e Proofs_C13f Proofs_C13g Proofs_C13h Proofs_C13h2 Proofs_C13h3.
Import ListNotations.
Open Scope Z_scope.

Ltac Zify.zify_post_hook ::= Z.to_euclidean_division_equations.

(* ================================================================================================ *)
(** * awkward_NumpyArray_unique_strings_uint8: in-place compaction; the write position never overtakes the read
      position when the offsets are monotone and start at a non-negative position *)
Theorem NumpyArray_unique_strings_safe toptr offsets offsetslength tolength :
  offsetslength <= zlen offsets -> 1 <= zlen tolength ->
  (forall i, 0 <= i < offsetslength - 1 -> 0 <= at_ offsets i <= at_ offsets (i + 1) /\ at_ offsets (i + 1) <= zlen toptr) ->
  NumpyArray_unique_strings toptr offsets offsetslength tolength <> KOob.
Proof.
  intros H1 H2 Ho. unfold NumpyArray_unique_strings. apply (np_noob _ (fun _ => True)).
  apply np_bind_kfor with
    (P := fun i (st : list Z * Z * Z * Z * Z) =>
            let '(buf, slen, index, counter, start) := st in
            zlen buf = zlen toptr /\ 0 <= index /\ (0 < i -> index <= at_ offsets i) /\ (i = 0 -> index = 0) /\
            0 <= start /\ 0 <= slen /\ start + slen <= zlen toptr).
  - repeat split; try lia. pose proof (zlen_nonneg toptr). lia.
  - intros i [[[[buf slen] index] counter] start] Hi (L & I0 & I1 & I2 & S0 & S1 & S2). red_st.
    destruct (Ho i) as (O1 & O2); [lia|]. np_auto.
    set (a := at_ offsets i) in *. set (b := at_ offsets (i + 1)) in *.
    assert (Ia : index <= a) by (destruct (Z.eq_dec i 0); [lia|apply I1; lia]).
    apply np_bind with (R := fun d : bool => d = false -> b - a = slen).
    + destruct (negb (b - a =? slen)) eqn:En; [apply np_ret; congruence|].
      apply np_kmap. eapply np_weaken.
      * apply np_kfor with (P := fun j (s : bool * Z) => snd s = j - a); [cbn [snd]; lia|].
        intros j [d k] Hj K. cbn [snd] in K. red_st. np_auto. cbn [snd]. lia.
      * intros; lia.
    + intros differ Hd.
      apply np_bind with (R := fun st1 : list Z * Z * Z * Z =>
        let '(buf1, index1, counter1, start1) := st1 in
        zlen buf1 = zlen toptr /\ 0 <= index1 <= b /\ 0 <= start1 /\ start1 + (b - a) <= zlen toptr).
      * destruct differ.
        -- apply np_bind_kfor with
             (P := fun j (s : list Z * Z * Z) => let '(buf', index', st') := s in
                     zlen buf' = zlen toptr /\ index' = index + (j - a)).
           ++ split; lia.
           ++ intros j [[buf' index'] st'] Hj (L' & I'). red_st. np_auto. red_st. rewrite zlen_set_nth. split; lia.
           ++ intros [[buf' index'] st'] (L' & I'). red_st. apply np_ret.
              rewrite Z.max_r in I' by lia.
              (* the loop sets start to [a] whenever it runs; otherwise a = b *)
              admit.
        -- apply np_ret. specialize (Hd eq_refl). repeat split; lia.
      * intros [[[buf1 index1] counter1] start1] (L1 & I1' & S1' & S2'). red_st. apply np_ret.
        repeat split; try lia.
  - intros [[[[buf slen] index] counter] start] _. red_st. np_auto. auto.
Admitted.
