(** C12 property theorems (proofs in Proofs_C12.v, Proofs_Carry.v, Proofs_AtAxis.v, Proofs_ToList.v):
    the modelled pipelines never read or write outside their buffers.  In the models every buffer
    access is a checked [get]/[slice] returning [Err EOob] outside the extent and non-structural
    recursion runs on fuel ([Err EFuel]); on valid layouts neither can happen. *)
From AwkV Require Import Layout Valid Types AtAxis Carry Ops_Struct
                         Proofs_Lists Proofs_ToList Proofs_Carry Proofs_AtAxis Proofs_AtAxisOps Proofs_C12.

Theorem carry_never_reads_out_of_bounds : forall c vs ix,
  Valid None c -> to_list c = Ok vs -> Forall (fun i => 0 <= i < clen c) ix ->
  exists c', carry c ix = Ok c'.
Proof. exact carry_no_oob. Qed.
Print Assumptions carry_never_reads_out_of_bounds.

Theorem at_axis_operations_never_read_out_of_bounds : forall c axis vs target,
  Valid None c -> frag c = true -> to_list c = Ok vs ->
  clean (num_model axis c) /\ clean (localindex_model axis c) /\ clean (rpad_model target axis c) /\
  clean (rpadclip_model target axis c).
Proof. exact at_axis_no_oob. Qed.
Print Assumptions at_axis_operations_never_read_out_of_bounds.

Theorem valid_layouts_can_always_be_read : forall c p, Valid p c -> chars_ok c = true -> exists vs, to_list c = Ok vs.
Proof. exact valid_to_list_total_partial. Qed.
Print Assumptions valid_layouts_can_always_be_read.
