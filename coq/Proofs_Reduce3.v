(** C03, value-level facts about the reducer specification that complete Proofs_C03.v: missing values are
    skipped; argmin / argmax positions count missing values; keepdims; min / max; any / all; prod;
    count_nonzero.  ([leaf_reduce] = one group of leaves, [zipred] = across values, [reduce_f] = one list.) *)
From Coq Require Import ZArith List Bool Lia ZifyBool Sorted.
From AwkV Require Import Base Layout Types AtAxis Ops_Reduce Proofs_Lists Proofs_C03.
Import ListNotations.
Open Scope Z_scope.

Definition is_arg (r : reducer) : bool := match r with RArgmin | RArgmax => true | _ => false end.
Definition is_none (v : value) : bool := match v with VNone => true | _ => false end.
Definition present (jv : Z * value) : bool := match snd jv with VNone => false | _ => true end.
Definition nz (x : Z) : bool := negb (x =? 0).

(* ---------------------------------------------------------------- positions matter to argmin / argmax only *)
Lemma leaf_reduce_positions r mask dt l l' :
  is_arg r = false -> map snd l = map snd l' -> leaf_reduce r mask dt l = leaf_reduce r mask dt l'.
Proof.
  intros Hr H. assert (Hlen : zlen l = zlen l').
  { unfold zlen. rewrite <- (map_length snd l), H, map_length. reflexivity. }
  unfold leaf_reduce. rewrite H, Hlen.
  destruct l as [|a l0], l' as [|a' l0']; try discriminate; destruct mask, r; try discriminate Hr; reflexivity.
Qed.

Lemma leaves_of_positions (xs xs' : list (Z * value)) :
  map snd xs = map snd xs' ->
  match mapM (fun jv : Z * value => do z <- leaf_int (snd jv); Ok (fst jv, z)) xs,
        mapM (fun jv : Z * value => do z <- leaf_int (snd jv); Ok (fst jv, z)) xs' with
  | Ok l, Ok l' => map snd l = map snd l'
  | Err e, Err e' => e = e'
  | _, _ => False
  end.
Proof.
  revert xs'. induction xs as [|[j v] xs IH]; intros [|[j' v'] xs'] H; try discriminate; [reflexivity|].
  cbn [map snd] in H. inversion H; subst. specialize (IH xs' H2). cbn [mapM fst snd].
  destruct (leaf_int v'); cbn [bind]; [|reflexivity].
  destruct (mapM _ xs), (mapM _ xs'); cbn [bind]; try contradiction; [|exact IH]. cbn [map snd]. rewrite IH. reflexivity.
Qed.

Lemma zipred_num_positions r mask dt xs xs' :
  is_arg r = false -> map snd xs = map snd xs' -> zipred r mask (TNum dt) xs = zipred r mask (TNum dt) xs'.
Proof.
  intros Hr H. cbn [zipred]. pose proof (leaves_of_positions xs xs' H) as HL.
  destruct (mapM _ xs), (mapM _ xs'); cbn [bind]; try contradiction; [|congruence].
  rewrite (leaf_reduce_positions r mask dt _ _ Hr HL). reflexivity.
Qed.

(* ---------------------------------------------------------------- missing values are skipped *)
(* for EVERY reducer and type: a missing value, wherever it stands, is dropped from the group (the others keep
   their positions) *)
Theorem missing_pairs_are_dropped r mask t pre j post :
  zipred r mask (TOpt t) (pre ++ (j, VNone) :: post) = zipred r mask (TOpt t) (pre ++ post).
Proof. cbn [zipred]. rewrite !filter_app. reflexivity. Qed.

Lemma enum_gen_filter (l : list value) : forall s,
  map snd (filter present (zip (iota_nat s (length l)) l)) = filter (fun v => negb (is_none v)) l.
Proof.
  induction l as [|v l IH]; intros s; [reflexivity|]. cbn [length iota_nat zip filter]. unfold present at 1. cbn [snd].
  destruct v; cbn [is_none negb map snd]; rewrite IH; reflexivity.
Qed.
Lemma map_snd_enum {A} (l : list A) : map snd (enum l) = l.
Proof. unfold enum, iota, zlen. rewrite Nat2Z.id. apply Proofs_Typing.map_snd_zip. rewrite Proofs_Lists.iota_nat_length'. reflexivity. Qed.

(* sum / prod / min / max / count / count_nonzero / any / all of a list of optional leaves = the same
   reducer on the list without its None entries *)
Theorem missing_values_are_skipped r mask kd dt l :
  is_arg r = false ->
  reduce_f r mask kd (TOpt (TNum dt)) l =
  reduce_f r mask kd (TNum dt) (filter (fun v => negb (is_none v)) l).
Proof.
  intros Hr. unfold reduce_f.
  change (zipred r mask (TOpt (TNum dt)) (enum l)) with (zipred r mask (TNum dt) (filter present (enum l))).
  rewrite (zipred_num_positions r mask dt _ (enum (filter (fun v => negb (is_none v)) l)) Hr); [reflexivity|].
  rewrite map_snd_enum. unfold enum, iota, zlen. rewrite Nat2Z.id. apply enum_gen_filter.
Qed.

(* ---------------------------------------------------------------- keepdims *)
Theorem keepdims_wraps_in_length_one r mask t l :
  reduce_f r mask true t l = rmap (fun v => VList [v]) (reduce_f r mask false t l).
Proof. unfold reduce_f. destruct (zipred r mask t (enum l)); reflexivity. Qed.

(* ---------------------------------------------------------------- min / max *)
Lemma fold_min_spec l : forall a, let m := fold_left Z.min l a in (m = a \/ In m l) /\ m <= a /\ forall x, In x l -> m <= x.
Proof.
  induction l as [|y l IH]; intros a; cbn [fold_left].
  - split; [left; reflexivity|]. split; [lia|]. intros x [].
  - destruct (IH (Z.min a y)) as (H1 & H2 & H3). split; [|split].
    + destruct H1 as [H1|H1]; [|right; right; exact H1].
      destruct (Z.min_spec a y) as [[_ E]|[_ E]]; [left; rewrite H1; exact E|right; left; rewrite H1; symmetry; exact E].
    + lia.
    + intros x [<-|Hx]; [lia|apply H3, Hx].
Qed.
Lemma fold_max_spec l : forall a, let m := fold_left Z.max l a in (m = a \/ In m l) /\ a <= m /\ forall x, In x l -> x <= m.
Proof.
  induction l as [|y l IH]; intros a; cbn [fold_left].
  - split; [left; reflexivity|]. split; [lia|]. intros x [].
  - destruct (IH (Z.max a y)) as (H1 & H2 & H3). split; [|split].
    + destruct H1 as [H1|H1]; [|right; right; exact H1].
      destruct (Z.max_spec a y) as [[_ E]|[_ E]]; [right; left; rewrite H1; symmetry; exact E|left; rewrite H1; exact E].
    + lia.
    + intros x [<-|Hx]; [lia|apply H3, Hx].
Qed.

(* the minimum / maximum of a non-empty group of numbers is one of them and bounds all of them;
   on booleans min = all and max = any *)
Theorem min_max_of_nonempty_is_member_and_bound mask dt l :
  l <> [] ->
  (dt <> DBool ->
   (exists m, leaf_reduce RMin mask dt l = Some (VNum (DZ m)) /\ In m (map snd l) /\ forall x, In x (map snd l) -> m <= x) /\
   (exists m, leaf_reduce RMax mask dt l = Some (VNum (DZ m)) /\ In m (map snd l) /\ forall x, In x (map snd l) -> x <= m)) /\
  leaf_reduce RMin mask DBool l = leaf_reduce RAll mask DBool l /\
  leaf_reduce RMax mask DBool l = leaf_reduce RAny mask DBool l.
Proof.
  intros Hne. destruct l as [|[j a] l]; [congruence|]. split; [|split; destruct mask; reflexivity].
  intros Hdt. split.
  - exists (fold_left Z.min (map snd l) a). split; [destruct mask, dt; try congruence; reflexivity|].
    destruct (fold_min_spec (map snd l) a) as (H1 & H2 & H3). cbn [map snd]. split.
    + destruct H1 as [H1|H1]; [left; symmetry; exact H1|right; exact H1].
    + intros x [<-|Hx]; [exact H2|apply H3, Hx].
  - exists (fold_left Z.max (map snd l) a). split; [destruct mask, dt; try congruence; reflexivity|].
    destruct (fold_max_spec (map snd l) a) as (H1 & H2 & H3). cbn [map snd]. split.
    + destruct H1 as [H1|H1]; [left; symmetry; exact H1|right; exact H1].
    + intros x [<-|Hx]; [exact H2|apply H3, Hx].
Qed.

(* ---------------------------------------------------------------- any / all *)
Theorem any_all_are_exists_forall mask dt l :
  l <> [] \/ mask = false ->
  (exists b, leaf_reduce RAny mask dt l = Some (VBool b) /\ (b = true <-> exists x, In x (map snd l) /\ x <> 0)) /\
  (exists b, leaf_reduce RAll mask dt l = Some (VBool b) /\ (b = true <-> forall x, In x (map snd l) -> x <> 0)).
Proof.
  intros H. split.
  - exists (existsb nz (map snd l)). split.
    + destruct l, mask; try reflexivity. destruct H; congruence.
    + rewrite existsb_exists. unfold nz. split; intros (x & Hx & Hn); exists x; (split; [exact Hx|lia]).
  - exists (forallb nz (map snd l)). split.
    + destruct l, mask; try reflexivity. destruct H; congruence.
    + rewrite forallb_forall. unfold nz. split; intros Hall x Hx; specialize (Hall x Hx); lia.
Qed.

(* ---------------------------------------------------------------- prod / count_nonzero *)
Theorem prod_is_wrapped_product mask dt l :
  l <> [] \/ mask = false -> leaf_reduce RProd mask dt l = Some (VNum (DZ (wrap_acc dt (prodZ (map snd l))))).
Proof.
  intros H. assert (E : fold_left Z.mul (map snd l) 1 = prodZ (map snd l)).
  { unfold prodZ. apply fold_symmetric; intros; ring. }
  unfold leaf_reduce. rewrite E. destruct l, mask; try reflexivity. destruct H; congruence.
Qed.

Theorem count_nonzero_counts mask dt l :
  l <> [] \/ mask = false ->
  let k := zlen (filter nz (map snd l)) in
  leaf_reduce RCountNonzero mask dt l = Some (VNum (DZ k)) /\ 0 <= k <= zlen l /\
  (k = zlen l <-> forall x, In x (map snd l) -> x <> 0).
Proof.
  intros H k. split; [|split].
  - unfold k, nz. destruct l, mask; try reflexivity. destruct H; congruence.
  - unfold k. rewrite <- (zlen_map snd l). generalize (map snd l). intros m. induction m as [|x m IH]; [cbn; lia|].
    cbn [filter]. destruct (nz x); rewrite ?zlen_cons; lia.
  - unfold k. rewrite <- (zlen_map snd l). generalize (map snd l). intros m. induction m as [|x m IH].
    + split; [intros _ x []|reflexivity].
    + assert (Hle : zlen (filter nz m) <= zlen m).
      { clear. induction m as [|y m IH]; [cbn; lia|]. cbn [filter]. destruct (nz y); rewrite ?zlen_cons; lia. }
      cbn [filter]. unfold nz at 1. destruct (x =? 0) eqn:E; cbn [negb]; rewrite ?zlen_cons.
      * split; [lia|]. intros Hall. exfalso. apply (Hall x (or_introl eq_refl)). lia.
      * split.
        -- intros Hk x' [<-|Hx']; [lia|]. apply IH; [lia|exact Hx'].
        -- intros Hall. f_equal. apply IH. intros x' Hx'. apply Hall. right. exact Hx'.
Qed.

(* ---------------------------------------------------------------- argmin / argmax positions count missing values *)
Lemma zip_iota_In {A} (l : list A) : forall s i v,
  In (i, v) (zip (iota_nat s (length l)) l) <-> s <= i /\ get l (i - s) = Ok v.
Proof.
  induction l as [|a l IH]; intros s i v; cbn [length iota_nat zip In].
  - rewrite get_nil. split; [intros []|intros [_ H]; discriminate].
  - rewrite IH. split.
    + intros [H|[H1 H2]].
      * inversion H; subst. split; [lia|]. rewrite Z.sub_diag. reflexivity.
      * split; [lia|]. rewrite get_cons_pos by lia. replace (i - s - 1) with (i - (s + 1)) by lia. exact H2.
    + intros [H1 H2]. destruct (Z.eq_dec i s) as [->|Hn].
      * left. rewrite Z.sub_diag in H2. cbn in H2. inversion H2. reflexivity.
      * right. split; [lia|]. rewrite get_cons_pos in H2 by lia. replace (i - (s + 1)) with (i - s - 1) by lia. exact H2.
Qed.
Lemma enum_In {A} (l : list A) i v : In (i, v) (enum l) <-> get l i = Ok v.
Proof.
  unfold enum, iota, zlen. rewrite Nat2Z.id, zip_iota_In, Z.sub_0_r. split; [intros [_ H]; exact H|].
  intros H. split; [apply get_range in H; lia|exact H].
Qed.
Lemma zip_iota_sorted {A} (P : Z * A -> bool) (l : list A) : forall s,
  Sorted.StronglySorted Z.lt (map fst (filter P (zip (iota_nat s (length l)) l))).
Proof.
  induction l as [|a l IH]; intros s; cbn [length iota_nat zip filter]; [constructor|].
  destruct (P (s, a)); [|apply IH]. cbn [map fst]. constructor; [apply IH|].
  apply Forall_forall. intros i Hi. apply in_map_iff in Hi as ([i' v] & <- & Hin). apply filter_In in Hin as [Hin _].
  apply zip_iota_In in Hin as [Hle _]. cbn [fst]. lia.
Qed.

Definition leafF (jv : Z * value) : res (Z * Z) := do z <- leaf_int (snd jv); Ok (fst jv, z).

(* the group handed to [leaf_reduce] for a list of optional leaves: positions are those in the list *)
Lemma arg_group l ls :
  mapM leafF (filter present (enum l)) = Ok ls ->
  Sorted.StronglySorted Z.lt (map fst ls) /\
  (forall i z, In (i, z) ls <-> exists v, get l i = Ok v /\ leaf_int v = Ok z).
Proof.
  intros H. split.
  - replace (map fst ls) with (map fst (filter present (enum l))).
    + unfold enum, iota, zlen. rewrite Nat2Z.id. apply zip_iota_sorted.
    + clear -H. revert ls H. induction (filter present (enum l)) as [|[j v] xs IH]; intros ls H; cbn [mapM] in H.
      * inversion H. reflexivity.
      * apply bind_Ok in H as (y & Hy & H). apply bind_Ok in H as (ls' & Hls & H). inversion H; subst.
        unfold leafF in Hy. cbn [fst snd] in Hy. apply bind_Ok in Hy as (z & _ & Hy). inversion Hy; subst.
        cbn [map fst]. rewrite (IH _ Hls). reflexivity.
  - intros i z. split.
    + intros Hin. destruct (mapM_In_inv _ _ _ _ H Hin) as ([i' v] & Hx & Hy). unfold leafF in Hy. cbn [fst snd] in Hy.
      apply bind_Ok in Hy as (z' & Hz' & Hy). inversion Hy; subst. apply filter_In in Hx as [Hx _]. apply enum_In in Hx. eauto.
    + intros (v & Hg & Hz). assert (Hx : In (i, v) (filter present (enum l))).
      { apply filter_In. split; [apply enum_In, Hg|]. unfold present. cbn [snd]. destruct v; try reflexivity. discriminate. }
      destruct (mapM_Ok_In _ _ _ _ H Hx) as (y & Hy & Hin). unfold leafF in Hy. cbn [fst snd] in Hy. rewrite Hz in Hy.
      inversion Hy; subst. exact Hin.
Qed.

Lemma sorted_before (pre : list (Z * Z)) j x post i z :
  Sorted.StronglySorted Z.lt (map fst (pre ++ (j, x) :: post)) -> In (i, z) (pre ++ (j, x) :: post) -> i < j -> In (i, z) pre.
Proof.
  induction pre as [|a pre IH]; intros Hs Hin Hlt; cbn [app map] in *.
  - exfalso. apply Sorted.StronglySorted_inv in Hs as [_ Hall]. destruct Hin as [Hin|Hin]; [inversion Hin; lia|].
    rewrite Forall_forall in Hall. specialize (Hall i (in_map fst _ _ Hin)). cbn [fst] in Hall. lia.
  - apply Sorted.StronglySorted_inv in Hs as [Hs _]. destruct Hin as [Hin|Hin]; [left; exact Hin|right; apply IH; assumption].
Qed.

(* argmax through argmin of the negated values *)
Definition negp (jx : Z * Z) : Z * Z := (fst jx, - snd jx).
Lemma argbest_gtb_neg l : forall best,
  argbest Z.gtb best l = option_map negp (argbest Z.ltb (option_map negp best) (map negp l)).
Proof.
  induction l as [|[j x] l IH]; intros best; cbn [argbest map].
  - destruct best as [[bj bx]|]; cbn [option_map]; unfold negp; cbn [fst snd]; [rewrite Z.opp_involutive|]; reflexivity.
  - destruct best as [[bj bx]|]; cbn [option_map]; unfold negp; cbn [fst snd].
    + replace (- x <? - bx) with (x >? bx) by lia. destruct (x >? bx); rewrite IH; reflexivity.
    + rewrite IH. reflexivity.
Qed.

Lemma argmax_facts l j x :
  argbest Z.gtb None l = Some (j, x) ->
  exists pre post, l = pre ++ (j, x) :: post /\ (forall j' x', In (j', x') l -> x' <= x) /\ (forall j' x', In (j', x') pre -> x' < x).
Proof.
  rewrite argbest_gtb_neg. cbn [option_map]. destruct (argbest Z.ltb None (map negp l)) as [[j0 x0]|] eqn:E; [|discriminate].
  cbn [option_map]; unfold negp; cbn [fst snd]. intros H. inversion H; subst. clear H.
  pose proof (argmin_le _ _ _ _ E) as [_ Hall].
  destruct (argmin_first _ _ _ _ E) as [C | (pre' & post' & Hl & Hpre & _)]; [discriminate|].
  apply map_eq_app in Hl as (pre & rest & -> & Hp & Hr). apply map_eq_cons in Hr as ([j1 x1] & post & -> & Ha & Hpost).
  unfold negp in Ha. cbn [fst snd] in Ha. inversion Ha; subst. exists pre, post. rewrite Z.opp_involutive. split; [reflexivity|]. split.
  - intros j' x' Hin. specialize (Hall j' (- x')). rewrite <- (Z.opp_involutive x1). cut (- x1 <= - x'); [lia|]. apply Hall.
    change (j', - x') with (negp (j', x')). apply in_map, Hin.
  - intros j' x' Hin. cut (- x1 < - x'); [lia|]. apply (Hpre j' (- x')). change (j', - x') with (negp (j', x')). apply in_map, Hin.
Qed.
Lemma argmin_facts l j x :
  argbest Z.ltb None l = Some (j, x) ->
  exists pre post, l = pre ++ (j, x) :: post /\ (forall j' x', In (j', x') l -> x <= x') /\ (forall j' x', In (j', x') pre -> x < x').
Proof.
  intros E. pose proof (argmin_le _ _ _ _ E) as [_ Hall].
  destruct (argmin_first _ _ _ _ E) as [C | (pre & post & Hl & Hpre & _)]; [discriminate|]. eauto.
Qed.

Lemma arg_reduce_inv (amin : bool) mask dt l j :
  reduce_f (if amin then RArgmin else RArgmax) mask false (TOpt (TNum dt)) l = Ok (VNum (DZ j)) -> 0 <= j ->
  exists ls x, mapM leafF (filter present (enum l)) = Ok ls /\
               argbest (if amin then Z.ltb else Z.gtb) None ls = Some (j, x).
Proof.
  intros H Hj. unfold reduce_f in H. apply bind_Ok in H as (v & Hv & H). inversion H; subst v. clear H.
  change (zipred (if amin then RArgmin else RArgmax) mask (TOpt (TNum dt)) (enum l))
    with (do ls <- mapM leafF (filter present (enum l)); Ok (opt_val (leaf_reduce (if amin then RArgmin else RArgmax) mask dt ls))) in Hv.
  apply bind_Ok in Hv as (ls & Hls & Hv). exists ls. unfold leaf_reduce in Hv.
  destruct amin.
  - destruct (argbest Z.ltb None ls) as [[j0 x]|] eqn:E.
    + exists x. split; [exact Hls|]. destruct ls, mask; cbn [opt_val] in Hv; inversion Hv; subst; try reflexivity; discriminate.
    + exfalso. destruct ls as [|[a b] ls']; [|cbn in E; exact (argbest_some _ _ _ E)].
      destruct mask; cbn [opt_val] in Hv; inversion Hv. lia.
  - destruct (argbest Z.gtb None ls) as [[j0 x]|] eqn:E.
    + exists x. split; [exact Hls|]. destruct ls, mask; cbn [opt_val] in Hv; inversion Hv; subst; try reflexivity; discriminate.
    + exfalso. destruct ls as [|[a b] ls']; [|cbn in E; exact (argbest_some _ _ _ E)].
      destruct mask; cbn [opt_val] in Hv; inversion Hv. lia.
Qed.

(* the reported position is the index in the ORIGINAL list (None entries counted) of the first extremal
   non-missing element; -1 (excluded by 0 <= j) is the identity of an empty group *)
Theorem argmin_position_counts_missing mask dt l j :
  reduce_f RArgmin mask false (TOpt (TNum dt)) l = Ok (VNum (DZ j)) -> 0 <= j ->
  exists v z, get l j = Ok v /\ leaf_int v = Ok z /\
              forall i v' z', get l i = Ok v' -> leaf_int v' = Ok z' -> z <= z' /\ (i < j -> z < z').
Proof.
  intros H Hj. destruct (arg_reduce_inv true mask dt l j H Hj) as (ls & x & Hls & E).
  destruct (arg_group l ls Hls) as [Hsort Hin]. destruct (argmin_facts ls j x E) as (pre & post & Hl & Hall & Hpre).
  assert (Hjx : In (j, x) ls) by (rewrite Hl; apply in_or_app; right; left; reflexivity).
  apply Hin in Hjx as (v & Hv & Hz). exists v, x. split; [exact Hv|]. split; [exact Hz|].
  intros i v' z' Hg Hz'. assert (Hi : In (i, z') ls) by (apply Hin; eauto). split; [apply (Hall i z' Hi)|].
  intros Hlt. apply (Hpre i z'). rewrite Hl in Hsort, Hi. eapply sorted_before; eassumption.
Qed.
Theorem argmax_position_counts_missing mask dt l j :
  reduce_f RArgmax mask false (TOpt (TNum dt)) l = Ok (VNum (DZ j)) -> 0 <= j ->
  exists v z, get l j = Ok v /\ leaf_int v = Ok z /\
              forall i v' z', get l i = Ok v' -> leaf_int v' = Ok z' -> z' <= z /\ (i < j -> z' < z).
Proof.
  intros H Hj. destruct (arg_reduce_inv false mask dt l j H Hj) as (ls & x & Hls & E).
  destruct (arg_group l ls Hls) as [Hsort Hin]. destruct (argmax_facts ls j x E) as (pre & post & Hl & Hall & Hpre).
  assert (Hjx : In (j, x) ls) by (rewrite Hl; apply in_or_app; right; left; reflexivity).
  apply Hin in Hjx as (v & Hv & Hz). exists v, x. split; [exact Hv|]. split; [exact Hz|].
  intros i v' z' Hg Hz'. assert (Hi : In (i, z') ls) by (apply Hin; eauto). split; [apply (Hall i z' Hi)|].
  intros Hlt. apply (Hpre i z'). rewrite Hl in Hsort, Hi. eapply sorted_before; eassumption.
Qed.
Theorem argminmax_positions_count_missing mask dt l j :
  0 <= j ->
  (reduce_f RArgmin mask false (TOpt (TNum dt)) l = Ok (VNum (DZ j)) ->
   exists v z, get l j = Ok v /\ leaf_int v = Ok z /\
               forall i v' z', get l i = Ok v' -> leaf_int v' = Ok z' -> z <= z' /\ (i < j -> z < z')) /\
  (reduce_f RArgmax mask false (TOpt (TNum dt)) l = Ok (VNum (DZ j)) ->
   exists v z, get l j = Ok v /\ leaf_int v = Ok z /\
               forall i v' z', get l i = Ok v' -> leaf_int v' = Ok z' -> z' <= z /\ (i < j -> z' < z)).
Proof.
  intros Hj. split; intros H; [eapply argmin_position_counts_missing|eapply argmax_position_counts_missing]; eassumption.
Qed.

Example argmin_counts_missing_ex :
  reduce_f RArgmin false false (TOpt (TNum DInt64)) [VNone; VNum (DZ 7); VNone; VNum (DZ 3); VNum (DZ 3)] = Ok (VNum (DZ 3)) /\
  reduce_f RArgmax true true (TOpt (TNum DInt64)) [VNone; VNum (DZ 7); VNone; VNum (DZ 3)] = Ok (VList [VNum (DZ 1)]) /\
  reduce_f RSum false false (TOpt (TNum DInt64)) [VNone; VNum (DZ 7); VNone; VNum (DZ 3)] = Ok (VNum (DZ 10)) /\
  reduce_f RArgmin true false (TOpt (TNum DInt64)) [VNone; VNone] = Ok VNone /\
  reduce_f RArgmin false false (TOpt (TNum DInt64)) [VNone; VNone] = Ok (VNum (DZ (-1))).
Proof. vm_compute. repeat split. Qed.

Print Assumptions missing_values_are_skipped.
Print Assumptions argminmax_positions_count_missing.
Print Assumptions min_max_of_nonempty_is_member_and_bound.
Print Assumptions count_nonzero_counts.
