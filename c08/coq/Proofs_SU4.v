(** C08: simplify_uniontype on the [su_frag] fragment: when no alternative has boolean leaves the cast is the
    identity (no value changes), whatever [merge] / [mergebool]. *)
From Coq Require Import ZArith List Bool Lia ZifyBool.
From AwkV Require Import Base Layout LayoutInd Valid Types Carry Proofs_C11.
From AwkMerge Require Import Merge Lemmas_C08 Proofs_C08 Proofs_MM Proofs_Simplify Proofs_SU Proofs_SU2 Proofs_SU3.
Import ListNotations.
Open Scope Z_scope.

(* a value without booleans: the cast does nothing *)
Definition nb (v : value) : Prop := forall d, deep_cast d v = v.

Lemma nb_VList l : Forall nb l -> nb (VList l).
Proof.
  intros H d. cbn [deep_cast]. f_equal. induction H as [|x xs Hx _ IH]; cbn [map]; [reflexivity|]. now rewrite Hx, IH.
Qed.

Lemma In_take_drop {A} (V : list A) a n x : In x (take n (drop a V)) -> In x V.
Proof.
  unfold take, drop. intros H.
  rewrite <- (firstn_skipn (Z.to_nat a) V). apply in_or_app. right.
  rewrite <- (firstn_skipn (Z.to_nat n) (skipn (Z.to_nat a) V)). apply in_or_app. left. exact H.
Qed.
Lemma cut1_In {A} (V : list A) p l x : cut1 V p = Ok l -> In x l -> In x V.
Proof.
  destruct p as [a b]. unfold cut1. destruct (a =? b); [intros H; inversion H; subst; intros []|].
  intros H. apply slice_ok in H. destruct H as (_ & _ & ->). apply In_take_drop.
Qed.

Lemma nobool s : forall x, has_sk s x = true -> tl_ok x -> dt_eqb (leaf_dt x) DBool = false -> Forall nb (vals x).
Proof.
  induction s as [|s' IH|s' IH]; intros x Hs Ht Hd.
  - destruct (has_sk_SNum _ Hs) as (dt & n & data & ->). pose proof (tl_ok_vals _ Ht) as Hv.
    apply to_list_np1 in Hv. destruct Hv as [_ ->]. cbn [leaf_dt] in Hd.
    apply Forall_forall. intros v Hin. apply in_map_iff in Hin. destruct Hin as (dd & <- & _).
    intros d. destruct dt; try discriminate; reflexivity.
  - destruct (list_view _ _ Hs Ht) as (_ & Hsc & Htc & _ & Hcut & Hvals & _ & Hleaf).
    rewrite Hvals. rewrite Hleaf in Hd. specialize (IH _ Hsc Htc Hd).
    apply Forall_forall. intros v Hin. apply in_map_iff in Hin. destruct Hin as (l & <- & Hl).
    apply nb_VList. apply Forall_forall. intros y Hy.
    apply mapM_ok_Forall2 in Hcut.
    assert (exists p, cut1 (vals (lv_c x)) p = Ok l) as [p Hp].
    { clear -Hcut Hl. induction Hcut; [destruct Hl|]. destruct Hl as [<-|Hl]; eauto. }
    eapply Forall_forall in IH; [exact IH|]. eapply cut1_In; eauto.
  - destruct (ix_view _ _ Hs Ht) as (_ & Hsc & Htc & Hsem & _ & Hleaf & _).
    rewrite Hleaf in Hd. specialize (IH _ Hsc Htc Hd).
    unfold sem_ix in Hsem. apply mapM_ok_Forall2 in Hsem.
    apply Forall_forall. intros v Hin.
    assert (exists i, (if iv_opt x then pick_opt (vals (iv_c x)) (0 <=? i) i else get (vals (iv_c x)) i) = Ok v) as [i Hi].
    { clear -Hsem Hin. induction Hsem; [destruct Hin|]. destruct Hin as [<-|Hin]; eauto. }
    assert (Hget : forall j, get (vals (iv_c x)) j = Ok v -> nb v).
    { intros j Hj. eapply Forall_forall in IH; [exact IH|]. apply get_ok in Hj. destruct Hj as [_ N]. eapply nth_error_In; eauto. }
    destruct (iv_opt x); [|eapply Hget; eauto].
    unfold pick_opt in Hi. destruct (0 <=? i); [eapply Hget; eauto|]. inversion Hi; subst. intros d. reflexivity.
Qed.

(* no alternative has boolean leaves *)
Definition no_bool_alts (cs0 : list content) : bool := forallb (fun x => negb (dt_eqb (leaf_dt x) DBool)) cs0.

Lemma Forall2_castrel_nb vs : Forall nb vs -> forall vs', Forall2 castrel vs vs' -> vs' = vs.
Proof.
  intros Hnb vs' H. induction H as [|v v' l l' [d ->] _ IH]; [reflexivity|].
  inversion Hnb; subst. rewrite (H1 d), IH by assumption. reflexivity.
Qed.

(* simplify_uniontype(merge, mergebool) on the [su_frag] fragment, no boolean alternative: the result exists and
   no value changes *)
Theorem simplify_union_merge_nobool_pf : forall merge_ mb c w tags index cs0 vs,
  body c = Union w tags index cs0 -> is_strk (fst (params c)) = false ->
  Forall (fun x => valid_b x = true) cs0 -> su_frag cs0 = true -> no_bool_alts cs0 = true ->
  cs0 <> [] -> (length cs0 <= 127)%nat ->
  to_list c = Ok vs ->
  exists c', simplify_union merge_ mb c = Ok c' /\ to_list c' = Ok vs.
Proof.
  intros merge_ mb c w tags index cs0 vs Hb Hns Hval Hfrag Hnb Hne H127 Ht.
  destruct (simplify_union_merge_sk_pf merge_ mb c w tags index cs0 vs Hb Hns Hval Hfrag Hne H127 Ht)
    as (c' & vs' & Hs & Ht' & Hcast).
  exists c'. split; [exact Hs|]. rewrite Ht'. f_equal. apply Forall2_castrel_nb; [|exact Hcast].
  (* every value of the union comes from an alternative *)
  unfold su_frag in Hfrag. apply andb_true_iff in Hfrag. destruct Hfrag as [Hsk _].
  apply forallb_Forall_true in Hsk. unfold no_bool_alts in Hnb.
  rewrite (to_list_nostr _ Hns), Hb in Ht.
  destruct (union_rows _ _ _ _ _ Ht) as (Htl0 & Hli & Hlv & Hrows).
  apply Forall_forall. intros v Hin. apply In_nth_error in Hin. destruct Hin as [n Hn].
  assert (Hg : get vs (Z.of_nat n) = Ok v) by (apply get_nth; [lia|]; rewrite Nat2Z.id; exact Hn).
  pose proof (get_lt _ _ _ Hg) as Hr.
  destruct (get_in_range tags (Z.of_nat n)) as [t Hpt]; [lia|].
  destruct (get_in_range index (Z.of_nat n)) as [ix Hpi]; [lia|].
  destruct (Hrows _ _ _ Hpt Hpi) as (v' & Hv' & Hlk). assert (v' = v) by congruence. subst v'.
  unfold lk in Hlk. apply bind_ok in Hlk. destruct Hlk as (l & Hl & Hlv').
  assert (exists x, In x cs0 /\ l = vals x) as (x & Hx & ->).
  { apply get_ok in Hl. destruct Hl as [_ N]. apply nth_error_In in N. apply in_map_iff in N.
    destruct N as (x & <- & Hx). eauto. }
  assert (Hnbx : Forall nb (vals x)).
  { eapply (nobool (skd x)).
    - apply has_skel_sk. eapply Forall_forall in Hsk; eauto.
    - eapply Forall_forall in Htl0; eauto.
    - rewrite forallb_forall in Hnb. specialize (Hnb _ Hx). apply negb_true_iff in Hnb. exact Hnb. }
  eapply Forall_forall in Hnbx; [exact Hnbx|]. apply get_ok in Hlv'. destruct Hlv' as [_ N]. eapply nth_error_In; eauto.
Qed.

Example simplify_union_merge_nobool_example :
  let x0 := IndexedOption I32 [0; -1; 1] (ListOffset I64 [0; 2; 3] (Numpy DUInt8 [3] [DZ 1; DZ 0; DZ 1])) in
  let x1 := Numpy DFloat64 [2] [DZ 5; DZ 6] in
  let x2 := ByteMasked [1; 0] false (ListA U32 [5; 0] [5; 1] (Numpy DInt8 [1] [DZ 4])) in
  let alts := [x0; x1; x2] in
  let c := Union I32 [0; 2; 1; 0; 2; 0] [0; 1; 1; 1; 0; 2] alts in
  su_frag alts = true /\ no_bool_alts alts = true /\ forallb valid_b alts = true /\
  to_list c = Ok [VList [VNum (DZ 1); VNum (DZ 0)]; VList [VNum (DZ 4)]; VNum (DZ 6); VNone; VNone; VList [VNum (DZ 1)]] /\
  rmap to_list (simplify_union true false c) = Ok (to_list c) /\
  rmap (fun c' => match c' with Union _ _ _ cs => length cs | _ => O end) (simplify_union true false c) = Ok 2%nat.
Proof. vm_compute. repeat split. Qed.

(* ---------------------------------------------------------------- merge = false on the fragment: total *)
Lemma flat_alts_plain cs0 : Forall (fun x => has_skel x = true) cs0 -> flat_alts cs0 = cs0.
Proof.
  induction 1 as [|x xs Hx _ IH]; [reflexivity|]. unfold flat_alts in *. cbn [map concat]. rewrite IH.
  apply has_skel_sk in Hx. destruct (has_sk_nopar _ _ Hx) as [_ Hb]. unfold flat1. rewrite Hb.
  destruct x; try reflexivity. match type of Hx with has_sk ?s _ = _ => destruct s; discriminate end.
Qed.

(* simplify_uniontype(merge = False) on the fragment: the result exists and no value changes (booleans included) *)
Theorem simplify_union_false_total_pf : forall mb c w tags index cs0 vs,
  body c = Union w tags index cs0 -> is_strk (fst (params c)) = false ->
  Forall (fun x => valid_b x = true) cs0 -> su_frag cs0 = true ->
  cs0 <> [] -> (length cs0 <= 127)%nat ->
  to_list c = Ok vs ->
  exists c', simplify_union false mb c = Ok c' /\ to_list c' = Ok vs.
Proof.
  intros mb c w tags index cs0 vs Hb Hns Hval Hfrag Hne H127 Ht.
  destruct (simplify_union_merge_sk_pf false mb c w tags index cs0 vs Hb Hns Hval Hfrag Hne H127 Ht)
    as (c' & vs' & Hs & _ & _).
  exists c'. split; [exact Hs|].
  unfold su_frag in Hfrag. apply andb_true_iff in Hfrag. destruct Hfrag as [Hsk _].
  apply forallb_Forall_true in Hsk. pose proof (flat_alts_plain _ Hsk) as Hfl.
  destruct cs0 as [|a1 [|a2 rest]] eqn:E; [congruence| |].
  - destruct (simplify_union_single_pf mb c w tags index [a1] a1 vs c' Hb Hns Hval Hfl Ht Hs) as [H _]. exact H.
  - assert (Hn : (2 <= length (flat_alts (a1 :: a2 :: rest)))%nat) by (rewrite Hfl; cbn; lia).
    destruct (simplify_union_value_pf mb c w tags index _ vs c' Hb Hns Hval Hn Ht Hs) as [H _]. exact H.
Qed.
