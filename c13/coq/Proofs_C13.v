(** Proofs_C13.v -- k_safe / k_spec / k_width for the kernel models of Kernels.v *)
From Coq Require Import ZArith List Bool Lia ZifyBool.
From AwkV Require Import Base.
From AwkKernels Require Import Kernels KLemmas.
Import ListNotations.
Open Scope Z_scope.

Ltac Zify.zify_post_hook ::= Z.to_euclidean_division_equations.

(** element i of a buffer (0 outside): used to state pointwise hypotheses *)
Definition at_ (l : list Z) (i : Z) : Z := nth (Z.to_nat i) l 0.

Lemma kget_at l i : 0 <= i < zlen l -> kget l i = KOk (at_ l i).
Proof. apply kget_nth. Qed.

(** * map over iota = map over the list *)
Lemma map_iota_nat_shift {B} (f : Z -> B) s n :
  map f (iota_nat (s + 1) n) = map (fun i => f (i + 1)) (iota_nat s n).
Proof. revert s; induction n; intros s; cbn [iota_nat map]; auto. f_equal. apply IHn. Qed.

Lemma map_iota_list {B} (h : Z -> B) (a : list Z) :
  map (fun i => h (at_ a i)) (iota (zlen a)) = map h a.
Proof.
  unfold iota, zlen. rewrite Nat2Z.id.
  induction a as [|x a IH]; cbn [length iota_nat map]; auto.
  f_equal. change (0 + 1) with (0 + 1). rewrite map_iota_nat_shift. rewrite <- IH.
  apply map_ext_in. intros i Hi. apply in_iota_nat in Hi. unfold at_.
  replace (Z.to_nat (i + 1)) with (S (Z.to_nat i)) by lia. reflexivity.
Qed.

Lemma map_iota_zip {B} (h : Z -> Z -> B) (a b : list Z) :
  zlen a = zlen b ->
  map (fun i => h (at_ a i) (at_ b i)) (iota (zlen a)) = map (fun p => h (fst p) (snd p)) (zip a b).
Proof.
  unfold iota, zlen. rewrite Nat2Z.id. intros H. assert (L : length a = length b) by lia. clear H.
  revert b L; induction a as [|x a IH]; intros [|y b] L; cbn [length iota_nat map zip] in *; try discriminate; auto.
  f_equal. rewrite map_iota_nat_shift. rewrite <- IH by lia.
  apply map_ext_in. intros i Hi. apply in_iota_nat in Hi. unfold at_.
  replace (Z.to_nat (i + 1)) with (S (Z.to_nat i)) by lia. reflexivity.
Qed.

Lemma kfill_ext off n f f' out :
  (forall i, 0 <= i < n -> f i = f' i) -> kfill off n f out = kfill off n f' out.
Proof. intros H. unfold kfill. apply kfor_ext. intros j s Hj. now rewrite H. Qed.

Lemma filled_0_all n g out : zlen out = n -> filled 0 n g out = map g (iota n).
Proof.
  intros H. unfold filled. cbn [Z.to_nat firstn app]. rewrite skipn_all2, app_nil_r; auto.
  unfold zlen in H. lia.
Qed.
Lemma filled_0_prefix n g out : 0 <= n -> filled 0 n g out = map g (iota n) ++ skipn (Z.to_nat n) out.
Proof. intros H. unfold filled. cbn [Z.to_nat firstn app]. now rewrite Z.add_0_l. Qed.

(* ================================================================================================ *)
(** * awkward_ListArray_num *)

Theorem ListArray_num_safe tT tC tonum starts stops n :
  n <= zlen starts -> n <= zlen stops -> n <= zlen tonum ->
  ListArray_num tT tC tonum starts stops n <> KOob.
Proof.
  intros H1 H2 H3. unfold ListArray_num. apply kfill_safe; try lia.
  intros i Hi. rewrite (kget_at starts), (kget_at stops) by lia. cbn [kbind]. congruence.
Qed.

(** the kernel computes [map (stop - start)] over the zipped starts/stops, leaving the rest of the buffer alone *)
Theorem ListArray_num_spec tonum starts stops n :
  zlen starts = n -> zlen stops = n -> n <= zlen tonum ->
  ListArray_num TIdeal TIdeal tonum starts stops n
  = KOk (map (fun p => snd p - fst p) (zip starts stops) ++ skipn (Z.to_nat n) tonum).
Proof.
  intros H1 H2 H3. pose proof (zlen_nonneg starts). unfold ListArray_num.
  rewrite (kfill_spec 0 n _ (fun i => at_ stops i - at_ starts i)); try lia.
  - rewrite Z.max_r by lia. rewrite filled_0_prefix by lia. do 2 f_equal.
    subst n. rewrite (map_iota_zip (fun s e => e - s)) by lia. reflexivity.
  - intros i Hi. rewrite (kget_at starts), (kget_at stops) by lia. reflexivity.
Qed.

(** every width specialisation equals the ideal one when the differences are representable *)
Theorem ListArray_num_width tT tC tonum starts stops n :
  n <= zlen starts -> n <= zlen stops ->
  (forall i, 0 <= i < n -> fits tC (at_ stops i - at_ starts i) /\ fits tT (at_ stops i - at_ starts i)) ->
  ListArray_num tT tC tonum starts stops n = ListArray_num TIdeal TIdeal tonum starts stops n.
Proof.
  intros H1 H2 Hf. unfold ListArray_num. apply kfill_ext. intros i Hi.
  rewrite (kget_at starts), (kget_at stops) by lia. cbn [kbind wrap].
  destruct (Hf i Hi) as (F1 & F2). unfold fits in *. now rewrite F1, F2.
Qed.

Example ListArray_num_example :
  ListArray_num (TI 64) (TU 32) [7; 7; 7] [4294967291; 0; 3] [4294967294; 0; 7] 3 = KOk [3; 0; 4].
Proof. vm_compute. reflexivity. Qed.

(* ================================================================================================ *)
(** * awkward_RegularArray_num *)

Theorem RegularArray_num_safe tT tonum size n : n <= zlen tonum -> RegularArray_num tT tonum size n <> KOob.
Proof. intros H. unfold RegularArray_num. apply kfill_safe; try lia. congruence. Qed.

Theorem RegularArray_num_spec tonum size n :
  0 <= n -> n <= zlen tonum ->
  RegularArray_num TIdeal tonum size n = KOk (repeat size (Z.to_nat n) ++ skipn (Z.to_nat n) tonum).
Proof.
  intros H0 H. unfold RegularArray_num.
  rewrite (kfill_spec 0 n _ (fun _ => size)); try lia; auto.
  rewrite Z.max_r by lia. rewrite filled_0_prefix by lia. do 2 f_equal.
  unfold iota. generalize 0. induction (Z.to_nat n); intros z; cbn; auto. now rewrite IHn0.
Qed.

Theorem RegularArray_num_width tT tonum size n :
  fits tT size -> RegularArray_num tT tonum size n = RegularArray_num TIdeal tonum size n.
Proof. intros F. unfold RegularArray_num. apply kfill_ext. intros. cbn [wrap]. now rewrite F. Qed.

(* ================================================================================================ *)
(** * awkward_ListOffsetArray_flatten_offsets *)

Theorem flatten_offsets_safe tT tooffsets outer outerlen inner :
  outerlen <= zlen outer -> outerlen <= zlen tooffsets ->
  (forall i, 0 <= i < outerlen -> 0 <= at_ outer i < zlen inner) ->
  ListOffsetArray_flatten_offsets tT tooffsets outer outerlen inner <> KOob.
Proof.
  intros H1 H2 H3. unfold ListOffsetArray_flatten_offsets. apply kfill_safe; try lia.
  intros i Hi. rewrite (kget_at outer) by lia. cbn [kbind].
  rewrite (kget_at inner) by (apply H3; lia). cbn [kbind]. congruence.
Qed.

Theorem flatten_offsets_spec tooffsets outer inner :
  zlen outer <= zlen tooffsets ->
  (forall i, 0 <= i < zlen outer -> 0 <= at_ outer i < zlen inner) ->
  ListOffsetArray_flatten_offsets TIdeal tooffsets outer (zlen outer) inner
  = KOk (map (at_ inner) outer ++ skipn (length outer) tooffsets).
Proof.
  intros H2 H3. pose proof (zlen_nonneg outer). unfold ListOffsetArray_flatten_offsets.
  rewrite (kfill_spec 0 (zlen outer) _ (fun i => at_ inner (at_ outer i))); try lia.
  - rewrite Z.max_r by lia. rewrite filled_0_prefix by lia. f_equal. f_equal.
    + apply (map_iota_list (at_ inner)).
    + f_equal. unfold zlen. lia.
  - intros i Hi. rewrite (kget_at outer) by lia. cbn [kbind].
    rewrite (kget_at inner) by (apply H3; lia). reflexivity.
Qed.

(* ================================================================================================ *)
(** * awkward_localindex / awkward_carry_arange / awkward_new_Identities *)

Theorem localindex_safe tT toindex n : n <= zlen toindex -> localindex tT toindex n <> KOob.
Proof. intros H. unfold localindex. apply kfill_safe; try lia. congruence. Qed.

Theorem localindex_spec toindex n :
  0 <= n -> n <= zlen toindex -> localindex TIdeal toindex n = KOk (iota n ++ skipn (Z.to_nat n) toindex).
Proof.
  intros H0 H. unfold localindex. rewrite (kfill_spec 0 n _ (fun i => i)); try lia; auto.
  rewrite Z.max_r by lia. rewrite filled_0_prefix by lia. now rewrite map_id.
Qed.

Theorem localindex_width tT toindex n :
  (forall i, 0 <= i < n -> fits tT i) -> localindex tT toindex n = localindex TIdeal toindex n.
Proof. intros F. unfold localindex. apply kfill_ext. intros i Hi. cbn [wrap]. now rewrite F. Qed.

(* ================================================================================================ *)
(** * awkward_ByteMaskedArray_toIndexedOptionArray *)

Theorem ByteMasked_toIndexedOption_safe toindex mask n vw :
  n <= zlen mask -> n <= zlen toindex -> ByteMaskedArray_toIndexedOptionArray toindex mask n vw <> KOob.
Proof.
  intros H1 H2. unfold ByteMaskedArray_toIndexedOptionArray. apply kfill_safe; try lia.
  intros i Hi. rewrite (kget_at mask) by lia. cbn [kbind]. congruence.
Qed.

Theorem ByteMasked_toIndexedOption_spec toindex mask vw :
  zlen toindex = zlen mask ->
  ByteMaskedArray_toIndexedOptionArray toindex mask (zlen mask) vw
  = KOk (map (fun i => if Bool.eqb (negb (at_ mask i =? 0)) vw then i else -1) (iota (zlen mask))).
Proof.
  intros H. pose proof (zlen_nonneg mask). unfold ByteMaskedArray_toIndexedOptionArray.
  rewrite (kfill_spec 0 (zlen mask) _ (fun i => if Bool.eqb (negb (at_ mask i =? 0)) vw then i else -1)); try lia.
  - rewrite Z.max_r by lia. now rewrite filled_0_all.
  - intros i Hi. rewrite (kget_at mask) by lia. reflexivity.
Qed.

(* ================================================================================================ *)
(** * awkward_UnionArray_fillna *)

Theorem UnionArray_fillna_safe tT toindex fromindex n :
  n <= zlen fromindex -> n <= zlen toindex -> UnionArray_fillna tT toindex fromindex n <> KOob.
Proof.
  intros H1 H2. unfold UnionArray_fillna. apply kfill_safe; try lia.
  intros i Hi. rewrite (kget_at fromindex) by lia. cbn [kbind]. congruence.
Qed.

Theorem UnionArray_fillna_spec toindex fromindex :
  zlen fromindex <= zlen toindex ->
  UnionArray_fillna TIdeal toindex fromindex (zlen fromindex)
  = KOk (map (fun x => if 0 <=? x then x else 0) fromindex ++ skipn (length fromindex) toindex).
Proof.
  intros H. pose proof (zlen_nonneg fromindex). unfold UnionArray_fillna.
  rewrite (kfill_spec 0 (zlen fromindex) _ (fun i => if 0 <=? at_ fromindex i then at_ fromindex i else 0)); try lia.
  - rewrite Z.max_r by lia. rewrite filled_0_prefix by lia. f_equal. f_equal.
    + apply (map_iota_list (fun x => if 0 <=? x then x else 0)).
    + f_equal. unfold zlen; lia.
  - intros i Hi. rewrite (kget_at fromindex) by lia. reflexivity.
Qed.

(* ================================================================================================ *)
(** * fill kernels: NumpyArray_fill, IndexedArray_fill, UnionArray_filltags, UnionArray_fillindex *)

Theorem NumpyArray_fill_safe tTO toptr off fromptr n :
  0 <= off -> n <= zlen fromptr -> off + n <= zlen toptr -> NumpyArray_fill tTO toptr off fromptr n <> KOob.
Proof.
  intros H0 H1 H2. unfold NumpyArray_fill. apply kfill_safe; try lia.
  intros i Hi. rewrite (kget_at fromptr) by lia. cbn [kbind]. congruence.
Qed.

(** copies [fromptr] into cells [off, off + n) and leaves every other cell alone *)
Theorem NumpyArray_fill_spec toptr off fromptr :
  0 <= off -> off + zlen fromptr <= zlen toptr ->
  NumpyArray_fill TIdeal toptr off fromptr (zlen fromptr)
  = KOk (firstn (Z.to_nat off) toptr ++ fromptr ++ skipn (Z.to_nat (off + zlen fromptr)) toptr).
Proof.
  intros H0 H. pose proof (zlen_nonneg fromptr). unfold NumpyArray_fill.
  rewrite (kfill_spec off (zlen fromptr) _ (at_ fromptr)); try lia.
  - rewrite Z.max_r by lia. unfold filled. do 2 f_equal. f_equal.
    rewrite (map_iota_list (fun x => x)). apply map_id.
  - intros i Hi. rewrite (kget_at fromptr) by lia. reflexivity.
Qed.

Theorem NumpyArray_fill_width tTO toptr off fromptr n :
  n <= zlen fromptr -> (forall i, 0 <= i < n -> fits tTO (at_ fromptr i)) ->
  NumpyArray_fill tTO toptr off fromptr n = NumpyArray_fill TIdeal toptr off fromptr n.
Proof.
  intros H F. unfold NumpyArray_fill. apply kfill_ext. intros i Hi.
  rewrite (kget_at fromptr) by lia. cbn [kbind wrap]. now rewrite F.
Qed.

Theorem IndexedArray_fill_safe tTO toindex off fromindex n base :
  0 <= off -> n <= zlen fromindex -> off + n <= zlen toindex -> IndexedArray_fill tTO toindex off fromindex n base <> KOob.
Proof.
  intros H0 H1 H2. unfold IndexedArray_fill. apply kfill_safe; try lia.
  intros i Hi. rewrite (kget_at fromindex) by lia. cbn [kbind]. congruence.
Qed.

Theorem IndexedArray_fill_spec toindex off fromindex base :
  0 <= off -> off + zlen fromindex <= zlen toindex ->
  IndexedArray_fill TIdeal toindex off fromindex (zlen fromindex) base
  = KOk (firstn (Z.to_nat off) toindex ++ map (fun x => if x <? 0 then -1 else x + base) fromindex
         ++ skipn (Z.to_nat (off + zlen fromindex)) toindex).
Proof.
  intros H0 H. pose proof (zlen_nonneg fromindex). unfold IndexedArray_fill.
  rewrite (kfill_spec off (zlen fromindex) _ (fun i => if at_ fromindex i <? 0 then -1 else at_ fromindex i + base)); try lia.
  - rewrite Z.max_r by lia. unfold filled. do 2 f_equal. f_equal.
    apply (map_iota_list (fun x => if x <? 0 then -1 else x + base)).
  - intros i Hi. rewrite (kget_at fromindex) by lia. cbn [kbind wrap]. now destruct (at_ fromindex i <? 0).
Qed.

Theorem UnionArray_filltags_safe tTO totags off fromtags n base :
  0 <= off -> n <= zlen fromtags -> off + n <= zlen totags -> UnionArray_filltags tTO totags off fromtags n base <> KOob.
Proof.
  intros H0 H1 H2. unfold UnionArray_filltags. apply kfill_safe; try lia.
  intros i Hi. rewrite (kget_at fromtags) by lia. cbn [kbind]. congruence.
Qed.

Theorem UnionArray_filltags_spec totags off fromtags base :
  0 <= off -> off + zlen fromtags <= zlen totags ->
  UnionArray_filltags TIdeal totags off fromtags (zlen fromtags) base
  = KOk (firstn (Z.to_nat off) totags ++ map (fun x => x + base) fromtags ++ skipn (Z.to_nat (off + zlen fromtags)) totags).
Proof.
  intros H0 H. pose proof (zlen_nonneg fromtags). unfold UnionArray_filltags.
  rewrite (kfill_spec off (zlen fromtags) _ (fun i => at_ fromtags i + base)); try lia.
  - rewrite Z.max_r by lia. unfold filled. do 2 f_equal. f_equal. apply (map_iota_list (fun x => x + base)).
  - intros i Hi. rewrite (kget_at fromtags) by lia. reflexivity.
Qed.

Theorem UnionArray_fillindex_safe tTO toindex off fromindex n :
  0 <= off -> n <= zlen fromindex -> off + n <= zlen toindex -> UnionArray_fillindex tTO toindex off fromindex n <> KOob.
Proof.
  intros H0 H1 H2. unfold UnionArray_fillindex. apply kfill_safe; try lia.
  intros i Hi. rewrite (kget_at fromindex) by lia. cbn [kbind]. congruence.
Qed.

Theorem UnionArray_fillindex_spec toindex off fromindex :
  0 <= off -> off + zlen fromindex <= zlen toindex ->
  UnionArray_fillindex TIdeal toindex off fromindex (zlen fromindex)
  = KOk (firstn (Z.to_nat off) toindex ++ fromindex ++ skipn (Z.to_nat (off + zlen fromindex)) toindex).
Proof.
  intros H0 H. pose proof (zlen_nonneg fromindex). unfold UnionArray_fillindex.
  rewrite (kfill_spec off (zlen fromindex) _ (at_ fromindex)); try lia.
  - rewrite Z.max_r by lia. unfold filled. do 2 f_equal. f_equal.
    rewrite (map_iota_list (fun x => x)). apply map_id.
  - intros i Hi. rewrite (kget_at fromindex) by lia. reflexivity.
Qed.
