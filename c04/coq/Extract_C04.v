(** Extraction of the C04 model + specification (ExtrOcamlBasic only; Z stays inductive). *)
From Coq Require Import Extraction ExtrOcamlBasic.
From AwkBroadcast Require Import Broadcast.
Extraction Language OCaml.
Extraction "c04model.ml" Z.add Z.mul Z.sub Z.div Z.modulo Z.eqb Z.ltb Z.leb Z.of_nat Z.to_nat Z.opp
  to_list value_eqb valid_b clen type_of has_union
  broadcast_and_apply spec_broadcast spec_fuel pack_s ufn_op ufn_refuses_bool model_fuel.
