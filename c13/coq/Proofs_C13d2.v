(** Proofs_C13d2.v -- k_safe / k_spec for the option-type kernels (carry + outindex, bit masks, none2empty),
    rpad, broadcast and fill kernels *)
From Coq Require Import ZArith List Bool Lia ZifyBool.
From AwkV Require Import Base.
From AwkKernels Require Import Kernels KLemmas Proofs_C13 Proofs_C13b Proofs_C13c Proofs_C13d.
Import ListNotations.
Open Scope Z_scope.

Ltac Zify.zify_post_hook ::= Z.to_euclidean_division_equations.

Lemma kbind_assoc {A B C} (r : kres A) (f : A -> kres B) (g : B -> kres C) :
  kbind (kbind r f) g = kbind r (fun a => kbind (f a) g).
Proof. destruct r; reflexivity. Qed.
Ltac np_step' := first [np_step | rewrite kbind_assoc].
Ltac np_auto' := repeat np_step'.

(* ================================================================================================ *)
(** * counting the entries of a prefix that satisfy a test *)
Definition cnt_upto (p : Z -> bool) (l : list Z) (j : Z) : Z := zlen (filter p (firstn (Z.to_nat j) l)).

Lemma firstn_S_nth_error {A} (l : list A) k :
  firstn (S k) l = firstn k l ++ match nth_error l k with Some x => [x] | None => [] end.
Proof.
  revert k; induction l as [|a l IH]; intros [|k]; cbn [firstn nth_error app]; auto.
  f_equal. apply IH.
Qed.
Lemma cnt_upto_0 p l : cnt_upto p l 0 = 0.
Proof. reflexivity. Qed.
Lemma cnt_upto_S p l j :
  0 <= j < zlen l -> cnt_upto p l (j + 1) = cnt_upto p l j + (if p (at_ l j) then 1 else 0).
Proof.
  intros H. unfold cnt_upto. replace (Z.to_nat (j + 1)) with (S (Z.to_nat j)) by lia.
  rewrite firstn_S_nth_error. destruct (kget_ok l j H) as (x & E & N). rewrite N.
  rewrite (kget_at l j H) in E. inversion E; subst x.
  rewrite filter_app, zlen_app. cbn [filter]. destruct (p (at_ l j)); unfold zlen; cbn [length]; lia.
Qed.
Lemma cnt_upto_step_le p l j : 0 <= j -> cnt_upto p l j <= cnt_upto p l (j + 1).
Proof.
  intros H. unfold cnt_upto. replace (Z.to_nat (j + 1)) with (S (Z.to_nat j)) by lia.
  rewrite firstn_S_nth_error, filter_app, zlen_app. pose proof (zlen_nonneg (filter p match nth_error l (Z.to_nat j) with Some x => [x] | None => [] end)). lia.
Qed.
Lemma cnt_upto_mono p l j n : 0 <= j <= n -> cnt_upto p l j <= cnt_upto p l n.
Proof.
  intros H. replace n with (j + Z.of_nat (Z.to_nat (n - j))) by lia.
  induction (Z.to_nat (n - j)) as [|k IH]; [rewrite Z.add_0_r; lia|].
  rewrite Nat2Z.inj_succ. unfold Z.succ. rewrite Z.add_assoc.
  pose proof (cnt_upto_step_le p l (j + Z.of_nat k)). lia.
Qed.
Lemma cnt_upto_nonneg p l j : 0 <= cnt_upto p l j.
Proof. apply zlen_nonneg. Qed.
Lemma filter_length_le' {A} (p : A -> bool) l : (length (filter p l) <= length l)%nat.
Proof. induction l as [|a l IH]; cbn [filter length]; [lia|]. destruct (p a); cbn [length]; lia. Qed.
Lemma cnt_upto_le p l j : 0 <= j -> cnt_upto p l j <= j.
Proof.
  intros H. unfold cnt_upto, zlen. pose proof (filter_length_le' p (firstn (Z.to_nat j) l)) as F.
  rewrite firstn_length in F. lia.
Qed.

(* ================================================================================================ *)
(** * awkward_IndexedArray_getitem_nextcarry_outindex (and _mask: same loop) *)
Definition nonneg (x : Z) : bool := 0 <=? x.

Theorem IndexedArray_getitem_nextcarry_outindex_safe tC tocarry toindex fromindex lenindex lencontent :
  lenindex <= zlen fromindex -> lenindex <= zlen toindex ->
  cnt_upto nonneg fromindex lenindex <= zlen tocarry ->
  IndexedArray_getitem_nextcarry_outindex tC tocarry toindex fromindex lenindex lencontent <> KOob.
Proof.
  intros H1 H2 Hcap. unfold IndexedArray_getitem_nextcarry_outindex. eapply np_noob.
  apply np_bind_kfor with
    (P := fun i (st : (list Z * Z) * list Z) =>
            zlen (fst (fst st)) = zlen tocarry /\ zlen (snd st) = zlen toindex /\ snd (fst st) = cnt_upto nonneg fromindex i)
    (Q := fun _ : list Z * list Z => True).
  - cbn [fst snd]. auto.
  - intros i [[tc k] ti] Hi (L1 & L2 & K). cbn [fst snd] in *.
    pose proof (cnt_upto_S nonneg fromindex i ltac:(lia)) as CS.
    pose proof (cnt_upto_mono nonneg fromindex (i + 1) lenindex ltac:(lia)) as CM.
    pose proof (cnt_upto_nonneg nonneg fromindex i) as CN. change (nonneg (at_ fromindex i)) with (0 <=? at_ fromindex i) in CS.
    np_auto.
    + cbn [fst snd]. rewrite zlen_set_nth. repeat split; auto. destruct (0 <=? at_ fromindex i) eqn:?; lia.
    + destruct (0 <=? at_ fromindex i) eqn:?; [|lia]. unfold kpush. np_auto'. cbn [fst snd]. rewrite !zlen_set_nth. repeat split; auto. lia.
  - intros s' _. now apply np_ret.
Qed.

Theorem IndexedArray_getitem_nextcarry_outindex_mask_safe tC tocarry toindex fromindex lenindex lencontent :
  lenindex <= zlen fromindex -> lenindex <= zlen toindex ->
  cnt_upto nonneg fromindex lenindex <= zlen tocarry ->
  IndexedArray_getitem_nextcarry_outindex tC tocarry toindex fromindex lenindex lencontent <> KOob.
Proof. apply IndexedArray_getitem_nextcarry_outindex_safe. Qed.

Example IndexedArray_getitem_nextcarry_outindex_example :
  IndexedArray_getitem_nextcarry_outindex (TI 64) [9; 9] [9; 9; 9; 9] [3; -1; 0; -2] 4 5 = KOk ([3; 0], [0; -1; 1; -1]).
Proof. vm_compute. reflexivity. Qed.

(* awkward_ByteMaskedArray_getitem_nextcarry_outindex *)
Definition mask_valid (vw : bool) (m : Z) : bool := Bool.eqb (negb (m =? 0)) vw.

Theorem ByteMaskedArray_getitem_nextcarry_outindex_safe tocarry outindex mask length validwhen :
  length <= zlen mask -> length <= zlen outindex ->
  cnt_upto (mask_valid validwhen) mask length <= zlen tocarry ->
  ByteMaskedArray_getitem_nextcarry_outindex tocarry outindex mask length validwhen <> KOob.
Proof.
  intros H1 H2 Hcap. unfold ByteMaskedArray_getitem_nextcarry_outindex. eapply np_noob.
  apply np_bind_kfor with
    (P := fun i (st : (list Z * Z) * list Z) =>
            zlen (fst (fst st)) = zlen tocarry /\ zlen (snd st) = zlen outindex /\
            snd (fst st) = cnt_upto (mask_valid validwhen) mask i)
    (Q := fun _ : list Z * list Z => True).
  - cbn [fst snd]. auto.
  - intros i [[tc k] ti] Hi (L1 & L2 & K). cbn [fst snd] in *.
    pose proof (cnt_upto_S (mask_valid validwhen) mask i ltac:(lia)) as CS.
    pose proof (cnt_upto_mono (mask_valid validwhen) mask (i + 1) length ltac:(lia)) as CM.
    pose proof (cnt_upto_nonneg (mask_valid validwhen) mask i) as CN. change (mask_valid validwhen (at_ mask i)) with (Bool.eqb (negb (at_ mask i =? 0)) validwhen) in CS.
    np_step.
    destruct (Bool.eqb (negb (at_ mask i =? 0)) validwhen) eqn:V.
    + unfold kpush. np_auto'. cbn [fst snd]. rewrite !zlen_set_nth. repeat split; auto. lia.
    + np_auto. cbn [fst snd]. rewrite zlen_set_nth. repeat split; auto. lia.
  - intros s' _. now apply np_ret.
Qed.

Example ByteMaskedArray_getitem_nextcarry_outindex_example :
  ByteMaskedArray_getitem_nextcarry_outindex [9; 9] [9; 9; 9; 9] [0; 1; 0; 1] 4 false = KOk ([0; 2], [0; -1; 1; -1]).
Proof. vm_compute. reflexivity. Qed.

(* ================================================================================================ *)
(** * awkward_IndexedArray_flatten_none2empty *)
Theorem IndexedArray_flatten_none2empty_safe tT outoffsets outindex outindexlength offsets offsetslength :
  1 <= zlen offsets -> offsetslength <= zlen offsets -> outindexlength <= zlen outindex ->
  1 <= zlen outoffsets -> outindexlength + 1 <= zlen outoffsets ->
  IndexedArray_flatten_none2empty tT outoffsets outindex outindexlength offsets offsetslength <> KOob.
Proof.
  intros H0 H1 H2 H3 H4. unfold IndexedArray_flatten_none2empty. eapply np_noob. np_auto.
  apply np_bind_kfor with
    (P := fun i (st : list Z * Z) => zlen (fst st) = zlen outoffsets /\ snd st = i + 1)
    (Q := fun _ : list Z => True).
  - cbn [fst snd]. rewrite zlen_set_nth. auto.
  - intros i [out k] Hi (L & K). cbn [fst snd] in *. subst k. np_step.
    destruct (at_ outindex i <? 0) eqn:E.
    + np_auto. cbn [fst snd]. rewrite zlen_set_nth. auto.
    + np_auto. cbn [fst snd]. rewrite zlen_set_nth. auto.
  - intros s' _. now apply np_ret.
Qed.

Example IndexedArray_flatten_none2empty_example :
  IndexedArray_flatten_none2empty (TI 64) [9; 9; 9; 9] [1; -1; 0] 3 [0; 2; 5] 3 = KOk [0; 3; 3; 5].
Proof. vm_compute. reflexivity. Qed.

(* ================================================================================================ *)
(** * block-wise fills:  for i < n, for s < m:  out[i*m + s] = g i s *)
Lemma kfor_blocks_spec n m (g : Z -> Z -> Z) (body : Z -> list Z -> kres (list Z)) out :
  0 <= n -> 0 <= m -> n * m <= zlen out ->
  (forall i o, 0 <= i < n -> zlen o = zlen out -> body i o = kfill (i * m) m (fun s => KOk (g i s)) o) ->
  exists out', kfor 0 n body out = KOk out' /\ zlen out' = zlen out /\
    forall q, 0 <= q -> at_ out' q = if q <? n * m then g (q / m) (q mod m) else at_ out q.
Proof.
  intros Hn Hm Hcap Hb.
  destruct (kfor_inv body
    (fun j o => zlen o = zlen out /\ forall q, 0 <= q -> at_ o q = if q <? j * m then g (q / m) (q mod m) else at_ out q)
    0 n out) as (s' & E & P); auto.
  - split; auto. intros q Hq. now replace (q <? 0 * m) with false by lia.
  - intros j o Hj (L & A). rewrite Hb by auto.
    assert (B : 0 <= j * m /\ j * m + m <= n * m) by nia.
    rewrite (kfill_spec (j * m) m _ (g j)); auto; try lia. rewrite Z.max_r by lia.
    eexists; split; [reflexivity|]. split; [rewrite zlen_filled; lia|].
    intros q Hq. rewrite at_filled by lia. rewrite A by lia.
    destruct ((j * m <=? q) && (q <? j * m + m)) eqn:E1.
    + replace (q <? (j + 1) * m) with true by lia.
      assert (D : j = q / m) by (apply (Z.div_unique q m j (q - j * m)); lia).
      assert (M : q - j * m = q mod m) by (apply (Z.mod_unique q m j (q - j * m)); lia).
      now rewrite <- D, <- M.
    + destruct (q <? j * m) eqn:E2.
      * replace (q <? (j + 1) * m) with true by lia. reflexivity.
      * replace (q <? (j + 1) * m) with false by lia. reflexivity.
  - exists s'. destruct P as (L & A). auto.
Qed.

(* ================================================================================================ *)
(** * awkward_BitMaskedArray_to_ByteMaskedArray / _to_IndexedOptionArray: eight cells per mask byte, for both bit
      orders and both polarities; the number of cells written is 8 * bitmasklength whatever the array length is *)

Theorem BitMaskedArray_to_ByteMaskedArray_safe tobytemask frombitmask bitmasklength validwhen lsb_order :
  bitmasklength <= zlen frombitmask -> bitmasklength * 8 <= zlen tobytemask ->
  BitMaskedArray_to_ByteMaskedArray tobytemask frombitmask bitmasklength validwhen lsb_order <> KOob.
Proof.
  intros H1 H2. unfold BitMaskedArray_to_ByteMaskedArray. eapply np_noob.
  apply (np_kfor_c _ (fun b => zlen b = zlen tobytemask)); auto.
  intros i s Hi Ls. np_auto.
  apply (np_kfor_c _ (fun b => zlen b = zlen tobytemask)); auto.
  intros j s' Hj Ls'. np_auto. now rewrite zlen_set_nth.
Qed.

(** byte q of the result is 0 ("valid") iff bit (q mod 8) -- counted from the least significant end when
    [lsb_order], from the most significant end otherwise -- of mask byte q / 8 equals [validwhen] *)
Theorem BitMaskedArray_to_ByteMaskedArray_spec tobytemask frombitmask bitmasklength validwhen lsb_order :
  0 <= bitmasklength -> bitmasklength <= zlen frombitmask -> bitmasklength * 8 <= zlen tobytemask ->
  exists out, BitMaskedArray_to_ByteMaskedArray tobytemask frombitmask bitmasklength validwhen lsb_order = KOk out /\
    zlen out = zlen tobytemask /\
    forall q, 0 <= q ->
      at_ out q = if q <? bitmasklength * 8
                  then (if Bool.eqb (bit (at_ frombitmask (q / 8)) (if lsb_order then q mod 8 else 7 - q mod 8)) validwhen
                        then 0 else 1)
                  else at_ tobytemask q.
Proof.
  intros H0 H1 H2. unfold BitMaskedArray_to_ByteMaskedArray.
  apply (kfor_blocks_spec bitmasklength 8
           (fun i s => if Bool.eqb (bit (at_ frombitmask i) (if lsb_order then s else 7 - s)) validwhen then 0 else 1));
    auto; try lia.
  intros i o Hi Lo. rewrite (kget_at frombitmask) by lia. reflexivity.
Qed.

Example BitMaskedArray_to_ByteMaskedArray_example_lsb :
  BitMaskedArray_to_ByteMaskedArray [9;9;9;9;9;9;9;9;9;9;9;9;9;9;9;9;9] [5; 128] 2 true true
  = KOk [0;1;0;1;1;1;1;1; 1;1;1;1;1;1;1;0; 9].
Proof. vm_compute. reflexivity. Qed.
Example BitMaskedArray_to_ByteMaskedArray_example_msb :
  BitMaskedArray_to_ByteMaskedArray [9;9;9;9;9;9;9;9;9;9;9;9;9;9;9;9;9] [5; 128] 2 false false
  = KOk [0;0;0;0;0;1;0;1; 1;0;0;0;0;0;0;0; 9].
Proof. vm_compute. reflexivity. Qed.

Theorem BitMaskedArray_to_IndexedOptionArray_safe toindex frombitmask bitmasklength validwhen lsb_order :
  bitmasklength <= zlen frombitmask -> bitmasklength * 8 <= zlen toindex ->
  BitMaskedArray_to_IndexedOptionArray toindex frombitmask bitmasklength validwhen lsb_order <> KOob.
Proof.
  intros H1 H2. unfold BitMaskedArray_to_IndexedOptionArray. eapply np_noob.
  apply (np_kfor_c _ (fun b => zlen b = zlen toindex)); auto.
  intros i s Hi Ls. np_auto.
  apply (np_kfor_c _ (fun b => zlen b = zlen toindex)); auto.
  intros j s' Hj Ls'. np_auto. now rewrite zlen_set_nth.
Qed.

(** entry q of the index is q where the bit says "valid" and -1 elsewhere *)
Theorem BitMaskedArray_to_IndexedOptionArray_spec toindex frombitmask bitmasklength validwhen lsb_order :
  0 <= bitmasklength -> bitmasklength <= zlen frombitmask -> bitmasklength * 8 <= zlen toindex ->
  exists out, BitMaskedArray_to_IndexedOptionArray toindex frombitmask bitmasklength validwhen lsb_order = KOk out /\
    zlen out = zlen toindex /\
    forall q, 0 <= q ->
      at_ out q = if q <? bitmasklength * 8
                  then (if Bool.eqb (bit (at_ frombitmask (q / 8)) (if lsb_order then q mod 8 else 7 - q mod 8)) validwhen
                        then q else -1)
                  else at_ toindex q.
Proof.
  intros H0 H1 H2. unfold BitMaskedArray_to_IndexedOptionArray.
  destruct (kfor_blocks_spec bitmasklength 8
           (fun i s => if Bool.eqb (bit (at_ frombitmask i) (if lsb_order then s else 7 - s)) validwhen then i * 8 + s else -1)
           (fun i out => let* byte := kget frombitmask i in
              kfor 0 8 (fun s out => let b := bit byte (if lsb_order then s else 7 - s) in
                                     kupd out (i * 8 + s) (if Bool.eqb b validwhen then i * 8 + s else -1)) out)
           toindex) as (out & E & L & A); auto; try lia.
  - intros i o Hi Lo. rewrite (kget_at frombitmask) by lia. reflexivity.
  - exists out. split; auto. split; auto. intros q Hq. rewrite A by lia.
    destruct (q <? bitmasklength * 8); auto. replace (q / 8 * 8 + q mod 8) with q by lia. reflexivity.
Qed.

Example BitMaskedArray_to_IndexedOptionArray_example :
  BitMaskedArray_to_IndexedOptionArray [9;9;9;9;9;9;9;9;9;9;9;9;9;9;9;9;9] [5; 128] 2 true false
  = KOk [-1;-1;-1;-1;-1;5;-1;7; 8;-1;-1;-1;-1;-1;-1;-1; 9].
Proof. vm_compute. reflexivity. Qed.

(* ================================================================================================ *)
(** * loops of pushes *)
Lemma np_pushes lo hi (v : Z -> Z) out k L :
  zlen out = L -> 0 <= k -> k + Z.max 0 (hi - lo) <= L ->
  noob_post (kfor lo hi (fun j st => kpush st (v j)) (out, k))
            (fun st => zlen (fst st) = L /\ snd st = k + Z.max 0 (hi - lo)).
Proof.
  intros HL Hk Hcap.
  eapply np_weaken.
  - apply (np_kfor _ (fun j (st : list Z * Z) => zlen (fst st) = L /\ snd st = k + (j - lo))).
    + cbn [fst snd]. split; auto. lia.
    + intros j [o kk] Hj (L1 & K1). cbn [fst snd] in *. unfold kpush. np_auto. cbn [fst snd]. rewrite zlen_set_nth. split; auto. lia.
  - intros [o kk] (L1 & K1). cbn [fst snd] in *. split; auto. lia.
Qed.

(* ================================================================================================ *)
(** * awkward_ListOffsetArray_rpad_length_axis1 / _rpad_axis1 / _rpad_and_clip_axis1 *)

Theorem ListOffsetArray_rpad_length_axis1_safe tC tooffsets fromoffsets fromlength target tolength :
  1 <= zlen tooffsets -> fromlength + 1 <= zlen tooffsets -> fromlength + 1 <= zlen fromoffsets -> 1 <= zlen tolength ->
  ListOffsetArray_rpad_length_axis1 tC tooffsets fromoffsets fromlength target tolength <> KOob.
Proof.
  intros H0 H1 H2 H3. unfold ListOffsetArray_rpad_length_axis1. eapply np_noob. np_step.
  apply np_bind_kfor with (P := fun (i : Z) (st : list Z * Z) => zlen (fst st) = zlen tooffsets)
                          (Q := fun _ : list Z * list Z => True).
  - cbn [fst]. now rewrite zlen_set_nth.
  - intros i [out len] Hi L. cbn [fst] in *. np_auto. cbn [fst]. now rewrite zlen_set_nth.
  - intros [out len] L. np_auto. auto.
Qed.

Example ListOffsetArray_rpad_length_axis1_example :
  ListOffsetArray_rpad_length_axis1 (TI 64) [9; 9; 9; 9] [0; 3; 3; 5] 3 2 [9] = KOk ([0; 3; 5; 7], [7]).
Proof. vm_compute. reflexivity. Qed.

(** the number of index entries written for the first [k] lists: max(target, length) each *)
Fixpoint rpad_total (fromoffsets : list Z) (target : Z) (k : nat) : Z :=
  match k with
  | O => 0
  | S k' => rpad_total fromoffsets target k'
            + Z.max target (at_ fromoffsets (Z.of_nat k' + 1) - at_ fromoffsets (Z.of_nat k'))
  end.
Lemma rpad_total_S fromoffsets target i :
  0 <= i -> rpad_total fromoffsets target (Z.to_nat (i + 1))
            = rpad_total fromoffsets target (Z.to_nat i) + Z.max target (at_ fromoffsets (i + 1) - at_ fromoffsets i).
Proof. intros H. replace (Z.to_nat (i + 1)) with (S (Z.to_nat i)) by lia. cbn [rpad_total]. now rewrite Z2Nat.id by lia. Qed.

Lemma rpad_total_nonneg fromoffsets target n :
  (forall i, 0 <= i < Z.of_nat n -> at_ fromoffsets i <= at_ fromoffsets (i + 1)) -> 0 <= rpad_total fromoffsets target n.
Proof.
  induction n; intros H; cbn [rpad_total]; [lia|].
  assert (0 <= rpad_total fromoffsets target n) by (apply IHn; intros; apply H; lia).
  specialize (H (Z.of_nat n) ltac:(lia)). lia.
Qed.

(** needs non-decreasing offsets: with offsets[i+1] < offsets[i] the second loop runs from a negative j and writes
    target - (offsets[i+1] - offsets[i]) > target cells, more than _rpad_length_axis1 counted *)
Theorem ListOffsetArray_rpad_axis1_safe toindex fromoffsets fromlength target :
  fromlength + 1 <= zlen fromoffsets ->
  (forall i, 0 <= i < fromlength -> at_ fromoffsets i <= at_ fromoffsets (i + 1)) ->
  (forall i, 0 <= i <= fromlength -> rpad_total fromoffsets target (Z.to_nat i) <= zlen toindex) ->
  ListOffsetArray_rpad_axis1 toindex fromoffsets fromlength target <> KOob.
Proof.
  intros H1 Hm Hcap. unfold ListOffsetArray_rpad_axis1. eapply np_noob.
  apply np_bind_kfor with
    (P := fun (i : Z) (st : list Z * Z) => zlen (fst st) = zlen toindex /\ snd st = rpad_total fromoffsets target (Z.to_nat i))
    (Q := fun _ : list Z => True).
  - cbn [fst snd]. auto.
  - intros i [out k] Hi (L & K). cbn [fst snd] in *. pose proof Hm as Hm0. specialize (Hm i Hi).
    pose proof (rpad_total_S fromoffsets target i (proj1 Hi)) as TS.
    pose proof (Hcap (i + 1) ltac:(lia)) as C1. pose proof (Hcap i ltac:(lia)) as C0.
    assert (K0 : 0 <= k).
    { subst k. apply rpad_total_nonneg. intros i' Hi'. apply Hm0. lia. }
    np_auto.
    eapply np_bind.
    + apply (np_pushes 0 (at_ fromoffsets (i + 1) - at_ fromoffsets i) (fun j => at_ fromoffsets i + j) out k (zlen toindex)); lia.
    + intros [o1 k1] (L1 & K1). cbn [fst snd] in *.
      eapply np_weaken.
      * apply (np_pushes (at_ fromoffsets (i + 1) - at_ fromoffsets i) target (fun _ => -1) o1 k1 (zlen toindex)); lia.
      * intros [o2 k2] (L2 & K2). cbn [fst snd] in *. split; auto. lia.
  - intros s' _. now apply np_ret.
Qed.

(** the buffer sized by _rpad_length_axis1 (1 cell here) is overrun when the offsets decrease *)
Example ListOffsetArray_rpad_axis1_refuted :
  ListOffsetArray_rpad_length_axis1 (TI 64) [9; 9] [3; 1] 1 1 [9] = KOk ([0; 1], [1]) /\
  ListOffsetArray_rpad_axis1 [9] [3; 1] 1 1 = KOob.
Proof. split; vm_compute; reflexivity. Qed.

Example ListOffsetArray_rpad_axis1_example :
  ListOffsetArray_rpad_axis1 [9;9;9;9;9;9;9] [0; 3; 3; 4] 3 2 = KOk [0; 1; 2; -1; -1; 3; -1].
Proof. vm_compute. reflexivity. Qed.

Theorem ListOffsetArray_rpad_and_clip_axis1_safe toindex fromoffsets length target :
  length + 1 <= zlen fromoffsets -> length * target <= zlen toindex ->
  (forall i, 0 <= i < length -> at_ fromoffsets i <= at_ fromoffsets (i + 1)) ->
  ListOffsetArray_rpad_and_clip_axis1 toindex fromoffsets length target <> KOob.
Proof.
  intros H1 H2 Hm. unfold ListOffsetArray_rpad_and_clip_axis1. eapply np_noob.
  apply (np_kfor_c _ (fun b => zlen b = zlen toindex)); auto.
  intros i s Hi Ls. specialize (Hm i Hi). np_auto.
  set (shorter := if target <? at_ fromoffsets (i + 1) - at_ fromoffsets i then target else at_ fromoffsets (i + 1) - at_ fromoffsets i).
  assert (Sh : shorter <= target /\ (0 <= target -> 0 <= shorter) /\ (target < 0 -> shorter = target)) by (unfold shorter; destruct (target <? _) eqn:E; lia).
  eapply np_bind.
  - apply (np_kfor_c _ (fun b => zlen b = zlen toindex)); [exact Ls|].
    intros j s' Hj Ls'. assert (0 <= i * target + j < length * target) by nia. np_auto. now rewrite zlen_set_nth.
  - intros o1 L1. cbv beta in L1.
    apply (np_kfor_c _ (fun b => zlen b = zlen toindex)); [exact L1|].
    intros j s' Hj Ls'. assert (0 <= j) by lia. assert (0 <= i * target + j < length * target) by nia. np_auto. now rewrite zlen_set_nth.
Qed.

Example ListOffsetArray_rpad_and_clip_axis1_example :
  ListOffsetArray_rpad_and_clip_axis1 [9;9;9;9;9;9] [0; 3; 3; 4] 3 2 = KOk [0; 1; -1; -1; 3; -1].
Proof. vm_compute. reflexivity. Qed.
Example ListOffsetArray_rpad_and_clip_axis1_refuted :
  ListOffsetArray_rpad_and_clip_axis1 [9] [3; 1] 1 1 = KOob.
Proof. vm_compute. reflexivity. Qed.

(* ================================================================================================ *)
(** * awkward_ListArray_rpad_axis1: the running offset is re-read from tostarts (C type), hence the [wrap] *)
Fixpoint rpad_off (tC : ity) (target : Z) (starts stops : list Z) (k : nat) : Z :=
  match k with
  | O => 0
  | S k' => let r := wrap tC (at_ stops (Z.of_nat k') - at_ starts (Z.of_nat k')) in
            wrap tC (rpad_off tC target starts stops k') + (if r <? target then target else r)
  end.

Theorem ListArray_rpad_axis1_safe tC toindex starts stops tostarts tostops target length :
  length <= zlen starts -> length <= zlen stops -> length <= zlen tostarts -> length <= zlen tostops ->
  (forall i, 0 <= i < length ->
     let r := wrap tC (at_ stops i - at_ starts i) in
     let off := rpad_off tC target starts stops (Z.to_nat i) in
     0 <= r /\ 0 <= off /\ off + Z.max r target <= zlen toindex) ->
  ListArray_rpad_axis1 tC toindex starts stops tostarts tostops target length <> KOob.
Proof.
  intros H1 H2 H3 H4 Hr. unfold ListArray_rpad_axis1. eapply np_noob.
  apply np_bind_kfor with
    (P := fun (i : Z) (st : list Z * list Z * list Z * Z) =>
            let '(ti, ts, tp, offset) := st in
            zlen ti = zlen toindex /\ zlen ts = zlen tostarts /\ zlen tp = zlen tostops /\
            offset = rpad_off tC target starts stops (Z.to_nat i))
    (Q := fun _ : list Z * list Z * list Z => True).
  - auto.
  - intros i [[[ti ts] tp] offset] Hi (L1 & L2 & L3 & K). specialize (Hr i Hi). cbv zeta in Hr.
    rewrite <- K in Hr. destruct Hr as (R0 & O0 & Cap).
    set (r := wrap tC (at_ stops i - at_ starts i)) in *.
    np_auto. fold r.
    eapply np_bind.
    + apply (np_kfor_c _ (fun b => zlen b = zlen toindex)); [exact L1|].
      intros j s' Hj Ls'. np_auto. now rewrite zlen_set_nth.
    + intros o1 Lo1. cbv beta in Lo1. eapply np_bind.
      * apply (np_kfor_c _ (fun b => zlen b = zlen toindex)); [exact Lo1|].
        intros j s' Hj Ls'. np_auto. now rewrite zlen_set_nth.
      * intros o2 Lo2. cbv beta in Lo2. np_auto. rewrite !zlen_set_nth. repeat split; auto.
        replace (Z.to_nat (i + 1)) with (S (Z.to_nat i)) by lia. cbn [rpad_off]. rewrite Z2Nat.id by lia. fold r.
        rewrite at_set_nth by (unfold zlen in *; lia). rewrite Z2Nat.id by lia. rewrite Z.eqb_refl. rewrite <- K.
        destruct (r <? target); reflexivity.
  - intros [[[ti ts] tp] offset] _. now apply np_ret.
Qed.

Example ListArray_rpad_axis1_example :
  ListArray_rpad_axis1 (TI 64) [9;9;9;9;9;9;9] [0; 5; 3] [2; 5; 6] [9;9;9] [9;9;9] 2 3
  = KOk ([0; 1; -1; -1; 3; 4; 5], [0; 2; 4], [2; 4; 7]).
Proof. vm_compute. reflexivity. Qed.
(** stops[i] < starts[i] (an invalid list, not rejected by ListArray::rpad): the padding loop starts at a negative j *)
Example ListArray_rpad_axis1_refuted :
  ListArray_rpad_and_clip_length_axis1 (TI 64) [9] [2] [0] 1 1 = KOk [1] /\
  ListArray_rpad_axis1 (TI 64) [9] [2] [0] [9] [9] 1 1 = KOob.
Proof. split; vm_compute; reflexivity. Qed.

(* ================================================================================================ *)
(** * broadcasting to given offsets *)

(** sum of the first [k] counts, as the kernel computes them *)
Fixpoint bc_total (tT : ity) (fromoffsets : list Z) (k : nat) : Z :=
  match k with
  | O => 0
  | S k' => bc_total tT fromoffsets k' + wrap tT (at_ fromoffsets (Z.of_nat k' + 1) - at_ fromoffsets (Z.of_nat k'))
  end.
Lemma bc_total_S tT fromoffsets i :
  0 <= i -> bc_total tT fromoffsets (Z.to_nat (i + 1))
            = bc_total tT fromoffsets (Z.to_nat i) + wrap tT (at_ fromoffsets (i + 1) - at_ fromoffsets i).
Proof. intros H. replace (Z.to_nat (i + 1)) with (S (Z.to_nat i)) by lia. cbn [bc_total]. now rewrite Z2Nat.id by lia. Qed.
Lemma bc_total_ideal fromoffsets k : bc_total TIdeal fromoffsets k = at_ fromoffsets (Z.of_nat k) - at_ fromoffsets 0.
Proof.
  induction k; [cbn; lia|]. cbn [bc_total wrap]. rewrite IHk. rewrite Nat2Z.inj_succ. unfold Z.succ. lia.
Qed.

Theorem RegularArray_broadcast_tooffsets_size1_safe tT tocarry fromoffsets offsetslength :
  offsetslength <= zlen fromoffsets ->
  (forall k, 0 <= k <= offsetslength - 1 -> bc_total tT fromoffsets (Z.to_nat k) <= zlen tocarry) ->
  RegularArray_broadcast_tooffsets_size1 tT tocarry fromoffsets offsetslength <> KOob.
Proof.
  intros H1 Hcap. unfold RegularArray_broadcast_tooffsets_size1. eapply np_noob.
  apply np_bind_kfor with
    (P := fun (i : Z) (st : list Z * Z) => zlen (fst st) = zlen tocarry /\ 0 <= snd st /\ snd st = bc_total tT fromoffsets (Z.to_nat i))
    (Q := fun _ : list Z => True).
  - cbn [fst snd]. split; auto. split; [lia|reflexivity].
  - intros i [out k] Hi (L & K0 & K). cbn [fst snd] in *.
    pose proof (bc_total_S tT fromoffsets i (proj1 Hi)) as TS. pose proof (Hcap (i + 1) ltac:(lia)) as C1.
    np_auto. eapply np_weaken.
    + apply (np_pushes 0 (wrap tT (at_ fromoffsets (i + 1) - at_ fromoffsets i)) (fun _ => wrap tT i) out k (zlen tocarry)); lia.
    + intros [o1 k1] (L1 & K1). cbn [fst snd] in *. split; auto. lia.
  - intros s' _. now apply np_ret.
Qed.

(** for a 64-bit (ideal) offsets type the capacity condition is the caller's allocation: offsets[k] - offsets[0] cells *)
Lemma RegularArray_broadcast_tooffsets_size1_safe_ideal tocarry fromoffsets offsetslength :
  offsetslength <= zlen fromoffsets ->
  (forall k, 0 <= k <= offsetslength - 1 -> at_ fromoffsets k - at_ fromoffsets 0 <= zlen tocarry) ->
  RegularArray_broadcast_tooffsets_size1 TIdeal tocarry fromoffsets offsetslength <> KOob.
Proof.
  intros H1 Hcap. apply RegularArray_broadcast_tooffsets_size1_safe; auto.
  intros k Hk. rewrite bc_total_ideal. rewrite Z2Nat.id by lia. auto.
Qed.

Example RegularArray_broadcast_tooffsets_size1_example :
  RegularArray_broadcast_tooffsets_size1 (TI 64) [9;9;9;9;9] [0; 2; 2; 5] 4 = KOk [0; 0; 2; 2; 2].
Proof. vm_compute. reflexivity. Qed.

Theorem ListArray_broadcast_tooffsets_safe tT tocarry fromoffsets offsetslength starts stops lencontent :
  offsetslength <= zlen fromoffsets -> offsetslength - 1 <= zlen starts -> offsetslength - 1 <= zlen stops ->
  (forall k, 0 <= k <= offsetslength - 1 -> bc_total tT fromoffsets (Z.to_nat k) <= zlen tocarry) ->
  ListArray_broadcast_tooffsets tT tocarry fromoffsets offsetslength starts stops lencontent <> KOob.
Proof.
  intros H1 H2 H3 Hcap. unfold ListArray_broadcast_tooffsets. eapply np_noob.
  apply np_bind_kfor with
    (P := fun (i : Z) (st : list Z * Z) => zlen (fst st) = zlen tocarry /\ 0 <= snd st /\ snd st = bc_total tT fromoffsets (Z.to_nat i))
    (Q := fun _ : list Z => True).
  - cbn [fst snd]. split; auto. split; [lia|reflexivity].
  - intros i [out k] Hi (L & K0 & K). cbn [fst snd] in *.
    pose proof (bc_total_S tT fromoffsets i (proj1 Hi)) as TS. pose proof (Hcap (i + 1) ltac:(lia)) as C1.
    np_auto. eapply np_weaken.
    + apply (np_pushes (at_ starts i) (at_ stops i) (fun j => wrap tT j) out k (zlen tocarry)); lia.
    + intros [o1 k1] (L1 & K1). cbn [fst snd] in *. split; auto. lia.
  - intros s' _. now apply np_ret.
Qed.

Example ListArray_broadcast_tooffsets_example :
  ListArray_broadcast_tooffsets (TI 64) [9;9;9;9;9] [0; 2; 2; 5] 4 [3; 0; 4] [5; 0; 7] 7 = KOk [3; 4; 4; 5; 6].
Proof. vm_compute. reflexivity. Qed.

(* ================================================================================================ *)
(** * awkward_ListArray_fill *)
Theorem ListArray_fill_safe tTO tostarts tostartsoffset tostops tostopsoffset fromstarts fromstops length base :
  0 <= tostartsoffset -> 0 <= tostopsoffset -> length <= zlen fromstarts -> length <= zlen fromstops ->
  tostartsoffset + length <= zlen tostarts -> tostopsoffset + length <= zlen tostops ->
  ListArray_fill tTO tostarts tostartsoffset tostops tostopsoffset fromstarts fromstops length base <> KOob.
Proof.
  intros H1 H2 H3 H4 H5 H6. unfold ListArray_fill. eapply np_noob.
  apply (np_kfor_c _ (fun st : list Z * list Z => zlen (fst st) = zlen tostarts /\ zlen (snd st) = zlen tostops)); auto.
  intros i [ts tp] Hi (L1 & L2). cbn [fst snd] in *. np_auto. cbn [fst snd]. now rewrite !zlen_set_nth.
Qed.

(** both buffers receive the shifted copies; every other cell is left alone *)
Theorem ListArray_fill_spec tostarts tostartsoffset tostops tostopsoffset fromstarts fromstops length base :
  0 <= tostartsoffset -> 0 <= tostopsoffset -> 0 <= length -> length <= zlen fromstarts -> length <= zlen fromstops ->
  tostartsoffset + length <= zlen tostarts -> tostopsoffset + length <= zlen tostops ->
  ListArray_fill TIdeal tostarts tostartsoffset tostops tostopsoffset fromstarts fromstops length base
  = KOk (filled tostartsoffset length (fun i => at_ fromstarts i + base) tostarts,
         filled tostopsoffset length (fun i => at_ fromstops i + base) tostops).
Proof.
  intros H1 H2 H0 H3 H4 H5 H6. unfold ListArray_fill.
  match goal with |- kfor 0 length ?b _ = _ =>
    destruct (kfor_inv b (fun j st => st = (filled tostartsoffset j (fun i => at_ fromstarts i + base) tostarts,
                                            filled tostopsoffset j (fun i => at_ fromstops i + base) tostops))
                0 length (tostarts, tostops)) as (s' & E & P); auto end.
  - now rewrite !filled_0.
  - intros j st Hj ->. rewrite (kget_at fromstarts), (kget_at fromstops) by lia. cbn [kbind wrap].
    rewrite kupd_ok by (rewrite zlen_filled; lia). cbn [kbind].
    rewrite kupd_ok by (rewrite zlen_filled; lia). cbn [kbind].
    rewrite (filled_step tostartsoffset j (fun i => at_ fromstarts i + base)) by lia.
    rewrite (filled_step tostopsoffset j (fun i => at_ fromstops i + base)) by lia. eauto.
  - now rewrite E, P.
Qed.

Theorem ListArray_fill_width tTO tostarts tostartsoffset tostops tostopsoffset fromstarts fromstops length base :
  length <= zlen fromstarts -> length <= zlen fromstops ->
  (forall i, 0 <= i < length -> fits tTO (at_ fromstarts i + base) /\ fits tTO (at_ fromstops i + base)) ->
  ListArray_fill tTO tostarts tostartsoffset tostops tostopsoffset fromstarts fromstops length base
  = ListArray_fill TIdeal tostarts tostartsoffset tostops tostopsoffset fromstarts fromstops length base.
Proof.
  intros H3 H4 Hf. unfold ListArray_fill. apply kfor_ext. intros j [ts tp] Hj.
  rewrite (kget_at fromstarts), (kget_at fromstops) by lia. cbn [kbind wrap].
  destruct (Hf j Hj) as (F1 & F2). unfold fits in *. now rewrite F1, F2.
Qed.

Example ListArray_fill_example :
  ListArray_fill (TI 64) [9;9;9] 1 [9;9;9] 1 [0; 2] [2; 5] 2 10 = KOk ([9; 10; 12], [9; 12; 15]).
Proof. vm_compute. reflexivity. Qed.

(* ================================================================================================ *)
(** * awkward_unique (in place) *)
Theorem unique_safe toptr length tolength :
  length <= zlen toptr -> 1 <= zlen tolength -> unique toptr length tolength <> KOob.
Proof.
  intros H1 H2. unfold unique. eapply np_noob.
  apply np_bind_kfor with (P := fun (i : Z) (st : list Z * Z) => zlen (fst st) = zlen toptr /\ 0 <= snd st < i)
                          (Q := fun _ : list Z * list Z => True).
  - cbn [fst snd]. split; auto. lia.
  - intros i [buf j] Hi (L & J). cbn [fst snd] in *. np_auto; cbn [fst snd]; rewrite ?zlen_set_nth; split; auto; lia.
  - intros [buf j] _. np_auto. auto.
Qed.

Example unique_example : unique [1; 1; 2; 2; 2; 5] 6 [9] = KOk ([1; 2; 5; 2; 2; 5], [3]).
Proof. vm_compute. reflexivity. Qed.

(* ================================================================================================ *)
(** * awkward_carry_arange, awkward_new_Identities: the loop of awkward_localindex *)
Theorem carry_arange_safe tT toptr length :
  length <= zlen toptr -> localindex tT toptr length <> KOob.
Proof. apply localindex_safe. Qed.
Theorem carry_arange_spec toptr length :
  0 <= length -> length <= zlen toptr -> localindex TIdeal toptr length = KOk (iota length ++ skipn (Z.to_nat length) toptr).
Proof. apply localindex_spec. Qed.
Theorem carry_arange_width tT toptr length :
  (forall i, 0 <= i < length -> fits tT i) -> localindex tT toptr length = localindex TIdeal toptr length.
Proof. apply localindex_width. Qed.
Theorem new_Identities_safe tT toptr length :
  length <= zlen toptr -> localindex tT toptr length <> KOob.
Proof. apply localindex_safe. Qed.
Theorem new_Identities_spec toptr length :
  0 <= length -> length <= zlen toptr -> localindex TIdeal toptr length = KOk (iota length ++ skipn (Z.to_nat length) toptr).
Proof. apply localindex_spec. Qed.
Example carry_arange_example : localindex (TI 64) [9; 9; 9; 9] 3 = KOk [0; 1; 2; 9].
Proof. vm_compute. reflexivity. Qed.

(* ================================================================================================ *)
(** * k_spec of the carry + outindex kernels: the carry lists the non-missing entries in order, outindex numbers them *)
Lemma cnt_upto_lt p l q j : 0 <= q < j -> q < zlen l -> p (at_ l q) = true -> cnt_upto p l q < cnt_upto p l j.
Proof.
  intros Hq Hl Hp. pose proof (cnt_upto_S p l q ltac:(lia)) as S. rewrite Hp in S.
  pose proof (cnt_upto_mono p l (q + 1) j ltac:(lia)). lia.
Qed.

Theorem IndexedArray_getitem_nextcarry_outindex_spec tocarry toindex fromindex lenindex lencontent :
  0 <= lenindex -> lenindex <= zlen fromindex -> lenindex <= zlen toindex ->
  cnt_upto nonneg fromindex lenindex <= zlen tocarry ->
  (forall i, 0 <= i < lenindex -> at_ fromindex i < lencontent) ->
  exists tc ti,
    IndexedArray_getitem_nextcarry_outindex TIdeal tocarry toindex fromindex lenindex lencontent = KOk (tc, ti) /\
    zlen tc = zlen tocarry /\ zlen ti = zlen toindex /\
    (forall q, 0 <= q -> at_ ti q = if q <? lenindex
                                    then (if at_ fromindex q <? 0 then -1 else cnt_upto nonneg fromindex q)
                                    else at_ toindex q) /\
    (forall q, 0 <= q < lenindex -> 0 <= at_ fromindex q -> at_ tc (cnt_upto nonneg fromindex q) = at_ fromindex q) /\
    (forall c, cnt_upto nonneg fromindex lenindex <= c -> at_ tc c = at_ tocarry c).
Proof.
  intros H0 H1 H2 Hcap Hr. unfold IndexedArray_getitem_nextcarry_outindex.
  match goal with |- exists tc ti, kbind (kfor 0 lenindex ?b ?s0) _ = _ /\ _ =>
    destruct (kfor_inv b
      (fun j (st : (list Z * Z) * list Z) =>
         let tc := fst (fst st) in let k := snd (fst st) in let ti := snd st in
         zlen tc = zlen tocarry /\ zlen ti = zlen toindex /\ k = cnt_upto nonneg fromindex j /\
         (forall q, 0 <= q -> at_ ti q = if q <? j then (if at_ fromindex q <? 0 then -1 else cnt_upto nonneg fromindex q)
                                         else at_ toindex q) /\
         (forall q, 0 <= q < j -> 0 <= at_ fromindex q -> at_ tc (cnt_upto nonneg fromindex q) = at_ fromindex q) /\
         (forall c, cnt_upto nonneg fromindex j <= c -> at_ tc c = at_ tocarry c))
      0 lenindex s0) as ([[tc k] ti] & E & P); auto end.
  - cbn [fst snd]. repeat split; auto. intros q Hq. now replace (q <? 0) with false by lia. intros; lia.
  - intros j [[tc k] ti] Hj (L1 & L2 & K & A & B & C). cbn [fst snd] in *.
    pose proof (cnt_upto_S nonneg fromindex j ltac:(lia)) as CS.
    change (nonneg (at_ fromindex j)) with (0 <=? at_ fromindex j) in CS.
    pose proof (cnt_upto_mono nonneg fromindex (j + 1) lenindex ltac:(lia)) as CM.
    pose proof (cnt_upto_nonneg nonneg fromindex j) as CN.
    rewrite (kget_at fromindex) by lia. cbn [kbind]. specialize (Hr j Hj).
    replace (lencontent <=? at_ fromindex j) with false by lia. cbn [kcheck kbind wrap].
    destruct (at_ fromindex j <? 0) eqn:Neg.
    + replace (0 <=? at_ fromindex j) with false in CS by lia.
      rewrite kupd_ok by lia. cbn [kbind]. eexists; split; [reflexivity|]. cbn [fst snd].
      rewrite zlen_set_nth. repeat split; auto; try lia.
      * intros q Hq. rewrite at_set_nth by (unfold zlen in *; lia). rewrite Z2Nat.id by lia.
        destruct (q =? j) eqn:Eq.
        -- replace (q <? j + 1) with true by lia. replace q with j by lia. now rewrite Neg.
        -- rewrite A by lia. destruct (q <? j) eqn:E2; [replace (q <? j + 1) with true by lia|replace (q <? j + 1) with false by lia]; reflexivity.
      * intros q Hq Hn. destruct (Z.eq_dec q j) as [->|D]; [lia|apply B; auto; lia].
    + replace (0 <=? at_ fromindex j) with true in CS by lia.
      unfold kpush. rewrite kupd_ok by lia. cbn [kbind]. rewrite kupd_ok by lia. cbn [kbind].
      eexists; split; [reflexivity|]. cbn [fst snd]. rewrite !zlen_set_nth. repeat split; auto; try lia.
      * intros q Hq. rewrite at_set_nth by (unfold zlen in *; lia). rewrite Z2Nat.id by lia.
        destruct (q =? j) eqn:Eq.
        -- replace (q <? j + 1) with true by lia. replace q with j by lia. now rewrite Neg.
        -- rewrite A by lia. destruct (q <? j) eqn:E2; [replace (q <? j + 1) with true by lia|replace (q <? j + 1) with false by lia]; reflexivity.
      * intros q Hq Hn. pose proof (cnt_upto_nonneg nonneg fromindex q).
        rewrite at_set_nth by (unfold zlen in *; lia). rewrite Z2Nat.id by lia.
        destruct (Z.eq_dec q j) as [->|D].
        -- rewrite K. now rewrite Z.eqb_refl.
        -- pose proof (cnt_upto_lt nonneg fromindex q j ltac:(lia) ltac:(lia)) as LT.
           unfold nonneg at 1 in LT. specialize (LT ltac:(lia)).
           replace (cnt_upto nonneg fromindex q =? k) with false by lia. apply B; auto. lia.
      * intros c Hc. rewrite at_set_nth by (unfold zlen in *; lia). rewrite Z2Nat.id by lia.
        replace (c =? k) with false by lia. apply C. lia.
  - rewrite E. cbn [kbind fst snd]. cbn [fst snd] in P. destruct P as (L1 & L2 & K & A & B & C).
    exists tc, ti. repeat split; auto.
Qed.

Theorem IndexedArray_getitem_nextcarry_outindex_width tC tocarry toindex fromindex lenindex lencontent :
  fits tC (-1) -> (forall j, 0 <= j <= lenindex -> fits tC j) ->
  lenindex <= zlen fromindex ->
  IndexedArray_getitem_nextcarry_outindex tC tocarry toindex fromindex lenindex lencontent
  = IndexedArray_getitem_nextcarry_outindex TIdeal tocarry toindex fromindex lenindex lencontent.
Proof.
  intros F1 Fj H1. unfold IndexedArray_getitem_nextcarry_outindex.
  assert (G : forall m i0 st, 0 <= i0 -> i0 + Z.of_nat m <= lenindex -> 0 <= snd (fst st) <= i0 ->
    kfor_nat m i0 (fun i (st : (list Z * Z) * list Z) => let '(ck, ti) := st in
        let* j := kget fromindex i in let* _ := kcheck (lencontent <=? j) MIndexOutOfRange in
        if j <? 0 then let* ti' := kupd ti i (wrap tC (-1)) in KOk (ck, ti')
        else let* ck' := kpush ck j in let* ti' := kupd ti i (wrap tC (snd ck)) in KOk (ck', ti')) st
    = kfor_nat m i0 (fun i (st : (list Z * Z) * list Z) => let '(ck, ti) := st in
        let* j := kget fromindex i in let* _ := kcheck (lencontent <=? j) MIndexOutOfRange in
        if j <? 0 then let* ti' := kupd ti i (wrap TIdeal (-1)) in KOk (ck, ti')
        else let* ck' := kpush ck j in let* ti' := kupd ti i (wrap TIdeal (snd ck)) in KOk (ck', ti')) st).
  { induction m; intros i0 [[tc k] ti] Hi Hm Hk; cbn [kfor_nat]; auto. cbn [fst snd] in Hk.
    rewrite (kget_at fromindex) by lia. cbn [kbind].
    destruct (kcheck (lencontent <=? at_ fromindex i0) MIndexOutOfRange); cbn [kbind]; auto.
    cbn [wrap snd]. rewrite F1. rewrite (Fj k) by lia.
    destruct (at_ fromindex i0 <? 0).
    - destruct (kupd ti i0 (-1)); cbn [kbind]; auto. apply IHm; cbn [fst snd]; lia.
    - unfold kpush. destruct (kupd tc k (at_ fromindex i0)); cbn [kbind]; auto.
      destruct (kupd ti i0 k); cbn [kbind]; auto. apply IHm; cbn [fst snd]; lia. }
  unfold kfor. destruct (Z_le_gt_dec lenindex 0).
  - replace (Z.to_nat (lenindex - 0)) with O by lia. reflexivity.
  - rewrite G; auto; cbn [fst snd]; lia.
Qed.

(* ================================================================================================ *)
(** * k_spec of the block-wise kernels on regular arrays (their k_safe is in Proofs_C13c.v) *)
Theorem RegularArray_localindex_spec toindex size length :
  0 <= size -> 0 <= length -> length * size <= zlen toindex ->
  exists out, RegularArray_localindex toindex size length = KOk out /\ zlen out = zlen toindex /\
    forall q, 0 <= q -> at_ out q = if q <? length * size then q mod size else at_ toindex q.
Proof.
  intros Hs Hn H. unfold RegularArray_localindex.
  apply (kfor_blocks_spec length size (fun _ s => s)); auto.
Qed.

Theorem RegularArray_getitem_next_range_spec tocarry regular_start step length size nextsize :
  0 <= nextsize -> 0 <= length -> length * nextsize <= zlen tocarry ->
  exists out, RegularArray_getitem_next_range tocarry regular_start step length size nextsize = KOk out /\
    zlen out = zlen tocarry /\
    forall q, 0 <= q -> at_ out q = if q <? length * nextsize
                                    then (q / nextsize) * size + regular_start + (q mod nextsize) * step
                                    else at_ tocarry q.
Proof.
  intros Hs Hn H. unfold RegularArray_getitem_next_range.
  apply (kfor_blocks_spec length nextsize (fun i j => i * size + regular_start + j * step)); auto.
Qed.

Theorem RegularArray_getitem_carry_spec tocarry fromcarry lencarry size :
  0 <= size -> 0 <= lencarry -> lencarry <= zlen fromcarry -> lencarry * size <= zlen tocarry ->
  exists out, RegularArray_getitem_carry tocarry fromcarry lencarry size = KOk out /\ zlen out = zlen tocarry /\
    forall q, 0 <= q -> at_ out q = if q <? lencarry * size then at_ fromcarry (q / size) * size + q mod size
                                    else at_ tocarry q.
Proof.
  intros Hs Hn Hc H. unfold RegularArray_getitem_carry.
  apply (kfor_blocks_spec lencarry size (fun i j => at_ fromcarry i * size + j)); auto.
  intros i o Hi Lo. rewrite (kget_at fromcarry) by lia. reflexivity.
Qed.

Theorem RegularArray_getitem_next_range_spreadadvanced_spec toadvanced fromadvanced length nextsize :
  0 <= nextsize -> 0 <= length -> length <= zlen fromadvanced -> length * nextsize <= zlen toadvanced ->
  exists out, RegularArray_getitem_next_range_spreadadvanced toadvanced fromadvanced length nextsize = KOk out /\
    zlen out = zlen toadvanced /\
    forall q, 0 <= q -> at_ out q = if q <? length * nextsize then at_ fromadvanced (q / nextsize) else at_ toadvanced q.
Proof.
  intros Hs Hn Hc H. unfold RegularArray_getitem_next_range_spreadadvanced.
  apply (kfor_blocks_spec length nextsize (fun i _ => at_ fromadvanced i)); auto.
  intros i o Hi Lo. rewrite (kget_at fromadvanced) by lia. reflexivity.
Qed.

Theorem ByteMaskedArray_getitem_nextcarry_outindex_spec tocarry outindex mask length validwhen :
  0 <= length -> length <= zlen mask -> length <= zlen outindex ->
  cnt_upto (mask_valid validwhen) mask length <= zlen tocarry ->
  exists tc oi,
    ByteMaskedArray_getitem_nextcarry_outindex tocarry outindex mask length validwhen = KOk (tc, oi) /\
    zlen tc = zlen tocarry /\ zlen oi = zlen outindex /\
    (forall q, 0 <= q -> at_ oi q = if q <? length
                                    then (if mask_valid validwhen (at_ mask q) then cnt_upto (mask_valid validwhen) mask q else -1)
                                    else at_ outindex q) /\
    (forall q, 0 <= q < length -> mask_valid validwhen (at_ mask q) = true ->
               at_ tc (cnt_upto (mask_valid validwhen) mask q) = q) /\
    (forall c, cnt_upto (mask_valid validwhen) mask length <= c -> at_ tc c = at_ tocarry c).
Proof.
  intros H0 H1 H2 Hcap. unfold ByteMaskedArray_getitem_nextcarry_outindex.
  set (p := mask_valid validwhen) in *.
  match goal with |- exists tc oi, kbind (kfor 0 length ?b ?s0) _ = _ /\ _ =>
    destruct (kfor_inv b
      (fun j (st : (list Z * Z) * list Z) =>
         let tc := fst (fst st) in let k := snd (fst st) in let oi := snd st in
         zlen tc = zlen tocarry /\ zlen oi = zlen outindex /\ k = cnt_upto p mask j /\
         (forall q, 0 <= q -> at_ oi q = if q <? j then (if p (at_ mask q) then cnt_upto p mask q else -1)
                                         else at_ outindex q) /\
         (forall q, 0 <= q < j -> p (at_ mask q) = true -> at_ tc (cnt_upto p mask q) = q) /\
         (forall c, cnt_upto p mask j <= c -> at_ tc c = at_ tocarry c))
      0 length s0) as ([[tc k] oi] & E & P); auto end.
  - cbn [fst snd]. repeat split; auto. intros q Hq. now replace (q <? 0) with false by lia. intros; lia.
  - intros j [[tc k] oi] Hj (L1 & L2 & K & A & B & C). cbn [fst snd] in *.
    pose proof (cnt_upto_S p mask j ltac:(lia)) as CS.
    pose proof (cnt_upto_mono p mask (j + 1) length ltac:(lia)) as CM.
    pose proof (cnt_upto_nonneg p mask j) as CN.
    rewrite (kget_at mask) by lia. cbn [kbind].
    change (Bool.eqb (negb (at_ mask j =? 0)) validwhen) with (p (at_ mask j)).
    destruct (p (at_ mask j)) eqn:V.
    + unfold kpush. rewrite kupd_ok by lia. cbn [kbind]. rewrite kupd_ok by lia. cbn [kbind].
      eexists; split; [reflexivity|]. cbn [fst snd]. rewrite !zlen_set_nth.
      split; [auto|]. split; [auto|]. split; [lia|]. split; [|split].
      * intros q Hq. rewrite at_set_nth by (unfold zlen in *; lia). rewrite Z2Nat.id by lia.
        destruct (q =? j) eqn:Eq.
        -- replace (q <? j + 1) with true by lia. replace q with j by lia. now rewrite V.
        -- rewrite A by lia. destruct (q <? j) eqn:E2; [replace (q <? j + 1) with true by lia|replace (q <? j + 1) with false by lia]; reflexivity.
      * intros q Hq Hv. pose proof (cnt_upto_nonneg p mask q).
        rewrite at_set_nth by (unfold zlen in *; lia). rewrite Z2Nat.id by lia.
        destruct (Z.eq_dec q j) as [->|D].
        -- rewrite K. now rewrite Z.eqb_refl.
        -- pose proof (cnt_upto_lt p mask q j ltac:(lia) ltac:(lia) Hv) as LT.
           replace (cnt_upto p mask q =? k) with false by lia. apply B; auto. lia.
      * intros c Hc. rewrite at_set_nth by (unfold zlen in *; lia). rewrite Z2Nat.id by lia.
        replace (c =? k) with false by lia. apply C. lia.
    + rewrite kupd_ok by lia. cbn [kbind]. eexists; split; [reflexivity|]. cbn [fst snd]. rewrite zlen_set_nth.
      split; [auto|]. split; [auto|]. split; [lia|]. split; [|split].
      * intros q Hq. rewrite at_set_nth by (unfold zlen in *; lia). rewrite Z2Nat.id by lia.
        destruct (q =? j) eqn:Eq.
        -- replace (q <? j + 1) with true by lia. replace q with j by lia. now rewrite V.
        -- rewrite A by lia. destruct (q <? j) eqn:E2; [replace (q <? j + 1) with true by lia|replace (q <? j + 1) with false by lia]; reflexivity.
      * intros q Hq Hv. destruct (Z.eq_dec q j) as [->|D]; [congruence|apply B; auto; lia].
      * intros c Hc. apply C. lia.
  - rewrite E. cbn [kbind fst snd]. cbn [fst snd] in P. destruct P as (L1 & L2 & K & A & B & C).
    exists tc, oi. repeat split; auto.
Qed.

(* ================================================================================================ *)
(** * k_spec of two kernels that fill a pair of buffers (their k_safe is in Proofs_C13c.v) *)
Theorem ListArray_getitem_carry_spec tostarts tostops starts stops fromcarry lenstarts lencarry :
  0 <= lencarry -> lencarry <= zlen fromcarry -> lencarry <= zlen tostarts -> lencarry <= zlen tostops ->
  lenstarts <= zlen starts -> lenstarts <= zlen stops ->
  (forall i, 0 <= i < lencarry -> 0 <= at_ fromcarry i < lenstarts) ->
  ListArray_getitem_carry TIdeal tostarts tostops starts stops fromcarry lenstarts lencarry
  = KOk (filled 0 lencarry (fun i => at_ starts (at_ fromcarry i)) tostarts,
         filled 0 lencarry (fun i => at_ stops (at_ fromcarry i)) tostops).
Proof.
  intros H0 H1 H2 H3 H4 H5 Hc. unfold ListArray_getitem_carry.
  match goal with |- kfor 0 lencarry ?b _ = _ =>
    destruct (kfor_inv b (fun j st => st = (filled 0 j (fun i => at_ starts (at_ fromcarry i)) tostarts,
                                            filled 0 j (fun i => at_ stops (at_ fromcarry i)) tostops))
                0 lencarry (tostarts, tostops)) as (s' & E & P); auto end.
  - intros j st Hj ->. specialize (Hc j Hj). rewrite (kget_at fromcarry) by lia. cbn [kbind].
    replace (lenstarts <=? at_ fromcarry j) with false by lia. cbn [kcheck kbind wrap].
    rewrite (kget_at starts), (kget_at stops) by lia. cbn [kbind].
    rewrite kupd_ok by (rewrite zlen_filled; lia). cbn [kbind].
    rewrite kupd_ok by (rewrite zlen_filled; lia). cbn [kbind].
    pose proof (filled_step 0 j (fun i => at_ starts (at_ fromcarry i)) tostarts ltac:(lia) ltac:(lia) ltac:(lia)) as F1.
    pose proof (filled_step 0 j (fun i => at_ stops (at_ fromcarry i)) tostops ltac:(lia) ltac:(lia) ltac:(lia)) as F2.
    cbv beta in F1, F2. rewrite Z.add_0_l in F1, F2. rewrite F1, F2. eauto.
  - now rewrite E, P.
Qed.

Theorem index_rpad_and_clip_axis1_spec tostarts tostops target length :
  0 <= length -> length <= zlen tostarts -> length <= zlen tostops ->
  index_rpad_and_clip_axis1 tostarts tostops target length
  = KOk (filled 0 length (fun i => i * target) tostarts, filled 0 length (fun i => (i + 1) * target) tostops).
Proof.
  intros H0 H1 H2. unfold index_rpad_and_clip_axis1.
  match goal with |- kbind (kfor 0 length ?b ?s0) _ = _ =>
    destruct (kfor_inv b (fun j st => st = (filled 0 j (fun i => i * target) tostarts,
                                            filled 0 j (fun i => (i + 1) * target) tostops, j * target))
                0 length s0) as (s' & E & P); auto end.
  - intros j st Hj ->.
    rewrite kupd_ok by (rewrite zlen_filled; lia). cbn [kbind].
    rewrite kupd_ok by (rewrite zlen_filled; lia). cbn [kbind].
    pose proof (filled_step 0 j (fun i => i * target) tostarts ltac:(lia) ltac:(lia) ltac:(lia)) as F1.
    pose proof (filled_step 0 j (fun i => (i + 1) * target) tostops ltac:(lia) ltac:(lia) ltac:(lia)) as F2.
    cbv beta in F1, F2. rewrite Z.add_0_l in F1, F2.
    replace (j * target + target) with ((j + 1) * target) by ring. rewrite F1, F2. eauto.
  - rewrite E, P. reflexivity.
Qed.
