"""Runs /repo's pure-Python type-string parser (src/awkward/_typeparser: Lark stand-alone parser + parser.py) on type
strings, with stand-ins for the awkward.types classes (the real ones live in the pybind11 extension, which cannot be
built here).  The stand-ins have the constructor signatures of src/python/types.cpp and a __str__ that follows the
C++ printers in src/libawkward/type/*.cpp.

The constructors also raise where the pybind11 ones do for what the grammar can hand them: PrimitiveType on a name
util::name_to_dtype does not know (int128 / uint128 are in the grammar's TYPE terminal), RegularType / ArrayType on a size
that is not a Python int within int64_t (pybind11's integer caster refuses floats and overflowing ints: TypeError),
RecordType on keys of another length than types.

usage: larkvote.py REPO   < lines of (optionally x-prefixed) hex-encoded UTF-8 type strings   > one JSON object per line
  {"ll": R, "hl": R}, R = {"ok": true, "str": ..., "same": bool, "cls": top class, "arraytype": bool, "tree": T}
                        | {"ok": false, "exc": class name}
  T = the object tree (for the comparison with the Rocq model of the parser, c17/coq/Lark.v); bytes as hex:
      ["array", "n", T] | ["num", P, ts, dtype] | ["unk", P, ts] | ["list", P, ts, T] | ["reg", P, ts, "n", T]
      | ["opt", P, ts, T] | ["rec", P, ts, null | [key...], [T...]] | ["union", P, ts, [T...]]
  P = [[key, J]...] ordered by key bytes;  J = null | true | false | ["i", "n"] | ["d", repr] | ["s", hex] | ["a", [J...]]
      | ["o", [[key, J]...]] (a dict in its own order)
"""
import importlib.util
import json
import sys
import types as pytypes

REPO = sys.argv[1] if len(sys.argv) > 1 else '/repo'

KEYWORDS = ["var", "option", "bool", "int8", "int16", "int32", "int64", "int128", "uint8", "uint16", "uint32",
            "uint64", "uint128", "float16", "float32", "float64", "float128", "decimal32", "decimal64", "decimal128",
            "bignum", "int", "real", "complex", "intptr", "uintptr", "string", "char", "bytes", "date", "json",
            "void", "datetime", "categorical", "pointer"]


def quote(s):
    """rj::Writer string"""
    out = ['"']
    for ch in s:
        c = ord(ch)
        if ch == '"':
            out.append('\\"')
        elif ch == '\\':
            out.append('\\\\')
        elif ch == '\b':
            out.append('\\b')
        elif ch == '\f':
            out.append('\\f')
        elif ch == '\n':
            out.append('\\n')
        elif ch == '\r':
            out.append('\\r')
        elif ch == '\t':
            out.append('\\t')
        elif c < 0x20:
            out.append('\\u00%02X' % c)
        else:
            out.append(ch)
    out.append('"')
    return ''.join(out)


def jtext(v):
    """compact JSON text as rj::Writer prints a value"""
    if v is None:
        return 'null'
    if v is True:
        return 'true'
    if v is False:
        return 'false'
    if isinstance(v, int):
        return str(v)
    if isinstance(v, float):
        return repr(v)
    if isinstance(v, str):
        return quote(v)
    if isinstance(v, (list, tuple)):
        return '[' + ','.join(jtext(x) for x in v) + ']'
    if isinstance(v, dict):
        return '{' + ','.join(quote(k) + ':' + jtext(x) for k, x in v.items()) + '}'
    raise TypeError(type(v))


DTYPE_NAMES = ["bool", "int8", "int16", "int32", "int64", "uint8", "uint16", "uint32", "uint64", "float16", "float32",
               "float64", "float128", "complex64", "complex128", "complex256", "datetime64", "timedelta64"]


def hx(s):
    return s.encode('utf-8', 'surrogateescape').hex()


def jtree(v):
    if v is None or v is True or v is False:
        return v
    if isinstance(v, int):
        return ['i', str(v)]
    if isinstance(v, float):
        return ['d', repr(v)]
    if isinstance(v, str):
        return ['s', hx(v)]
    if isinstance(v, (list, tuple)):
        return ['a', [jtree(x) for x in v]]
    if isinstance(v, dict):
        return ['o', [[hx(k), jtree(x)] for k, x in v.items()]]
    raise TypeError(type(v))


def int64_arg(v):
    """pybind11's caster for an int64_t argument"""
    if isinstance(v, bool) or not isinstance(v, int) or not (-2 ** 63 <= v < 2 ** 63):
        raise TypeError('incompatible constructor arguments')
    return v


def isname(v):
    if not isinstance(v, str) or not v:
        return False
    if not (v[0].isascii() and (v[0].isalpha() or v[0] == '_')):
        return False
    return all(c.isascii() and (c.isalnum() or c == '_') for c in v[1:])


class Type(object):
    def _init(self, parameters, typestr):
        ps = dict(parameters) if parameters is not None else {}
        # std::map<std::string, std::string>: ordered by key (bytes); a null value is an absent parameter only for
        # setparameter, the constructor keeps it
        self.parameters = dict(sorted(ps.items(), key=lambda kv: kv[0].encode('utf-8', 'surrogatepass')))
        self.typestr = typestr if typestr is not None else ''

    def _categorical(self):
        return self.parameters.get('__categorical__') is True

    def _params_empty(self):
        return len(self.parameters) == 0 or (len(self.parameters) == 1 and self._categorical())

    def _string_parameters(self):
        return 'parameters={' + ', '.join(quote(k) + ': ' + jtext(v) for k, v in self.parameters.items()
                                          if k != '__categorical__') + '}'

    def _wrap(self, s):
        return 'categorical[type=' + s + ']' if self._categorical() else s

    def __str__(self):
        if self.typestr:
            return self._wrap(self.typestr)
        return self._wrap(self._body())

    __repr__ = __str__

    def has_arraytype(self):
        return any(c.has_arraytype() for c in self._children())

    def _children(self):
        return []

    def _ptree(self):
        ps = sorted(self.parameters.items(), key=lambda kv: kv[0].encode('utf-8', 'surrogateescape'))
        return [[hx(k), jtree(v)] for k, v in ps]

    def tree(self):
        return [self.TAG, self._ptree(), hx(self.typestr)] + self._tree_rest()


class ArrayType(Type):
    def __init__(self, type, length, parameters=None, typestr=None):
        self._init(parameters, typestr)
        self.type, self.length = type, int64_arg(length)

    def tree(self):
        return ['array', str(self.length), self.type.tree()]

    def __str__(self):
        if self.typestr:
            return self.typestr
        return str(self.length) + ' * ' + str(self.type)

    __repr__ = __str__

    def has_arraytype(self):
        return True

    def _children(self):
        return [self.type]


class ListType(Type):
    TAG = 'list'

    def __init__(self, type, parameters=None, typestr=None):
        self._init(parameters, typestr)
        self.type = type

    def _tree_rest(self):
        return [self.type.tree()]

    def _body(self):
        if self._params_empty():
            return 'var * ' + str(self.type)
        return '[var * ' + str(self.type) + ', ' + self._string_parameters() + ']'

    def _children(self):
        return [self.type]


class RegularType(Type):
    TAG = 'reg'

    def __init__(self, type, size, parameters=None, typestr=None):
        self._init(parameters, typestr)
        self.type, self.size = type, int64_arg(size)

    def _tree_rest(self):
        return [str(self.size), self.type.tree()]

    def _body(self):
        if self._params_empty():
            return str(self.size) + ' * ' + str(self.type)
        return '[' + str(self.size) + ' * ' + str(self.type) + ', ' + self._string_parameters() + ']'

    def _children(self):
        return [self.type]


class OptionType(Type):
    TAG = 'opt'

    def __init__(self, type, parameters=None, typestr=None):
        self._init(parameters, typestr)
        self.type = type

    def _tree_rest(self):
        return [self.type.tree()]

    def _body(self):
        if self._params_empty():
            if isinstance(self.type, (ListType, RegularType)):
                return 'option[' + str(self.type) + ']'
            return '?' + str(self.type)
        return 'option[' + str(self.type) + ', ' + self._string_parameters() + ']'

    def _children(self):
        return [self.type]


class UnionType(Type):
    TAG = 'union'

    def __init__(self, types, parameters=None, typestr=None):
        self._init(parameters, typestr)
        self.types = list(types)

    def _tree_rest(self):
        return [[t.tree() for t in self.types]]

    def _body(self):
        out = 'union[' + ', '.join(str(t) for t in self.types)
        if not self._params_empty():
            out += ', ' + self._string_parameters()
        return out + ']'

    def _children(self):
        return self.types


class RecordType(Type):
    TAG = 'rec'

    def _tree_rest(self):
        return [None if self.keys is None else [hx(k) for k in self.keys], [t.tree() for t in self.types]]

    def __init__(self, types, keys=None, parameters=None, typestr=None):
        if isinstance(types, dict):           # the py::dict overload: (types, parameters, typestr)
            parameters, typestr = keys, parameters
            keys = list(types.keys())
            types = list(types.values())
        self._init(parameters, typestr)
        self.types = list(types)
        self.keys = None if keys is None else [str(k) for k in keys]
        if self.keys is not None and len(self.keys) != len(self.types):
            raise ValueError("if provided, 'keys' must have the same length as 'types'")

    def _body(self):
        ts = [str(t) for t in self.types]
        rec = self.parameters.get('__record__')
        if len(self.parameters) == 1 and isname(rec) and rec not in KEYWORDS:
            if self.keys is not None:
                return rec + '[' + ', '.join(quote(k) + ': ' + t for k, t in zip(self.keys, ts)) + ']'
            return rec + '[' + ', '.join(ts) + ']'
        if self._params_empty():
            if self.keys is not None:
                return '{' + ', '.join(quote(k) + ': ' + t for k, t in zip(self.keys, ts)) + '}'
            return '(' + ', '.join(ts) + ')'
        if self.keys is not None:
            return ('struct[[' + ', '.join(quote(k) for k in self.keys) + '], [' + ', '.join(ts) + '], '
                    + self._string_parameters() + ']')
        return 'tuple[[' + ', '.join(ts) + '], ' + self._string_parameters() + ']'

    def _children(self):
        return self.types


class PrimitiveType(Type):
    TAG = 'num'

    def __init__(self, dtype, parameters=None, typestr=None):
        if dtype not in DTYPE_NAMES:
            raise ValueError('unrecognized primitive type: ' + str(dtype))
        self._init(parameters, typestr)
        self.dtype = str(dtype)

    def _tree_rest(self):
        return [self.dtype]

    def _body(self):
        if self._params_empty():
            return self.dtype
        return self.dtype + '[' + self._string_parameters() + ']'


class UnknownType(Type):
    TAG = 'unk'

    def __init__(self, parameters=None, typestr=None):
        self._init(parameters, typestr)

    def _tree_rest(self):
        return []

    def _body(self):
        if self._params_empty():
            return 'unknown'
        return 'unknown[' + self._string_parameters() + ']'


def load_parser():
    ak = pytypes.ModuleType('awkward')
    ak.__path__ = []
    tmod = pytypes.ModuleType('awkward.types')
    for cls in (ArrayType, ListType, RegularType, OptionType, UnionType, RecordType, PrimitiveType, UnknownType):
        setattr(tmod, cls.__name__, cls)
    ak.types = tmod
    tp = pytypes.ModuleType('awkward._typeparser')
    tp.__path__ = []
    sys.modules['awkward'] = ak
    sys.modules['awkward.types'] = tmod
    sys.modules['awkward._typeparser'] = tp
    base = REPO + '/src/awkward/_typeparser/'
    for name in ('generated_parser', 'parser'):
        full = 'awkward._typeparser.' + name
        spec = importlib.util.spec_from_file_location(full, base + name + '.py')
        mod = importlib.util.module_from_spec(spec)
        sys.modules[full] = mod
        spec.loader.exec_module(mod)
        setattr(tp, name, mod)
    return sys.modules['awkward._typeparser.parser'].from_datashape


def main():
    from_datashape = load_parser()
    for ln in sys.stdin:
        ln = ln.strip()
        if not ln:
            continue
        if ln[0] == 'x':                    # "x" + hex: lets the empty string through
            ln = ln[1:]
        s = bytes.fromhex(ln).decode('utf-8', 'surrogateescape')
        out = {}
        for mode in (False, True):
            key = 'hl' if mode else 'll'
            try:
                t = from_datashape(s, mode)
                out[key] = dict(ok=True, same=(str(t) == s), str=str(t), cls=type(t).__name__,
                                arraytype=bool(t.has_arraytype()) if hasattr(t, 'has_arraytype') else False,
                                tree=t.tree())
            except BaseException as e:     # Lark errors, AssertionError, ...
                out[key] = dict(ok=False, exc=type(e).__name__)
        print(json.dumps(out))
        sys.stdout.flush()


if __name__ == '__main__':
    main()
