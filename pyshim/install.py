# install(): make `import awkward` resolve to /repo/src/awkward with a Python substitute for awkward._ext.
import importlib.abc
import importlib.machinery
import os
import sys
import types

REPO_SRC = os.environ.get("PYSHIM_REPO_SRC", "/repo/src")
VERIF = "/verif"

# Every place where the environment (NumPy 2.x / Python 3.12) had to be adapted for 2021 code.
ENV_SHIMS = []
_installed = False


def _shim(name, why):
    ENV_SHIMS.append((name, why))


def _env_shims():
    import numpy

    # NumPy aliases removed in 1.24 / 2.0 (awkward 1.4.0 predates the removal)
    for alias, target in (("bool", bool), ("object", object), ("int", int), ("float", float), ("complex", complex), ("str", str)):
        if alias not in numpy.__dict__:
            setattr(numpy, alias, target)
            _shim("numpy." + alias, "alias removed in NumPy 1.24; 1.4.0 code uses np.%s" % alias)
    for alias, target in (("float_", "float64"), ("complex_", "complex128"), ("unicode_", "str_"), ("string_", "bytes_"),
                          ("product", "prod"), ("cumproduct", "cumprod"), ("sometrue", "any"), ("alltrue", "all"),
                          ("in1d", "isin"), ("row_stack", "vstack"), ("trapz", "trapezoid"), ("round_", "round"),
                          ("NaN", "nan"), ("Inf", "inf"), ("infty", "inf")):
        if alias not in numpy.__dict__ and hasattr(numpy, target):
            try:
                setattr(numpy, alias, getattr(numpy, target))
                _shim("numpy." + alias, "alias removed in NumPy 2.0")
            except Exception:
                pass
    # numpy.lib.mixins.NDArrayOperatorsMixin grew `__slots__ = ()`; with Python >= 3.11's managed dicts that makes
    # `self.__class__ = <behavior subclass>` in ak.Array.__init__ fail for every ak.mixin_class
    # ("object layout differs").  Give awkward the slot-less class that NumPy shipped in 2021.
    try:
        import numpy.lib.mixins as _mixins

        orig = _mixins.NDArrayOperatorsMixin
        if "__slots__" in orig.__dict__:
            d = dict((k, v) for k, v in orig.__dict__.items() if k not in ("__slots__", "__dict__", "__weakref__"))
            _mixins.NDArrayOperatorsMixin = type("NDArrayOperatorsMixin", (object,), d)
            _mixins.NDArrayOperatorsMixin.__module__ = orig.__module__
            _shim("numpy.lib.mixins.NDArrayOperatorsMixin",
                  "slot-less copy (as in NumPy < 1.2x): __slots__=() breaks __class__ assignment in ak.Array.__init__ on Python 3.12")
    except Exception:
        pass
    if "core" not in numpy.__dict__:
        try:
            import numpy._core as _core

            numpy.core = _core
            sys.modules.setdefault("numpy.core", _core)
            _shim("numpy.core", "renamed to numpy._core in NumPy 2.0")
        except Exception:
            pass
    # distutils was removed from the standard library in 3.12; awkward/__init__.py uses
    # distutils.version.LooseVersion.  setuptools ships a copy.
    try:
        import distutils.version  # noqa
    except ImportError:
        try:
            import setuptools._distutils as _d
            import setuptools._distutils.version as _dv

            sys.modules["distutils"] = _d
            sys.modules["distutils.version"] = _dv
            _shim("distutils", "removed from the stdlib in Python 3.12; mapped to setuptools._distutils")
        except ImportError:
            import re

            mod = types.ModuleType("distutils")
            ver = types.ModuleType("distutils.version")

            class LooseVersion(object):
                def __init__(self, s):
                    self.v = [int(x) if x.isdigit() else x for x in re.split(r"[.+-]", s) if x != ""]

                def _key(self):
                    return [(0, x) if isinstance(x, int) else (1, x) for x in self.v]

                def __lt__(self, o):
                    return self._key() < o._key()

                def __ge__(self, o):
                    return self._key() >= o._key()

                def __eq__(self, o):
                    return self._key() == o._key()

            ver.LooseVersion = LooseVersion
            mod.version = ver
            sys.modules["distutils"] = mod
            sys.modules["distutils.version"] = ver
            _shim("distutils", "removed from the stdlib in Python 3.12; minimal LooseVersion stub")


def _make_pkg_resources():
    from pyshim import driver

    try:
        import pkg_resources  # noqa

        real = sys.modules["pkg_resources"]
    except Exception:
        real = None

    mod = types.ModuleType("pkg_resources")
    if real is not None:
        mod.__dict__.update(real.__dict__)

    def resource_filename(pkg, name):
        if pkg == "awkward":
            return os.path.join(driver.BUILD_DIR, name)
        if real is not None:
            return real.resource_filename(pkg, name)
        raise ImportError("pkg_resources stub: unknown package " + str(pkg))

    mod.resource_filename = resource_filename
    if not hasattr(mod, "parse_version"):
        def parse_version(s):
            import re
            return tuple(int(x) if x.isdigit() else x for x in re.split(r"[.+-]", s) if x != "")
        mod.parse_version = parse_version
    sys.modules["pkg_resources"] = mod
    _shim("pkg_resources.resource_filename", "points awkward's shared libraries at /verif/.build/std (no installed package)")


def build_ext_module():
    from pyshim import content, virtual, builders, forth, partition, typesforms, slicing, core

    m = types.ModuleType("awkward._ext")
    m.__version__ = "1.4.0"
    m.__file__ = os.path.join(VERIF, "pyshim", "install.py")
    m.__pyshim__ = True

    def startup():
        return None

    m.startup = startup
    m.kernel_lib = content.kernel_lib
    for name in ["Index8", "IndexU8", "Index32", "IndexU32", "Index64", "Identities32", "Identities64",
                 "Iterator", "_PersistentSharedPtr", "Content", "EmptyArray",
                 "IndexedArray32", "IndexedArrayU32", "IndexedArray64", "IndexedOptionArray32", "IndexedOptionArray64",
                 "ByteMaskedArray", "BitMaskedArray", "UnmaskedArray", "ListArray32", "ListArrayU32", "ListArray64",
                 "ListOffsetArray32", "ListOffsetArrayU32", "ListOffsetArray64", "NumpyArray", "Record", "RecordArray",
                 "RegularArray", "UnionArray8_32", "UnionArray8_U32", "UnionArray8_64"]:
        setattr(m, name, getattr(content, name))
    for name in ["VirtualArray", "ArrayGenerator", "SliceGenerator", "ArrayCache"]:
        setattr(m, name, getattr(virtual, name))
    m.ArrayBuilder = builders.ArrayBuilder
    m.LayoutBuilder = builders.LayoutBuilder
    m._slice_tostring = slicing.slice_tostring
    for name in ["Type", "ArrayType", "PrimitiveType", "RegularType", "UnknownType", "ListType", "OptionType",
                 "UnionType", "RecordType", "Form", "BitMaskedForm", "ByteMaskedForm", "EmptyForm", "IndexedForm",
                 "IndexedOptionForm", "ListForm", "ListOffsetForm", "NumpyForm", "RecordForm", "RegularForm",
                 "UnionForm", "UnmaskedForm", "VirtualForm"]:
        setattr(m, name, getattr(typesforms, name))
    m.PartitionedArray = partition.PartitionedArray
    m.IrregularlyPartitionedArray = partition.IrregularlyPartitionedArray
    m.ForthMachine32 = forth.ForthMachine32
    m.ForthMachine64 = forth.ForthMachine64

    from pyshim import io as _io

    m.fromjson = _io.fromjson
    m.fromjsonfile = _io.fromjsonfile
    m.uproot_issue_90 = _io.uproot_issue_90

    # give the classes the module name the real extension gives them
    for v in list(m.__dict__.values()):
        if isinstance(v, type):
            try:
                v.__module__ = "awkward._ext"
            except Exception:
                pass
    return m


class _ExtFinder(importlib.abc.MetaPathFinder, importlib.abc.Loader):
    def __init__(self, module):
        self.module = module

    def find_spec(self, fullname, path, target=None):
        if fullname == "awkward._ext":
            return importlib.machinery.ModuleSpec(fullname, self)
        return None

    def create_module(self, spec):
        return self.module

    def exec_module(self, module):
        pass


def install(reexec_hashseed=False):
    """Idempotent. After it, `import awkward` gives /repo/src/awkward served by pydrv.

    reexec_hashseed=True re-executes the interpreter with PYTHONHASHSEED=0 when the variable is unset (string
    hashing cannot be changed in a running process).  pyshim itself never depends on hash order (parameters
    are always sent in sorted key order, as std::map keeps them); the option only pins the order of Python
    `set`s inside /repo's own Python code."""
    global _installed
    if _installed:
        return
    if os.environ.get("PYTHONHASHSEED") is None:
        if reexec_hashseed and getattr(sys, "argv", None) and os.path.exists(sys.argv[0]):
            env = dict(os.environ)
            env["PYTHONHASHSEED"] = "0"
            os.execve(sys.executable, [sys.executable] + sys.argv, env)
        os.environ["PYTHONHASHSEED"] = "0"  # inherited by child processes (drivers, test runners)
    if VERIF not in sys.path:
        sys.path.insert(0, VERIF)
    if "awkward" in sys.modules and not getattr(sys.modules["awkward"], "__file__", "").startswith(REPO_SRC):
        raise RuntimeError("pyshim.install(): a different `awkward` is already imported: %r" % sys.modules["awkward"].__file__)
    # PYTHONHASHSEED-independence: nothing in pyshim iterates a set or hashes strings for ordering;
    # parameters are always emitted in sorted key order (as std::map does).
    sys.dont_write_bytecode = True
    _env_shims()
    _make_pkg_resources()
    while REPO_SRC in sys.path:
        sys.path.remove(REPO_SRC)
    sys.path.insert(0, REPO_SRC)
    ext = build_ext_module()
    sys.meta_path.insert(0, _ExtFinder(ext))
    _installed = True
    _post_import_patches()


def _post_import_patches():
    """Import awkward now and apply the (few, listed) run-time adaptations of its Python code."""
    import awkward  # noqa

    from pyshim import envpatch

    envpatch.apply(ENV_SHIMS)


if __name__ == "__main__":
    install()
    import awkward as ak

    print(ak.__file__, ak.__version__)
