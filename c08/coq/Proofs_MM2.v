(** C08, wider fragment of mergemany: record / tuple operands (keys in any order, nested records).  This file: the skeletons, the result-directed cast and
    the semantics of [trim] (getitem_range_nowrap(0, n), used by RecordArray::mergemany on every field). *)
From Coq Require Import ZArith List Bool Lia ZifyBool.
From AwkV Require Import Base Layout LayoutInd Valid Types Carry Proofs_C11 Proofs_ToList Proofs_Carry.
From AwkMerge Require Import Merge Lemmas_C08 Proofs_C08 Proofs_MM Proofs_Simplify Proofs_MML.
Import ListNotations.
Open Scope Z_scope.

(* ---------------------------------------------------------------- skeletons *)
Inductive sk2 :=
| KOld (s : sk)                                       (* a record-free layout of skeleton s (Proofs_MM.has_sk) *)
| KRec (ks : option (list name)) (ss : list sk2).     (* RecordArray: tuple (None) or named fields in this order *)

Section Sk2Ind.
  Variable P : sk2 -> Prop.
  Hypothesis HOld : forall s, P (KOld s).
  Hypothesis HRec : forall ks ss, Forall P ss -> P (KRec ks ss).
  Fixpoint sk2_ind' (s : sk2) : P s :=
    match s with
    | KOld s' => HOld s'
    | KRec ks ss =>
        HRec ks ss ((fix go (l : list sk2) : Forall P l :=
                       match l with [] => Forall_nil P | x :: xs => Forall_cons x (sk2_ind' x) (go xs) end) ss)
    end.
End Sk2Ind.

Section All2.
  Context {A B : Type} (f : A -> B -> bool).
  Fixpoint all2 (l : list A) (m : list B) : bool :=
    match l, m with
    | [], [] => true
    | x :: xs, y :: ys => f x y && all2 xs ys
    | _, _ => false
    end.
End All2.

Fixpoint nodupb (l : list name) : bool :=
  match l with [] => true | k :: r => negb (existsb (nm_eqb k) r) && nodupb r end.

(* what [trim] (getitem_range_nowrap) visits below a record field: RegularArray, BitMaskedArray, UnionArray and
   parameters directly there are excluded (they are fine below a list or an indexed node) *)
Fixpoint trimmable (c : content) : bool :=
  match c with
  | Numpy _ _ _ | Empty | ListOffset _ _ _ | ListA _ _ _ _ | Indexed _ _ _ | IndexedOption _ _ _ => true
  | ByteMasked _ _ c' | Unmasked c' => trimmable c'
  | Record cs _ _ => (fix all (l : list content) : bool := match l with [] => true | x :: xs => trimmable x && all xs end) cs
  | _ => false
  end.

(* the first operand: record keys in the skeleton's order, no duplicate keys *)
Fixpoint hasS (s : sk2) (c : content) {struct s} : bool :=
  match s with
  | KOld s' => has_sk s' c
  | KRec ks ss =>
      match c with
      | Record cs ks' _ =>
          opt_eqb (list_eqb nm_eqb) ks ks' &&
          match ks with Some k => nodupb k && Nat.eqb (length k) (length ss) | None => true end &&
          all2 hasS ss cs
      | _ => false
      end
  end.

(* the later operands: record keys in any order *)
Fixpoint hasL (s : sk2) (c : content) {struct s} : bool :=
  match s with
  | KOld s' => has_sk s' c
  | KRec ks ss =>
      match c with
      | Record cs ks' _ =>
          forallb trimmable cs &&
          match ks, ks' with
          | None, None => all2 hasL ss cs
          | Some k, Some k' =>
              same_keys k k' && Nat.eqb (length k') (length cs) &&
              all2 (fun s1 kx => match find_field kx k' cs with Some f => hasL s1 f | None => false end) ss k
          | _, _ => false
          end
      | _ => false
      end
  end.

Fixpoint need2 (s : sk2) : nat :=
  match s with
  | KOld s' => need s'
  | KRec _ ss => S (fold_right (fun x acc => Nat.max (need2 x) acc) O ss)
  end.

(* no option level directly inside an option level *)
Fixpoint ok2 (s : sk2) : bool :=
  match s with
  | KOld s' => sk_ok s'
  | KRec _ ss => forallb ok2 ss
  end.

(* ---------------------------------------------------------------- the result-directed cast *)
(* tree of leaf dtypes of a layout (one leaf per numeric leaf, records branch) *)
Inductive dtt := DL (d : dtype) | DR (ks : option (list name)) (ts : list dtt).

Fixpoint dtree (c : content) : dtt :=
  match c with
  | Numpy dt _ _ => DL dt
  | ListOffset _ _ c' | ListA _ _ _ c' | Regular c' _ _ | Indexed _ _ c' | IndexedOption _ _ c'
  | ByteMasked _ _ c' | BitMasked _ _ _ _ c' | Unmasked c' | Par _ _ c' => dtree c'
  | Record cs ks _ => DR ks (map dtree cs)
  | _ => DL DBool
  end.

Fixpoint tlook (k : name) (ks : list name) (ts : list dtt) : dtt :=
  match ks, ts with
  | k' :: ks', t :: ts' => if nm_eqb k k' then t else tlook k ks' ts'
  | _, _ => DL DBool
  end.
Definition assoc_or (k : name) (fs : list (name * value)) : value :=
  match assoc_name k fs with Some v => v | None => VNone end.
(* the fields in the result's key order *)
Definition reorder (ks : list name) (fs : list (name * value)) : list (name * value) :=
  map (fun k => (k, assoc_or k fs)) ks.

(* the documented cast, directed by the result's dtype tree: booleans become 0/1 where the merged leaf type is a
   number, record fields are listed in the result's key order; nothing else changes *)
Fixpoint dcast (t : dtt) (v : value) {struct v} : value :=
  match v with
  | VBool b => match t with DL d => if dt_eqb d DBool then v else bnum b | _ => v end
  | VList l => VList (map (dcast t) l)
  | VTup xs =>
      match t with
      | DR _ ts =>
          VTup ((fix go (xs : list value) (ts : list dtt) : list value :=
                   match xs, ts with
                   | x :: xs', t1 :: ts' => dcast t1 x :: go xs' ts'
                   | _, _ => xs
                   end) xs ts)
      | _ => v
      end
  | VRec fs =>
      match t with
      | DR (Some ks) ts =>
          VRec (reorder ks
                  ((fix go (fs : list (name * value)) : list (name * value) :=
                      match fs with
                      | [] => []
                      | (k, x) :: r => (k, dcast (tlook k ks ts) x) :: go r
                      end) fs))
      | _ => v
      end
  | _ => v
  end.

Fixpoint cast_tup (ts : list dtt) (xs : list value) : list value :=
  match xs, ts with
  | x :: xs', t1 :: ts' => dcast t1 x :: cast_tup ts' xs'
  | _, _ => xs
  end.
Fixpoint cast_fields (ks : list name) (ts : list dtt) (fs : list (name * value)) : list (name * value) :=
  match fs with
  | [] => []
  | (k, x) :: r => (k, dcast (tlook k ks ts) x) :: cast_fields ks ts r
  end.
Lemma dcast_VTup ks ts xs : dcast (DR ks ts) (VTup xs) = VTup (cast_tup ts xs).
Proof. cbn [dcast]. f_equal. revert ts. induction xs as [|x xs IH]; intros [|t ts]; cbn; auto. now rewrite IH. Qed.
Lemma dcast_VRec ks ts fs : dcast (DR (Some ks) ts) (VRec fs) = VRec (reorder ks (cast_fields ks ts fs)).
Proof. cbn [dcast]. do 2 f_equal. induction fs as [|[k x] r IH]; cbn; auto. now rewrite IH. Qed.
Lemma dcast_VList t l : dcast t (VList l) = VList (map (dcast t) l).
Proof. reflexivity. Qed.
Lemma dcast_VNone t : dcast t VNone = VNone.
Proof. reflexivity. Qed.

(* on a leaf tree the cast is the one of Proofs_MM *)
Lemma dcast_DL d : forall v, dcast (DL d) v = deep_cast d v.
Proof.
  fix IH 1. destruct v; try reflexivity. cbn [dcast deep_cast]. f_equal.
  induction l as [|x l IHl]; cbn [map]; [reflexivity|]. f_equal; [apply IH|apply IHl].
Qed.
Lemma dtree_sk s : forall c, has_sk s c = true -> dtree c = DL (leaf_dt c).
Proof. induction s as [|s' IH|s' IH]; intros c H; destruct c; cbn in H |- *; try discriminate; auto;
  apply andb_true_iff in H; destruct H as [_ H]; auto. Qed.

(* ---------------------------------------------------------------- list helpers *)
Lemma mapM_take {A B} (f : A -> res B) l ys n : mapM f l = Ok ys -> mapM f (take n l) = Ok (take n ys).
Proof.
  unfold take. generalize (Z.to_nat n) as k. intros k. revert l ys.
  induction k as [|k IH]; intros l ys H; [reflexivity|].
  destruct l as [|x xs]; cbn in H.
  - inversion H. reflexivity.
  - destruct (f x) eqn:E; cbn in H; [|discriminate]. destruct (mapM f xs) eqn:E2; cbn in H; [|discriminate].
    inversion H; subst. cbn. rewrite E. cbn. rewrite (IH _ _ E2). reflexivity.
Qed.
Lemma forallb_take {A} (f : A -> bool) l n : forallb f l = true -> forallb f (take n l) = true.
Proof.
  unfold take. generalize (Z.to_nat n) as k. intros k. revert l.
  induction k as [|k IH]; intros l H; [reflexivity|]. destruct l as [|x xs]; [reflexivity|].
  cbn in *. apply andb_true_iff in H. destruct H as [H1 H2]. rewrite H1. cbn. auto.
Qed.
Lemma zip_take {A B} (l : list A) (m : list B) n : zip (take n l) (take n m) = take n (zip l m).
Proof.
  unfold take. generalize (Z.to_nat n) as k. intros k. revert l m.
  induction k as [|k IH]; intros l m; [reflexivity|]. destruct l as [|a l]; [reflexivity|].
  destruct m as [|b m]; cbn [firstn zip].
  - destruct (firstn k l); reflexivity.
  - now rewrite IH.
Qed.
Lemma pairs_firstn k o : pairs (firstn (S k) o) = firstn k (pairs o).
Proof.
  revert o. induction k as [|k IH]; intros o.
  - destruct o as [|a [|b t]]; reflexivity.
  - destruct o as [|a [|b t]]; try reflexivity.
    change (firstn (S (S k)) (a :: b :: t)) with (a :: firstn (S k) (b :: t)).
    change (pairs (a :: b :: t)) with ((a, b) :: pairs (b :: t)).
    cbn [firstn]. rewrite <- IH. cbn [firstn]. reflexivity.
Qed.
Lemma pairs_take k o : 0 <= k -> pairs (take (k + 1) o) = take k (pairs o).
Proof. intros H. unfold take. replace (Z.to_nat (k + 1)) with (S (Z.to_nat k)) by lia. apply pairs_firstn. Qed.
Lemma slice0 {A} (l : list A) n : 0 <= n <= zlen l -> slice l 0 n = Ok (take n l).
Proof. intros H. rewrite slice_in by lia. rewrite Z.sub_0_r. reflexivity. Qed.
Lemma take_take {A} (l : list A) n m : n <= m -> take n (take m l) = take n l.
Proof.
  intros H. unfold take. destruct (Z_le_gt_dec 0 n).
  - rewrite firstn_firstn. f_equal. lia.
  - replace (Z.to_nat n) with O by lia. reflexivity.
Qed.
Lemma take_iota n m : 0 <= n <= m -> take n (iota m) = iota n.
Proof.
  intros H. unfold iota, take. replace (Z.to_nat m) with (Z.to_nat n + (Z.to_nat m - Z.to_nat n))%nat by lia.
  rewrite Lemmas_C08.iota_nat_app. rewrite firstn_app, iota_nat_length, Nat.sub_diag. cbn.
  rewrite app_nil_r. apply firstn_all2. rewrite iota_nat_length. lia.
Qed.

Lemma all_fix_mapM {A} (f : content -> res A) cs :
  (fix all (l : list content) : res (list A) :=
     match l with [] => Ok [] | x :: xs => do y <- f x; do ys <- all xs; Ok (y :: ys) end) cs = mapM f cs.
Proof. induction cs as [|c cs IH]; [reflexivity|]. cbn [mapM]. rewrite <- IH. reflexivity. Qed.
Lemma all_fix_forallb' (f : content -> bool) cs :
  (fix all (l : list content) : bool := match l with [] => true | x :: xs => f x && all xs end) cs = forallb f cs.
Proof. induction cs as [|c cs IH]; [reflexivity|]. cbn. now rewrite IH. Qed.

Lemma to_list_Record' cs ks n :
  to_list (Record cs ks n) = do vss <- mapM to_list cs; if n <? 0 then Err EValue else mapM (row ks vss) (iota n).
Proof. cbn [to_list]. rewrite (all_fix_mapM to_list). reflexivity. Qed.
Lemma valid_Record cs ks n :
  valid_b (Record cs ks n) =
  (0 <=? n) && forallb (fun x => n <=? clen x) cs &&
  (match ks with Some k => Nat.eqb (length k) (length cs) | None => true end) && forallb valid_b cs.
Proof. unfold valid_b. cbn [validb paramcheck]. rewrite (all_fix_forallb' (validb None)). reflexivity. Qed.
