"""C16: buffers, pickle, NumPy and Arrow conversions are lossless.

Implementation side: harness/py_c16.py under /venv/bin/python with pyshim (the REAL /repo/src/awkward Python layer:
operations/convert.py, highlevel.py, partition.py, _util.py; every C++-backed method served by the real libawkward
through pydrv).  Model side: c16/coq (Buffers.v) extracted to .build/c16/bufrun.

Checked per case (implementation only, these decide the property):
  buffers  from_buffers(*to_buffers(a)) with the container as returned / as raw bytes / form as JSON text / form as dict
           (+ lazy=True): same value (ak.to_list), same type string (includes parameters), same parameters per form node,
           same partitioning, result is valid
  pickle   pickle.loads(pickle.dumps(ak.Array | ak.Record)), protocols 2..5: same value, type, partitioning
  numpy    to_numpy(a) == to_list(a) when it succeeds, must succeed on rectilinear numeric (+ option) data;
           from_numpy(to_numpy(a)) has a's value (numeric and string / bytestring leaves);
           from_numpy(x) and ak.Array(x) have the value x.tolist() (python-only reference: the NumPy array printed item by
           item), then to_numpy gives x back (n-d, masked, strided, transposed; numeric, 'U' and 'S' dtypes - every UTF-8 width,
           bytes >= 0x80, embedded / trailing NUL, empty strings, padded and byte-swapped items)
  arrow    to_arrow(a, list_to32, string_to32, allow_tensor): pyarrow's validate(full) passes, to_pylist() == to_list(a),
           from_arrow(.) has a's value and the same type up to Arrow's documented losses
plus the model as a voter (bufrun): container keys and integer contents, form, lengths recomputed by
_form_to_layout (traced), value / type of the round-tripped dump through the extracted to_list / type_of.
"""
import fcntl
import hashlib
import json
import os
import re
import subprocess
import sys
import time

import common as C
import gen as G

THEOREMS = ['to_buffers_keys_preorder',
            'lengths_recomputed_sufficient',
            'from_buffers_type',
            'buffers_roundtrip_partial',
            'buffers_roundtrip_refuted',
            'numpy_roundtrip',
            'from_numpy_value',
            'to_numpy_is_to_list_partial',
            'to_numpy_size0_refuted',
            'arrow_offsets_rebase_spec',
            'arrow_offsets_compact_spec',
            'bytemask_to_bitmap_spec',
            'bitmap_padding_zero',
            'buffers_roundtrip_partial2',
            'buffers_roundtrip_fixed_partial',
            'buffers_roundtrip_gen_partial',
            'frag16_in_fragG',
            'pinned_is_fixed_when_exact',
            'buffers_roundtrip_exact_partial',
            'pinned_is_fixed_when_safe',
            'buffers_roundtrip_safe_partial',
            'buffers_roundtrip_identity',
            'from_buffers_skeleton',
            'from_buffers_parameters',
            'buffers_roundtrip_invalid_result_refuted',
            'buffers_roundtrip_top_level_refuted',
            'buffers_offsets_outside_content_refuted',
            'buffers_offsets_negative_refuted',
            'arrow_validity_bitmap_roundtrip',
            'arrow_validity_bytemask_roundtrip',
            'arrow_validity_bytemask_roundtrip_gen',
            'arrow_bitmap_is_bitmasked_mask',
            'arrow_offsets_window',
            'arrow_sliced_offsets_value',
            'arrow_sliced_content_exact',
            'arrow_compact_offsets_tight',
            'arrow_nullable_is_bytemasked',
            'arrow_option_below_top_preserved',
            'arrow_option_below_top_sliced',
            'arrow_nullable_none',
            'to_numpy_masked_roundtrip',
            'to_numpy_strict_on_masked',
            'to_numpy_is_to_list_partial2',
            'from_numpy_to_numpy_value']
DRIVERS = ('pydrv',)
COQ_DIR = os.path.join(C.VERIF, 'c16', 'coq')
COQ_LOGICAL = '-R %s/coq AwkV -R . AwkBuffers' % C.VERIF
B16 = os.path.join(C.BUILD, 'c16')
PY = '/venv/bin/python'
RUNNER = os.path.join(C.VERIF, 'harness', 'py_c16.py')
ENV_SKIPS = os.path.join(C.VERIF, 'c16', 'env_skips.json')
CORPUS = os.path.join(C.VERIF, 'corpus', 'C16')

RULE = ('value-first random layouts (harness/gen.py: every node class, 32/U32/64-bit indexes, non-zero-based offsets, '
        'ListArray gaps/shuffles, unreachable content, five option encodings, strings/bytestrings, records, tuples, unions; '
        '~10 % of the layouts hold one WIDE record or tuple: 10..13 (sometimes up to 23) fields, named f0.. / shuffled digit names / letters or '
        'unnamed, mostly leaves of different dtypes, at the top or below lists / options / records / tuples / unions, so that field and '
        'slot order is exercised beyond one digit) '
        'post-processed with: extra leaf dtypes (float16, complex64/128, datetime64/timedelta64 with units), n-d NumpyArray '
        'leaves, __record__ names and arbitrary JSON parameters, VirtualArray wrappers (form/length declared or not), '
        'categorical wrappers; x operation buffers (form_key and key_format default/custom/callable, partition_start, '
        'partitions by slicing / ak.partitioned / ak.repartition) | pickle (protocol 2..5, Array or Record) | numpy | numpy2 '
        '(raw n-d ndarray, masked, strided, transposed; 40 % of them NumPy string arrays: dtype U / S, natural or padded width, native or '
        'swapped byte order, text drawn from ASCII, accented Latin, Greek/Cyrillic (2 bytes), euro sign/symbols, CJK/Hangul (3 bytes), '
        'emoji/astral (4 bytes), NUL, lone surrogates, bytes >= 0x80, empty strings; the numpy stream has the same text as string / '
        'bytestring leaves of rectilinear arrays) | arrow (list_to32 x string_to32 x allow_tensor, partitions); '
        'non-trivial = the input value contains a non-empty list/record or a None; distinct by case text')
ASSUMPTIONS = [
    'the Python layer runs under pyshim (Python 3.12, NumPy 2, pyarrow 25): src/python/*.cpp is replaced by pyshim; exceptions '
    'that are only incompatibilities of that environment are env-skips frozen in c16/env_skips.json',
    'floats are integer-valued (plus nan/inf): exact comparison; non-finite values compare by class',
    'Arrow: tuples come back as records with keys "0","1",..; option-ness at top level, regular vs variable lists without tensors, '
    'index widths and unknown types are outside the promise; union-of-option vs option-of-union are identified',
    'to_numpy must succeed only on rectilinear numeric/bool/option data; elsewhere a ValueError is accepted, a wrong value is not',
    'NumPy string arrays (U / S dtype): python-only voter - the reference is the NumPy array itself read item by item (x.tolist(), masked '
    'items = None) against ak.to_list(from_numpy(x)) / ak.to_list(ak.Array(x)) and against to_numpy(from_numpy(x)); the Rocq model of '
    'from_numpy / to_numpy (Buffers.v: numeric n-d arrays) has no notion of strings and bufrun does not vote on the numpy streams; item width '
    'and byte order of U / S dtypes are storage, only the kind must survive; a trailing NUL cannot be held by a NumPy item (it is the padding), '
    'so strings compare modulo trailing NULs where NumPy is on one side only',
    'model voter (bufrun) covers non-partitioned, non-virtual arrays with core dtypes (bool, (u)int8..64, float32/64), __array__ / '
    '__record__ parameters only, all three form_key / key_format styles; the other cases are decided by the implementation-only checks',
    'inputs that run into a registered defect of the pinned tree are kept at ~12 % of their natural rate (risk tags in the evidence)',
    'to_buffers of a partitioned array whose partitions have different Forms raises ValueError: documented refusal, counted, not a finding',
    'pyarrow validate(full=True) failures (dense-union offsets not increasing per child) are recorded in the evidence only',
]
TRUSTED_BASE = [
    'Rocq kernel: coqc 8.16.1; no axioms (parsed from Print Assumptions on this run)',
    'extraction: ExtrOcamlBasic only, Z/positive/nat kept inductive; OCaml 4.13.1; hand-written runner c16/ocaml/bufrun.ml',
    'pyshim (Python substitute for awkward._ext over the real libawkward) and impl/drv/pydrv.cpp',
    'harness/py_c16.py (layout reader/dumper, value printer, tracing wrapper around _form_to_layout), harness/props/c16.py, harness/gen.py',
    'pyarrow 25 (to_pylist / validate as a voter), NumPy 2',
    'model vs code: Buffers.v is a hand-written model of convert.py; tied by differential testing only',
]

TOK = re.compile(r'[()]|[^\s()]+')


def parse(s):
    stack = [[]]
    for t in TOK.findall(s):
        if t == '(':
            stack.append([])
        elif t == ')':
            x = stack.pop()
            stack[-1].append(x)
        else:
            stack[-1].append(t)
    if len(stack) != 1 or len(stack[0]) != 1:
        raise ValueError('sx: ' + s[:100])
    return stack[0][0]


def unparse(x):
    if isinstance(x, (list, tuple)):
        return '(' + ' '.join(unparse(y) for y in x) + ')'
    return str(x)


def fld(items, name):
    for x in items:
        if isinstance(x, list) and x and x[0] == name:
            return x
    return None


def unhx(a):
    return bytes.fromhex(a[1:]).decode('utf-8', 'surrogateescape')


# ====================================================================================== build
def build():
    C.build_impl(False, ('pydrv',))
    os.makedirs(B16, exist_ok=True)
    lock = open(os.path.join(C.BUILD, '.lock-c16'), 'w')
    fcntl.flock(lock, fcntl.LOCK_EX)
    try:
        r = C.sh('cd %s && ([ -f Makefile.coq ] && [ Makefile.coq -nt _CoqProject ] || coq_makefile -f _CoqProject -o Makefile.coq) '
                 '>/dev/null 2>&1 && timeout 1500 make -f Makefile.coq -j8 2>&1 | tail -30' % COQ_DIR)
        if r.returncode != 0 or 'Error' in r.stdout:
            raise C.BuildError('C16 Rocq build failed:\n' + r.stdout[-3000:])
        r = C.sh('timeout 900 make -s -C %s/c16/ocaml VERIF=%s' % (C.VERIF, C.VERIF))
        if r.returncode != 0 or not os.path.exists(os.path.join(B16, 'bufrun')):
            raise C.BuildError('bufrun build failed:\n' + r.stdout[-3000:])
    finally:
        fcntl.flock(lock, fcntl.LOCK_UN)
        lock.close()


# ====================================================================================== generation
EXTRA_FLOAT = ['float16', 'complex64', 'complex128']
UNITS = ['s', 'ms', 'us', 'ns', 'D', 'm', 'Y', '25us']
CORE_DTYPES = set(['bool', 'int8', 'int16', 'int32', 'int64', 'uint8', 'uint16', 'uint32', 'uint64', 'float32', 'float64'])


def is_node(t):
    return isinstance(t, list) and t and isinstance(t[0], str)


def children_idx(t):
    h = t[0]
    return {'lo': [3], 'la': [4], 'reg': [3], 'ix': [3], 'ixo': [3], 'bym': [3], 'bim': [5], 'unm': [1], 'par': [3],
            'parx': [3], 'virt': [3]}.get(h, list(range(4, len(t))) if h == 'un' else list(range(3, len(t))) if h == 'rec' else [])


def post(rng, t, o, under_par=None, top=True):
    """random post-processing of a gen.py layout tree (in place where possible); returns the new tree"""
    h = t[0]
    if h == 'np':
        if under_par in ('char', 'byte'):
            if o.get('ascii'):
                t[3] = [x if x < 128 else 100 + (x % 20) for x in t[3]]
            return t
        dt = t[1]
        if len(t[3]) == 0 and len(t[2]) == 1 and not top and rng.random() < 0.3:
            return ['empty']                      # EmptyArray (unknown type) for a zero-length leaf
        if o.get('dtypes') and dt in ('float64', 'float32') and rng.random() < 0.35:
            nd = rng.choice(EXTRA_FLOAT if not o.get('ascii') else ['float16'])     # Arrow has no complex type
            t[1] = nd
            if nd.startswith('complex'):
                t[3] = [x if not isinstance(x, (int, float)) or x != x or x in (float('inf'), float('-inf')) or rng.random() < 0.5
                        else ['c', x, rng.randint(-3, 3)] for x in t[3]]
        elif o.get('dtypes') and dt in ('int64',) and rng.random() < 0.3:
            kind = rng.choice(['datetime64', 'timedelta64'])
            if o.get('ascii'):      # Arrow stream: units Arrow knows, no NaT, small values
                t[1] = '%s[%s]' % (kind, rng.choice(['s', 'ms', 'us', 'ns']))
                t[3] = [x if abs(x) < 10 ** 6 else x % 1000 for x in t[3]]
            else:
                t[1] = '%s[%s]' % (kind, rng.choice(UNITS))
                t[3] = ['nat' if rng.random() < 0.1 else x for x in t[3]]
        return t
    if h == 'reg' and o.get('nd') and t[3][0] == 'np' and under_par is None and rng.random() < 0.5:
        size, n, leaf = t[1], t[2], t[3]
        sh = leaf[2]
        inner = 1
        for s in sh[1:]:
            inner *= s
        if sh[0] >= size * n and leaf[1] in CORE_DTYPES | set(EXTRA_FLOAT):
            new = ['np', leaf[1], [n, size] + list(sh[1:]), leaf[3][:n * size * inner]]
            return post(rng, new, o, None, top)
    for i in children_idx(t):
        up = t[1] if h == 'par' else None
        t[i] = post(rng, t[i], o, up, False)
    # reg over a freshly made n-d leaf
    if h == 'reg' and o.get('nd') and t[3][0] == 'np' and len(t[3][2]) > 1 and under_par is None and rng.random() < 0.5:
        size, n, leaf = t[1], t[2], t[3]
        sh = leaf[2]
        inner = 1
        for s in sh[1:]:
            inner *= s
        if sh[0] >= size * n:
            t = ['np', leaf[1], [n, size] + list(sh[1:]), leaf[3][:n * size * inner]]
            return t
    if h == 'rec' and o.get('params') and under_par is None and rng.random() < 0.3:
        t = ['par', 'none', rng.choice(['Point', 'P_1', 'vec']), t]
        h = 'par'
    if o.get('params') and h not in ('par', 'parx', 'virt') and under_par is None and rng.random() < 0.06:
        k, v = rng.choice([('units', '"GeV"'), ('n', '[1, 2.5, null, {"a": "b"}]'), ('__doc__', '"x\\u00e9"'), ('flag', 'true')])
        t = ['parx', 'x' + k.encode().hex(), 'x' + v.encode().hex(), t]
    if o.get('virt') and h not in ('par', 'parx') and under_par is None and rng.random() < o['virt']:
        t = ['virt', rng.choice([0, 1]), rng.choice([0, 1]), t]
    return t


def tlen(t):
    """length of a layout tree (gen.child_len extended with the wrappers of this module)"""
    if t[0] in ('parx', 'virt'):
        return tlen(t[3])
    if t[0] == 'par':
        return tlen(t[3])
    if t[0] == 'unm':
        return tlen(t[1])
    if t[0] == 'np':
        return int(t[2][0]) if t[2] else 0
    r = G.child_len(t)
    return int(r) if r is not None else 0


def strip_wrappers(t):
    while t[0] in ('par', 'parx', 'virt'):
        t = t[3]
    return t


def offsets_beyond(t):
    return t[0] == 'lo' and len(set(t[2])) == 1 and int(t[2][0]) > tlen(t[3])


def tree_has(t, heads):
    if not is_node(t):
        return False
    if t[0] in heads:
        return True
    return any(tree_has(t[i], heads) for i in children_idx(t))


def leaf_dtypes(t, out=None):
    out = set() if out is None else out
    if is_node(t):
        if t[0] == 'np':
            out.add(t[1])
        for i in children_idx(t):
            leaf_dtypes(t[i], out)
    return out


def node_classes(t, out=None):
    out = {} if out is None else out
    if is_node(t):
        k = t[0] + ('-' + t[1] if t[0] in ('lo', 'la', 'ix', 'ixo', 'un') else '')
        if t[0] == 'np' and len(t[2]) > 1:
            k = 'np-nd'
        out[k] = out.get(k, 0) + 1
        for i in children_idx(t):
            node_classes(t[i], out)
    return out


def split_lengths(rng, n):
    k = rng.choice([1, 2, 2, 3, 4])
    cuts = sorted(rng.randint(0, n) for _ in range(k - 1))
    cuts = [0] + cuts + [n]
    return [cuts[i + 1] - cuts[i] for i in range(k)]


def nontrivial_value(vals):
    def nt(v):
        if v is None:
            return True
        if isinstance(v, list):
            return len(v) > 0
        if isinstance(v, tuple) and v and v[0] == '$rec':
            return True
        if isinstance(v, tuple) and v and v[0] == '$un':
            return nt(v[2])
        return False
    return any(nt(v) for v in vals) or len(vals) > 1


def rect_type(rng, depth):
    """a rectilinear type for the numpy stream: lists over a numeric/bool (sometimes string / bytestring) leaf, options anywhere"""
    dt = rng.choice(['int64', 'float64', 'int32', 'bool', 'uint8', 'int16', 'float32', 'uint64'])
    t = ('leaf', dt)
    if rng.random() < 0.18:
        t = ('str', rng.random() < 0.7)
    if rng.random() < 0.4:
        t = ('opt', t)
    for _ in range(depth):
        t = ('list', t)
        if rng.random() < 0.15:
            t = ('opt', t)
    return t


def rect_values(rng, t, n, sizes, level=0, used=None):
    """values of a rectilinear type: every list at one level has the same length"""
    prof = [None]

    def one(t, level):
        if t[0] == 'leaf':
            return G.leaf_value(rng, t[1], True)
        if t[0] == 'str':
            if prof[0] is None:
                prof[0] = text_profile(rng) if t[1] else (rng.random() < 0.75, rng.random() < 0.3)
            b = gen_text(rng, prof[0], used).encode('utf-8', 'surrogateescape') if t[1] else gen_bytes(rng, prof[0][0], prof[0][1], used)
            return ('$str', t[1], list(bytearray(b)))
        if t[0] == 'opt':
            return None if rng.random() < 0.25 else one(t[1], level)
        return [one(t[1], level + 1) for _ in range(sizes[level])]
    return [one(t, 0) for _ in range(n)]


# ---- text for NumPy 'U' / 'S' arrays and for string leaves: every UTF-8 width, not only ASCII
CHARSETS = {
    'ascii': u'abcXYZ 019_"\\~',
    'latin': u'\u00e9\u00f6\u00f1\u00fc\u00df\u00c5\u00e7\u00ff',             # 2 bytes in UTF-8 (accented Latin)
    'greek': u'\u03b1\u03b2\u03b3\u03b4\u03a9\u03bb\u0416\u044f',             # 2 bytes (Greek, Cyrillic)
    'euro': u'\u20ac\u2260\u2192',                                          # 3 bytes (euro sign, symbols)
    'cjk': u'\u65e5\u672c\u8a9e\u4e2d\u6587\ud55c',                           # 3 bytes (CJK, Hangul)
    'emoji': u'\U0001F600\U0001F389\U0001D11E\U00020BB7',                   # 4 bytes (outside the BMP)
    'nul': u'\x00',                                                         # embedded / trailing NUL
    'surrogate': u'\udc80\udcff\udce9',                                     # lone surrogates = undecodable bytes (surrogateescape)
}
NONASCII = ['latin', 'greek', 'euro', 'cjk', 'emoji']


def text_profile(rng, ascii_only=False, surrogates=True):
    """the character classes one case draws from"""
    if ascii_only or rng.random() < 0.2:
        cl = ['ascii']
    else:
        cl = ['ascii'] + rng.sample(NONASCII, rng.choice([1, 1, 2, 3, 5]))
    if rng.random() < 0.2:
        cl.append('nul')
    if surrogates and not ascii_only and rng.random() < 0.08:
        cl.append('surrogate')
    return cl


def gen_text(rng, classes, used=None):
    """one str; `used` collects the classes that really occur"""
    n = rng.choice([0, 1, 1, 2, 3, 3, 5, 8])
    out = []
    for _ in range(n):
        k = rng.choice(classes)
        if k == 'nul' and rng.random() < 0.5:
            k = 'ascii'
        out.append(rng.choice(CHARSETS[k]))
        if used is not None:
            used.add(k)
    if used is not None and n == 0:
        used.add('empty')
    if used is not None and out and out[-1] == u'\x00':
        used.add('trailing-nul')
    return u''.join(out)


def gen_bytes(rng, high, nul, used=None):
    n = rng.choice([0, 1, 1, 2, 3, 3, 5, 8])
    out = []
    for _ in range(n):
        r = rng.random()
        if nul and r < 0.12:
            out.append(0)
            used is not None and used.add('nul')
        elif high and r < 0.6:
            out.append(rng.choice([0x80, 0xff, 0xc3, 0xa9, 0xe2, 0x82, 0xac, 0xf0, 0x9f]) if rng.random() < 0.5 else rng.randint(0x80, 0xff))
            used is not None and used.add('high')
        else:
            out.append(rng.choice([97, 98, 65, 32, 48, 92, 34, 126]))
            used is not None and used.add('ascii')
    if used is not None and n == 0:
        used.add('empty')
    if used is not None and out and out[-1] == 0:
        used.add('trailing-nul')
    return bytes(bytearray(out))


def hexatom(b):
    return 'x' + (b.encode('utf-8', 'surrogateescape') if not isinstance(b, bytes) else b).hex()


def gen_string_ndarray(rng, n):
    """(dtype text, data atoms, tags) of a NumPy 'U' or 'S' array with n items"""
    used = set()
    if rng.random() < 0.7:
        kind = 'U'
        cl = text_profile(rng)
        items = [gen_text(rng, cl, used) for _ in range(n)]
        width = max([len(x) for x in items] + [1])
        order = '>' if rng.random() < 0.12 else ''
    else:
        kind = 'S'
        high, nul = rng.random() < 0.75, rng.random() < 0.3
        items = [gen_bytes(rng, high, nul, used) for _ in range(n)]
        width = max([len(x) for x in items] + [1])
        order = ''
    if rng.random() < 0.3:
        dt = '%s%s%d' % (order, kind, width + rng.choice([1, 2, 5]))           # wider items than needed (NUL padding)
        wd = 'padded'
    else:
        dt = order + kind
        wd = 'natural'
    tags = dict(dtype=kind, str_width=wd, str_byteorder='swapped' if order else 'native',
                str_content=('non-ascii' if used & set(NONASCII + ['surrogate', 'high']) else 'ascii-only'))
    for k in used:
        tags['str_' + k] = 1
    return dt, [hexatom(x) for x in items], tags


# ---- wide records / tuples: field and slot ORDER beyond one digit (10 or more fields)
WIDE_LEAVES = ['int64', 'int64', 'float64', 'bool', 'int32', 'uint8', 'float32', 'int16', 'uint64', 'int8']
WIDE_RATE = 0.10


def wide_type(rng, depth):
    """a type holding one record / tuple with 10.. fields, at the top or below lists / options / records / unions.
    returns (type, tags)"""
    k = rng.choice([10, 11, 11, 12, 12, 13, 13, rng.randint(14, 23)])
    istuple = rng.random() < 0.5
    style = rng.choice(['f-number', 'digits-shuffled', 'letters'])
    if style == 'f-number':
        names = ['f%d' % j for j in range(k)]                     # f10 sorts before f2 as text
    elif style == 'digits-shuffled':
        names = [str(j) for j in range(k)]                        # named fields that look like slot numbers, in another order
        rng.shuffle(names)
    else:
        names = rng.sample([a + b for a in 'abcxyz' for b in ['', '1', '_t', 'Z']], k)
    fields = []
    for j in range(k):
        if rng.random() < 0.78:
            ft = ('leaf', rng.choice(WIDE_LEAVES))
        else:
            ft = G.gen_type(rng, max(0, min(depth, 3) - 1))
        fields.append((names[j], ft))
    t = ('rec', fields, istuple)
    where = rng.choice(['top', 'top', 'top', 'list', 'list', 'option', 'list-option', 'list-list', 'field', 'tuple-slot', 'union'])
    if where == 'list':
        t = ('list', t)
    elif where == 'option':
        t = ('opt', t)
    elif where == 'list-option':
        t = ('list', ('opt', t))
    elif where == 'list-list':
        t = ('list', ('list', t))
    elif where == 'field':
        t = ('rec', [('a', ('leaf', 'int64')), ('w', ('list', t) if rng.random() < 0.5 else t)], False)
    elif where == 'tuple-slot':
        t = ('rec', [('0', t), ('1', ('leaf', 'float64'))], True)
    elif where == 'union':
        t = ('union', [('leaf', 'bool'), t])
    tags = dict(wide='%s:%d' % ('tuple' if istuple else 'record', k), wide_at=where)
    if not istuple:
        tags['wide_names'] = style
    return t, tags


def gen_array_of(rng, t, enc_kw=None, n=None):
    """G.gen_array for a given type"""
    n = rng.choice([0, 1, 2, 3, 3, 4, 5]) if n is None else n
    vals = G.rectangularise(rng, t, [G.gen_value(rng, t, 4, True) for _ in range(n)])
    enc = G.Enc(rng, **dict(dict(special=True), **(enc_kw or {})))
    lay = G.encode(enc, t, vals)
    return dict(type=t, vals=vals, layout=lay, stats=enc.stats)


def gen_case1(rng, i, tier):
    r = rng.random()
    op = 'buffers' if r < 0.40 else 'pickle' if r < 0.52 else 'numpy' if r < 0.68 else 'numpy2' if r < 0.80 else 'arrow'
    cid = 'c%d' % i
    opts = []
    tags = dict(op=op)
    if op == 'numpy2':
        strings = rng.random() < 0.4
        dt = rng.choice(['int64', 'float64', 'int32', 'bool', 'uint8', 'int16', 'float32', 'uint16', 'int8', 'uint32', 'uint64',
                         'float16', 'complex64', 'complex128', 'datetime64[s]', 'timedelta64[ms]', 'datetime64[ns]'])
        nd = rng.choice([1, 1, 2, 2, 3])
        shape = [rng.choice([0, 1, 2, 3, 4]) for _ in range(nd)]
        n = 1
        for s in shape:
            n *= s
        if strings:
            dt, data, stags = gen_string_ndarray(rng, n)
            tags.update(stags)
        else:
            base = 'float64' if dt in ('float16', 'complex64', 'complex128') else 'int64' if '[' in dt else dt
            data = [G.leaf_value(rng, base, True) for _ in range(n)]
        if dt.startswith('complex'):
            data = [x if rng.random() < 0.5 or x != x or abs(x) == float('inf') else ['c', x, rng.randint(-3, 3)] for x in data]
        if '[' in dt:
            data = ['nat' if rng.random() < 0.1 else x for x in data]
        m = rng.random()
        if m < 0.35:
            opts.append(['mask', [rng.choice([0, 0, 1]) for _ in range(n)]])
            tags['mask'] = 'array'
        elif m < 0.45:
            opts.append(['mask', 'nomask'])
            tags['mask'] = 'nomask'
        if nd >= 2 and rng.random() < 0.25:
            opts.append(['transpose', 1])
            tags['transpose'] = 1
        if rng.random() < 0.15:
            opts.append(['step', rng.choice([2, -1])])
            tags['step'] = 1
        lay = ['np', dt, shape, data]
        tags.setdefault('dtype', dt)
        tags['ndim'] = nd
        return C.Case(cid, op, [G.sx(opts)], [G.sx(lay)], dict(nontrivial=n > 0, tags=tags, tree=lay, opts=opts))

    special = True
    type_kw = {}
    o = dict(dtypes=rng.random() < 0.5, nd=True, params=rng.random() < 0.5, virt=0.04 if rng.random() < 0.3 else 0)
    wide = rng.random() < WIDE_RATE

    def wide_array(depth, enc_kw=None):
        t, wtags = wide_type(rng, depth)
        tags.update(wtags)
        return gen_array_of(rng, t, enc_kw, n=rng.choice([0, 1, 1, 2, 2, 3, 4]))
    if op == 'numpy':
        if wide:
            a = wide_array(1)
            tags['rect'] = 0
        elif rng.random() < 0.7:
            depth = rng.choice([0, 1, 1, 2, 3])
            t = rect_type(rng, depth)
            n = rng.choice([0, 1, 2, 3, 4])
            sizes = [rng.choice([0, 1, 2, 3]) for _ in range(depth + 1)]
            used = set()
            vals = rect_values(rng, t, n, sizes, used=used)
            if used:
                tags['str_content'] = 'non-ascii' if used & set(NONASCII + ['surrogate', 'high']) else 'ascii-only'
                for k in used:
                    tags['str_' + k] = 1
            tags['zero'] = int(n == 0 or 0 in sizes)
            enc = G.Enc(rng, special=True)
            lay = G.encode(enc, t, vals)
            a = dict(type=t, vals=vals, layout=lay, stats=enc.stats)
            tags['rect'] = 1
        else:
            a = G.gen_array(rng, depth=rng.choice([1, 2, 3]), canonical_too=False)
            tags['rect'] = 0
        o['virt'] = 0
        o['params'] = False
        o['dtypes'] = rng.random() < 0.3
    elif op == 'arrow':
        a = wide_array(rng.choice([1, 2, 3])) if wide else G.gen_array(rng, depth=rng.choice([1, 2, 3, 3]), canonical_too=False)
        o['ascii'] = True
        o['dtypes'] = rng.random() < 0.25
        o['params'] = rng.random() < 0.2
        l32, s32, tensor = rng.choice([0, 1]), rng.choice([0, 1]), rng.choice([0, 1])
        opts += [['l32', l32], ['s32', s32], ['tensor', tensor]]
        tags.update(l32=l32, s32=s32, tensor=tensor)
    elif wide:
        a = wide_array(rng.choice([1, 2, 3]), dict(weird_empty=0.05))
    else:
        a = G.gen_array(rng, depth=rng.choice([1, 2, 3, 3, 4]), canonical_too=False, enc_kw=dict(weird_empty=0.05))
    lay = post(rng, a['layout'], o)
    n = len(a['vals'])
    if op == 'buffers':
        fk, kf = rng.choice(['default'] * 6 + ['custom', 'callable']), rng.choice(['default'] * 6 + ['custom', 'callable'])
        if fk != 'default':
            opts.append(['fk', fk])
        if kf != 'default':
            opts.append(['kf', kf])
        if rng.random() < 0.15:
            opts.append(['pstart', rng.choice([1, 3, 10])])
        if rng.random() < 0.3:
            opts.append(['lazy', 1])
        tags.update(fk=fk, kf=kf)
    if op == 'pickle':
        proto = rng.choice([2, 3, 4, 5])
        opts.append(['proto', proto])
        tags['proto'] = proto
        top = lay
        while top[0] in ('par', 'parx'):
            top = top[3]
        if top[0] == 'rec' and n > 0 and rng.random() < 0.6:
            opts.append(['rec', rng.randrange(n)])
            tags['record'] = 1
    if op in ('buffers', 'pickle', 'arrow', 'numpy') and not any(x[0] == 'rec' for x in opts) and rng.random() < 0.22:
        kind = rng.choice(['parts', 'parts', 'partitioned', 'repart'])
        if kind == 'repart':
            opts.append(['parts'] + split_lengths(rng, n))
            opts.append(['repart'] + ([x for x in split_lengths(rng, n) if x > 0] or [n])) if n > 0 else None
        else:
            opts.append([kind] + split_lengths(rng, n))
        tags['partitioned'] = kind
    tags['extra_dtypes'] = int(bool(leaf_dtypes(lay) - CORE_DTYPES))
    tags['virtual'] = int(tree_has(lay, ('virt',)))
    return C.Case(cid, op, [G.sx(opts)], [G.sx(lay)],
                  dict(nontrivial=nontrivial_value(a['vals']), tags=tags, tree=lay, opts=opts, type=a['type'], n=n))


# features of an input that are known to run into one of the registered defects of the pinned tree: such inputs are kept
# at a low rate (most cases must exercise the healthy paths); all node classes stay covered
def has_empty_buffer(t):
    if not is_node(t):
        return False
    h = t[0]
    if h == 'np' and len(t[3]) == 0:
        return True
    if h in ('la', 'ix', 'ixo', 'un') and len(t[2]) == 0:
        return True
    if h in ('bym', 'bim') and len(t[1]) == 0:
        return True
    return any(has_empty_buffer(t[i]) for i in children_idx(t))


def is_string_ndarray(t):
    return is_node(t) and t[0] == 'np' and bool(re.match(r'^[<>=|]?[US]\d*$', str(t[1])))


def risks(c):
    tree, op, o = c.meta['tree'], c.op, dict((x[0], x[1:]) for x in c.meta['opts'])
    out = []
    if tree_feature(tree, lambda t: t[0] == 'np' and ('datetime64' in t[1] or 'timedelta64' in t[1])):
        out.append('datetime')
    if op == 'buffers' and has_empty_buffer(tree):
        out.append('empty-buffer')
    if op in ('buffers', 'pickle') and tree_feature(tree, offsets_beyond):
        out.append('offsets-beyond-content')
    if op == 'buffers' and 'lazy' in o and tree_feature(tree, lambda t: t[0] == 'rec' and t[2] == 'tuple'):
        out.append('lazy-tuple')
    if op in ('numpy', 'numpy2') and (tree_feature(tree, lambda t: (t[0] == 'np' and 0 in [int(x) for x in t[2]]) or (t[0] == 'reg' and int(t[1]) == 0)
                                                   or (t[0] in ('lo', 'la') and len(t[2]) <= 1 and t[0] == 'la') or (t[0] == 'lo' and len(t[2]) <= 1))):
        out.append('zero-dimension')
    if op == 'numpy' and c.meta['tags'].get('zero') and 'zero-dimension' not in out:
        out.append('zero-dimension')
    if op == 'numpy2' and is_string_ndarray(tree):
        if o.get('mask') == ['nomask'] and len(tree[2]) > 1:
            out.append('string-nd-nomask')
        if 'mask' in o and isinstance(o['mask'][0], list) and o['mask'][0] and all(int(b) != 0 for b in o['mask'][0]):
            out.append('string-all-masked')
        if tree[1].lstrip('<>|=').startswith('S') and 'step' in o:
            out.append('bytestring-strided')
    if op in ('arrow', 'numpy') and tree_feature(tree, lambda t: t[0] == 'rec' and len(t) == 3):
        out.append('record-without-fields')
    if op == 'arrow' and any(k in o for k in ('parts', 'partitioned', 'repart')) and c.meta.get('n', 1) == 0:
        out.append('all-chunks-empty')
    if op == 'arrow' and o.get('tensor', ['0'])[0] in (1, '1') and tree_feature(tree, lambda t: t[0] == 'np' and len(t[2]) > 1):
        out.append('tensor')
    return out


KEEP_RISKY = 0.12


def gen_case(rng, i, tier):
    c = None
    for attempt in range(8):
        c = gen_case1(rng, i, tier)
        rk = risks(c)
        c.meta['tags']['risk'] = ','.join(rk) if rk else 'none'
        if not rk or rng.random() < KEEP_RISKY:
            break
    return c


def corpus_cases():
    out = []
    if not os.path.isdir(CORPUS):
        return out
    for fn in sorted(os.listdir(CORPUS)):
        if not fn.endswith('.case'):
            continue
        out += replay_cases(os.path.join(CORPUS, fn), prefix=fn[:-5] + ':')
    return out


def intify(t):
    """parsed text -> the generator's representation (numbers as ints)"""
    if isinstance(t, list):
        return [intify(x) for x in t]
    if re.match(r'^-?\d+$', t):
        return int(t)
    return t


def replay_cases(path, prefix=''):
    out = []
    for ln in open(path):
        ln = ln.strip()
        if not ln or ln.startswith('#'):
            continue
        t = parse(ln)
        out.append(C.Case(prefix + t[0], t[1], [unparse(t[2])], [unparse(t[3])],
                          dict(nontrivial=True, tags=dict(op=t[1], stream='corpus'), tree=intify(t[3]), opts=intify(t[2]), type=None)))
    return out


def cases(rng, tier):
    n = 1000 if tier == 'quick' else 20000
    out = corpus_cases()
    for i in range(n):
        out.append(gen_case(rng, i, tier))
    return out


# ====================================================================================== running the implementation
def run_py(lines, nproc=None, per_case_timeout=60.0):
    """run py_c16.py on the case lines with a pool of worker processes; returns dict id -> parsed result line (list)
    or ('crash'|'timeout', detail)"""
    nproc = nproc or min(14, max(1, (os.cpu_count() or 4) - 2))
    chunks = [lines[i::nproc] for i in range(nproc)]
    env = dict(os.environ)
    env.update(PYTHONHASHSEED='0', PYTHONDONTWRITEBYTECODE='1', VERIF_ROOT=C.VERIF, PYTHONWARNINGS='ignore')
    results = {}

    def start(chunk):
        p = subprocess.Popen([PY, RUNNER], stdin=subprocess.PIPE, stdout=subprocess.PIPE, stderr=subprocess.PIPE, env=env)
        return p

    import threading

    def work(chunk):
        pos = 0
        while pos < len(chunk):
            sub = chunk[pos:]
            p = start(sub)
            timer_fired = []

            def feed():
                try:
                    p.stdin.write(('\n'.join(sub) + '\n').encode())
                    p.stdin.close()
                except (BrokenPipeError, OSError):
                    pass
            th = threading.Thread(target=feed)
            th.start()
            got = 0
            while got < len(sub):
                timer = threading.Timer(per_case_timeout + (30 if got == 0 else 0), lambda: (timer_fired.append(1), p.kill()))
                timer.start()
                ol = p.stdout.readline()
                timer.cancel()
                if not ol:
                    break
                ol = ol.decode('utf-8', 'replace').strip()
                m = C.LINE_ID.match(ol)
                if not m:
                    continue
                cid = m.group(1)
                want = C.LINE_ID.match(sub[got]).group(1)
                if cid != want:
                    continue
                try:
                    results[cid] = parse(ol)
                except ValueError:
                    results[cid] = [cid, 'bad', ol[:300]]
                got += 1
            th.join()
            err = b''
            try:
                p.kill()
                err = p.stderr.read()[-1500:]
                p.wait()
            except OSError:
                pass
            pos += got
            if pos < len(chunk) and got < len(sub):
                cid = C.LINE_ID.match(chunk[pos]).group(1)
                results[cid] = [cid, 'timeout' if timer_fired else 'crash', err.decode('utf-8', 'replace')]
                pos += 1
    ths = [threading.Thread(target=work, args=(ch,)) for ch in chunks if ch]
    for t in ths:
        t.start()
    for t in ths:
        t.join()
    return results


# ====================================================================================== env skips
def load_env_skips():
    if os.path.exists(ENV_SKIPS):
        return json.load(open(ENV_SKIPS)).get('skips', [])
    return []


def env_skip(skips, stage, exc, msg):
    for s in skips:
        if s.get('stage') not in (None, stage, '*'):
            continue
        if s['exception'] != exc:
            continue
        if re.search(s['pattern'], msg, re.S):
            return s['name']
    return None


# ====================================================================================== comparison helpers
def item_status(it):
    """('ok', fields) | ('err', cls, exc, hash, msg) | ('crash',) | None"""
    if it is None:
        return None
    if it[1] == 'ok':
        return ('ok', it[2:])
    if it[1] == 'err':
        return ('err', it[2], it[3], it[4], unhx(it[5]))
    if it[1] == 'crash':
        return ('crash',)
    return None


def form_params(fj, out):
    """pre-order list of (depth-first) parameters of non-virtual form nodes; class names are not compared here"""
    if isinstance(fj, str):
        out.append({})
        return
    cls = fj.get('class', '')
    if cls == 'VirtualArray':
        if fj.get('form') is None:
            raise KeyError('virtual-without-form')
        form_params(fj['form'], out)
        return
    out.append(dict((k, v) for k, v in (fj.get('parameters') or {}).items() if v is not None))
    if 'content' in fj:
        form_params(fj['content'], out)
    if 'contents' in fj:
        cs = fj['contents']
        for c in (cs.values() if isinstance(cs, dict) else cs):
            form_params(c, out)


def strip_form(fj):
    """form JSON without form_key / has_identities noise, VirtualArray levels removed"""
    if isinstance(fj, str):
        return fj
    if fj.get('class') == 'VirtualArray':
        return strip_form(fj['form'])
    out = {}
    for k, v in fj.items():
        if k in ('form_key', 'has_identities'):
            continue
        if k == 'content':
            out[k] = strip_form(v)
        elif k == 'contents':
            out[k] = dict((kk, strip_form(vv)) for kk, vv in v.items()) if isinstance(v, dict) else [strip_form(x) for x in v]
        else:
            out[k] = v
    return out


def forms_of(f):
    """(form xHEX) or (form (xHEX xHEX ..)) -> list of parsed JSON"""
    v = f[1]
    if isinstance(v, list):
        return [json.loads(unhx(x)) for x in v]
    return [json.loads(unhx(v))]


def get(fields, name):
    x = fld(fields, name)
    return None if x is None else x[1]


def val_text(fields):
    x = fld(fields, 'val')
    return None if x is None else unparse(x[1])


# value / type normalisation for Arrow
def arrow_norm_value(v):
    """tuples -> records keyed by position; python datetimes etc. stay"""
    if isinstance(v, list) and v:
        if v[0] == 't':
            return ['r'] + [[str(i), arrow_norm_value(x)] for i, x in enumerate(v[1:])]
        if v[0] == 'r':
            return ['r'] + [[kv[0], arrow_norm_value(kv[1])] for kv in v[1:]]
        if v[0] == 'l':
            return ['l'] + [arrow_norm_value(x) for x in v[1:]]
    return v


def is_rect(v, t_is_numeric=True):
    """shape of a nested value text tree if rectilinear (None entries allowed anywhere), else None.
    returns tuple of dims or False"""
    def shape(x):
        if isinstance(x, list) and x and x[0] == 'l':
            subs = [shape(y) for y in x[1:] if y != 'none']
            if any(s is False for s in subs):
                return False
            subs = [s for s in subs if s is not None]
            if not subs:
                return (len(x) - 1, None)     # inner shape unknown (all none / empty)
            first = subs[0]
            for s in subs[1:]:
                m = merge(first, s)
                if m is False:
                    return False
                first = m
            return (len(x) - 1, first)
        if isinstance(x, list):
            return False      # records, strings, ...
        if x == 'none':
            return None
        return ()

    def merge(a, b):
        if a is None:
            return b
        if b is None:
            return a
        if a == () or b == ():
            return a if a == b else False
        if a[0] != b[0]:
            return False
        m = merge(a[1], b[1])
        if m is False:
            return False
        return (a[0], m)
    return shape(v)


# ====================================================================================== verdicts
class Verdicts(object):
    def __init__(self):
        self.findings = []
        self.verd = {}
        self.corr = {}
        self.env = {}

    def bump(self, k, n=1):
        self.verd[k] = self.verd.get(k, 0) + n

    def add(self, kind, obl, what, c, lines, sig=None, no_input=False):
        if sig is None and kind in ('viol', 'crash'):
            sig = auto_sig(c, obl, what, lines)
        self.corr[obl] = False
        self.findings.append(dict(kind=kind, what=what, case_lines=lines, signature=sig, no_input=no_input,
                                  size=len(lines[0]) if lines else 0, cid=c.id, obl=obl))


def copt(c, name, default=None):
    """an option of the case, as text"""
    for x in c.meta.get('opts') or []:
        if isinstance(x, (list, tuple)) and x and x[0] == name:
            return str(x[1]) if len(x) > 1 else '1'
    return default


def is_partitioned(c):
    return any(copt(c, k) is not None for k in ('parts', 'partitioned', 'repart'))


def tree_feature(t, pred):
    if not is_node(t):
        return False
    if pred(t):
        return True
    return any(tree_feature(t[i], pred) for i in children_idx(t))


def type_skeleton(fj):
    """the type a form stands for, without parameters (as nested lists)"""
    if isinstance(fj, str):
        return fj
    cls = fj.get('class', '')
    if cls == 'VirtualArray':
        return type_skeleton(fj['form'])
    if cls == 'NumpyArray':
        return [fj.get('primitive')] + list(fj.get('inner_shape') or [])
    if cls == 'EmptyArray':
        return 'unknown'
    if cls.startswith('ListOffsetArray') or cls.startswith('ListArray'):
        return ['var', type_skeleton(fj['content'])]
    if cls == 'RegularArray':
        return [fj['size'], type_skeleton(fj['content'])]
    if cls.startswith('IndexedArray'):
        return type_skeleton(fj['content'])
    if cls.startswith('IndexedOptionArray') or cls in ('ByteMaskedArray', 'BitMaskedArray', 'UnmaskedArray'):
        return ['opt', type_skeleton(fj['content'])]
    if cls.startswith('UnionArray'):
        return ['union'] + [type_skeleton(x) for x in fj['contents']]
    if cls == 'RecordArray':
        cs = fj['contents']
        if isinstance(cs, dict):
            return ['rec', list(cs.keys())] + [type_skeleton(x) for x in cs.values()]
        return ['tuple'] + [type_skeleton(x) for x in cs]
    return ['?', cls]


def drop_parameters(ts):
    """a type string without its `parameters={...}` decorations (and without the brackets they need)"""
    out, i = [], 0
    while i < len(ts):
        m = re.compile(r',? ?parameters=\{').match(ts, i)
        if m:
            depth, j, instr = 1, m.end(), False
            while j < len(ts) and depth:
                ch = ts[j]
                if instr:
                    if ch == '\\':
                        j += 1
                    elif ch == '"':
                        instr = False
                elif ch == '"':
                    instr = True
                elif ch == '{':
                    depth += 1
                elif ch == '}':
                    depth -= 1
                j += 1
            i = j
        else:
            out.append(ts[i])
            i += 1
    return ''.join(out).replace('[', '').replace(']', '').replace(' ', '')


def types_equal_without_parameters(a, b):
    return a != b and drop_parameters(a) == drop_parameters(b)


def alt_is_string(x):
    while x[0] in ('ix', 'parx', 'virt'):
        x = x[3]
    return x[0] == 'par' and x[1] in ('string', 'bytestring')


def auto_sig(c, obl, what, lines):
    """structural signature of a finding (key into known_findings.json): from the operation, the stage / message and
    features of the input layout"""
    tree = c.meta.get('tree')
    text = what + ' ' + ' '.join(lines[1:])
    if tree_feature(tree, lambda t: t[0] == 'np' and ('datetime64' in t[1] or 'timedelta64' in t[1])):
        # mechanisms: Form::fromnumpy has no kinds M/m (to_buffers, pickle); zero-length date-time arrays come out of
        # numpy.asarray(layout) as float64; to_numpy hands back the layout object itself
        if 'cannot convert NumPy dtype with kind' in text:
            return 'buffers-datetime-form' if c.op in ('buffers', 'pickle') else 'datetime-timedelta-support-incomplete'
        if re.search(r'(datetime64|timedelta64)(\[\w+\])?[^>]*-> .*float64', what) or "has no attribute 'dtype'" in text \
                or 'can only concatenate tuple' in text or "has no attribute 'shape'" in text or "has no attribute 'ndim'" in text \
                or ('does not conform to expected form' in text and ('"datetime64"' in text or '"timedelta64"' in text)):
            return 'datetime-timedelta-support-incomplete'
        if tree_feature(tree, lambda t: t[0] == 'np' and ('datetime64' in t[1] or 'timedelta64' in t[1]) and len(t[3]) == 0):
            return 'datetime-timedelta-support-incomplete'
    if "'list' object has no attribute 'values'" in text and '/lazy' in what:
        return 'buffers-lazy-tuple-record'
    if 'the Form of partition' in text and c.op == 'pickle':
        return 'partition-forms-differ-after-packing'
    if 'merge to float16 not implemented' in text:
        return 'float16-merge-not-implemented'
    if c.op == 'pickle' and 'type changed' in what and ' -> ' in what and \
            (c.meta.get('skel_equal') or types_equal_without_parameters(*what.split('round trip: ', 1)[1].split(' -> ', 1))) and \
            what.split(' -> ')[0].count('parameters=') > 0:
        return 'packed-loses-parameters'
    if c.op == 'pickle' and 'type changed' in what and ' -> ' in what and 'union[' in what.split(' -> ')[0] and \
            what.split(' -> ')[0].count(',') > what.split(' -> ')[1].count(',') and what.split(' -> ')[0].count('union[') >= what.split(' -> ')[1].count('union['):
        return 'packed-simplifies-union'
    if 'generated array does not have the declared length' in text and '/lazy' in what:
        return 'buffers-lazy-declared-length'
    if c.op in ('buffers', 'pickle') and tree_feature(tree, offsets_beyond) and (
            'buffer is too short for NumpyArray' in text or 'EmptyArray found in node with non-zero expected length' in text
            or re.search(r'too short for \w+: expected', text)):
        return 'buffers-empty-lists-offsets-beyond-content'
    if c.op in ('buffers', 'pickle'):
        if 'must not be shorter than' in text or 'is not valid (ak.is_valid)' in text or 'length mismatch' in text:
            return 'buffers-trimmed-content-under-untrimmed-parent'
        if c.meta.get('empty_buffer') and re.search(r'buffers/(bytes|json)', what):
            return 'buffers-bytes-empty-buffer'
    if c.op == 'numpy2' and is_string_ndarray(tree):
        shape = [int(x) for x in tree[2]]
        if "'ListArray64' object has no attribute 'size'" in text and copt(c, 'mask') == 'nomask' and len(shape) > 1:
            return 'from_numpy-string-nd-unmasked'
        if 'the last axis must be contiguous' in text and tree[1].lstrip('<>|=').startswith('S') and copt(c, 'step') is not None:
            return 'from_numpy-bytestring-not-contiguous'
        if c.meta.get('nothing_to_see') and 'dtype/shape changed' in what and re.search(r'[<>|]?[US]\d+ \([\d ]*\) -> float64 ', what):
            return 'to_numpy-no-string-to-see-float64'        # zero items, or every item masked
        if len(shape) >= 3 and 0 in shape[2:] and re.search(r'numpy2/(from_nd|ctor): .* has another value than x', what):
            return 'from_numpy-string-nd-zero-dimension-length'
    if c.op == 'numpy' and "'ListArray64' object has no attribute 'size'" in text and re.search(r'numpy/back_m_(nd|reg) raised', what) and \
            tree_feature(tree, lambda t: t[0] == 'par' and t[1] in ('string', 'bytestring')):
        return 'from_numpy-string-nd-unmasked'       # to_numpy(allow_missing=True) of n-d strings without None: a MaskedArray with nomask
    if c.op == 'numpy' and 'to_numpy(a) differs from to_list(a)' in what and re.search(r'# to_numpy: .*\((s|b)[ )]', text) and tree_feature(
            tree, lambda t: t[0] == 'un' and any(alt_is_string(x) for x in t[4:]) and not all(alt_is_string(x) for x in t[4:])):
        return 'to_numpy-union-number-string-promotion'
    if c.op in ('numpy', 'numpy2'):
        if tree_feature(tree, lambda t: t[0] == 'rec' and len(t) == 3):
            return 'numpy-record-without-fields'
        if 'cannot reshape array of size 0' in text:
            return 'from_numpy-regulararray-empty-reshape'
        if 'subarray lengths are not regular' in text or ("cannot convert 'None' values" in text and 'refused rectilinear' in what):
            return 'to_numpy-looks-at-unreachable-content'
        zero_shape = re.search(r'shape \((\d+ )*0( \d+)*\)', text) or re.search(r'shapes? \(([\d,]*,)?0[,)]', text)
        collapsed = any(re.search(r':\s+\(l\)$', l.rstrip()) for l in lines[1:])
        if (c.meta.get('zero_dim') or '(l)' in text) and (zero_shape or collapsed or (('differs from' in what or 'another value' in what) and '(l)' in ' '.join(lines[1:]))):
            return 'numpy-zero-length-dimension'
        if 'to_numpy(a) differs from to_list(a)' in what and tree_feature(tree, lambda t: t[0] == 'rec' and any(
                strip_wrappers(x)[0] in ('ixo', 'bym', 'bim') for x in t[3:])):
            return 'to_numpy-record-drops-field-masks'
        if 'differs from to_list' in what and tree_feature(tree, lambda t: t[0] == 'rec' and any(
                tlen(x) > int(t[1]) for x in t[3:])):
            return 'to_numpy-record-uses-field-length'
    if 'does not conform to expected form' in text and 'BitMaskedArray' in text and 'ByteMaskedArray' in text and \
            tree_feature(tree, lambda t: t[0] == 'virt'):
        return 'virtual-lazy-slice-bitmasked-form-mismatch'        # C18's finding, met here when a partition slices a VirtualArray
    if 'VirtualForm cannot determine its type without an expected Form' in text:
        return 'virtual-without-form'
    if c.op == 'arrow':
        if tree_feature(tree, lambda t: t[0] in ('ixo', 'bym', 'bim') and t[children_idx(t)[0]][0] == 'virt') and ('differs from' in what or 'another value' in what):
            return 'arrow-virtual-drops-mask'
        if 'is not valid' in what and tree_feature(tree, lambda t: t[0] == 'empty') and \
                tree_feature(tree, lambda t: t[0] in ('unm', 'ixo', 'bym', 'bim')):
            return 'arrow-null-type-nested-option'
        if 'cannot reshape array of size 0' in text and tree_feature(tree, lambda t: t[0] == 'np' and len(t[2]) > 1 and 0 in [int(x) for x in t[2]]):
            return 'from_numpy-regulararray-empty-reshape'
        if 'is out of bounds for axis 0 with size' in text and 'toarrow' in what and \
                tree_feature(tree, lambda t: t[0] == 'un') and tree_feature(tree, lambda t: t[0] in ('ixo', 'bym', 'bim')):
            return 'arrow-validity-bitmap-shorter-than-content'
        if 'mask must not be shorter than its ceil' in text and tree_feature(
                tree, lambda t: t[0] == 'ixo' and tlen(t[3]) == 0 and all(int(i) < 0 for i in t[2])):
            return 'arrow-empty-option-content-cast'
        if 'Unsupported cast to' in text and 'from null' in text:
            return 'arrow-empty-option-content-cast'
        if 'min() iterable argument is empty' in text:
            return 'arrow-record-without-fields'
        if 'pyarrow.lib.Tensor' in text or ('cls Tensor' in what and copt(c, 'tensor', '1') == '1'
                                            and tree_feature(tree, lambda t: t[0] == 'np' and len(t[2]) > 1)):
            return 'arrow-tensor-not-an-array'
        if is_partitioned(c) and 'has another value' in what and tree_feature(tree, lambda t: t[0] == 'un'):
            return 'arrow-chunked-union-merges-bool'
        if 'need at least one array to concatenate' in text:
            return 'arrow-all-chunks-empty'
        if 'boolean index did not match' in text:
            return 'arrow-union-index-longer-than-tags'
        if 'Array chunks must all be same type' in text:
            return 'arrow-partition-types-differ'
        if 'too small in array of type' in text or ('mask must not be shorter than its ceil' in text and tree_feature(tree, lambda t: t[0] == 'un')):
            return 'arrow-validity-bitmap-shorter-than-content'
        if 'has another value than a' in what and tree_feature(tree, lambda t: t[0] == 'un' and any(
                strip_wrappers(x)[0] in ('ixo', 'bym', 'bim', 'unm') for x in t[4:])):
            return 'arrow-union-child-nullability'
    return None


def case_line(c):
    return '(%s %s %s %s)' % (c.id, c.op, c.args[0], c.layouts[0])


def short(s, n=700):
    return s if len(s) <= n else s[:n] + '...'


def check_stage(V, c, skips, stage, it, obl, must=True):
    """common handling of one result item. returns fields when ok, else None (finding recorded if must)"""
    st = item_status(it)
    if st is None:
        if must:
            V.add('bad', 'harness', 'stage %s missing in the implementation output' % stage, c, [case_line(c)], no_input=True)
        return None
    if st[0] == 'err' and st[2] == 'DriverProtocolError':
        V.env['pyshim: DriverProtocolError'] = V.env.get('pyshim: DriverProtocolError', 0) + 1      # a pyshim defect, not the library
        V.bump('pyshim-error')
        return None
    if st[0] == 'ok':
        return st[1]
    if st[0] == 'crash':
        V.add('crash', obl, '%s/%s: the C++ driver crashed' % (c.op, stage), c, [case_line(c)], sig='crash-' + stage)
        return None
    _, cls, exc, h, msg = st
    sk = env_skip(skips, stage, exc, msg)
    if sk:
        V.env[sk] = V.env.get(sk, 0) + 1
        V.bump('env-skip')
        return None
    if must:
        V.add('viol', obl, '%s/%s raised %s: %s' % (c.op, stage, exc, short(msg.split('\n')[0], 300)), c,
              [case_line(c), '# stage %s: %s' % (stage, short(msg.replace('\n', ' | '), 4000))])
    return None


def input_stage(V, c, skips, items):
    """the description of the input; an input that cannot be built / described is not a verdict (counted)"""
    st = item_status(fld(items, 'in'))
    if st is not None and st[0] == 'err':
        k = 'input-refused: ' + short(st[4].split('\n')[0], 90)
        V.env[k] = V.env.get(k, 0) + 1
        V.bump('input-refused')
        return None
    return check_stage(V, c, skips, 'in', fld(items, 'in'), 'harness')


def compare_roundtrip(V, c, stage, inf, rtf, obl, check_form_params=True, what='round trip'):
    """inf / rtf: field lists of the input and of the reconstituted array"""
    ok = True
    lines = [case_line(c)]
    iv, rv = val_text(inf), val_text(rtf)
    if iv != rv:
        V.add('viol', obl, '%s/%s: value changed in the %s' % (c.op, stage, what), c,
              lines + ['# in:  ' + short(iv or '?'), '# out: ' + short(rv or '?')], sig=sig_value(c, stage))
        return False
    it, rt = get(inf, 'type'), get(rtf, 'type')
    if norm_type(unhx(it)) != norm_type(unhx(rt)):
        try:
            c.meta['skel_equal'] = [type_skeleton(f) for f in forms_of(fld(inf, 'form'))][:1] == \
                [type_skeleton(f) for f in forms_of(fld(rtf, 'form'))][:1]
        except (ValueError, KeyError, TypeError):
            c.meta['skel_equal'] = False
        V.add('viol', obl, '%s/%s: type changed in the %s: %s -> %s' % (c.op, stage, what, unhx(it), unhx(rt)), c, lines,
              sig=sig_type(c, stage, unhx(it), unhx(rt)))
        ok = False
    il, rl = fld(inf, 'len'), fld(rtf, 'len')
    if il is not None and rl is not None and il[1] != rl[1]:
        V.add('viol', obl, '%s/%s: partitioning changed in the %s: %s -> %s' % (c.op, stage, what, unparse(il[1]), unparse(rl[1])),
              c, lines, sig=sig_part(c, stage))
        ok = False
    if check_form_params:
        try:
            fi, fr = forms_of(fld(inf, 'form')), forms_of(fld(rtf, 'form'))
            pi, pr = [], []
            for f in fi[:1]:
                form_params(f, pi)
            for f in fr[:1]:
                form_params(f, pr)
            if pi != pr:
                V.add('viol', obl, '%s/%s: node parameters changed in the %s' % (c.op, stage, what), c,
                      lines + ['# in:  ' + short(json.dumps(pi)), '# out: ' + short(json.dumps(pr))], sig=None)
                ok = False
        except (ValueError, KeyError, TypeError) as e:
            if 'virtual-without-form' not in str(e):      # (the type string comparison above covers the parameters)
                V.add('bad', 'harness', 'form JSON not readable: %r' % e, c, lines, no_input=True)
                ok = False
    vd = fld(rtf, 'valid')
    if vd is not None and (len(vd) < 2 or vd[1] != '1'):
        V.add('viol', obl, '%s/%s: the reconstituted array is not valid (ak.is_valid)' % (c.op, stage), c,
              lines + ['# dump: ' + short(unparse(get(rtf, 'dump') or '?'))], sig='buffers-trimmed-content-under-untrimmed-parent')
        ok = False
    return ok


def norm_type(ts):
    """type strings print JSON parameters with or without blanks / \\u escapes depending on who printed them"""
    ts = re.sub(r'\\u([0-9a-fA-F]{4})', lambda m: chr(int(m.group(1), 16)), ts)
    return ts.replace(' ', '')


def sig_value(c, stage):
    return None


def sig_type(c, stage, a, b):
    return None


def sig_part(c, stage):
    return None


def check_buffers(V, c, res, skips):
    items = res[2:]
    obl = 'impl:buffers-roundtrip'
    V.corr.setdefault(obl, True)
    inf = input_stage(V, c, skips, items)
    if inf is None:
        return 'skip'
    if get(inf, 'valid') != '1':
        V.bump('skip-invalid-input')
        return 'skip'
    tbs = item_status(fld(items, 'tobuf'))
    if tbs is not None and tbs[0] == 'err' and tbs[1] == 'value' and 'the Form of partition' in tbs[4] and is_partitioned(c):
        V.bump('expected-refusal:partition-forms-differ')      # documented: all partitions must have one Form
        return 'skip'
    tb = check_stage(V, c, skips, 'tobuf', fld(items, 'tobuf'), obl)
    if tb is None:
        return 'fail'
    good = True
    wants_lazy = any(x[0] == 'lazy' for x in c.meta['opts'])
    for stage in ('arr', 'bytes', 'json', 'dict') + (('lazy',) if wants_lazy else ()):
        o2 = obl if stage != 'lazy' else 'impl:buffers-roundtrip-lazy'
        V.corr.setdefault(o2, True)
        rt = check_stage(V, c, skips, stage, fld(items, stage), o2)
        if rt is None:
            good = False
            continue
        if not compare_roundtrip(V, c, stage, inf, rt, o2):
            good = False
    return 'agree' if good else 'fail'


def check_pickle(V, c, res, skips):
    items = res[2:]
    obl = 'impl:pickle-roundtrip'
    V.corr.setdefault(obl, True)
    inf = input_stage(V, c, skips, items)
    if inf is None:
        return 'skip'
    if fld(inf, 'valid') is not None and get(inf, 'valid') != '1':
        V.bump('skip-invalid-input')
        return 'skip'
    rt = check_stage(V, c, skips, 'rt', fld(items, 'rt'), obl)
    if rt is None:
        return 'fail'
    return 'agree' if compare_roundtrip(V, c, 'rt', inf, rt, obl, check_form_params=False, what='pickle round trip') else 'fail'


def np_equiv(a, b, boolnum=False):
    """equality of a to_list value and a NumPy value, modulo what NumPy cannot express: masks are per element (a missing
    row = a row whose elements are all masked, vacuously so when it has none); with unions bool is promoted to numbers"""
    def leaves_all_none(x):
        if isinstance(x, list) and x and x[0] == 'l':
            return all(leaves_all_none(y) for y in x[1:])
        return x == 'none'
    if isinstance(a, list) and a and a[0] in ('s', 'b') and isinstance(b, list) and b and b[0] == a[0]:
        a, b = list(a), list(b)          # NumPy's fixed-width 'U' / 'S' items cannot end in NUL (it is their padding)
        while len(a) > 1 and a[-1] == '0':
            a.pop()
        while len(b) > 1 and b[-1] == '0':
            b.pop()
        return a == b
    if isinstance(a, list) and a and a[0] == 't':          # NumPy has no tuples: structured arrays with fields "0", "1", ..
        a = arrow_norm_value(a)
    if isinstance(b, list) and b and b[0] == 't':
        b = arrow_norm_value(b)
    if isinstance(a, list) and a and a[0] == 'l' and isinstance(b, list) and b and b[0] == 'l':
        return len(a) == len(b) and all(np_equiv(x, y, boolnum) for x, y in zip(a[1:], b[1:]))
    if a == 'none' and isinstance(b, list) and b and b[0] == 'l':
        return leaves_all_none(b)
    if b == 'none' and isinstance(a, list) and a and a[0] == 'l':
        return leaves_all_none(a)
    if isinstance(a, list) and isinstance(b, list):
        return len(a) == len(b) and all(np_equiv(x, y, boolnum) for x, y in zip(a, b))
    if boolnum and not isinstance(a, list) and not isinstance(b, list):
        m = {'true': '1', 'false': '0'}
        return m.get(a, a) == m.get(b, b)
    return a == b


NUMERIC_LEAF = re.compile(r'^(bool|u?int(8|16|32|64)|float(16|32|64)|complex(64|128))$')


STRING_LEAF = re.compile(r'^(string|bytes)$')


def type_is_rect_numeric(ts, leaf=NUMERIC_LEAF):
    """type string made only of N *, var *, ?, option[...] and a numeric leaf (or a leaf of the kind given)"""
    s = ts
    s = re.sub(r'^\d+ \* ', '', s)
    while True:
        m = re.match(r'^(\?|var \* |\d+ \* )', s)
        if m:
            s = s[m.end():]
            continue
        m = re.match(r'^option\[(.*)\]$', s)
        if m:
            s = m.group(1)
            continue
        break
    return bool(leaf.match(s))


def check_numpy(V, c, res, skips):
    items = res[2:]
    obl = 'impl:to_numpy==to_list'
    obl2 = 'impl:from_numpy(to_numpy)'
    V.corr.setdefault(obl, True)
    V.corr.setdefault(obl2, True)
    inf = input_stage(V, c, skips, items)
    if inf is None:
        return 'skip'
    if get(inf, 'valid') != '1':
        V.bump('skip-invalid-input')
        return 'skip'
    iv = fld(inf, 'val')[1]
    ivt = unparse(iv)
    ts = unhx(get(inf, 'type'))
    rect = is_rect(iv)
    has_none = 'none' in ivt.replace('(', ' ').replace(')', ' ').split()
    must_ok = rect is not False and type_is_rect_numeric(ts) and not is_partitioned(c)
    back_domain = type_is_rect_numeric(ts) or type_is_rect_numeric(ts, STRING_LEAF)   # "rectilinear and masked data": records are outside
    good = True
    any_ok = False
    for nm, am in (('tonp_m', True), ('tonp', False)):
        it = fld(items, nm)
        st = item_status(it)
        if st is None:
            V.add('bad', 'harness', 'stage %s missing' % nm, c, [case_line(c)], no_input=True)
            continue
        if st[0] == 'err':
            _, cls, exc, h, msg = st
            sk = env_skip(skips, nm, exc, msg)
            if sk:
                V.env[sk] = V.env.get(sk, 0) + 1
                V.bump('env-skip')
                continue
            expected_refusal = (not am and has_none)
            if must_ok and not expected_refusal:
                V.add('viol', obl, 'numpy/%s: to_numpy refused rectilinear data (%s): %s: %s' % (nm, ts, exc, short(msg.split('\n')[0], 200)),
                      c, [case_line(c), '# value: ' + short(ivt)], sig=sig_numpy(c, ts, ivt, 'refused'))
                good = False
            elif cls not in ('value',) and not (exc in ('TypeError',)):
                V.add('viol', obl, 'numpy/%s: to_numpy failed with %s (not a ValueError): %s' % (nm, exc, short(msg.split('\n')[0], 200)),
                      c, [case_line(c)], sig=sig_numpy(c, ts, ivt, 'exception'))
                good = False
            else:
                V.bump('numpy-refused')
            continue
        if st[0] == 'crash':
            V.add('crash', obl, 'numpy/%s: driver crashed' % nm, c, [case_line(c)], sig='crash-numpy')
            good = False
            continue
        f = st[1]
        any_ok = True
        nv = val_text(f)
        if not np_equiv(iv, fld(f, 'val')[1], 'union' in ts):
            V.add('viol', obl, 'numpy/%s: to_numpy(a) differs from to_list(a)' % nm, c,
                  [case_line(c), '# to_list:  ' + short(ivt), '# to_numpy: ' + short(nv or '?'),
                   '# shape ' + unparse(fld(f, 'shape')[1]) + ' type ' + ts], sig=sig_numpy(c, ts, ivt, 'value'))
            good = False
            continue
        # and back
        if not back_domain:
            continue
        for back in ('back_%s_nd' % ('m' if am else 'n'), 'back_%s_reg' % ('m' if am else 'n')):
            bi = fld(it[2:], back) if False else fld(items, back)
            bf = check_stage(V, c, skips, back, bi, obl2)
            if bf is None:
                good = False
                continue
            if not np_equiv(iv, fld(bf, 'val')[1]):
                V.add('viol', obl2, 'numpy/%s: from_numpy(to_numpy(a)) differs from a' % back, c,
                      [case_line(c), '# a:    ' + short(ivt), '# back: ' + short(val_text(bf) or '?')], sig=sig_numpy(c, ts, ivt, 'back'))
                good = False
            ag = fld(bf, 'again')
            if ag is not None and unparse(ag[1]) != nv:
                V.add('viol', obl2, 'numpy/%s: to_numpy(from_numpy(x)) differs from x' % back, c,
                      [case_line(c), '# x:     ' + short(nv), '# again: ' + short(unparse(ag[1]))], sig=sig_numpy(c, ts, ivt, 'again'))
                good = False
    if any_ok:
        V.bump('numpy-converted')
    return 'agree' if good else 'fail'


def sig_numpy(c, ts, ivt, kind):
    return None


def np_dtype_class(ds):
    """what must survive of a dtype: all of it, except for 'U' / 'S' where the item width and the byte order are storage
    (to_numpy sizes the items by the longest string), not value"""
    m = re.match(r'^[<>=|]?([US])\d*$', ds)
    return m.group(1) if m else ds


def check_numpy2(V, c, res, skips):
    items = res[2:]
    obl = 'impl:to_numpy(from_numpy)'
    V.corr.setdefault(obl, True)
    inf = input_stage(V, c, skips, items)
    if inf is None:
        return 'skip'
    ivt = val_text(inf)
    c.meta['nothing_to_see'] = not [w for w in ivt.replace('(', ' ').replace(')', ' ').split() if w not in ('l', 'none')]
    masked = get(inf, 'masked') == '1'
    has_none = 'none' in ivt.replace('(', ' ').replace(')', ' ').split()
    good = True
    # the ak.Array constructor takes an ndarray through from_numpy: same value, valid
    ct = check_stage(V, c, skips, 'ctor', fld(items, 'ctor'), obl)
    if ct is not None:
        if val_text(ct) != ivt:
            V.add('viol', obl, 'numpy2/ctor: ak.Array(x) has another value than x', c,
                  [case_line(c), '# x:  ' + short(ivt), '# ak: ' + short(val_text(ct) or '?')], sig=None)
            good = False
        elif get(ct, 'valid') != '1':
            V.add('viol', obl, 'numpy2/ctor: ak.Array(x) is not valid', c, [case_line(c)], sig=None)
            good = False
    else:
        good = False
    for ra in ('nd', 'reg'):
        st = 'from_' + ra
        f = check_stage(V, c, skips, st, fld(items, st), obl)
        if f is None:
            good = False
            continue
        if val_text(f) != ivt:
            V.add('viol', obl, 'numpy2/%s: from_numpy(x) has another value than x' % st, c,
                  [case_line(c), '# x:  ' + short(ivt), '# ak: ' + short(val_text(f) or '?')], sig=None)
            good = False
        if get(f, 'valid') != '1':
            V.add('viol', obl, 'numpy2/%s: from_numpy(x) is not valid' % st, c, [case_line(c)], sig=None)
            good = False
        for am in ('m', 'n'):
            st2 = 'to_%s_%s' % (ra, am)
            it = fld(items, st2)
            s2 = item_status(it)
            if s2 is not None and s2[0] == 'err' and am == 'n' and has_none and s2[1] == 'value':
                continue
            g = check_stage(V, c, skips, st2, it, obl)
            if g is None:
                good = False
                continue
            if val_text(g) != ivt:
                V.add('viol', obl, 'numpy2/%s: to_numpy(from_numpy(x)) differs from x' % st2, c,
                      [case_line(c), '# x:    ' + short(ivt), '# back: ' + short(val_text(g) or '?')], sig=None)
                good = False
            elif np_dtype_class(unhx(get(g, 'dtype'))) != np_dtype_class(unhx(get(inf, 'dtype'))) or \
                    unparse(fld(g, 'shape')[1]) != unparse(fld(inf, 'shape')[1]):
                # empty arrays lose inner dimensions only if the value is the same; dtype must survive
                V.add('viol', obl, 'numpy2/%s: dtype/shape changed: %s %s -> %s %s' % (
                    st2, unhx(get(inf, 'dtype')), unparse(fld(inf, 'shape')[1]), unhx(get(g, 'dtype')), unparse(fld(g, 'shape')[1])),
                    c, [case_line(c)], sig=None)
                good = False
    return 'agree' if good else 'fail'


def arrow_type_norm(ts):
    """normalise a type string for the Arrow comparison: drop the outer length and top-level option-ness"""
    s = re.sub(r'^\d+ \* ', '', ts)
    s = re.sub(r'^\?', '', s)
    m = re.match(r'^option\[(.*)\]$', s)
    if m:
        s = m.group(1)
    return s


def check_arrow(V, c, res, skips):
    items = res[2:]
    obl = 'impl:arrow-to_pylist==to_list'
    obl2 = 'impl:from_arrow(to_arrow)'
    V.corr.setdefault(obl, True)
    V.corr.setdefault(obl2, True)
    inf = input_stage(V, c, skips, items)
    if inf is None:
        return 'skip'
    if get(inf, 'valid') != '1':
        V.bump('skip-invalid-input')
        return 'skip'
    ta = check_stage(V, c, skips, 'toarrow', fld(items, 'toarrow'), obl)
    if ta is None:
        return 'fail'
    good = True
    iv = fld(inf, 'val')[1]
    ivn = unparse(arrow_norm_value(iv))
    av = item_status(fld(items, 'avalid'))
    if av is not None and av[0] == 'err':
        # pyarrow's own validate(full=True) is stricter than the property (e.g. dense-union offsets must increase per child):
        # recorded in the evidence, not a verdict
        k = re.sub(r'\d+', 'N', av[4].split('Invalid:')[-1].strip())[:80]
        V.env['arrow-validate: ' + k] = V.env.get('arrow-validate: ' + k, 0) + 1
    pl = check_stage(V, c, skips, 'pylist', fld(items, 'pylist'), obl)
    if pl is None:
        good = False
    else:
        pv = unparse(arrow_norm_value(fld(pl, 'val')[1]))
        if pv != ivn:
            V.add('viol', obl, 'arrow: pyarrow to_pylist of to_arrow(a) differs from to_list(a) [%s; cls %s]' % (unhx(get(ta, 'atype')), get(ta, 'cls')), c,
                  [case_line(c), '# to_list:   ' + short(ivn), '# to_pylist: ' + short(pv)], sig=None)
            good = False
    bk = check_stage(V, c, skips, 'back', fld(items, 'back'), obl2)
    if bk is None:
        good = False
    else:
        bv = unparse(arrow_norm_value(fld(bk, 'val')[1]))
        if bv != ivn:
            V.add('viol', obl2, 'arrow: from_arrow(to_arrow(a)) has another value than a [%s; cls %s]' % (unhx(get(ta, 'atype')), get(ta, 'cls')), c,
                  [case_line(c), '# a:    ' + short(ivn), '# back: ' + short(bv)], sig=None)
            good = False
        if get(bk, 'valid') != '1':
            V.add('viol', obl2, 'arrow: from_arrow(to_arrow(a)) is not valid', c, [case_line(c)], sig=None)
            good = False
    return 'agree' if good else 'fail'


# ====================================================================================== the model as a voter
IDX_NAME = {'i8': 'i8', 'u8': 'u8', 'i32': 'i32', 'u32': 'u32', 'i64': 'i64'}


class NotModelled(Exception):
    pass


FK_RE = {'default': r'node(\d+)', 'custom': r'N(\d+)', 'callable': r'k(\d+)[LE]'}
KF_RE = {'default': r'^part(?P<p>\d+)-(?P<fk>%s)-(?P<a>\w+)$', 'custom': r'^(?P<a>\w+)/(?P<fk>%s)/(?P<p>\d+)$',
         'callable': r'^(?P<p>\d+):(?P<a>\w+):(?P<fk>%s)$'}
FK_KIND = ['default']      # form_key style of the case being translated


def fk_num(fk):
    m = re.match('^' + FK_RE[FK_KIND[0]] + '$', fk or '')
    if not m:
        raise NotModelled('form_key')
    return m.group(1)


def form_sx(fj):
    """form JSON (verbose) -> FORMSX of bufrun"""
    cls = fj['class']
    ps = dict((k, v) for k, v in (fj.get('parameters') or {}).items() if v is not None)
    arr, rec = ps.pop('__array__', None), ps.pop('__record__', None)
    if ps or not all(x is None or (isinstance(x, str) and re.match(r'^[A-Za-z_][A-Za-z0-9_]*$', x)) for x in (arr, rec)):
        raise NotModelled('parameters')
    if arr is not None and arr not in ('string', 'bytestring', 'char', 'byte', 'categorical'):
        raise NotModelled('parameters')
    fk = fk_num(fj.get('form_key'))
    if cls == 'NumpyArray':
        if fj['primitive'] not in CORE_DTYPES:
            raise NotModelled('dtype')
        out = '(fnp %s (%s) %s)' % (fj['primitive'], ' '.join(str(x) for x in fj['inner_shape']), fk)
    elif cls == 'EmptyArray':
        out = '(fempty %s)' % fk
    elif cls.startswith('ListOffsetArray'):
        out = '(flo %s %s %s)' % (fj['offsets'], form_sx(fj['content']), fk)
    elif cls.startswith('ListArray'):
        out = '(fla %s %s %s)' % (fj['starts'], form_sx(fj['content']), fk)
    elif cls == 'RegularArray':
        out = '(freg %s %d %s)' % (form_sx(fj['content']), fj['size'], fk)
    elif cls.startswith('IndexedArray'):
        out = '(fix %s %s %s)' % (fj['index'], form_sx(fj['content']), fk)
    elif cls.startswith('IndexedOptionArray'):
        out = '(fixo %s %s %s)' % (fj['index'], form_sx(fj['content']), fk)
    elif cls == 'ByteMaskedArray':
        out = '(fbym %s %d %s)' % (form_sx(fj['content']), 1 if fj['valid_when'] else 0, fk)
    elif cls == 'BitMaskedArray':
        out = '(fbim %s %d %d %s)' % (form_sx(fj['content']), 1 if fj['valid_when'] else 0, 1 if fj['lsb_order'] else 0, fk)
    elif cls == 'UnmaskedArray':
        out = '(funm %s %s)' % (form_sx(fj['content']), fk)
    elif cls.startswith('UnionArray'):
        out = '(fun %s %s %s)' % (fj['index'], fk, ' '.join(form_sx(x) for x in fj['contents']))
    elif cls == 'RecordArray':
        cs = fj['contents']
        if isinstance(cs, dict):
            out = ('(frec %s (%s) %s)' % (fk, ' '.join(cs.keys()), ' '.join(form_sx(x) for x in cs.values()))).replace(' )', ')')
        else:
            out = ('(frec %s tuple %s)' % (fk, ' '.join(form_sx(x) for x in cs))).replace(' )', ')')
    else:
        raise NotModelled(cls)
    if arr is not None or rec is not None:
        out = '(fpar %s %s %s)' % (arr or 'none', rec or 'none', out)
    return out


def model_line(c, r):
    """bufrun input line for a buffers case, or raises NotModelled"""
    o = dict((x[0], x[1:]) for x in c.meta['opts'])
    if any(k in o for k in ('parts', 'partitioned', 'repart')):
        raise NotModelled('partitioned')
    FK_KIND[0] = str(o.get('fk', ['default'])[0])
    kf_kind = str(o.get('kf', ['default'])[0])
    key_re = re.compile(KF_RE[kf_kind] % FK_RE[FK_KIND[0]].replace('(', '(?:'))
    pstart = str(o.get('pstart', ['0'])[0])
    tree = c.meta['tree']
    if tree_has(tree, ('virt', 'parx')):
        raise NotModelled('virtual-or-parameters')
    if leaf_dtypes(tree) - CORE_DTYPES:
        raise NotModelled('dtype')
    items = r[2:]
    tb = item_status(fld(items, 'tobuf'))
    if tb is None or tb[0] != 'ok':
        raise NotModelled('to_buffers-failed')
    fj = json.loads(unhx(get(tb[1], 'form')))
    ents = []
    for e in fld(items, 'container')[1:]:
        m = key_re.match(unhx(e[0]))
        if not m or m.group('p') != pstart:
            raise NotModelled('key')
        ents.append('(%s %s %s %s)' % (fk_num(m.group('fk')), m.group('a'), e[1][1], unparse(e[1][3])))
    rt = item_status(fld(items, 'arr'))
    trace = ''
    if rt is None:
        raise NotModelled('no-roundtrip')
    if rt[0] == 'ok':
        tr = fld(rt[1], 'trace')
        trace = ' (trace %s)' % ' '.join('(%s %s)' % (fk_num(unhx(x[1])), x[2]) for x in tr[1:])
        rts = '(rt ok %s)' % unparse(get(rt[1], 'dump'))
    elif rt[0] == 'err':
        rts = '(rt err)'
    else:
        raise NotModelled('crash')
    return '(%s buffers %s (impl (form %s) (len %s) (container %s)%s %s))' % (
        c.id, c.layouts[0], form_sx(fj), get(tb[1], 'len'), ' '.join(ents), trace, rts)


def run_bufrun(lines):
    exe = os.path.join(B16, 'bufrun')
    p = subprocess.run('ulimit -s unlimited 2>/dev/null; exec ' + exe, shell=True, input='\n'.join(lines) + '\n',
                       stdout=subprocess.PIPE, stderr=subprocess.PIPE, text=True, timeout=3600)
    out = {}
    for ol in p.stdout.splitlines():
        m = C.LINE_ID.match(ol)
        if m:
            out[m.group(1)] = ol[len(m.group(1)) + 2:-1]
    if p.returncode != 0:
        raise RuntimeError('bufrun failed rc=%s: %s' % (p.returncode, p.stderr[-2000:]))
    return out


CHECK = {'buffers': check_buffers, 'pickle': check_pickle, 'numpy': check_numpy, 'numpy2': check_numpy2, 'arrow': check_arrow}


def run(cases, tier, rng):
    V = Verdicts()
    skips = load_env_skips()
    t0 = time.time()
    lines = [case_line(c) for c in cases]
    res = run_py(lines)
    C.log('implementation (py_c16 under pyshim): %d cases in %.1fs' % (len(cases), time.time() - t0))
    dist = {}
    distinct = set()
    samples = []
    for c in cases:
        for k2, v2 in (c.meta.get('tags') or {}).items():
            dist.setdefault(k2, {})
            dist[k2][str(v2)] = dist[k2].get(str(v2), 0) + 1
        for k2, v2 in node_classes(c.meta['tree']).items():
            dist.setdefault('node', {})
            dist['node'][k2] = dist['node'].get(k2, 0) + v2
        r = res.get(c.id)
        if r is None or r[1] in ('crash', 'timeout', 'bad'):
            kind = 'missing' if r is None else r[1]
            V.bump(kind)
            if kind == 'bad' or r is None:
                V.add('bad', 'harness', 'py_c16 gave no usable answer: %s' % (short(str(r), 300)), c, [case_line(c)], no_input=True)
            else:
                V.add('crash', 'impl:no-crash', '%s: the Python process %s: %s' % (c.op, 'hung' if kind == 'timeout' else 'died',
                                                                                 short(str(r[2:]), 400)), c, [case_line(c)], sig='crash-' + c.op)
            continue
        if r[1] == 'err':
            st = ('err', r[2], r[3], r[4], unhx(r[5]))
            sk = env_skip(skips, 'top', st[2], st[4])
            if sk:
                V.env[sk] = V.env.get(sk, 0) + 1
                V.bump('env-skip')
                continue
            # building the input failed: not a verdict about the property (generator problem) unless it is a constructor refusing
            V.bump('input-refused')
            V.env['input-refused: ' + short(st[4].split('\n')[0], 80)] = V.env.get('input-refused: ' + short(st[4].split('\n')[0], 80), 0) + 1
            continue
        cont = fld(r[2:], 'container')
        c.meta['empty_buffer'] = cont is not None and any(len(e[1][3]) == 0 for e in cont[1:])
        inp = fld(r[2:], 'in')
        c.meta['zero_dim'] = inp is not None and inp[1] == 'ok' and '(l)' in (val_text(inp[2:]) or '')
        v = CHECK[c.op](V, c, r, skips)
        V.bump(c.op + ':' + v)
        if v == 'agree':
            if c.meta.get('nontrivial', True):
                distinct.add(case_line(c)[len(c.id) + 2:])
                if len(samples) < 6:
                    samples.append(short(case_line(c), 400))
    C.last_impl_results[:] = []
    # ---------------- the model as a voter
    mlines, mcase, notmod = [], {}, {}
    for c in cases:
        if c.op != 'buffers':
            continue
        r = res.get(c.id)
        if r is None or r[1] != 'ok':
            continue
        try:
            mlines.append(model_line(c, r))
            mcase[c.id] = c
        except NotModelled as e:
            notmod[str(e)] = notmod.get(str(e), 0) + 1
        except (KeyError, TypeError, ValueError, IndexError) as e:
            V.add('bad', 'harness', 'could not prepare the model line: %r' % e, c, [case_line(c)], no_input=True)
    if mlines and os.path.exists(os.path.join(B16, 'bufrun')):
        t1 = time.time()
        mres = run_bufrun(mlines)
        C.log('model (bufrun): %d cases in %.1fs' % (len(mlines), time.time() - t1))
        V.corr.setdefault('corr:to_buffers(form,keys,contents)', True)
        V.corr.setdefault('corr:from_buffers(lengths,result)', True)
        by = dict((C.LINE_ID.match(l).group(1), l) for l in mlines)
        for cid, c in mcase.items():
            v = mres.get(cid, 'bad (no answer)')
            kind = v.split(' ', 1)[0]
            V.bump('model:' + (v if kind in ('agree', 'skip') else kind))
            if kind in ('agree', 'skip'):
                continue
            if kind == 'modeldiff':
                obl = 'corr:to_buffers(form,keys,contents)' if re.search(r'\((form|len|container) ', v) else 'corr:from_buffers(lengths,result)'
                V.add('modeldiff', obl, 'model differs from the implementation: ' + short(v, 500), c, [case_line(c), '# ' + short(by[cid], 3000), '# ' + short(v, 3000)],
                      sig=None, no_input=True)
            elif kind == 'viol':
                V.add('viol', 'impl:buffers-roundtrip', 'buffers: value/type of the round trip differs through the extracted to_list: ' + short(v, 400), c,
                      [case_line(c), '# ' + short(v, 3000)],
                      sig='buffers-trimmed-content-under-untrimmed-parent' if '(out (bad oob))' in v else None)
            else:
                V.add('bad', 'harness', 'bufrun: ' + short(v, 400), c, [case_line(c), '# ' + short(by[cid], 3000)], no_input=True)
    elif mlines:
        V.add('bad', 'harness', 'bufrun is not built', cases[0], [], no_input=True)
    # keep the smallest representative per (obligation, signature / first words)
    best = {}
    for f in V.findings:
        key = (f['obl'], f['signature'] or f['what'][:60])
        if key not in best or f['size'] < best[key]['size']:
            best[key] = f
    fl = sorted(best.values(), key=lambda f: (f.get('no_input', False), f['size']))
    known = set(k.get('signature') for k in C.load_known() if (k.get('property') == 'C16' or 'C16' in k.get('also', []))
                and k.get('status') != 'fixed')
    corr = dict(V.corr)
    for o in list(corr):
        if not corr[o]:
            # discharged again if every finding of this obligation is a listed known finding
            fs = [f for f in V.findings if f['obl'] == o]
            if fs and all(f['signature'] in known for f in fs):
                corr[o] = True
    corr.pop('harness', None)
    if any(f['obl'] == 'harness' for f in V.findings):
        corr['harness:all-cases-evaluated'] = False
    return dict(findings=fl, corr_obligations=corr, evaluations=len(cases), distinct_nontrivial=len(distinct), samples=samples,
                distribution=dist, verdicts=V.verd, extra=dict(env_skips=V.env, all_findings=len(V.findings), not_modelled=notmod))


def signature(c, impl, v):
    return None
