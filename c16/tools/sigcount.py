"""python3 c16/tools/sigcount.py N seed : per-signature counts of failing CASES (not deduplicated)"""
import sys, random, collections
sys.path.insert(0, '/verif/harness')
import common as C
import props.c16 as M
n = int(sys.argv[1]); seed = int(sys.argv[2])
rng = random.Random(seed)
cs = M.cases(rng, 'quick')[:n] if n <= 1000 else [M.gen_case(rng, i, 'quick') for i in range(n)]
orig = M.Verdicts.add
per = collections.Counter(); percase = collections.defaultdict(set)
def add(self, kind, obl, what, c, lines, sig=None, no_input=False):
    orig(self, kind, obl, what, c, lines, sig, no_input)
    f = self.findings[-1]
    percase[f['signature'] or ('UNSIGNED ' + f['what'][:60])].add(c.id)
M.Verdicts.add = add
s = M.run(cs, 'quick', rng)
print(s['verdicts'])
tot = len(cs)
for k, v in sorted(percase.items(), key=lambda kv: -len(kv[1])):
    print('%5d  %4.1f%%  %s' % (len(v), 100.0 * len(v) / tot, k))
allbad = set().union(*percase.values()) if percase else set()
print('cases with >=1 finding: %d of %d (%.1f%%)' % (len(allbad), tot, 100.0 * len(allbad) / tot))
