#include <iostream>
#include "awkward/forth/ForthMachine.h"
using namespace awkward;
int main(int argc, char** argv){
  std::string src = argc>1 ? argv[1] : "5 0 do i loop";
  ForthMachine64 vm(src);
  std::cout << "decompiled: " << vm.decompiled() << std::endl;
  vm.run();
  auto st = vm.stack(); std::cout << "run: ";
  for (auto x: st) std::cout << x << " "; std::cout << std::endl;
  ForthMachine64 vm2(src);
  vm2.begin();
  int n=0;
  while (!vm2.is_done() && n < 200) { auto e = vm2.step(); n++; if (e != util::ForthError::none) {std::cout << "err " << (int)e << std::endl; break;} }
  std::cout << "steps " << n << " : ";
  for (auto x: vm2.stack()) std::cout << x << " "; std::cout << std::endl;
}
