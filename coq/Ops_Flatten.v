(** flatten(axis) for axis >= 1: model follows C++ offsets_and_flattened (returning inner
    offsets to the enclosing list node), spec concatenates at the value level. *)
From AwkV Require Export AtAxis Carry Ops_Struct.

(* ---- spec ---- *)
Fixpoint strip_opt (t : ty) : ty := match t with TOpt t' => strip_opt t' | _ => t end.
Definition is_plain_list (t : ty) : bool :=
  match strip_opt t with TList _ None _ => true | _ => false end.
Definition elems_of (v : value) : res (list value) :=
  match v with VList l => Ok l | VNone => Ok [] | _ => Err EValue end.
Definition flat_f (_ : ty) (l : list value) : res value :=
  do ls <- mapM elems_of l; Ok (VList (concat ls)).

Definition flatten_spec (axis : Z) (t : ty) (vs : list value) : res (list value) :=
  do ax <- resolve_axis t 0 axis;
  if ax =? 0 then Err EValue
  else if ax =? 1 then
    (if is_plain_list t then do ls <- mapM elems_of vs; Ok (concat ls) else Err EValue)
  else spec_ax flat_f true is_plain_list true t (if axis <? 0 then axis - 1 else ax - 1) vs.

(* ---- model ---- *)
Definition ranges_content (c : content) (rs : list (Z * Z)) : res content :=
  carry c (concat (map (fun ab : Z * Z => range (fst ab) (snd ab)) rs)).

(* inner offsets [] = no flattening happened at or below this node's own level *)
Definition remap (inner : list Z) (l : list Z) : res (list Z) := mapM (get inner) l.

Fixpoint flat_p (p : option akind) (c : content) (d axis : Z) {struct c} : res (list Z * content) :=
  do ax <- resolve_axis (type_of_p p c) d axis;
  if ax =? d then Err EValue else
  let at_list (b : list (Z * Z)) (c' : content) (rewrap : content -> content) :=
    if ax =? d + 1 then
      if is_strk p then Err EValue else
      do fc <- ranges_content c' (map (fun ab : Z * Z => if fst ab =? snd ab then (0, 0) else ab) b);
      Ok (offsets_from 0 (lens_of b), fc)
    else
      do r <- flat_p None c' (d + 1) ax;
      let (inner, fc) := r in
      match inner with
      | [] => Ok ([], rewrap fc)
      | _ =>
          (* empty lists may sit anywhere (also beyond the content): the C++ compacts first *)
          let b' := map (fun ab : Z * Z => if fst ab =? snd ab then (0, 0) else ab) b in
          do s <- remap inner (map fst b'); do e <- remap inner (map snd b');
          Ok ([], ListA I64 s e fc)
      end in
  let at_option (ix : list Z) (c' : content) (rewrap : content -> content) :=
    do r <- flat_p None c' d ax;
    let (inner, fc) := r in
    match inner with
    | [] => Ok ([], rewrap fc)
    | _ =>
        do rs <- mapM (fun i => if i <? 0 then Ok (0, 0)
                                else do a <- get inner i; do b <- get inner (i + 1); Ok (a, b)) ix;
        do fc' <- ranges_content fc rs;
        Ok (offsets_from 0 (lens_of rs), fc')
    end in
  match c with
  | Numpy _ _ _ => Err EValue
  | Empty => Ok ([0], Empty)
  | ListOffset w o c' =>
      match o with [] => Err EValue | _ => at_list (pairs o) c' (ListOffset w o) end
  | ListA w s e c' =>
      if zlen e <? zlen s then Err EValue else at_list (zip s e) c' (ListA w s e)
  | Regular c' size zl =>
      do bc <- list_bounds c; at_list (fst bc) c' (fun x => Regular x size zl)
  | Indexed w ix c' => at_option ix c' (Indexed w ix)
  | IndexedOption w ix c' => at_option ix c' (IndexedOption w ix)
  | ByteMasked m vw c' => do oi <- option_index c; at_option (fst oi) c' (ByteMasked m vw)
  | BitMasked m vw lsb n c' => do oi <- option_index c; at_option (fst oi) c' (BitMasked m vw lsb n)
  | Unmasked c' =>
      do r <- flat_p None c' d ax;
      let (inner, fc) := r in
      match inner with [] => Ok ([], Unmasked fc) | _ => Ok (inner, fc) end
  | Record cs ks n =>
      if ax =? d + 1 then Err EValue else
      do cs' <- (fix all (l : list content) : res (list content) :=
                   match l with
                   | [] => Ok []
                   | x :: xs =>
                       do r <- flat_p None x d ax;
                       match fst r with
                       | [] => do ys <- all xs; Ok (snd r :: ys)
                       | _ => Err EValue
                       end
                   end) cs;
      Ok ([], Record cs' ks n)
  | Union _ _ _ _ => Err EValue
  | Par a r c' => flat_p a c' d ax
  end.

Definition flatten_model (axis : Z) (c : content) : res content :=
  do r <- flat_p None (expand c) 0 axis; Ok (snd r).
