(** C17b, extended printing/re-parsing round trip for ARRAYS: with the EMPTY typestr table, the type (Form::type of
    Content::form) of every layout -- parameter nodes (strings, chars, categorical, record names) anywhere --
    is in [printable_x], hence survives Type::tostring followed by [type_parse_x]. *)
From Coq Require Import ZArith List Bool Lia String.
From AwkV Require Import Base Layout LayoutInd Valid Types.
From AwkTypes Require Import Json Forms TypeStr Proofs_Json Proofs_Types Proofs_Parse
  Proofs_C17b_ParseX_Json Proofs_C17b_ParseX_Defs Proofs_C17b_ParseX_Ty Proofs_C17b_ParseX Proofs_C17b_ParseX_Thm.
Import ListNotations.
Open Scope Z_scope.

(* what [printable_x] asks of the top node only: a record printed as Name[...] has a proper name (a "name", not a
   reserved word, no NUL) and is not an empty tuple; a union with parameters to show has contents *)
Definition top_ok (t : rty) : bool :=
  match t with
  | RRec p _ ks l => match record_name p with Some _ => named_ok p ks l | None => true end
  | RUnion p _ l => match shown p, l with _ :: _, [] => false | _, _ => true end
  | _ => true
  end.
Definition top_ok_res (r : res rty) : bool := match r with Ok t => top_ok t | Err _ => false end.
Definition okname (r : option name) : bool := match r with Some n => key_ok n | None => true end.
Definition keys_okx (ks : option (list name)) (cs : list content) : bool :=
  match ks with Some ks => Nat.eqb (List.length ks) (List.length cs) && forallb key_ok ks | None => true end.

(* [a], [r]: the parameters set by enclosing Par nodes, as in form_of_p.  Asked of every node: record names are byte
   strings; the node's own type passes [top_ok]; Numpy shapes are non-empty with non-negative inner dimensions;
   regular sizes are non-negative; record keys are byte strings, one per field.  Par nodes may stand anywhere. *)
Fixpoint tpx_okp (a : option akind) (r : option name) (c : content) {struct c} : bool :=
  match c with
  | Par a' r' c' => tpx_okp (por a a') (por r r') c'
  | _ =>
      okname r && top_ok_res (type_of_form [] (form_of_p a r c)) &&
      match c with
      | Numpy _ shape _ => match shape with [] => false | _ :: dims => forallb (Z.leb 0) dims end
      | Empty => true
      | ListOffset _ _ c' | ListA _ _ _ c' => tpx_okp None None c'
      | Regular c' size _ => (0 <=? size) && tpx_okp None None c'
      | Indexed _ _ c' | IndexedOption _ _ c' | ByteMasked _ _ c' | BitMasked _ _ _ _ c' | Unmasked c' =>
          tpx_okp None None c'
      | Union _ _ _ cs => forallb (tpx_okp None None) cs
      | Record cs ks _ => forallb (tpx_okp None None) cs && keys_okx ks cs
      | Par _ _ _ => false
      end
  end.
Definition tpx_ok (c : content) : bool := tpx_okp None None c.

(* ---------------------------------------------------------------- the parameter maps Form::type builds *)
Definition fam (a : option akind) (c : bool) (r : option name) : params :=
  (match a with Some k => [(k_array, JStr (akind_name k))] | None => [] end) ++
  (if c then [(k_categorical, JBool true)] else []) ++
  (match r with Some n => [(k_record, JStr n)] | None => [] end).

Lemma params_of_fam a r : params_of a r = fam a false r.
Proof. reflexivity. Qed.

Lemma pvals_fam a c r : okname r = true -> pvals_ok (fam a c r) = true.
Proof.
  intros H. destruct a as [[]|], c, r as [n|]; try reflexivity; simpl in H;
    cbv -[key_ok]; rewrite H; reflexivity.
Qed.

Lemma gettypestr_nil p : gettypestr p [] = [].
Proof.
  unfold gettypestr. destruct (pfind k_record p) as [[]|]; destruct (pfind k_array p) as [[]|]; reflexivity.
Qed.

Definition Inv (t : rty) : Prop :=
  printable_x t = true /\ rty_ts t = [] /\ exists a c r, rty_params t = fam a c r /\ okname r = true.

(* ---------------------------------------------------------------- changing the parameters of a printable node *)
Lemma hardcoded_ts t : hardcoded t = true -> rty_ts t <> [].
Proof. intros H. destruct (hardcoded_cases t H) as [->|[->|[->| ->]]]; discriminate. Qed.

Lemma hardcoded_nots t : rty_ts t = [] -> hardcoded t = false.
Proof. intros H. destruct (hardcoded t) eqn:E; [|reflexivity]. destruct (hardcoded_ts t E H). Qed.

Lemma printable_x_set p' t : rty_ts t = [] -> printable_x t = true -> pvals_ok p' = true ->
  top_ok (rty_set_params p' t) = true -> printable_x (rty_set_params p' t) = true.
Proof.
  intros Hts Hp Hpv Htop.
  assert (Hh : forall q, hardcoded (rty_set_params q t) = false)
    by (intros q; apply hardcoded_nots; rewrite rty_ts_set; exact Hts).
  destruct t as [p s dt|p s|p s t'|p s n t'|p s t'|p s ks l|p s l]; simpl in Hts; subst s;
    cbn [printable_x rty_params rty_set_params] in Hp |- *; apply andb_true_iff in Hp as [_ Hp];
    apply orb_true_iff in Hp as [Hp|Hp];
    try (match type of Hp with hardcoded ?x = true =>
           match goal with H : forall q, hardcoded (rty_set_params q ?t0) = false |- _ =>
             change x with (rty_set_params (shown p) t0) in Hp; rewrite H in Hp; discriminate Hp end end);
    rewrite Hpv; cbn [andb]; apply orb_true_iff; right; try exact Hp.
  - apply andb_true_iff in Hp as [Hp _]. rewrite Hp. cbn [andb]. exact Htop.
  - apply andb_true_iff in Hp as [Hp _]. rewrite Hp. cbn [andb]. exact Htop.
Qed.

(* ---------------------------------------------------------------- nodes *)
Lemma numpy_inv p dt dims : pvals_ok p = true -> (exists a c r, p = fam a c r /\ okname r = true) ->
  forallb (Z.leb 0) dims = true ->
  Inv (fold_right (fun d t => RReg [] [] d t) (RNum p [] (FD dt)) dims).
Proof.
  intros Hpv Hfam Hd. split; [|split].
  - induction dims as [|d dims IH].
    + cbn [fold_right printable_x rty_params]. rewrite Hpv. cbn [andb]. apply orb_true_iff. right. destruct dt; reflexivity.
    + simpl in Hd. apply andb_true_iff in Hd as [Hd0 Hd]. cbn [fold_right printable_x rty_params].
      change (pvals_ok []) with true. cbn [andb]. apply orb_true_iff. right.
      change (Z.leb 0 d) with (0 <=? d) in Hd0. rewrite Hd0, (IH Hd). reflexivity.
  - destruct dims; reflexivity.
  - destruct dims; [exact Hfam|]. exists None, false, None. split; reflexivity.
Qed.

Lemma wrap_inv (mk : params -> bytes -> rty -> rty) p t :
  (forall q s x, rty_ts (mk q s x) = s /\ rty_params (mk q s x) = q) ->
  (forall q x, printable_x (mk q [] x) = pvals_ok q && (hardcoded (rty_set_params (shown q) (mk q [] x)) || printable_x x)) ->
  pvals_ok p = true -> (exists a c r, p = fam a c r /\ okname r = true) -> Inv t -> Inv (mk p [] t).
Proof.
  intros Hmk Hpx Hpv Hfam (Ht & _ & _). split; [|split].
  - rewrite Hpx, Hpv, Ht. cbn [andb]. apply orb_true_r.
  - apply (Hmk p [] t).
  - destruct (Hmk p [] t) as [_ ->]. exact Hfam.
Qed.

Lemma fam_of a r : okname r = true -> pvals_ok (params_of a r) = true /\ exists a' c' r', params_of a r = fam a' c' r' /\ okname r' = true.
Proof. intros H. split; [rewrite params_of_fam; apply pvals_fam, H|]. exists a, false, r. split; [reflexivity|exact H]. Qed.

Lemma catfix_fam a r : okname r = true ->
  pvals_ok (categorical_fix (params_of a r) (params_of a r) true) = true /\
  exists a' c' r', categorical_fix (params_of a r) (params_of a r) true = fam a' c' r' /\ okname r' = true.
Proof.
  intros H. destruct a as [[]|]; try (destruct r; exact (fam_of _ _ H)).
  assert (E : categorical_fix (params_of (Some ACategorical) r) (params_of (Some ACategorical) r) true = fam None true r)
    by (destruct r; reflexivity).
  rewrite E. split; [apply pvals_fam, H|]. exists None, true, r. split; [reflexivity|exact H].
Qed.

(* FIndexed: the parameters of the content's type merged with the node's own *)
Definition isnil_fam (a : option akind) (c : bool) (r : option name) : bool :=
  match a, c, r with None, false, None => true | _, _, _ => false end.
Definition iscat (a : option akind) : bool := match a with Some ACategorical => true | _ => false end.
Definition ix_a a r a1 c1 r1 : option akind :=
  if isnil_fam a false r then a1 else if isnil_fam a1 c1 r1 then (if iscat a then None else a) else a1.
Definition ix_c a r a1 c1 r1 : bool :=
  if isnil_fam a false r then c1 else if isnil_fam a1 c1 r1 then iscat a else c1 || iscat a.
Definition ix_r (a : option akind) (r : option name) (a1 : option akind) (c1 : bool) (r1 : option name) : option name :=
  if isnil_fam a false r then r1 else if isnil_fam a1 c1 r1 then r else por r r1.

Lemma indexed_merge out a r a1 c1 r1 : rty_params out = fam a1 c1 r1 ->
  (let mine := params_of a r in
   match rty_params out, mine with
   | _, [] => Ok out
   | [], _ => Ok (rty_set_params (categorical_fix mine mine true) out)
   | op, _ =>
       let merged := fold_left (fun acc kv => if bytes_eqb (fst kv) k_array then acc
                                              else setparameter (fst kv) (snd kv) acc) mine op in
       Ok (rty_set_params (categorical_fix mine merged false) out)
   end) = Ok (rty_set_params (fam (ix_a a r a1 c1 r1) (ix_c a r a1 c1 r1) (ix_r a r a1 c1 r1)) out).
Proof.
  intros Hp. cbv zeta. pose proof Hp as Hp0. rewrite Hp.
  destruct a as [[]|], r as [n|], a1 as [[]|], c1, r1 as [n1|]; try reflexivity;
    (transitivity (Ok (rty_set_params (rty_params out) out)); [rewrite rty_set_same; reflexivity|rewrite Hp0; reflexivity]).
Qed.

Lemma ix_r_ok a r a1 c1 r1 : okname r = true -> okname r1 = true -> okname (ix_r a r a1 c1 r1) = true.
Proof. intros H H1. unfold ix_r. destruct (isnil_fam a false r), (isnil_fam a1 c1 r1), r, r1; assumption. Qed.

(* ---------------------------------------------------------------- the induction *)
Definition tyokx (c : content) : Prop :=
  forall a r, tpx_okp a r c = true -> exists t, type_of_form [] (form_of_p a r c) = Ok t /\ Inv t.

Lemma all_typesx (cs : list content) : Forall tyokx cs -> forallb (tpx_okp None None) cs = true ->
  exists l, mapM_id (map (type_of_form []) (map (form_of_p None None) cs)) = Ok l /\
            forallb printable_x l = true /\ List.length l = List.length cs.
Proof.
  induction 1 as [|c cs Hc _ IH]; intros H.
  - exists []. repeat split.
  - simpl in H. apply andb_true_iff in H as [H1 H2]. destruct (Hc None None H1) as (t & Et & Pt & _).
    destruct (IH H2) as (l & El & Pl & Ll).
    exists (t :: l). cbn [map mapM_id]. rewrite Et. cbn [bind]. rewrite El. cbn [bind].
    repeat split; [simpl; rewrite Pt, Pl; reflexivity|simpl; congruence].
Qed.

Ltac split3 H := apply andb_true_iff in H as [H ?Hc]; apply andb_true_iff in H as [?Hn ?Htop].

Theorem tpx_ok_printable_all c : tyokx c.
Proof.
  induction c as [dt shape data| |w o c IH|w s e c IH|c size zl IH|w ix c IH|w ix c IH|m vw c IH|m vw lsb n c IH|c IH
                 |w tg ix cs IH|cs ks n IH|a0 r0 c IH] using content_ind'; intros a r H; cbn [tpx_okp] in H;
    try (apply andb_true_iff in H as [H Hc]; apply andb_true_iff in H as [Hn Htop];
         destruct (fam_of a r Hn) as [Hpv Hfam]).
  - destruct shape as [|n dims]; [discriminate|]. cbn [form_of_p type_of_form tl]. rewrite gettypestr_nil.
    eexists. split; [reflexivity|]. cbn [m_params meta_of]. apply numpy_inv; assumption.
  - cbn [form_of_p type_of_form]. rewrite gettypestr_nil. eexists. split; [reflexivity|]. cbn [m_params meta_of].
    split; [|split; [reflexivity|exact Hfam]]. cbn [printable_x rty_params]. rewrite Hpv. cbn [andb]. apply orb_true_r.
  - destruct (IH None None Hc) as (t & Et & It). cbn [form_of_p type_of_form]. rewrite Et. cbn [bind]. rewrite gettypestr_nil.
    eexists. split; [reflexivity|]. cbn [m_params meta_of].
    exact (wrap_inv RList _ _ (fun q s x => conj eq_refl eq_refl) (fun q x => eq_refl) Hpv Hfam It).
  - destruct (IH None None Hc) as (t & Et & It). cbn [form_of_p type_of_form]. rewrite Et. cbn [bind]. rewrite gettypestr_nil.
    eexists. split; [reflexivity|]. cbn [m_params meta_of].
    exact (wrap_inv RList _ _ (fun q s x => conj eq_refl eq_refl) (fun q x => eq_refl) Hpv Hfam It).
  - apply andb_true_iff in Hc as [Hs Hc].
    destruct (IH None None Hc) as (t & Et & (Pt & _ & _)). cbn [form_of_p type_of_form]. rewrite Et. cbn [bind]. rewrite gettypestr_nil.
    eexists. split; [reflexivity|]. cbn [m_params meta_of]. split; [|split; [reflexivity|exact Hfam]].
    cbn [printable_x rty_params]. rewrite Hpv, Hs, Pt. cbn [andb]. apply orb_true_r.
  - (* Indexed *)
    destruct (IH None None Hc) as (t & Et & (Pt & Tt & (a1 & c1 & r1 & Ep & Hn1))).
    cbn [form_of_p type_of_form] in Htop |- *. rewrite Et in Htop |- *. cbn [bind] in Htop |- *.
    cbn [m_params meta_of] in Htop |- *.
    pose proof (indexed_merge t a r a1 c1 r1 Ep) as Hm. cbv zeta in Hm. rewrite Hm in Htop |- *. cbn [top_ok_res] in Htop.
    eexists. split; [reflexivity|].
    pose proof (ix_r_ok a r a1 c1 r1 Hn Hn1) as Hn'.
    split; [|split].
    + apply printable_x_set; [exact Tt|exact Pt|apply pvals_fam, Hn'|exact Htop].
    + rewrite rty_ts_set. exact Tt.
    + rewrite rty_params_set. eexists _, _, _. split; [reflexivity|exact Hn'].
  - (* IndexedOption *)
    destruct (catfix_fam a r Hn) as [Hpv' Hfam'].
    destruct (IH None None Hc) as (t & Et & It). cbn [form_of_p type_of_form]. rewrite Et. cbn [bind]. rewrite gettypestr_nil.
    eexists. split; [reflexivity|]. cbn [m_params meta_of].
    exact (wrap_inv ROpt _ _ (fun q s x => conj eq_refl eq_refl) (fun q x => eq_refl) Hpv' Hfam' It).
  - destruct (IH None None Hc) as (t & Et & It). cbn [form_of_p type_of_form]. rewrite Et. cbn [bind]. rewrite gettypestr_nil.
    eexists. split; [reflexivity|]. cbn [m_params meta_of].
    exact (wrap_inv ROpt _ _ (fun q s x => conj eq_refl eq_refl) (fun q x => eq_refl) Hpv Hfam It).
  - destruct (IH None None Hc) as (t & Et & It). cbn [form_of_p type_of_form]. rewrite Et. cbn [bind]. rewrite gettypestr_nil.
    eexists. split; [reflexivity|]. cbn [m_params meta_of].
    exact (wrap_inv ROpt _ _ (fun q s x => conj eq_refl eq_refl) (fun q x => eq_refl) Hpv Hfam It).
  - destruct (IH None None Hc) as (t & Et & It). cbn [form_of_p type_of_form]. rewrite Et. cbn [bind]. rewrite gettypestr_nil.
    eexists. split; [reflexivity|]. cbn [m_params meta_of].
    exact (wrap_inv ROpt _ _ (fun q s x => conj eq_refl eq_refl) (fun q x => eq_refl) Hpv Hfam It).
  - (* Union *)
    destruct (all_typesx cs IH Hc) as (l & El & Pl & _).
    cbn [form_of_p type_of_form] in Htop |- *. rewrite El in Htop |- *. cbn [bind] in Htop |- *.
    rewrite gettypestr_nil in Htop |- *. cbn [m_params meta_of top_ok_res top_ok] in Htop |- *.
    eexists. split; [reflexivity|]. split; [|split; [reflexivity|exact Hfam]].
    cbn [printable_x rty_params]. rewrite Hpv, Pl, Htop. cbn [andb]. apply orb_true_r.
  - (* Record *)
    apply andb_true_iff in Hc as [Hc Hk]. destruct (all_typesx cs IH Hc) as (l & El & Pl & Ll).
    cbn [form_of_p type_of_form] in Htop |- *. rewrite El in Htop |- *. cbn [bind] in Htop |- *.
    rewrite gettypestr_nil in Htop |- *. cbn [m_params meta_of top_ok_res top_ok] in Htop |- *.
    eexists. split; [reflexivity|]. split; [|split; [reflexivity|exact Hfam]].
    cbn [printable_x rty_params]. rewrite Hpv, Pl, Htop. unfold keys_okx in Hk. rewrite Ll.
    cbn [andb]. apply orb_true_iff. right. apply andb_true_iff. split; [exact Hk|reflexivity].
  - (* Par *)
    cbn [form_of_p]. apply IH. exact H.
Qed.

(* ---------------------------------------------------------------- statements *)
Theorem array_type_printable_x c : tpx_ok c = true ->
  exists t, type_of_form [] (form_of c) = Ok t /\ printable_x t = true.
Proof. intros H. destruct (tpx_ok_printable_all c None None H) as (t & Et & Pt & _). exists t. split; assumption. Qed.

Theorem array_type_roundtrip_x c : tpx_ok c = true ->
  exists t, type_of_form [] (form_of c) = Ok t /\ printable_x t = true /\ type_parse_x (type_tostring t) = Ok t.
Proof.
  intros H. destruct (array_type_printable_x c H) as (t & Et & Pt). exists t. split; [exact Et|]. split; [exact Pt|].
  exact (type_print_parse_roundtrip_x t Pt).
Qed.

(* ---------------------------------------------------------------- example: a list of records named Pt whose field "y"
   is a categorical of strings (Par categorical over Indexed over string), field "z" an option-categorical of
   a regular 2x3 block, next to a char array, in a tuple *)
Definition ex_arrayx : content :=
  Record [ListOffset I64 [0; 2; 2]
            (Par None (Some [80; 116])
               (Record [Numpy DInt64 [2] [DZ 1; DZ 2];
                        Par (Some ACategorical) None
                          (Indexed I64 [0; 0]
                             (Par (Some AString) None
                                (ListOffset I32 [0; 2] (Par (Some AChar) None (Numpy DUInt8 [2] [DZ 97; DZ 98])))));
                        Par (Some ACategorical) (Some [81])
                          (IndexedOption I32 [0; -1] (Numpy DFloat64 [1; 2; 3] [DZ 0; DZ 0; DZ 0; DZ 0; DZ 0; DZ 0]))]
                       (Some [[120]; [121]; [122]]) 2));
          Par (Some AChar) None (Numpy DUInt8 [2] [DZ 97; DZ 98])] None 2.
Example ex_arrayx_ok : tpx_ok ex_arrayx = true.
Proof. vm_compute. reflexivity. Qed.
Example ex_arrayx_roundtrip :
  exists t, type_of_form [] (form_of ex_arrayx) = Ok t /\ printable_x t = true /\ type_parse_x (type_tostring t) = Ok t.
Proof. exact (array_type_roundtrip_x ex_arrayx ex_arrayx_ok). Qed.
Example ex_arrayx_string :
  rmap type_tostring (type_of_form [] (form_of ex_arrayx)) =
  Ok (bytes_of_string "(var * Pt[""x"": int64, ""y"": categorical[type=[var * uint8[parameters={""__array__"": ""char""}], parameters={""__array__"": ""string""}]], ""z"": categorical[type=option[2 * 3 * float64, parameters={""__record__"": ""Q""}]]], uint8[parameters={""__array__"": ""char""}])"%string).
Proof. vm_compute. reflexivity. Qed.

(* a categorical of named records: FIndexed merges __categorical__ into the record's parameters, the name moves
   into parameters={} (record_name wants exactly one parameter) -- still in the fragment *)
Example ex_categorical_records :
  let c := Par (Some ACategorical) None
             (Indexed I64 [0] (Par None (Some [80; 116]) (Record [Numpy DInt64 [1] [DZ 1]] (Some [[120]]) 1))) in
  tpx_ok c = true /\
  rmap type_tostring (type_of_form [] (form_of c)) =
  Ok (bytes_of_string "categorical[type=struct[[""x""], [int64], parameters={""__record__"": ""Pt""}]]"%string).
Proof. cbv zeta. split; vm_compute; reflexivity. Qed.

(* outside (top_ok): a tuple named "union" prints like a union type; a named empty tuple prints like a named empty record *)
Example record_named_union_outside :
  let c := Par None (Some w_union) (Record [Numpy DInt64 [1] [DZ 1]; Numpy DBool [1] [DZ 1]] None 1) in
  tpx_ok c = false /\ rmap type_tostring (type_of_form [] (form_of c)) = Ok (bytes_of_string "union[int64, bool]"%string).
Proof. cbv zeta. split; vm_compute; reflexivity. Qed.
Example named_empty_tuple_outside :
  let c := Par None (Some [80; 116]) (Record [] None 3) in
  tpx_ok c = false /\ rmap type_tostring (type_of_form [] (form_of c)) = Ok (bytes_of_string "Pt[]"%string).
Proof. cbv zeta. split; vm_compute; reflexivity. Qed.
