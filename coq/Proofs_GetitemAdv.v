(** Properties of the specification of the array-like slice items (Ops_GetitemAdv.v):
    index arrays with missing values, jagged index arrays, n-d integer arrays, boolean masks. *)
From Coq Require Import ZArith List Bool Lia ZifyBool.
From AwkV Require Import Base Layout Types Ops_Getitem Ops_GetitemAdv Proofs_Typing Proofs_Lists Proofs_ToList Proofs_Carry
                         Proofs_C01 Proofs_Getitem Proofs_Getitem9.
Import ListNotations.
Open Scope Z_scope.
Ltac Zify.zify_post_hook ::= Z.to_euclidean_division_equations.

(* ---------------------------------------------------------------- the one-level view of a jagged index *)
Fixpoint jl_go (k : value -> res value) (subs : list (option jag)) (l : list value) : res (list value) :=
  match subs, l with
  | [], [] => Ok []
  | oj :: subs', e :: l' =>
      do r <- (match oj with
               | None => Ok VNone
               | Some j' =>
                   match e with
                   | VList l1 => rmap VList (jag_apply k j' l1)
                   | VNone => match j' with JLists (_ :: _) => Err EFuel | _ => Ok VNone end
                   | VStr _ _ | VRec _ | VTup _ => Err EFuel
                   | _ => Err EValue
                   end
               end);
      do rs <- jl_go k subs' l';
      Ok (r :: rs)
  | _, _ => Err EValue
  end.

Lemma jag_apply_lists k subs l : jag_apply k (JLists subs) l = jl_go k subs l.
Proof.
  revert l. induction subs as [|oj subs IH]; intros [|e l]; try reflexivity.
  cbn [jl_go]. rewrite <- IH. reflexivity.
Qed.

Lemma jl_go_len k subs l r : jl_go k subs l = Ok r -> zlen r = zlen subs /\ zlen subs = zlen l.
Proof.
  revert l r. induction subs as [|oj subs IH]; intros [|e l] r H; cbn [jl_go] in H; try discriminate.
  - inversion H; subst. split; reflexivity.
  - apply bind_Ok in H as (x & _ & H). apply bind_Ok in H as (rs & Hrs & H). inversion H; subst.
    destruct (IH _ _ Hrs) as [H1 H2]. rewrite !zlen_cons. lia.
Qed.

(* entry i of the result is determined by entry i of the index and list i of the array alone *)
Lemma jl_go_get k subs l r i oj e :
  jl_go k subs l = Ok r -> get subs i = Ok oj -> get l i = Ok e ->
  match oj with
  | None => get r i = Ok VNone
  | Some j' =>
      match e with
      | VList l1 => exists r1, jag_apply k j' l1 = Ok r1 /\ get r i = Ok (VList r1)
      | VNone => get r i = Ok VNone
      | _ => False
      end
  end.
Proof.
  revert l r i. induction subs as [|oj0 subs IH]; intros [|e0 l] r i H Hs Hl; cbn [jl_go] in H; try discriminate.
  - rewrite get_nil in Hs. discriminate.
  - apply bind_Ok in H as (x & Hx & H). apply bind_Ok in H as (rs & Hrs & H). inversion H; subst. clear H.
    pose proof (get_range _ _ _ Hs) as Hi. destruct (Z.eq_dec i 0) as [->|Hn].
    + rewrite get_cons_0 in Hs. rewrite get_cons_0 in Hl. inversion Hs; inversion Hl; subst. rewrite get_cons_0.
      destruct oj as [j'|]; [|inversion Hx; reflexivity].
      destruct e as [d|b|is s| |l1|fs|ws]; try discriminate.
      * destruct j' as [ix|m|[|s0 ss]]; inversion Hx; reflexivity.
      * destruct (jag_apply k j' l1) as [r1|err] eqn:E; [|discriminate]. inversion Hx. exists r1. split; reflexivity.
    + rewrite get_cons_pos in Hs by lia. rewrite get_cons_pos in Hl by lia. rewrite get_cons_pos by lia. eapply IH; eassumption.
Qed.

(* ---------------------------------------------------------------- the deepest level: integers with None *)
Definition pick1 (k : value -> res value) (l : list value) (o : option Z) : res value :=
  match o with
  | None => Ok VNone
  | Some i => do p <- wrap_at (zlen l) i; do e <- get l p; k e
  end.
Lemma jag_apply_ints k ix l : jag_apply k (JInts ix) l = mapM (pick1 k l) ix.
Proof. reflexivity. Qed.

(* None exactly at the None positions of the index; at the other positions the element the integer selects
   (negative positions count from the end) *)
Lemma missing_index_pointwise ix l r :
  jag_apply Ok (JInts ix) l = Ok r ->
  zlen r = zlen ix /\
  forall k o, get ix k = Ok o ->
    match o with
    | None => get r k = Ok VNone
    | Some i => exists p, wrap_at (zlen l) i = Ok p /\ get r k = get l p /\ exists e, get l p = Ok e
    end.
Proof.
  rewrite jag_apply_ints. intros H. split; [eapply mapM_zlen, H|].
  intros k o Hk. pose proof (mapM_get _ _ _ k H) as Hg. rewrite Hk in Hg. cbn [bind] in Hg.
  pose proof (get_range _ _ _ Hk) as Hr. destruct (get_ok r k) as [y Hy]; [rewrite (mapM_zlen _ _ _ H); lia|].
  destruct o as [i|]; cbn [pick1] in Hg; [|exact Hg].
  destruct (wrap_at (zlen l) i) as [p|e] eqn:Ew; cbn [bind] in Hg; [|congruence].
  exists p. split; [reflexivity|]. destruct (get l p) as [e|err] eqn:Eg; cbn [bind] in Hg; [|congruence].
  split; [exact Hg|]. exists e. reflexivity.
Qed.

(* an out-of-range position anywhere in the index is an error: no data is returned *)
Lemma missing_index_out_of_range k ix l i :
  In (Some i) ix -> ~ (- zlen l <= i < zlen l) -> forall r, jag_apply k (JInts ix) l <> Ok r.
Proof.
  rewrite jag_apply_ints. intros Hin Hr r H.
  destruct (mapM_Ok_In _ _ _ _ H Hin) as (y & Hy & _). cbn [pick1] in Hy.
  destruct (wrap_at (zlen l) i) as [p|e] eqn:Ew; [|discriminate].
  apply Hr. apply (proj1 (wrap_at_error (zlen l) i)). exists p. exact Ew.
Qed.

(* every selected element is None or an element of the list the index was applied to *)
Lemma ints_members ix l r v :
  jag_apply Ok (JInts ix) l = Ok r -> In v r -> v = VNone \/ In v l.
Proof.
  rewrite jag_apply_ints. intros H Hv. destruct (mapM_In_inv _ _ _ _ H Hv) as (o & _ & Ho).
  destruct o as [i|]; cbn [pick1] in Ho; [|inversion Ho; left; reflexivity].
  destruct (wrap_at (zlen l) i) as [p|e]; [|discriminate]. cbn [bind] in Ho.
  destruct (get l p) as [e|err] eqn:Eg; [|discriminate]. cbn [bind] in Ho. inversion Ho; subst.
  right. unfold get in Eg. destruct (p <? 0); [discriminate|]. destruct (nth_error l (Z.to_nat p)) eqn:En; [|discriminate].
  inversion Eg; subst. eapply nth_error_In, En.
Qed.

(* the non-missing part of the selection is the selection by the plain integer array, as the EXISTING specification
   [getitem_spec [IArray _]] defines it *)
Definition somes {A} (l : list (option A)) : list A :=
  flat_map (fun o => match o with Some x => [x] | None => [] end) l.
Definition not_none (v : value) : bool := match v with VNone => false | _ => true end.

Lemma wrap_at_err n i e : wrap_at n i = Err e -> e = EValue.
Proof. unfold wrap_at. destruct (_ && _); intros H; inversion H; reflexivity. Qed.
Lemma at_spec_err i vs e : at_spec i vs = Err e -> e = EValue.
Proof.
  unfold at_spec. destruct (wrap_at (zlen vs) i) as [p|e'] eqn:E; cbn [bind].
  - intros H. apply wrap_at_range in E. destruct (get_ok vs p E) as [x Hx]. congruence.
  - intros H. inversion H; subst. eapply wrap_at_err, E.
Qed.

Lemma getitem_spec_array ix t vs :
  getitem_spec [IArray ix] t vs = do xs <- mapM (fun i => at_spec i vs) ix; Ok [VList xs].
Proof.
  unfold getitem_spec. change (items_fuel [IArray ix]) with (S 35). rewrite sg_IArray.
  cbn [szchk_all has_none existsb mapM pick_array].
  destruct (mapM (wrap_at (zlen vs)) ix) as [ks|e] eqn:Eks; cbn [rmap bind].
  - destruct (mapM (fun i => at_spec i vs) ix) as [xs|e] eqn:Exs; cbn [rmap bind]; [|reflexivity].
    cbn [map unopt concat]. rewrite app_nil_r. rewrite se_nil. cbn [bind fst snd]. unfold regrouped.
    cbn [regroup zip map fst snd mk_list]. rewrite take_all by lia. reflexivity.
  - destruct (mapM_Err _ _ _ Eks) as (i & Hi & Hw). pose proof (wrap_at_err _ _ _ Hw); subst e.
    destruct (mapM (fun i => at_spec i vs) ix) as [xs|e'] eqn:Exs; cbn [bind].
    + exfalso. destruct (mapM_Ok_In _ _ _ _ Exs Hi) as (y & Hy & _). unfold at_spec in Hy. rewrite Hw in Hy. discriminate.
    + destruct (mapM_Err _ _ _ Exs) as (i' & _ & Hw'). rewrite (at_spec_err _ _ _ Hw'). reflexivity.
Qed.

Definition at_somes {A B} (ix : list (option A)) (r : list B) : list B :=
  flat_map (fun ov : option A * B => match fst ov with Some _ => [snd ov] | None => [] end) (zip ix r).

Lemma missing_index_is_array_selection ix l r :
  jag_apply Ok (JInts ix) l = Ok r ->
  mapM (fun i => at_spec i l) (somes ix) = Ok (at_somes ix r).
Proof.
  rewrite jag_apply_ints. revert r. induction ix as [|o ix IH]; intros r H; cbn [mapM] in H.
  - inversion H; subst. reflexivity.
  - apply bind_Ok in H as (y & Hy & H). apply bind_Ok in H as (ys & Hys & H). inversion H; subst. clear H.
    specialize (IH _ Hys). unfold somes, at_somes in *. cbn [flat_map zip fst snd].
    destruct o as [i|]; cbn [pick1] in Hy.
    + cbn [app mapM]. unfold at_spec at 1.
      destruct (wrap_at (zlen l) i) as [p|e]; [|discriminate]. cbn [bind] in Hy |- *.
      destruct (get l p) as [e|err]; [|discriminate]. cbn [bind] in Hy |- *. inversion Hy; subst.
      rewrite IH. reflexivity.
    + cbn [app]. exact IH.
Qed.

(* ---------------------------------------------------------------- extensionality in the continuation *)
Lemma jag_ind' (P : jag -> Prop)
    (HI : forall ix, P (JInts ix)) (HB : forall m, P (JBools m))
    (HL : forall subs, Forall (fun o : option jag => match o with Some j => P j | None => True end) subs -> P (JLists subs)) :
  forall j, P j.
Proof.
  fix IH 1. intros [ix|m|subs]; [apply HI|apply HB|]. apply HL.
  induction subs as [|o s IHs]; constructor; [|exact IHs]. destruct o as [j'|]; [apply IH|exact I].
Qed.

Lemma jag_apply_ext k k' : (forall e, k e = k' e) -> forall j l, jag_apply k j l = jag_apply k' j l.
Proof.
  intros Hk j. induction j as [ix|m|subs IH] using jag_ind'; intros l.
  - rewrite !jag_apply_ints. apply mapM_ext_in. intros [i|] _; cbn [pick1]; [|reflexivity].
    destruct (wrap_at (zlen l) i) as [p|]; [|reflexivity]. cbn [bind]. destruct (get l p); [|reflexivity]. cbn [bind]. apply Hk.
  - cbn [jag_apply]. destruct (negb (zlen m =? zlen l)); [reflexivity|]. f_equal. apply flat_map_ext.
    intros [[[|]|] e]; cbn [fst snd]; try reflexivity. rewrite Hk. reflexivity.
  - rewrite !jag_apply_lists. revert l. induction IH as [|o subs Ho _ IHs]; intros [|e l]; try reflexivity.
    cbn [jl_go]. rewrite IHs. destruct o as [j'|]; [|reflexivity].
    destruct e; try reflexivity. rewrite Ho. reflexivity.
Qed.

Lemma cont1_nil t e : cont1 [] t e = Ok e.
Proof. reflexivity. Qed.

(* ---------------------------------------------------------------- the index alone: the whole operation *)
Lemma sg_no_items f sz t vs : sg (S f) None sz t [Some vs] [] None = Ok (TList sz None t, [VList vs]).
Proof. reflexivity. Qed.

Ltac dis := let H := fresh in intros H; discriminate H.

Theorem adv_index_alone depth topopt j t vs r :
  getitem_adv_spec [] (AIdx depth topopt j) [] t vs = Ok r ->
  exists l, jag_apply Ok j vs = Ok l /\ r = VList l.
Proof.
  unfold getitem_adv_spec. cbn [forallb existsb negb orb length app is_at andb].
  destruct depth as [|d]; [dis|].
  change (items_fuel []) with (S 31). rewrite sg_no_items. cbn [bind fst snd Z.of_nat Z.ltb Z.compare andb elem_ty].
  rewrite !andb_false_r. cbn [negb andb].
  match goal with |- context [if ?b then _ else _] => destruct b end; [dis|].
  cbn [so_ty]. destruct (elem_ty d t) as [te|e]; [|dis]. cbn [bind cont at_depth].
  rewrite (jag_apply_ext (cont1 [] te) Ok (cont1_nil te)).
  destruct (jag_apply Ok j vs) as [l|e]; [|dis]. cbn [rmap]. intros H. inversion H. exists l. split; reflexivity.
Qed.

(* ---------------------------------------------------------------- index arrays with missing values (1-d) *)
Theorem missing_index_none_exactly_ topopt ix t vs r :
  getitem_adv_spec [] (AIdx 1 topopt (JInts ix)) [] t vs = Ok r ->
  exists l, r = VList l /\ zlen l = zlen ix /\
  forall k o, get ix k = Ok o ->
    match o with
    | None => get l k = Ok VNone
    | Some i => exists p, wrap_at (zlen vs) i = Ok p /\ get l k = get vs p /\ exists e, get vs p = Ok e
    end.
Proof.
  intros H. destruct (adv_index_alone _ _ _ _ _ _ H) as (l & Hl & ->). exists l. split; [reflexivity|].
  apply missing_index_pointwise, Hl.
Qed.

Theorem missing_index_is_integer_selection_ topopt ix t vs r :
  getitem_adv_spec [] (AIdx 1 topopt (JInts ix)) [] t vs = Ok r ->
  exists l, r = VList l /\ getitem_spec [IArray (somes ix)] t vs = Ok [VList (at_somes ix l)].
Proof.
  intros H. destruct (adv_index_alone _ _ _ _ _ _ H) as (l & Hl & ->). exists l. split; [reflexivity|].
  rewrite getitem_spec_array, (missing_index_is_array_selection _ _ _ Hl). reflexivity.
Qed.

Theorem missing_index_out_of_range_errors_ topopt ix t vs i :
  In (Some i) ix -> ~ (- zlen vs <= i < zlen vs) ->
  forall r, getitem_adv_spec [] (AIdx 1 topopt (JInts ix)) [] t vs <> Ok r.
Proof.
  intros Hin Hr r H. destruct (adv_index_alone _ _ _ _ _ _ H) as (l & Hl & _).
  eapply missing_index_out_of_range; eassumption.
Qed.

(* ---------------------------------------------------------------- jagged index arrays *)
Theorem jagged_level_by_level_ depth topopt subs t vs r :
  getitem_adv_spec [] (AIdx depth topopt (JLists subs)) [] t vs = Ok r ->
  exists l, r = VList l /\ zlen l = zlen subs /\ zlen subs = zlen vs /\
  forall i oj e, get subs i = Ok oj -> get vs i = Ok e ->
    match oj with
    | None => get l i = Ok VNone
    | Some j' =>
        match e with
        | VList l1 => exists r1, jag_apply Ok j' l1 = Ok r1 /\ get l i = Ok (VList r1)
        | VNone => get l i = Ok VNone
        | _ => False
        end
    end.
Proof.
  intros H. destruct (adv_index_alone _ _ _ _ _ _ H) as (l & Hl & ->). exists l. split; [reflexivity|].
  rewrite jag_apply_lists in Hl. destruct (jl_go_len _ _ _ _ Hl) as [H1 H2]. split; [exact H1|]. split; [exact H2|].
  intros i oj e Hs He. eapply jl_go_get; eassumption.
Qed.

Theorem jagged_lengths_ depth topopt subs t vs r i ix l1 :
  getitem_adv_spec [] (AIdx depth topopt (JLists subs)) [] t vs = Ok r ->
  get subs i = Ok (Some (JInts ix)) -> get vs i = Ok (VList l1) ->
  exists l r1, r = VList l /\ zlen l = zlen vs /\ get l i = Ok (VList r1) /\ zlen r1 = zlen ix.
Proof.
  intros H Hs He. destruct (jagged_level_by_level_ _ _ _ _ _ _ H) as (l & -> & H1 & H2 & Hp).
  specialize (Hp _ _ _ Hs He). cbn in Hp. destruct Hp as (r1 & Hr1 & Hg). exists l, r1.
  split; [reflexivity|]. split; [lia|]. split; [exact Hg|]. apply missing_index_pointwise in Hr1. apply Hr1.
Qed.

Theorem jagged_members_ depth topopt subs t vs r i ix l1 :
  getitem_adv_spec [] (AIdx depth topopt (JLists subs)) [] t vs = Ok r ->
  get subs i = Ok (Some (JInts ix)) -> get vs i = Ok (VList l1) ->
  exists l r1, r = VList l /\ get l i = Ok (VList r1) /\ forall v, In v r1 -> v = VNone \/ In v l1.
Proof.
  intros H Hs He. destruct (jagged_level_by_level_ _ _ _ _ _ _ H) as (l & -> & H1 & H2 & Hp).
  specialize (Hp _ _ _ Hs He). cbn in Hp. destruct Hp as (r1 & Hr1 & Hg). exists l, r1.
  split; [reflexivity|]. split; [exact Hg|]. intros v Hv. eapply ints_members; eassumption.
Qed.

Theorem jagged_out_of_range_errors_ depth topopt subs t vs i ix l1 p :
  get subs i = Ok (Some (JInts ix)) -> get vs i = Ok (VList l1) ->
  In (Some p) ix -> ~ (- zlen l1 <= p < zlen l1) ->
  forall r, getitem_adv_spec [] (AIdx depth topopt (JLists subs)) [] t vs <> Ok r.
Proof.
  intros Hs He Hin Hr r H. destruct (jagged_level_by_level_ _ _ _ _ _ _ H) as (l & -> & H1 & H2 & Hp).
  specialize (Hp _ _ _ Hs He). cbn in Hp. destruct Hp as (r1 & Hr1 & _).
  eapply missing_index_out_of_range; eassumption.
Qed.

Theorem jagged_length_mismatch_errors_ depth topopt subs t vs :
  zlen subs <> zlen vs ->
  forall r, getitem_adv_spec [] (AIdx depth topopt (JLists subs)) [] t vs <> Ok r.
Proof.
  intros Hne r H. destruct (jagged_level_by_level_ _ _ _ _ _ _ H) as (l & _ & _ & H2 & _). contradiction.
Qed.

(* ---------------------------------------------------------------- n-d integer arrays *)
(* selecting with an n-d array = selecting with its raveled 1-d array (the EXISTING specification), the dimension of the
   index regrouped by the shape *)
Theorem nd_array_is_flat_then_reshape_ pre shape data post t vs :
  forallb is_range pre = true -> existsb is_array post = false -> at_after_basic false post = false ->
  shape_ok shape (zlen data) = true ->
  getitem_adv_spec pre (ANd shape data) post t vs =
  do r <- getitem_spec (pre ++ IArray data :: post) t vs;
  match r with [v] => reshape_at (length pre) shape v | _ => Err EOob end.
Proof. intros H1 H2 H3 H4. unfold getitem_adv_spec. rewrite H1, H2, H3, H4. reflexivity. Qed.

Theorem nd_array_alone_ shape data t vs :
  shape_ok shape (zlen data) = true ->
  getitem_adv_spec [] (ANd shape data) [] t vs =
  do xs <- mapM (fun i => at_spec i vs) data; Ok (shape_nest shape xs).
Proof.
  intros H. rewrite nd_array_is_flat_then_reshape_ by (try reflexivity; exact H).
  cbn [app length]. rewrite getitem_spec_array. destruct (mapM (fun i => at_spec i vs) data); reflexivity.
Qed.

Theorem nd_array_out_of_range_errors_ shape data t vs i :
  In i data -> ~ (- zlen vs <= i < zlen vs) ->
  forall r, getitem_adv_spec [] (ANd shape data) [] t vs <> Ok r.
Proof.
  intros Hin Hr r H. destruct (shape_ok shape (zlen data)) eqn:Es.
  - rewrite nd_array_alone_ in H by exact Es.
    destruct (mapM (fun i => at_spec i vs) data) as [xs|e] eqn:E; [|discriminate].
    destruct (mapM_Ok_In _ _ _ _ E Hin) as (y & Hy & _). unfold at_spec in Hy.
    destruct (wrap_at (zlen vs) i) as [p|e] eqn:Ew; [|discriminate].
    apply Hr. apply (proj1 (wrap_at_error (zlen vs) i)). exists p. exact Ew.
  - unfold getitem_adv_spec in H. cbn [forallb existsb negb orb] in H. rewrite Es in H. discriminate.
Qed.

(* the shape of the result: the shape of the index, then whatever the selected elements are *)
Fixpoint has_shape (shape : list Z) (v : value) : Prop :=
  match shape with
  | [] => True
  | d :: ds => exists l, v = VList l /\ zlen l = d /\ Forall (has_shape ds) l
  end.
(* row-major order: reading the nested result back gives the flat selection *)
Fixpoint ravel_value (n : nat) (v : value) : list value :=
  match n with
  | O => [v]
  | S n' => match v with VList l => flat_map (ravel_value n') l | _ => [] end
  end.

Lemma take_0 {A} (l : list A) : take 0 l = [].
Proof. reflexivity. Qed.
Lemma chunks_nat_zlen {A} n : 0 <= n -> forall k (vs : list A),
  Z.of_nat k * n <= zlen vs -> Forall (fun c => zlen c = n) (chunks_nat vs n k).
Proof.
  intros Hn. induction k as [|k IH]; intros vs Hk; cbn [chunks_nat]; constructor.
  - apply zlen_take. nia.
  - apply IH. rewrite zlen_drop by nia. nia.
Qed.
Lemma chunks_nat_concat_id {A} n : 0 <= n -> forall k (vs : list A),
  Z.of_nat k * n = zlen vs -> concat (chunks_nat vs n k) = vs.
Proof.
  intros Hn. induction k as [|k IH]; intros vs Hk; cbn [chunks_nat concat].
  - symmetry. apply zlen_0_nil. lia.
  - rewrite IH; [apply take_drop_id|]. rewrite zlen_drop by nia. nia.
Qed.

Lemma shape_ok_cons d ds n : shape_ok (d :: ds) n = true -> 0 <= d /\ forallb (fun d => 0 <=? d) ds = true /\ d * prodZ ds = n.
Proof. unfold shape_ok. cbn [forallb prodZ fold_right]. intros H. apply andb_prop in H as [H1 H2]. apply andb_prop in H1 as [H0 H1]. repeat split; [lia|exact H1|]. unfold prodZ. lia. Qed.
Lemma prodZ_nonneg ds : forallb (fun d => 0 <=? d) ds = true -> 0 <= prodZ ds.
Proof. induction ds as [|d ds IH]; cbn [forallb prodZ fold_right]; [lia|]. intros H. apply andb_prop in H as [H0 H1]. specialize (IH H1). unfold prodZ in *. nia. Qed.

Lemma shape_nest_has_shape shape : forall l, shape_ok shape (zlen l) = true -> has_shape shape (shape_nest shape l).
Proof.
  induction shape as [|d ds IH]; intros l H; [discriminate|].
  destruct (shape_ok_cons _ _ _ H) as (Hd & Hds & Hp). destruct ds as [|d2 ds'].
  - cbn [shape_nest has_shape]. exists l. split; [reflexivity|]. split; [cbn in Hp; lia|]. apply Forall_forall. intros; exact I.
  - cbn [shape_nest]. cbn [has_shape]. eexists. split; [reflexivity|]. split.
    + rewrite zlen_map. unfold zlen. rewrite chunks_nat_length. lia.
    + apply Forall_forall. intros v Hv. apply in_map_iff in Hv as (c & <- & Hc).
      pose proof (prodZ_nonneg _ Hds) as Hnn.
      pose proof (chunks_nat_zlen (prodZ (d2 :: ds')) Hnn (Z.to_nat d) l) as Hz.
      rewrite Forall_forall in Hz. specialize (Hz ltac:(lia) c Hc).
      apply IH. unfold shape_ok. rewrite Hds, Hz, Z.eqb_refl. reflexivity.
Qed.

Lemma flat_map_single {A} (l : list A) : flat_map (fun v => [v]) l = l.
Proof. induction l as [|x l IH]; [reflexivity|]. cbn. rewrite IH. reflexivity. Qed.

Lemma shape_nest_ravel shape : forall l, shape_ok shape (zlen l) = true -> ravel_value (length shape) (shape_nest shape l) = l.
Proof.
  induction shape as [|d ds IH]; intros l H; [discriminate|].
  destruct (shape_ok_cons _ _ _ H) as (Hd & Hds & Hp). destruct ds as [|d2 ds'].
  - cbn [shape_nest length ravel_value]. apply flat_map_single.
  - cbn [shape_nest]. change (length (d :: d2 :: ds')) with (S (length (d2 :: ds'))). cbn [ravel_value].
    pose proof (prodZ_nonneg _ Hds) as Hnn.
    rewrite flat_map_concat_map, map_map.
    rewrite (map_ext_in _ (fun c => c)).
    + rewrite map_id. apply chunks_nat_concat_id; [exact Hnn|lia].
    + intros c Hc. pose proof (chunks_nat_zlen (prodZ (d2 :: ds')) Hnn (Z.to_nat d) l) as Hz.
      rewrite Forall_forall in Hz. specialize (Hz ltac:(lia) c Hc).
      apply IH. unfold shape_ok. rewrite Hds, Hz, Z.eqb_refl. reflexivity.
Qed.

Theorem nd_array_shape_ shape data t vs r :
  getitem_adv_spec [] (ANd shape data) [] t vs = Ok r ->
  has_shape shape r /\
  exists xs, mapM (fun i => at_spec i vs) data = Ok xs /\ ravel_value (length shape) r = xs /\
             getitem_spec [IArray data] t vs = Ok [VList xs].
Proof.
  intros H. destruct (shape_ok shape (zlen data)) eqn:Es.
  - rewrite nd_array_alone_ in H by exact Es.
    destruct (mapM (fun i => at_spec i vs) data) as [xs|e] eqn:E; [|discriminate]. cbn [bind] in H. inversion H; subst.
    assert (Hz : zlen xs = zlen data) by (eapply mapM_zlen, E). rewrite <- Hz in Es.
    split; [apply shape_nest_has_shape, Es|]. exists xs. split; [reflexivity|]. split; [apply shape_nest_ravel, Es|].
    rewrite getitem_spec_array, E. reflexivity.
  - unfold getitem_adv_spec in H. cbn [forallb existsb negb orb] in H. rewrite Es in H. discriminate.
Qed.

(* ---------------------------------------------------------------- boolean masks = the positions of the true entries *)
Lemma nonzero_1d n bits : nonzero [n] bits = [true_positions bits].
Proof.
  unfold nonzero. cbn [length seq map]. f_equal. rewrite map_map.
  rewrite (map_ext _ (fun k => k)); [apply map_id|]. intros k. cbn [unravel nth prodZ fold_right]. apply Z.div_1_r.
Qed.

Theorem boolean_array_is_nonzero_ bits t vs :
  zlen bits = zlen vs ->
  getitem_adv_spec [] (ABool [zlen vs] bits) [] t vs =
  do r <- getitem_spec [IArray (true_positions bits)] t vs; match r with [v] => Ok v | _ => Err EOob end.
Proof.
  intros H. unfold getitem_adv_spec. cbn [forallb existsb negb orb]. unfold shape_ok. cbn [forallb prodZ fold_right].
  pose proof (zlen_nonneg vs) as Hn.
  replace ((0 <=? zlen vs) && true && (zlen vs * 1 =? zlen bits)) with true by lia. cbn [negb].
  rewrite Z.eqb_refl. cbn [andb negb at_after_basic orb]. rewrite nonzero_1d. cbn [map app]. reflexivity.
Qed.

Definition mask_pick (be : option bool * value) : list (res value) :=
  match fst be with None => [Ok VNone] | Some true => [Ok (snd be)] | Some false => [] end.
Definition pos_pick (bk : bool * Z) : list Z := if fst bk then [snd bk] else [].

Lemma bools_gen bits : forall l pre, length bits = length l ->
  mapM (fun r : res value => r) (flat_map mask_pick (zip (map Some bits) l)) =
  mapM (get (pre ++ l)) (flat_map pos_pick (zip bits (iota_nat (zlen pre) (length bits)))).
Proof.
  induction bits as [|b bits IH]; intros [|x l] pre Hlen; try discriminate; [reflexivity|].
  cbn [map zip flat_map length iota_nat]. injection Hlen as Hlen.
  specialize (IH l (pre ++ [x]) Hlen). rewrite <- app_assoc in IH. cbn [app] in IH. rewrite zlen_app in IH.
  change (zlen [x]) with 1 in IH.
  destruct b; unfold mask_pick at 1, pos_pick at 1; cbn [fst snd app].
  - cbn [mapM]. rewrite get_app2 by lia. rewrite Z.sub_diag, get_cons_0. cbn [bind]. rewrite IH. reflexivity.
  - exact IH.
Qed.

(* a mask without missing values, of the length of the list: the elements at the true positions, in order *)
Theorem mask_is_true_positions_ bits l :
  zlen bits = zlen l ->
  jag_apply Ok (JBools (map Some bits)) l = mapM (get l) (true_positions bits).
Proof.
  intros H. cbn [jag_apply]. rewrite zlen_map. replace (negb (zlen bits =? zlen l)) with false by lia.
  pose proof (bools_gen bits l [] (zlen_eq_length _ _ H)) as Hg. cbn [app] in Hg.
  unfold true_positions, iota. change (zlen (@nil value)) with 0 in Hg.
  replace (Z.to_nat (zlen bits)) with (length bits) by (unfold zlen; lia). exact Hg.
Qed.

(* ---------------------------------------------------------------- examples (the documented ones of ak.Array.__getitem__) *)
Definition fv (z : Z) : value := VNum (DZ z).
Definition tfl := TNum DFloat64.
Definition tvar (t : ty) := TList None None t.
(* ak.Array([1.1 .. 9.9])[[0, 1, None, None, 7, 8]]  (values x10) *)
Example ex_missing_index :
  getitem_adv_spec [] (AIdx 1 true (JInts [Some 0; Some 1; None; None; Some 7; Some (-1)])) [] tfl
                   (map fv [11; 22; 33; 44; 55; 66; 77; 88; 99])
  = Ok (VList [fv 11; fv 22; VNone; VNone; fv 88; fv 99]).
Proof. vm_compute. reflexivity. Qed.
(* ... [[False, False, False, False, True, None, True, None, True]] *)
Example ex_missing_mask :
  getitem_adv_spec [] (AIdx 1 true (JBools [Some false; Some false; Some false; Some false; Some true; None; Some true; None; Some true])) [] tfl
                   (map fv [11; 22; 33; 44; 55; 66; 77; 88; 99])
  = Ok (VList [fv 55; VNone; fv 77; VNone; fv 99]).
Proof. vm_compute. reflexivity. Qed.
(* array = [[[0.0, 1.1, 2.2], [], [3.3, 4.4]], [], [[5.5]]] *)
Definition doc_array : list value :=
  [VList [VList [fv 0; fv 11; fv 22]; VList []; VList [fv 33; fv 44]]; VList []; VList [VList [fv 55]]].
(* array[[[1, 2], [], [0]]] *)
Example ex_jagged :
  getitem_adv_spec [] (AIdx 2 false (JLists [Some (JInts [Some 1; Some 2]); Some (JInts []); Some (JInts [Some 0])])) []
                   (tvar (tvar tfl)) doc_array
  = Ok (VList [VList [VList []; VList [fv 33; fv 44]]; VList []; VList [VList [fv 55]]]).
Proof. vm_compute. reflexivity. Qed.
(* array[[[[False, True, False], [], [True, False]], [], [[False]]]] *)
Example ex_jagged_mask :
  getitem_adv_spec [] (AIdx 3 false (JLists [Some (JLists [Some (JBools [Some false; Some true; Some false]); Some (JBools []);
                                                             Some (JBools [Some true; Some false])]);
                                             Some (JLists []); Some (JLists [Some (JBools [Some false])])])) []
                   (tvar (tvar tfl)) doc_array
  = Ok (VList [VList [VList [fv 11]; VList []; VList [fv 33]]; VList []; VList [VList []]]).
Proof. vm_compute. reflexivity. Qed.
(* array[np.argmax(array, axis=-1)] = array[[[2, None, 1], [], [0]]] *)
Example ex_jagged_none :
  getitem_adv_spec [] (AIdx 2 false (JLists [Some (JInts [Some 2; None; Some 1]); Some (JInts []); Some (JInts [Some 0])])) []
                   (tvar (tvar tfl)) doc_array
  = Ok (VList [VList [VList [fv 33; fv 44]; VNone; VList []]; VList []; VList [VList [fv 55]]]).
Proof. vm_compute. reflexivity. Qed.
(* array[[[[0, None, 2, None, None], None, [1]], None, [[0]]]] *)
Example ex_jagged_none_above :
  getitem_adv_spec [] (AIdx 3 true (JLists [Some (JLists [Some (JInts [Some 0; None; Some 2; None; None]); None; Some (JInts [Some 1])]);
                                            None; Some (JLists [Some (JInts [Some 0])])])) []
                   (tvar (tvar tfl)) doc_array
  = Ok (VList [VList [VList [fv 0; VNone; fv 22; VNone; VNone]; VNone; VList [fv 44]]; VNone; VList [VList [fv 55]]]).
Proof. vm_compute. reflexivity. Qed.
(* an index out of range for the list it addresses / an index of the wrong length: an error *)
Example ex_jagged_out_of_range :
  getitem_adv_spec [] (AIdx 2 false (JLists [Some (JInts [Some 1; Some 3]); Some (JInts []); Some (JInts [Some 0])])) []
                   (tvar (tvar tfl)) doc_array = Err EValue.
Proof. vm_compute. reflexivity. Qed.
Example ex_jagged_wrong_length :
  getitem_adv_spec [] (AIdx 2 false (JLists [Some (JInts [Some 1]); Some (JInts [])])) [] (tvar (tvar tfl)) doc_array = Err EValue.
Proof. vm_compute. reflexivity. Qed.
(* NumPy: x[np.array([[0, 1], [2, 0]])] on lists, and below a leading range, followed by a range *)
Example ex_nd_array :
  getitem_adv_spec [] (ANd [2; 2] [0; 1; 2; 0]) [] (tvar tfl) [VList [fv 0; fv 11; fv 22]; VList []; VList [fv 33]]
  = Ok (VList [VList [VList [fv 0; fv 11; fv 22]; VList []]; VList [VList [fv 33]; VList [fv 0; fv 11; fv 22]]]).
Proof. vm_compute. reflexivity. Qed.
Example ex_nd_array_below_range :
  getitem_adv_spec [IRange None None None] (ANd [2; 2] [0; 1; 2; 0]) [] (TList (Some 3) None tfl)
                   [VList [fv 0; fv 11; fv 22]; VList [fv 33; fv 44; fv 55]]
  = Ok (VList [VList [VList [fv 0; fv 11]; VList [fv 22; fv 0]]; VList [VList [fv 33; fv 44]; VList [fv 55; fv 33]]]).
Proof. vm_compute. reflexivity. Qed.
Example ex_nd_array_rank3_then_range :
  getitem_adv_spec [] (ANd [2; 1; 2] [0; 1; 1; 0]) [IRange None None (Some (-1))] (TList (Some 2) None tfl)
                   [VList [fv 0; fv 11]; VList [fv 22; fv 33]]
  = Ok (VList [VList [VList [VList [fv 11; fv 0]; VList [fv 33; fv 22]]]; VList [VList [VList [fv 33; fv 22]; VList [fv 11; fv 0]]]]).
Proof. vm_compute. reflexivity. Qed.
(* a 2 x 3 boolean array on a 2 x 3 array: the true entries in row-major order *)
Example ex_boolean_array :
  getitem_adv_spec [] (ABool [2; 3] [true; false; true; false; true; false]) [] (TList (Some 3) None tfl)
                   [VList [fv 0; fv 11; fv 22]; VList [fv 33; fv 44; fv 55]]
  = Ok (VList [fv 0; fv 22; fv 44]).
Proof. vm_compute. reflexivity. Qed.
(* a jagged index below a leading range, a field after a missing-value index *)
Example ex_jagged_below_range_then_field :
  getitem_adv_spec [IRange None None (Some (-1))] (AIdx 2 false (JLists [Some (JInts [Some 0]); Some (JInts [Some (-1); None])]))
                   [IField [120]] (tvar (tvar (TRec (Some [[120]; [121]]) [tfl; tfl])))
                   [VList [VList [VRec [([120], fv 1); ([121], fv 2)]]; VList [VRec [([120], fv 3); ([121], fv 4)]; VRec [([120], fv 5); ([121], fv 6)]]]]
  = Ok (VList [VList [VList [fv 1]; VList [fv 5; VNone]]]).
Proof. vm_compute. reflexivity. Qed.
