(** Proofs_C13g.v -- k_safe / k_spec for jagged-slicing kernels and pointwise characterisations (models of Kernels2.v) *)
From Coq Require Import ZArith List Bool Lia ZifyBool.
From AwkV Require Import Base.
From AwkKernels Require Import Kernels KLemmas Proofs_C13 Proofs_C13b Proofs_C13c.
From AwkKernels Require Export Kernels2.
From AwkKernels Require Import Proofs_C13e Proofs_C13f.
Import ListNotations.
Open Scope Z_scope.

Ltac Zify.zify_post_hook ::= Z.to_euclidean_division_equations.

Lemma lift_ok_inv {A} (r : kres A) a : lift r = XOk a -> r = KOk a.
Proof. destruct r; cbn; congruence. Qed.

(* ================================================================================================ *)
(** * awkward_ListArray_getitem_jagged_descend *)
Theorem ListArray_getitem_jagged_descend_safe tC tooffsets slicestarts slicestops n fromstarts fromstops :
  0 <= n -> n <= zlen slicestarts -> n <= zlen slicestops -> n <= zlen fromstarts -> n <= zlen fromstops ->
  n < zlen tooffsets ->
  ListArray_getitem_jagged_descend tC tooffsets slicestarts slicestops n fromstarts fromstops <> XOob.
Proof.
  intros H0 H1 H2 H3 H4 H5. unfold ListArray_getitem_jagged_descend.
  assert (I : exists to0, (if n =? 0 then xupd tooffsets 0 0
                           else let+ s0 := xget slicestarts 0 in xupd tooffsets 0 s0) = XOk to0
                          /\ zlen to0 = zlen tooffsets).
  { destruct (n =? 0) eqn:E; xstep; eexists; split; eauto; apply zlen_set_nth. }
  destruct I as (to0 & -> & L0). cbn [xbind].
  apply (xfor_noob _ (fun _ s => zlen s = zlen tooffsets) 0 n); auto.
  intros j s Hj L. xstep.
  destruct (negb (at_ slicestops j - at_ slicestarts j =? wrap tC (at_ fromstops j - at_ fromstarts j)));
    cbn [xcheck xbind]; [split; congruence|].
  xstep. xdone.
Qed.

(* ================================================================================================ *)
(** * awkward_ListArray_getitem_jagged_numvalid *)
Theorem ListArray_getitem_jagged_numvalid_safe numvalid slicestarts slicestops n missing missinglength :
  n <= zlen slicestarts -> n <= zlen slicestops -> 1 <= zlen numvalid -> missinglength <= zlen missing ->
  (forall i, 0 <= i < n -> 0 <= at_ slicestarts i) ->
  ListArray_getitem_jagged_numvalid numvalid slicestarts slicestops n missing missinglength <> XOob.
Proof.
  intros H1 H2 H3 H4 Hs. unfold ListArray_getitem_jagged_numvalid. xstep.
  apply (xfor_noob _ (fun _ s => zlen s = zlen numvalid) 0 n).
  - apply zlen_set_nth.
  - intros i s Hi L. specialize (Hs i Hi). xstep.
    destruct (negb (at_ slicestarts i =? at_ slicestops i)); [|xdone].
    destruct (at_ slicestops i <? at_ slicestarts i) eqn:E1; cbn [xcheck xbind]; [split; congruence|].
    destruct (missinglength <? at_ slicestops i) eqn:E2; cbn [xcheck xbind]; [split; congruence|].
    match goal with |- context [kfor ?lo ?hi ?bb ?ss] =>
      destruct (kfor_noob bb (fun _ o => zlen o = zlen numvalid) lo hi ss) as (N & P) end; auto.
    + intros j o Hj Lo. kstep. kdone.
    + split; [now apply lift_noob|]. intros s' Es. apply lift_ok_inv in Es. apply P; auto. lia.
Qed.

(* ================================================================================================ *)
(** * awkward_ListArray_getitem_jagged_carrylen: the total length of the slices *)
Theorem ListArray_getitem_jagged_carrylen_spec x slicestarts slicestops :
  zlen slicestarts = zlen slicestops ->
  ListArray_getitem_jagged_carrylen [x] slicestarts slicestops (zlen slicestarts)
  = KOk [sumZ (map (fun p => snd p - fst p) (zip slicestarts slicestops))].
Proof.
  intros H. pose proof (zlen_nonneg slicestarts) as Hn. unfold ListArray_getitem_jagged_carrylen.
  rewrite kupd0. cbn [kbind].
  destruct (kfor_inv
    (fun i c => let* e := kget slicestops i in let* s := kget slicestarts i in let* cur := kget c 0 in kupd c 0 (cur + (e - s)))
    (fun j c => c = [sumZ (map (fun p => snd p - fst p) (zip (firstn (Z.to_nat j) slicestarts) (firstn (Z.to_nat j) slicestops)))])
    0 (zlen slicestarts) [0]) as (s' & E & P); auto.
  - intros j c Hj ->. rewrite (kget_at slicestops), (kget_at slicestarts) by lia. cbn [kbind].
    rewrite kget_at by (cbn; lia). cbn [kbind]. rewrite kupd0. eexists; split; [reflexivity|].
    replace (Z.to_nat (j + 1)) with (S (Z.to_nat j)) by lia.
    rewrite zip_firstn_snoc by (unfold zlen in *; lia). rewrite map_app, sumZ_app. f_equal.
    unfold at_ at 1. change (Z.to_nat 0) with O. cbn [nth map fst snd]. unfold sumZ. cbn [fold_right]. unfold at_. lia.
  - rewrite E, P. rewrite !firstn_all2 by (unfold zlen in *; lia). reflexivity.
Qed.

(* ================================================================================================ *)
(** * awkward_carry_SliceJagged64_offsets *)
Theorem carry_SliceJagged64_offsets_safe tooffsets fromoffsets fromcarry n :
  0 <= n <= zlen fromcarry -> n < zlen tooffsets ->
  (forall i, 0 <= i < n -> 0 <= at_ fromcarry i /\ at_ fromcarry i + 1 < zlen fromoffsets) ->
  carry_SliceJagged64_offsets tooffsets fromoffsets fromcarry n <> KOob.
Proof.
  intros H1 H2 Hc. unfold carry_SliceJagged64_offsets. rewrite kupd_ok by lia. cbn [kbind].
  apply (kfor_noob _ (fun _ o => zlen o = zlen tooffsets) 0 n).
  - apply zlen_set_nth.
  - intros i o Hi L. destruct (Hc i Hi). kstep. kdone.
Qed.

(* ================================================================================================ *)
(** * awkward_UnionArray_simplify_one: pointwise characterisation *)
Theorem UnionArray_simplify_one_spec totags toindex fromtags fromindex towhich fromwhich n base :
  0 <= n -> n <= zlen fromtags -> n <= zlen fromindex -> n <= zlen totags -> n <= zlen toindex ->
  exists tg ix, UnionArray_simplify_one TIdeal totags toindex fromtags fromindex towhich fromwhich n base = KOk (tg, ix) /\
    zlen tg = zlen totags /\ zlen ix = zlen toindex /\
    forall q, 0 <= q ->
      at_ tg q = (if (q <? n) && (at_ fromtags q =? fromwhich) then towhich else at_ totags q) /\
      at_ ix q = (if (q <? n) && (at_ fromtags q =? fromwhich) then at_ fromindex q + base else at_ toindex q).
Proof.
  intros H0 H1 H2 H3 H4. unfold UnionArray_simplify_one.
  match goal with |- context [kfor 0 n ?bb ?ss] =>
    destruct (kfor_inv bb (fun j (st : list Z * list Z) =>
      zlen (fst st) = zlen totags /\ zlen (snd st) = zlen toindex /\
      forall q, 0 <= q ->
        at_ (fst st) q = (if (q <? j) && (at_ fromtags q =? fromwhich) then towhich else at_ totags q) /\
        at_ (snd st) q = (if (q <? j) && (at_ fromtags q =? fromwhich) then at_ fromindex q + base else at_ toindex q))
      0 n ss) as ([tg ix] & E & L1 & L2 & A) end; auto.
  - cbn [fst snd]. repeat split; auto; replace (q <? 0) with false by lia; reflexivity.
  - intros j [t i] Hj (L1 & L2 & A). cbn [fst snd] in *. kstep.
    destruct (at_ fromtags j =? fromwhich) eqn:Et.
    + kstep. eexists; split; [reflexivity|]. cbn [fst snd wrap]. rewrite !zlen_set_nth. repeat split; auto.
      * rewrite at_set_nth by (unfold zlen in *; lia). destruct (A q H) as (A1 & _). rewrite A1.
        destruct (Z.eq_dec q j) as [->|Nq].
        -- replace (j =? Z.of_nat (Z.to_nat j)) with true by lia. replace (j <? j + 1) with true by lia. now rewrite Et.
        -- replace (q =? Z.of_nat (Z.to_nat j)) with false by lia.
           replace (q <? j + 1) with (q <? j) by lia. reflexivity.
      * rewrite at_set_nth by (unfold zlen in *; lia). destruct (A q H) as (_ & A2). rewrite A2.
        destruct (Z.eq_dec q j) as [->|Nq].
        -- replace (j =? Z.of_nat (Z.to_nat j)) with true by lia. replace (j <? j + 1) with true by lia. now rewrite Et.
        -- replace (q =? Z.of_nat (Z.to_nat j)) with false by lia.
           replace (q <? j + 1) with (q <? j) by lia. reflexivity.
    + eexists; split; [reflexivity|]. cbn [fst snd]. repeat split; auto; destruct (A q H) as (A1 & A2).
      * rewrite A1. destruct (Z.eq_dec q j) as [->|Nq].
        -- replace (j <? j) with false by lia. replace (j <? j + 1) with true by lia. now rewrite Et.
        -- replace (q <? j + 1) with (q <? j) by lia. reflexivity.
      * rewrite A2. destruct (Z.eq_dec q j) as [->|Nq].
        -- replace (j <? j) with false by lia. replace (j <? j + 1) with true by lia. now rewrite Et.
        -- replace (q <? j + 1) with (q <? j) by lia. reflexivity.
  - exists tg, ix. cbn [fst snd] in *. auto.
Qed.
