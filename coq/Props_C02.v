(** C02 property theorems: the value of a layout does not depend on which of the interchangeable
    encodings represents it (proofs in Proofs_C09.v; per-operation layout-independence corollaries
    of the refinement theorems are added in Proofs_C02.v when present). *)
From AwkV Require Import Layout Carry Proofs_C09.
From AwkV Require Import Valid Types AtAxis Ops_Struct Proofs_Lists Proofs_ToList Proofs_Carry Proofs_AtAxis Proofs_AtAxisOps Proofs_C02.
From AwkV Require Import Ops_Reduce Proofs_Reduce Proofs_Reduce2.
From AwkV Require Import Ops_Sort Proofs_SortRef Proofs_SortRef2.
From AwkV Require Import Ops_Option Ops_Getitem Ops_Flatten Proofs_Fillna Proofs_Field Proofs_FlattenA Proofs_FlattenB Proofs_Flatten.
From AwkV Require Import Ops_Getitem Proofs_Getitem Proofs_Getitem2 Proofs_Getitem3 Proofs_Getitem4 Proofs_Getitem5 Proofs_Getitem6 Proofs_Getitem7.

Theorem byte_mask_encoding_irrelevant : forall m vw c vs,
  to_list c = Ok vs ->
  to_list (ByteMasked m vw c) =
  to_list (IndexedOption I64
             (map (fun im : Z * Z => let (i, b) := im in if Bool.eqb (negb (b =? 0)) vw then i else -1)
                  (zip (iota (zlen m)) m)) c).
Proof. exact bytemasked_as_indexedoption. Qed.
Print Assumptions byte_mask_encoding_irrelevant.

Theorem negative_index_encoding_irrelevant : forall w ix c vs,
  to_list c = Ok vs ->
  to_list (IndexedOption w ix c) = to_list (IndexedOption I64 (map (fun i => if i <? 0 then -1 else i) ix) c).
Proof. exact indexedoption_normalised. Qed.
Print Assumptions negative_index_encoding_irrelevant.

Theorem unmasked_encoding_irrelevant : forall c vs,
  to_list c = Ok vs -> zlen vs = clen c ->
  to_list (Unmasked c) = to_list (IndexedOption I64 (iota (clen c)) c).
Proof. exact unmasked_as_indexedoption. Qed.
Print Assumptions unmasked_encoding_irrelevant.

(* two valid layouts with the same type and the same value give the same observable result:
   corollaries of the refinement theorems (the result is a function of type and value only) *)
Theorem layout_independent_num : forall a b vs axis,
  Valid None a -> Valid None b -> frag a = true -> frag b = true ->
  to_list a = Ok vs -> to_list b = Ok vs -> type_of a = type_of b ->
  obs (num_model axis a) = obs (num_model axis b).
Proof. exact (fun a b vs axis Ha Hb Fa Fb La Lb T => layout_independent_num_partial a b vs Ha Hb Fa Fb La Lb T axis). Qed.
Print Assumptions layout_independent_num.

Theorem layout_independent_local_index : forall a b vs axis,
  Valid None a -> Valid None b -> frag a = true -> frag b = true ->
  to_list a = Ok vs -> to_list b = Ok vs -> type_of a = type_of b ->
  obs (localindex_model axis a) = obs (localindex_model axis b).
Proof. exact (fun a b vs axis Ha Hb Fa Fb La Lb T => layout_independent_localindex_partial a b vs Ha Hb Fa Fb La Lb T axis). Qed.
Print Assumptions layout_independent_local_index.

Theorem layout_independent_pad : forall a b vs target axis,
  Valid None a -> Valid None b -> frag a = true -> frag b = true ->
  to_list a = Ok vs -> to_list b = Ok vs -> type_of a = type_of b ->
  obs (rpad_model target axis a) = obs (rpad_model target axis b) /\
  obs (rpadclip_model target axis a) = obs (rpadclip_model target axis b).
Proof.
  exact (fun a b vs target axis Ha Hb Fa Fb La Lb T =>
           conj (layout_independent_rpad_partial a b vs Ha Hb Fa Fb La Lb T target axis)
                (layout_independent_rpadclip_partial a b vs Ha Hb Fa Fb La Lb T target axis)).
Qed.
Print Assumptions layout_independent_pad.

Theorem layout_independent_combinations : forall a b vs n repl axis,
  Valid None a -> Valid None b -> frag a = true -> frag b = true ->
  to_list a = Ok vs -> to_list b = Ok vs -> type_of a = type_of b ->
  obs (comb_model n repl axis a) = obs (comb_model n repl axis b).
Proof. exact (fun a b vs n repl axis Ha Hb Fa Fb La Lb T => layout_independent_combinations_partial a b vs Ha Hb Fa Fb La Lb T n repl axis). Qed.
Print Assumptions layout_independent_combinations.

Theorem layout_independent_carry : forall a b vs ix,
  Valid None a -> Valid None b -> to_list a = Ok vs -> to_list b = Ok vs ->
  Forall (fun i => 0 <= i < zlen vs) ix ->
  obs (carry a ix) = obs (carry b ix).
Proof. exact layout_independent_carry_partial. Qed.
Print Assumptions layout_independent_carry.

(* n-d NumpyArray and RegularArray chains are the same value and the same type *)
Theorem numpy_shape_is_regular_nesting : forall c,
  Valid None c -> frag c = true -> to_list (expand c) = to_list c /\ type_of (expand c) = type_of c.
Proof. exact (fun c H F => conj (expand_to_list c H F) (expand_type_of c H F)). Qed.
Print Assumptions numpy_shape_is_regular_nesting.


Theorem layout_independent_reduce_partial : forall r axis mask keepdims a b vs,
  Valid None a -> Valid None b -> fin a = true -> fin b = true ->
  to_list a = Ok vs -> to_list b = Ok vs -> type_of a = type_of b ->
  obs (reduce_model r axis mask keepdims a) = obs (reduce_model r axis mask keepdims b).
Proof. exact Proofs_Reduce2.layout_independent_reduce_partial. Qed.
Print Assumptions layout_independent_reduce_partial.

(* add to the imports of coq/Props_C02.v: *)

Theorem layout_independent_sort : forall asc argsort axis a b vs,
  Valid None a -> Valid None b -> sfrag a = true -> sfrag b = true ->
  to_list a = Ok vs -> to_list b = Ok vs -> type_of a = type_of b ->
  innermost axis (type_of a) = true ->
  obs (sort_model asc argsort axis a) = obs (sort_model asc argsort axis b).
Proof. exact layout_independent_sort_partial. Qed.
Print Assumptions layout_independent_sort.


(* fill_none: also independent of the layout of the value array; [ffrag] contains [frag] (Proofs_Fillna.frag_ffrag) *)
Theorem layout_independent_fillna : forall a b va vb vs v0s,
  Valid None a -> Valid None b -> ffrag a = true -> ffrag b = true ->
  to_list a = Ok vs -> to_list b = Ok vs -> type_of a = type_of b ->
  to_list va = Ok v0s -> to_list vb = Ok v0s ->
  obs (fillna_model va a) = obs (fillna_model vb b).
Proof. exact layout_independent_fillna_partial. Qed.
Print Assumptions layout_independent_fillna.

(* field projection: every valid layout, no fragment *)
Theorem layout_independent_field : forall k a b vs,
  Valid None a -> Valid None b -> to_list a = Ok vs -> to_list b = Ok vs -> type_of a = type_of b ->
  obs (field_content k a) = obs (field_content k b).
Proof. exact layout_independent_field_partial. Qed.
Print Assumptions layout_independent_field.

Theorem layout_independent_flatten_partial : forall a b vs axis,
  Valid None a -> Valid None b -> frag a = true -> frag b = true -> noempty a = true -> noempty b = true ->
  to_list a = Ok vs -> to_list b = Ok vs -> type_of a = type_of b ->
  obs (flatten_model axis a) = obs (flatten_model axis b).
Proof. exact Proofs_Flatten.layout_independent_flatten_partial. Qed.
Print Assumptions layout_independent_flatten_partial.

(* add to the imports of coq/Props_C02.v *)

(* slicing sees a layout only through its value and its type (fragment / side conditions: see Props_C01) *)
Theorem layout_independent_getitem : forall items a b vs,
  forallb item_ok items = true -> Valid None a -> Valid None b -> gfrag a = true -> gfrag b = true ->
  to_list a = Ok vs -> to_list b = Ok vs -> type_of a = type_of b ->
  slice_ok items a = true -> fuel_ok items a = true ->
  obs (getitem_model items a) = obs (getitem_model items b).
Proof. exact layout_independent_getitem_partial. Qed.
Print Assumptions layout_independent_getitem.
