(* bcastrun: evaluates the extracted Rocq model of _util.broadcast_and_apply and the value-level
   specification of broadcasting on the cases the implementation ran, and compares observations.
   input : (id ufunc NAME (arr LAYOUT)|(scalar N) ... (impl ok DUMP | err CLASS | crash))
   output: (id VERDICT ...) with VERDICT in  agree | viol | modeldiff | skip | crash | bad          *)
open C04model
open Sx
open Rd

let rec nat_of_int (n : int) : nat = if n <= 0 then O else S (nat_of_int (n - 1))

let canon = function
  | "op_add" -> "add" | "op_sub" -> "subtract" | "op_mul" -> "multiply" | "op_neg" -> "negative"
  | "op_abs" -> "absolute" | "op_lt" -> "less" | "op_le" -> "less_equal" | "op_gt" -> "greater"
  | "op_ge" -> "greater_equal" | "op_eq" -> "equal" | "op_ne" -> "not_equal" | s -> s

(* name -> (leaf function, broadcast_arrays output, arity or -1) *)
let ufn_of (name : string) : ufn * nat option * int =
  match canon name with
  | "add" -> (UAdd, None, 2) | "subtract" -> (USub, None, 2) | "multiply" -> (UMul, None, 2)
  | "negative" -> (UNeg, None, 1) | "absolute" -> (UAbs, None, 1) | "maximum" -> (UMax, None, 2)
  | "minimum" -> (UMin, None, 2) | "less" -> (ULt, None, 2) | "less_equal" -> (ULe, None, 2)
  | "greater" -> (UGt, None, 2) | "greater_equal" -> (UGe, None, 2) | "equal" -> (UEq, None, 2)
  | "not_equal" -> (UNe, None, 2) | "clip3" -> (UClip, None, 3)
  | s when String.length s = 5 && String.sub s 0 4 = "proj" ->
    let k = Char.code s.[4] - 48 in (UProj (nat_of_int k), Some (nat_of_int k), -1)
  | s -> bad ("unknown function " ^ s)

let rec has_par (c : content) : bool =
  match c with
  | Par (_, _, _) -> true
  | Numpy (_, _, _) | Empty -> false
  | ListOffset (_, _, c') | ListA (_, _, _, c') | Regular (c', _, _) | Indexed (_, _, c')
  | IndexedOption (_, _, c') | ByteMasked (_, _, c') | BitMasked (_, _, _, _, c') | Unmasked c' -> has_par c'
  | Union (_, _, _, cs) | Record (cs, _, _) -> List.exists has_par cs

let rec all_bool_ty (t : ty) : bool =
  match t with
  | TNum DBool | TUnk -> true
  | TNum _ -> false
  | TList (_, _, t') | TOpt t' -> all_bool_ty t'
  | TRec (_, ts) | TUnion ts -> List.for_all all_bool_ty ts

type arg = AArr of content | AScalar of z

let arg_of_sx = function
  | L [A "arr"; l] -> AArr (content_of_sx l)
  | L [A "scalar"; n] -> AScalar (z_of_sx n)
  | L [A "scalar"; A "int"; n] -> AScalar (z_of_sx n)
  | x -> bad ("argument: " ^ Sx.to_string x)

let split_last l =
  match List.rev l with
  | last :: rest -> (List.rev rest, last)
  | [] -> bad "empty case"

let spec_fuel_n = nat_of_int 400

let verdict id name (args : arg list) impl =
  let (u, bk, ar) = ufn_of name in
  if ar >= 0 && List.length args <> ar then bad "arity";
  let cs = List.filter_map (function AArr c -> Some c | _ -> None) args in
  if cs = [] then Printf.sprintf "(%s skip unsupported-all-scalars)" id
  else if not (List.for_all valid_b cs) then Printf.sprintf "(%s skip invalid-input)" id
  else if List.exists has_par cs then Printf.sprintf "(%s skip unsupported-parameters)" id
  else if List.exists (fun c -> has_union (type_of c)) cs then Printf.sprintf "(%s skip unsupported-union)" id
  else if ufn_refuses_bool u && List.for_all (fun c -> all_bool_ty (type_of c)) cs
          && not (List.exists (function AScalar _ -> true | _ -> false) args)
  then Printf.sprintf "(%s skip unspecified-numpy-bool)" id
  else begin
    let allow_rec = (bk <> None) in
    let sinputs = List.map (function
        | AArr c -> (match to_list c with Ok vs -> SArr (type_of c, vs) | Err _ -> bad "input-to_list")
        | AScalar z -> SScalar (false, z)) args in
    let spec = obs_of_list (spec_broadcast (ufn_op u) allow_rec spec_fuel_n sinputs) in
    let minputs = List.map (function AArr c -> MC c | AScalar z -> MS (false, z)) args in
    let model = obs_of_content (broadcast_and_apply (ufn_op u) bk model_fuel minputs) in
    if bk <> None then begin
      (* ak.broadcast_arrays is outside the property's statement: correspondence of the model only, no spec verdict *)
      match impl with
      | ICrash w -> Printf.sprintf "(%s crash %s (model %s))" id w (string_of_obs model)
      | _ ->
        let i = (match impl with
            | IOk d -> obs_of_dump d
            | IErr "value" | IErr "runtime" -> OErr
            | IErr c -> OBad ("impl-exception-" ^ c)
            | ICrash _ -> OBad "crash") in
        if model = OBad "fuel" then Printf.sprintf "(%s skip nomodel)" id
        else if obs_eq i model || i = model then Printf.sprintf "(%s agree %s corr-only)" id (match i with OErr -> "err" | _ -> "ok")
        else Printf.sprintf "(%s modeldiff (impl %s) (spec -) (model %s))" id (string_of_obs i) (string_of_obs model)
    end
    else if spec = OBad "fuel" then Printf.sprintf "(%s skip unspecified)" id
    else match impl with
      | ICrash w -> Printf.sprintf "(%s crash %s (spec %s))" id w (string_of_obs spec)
      | _ ->
        let i, closure_ok = (match impl with
            | IOk d ->
              let o = obs_of_dump d in
              let ok = if is_layout_dump d then (try valid_b (content_of_sx d) with Bad _ -> false) else true in
              (o, ok)
            | IErr "value" | IErr "runtime" -> (OErr, true)
            | IErr c -> (OBad ("impl-exception-" ^ c), true)
            | ICrash _ -> (OBad "crash", true)) in
        let nomodel = (model = OBad "fuel") in
        let sm = nomodel || obs_eq model spec in
        let is_ = obs_eq i spec in
        if is_ && sm && closure_ok then
          Printf.sprintf "(%s agree %s%s)" id (match i with OErr -> "err" | _ -> "ok") (if nomodel then " nomodel" else "")
        else if is_ && sm then
          Printf.sprintf "(%s viol closure (impl %s))" id (string_of_obs i)
        else if not is_ then
          Printf.sprintf "(%s viol value (impl %s) (spec %s) (model %s))" id
            (string_of_obs i) (string_of_obs spec) (string_of_obs model)
        else
          Printf.sprintf "(%s modeldiff (impl %s) (spec %s) (model %s))" id
            (string_of_obs i) (string_of_obs spec) (string_of_obs model)
  end

let () =
  try
    while true do
      let line = input_line stdin in
      if String.length line > 0 && line.[0] <> '#' then begin
        let id = ref "?" in
        (try
           match Sx.parse line with
           | L [A i; A "val"; d] -> Printf.printf "(%s value %s)\n" i (string_of_obs (obs_of_dump d))
           | L (A i :: A "ufunc" :: A name :: rest) ->
             id := i;
             let args, impl = split_last rest in
             print_endline (verdict i name (List.map arg_of_sx args) (impl_of_sx impl))
           | _ -> bad "case syntax"
         with
         | Bad s -> Printf.printf "(%s bad (%s))\n" !id s
         | Sx.Parse s -> Printf.printf "(%s bad (parse %s))\n" !id s
         | Stack_overflow -> Printf.printf "(%s bad (stack overflow))\n" !id
         | Not_found -> Printf.printf "(%s bad (not found))\n" !id
         | Failure s -> Printf.printf "(%s bad (failure %s))\n" !id s)
      end
    done
  with End_of_file -> ()
