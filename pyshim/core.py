# Request layer shared by all pyshim modules: driver stack (re-entrancy through call-backs),
# argument encoders / result decoders.
import operator
import threading

import numpy

from pyshim import driver as _drv
from pyshim.driver import hx, unhx, unhx_str, dbl, undbl, DriverCrashed, DriverProtocolError

_state = threading.local()
_drivers = []  # one driver process per call-back nesting depth
_drivers_lock = threading.Lock()


import weakref

# Python objects referenced by id in requests/replies (generators and caches of virtual arrays).
# Weak: an entry lives as long as the layout that mentions it, which spans the request.
GENS = weakref.WeakValueDictionary()
CACHES = weakref.WeakValueDictionary()


_keepalive = []  # objects first seen inside a call-back: C++ would own them until the request is over


def reg_gen(obj):
    GENS[id(obj)] = obj
    if _depth() > 0:
        _keepalive.append(obj)
    return id(obj)


def reg_cache(obj):
    CACHES[id(obj)] = obj
    if _depth() > 0:
        _keepalive.append(obj)
    return id(obj)


class _Ctx(object):
    pass


def _depth():
    return getattr(_state, "depth", 0)


def current_driver():
    d = _depth()
    with _drivers_lock:
        while len(_drivers) <= d:
            drv = _drv.Driver()
            drv.callback_handler = _handle_callback
            _drivers.append(drv)
        return _drivers[d]


def stats():
    return {"drivers": len(_drivers), "requests": sum(d.nrequests for d in _drivers)}


def shutdown():
    with _drivers_lock:
        for d in _drivers:
            d.stop()
        del _drivers[:]


def ctx():
    stack = getattr(_state, "ctxs", None)
    if not stack:
        return None
    return stack[-1]


class request_scope(object):
    """with request_scope() as c: ... serialise, request, deserialise ...  (registries live in c)"""

    def __enter__(self):
        stack = getattr(_state, "ctxs", None)
        if stack is None:
            stack = _state.ctxs = []
        c = _Ctx()
        stack.append(c)
        return c

    def __exit__(self, *exc):
        _state.ctxs.pop()
        return False


def request(body):
    drv = current_driver()
    drv.last_callback_error = None
    if _depth() == 0 and _keepalive:
        del _keepalive[:]  # results of the previous top-level request have been rebuilt by now
    try:
        return drv.request(body)
    except RuntimeError as err:
        # an exception raised inside a call-back travelled through C++ as std::runtime_error:
        # surface the original Python exception, as pybind11 would.
        orig = getattr(drv, "last_callback_error", None)
        if orig is not None and not isinstance(err, DriverCrashed):
            drv.last_callback_error = None
            raise orig
        raise


def _handle_callback(tree):
    # tree = ['cb', kind, ...]; runs while the current driver is blocked -> nested requests use depth+1
    from pyshim import content as nodes

    _state.depth = _depth() + 1
    try:
        kind = tree[1]
        if kind == "gen":
            gen = GENS[int(tree[2])]
            out = gen._generate()
            return nodes.tosx(out)
        if kind == "cacheget":
            cache = CACHES[int(tree[2])]
            out = cache._get(unhx_str(tree[3]))
            if out is None:
                return "none"
            return nodes.tosx(out)
        if kind == "cacheset":
            cache = CACHES[int(tree[2])]
            cache._set(unhx_str(tree[3]), nodes.fromsx(tree[4]))
            return "none"
        raise DriverProtocolError("unknown call-back " + str(kind))
    finally:
        _state.depth = _depth() - 1


# ---------------------------------------------------------------- argument encoders
def e_int(x, what="argument"):
    if isinstance(x, bool):
        return "1" if x else "0"
    try:
        return str(operator.index(x))
    except TypeError:
        raise TypeError("%s must be an integer, not %r" % (what, type(x).__name__))


def e_optint(x):
    return "none" if x is None else e_int(x)


def e_bool(x):
    if isinstance(x, (bool, numpy.bool_)):
        return "1" if x else "0"
    if x is None:
        raise TypeError("a bool is required, not None")
    return "1" if bool(x) else "0"


def e_str(x):
    if isinstance(x, bytes):
        return hx(x)
    if not isinstance(x, str):
        raise TypeError("a string is required, not %r" % type(x).__name__)
    return hx(x)


def e_optstr(x):
    return "-" if x is None else e_str(x)


def e_strs(xs):
    return "(" + " ".join(e_str(x) for x in xs) + ")"


def e_typestrs(d):
    if d is None:
        return "-"
    if not isinstance(d, dict):
        raise TypeError("typestrs must be a dict of str -> str")
    if len(d) == 0:
        return "-"
    return "(" + " ".join("(" + e_str(k) + " " + e_str(v) + ")" for k, v in d.items()) + ")"


def e_ints(xs):
    return "(" + " ".join(e_int(x) for x in xs) + ")"


# ---------------------------------------------------------------- result decoders
def d_int(t):
    return int(t)


def d_bool(t):
    return t != "0"


def d_str(t):
    return unhx_str(t)


def d_strs(t):
    return [unhx_str(x) for x in t]
