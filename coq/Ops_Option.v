(** Missing values: fill_none at the outermost option level of every branch. *)
From AwkV Require Export AtAxis Carry.

(* spec on (type, value): [v0] replaces None; values under an option are not visited *)
Fixpoint fillna_v (v0 : value) (t : ty) (v : value) {struct t} : res value :=
  match t with
  | TNum _ | TUnk => Ok v
  | TList _ (Some _) _ => Ok v
  | TList _ None t' =>
      match v with VList l => rmap VList (mapM (fillna_v v0 t') l) | _ => Err EValue end
  | TOpt _ => match v with VNone => Ok v0 | _ => Ok v end
  | TRec _ ts =>
      match v with
      | VRec fs =>
          rmap VRec
            ((fix go (ts : list ty) (fs : list (name * value)) : res (list (name * value)) :=
                match ts, fs with
                | [], [] => Ok []
                | t1 :: ts', (k, x) :: fs' => do y <- fillna_v v0 t1 x; do ys <- go ts' fs'; Ok ((k, y) :: ys)
                | _, _ => Err EValue
                end) ts fs)
      | VTup xs =>
          rmap VTup
            ((fix go (ts : list ty) (xs : list value) : res (list value) :=
                match ts, xs with
                | [], [] => Ok []
                | t1 :: ts', x :: xs' => do y <- fillna_v v0 t1 x; do ys <- go ts' xs'; Ok (y :: ys)
                | _, _ => Err EValue
                end) ts xs)
      | _ => Err EValue
      end
  | TUnion _ => Err EValue
  end.
Definition fillna_spec (v0s : list value) (t : ty) (vs : list value) : res (list value) :=
  match v0s with
  | [v0] => mapM (fillna_v v0 t) vs
  | _ => Err EValue
  end.

(* model: an option node becomes a union of its content and the one-element value array *)
Fixpoint fillna_p (p : option akind) (value : content) (c : content) {struct c} : res content :=
  match c with
  | Numpy _ _ _ | Empty => Ok c
  | ListOffset w o c' => if is_strk p then Ok c else rmap (ListOffset w o) (fillna_p None value c')
  | ListA w s e c' => if is_strk p then Ok c else rmap (ListA w s e) (fillna_p None value c')
  | Regular c' size zl => if is_strk p then Ok c else rmap (fun x => Regular x size zl) (fillna_p None value c')
  | Indexed w ix c' => rmap (Indexed w ix) (fillna_p None value c')
  | IndexedOption _ _ _ | ByteMasked _ _ _ | BitMasked _ _ _ _ _ | Unmasked _ =>
      do oi <- option_index c;
      let (ix, c') := oi in
      Ok (Union I64 (map (fun i => if i <? 0 then 1 else 0) ix) (map (fun i => if i <? 0 then 0 else i) ix)
            [c'; value])
  | Union w t ix cs =>
      rmap (Union w t ix)
        ((fix all (l : list content) : res (list content) :=
            match l with
            | [] => Ok []
            | x :: xs => do y <- fillna_p None value x; do ys <- all xs; Ok (y :: ys)
            end) cs)
  | Record cs ks n =>
      rmap (fun cs' => Record cs' ks n)
        ((fix all (l : list content) : res (list content) :=
            match l with
            | [] => Ok []
            | x :: xs => do y <- fillna_p None value x; do ys <- all xs; Ok (y :: ys)
            end) cs)
  | Par a r c' => rmap (Par a r) (fillna_p a value c')
  end.
Definition fillna_model (value : content) (c : content) : res content :=
  if clen value =? 1 then fillna_p None value c else Err EValue.
