(** Props_C13h.v -- third file of C13 property theorems (statements only, each proved by [exact] of a lemma of the
    Proofs_C13h*.v files, each followed by Print Assumptions): the kernels of Kernels2.v that had no theorem before.
    Tags (* @kernel kind *) are read by the harness. *)
From Coq Require Import ZArith List Bool.
From AwkV Require Import Base.
From AwkKernels Require Import Kernels KLemmas Proofs_C13 Proofs_C13b Proofs_C13c Proofs_C13d Proofs_C13e Proofs_C13f Proofs_C13g Proofs_C13h Proofs_C13h2 Proofs_C13h3 Proofs_C13h4 Proofs_C13h5 Proofs_C13h6.
Import ListNotations.
Open Scope Z_scope.

(* @awkward_slicearray_ravel k_spec *)
Theorem C13_slicearray_ravel_spec :
  forall toptr fromptr shape strides,
  1 <= zlen shape -> zlen strides = zlen shape ->
  Forall (fun x => 0 <= x) shape ->
  (forall p, In p (ravel_idx shape strides 0) -> 0 <= p < zlen fromptr) ->
  prodZ shape <= zlen toptr ->
  slicearray_ravel toptr fromptr (zlen shape) shape strides
  = KOk (map (at_ fromptr) (ravel_idx shape strides 0) ++ skipn (Z.to_nat (prodZ shape)) toptr).
Proof. exact slicearray_ravel_spec. Qed.
Print Assumptions C13_slicearray_ravel_spec.

(* @awkward_slicearray_ravel k_safe *)
Theorem C13_slicearray_ravel_safe :
  forall toptr fromptr shape strides,
  1 <= zlen shape -> zlen strides = zlen shape ->
  Forall (fun x => 0 <= x) shape ->
  (forall p, In p (ravel_idx shape strides 0) -> 0 <= p < zlen fromptr) ->
  prodZ shape <= zlen toptr ->
  slicearray_ravel toptr fromptr (zlen shape) shape strides <> KOob.
Proof. exact slicearray_ravel_safe. Qed.
Print Assumptions C13_slicearray_ravel_safe.

(* @awkward_ListArray_getitem_jagged_apply k_safe *)
Theorem C13_ListArray_getitem_jagged_apply_safe :
  forall tooffsets tocarry slicestarts slicestops n sliceindex sliceinnerlen fromstarts fromstops contentlen,
  n <= zlen slicestarts -> n <= zlen slicestops -> n <= zlen fromstarts -> n <= zlen fromstops ->
  n + 1 <= zlen tooffsets -> sliceinnerlen <= zlen sliceindex ->
  (forall i, 0 <= i < n -> 0 <= at_ slicestarts i <= at_ slicestops i) ->
  psum (fun i => at_ slicestops i - at_ slicestarts i) (Z.to_nat n) <= zlen tocarry ->
  ListArray_getitem_jagged_apply tooffsets tocarry slicestarts slicestops n sliceindex sliceinnerlen
    fromstarts fromstops contentlen <> XOob.
Proof. exact ListArray_getitem_jagged_apply_safe. Qed.
Print Assumptions C13_ListArray_getitem_jagged_apply_safe.

(* @awkward_ListArray_getitem_jagged_expand k_safe *)
Theorem C13_ListArray_getitem_jagged_expand_safe :
  forall multistarts multistops singleoffsets tocarry fromstarts fromstops jaggedsize length,
  length <= zlen fromstarts -> length <= zlen fromstops -> jaggedsize + 1 <= zlen singleoffsets ->
  length * jaggedsize <= zlen multistarts -> length * jaggedsize <= zlen multistops -> length * jaggedsize <= zlen tocarry ->
  ListArray_getitem_jagged_expand multistarts multistops singleoffsets tocarry fromstarts fromstops jaggedsize length <> XOob.
Proof. exact ListArray_getitem_jagged_expand_safe. Qed.
Print Assumptions C13_ListArray_getitem_jagged_expand_safe.

(* @awkward_ListArray_getitem_jagged_shrink k_safe *)
Theorem C13_ListArray_getitem_jagged_shrink_safe :
  forall tocarry tosmalloffsets tolargeoffsets slicestarts slicestops n missing,
  0 <= n -> n <= zlen slicestarts -> n <= zlen slicestops ->
  n + 1 <= zlen tosmalloffsets -> n + 1 <= zlen tolargeoffsets ->
  (forall i, 0 <= i < n -> 0 <= at_ slicestarts i /\ at_ slicestops i <= zlen missing) ->
  psum (fun i => nvalid missing (at_ slicestarts i) (at_ slicestops i)) (Z.to_nat n) <= zlen tocarry ->
  ListArray_getitem_jagged_shrink tocarry tosmalloffsets tolargeoffsets slicestarts slicestops n missing <> KOob.
Proof. exact ListArray_getitem_jagged_shrink_safe. Qed.
Print Assumptions C13_ListArray_getitem_jagged_shrink_safe.

(* @awkward_carry_SliceJagged64_nextcarry k_safe *)
Theorem C13_carry_SliceJagged64_nextcarry_safe :
  forall tocarry fromoffsets fromcarry n,
  n <= zlen fromcarry ->
  (forall i, 0 <= i < n -> 0 <= at_ fromcarry i /\ at_ fromcarry i + 1 < zlen fromoffsets /\
                           at_ fromoffsets (at_ fromcarry i) <= at_ fromoffsets (at_ fromcarry i + 1)) ->
  psum (fun i => at_ fromoffsets (at_ fromcarry i + 1) - at_ fromoffsets (at_ fromcarry i)) (Z.to_nat n) <= zlen tocarry ->
  carry_SliceJagged64_nextcarry tocarry fromoffsets fromcarry n <> KOob.
Proof. exact carry_SliceJagged64_nextcarry_safe. Qed.
Print Assumptions C13_carry_SliceJagged64_nextcarry_safe.

(* @awkward_SliceVarNewAxis_to_SliceJagged64 k_safe *)
Theorem C13_SliceVarNewAxis_to_SliceJagged64_safe :
  forall tocarry fromoffsets n,
  n + 1 <= zlen fromoffsets ->
  (forall i, 0 <= i <= n -> 0 <= at_ fromoffsets i <= zlen tocarry) ->
  SliceVarNewAxis_to_SliceJagged64 tocarry fromoffsets n <> KOob.
Proof. exact SliceVarNewAxis_to_SliceJagged64_safe. Qed.
Print Assumptions C13_SliceVarNewAxis_to_SliceJagged64_safe.

(* @awkward_ListOffsetArray_getitem_adjust_offsets k_safe *)
Theorem C13_ListOffsetArray_getitem_adjust_offsets_safe :
  forall tooffsets tononzero fromoffsets n nonzero nonzerolength,
  1 <= zlen fromoffsets -> n + 1 <= zlen fromoffsets -> 1 <= zlen tooffsets -> n + 1 <= zlen tooffsets ->
  nonzerolength <= zlen nonzero -> nonzerolength <= zlen tononzero ->
  ListOffsetArray_getitem_adjust_offsets tooffsets tononzero fromoffsets n nonzero nonzerolength <> KOob.
Proof. exact ListOffsetArray_getitem_adjust_offsets_safe. Qed.
Print Assumptions C13_ListOffsetArray_getitem_adjust_offsets_safe.

(* @awkward_ListOffsetArray_getitem_adjust_offsets_index k_safe *)
Theorem C13_ListOffsetArray_getitem_adjust_offsets_index_safe :
  forall tooffsets tononzero fromoffsets n index indexlength nonzero nonzerolength originalmask masklength,
  1 <= zlen fromoffsets -> n + 1 <= zlen fromoffsets -> 1 <= zlen tooffsets -> n + 1 <= zlen tooffsets ->
  indexlength <= zlen index -> nonzerolength <= zlen nonzero -> nonzerolength <= zlen tononzero ->
  (forall i, 0 <= i <= n -> 0 <= at_ fromoffsets i <= zlen originalmask) ->
  ListOffsetArray_getitem_adjust_offsets_index tooffsets tononzero fromoffsets n index indexlength nonzero nonzerolength
    originalmask masklength <> KOob.
Proof. exact ListOffsetArray_getitem_adjust_offsets_index_safe. Qed.
Print Assumptions C13_ListOffsetArray_getitem_adjust_offsets_index_safe.

(* @awkward_IndexedArray_getitem_adjust_outindex k_safe *)
Theorem C13_IndexedArray_getitem_adjust_outindex_safe :
  forall tomask toindex tononzero fromindex n nonzero nonzerolength,
  n <= zlen fromindex -> n <= zlen tomask -> 0 <= nonzerolength <= zlen nonzero -> nonzerolength <= zlen tononzero ->
  psum (fun i => if at_ fromindex i <? 0 then 1 else 0) (Z.to_nat n) + nonzerolength <= zlen toindex ->
  IndexedArray_getitem_adjust_outindex tomask toindex tononzero fromindex n nonzero nonzerolength <> KOob.
Proof. exact IndexedArray_getitem_adjust_outindex_safe. Qed.
Print Assumptions C13_IndexedArray_getitem_adjust_outindex_safe.

(* @awkward_UnionArray_flatten_length k_safe *)
Theorem C13_UnionArray_flatten_length_safe :
  forall total_length fromtags fromindex n offsetsraws,
  1 <= zlen total_length -> n <= zlen fromtags -> n <= zlen fromindex -> uwf offsetsraws fromtags fromindex n ->
  UnionArray_flatten_length total_length fromtags fromindex n offsetsraws <> KOob.
Proof. exact UnionArray_flatten_length_safe. Qed.
Print Assumptions C13_UnionArray_flatten_length_safe.

(* @awkward_UnionArray_flatten_length k_spec *)
Theorem C13_UnionArray_flatten_length_spec :
  forall total_length fromtags fromindex n offsetsraws,
  0 <= n -> 1 <= zlen total_length -> n <= zlen fromtags -> n <= zlen fromindex -> uwf offsetsraws fromtags fromindex n ->
  UnionArray_flatten_length total_length fromtags fromindex n offsetsraws
  = KOk (set_nth total_length 0 (psum (useg offsetsraws fromtags fromindex) (Z.to_nat n))).
Proof. exact UnionArray_flatten_length_spec. Qed.
Print Assumptions C13_UnionArray_flatten_length_spec.

(* @awkward_UnionArray_flatten_combine k_safe *)
Theorem C13_UnionArray_flatten_combine_safe :
  forall totags toindex tooffsets fromtags fromindex n offsetsraws,
  n + 1 <= zlen tooffsets -> 1 <= zlen tooffsets -> n <= zlen fromtags -> n <= zlen fromindex ->
  uwf offsetsraws fromtags fromindex n ->
  (forall i, 0 <= i < n -> 0 <= useg offsetsraws fromtags fromindex i) ->
  psum (useg offsetsraws fromtags fromindex) (Z.to_nat n) <= zlen totags ->
  psum (useg offsetsraws fromtags fromindex) (Z.to_nat n) <= zlen toindex ->
  UnionArray_flatten_combine totags toindex tooffsets fromtags fromindex n offsetsraws <> KOob.
Proof. exact UnionArray_flatten_combine_safe. Qed.
Print Assumptions C13_UnionArray_flatten_combine_safe.

(* @awkward_UnionArray_nestedfill_tags_index k_safe *)
Theorem C13_UnionArray_nestedfill_tags_index_safe :
  forall tI totags toindex tmpstarts tag fromcounts n,
  n <= zlen tmpstarts -> n <= zlen fromcounts ->
  (forall i, 0 <= i < n -> 0 <= at_ tmpstarts i /\
             at_ tmpstarts i + at_ fromcounts i <= zlen totags /\ at_ tmpstarts i + at_ fromcounts i <= zlen toindex) ->
  UnionArray_nestedfill_tags_index tI totags toindex tmpstarts tag fromcounts n <> KOob.
Proof. exact UnionArray_nestedfill_tags_index_safe. Qed.
Print Assumptions C13_UnionArray_nestedfill_tags_index_safe.

(* @awkward_NumpyArray_getitem_boolean_numtrue k_safe *)
Theorem C13_NumpyArray_getitem_boolean_numtrue_safe :
  forall numtrue fromptr length stride,
  1 <= zlen numtrue -> length <= zlen fromptr -> 0 <= stride ->
  NumpyArray_getitem_boolean_numtrue numtrue fromptr length stride <> KOob.
Proof. exact NumpyArray_getitem_boolean_numtrue_safe. Qed.
Print Assumptions C13_NumpyArray_getitem_boolean_numtrue_safe.

(* @awkward_NumpyArray_getitem_boolean_numtrue k_spec *)
Theorem C13_NumpyArray_getitem_boolean_numtrue_spec :
  forall numtrue fromptr length stride,
  1 <= zlen numtrue -> length <= zlen fromptr -> 0 < stride ->
  NumpyArray_getitem_boolean_numtrue numtrue fromptr length stride
  = KOk (set_nth numtrue 0 (bcount (Z.to_nat length) fromptr length stride 0)).
Proof. exact NumpyArray_getitem_boolean_numtrue_spec. Qed.
Print Assumptions C13_NumpyArray_getitem_boolean_numtrue_spec.

(* @awkward_NumpyArray_getitem_boolean_nonzero k_safe *)
Theorem C13_NumpyArray_getitem_boolean_nonzero_safe :
  forall toptr fromptr length stride,
  length <= zlen fromptr -> 0 <= stride ->
  bcount (Z.to_nat length) fromptr length stride 0 <= zlen toptr ->
  NumpyArray_getitem_boolean_nonzero toptr fromptr length stride <> KOob.
Proof. exact NumpyArray_getitem_boolean_nonzero_safe. Qed.
Print Assumptions C13_NumpyArray_getitem_boolean_nonzero_safe.

(* @awkward_NumpyArray_fill_scaled k_safe *)
Theorem C13_NumpyArray_fill_scaled_safe :
  forall tTO toptr off fromptr n scale,
  0 <= off -> off + n <= zlen toptr -> n <= zlen fromptr -> NumpyArray_fill_scaled tTO toptr off fromptr n scale <> KOob.
Proof. exact NumpyArray_fill_scaled_safe. Qed.
Print Assumptions C13_NumpyArray_fill_scaled_safe.

(* @awkward_NumpyArray_fill_scaled k_spec *)
Theorem C13_NumpyArray_fill_scaled_spec :
  forall toptr off fromptr scale,
  0 <= off -> off + zlen fromptr <= zlen toptr ->
  NumpyArray_fill_scaled TIdeal toptr off fromptr (zlen fromptr) scale
  = KOk (firstn (Z.to_nat off) toptr ++ map (fun x => x * scale) fromptr ++ skipn (Z.to_nat (off + zlen fromptr)) toptr).
Proof. exact NumpyArray_fill_scaled_spec. Qed.
Print Assumptions C13_NumpyArray_fill_scaled_spec.

(* @awkward_NumpyArray_fill_scaled k_width *)
Theorem C13_NumpyArray_fill_scaled_width :
  forall tTO toptr off fromptr n scale,
  n <= zlen fromptr -> (forall i, 0 <= i < n -> fits tTO (at_ fromptr i * scale)) ->
  NumpyArray_fill_scaled tTO toptr off fromptr n scale = NumpyArray_fill_scaled TIdeal toptr off fromptr n scale.
Proof. exact NumpyArray_fill_scaled_width. Qed.
Print Assumptions C13_NumpyArray_fill_scaled_width.

(* @awkward_IndexedArray_ranges_next_64 k_safe *)
Theorem C13_IndexedArray_ranges_next_safe :
  forall index fromstarts fromstops n tostarts tostops tolength,
  n <= zlen fromstarts -> n <= zlen fromstops -> n <= zlen tostarts -> n <= zlen tostops -> 1 <= zlen tolength ->
  (forall i, 0 <= i < n -> 0 <= at_ fromstarts i /\ at_ fromstops i <= zlen index) ->
  IndexedArray_ranges_next index fromstarts fromstops n tostarts tostops tolength <> KOob.
Proof. exact IndexedArray_ranges_next_safe. Qed.
Print Assumptions C13_IndexedArray_ranges_next_safe.

(* @awkward_IndexedArray_ranges_carry_next_64 k_safe *)
Theorem C13_IndexedArray_ranges_carry_next_safe :
  forall index fromstarts fromstops n tocarry,
  n <= zlen fromstarts -> n <= zlen fromstops ->
  (forall i, 0 <= i < n -> 0 <= at_ fromstarts i /\ at_ fromstops i <= zlen index) ->
  psum (fun i => nvalid index (at_ fromstarts i) (at_ fromstops i)) (Z.to_nat n) <= zlen tocarry ->
  IndexedArray_ranges_carry_next index fromstarts fromstops n tocarry <> KOob.
Proof. exact IndexedArray_ranges_carry_next_safe. Qed.
Print Assumptions C13_IndexedArray_ranges_carry_next_safe.

(* @awkward_zero_mask k_safe *)
Theorem C13_zero_mask_safe :
  forall tomask n,
  n <= zlen tomask -> const_mask 0 tomask n <> KOob.
Proof. exact zero_mask_safe. Qed.
Print Assumptions C13_zero_mask_safe.

(* @awkward_zero_mask k_spec *)
Theorem C13_zero_mask_spec :
  forall tomask n,
  0 <= n <= zlen tomask -> const_mask 0 tomask n = KOk (map (fun _ => 0) (iota n) ++ skipn (Z.to_nat n) tomask).
Proof. exact zero_mask_spec. Qed.
Print Assumptions C13_zero_mask_spec.

(* @awkward_reduce_prod_int32_bool_64 k_safe *)
Theorem C13_reduce_prod_int32_bool_safe :
  forall toptr fromptr parents n ol,
  red_pre toptr fromptr parents n ol -> reduce_prod_int_bool (TI 32) toptr fromptr parents n ol <> KOob.
Proof. exact reduce_prod_int32_bool_safe. Qed.
Print Assumptions C13_reduce_prod_int32_bool_safe.

(* @awkward_Identities_from_RegularArray k_safe *)
Theorem C13_Identities_from_RegularArray_safe :
  forall tID toptr fromptr size tolength fromlength fromwidth,
  0 <= fromlength -> 0 <= size -> 0 <= fromwidth ->
  fromlength * fromwidth <= zlen fromptr ->
  fromlength * size * (fromwidth + 1) <= zlen toptr -> tolength * (fromwidth + 1) <= zlen toptr ->
  Identities_from_RegularArray tID toptr fromptr size tolength fromlength fromwidth <> KOob.
Proof. exact Identities_from_RegularArray_safe. Qed.
Print Assumptions C13_Identities_from_RegularArray_safe.

(* @awkward_Identities_from_ListOffsetArray k_safe *)
Theorem C13_Identities_from_ListOffsetArray_safe :
  forall tID toptr fromptr fromoffsets tolength fromlength fromwidth,
  0 <= fromlength -> 0 <= fromwidth -> fromlength + 1 <= zlen fromoffsets ->
  fromlength * fromwidth <= zlen fromptr -> tolength * (fromwidth + 1) <= zlen toptr ->
  (forall i, 0 <= i <= fromlength -> 0 <= at_ fromoffsets i) -> at_ fromoffsets 0 <= tolength ->
  Identities_from_ListOffsetArray tID toptr fromptr fromoffsets tolength fromlength fromwidth <> XOob.
Proof. exact Identities_from_ListOffsetArray_safe. Qed.
Print Assumptions C13_Identities_from_ListOffsetArray_safe.

(* @awkward_Identities_from_ListArray k_safe *)
Theorem C13_Identities_from_ListArray_safe :
  forall tID uniquecontents toptr fromptr fromstarts fromstops tolength fromlength fromwidth,
  0 <= fromwidth -> 1 <= zlen uniquecontents -> fromlength <= zlen fromstarts -> fromlength <= zlen fromstops ->
  fromlength * fromwidth <= zlen fromptr -> tolength * (fromwidth + 1) <= zlen toptr ->
  (forall i, 0 <= i < fromlength -> 0 <= at_ fromstarts i) ->
  Identities_from_ListArray tID uniquecontents toptr fromptr fromstarts fromstops tolength fromlength fromwidth <> XOob.
Proof. exact Identities_from_ListArray_safe. Qed.
Print Assumptions C13_Identities_from_ListArray_safe.

(* @awkward_Identities_from_IndexedArray k_safe *)
Theorem C13_Identities_from_IndexedArray_safe :
  forall tID uniquecontents toptr fromptr fromindex tolength fromlength fromwidth,
  1 <= fromwidth -> 1 <= zlen uniquecontents -> fromlength <= zlen fromindex ->
  fromlength * fromwidth <= zlen fromptr -> tolength * fromwidth <= zlen toptr ->
  Identities_from_IndexedArray tID uniquecontents toptr fromptr fromindex tolength fromlength fromwidth <> XOob.
Proof. exact Identities_from_IndexedArray_safe. Qed.
Print Assumptions C13_Identities_from_IndexedArray_safe.

(* @awkward_Identities_from_UnionArray k_safe *)
Theorem C13_Identities_from_UnionArray_safe :
  forall tID uniquecontents toptr fromptr fromtags fromindex tolength fromlength fromwidth which,
  1 <= fromwidth -> 1 <= zlen uniquecontents -> fromlength <= zlen fromtags -> fromlength <= zlen fromindex ->
  fromlength * fromwidth <= zlen fromptr -> tolength * fromwidth <= zlen toptr ->
  Identities_from_UnionArray tID uniquecontents toptr fromptr fromtags fromindex tolength fromlength fromwidth which <> XOob.
Proof. exact Identities_from_UnionArray_safe. Qed.
Print Assumptions C13_Identities_from_UnionArray_safe.

(* @awkward_NumpyArray_unique_strings k_safe *)
Theorem C13_NumpyArray_unique_strings_safe :
  forall toptr offsets offsetslength tolength,
  offsetslength <= zlen offsets -> 1 <= zlen tolength ->
  (forall i, 0 <= i < offsetslength - 1 -> 0 <= at_ offsets i <= at_ offsets (i + 1) /\ at_ offsets (i + 1) <= zlen toptr) ->
  NumpyArray_unique_strings toptr offsets offsetslength tolength <> KOob.
Proof. exact NumpyArray_unique_strings_safe. Qed.
Print Assumptions C13_NumpyArray_unique_strings_safe.

(* @awkward_UnionArray_project k_spec *)
Theorem C13_UnionArray_project_spec :
  forall lenout tocarry fromtags fromindex n which,
  0 <= n -> n <= zlen fromtags -> n <= zlen fromindex -> 1 <= zlen lenout -> n <= zlen tocarry ->
  UnionArray_project lenout tocarry fromtags fromindex n which
  = KOk (set_nth lenout 0 (zlen (proj_sel fromtags fromindex which n)),
         proj_sel fromtags fromindex which n ++ skipn (Z.to_nat (zlen (proj_sel fromtags fromindex which n))) tocarry).
Proof. exact UnionArray_project_spec. Qed.
Print Assumptions C13_UnionArray_project_spec.

(* @awkward_NumpyArray_contiguous_copy_from_many k_safe *)
Theorem C13_NumpyArray_contiguous_copy_from_many_safe :
  forall toptr fromptrs fromlens len stride pos,
  0 <= stride -> len * stride <= zlen toptr -> zlen fromlens = zlen fromptrs ->
  (forall k, 0 <= k < zlen fromptrs -> 1 <= at_ fromlens k <= zlen pos /\
     forall j, 0 <= j < at_ fromlens k -> 0 <= at_ pos j /\ at_ pos j + stride <= zlen (nth (Z.to_nat k) fromptrs [])) ->
  len <= psum (at_ fromlens) (Z.to_nat (zlen fromptrs)) ->
  NumpyArray_contiguous_copy_from_many toptr fromptrs fromlens len stride pos <> KOob.
Proof. exact NumpyArray_contiguous_copy_from_many_safe. Qed.
Print Assumptions C13_NumpyArray_contiguous_copy_from_many_safe.
