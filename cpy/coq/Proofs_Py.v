(** Proofs about the Python-layer specifications of PySpec.v (laws stated by C03 C05 C07 C08 C09 C10). *)
From Coq Require Import ZArith List Bool Lia ZifyBool.
From AwkV Require Import Base Layout Valid Types AtAxis Ops_Struct Ops_Flatten Ops_Option Ops_Reduce
  Ops_Getitem Ops_Fields Proofs_Lists.
From AwkPy Require Import PySpec.
Import ListNotations.
Open Scope Z_scope.

(* ====================================================================== C05 *)

(* cutting the concatenation of lists by their lengths gives the lists back *)
Lemma regroup1_concat (ls : list (list value)) :
  regroup1 (map (fun l => Some (zlen l)) ls) (concat ls) = Ok (map VList ls, []).
Proof.
  induction ls as [|l ls IH]; [reflexivity|].
  cbn [map concat regroup1 cnt].
  assert (Hn := zlen_nonneg l).
  destruct (zlen l <? 0) eqn:E; [lia|].
  destruct (l ++ concat ls) as [|x rest] eqn:Eapp.
  - apply app_eq_nil in Eapp. destruct Eapp as [-> Hc]. rewrite Hc in IH.
    cbn. rewrite IH. reflexivity.
  - rewrite <- Eapp.
    replace (zlen (l ++ concat ls) <? zlen l) with false
      by (rewrite zlen_app; pose proof (zlen_nonneg (concat ls)); lia).
    rewrite (drop_app_exact l (concat ls) (zlen l) eq_refl).
    rewrite (take_app_exact l (concat ls) (zlen l) eq_refl).
    rewrite IH. reflexivity.
Qed.

(* the same with missing lists: None contributes nothing to flatten, num is None there, unflatten gives None back *)
Definition olist (o : option (list value)) : value := match o with Some l => VList l | None => VNone end.
Definition ocount (o : option (list value)) : option Z := match o with Some l => Some (zlen l) | None => None end.
Definition oelems (o : option (list value)) : list value := match o with Some l => l | None => [] end.

Lemma regroup1_concat_missing (ls : list (option (list value))) :
  regroup1 (map ocount ls) (concat (map oelems ls)) = Ok (map olist ls, []).
Proof.
  induction ls as [|o ls IH]; [reflexivity|].
  destruct o as [l|].
  - cbn [map concat regroup1 cnt ocount oelems olist].
    assert (Hn := zlen_nonneg l).
    destruct (zlen l <? 0) eqn:E; [lia|].
    destruct (l ++ concat (map oelems ls)) as [|x rest] eqn:Eapp.
    + apply app_eq_nil in Eapp. destruct Eapp as [-> Hc]. rewrite Hc in IH.
      cbn. rewrite IH. reflexivity.
    + rewrite <- Eapp.
      replace (zlen (l ++ concat (map oelems ls)) <? zlen l) with false
        by (rewrite zlen_app; pose proof (zlen_nonneg (concat (map oelems ls))); lia).
      rewrite (drop_app_exact l _ (zlen l) eq_refl).
      rewrite (take_app_exact l _ (zlen l) eq_refl).
      rewrite IH. reflexivity.
  - cbn [map concat regroup1 cnt ocount oelems olist app].
    destruct (concat (map oelems ls)) as [|x rest] eqn:Ec.
    + cbn. rewrite IH. reflexivity.
    + cbn. cbn in IH. rewrite IH. reflexivity.
Qed.

Lemma existsb_neg_counts (ls : list (option (list value))) :
  existsb (fun c => cnt c <? 0) (map ocount ls) = false.
Proof.
  induction ls as [|o ls IH]; [reflexivity|].
  cbn. rewrite IH. destruct o as [l|]; cbn; [pose proof (zlen_nonneg l); lia | reflexivity].
Qed.

(* value level: unflatten at axis 0 of (the concatenation of the lists, their lengths) is the array of lists *)
Lemma unflatten_vals_concat (ls : list (option (list value))) :
  unflatten_vals 0 (concat (map oelems ls)) (map ocount ls) = Ok (VList (map olist ls)).
Proof.
  unfold unflatten_vals. rewrite existsb_neg_counts. cbn [Z.eqb].
  rewrite regroup1_concat_missing. reflexivity.
Qed.
