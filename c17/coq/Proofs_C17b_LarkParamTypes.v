(** C17, model of the Lark parser: the round trip for types whose nodes carry parameters (scalar values), in both
    modes: dt[parameters=...], unknown[...], [var * T, ...], [N * T, ...], option[T, ...], union[..., ...],
    tuple[[...], ...], struct[[...], [...], ...]; together with the parameter-free and categorical forms. *)
From Coq Require Import ZArith List Bool Lia.
From AwkV Require Import Base Layout.
From AwkTypes Require Import Json Forms TypeStr Proofs_Json Proofs_Parse Lark Proofs_C17b_Lark Proofs_C17b_LarkCat Proofs_C17b_LarkParams.
Import ListNotations.
Open Scope Z_scope.

(* ---------------------------------------------------------------- printing a node with parameters *)
Lemma pok_parts p : pok p = true ->
  is_categorical p = false /\ parameters_empty p = false /\ p <> [].
Proof.
  intros H. unfold pok in H. repeat (apply andb_true_iff in H as [H ?]).
  assert (Hf : pfind k_categorical p = None).
  { clear - H1. induction p as [|[k v] p IH]; [reflexivity|]. cbn [forallb fst] in H1. apply andb_true_iff in H1 as [Ha Hb].
    apply negb_true_iff in Ha. cbn [pfind]. rewrite Ha. exact (IH Hb). }
  assert (Hic : is_categorical p = false) by (unfold is_categorical; rewrite Hf; reflexivity).
  split; [exact Hic|]. split; [|destruct p; [discriminate|discriminate]].
  destruct p as [|kv [|kv2 p']]; [discriminate| |reflexivity]. cbn [parameters_empty]. exact Hic.
Qed.

Section PrintP.
  Variable p : params.
  Hypothesis Hp : pok p = true.
  Let X := string_parameters p.

  Lemma print_p_num dt : type_tostring (RNum p [] dt) = dtype_to_name dt ++ [91] ++ X ++ [93].
  Proof. destruct (pok_parts p Hp) as (Hic & Hpe & _). cbn [type_tostring]. unfold wrap_categorical. rewrite Hic, Hpe. reflexivity. Qed.
  Lemma print_p_unk : type_tostring (RUnk p []) = n_unknown ++ [91] ++ X ++ [93].
  Proof. destruct (pok_parts p Hp) as (Hic & Hpe & _). cbn [type_tostring]. unfold wrap_categorical. rewrite Hic, Hpe. reflexivity. Qed.
  Lemma print_p_list t : type_tostring (RList p [] t) = p_lvar_star ++ type_tostring t ++ p_comma ++ X ++ [93].
  Proof. destruct (pok_parts p Hp) as (Hic & Hpe & _). cbn [type_tostring]. unfold wrap_categorical. rewrite Hic, Hpe. reflexivity. Qed.
  Lemma print_p_reg n t : type_tostring (RReg p [] n t) = [91] ++ dec_of_Z n ++ p_star ++ type_tostring t ++ p_comma ++ X ++ [93].
  Proof. destruct (pok_parts p Hp) as (Hic & Hpe & _). cbn [type_tostring]. unfold wrap_categorical. rewrite Hic, Hpe. reflexivity. Qed.
  Lemma print_p_opt t : type_tostring (ROpt p [] t) = p_option_open ++ type_tostring t ++ p_comma ++ X ++ [93].
  Proof. destruct (pok_parts p Hp) as (Hic & Hpe & _). cbn [type_tostring]. unfold wrap_categorical. rewrite Hic, Hpe. reflexivity. Qed.
  Lemma print_p_union l : type_tostring (RUnion p [] l) =
    p_union_open ++ sep_concat p_comma (map type_tostring l) ++ (p_comma ++ X) ++ [93].
  Proof. destruct (pok_parts p Hp) as (Hic & Hpe & _). cbn [type_tostring]. unfold wrap_categorical. rewrite Hic, Hpe. reflexivity. Qed.
  Lemma print_p_tuple l : record_name p = None -> type_tostring (RRec p [] None l) =
    p_tuple_open ++ sep_concat p_comma (map type_tostring l) ++ p_close_comma ++ X ++ [93].
  Proof. intros Hr. destruct (pok_parts p Hp) as (Hic & Hpe & _). cbn [type_tostring]. unfold wrap_categorical. rewrite Hic, Hpe, Hr. reflexivity. Qed.
  Lemma print_p_struct ks l : record_name p = None -> type_tostring (RRec p [] (Some ks) l) =
    p_struct_open ++ sep_concat p_comma (map quote ks) ++ p_mid ++ sep_concat p_comma (map type_tostring l)
    ++ p_close_comma ++ X ++ [93].
  Proof. intros Hr. destruct (pok_parts p Hp) as (Hic & Hpe & _). cbn [type_tostring]. unfold wrap_categorical. rewrite Hic, Hpe, Hr. reflexivity. Qed.

  (* ---------------------------------------------------------------- reading the parameters back *)
  Lemma X_head rest : exists r, X ++ rest = w_parameters ++ r.
  Proof. unfold X. rewrite (string_parameters_pok p Hp). rewrite <- app_assoc. eexists. reflexivity. Qed.

  Lemma lk_options_ok rest : lk_opt_options (91 :: X ++ 93 :: rest) = Ok (p, rest).
  Proof.
    unfold lk_opt_options. rewrite (skip_ws_nows 91) by reflexivity. change (91 =? 91) with true. cbv iota.
    unfold lk_options. change (expect [91] (91 :: ?x)) with (@Ok bytes x). cbn [bind].
    unfold X. rewrite (lk_def_option_ok p _ Hp). cbn [bind fst snd].
    change (expect [93] (93 :: ?x)) with (@Ok bytes x). reflexivity.
  Qed.

  Lemma lk_tail_option_ok rest : lk_tail_option (p_comma ++ X ++ 93 :: rest) = Ok (p, rest).
  Proof.
    unfold lk_tail_option. change (expect [44] (p_comma ++ ?x)) with (@Ok bytes (32 :: x)). cbn [bind].
    change (lk_def_option (32 :: ?y)) with (lk_def_option y).
    unfold X. rewrite (lk_def_option_ok p _ Hp). cbn [bind fst snd].
    change (expect [93] (93 :: ?x)) with (@Ok bytes x). reflexivity.
  Qed.
End PrintP.

(* string ("," string)* "]" *)
Lemma lk_strings_space fuel x : lk_strings fuel (32 :: x) = lk_strings fuel x.
Proof. destruct fuel; reflexivity. Qed.

Lemma lk_strings_ok : forall ks fuel rest, ks <> [] -> forallb lkey_ok ks = true -> (length ks <= fuel)%nat ->
  lk_strings fuel (sep_concat p_comma (map quote ks) ++ 93 :: rest) = Ok (ks, rest).
Proof.
  induction ks as [|k ks IH]; intros fuel rest Hne Hk Hf; [congruence|].
  cbn [forallb] in Hk. apply andb_true_iff in Hk as [Hk1 Hk2]. destruct fuel as [|fuel]; [simpl in Hf; lia|].
  destruct ks as [|k2 ks].
  - cbn [map sep_concat lk_strings]. rewrite (lk_string_quote k _ Hk1). cbn [bind fst snd].
    rewrite (skip_ws_nows 93) by reflexivity. change (93 =? 93) with true. reflexivity.
  - cbn [map]. rewrite sep_concat_cons2. rewrite <- !app_assoc. cbn [lk_strings].
    rewrite (lk_string_quote k _ Hk1). cbn [bind fst snd]. change (p_comma ++ ?x) with (44 :: 32 :: x).
    rewrite (skip_ws_nows 44) by reflexivity. cbv iota beta. change (44 =? 93) with false. change (44 =? 44) with true. cbv iota.
    rewrite lk_strings_space. change (quote k2 :: map quote ks) with (map quote (k2 :: ks)).
    rewrite (IH fuel rest); [reflexivity|discriminate|exact Hk2|simpl in *; lia].
Qed.

(* input ("," input)* "," def_option "]" *)
Lemma lk_ulist_okp sub (sub_space : forall cat x, sub cat (32 :: x) = sub cat x) p : pok p = true ->
  forall l fuel rest, l <> [] -> Forall (lparses sub) l -> Forall nopar l -> (length l <= fuel)%nat ->
  lk_ulist sub fuel (sep_concat p_comma (map type_tostring l) ++ (p_comma ++ string_parameters p) ++ 93 :: rest)
  = Ok (l, Some p, false, rest).
Proof.
  intros Hp. induction l as [|t l IH]; intros fuel rest Hne HF HN Hf; [congruence|].
  inversion HF as [|? ? Ht HF']; subst. inversion HN as [|? ? _ HN']; subst.
  destruct fuel as [|fuel]; [simpl in Hf; lia|].
  destruct l as [|t2 l].
  - cbn [map sep_concat lk_ulist]. rewrite <- !app_assoc. rewrite (Ht _) by (simpl; auto).
    cbn [bind snd fst]. change (p_comma ++ ?x) with (44 :: 32 :: x).
    rewrite (skip_ws_nows 44) by reflexivity. cbv iota beta. change (44 =? 93) with false. change (44 =? 44) with true. cbv iota.
    change (skip_ws (32 :: ?x)) with (skip_ws x).
    destruct (X_head p Hp (93 :: rest)) as (r & Hr). rewrite Hr.
    change (skip_ws (w_parameters ++ r)) with (w_parameters ++ r). rewrite strip_prefix_app. rewrite <- Hr.
    change (lk_def_option (32 :: ?y)) with (lk_def_option y).
    rewrite (lk_def_option_ok p _ Hp). cbn [bind fst snd].
    change (expect [93] (93 :: ?x)) with (@Ok bytes x). reflexivity.
  - cbn [map]. rewrite sep_concat_cons2.
    change (map type_tostring (t2 :: l)) with (type_tostring t2 :: map type_tostring l) in IH.
    rewrite <- !app_assoc. cbn [lk_ulist].
    rewrite (Ht _) by (simpl; auto).
    cbn [bind snd fst]. change (p_comma ++ ?x) with (44 :: 32 :: x) at 1.
    rewrite (skip_ws_nows 44) by reflexivity. cbv iota beta. change (44 =? 93) with false. change (44 =? 44) with true. cbv iota.
    assert (Hnp : forall y, strip_prefix w_parameters
                      (skip_ws (32 :: sep_concat p_comma (type_tostring t2 :: map type_tostring l) ++ y)) = None).
    { intros y. change (skip_ws (32 :: ?x)) with (skip_ws x).
      inversion HN' as [|? ? Hn2 _]; subst.
      destruct (map type_tostring l) as [|q qs]; cbn [sep_concat]; rewrite <- ?app_assoc; apply Hn2. }
    rewrite Hnp. rewrite lk_ulist_space by exact sub_space.
    specialize (IH fuel rest ltac:(discriminate) HF' HN' ltac:(simpl in *; lia)).
    rewrite <- !app_assoc in IH. rewrite IH. reflexivity.
Qed.

(* ---------------------------------------------------------------- the productions with parameters *)
Lemma digit_not_v c : is_digit c = true -> (118 =? c) = false.
Proof. unfold is_digit. intros H. apply andb_true_iff in H as [H1 H2]. apply Z.leb_le in H1, H2. apply Z.eqb_neq. lia. Qed.

Section PSteps.
  Variable hl : bool.
  Variable fuel : nat.
  Variable p : params.
  Hypothesis Hp : pok p = true.
  Local Notation sub := (lk_ty hl fuel).

  (* primitive: TYPE options *)
  Lemma pstep_num d rest :
    lk_ty hl (S fuel) false (type_tostring (RNum p [] (FD d)) ++ rest) = Ok (RNum p [] (FD d), false, rest).
  Proof.
    rewrite (print_p_num p Hp). rewrite <- !app_assoc. cbn [app].
    rewrite (lk_ty_kw hl fuel false _ _ _ (prim_letter d) (lex_hit_prim d _)).
    cbn [lk_keyword]. rewrite (lk_options_ok p Hp rest). reflexivity.
  Qed.

  (* unknown: "unknown" options *)
  Lemma pstep_unk rest :
    lk_ty hl (S fuel) false (type_tostring (RUnk p []) ++ rest) = Ok (RUnk p [], false, rest).
  Proof.
    rewrite (print_p_unk p Hp). rewrite <- !app_assoc. cbn [app].
    rewrite (lk_ty_kw hl fuel false n_unknown KUnknown); [|eexists; eexists; split; reflexivity|reflexivity].
    cbn [lk_keyword]. rewrite (lk_options_ok p Hp rest). reflexivity.
  Qed.

  (* list_parm: "[" "var" "*" input "," def_option "]" *)
  Lemma pstep_list t' rest : lparses sub t' ->
    lk_ty hl (S fuel) false (type_tostring (RList p [] t') ++ rest) = Ok (RList p [] t', false, rest).
  Proof.
    intros Ht. rewrite (print_p_list p Hp). rewrite <- !app_assoc. change ([93] ++ rest) with (93 :: rest).
    change (p_lvar_star ++ ?x) with (91 :: w_var ++ p_star ++ x).
    change (lk_ty hl (S fuel) false (91 :: ?x)) with (lk_bracket sub false x).
    unfold lk_bracket. change (skip_ws (w_var ++ ?x)) with (w_var ++ x). rewrite strip_prefix_app.
    change (expect [42] (p_star ++ ?x)) with (@Ok bytes (32 :: x)). cbn [bind].
    rewrite lk_ty_space. rewrite (Ht _) by (simpl; auto). cbn [bind fst snd].
    rewrite (lk_tail_option_ok p Hp rest). reflexivity.
  Qed.

  (* regular_outparm: "[" number "*" input "," def_option "]"   (a RegularType in both modes) *)
  Lemma pstep_reg n t' rest : 0 <= n -> lparses sub t' ->
    lk_ty hl (S fuel) false (type_tostring (RReg p [] n t') ++ rest) = Ok (RReg p [] n t', false, rest).
  Proof.
    intros Hn Ht. rewrite (print_p_reg p Hp). rewrite <- !app_assoc. cbn [app].
    destruct (Z_of_digits_dec n Hn) as (u & Hu & Hnil & Hval). rewrite Hu.
    destruct (uint_digits_head u Hnil) as (c & r & Hcr & Hd).
    change (lk_ty hl (S fuel) false (91 :: ?x)) with (lk_bracket sub false x).
    unfold lk_bracket.
    assert (Hnv : forall y, strip_prefix w_var (skip_ws (uint_digits u ++ y)) = None).
    { intros y. rewrite Hcr. change ((c :: r) ++ y) with (c :: (r ++ y)).
      rewrite (skip_ws_nows c _ (proj1 (digit_tests2 c Hd))). change w_var with (118 :: tl w_var). cbn [strip_prefix].
      rewrite (digit_not_v c Hd). reflexivity. }
    rewrite Hnv. rewrite (lk_number_digits u _ Hnil). cbn [bind fst snd].
    change (expect [42] (p_star ++ ?x)) with (@Ok bytes (32 :: x)). cbn [bind].
    rewrite lk_ty_space. rewrite (Ht _) by (simpl; auto). cbn [bind fst snd].
    rewrite (lk_tail_option_ok p Hp rest). cbn [bind fst snd]. rewrite Hval. reflexivity.
  Qed.

  (* option_parm: "option" "[" input "," def_option "]" *)
  Lemma pstep_opt t' rest : lparses sub t' ->
    lk_ty hl (S fuel) false (type_tostring (ROpt p [] t') ++ rest) = Ok (ROpt p [] t', false, rest).
  Proof.
    intros Ht. rewrite (print_p_opt p Hp). rewrite <- !app_assoc. change ([93] ++ rest) with (93 :: rest).
    change (p_option_open ++ ?x) with (w_option ++ 91 :: x).
    rewrite (lk_ty_kw hl fuel false w_option KOption); [|eexists; eexists; split; reflexivity|reflexivity].
    cbn [lk_keyword]. change (expect [91] (91 :: ?x)) with (@Ok bytes x). cbn [bind].
    rewrite (Ht _) by (simpl; auto). cbn [bind fst snd].
    change (p_comma ++ ?x) with (44 :: 32 :: x). rewrite (skip_ws_nows 44) by reflexivity.
    change (44 =? 93) with false. cbv iota. change (44 :: 32 :: ?x) with (p_comma ++ x).
    rewrite (lk_tail_option_ok p Hp rest). reflexivity.
  Qed.

  (* union_parm *)
  Lemma pstep_union l rest : l <> [] -> Forall (lparses sub) l -> Forall nopar l -> (length l <= fuel)%nat ->
    lk_ty hl (S fuel) false (type_tostring (RUnion p [] l) ++ rest) = Ok (RUnion p [] l, false, rest).
  Proof.
    intros Hne Hparses Hnopar Hlen. rewrite (print_p_union p Hp).
    change (p_union_open ++ ?x) with (w_union ++ 91 :: x). rewrite <- !app_assoc. cbn [app].
    rewrite (lk_ty_kw hl fuel false w_union KUnion); [|eexists; eexists; split; reflexivity|reflexivity].
    cbn [lk_keyword]. change (expect [91] (91 :: ?x)) with (@Ok bytes x). cbn [bind].
    pose proof (lk_ulist_okp sub (lk_ty_space hl fuel) p Hp l fuel rest Hne Hparses Hnopar Hlen) as H.
    rewrite <- !app_assoc in H. cbn [app] in H. rewrite <- ?app_assoc. cbn [app]. rewrite H. reflexivity.
  Qed.

  (* record_tuple_param: "tuple" "[" "[" input ["," input]* "]" "," def_option "]" *)
  Lemma pstep_tuple l rest : record_name p = None -> l <> [] -> Forall (lparses sub) l -> (length l <= fuel)%nat ->
    lk_ty hl (S fuel) false (type_tostring (RRec p [] None l) ++ rest) = Ok (RRec p [] None l, false, rest).
  Proof.
    intros Hrn Hne Hparses Hlen. rewrite (print_p_tuple p Hp l Hrn).
    change (p_tuple_open ++ ?x) with (w_tuple ++ 91 :: 91 :: x). rewrite <- ?app_assoc. cbn [app]. rewrite <- ?app_assoc. cbn [app].
    rewrite (lk_ty_kw hl fuel false w_tuple KTuple); [|eexists; eexists; split; reflexivity|reflexivity].
    cbn [lk_keyword]. change (expect [91] (91 :: ?x)) with (@Ok bytes x). cbn [bind].
    change (expect [91] (91 :: ?x)) with (@Ok bytes x). cbn [bind].
    change (p_close_comma ++ ?x) with (93 :: p_comma ++ x).
    rewrite (lk_list_ok sub (lk_ty_space hl fuel) 93 (or_introl eq_refl) l fuel _ Hne Hparses Hlen). cbn [bind fst snd].
    rewrite (lk_tail_option_ok p Hp rest). reflexivity.
  Qed.

  (* record_struct *)
  Lemma pstep_struct ks l rest : record_name p = None -> l <> [] -> length ks = length l ->
    forallb lkey_ok ks = true -> Forall (lparses sub) l -> (length l <= fuel)%nat ->
    lk_ty hl (S fuel) false (type_tostring (RRec p [] (Some ks) l) ++ rest) = Ok (RRec p [] (Some ks) l, false, rest).
  Proof.
    intros Hrn Hne Hl Hkeys Hparses Hlen. rewrite (print_p_struct p Hp ks l Hrn).
    change (p_struct_open ++ ?x) with (w_struct ++ 91 :: 91 :: x). rewrite <- ?app_assoc. cbn [app]. rewrite <- ?app_assoc. cbn [app].
    rewrite (lk_ty_kw hl fuel false w_struct KStruct); [|eexists; eexists; split; reflexivity|reflexivity].
    cbn [lk_keyword]. change (expect [91] (91 :: ?x)) with (@Ok bytes x). cbn [bind].
    change (expect [91] (91 :: ?x)) with (@Ok bytes x). cbn [bind].
    change (p_mid ++ ?x) with (93 :: 44 :: 32 :: 91 :: x).
    assert (Hkne : ks <> []) by (destruct l; [congruence|]; destruct ks; discriminate).
    rewrite (lk_strings_ok ks fuel _ Hkne Hkeys ltac:(lia)). cbn [bind fst snd].
    change (expect [44] (44 :: 32 :: 91 :: ?x)) with (@Ok bytes (32 :: 91 :: x)). cbn [bind].
    change (expect [91] (32 :: 91 :: ?x)) with (@Ok bytes x). cbn [bind].
    change (p_close_comma ++ ?x) with (93 :: p_comma ++ x).
    rewrite (lk_list_ok sub (lk_ty_space hl fuel) 93 (or_introl eq_refl) l fuel _ Hne Hparses Hlen). cbn [bind fst snd].
    rewrite (lk_tail_option_ok p Hp rest). cbn [bind fst snd].
    rewrite Hl, Nat.eqb_refl. reflexivity.
  Qed.
End PSteps.

(* regular_inparm in low-level mode *)
Lemma step_reg fuel n t' rest : 0 <= n -> lparses (lk_ty false fuel) t' -> follow_ok rest ->
  lk_ty false (S fuel) false (type_tostring (RReg [] [] n t') ++ rest) = Ok (RReg [] [] n t', false, rest).
Proof.
  intros Hn Ht Hr. rewrite print_reg.
  destruct (Z_of_digits_dec n Hn) as (u & Hu & Hnil & Hval). rewrite Hu.
  destruct (uint_digits_head u Hnil) as (c & r & Hcr & Hd).
  rewrite <- !app_assoc.
  rewrite lk_ty_num by (exists c, r; split; [exact Hcr|exact Hd]).
  unfold lk_regular. rewrite (lk_number_digits u _ Hnil). cbn [bind fst snd].
  change (expect [42] (p_star ++ ?x)) with (@Ok bytes (32 :: x)). cbn [bind].
  rewrite lk_ty_space. rewrite (Ht rest Hr).
  cbn [bind fst snd orb]. rewrite Hval. reflexivity.
Qed.

(* ---------------------------------------------------------------- the fragment *)
Definition pnil (p : params) : bool := match p with [] => true | _ => false end.
Definition pis_cat (p : params) : bool :=
  match p with [(k, JBool true)] => bytes_eqb k k_categorical | _ => false end.
Definition norec (p : params) : bool := match record_name p with None => true | Some _ => false end.
(* no parameters / only "__categorical__": true (high level) / scalar parameters *)
Definition pclass (hl : bool) (p : params) : bool := pnil p || (hl && pis_cat p) || pok p.

Fixpoint lark_okp (hl : bool) (t : rty) {struct t} : bool :=
  hardcoded t ||
  match t with
  | RNum p [] (FD _) => pclass hl p
  | RUnk p [] => pclass hl p
  | RList p [] t' => pclass hl p && lark_okp hl t'
  | RReg p [] n t' => (0 <=? n) && ((pnil p && negb hl) || pok p) && lark_okp hl t'
  | ROpt p [] t' => (((pnil p || (hl && pis_cat p)) && (hl || negb (is_listlike t'))) || pok p) && lark_okp hl t'
  | RUnion p [] l => pclass hl p && nonempty l && forallb (lark_okp hl) l
  | RRec p [] None l => (pnil p || (hl && pis_cat p) || (pok p && norec p)) && nonempty l && forallb (lark_okp hl) l
  | RRec p [] (Some ks) l =>
      (pnil p || (hl && pis_cat p) || (hl && pnamed p) || (pok p && norec p)) &&
      nonempty l && Nat.eqb (length ks) (length l) && forallb lkey_ok ks && forallb (lark_okp hl) l
  | _ => false
  end.

Lemma pnil_eq p : pnil p = true -> p = [].
Proof. destruct p; [reflexivity|discriminate]. Qed.
Lemma pis_cat_eq p : pis_cat p = true -> p = p_cat.
Proof.
  destruct p as [|[k v] [|]]; try discriminate; destruct v as [|[]| | | | |]; try discriminate.
  simpl. intros H. apply bytes_eqb_eq in H. subst. reflexivity.
Qed.
Lemma pclass_cases hl p : pclass hl p = true -> p = [] \/ (hl = true /\ p = p_cat) \/ pok p = true.
Proof.
  unfold pclass. intros H. apply orb_true_iff in H as [H|H]; [apply orb_true_iff in H as [H|H]|].
  - left. apply pnil_eq, H.
  - apply andb_true_iff in H as [H1 H2]. right; left. split; [exact H1|apply pis_cat_eq, H2].
  - right; right. exact H.
Qed.
Lemma pcat2_cases hl p : pnil p || (hl && pis_cat p) = true -> p = [] \/ (hl = true /\ p = p_cat).
Proof.
  intros H. apply orb_true_iff in H as [H|H]; [left; apply pnil_eq, H|].
  apply andb_true_iff in H as [H1 H2]. right. split; [exact H1|apply pis_cat_eq, H2].
Qed.
Lemma norec_eq p : norec p = true -> record_name p = None.
Proof. unfold norec. destruct (record_name p); [discriminate|reflexivity]. Qed.

(* ---------------------------------------------------------------- no "parameters" at the head *)
Lemma nopar_okp hl t : lark_okp hl t = true -> nopar t.
Proof.
  intros H x. destruct t as [p s dt|p s|p s t'|p s n t'|p s t'|p s ks l|p s l]; cbn [lark_okp] in H;
    apply orb_true_iff in H as [H|H];
    try (destruct (hardcoded_cases _ H) as [->|[->|[->| ->]]]; reflexivity); try discriminate H.
  - destruct s; [|discriminate]. destruct dt as [d| | | | | | | |]; try discriminate.
    destruct (pclass_cases hl p H) as [->|[[_ ->]|Hk]].
    + rewrite print_num. destruct d; reflexivity.
    + rewrite print_cat_num. reflexivity.
    + rewrite (print_p_num p Hk). destruct d; reflexivity.
  - destruct s; [|discriminate]. destruct (pclass_cases hl p H) as [->|[[_ ->]|Hk]]; [reflexivity|reflexivity|].
    rewrite (print_p_unk p Hk). reflexivity.
  - destruct s; [|discriminate]. apply andb_true_iff in H as [H _].
    destruct (pclass_cases hl p H) as [->|[[_ ->]|Hk]];
      [rewrite print_list|rewrite print_cat_list|rewrite (print_p_list p Hk)]; reflexivity.
  - destruct s; [|discriminate]. apply andb_true_iff in H as [H _]. apply andb_true_iff in H as [Hn H].
    apply Z.leb_le in Hn. destruct (Z_of_digits_dec n Hn) as (u & Hu & Hnil & _).
    destruct (uint_digits_head u Hnil) as (c & r & Hcr & Hd).
    destruct (digit_tests2 c Hd) as (Hws & _ & _ & _ & _ & _ & _ & _ & H112).
    apply orb_true_iff in H as [H|Hk].
    + apply andb_true_iff in H as [H _]. apply pnil_eq in H. subst p. rewrite print_reg, Hu, Hcr.
      rewrite <- !app_assoc. change ((c :: r) ++ ?y) with (c :: (r ++ y)). rewrite (skip_ws_nows c _ Hws).
      change w_parameters with (112 :: tl w_parameters). cbn [strip_prefix]. rewrite H112. reflexivity.
    + rewrite (print_p_reg p Hk). reflexivity.
  - destruct s; [|discriminate]. apply andb_true_iff in H as [H _]. apply orb_true_iff in H as [H|Hk].
    + apply andb_true_iff in H as [H _]. destruct (pcat2_cases hl p H) as [->|[_ ->]]; [|rewrite print_cat_opt; reflexivity].
      rewrite print_opt. destruct (is_listlike t'); reflexivity.
    + rewrite (print_p_opt p Hk). reflexivity.
  - destruct s; [|discriminate]. destruct ks as [ks|].
    + repeat (apply andb_true_iff in H as [H ?]). apply orb_true_iff in H as [H|H]; [apply orb_true_iff in H as [H|H]|].
      * destruct (pcat2_cases hl p H) as [->|[_ ->]]; [rewrite print_rec|rewrite print_cat_rec]; reflexivity.
      * apply andb_true_iff in H as [_ H].
        destruct p as [|[k v] p']; [discriminate H|]. destruct v as [| | | |w| |]; try discriminate H. destruct p'; [|discriminate H].
        apply andb_true_iff in H as [Hk Hw]. apply bytes_eqb_eq in Hk. subst k.
        destruct (lname_parts w Hw) as ((c & w' & Hw' & Hc) & _ & Hn & Hres & Hpar & _).
        rewrite (print_named w (Some ks) l Hn Hres). rewrite <- app_assoc.
        destruct (letter_tests c Hc) as (Hws & _). rewrite Hw'. change ((c :: w') ++ ?y) with (c :: (w' ++ y)).
        rewrite (skip_ws_nows c _ Hws). change (c :: w' ++ ?y) with ((c :: w') ++ y). rewrite <- Hw'.
        apply strip_prefix_incomparable, Hpar.
      * apply andb_true_iff in H as [Hk Hr]. rewrite (print_p_struct p Hk ks l (norec_eq p Hr)). reflexivity.
    + repeat (apply andb_true_iff in H as [H ?]). apply orb_true_iff in H as [H|H].
      * destruct (pcat2_cases hl p H) as [->|[_ ->]]; [rewrite print_tuple|rewrite print_cat_rec]; reflexivity.
      * apply andb_true_iff in H as [Hk Hr]. rewrite (print_p_tuple p Hk l (norec_eq p Hr)). reflexivity.
  - destruct s; [|discriminate]. repeat (apply andb_true_iff in H as [H ?]).
    destruct (pclass_cases hl p H) as [->|[[_ ->]|Hk]];
      [rewrite print_union|rewrite print_cat_union|rewrite (print_p_union p Hk)]; reflexivity.
Qed.

(* ---------------------------------------------------------------- the round trip *)
Definition lppp (hl : bool) (t : rty) : Prop :=
  lark_okp hl t = true -> forall fuel rest, (csize t <= fuel)%nat -> follow_ok rest ->
  lk_ty hl fuel false (type_tostring t ++ rest) = Ok (t, false, rest).

Lemma lparses_of_lppp hl fuel l :
  Forall (lppp hl) l -> forallb (lark_okp hl) l = true -> (csum l <= fuel)%nat ->
  Forall (lparses (lk_ty hl fuel)) l /\ Forall nopar l /\ (length l <= fuel)%nat.
Proof.
  intros HF Hp Hs. destruct (csum_ge l) as [Hlen Hsz].
  split; [|split; [|lia]].
  - apply Forall_forall. intros t Ht rest Hr. rewrite Forall_forall in HF. rewrite forallb_forall in Hp.
    apply (HF t Ht (Hp t Ht)); [specialize (Hsz t Ht); lia|exact Hr].
  - apply Forall_forall. intros t Ht. rewrite forallb_forall in Hp. apply (nopar_okp hl), Hp, Ht.
Qed.

Lemma pc_pok p : pok p = true -> pc p = 1%nat.
Proof. intros H. destruct (pok_parts p H) as (_ & _ & Hne). destruct p; [congruence|reflexivity]. Qed.

Theorem lark_param_parse_print_all hl t : lppp hl t.
Proof.
  induction t as [p s dt|p s|p s t' IH|p s n t' IH|p s t' IH|p s ks l IH|p s l IH] using rty_ind';
    intros Hp fuel rest Hf Hr; cbn [lark_okp] in Hp;
    apply orb_true_iff in Hp as [Hp|Hp];
    try (apply lhardcoded_pp; [exact Hp|pose proof (csize_pos (RNum p s dt)); simpl in *; lia|exact Hr]);
    try (apply lhardcoded_pp; [exact Hp|simpl in *; lia|exact Hr]); try discriminate Hp.
  - (* primitive *)
    destruct s; [|discriminate]. destruct dt as [d| | | | | | | |]; try discriminate.
    destruct (pclass_cases hl p Hp) as [->|[[-> ->]|Hk]].
    + simpl in Hf. destruct fuel as [|fuel]; [lia|]. exact (step_num hl false fuel d rest Hr).
    + simpl in Hf. destruct fuel as [|[|fuel]]; try lia. rewrite print_cat_num. apply cat_step.
      exact (step_num true true fuel d (93 :: rest) (follow93 rest)).
    + cbn [csize] in Hf. destruct fuel as [|fuel]; [lia|]. exact (pstep_num hl fuel p Hk d rest).
  - (* unknown *)
    destruct s; [|discriminate].
    destruct (pclass_cases hl p Hp) as [->|[[-> ->]|Hk]].
    + simpl in Hf. destruct fuel as [|fuel]; [lia|]. exact (step_unk hl false fuel rest Hr).
    + simpl in Hf. destruct fuel as [|[|fuel]]; try lia. rewrite print_cat_unk. apply cat_step.
      exact (step_unk true true fuel (93 :: rest) (follow93 rest)).
    + cbn [csize] in Hf. destruct fuel as [|fuel]; [lia|]. exact (pstep_unk hl fuel p Hk rest).
  - (* lists *)
    destruct s; [|discriminate]. apply andb_true_iff in Hp as [Hp Hc].
    destruct (pclass_cases hl p Hp) as [->|[[-> ->]|Hk]].
    + simpl in Hf. destruct fuel as [|fuel]; [lia|].
      apply (step_list hl false fuel t' rest); [|exact Hr]. intros r Hr'. apply (IH Hc); [lia|exact Hr'].
    + simpl in Hf. destruct fuel as [|[|fuel]]; try lia. rewrite print_cat_list. apply cat_step.
      apply (step_list true true fuel t' (93 :: rest)); [|apply follow93]. intros r Hr'. apply (IH Hc); [lia|exact Hr'].
    + cbn [csize] in Hf. rewrite (pc_pok p Hk) in Hf. destruct fuel as [|fuel]; [lia|].
      apply (pstep_list hl fuel p Hk t' rest). intros r Hr'. apply (IH Hc); [lia|exact Hr'].
  - (* regular *)
    destruct s; [|discriminate]. apply andb_true_iff in Hp as [Hp Hc]. apply andb_true_iff in Hp as [Hn Hp].
    apply Z.leb_le in Hn. apply orb_true_iff in Hp as [Hp|Hk].
    + apply andb_true_iff in Hp as [Hp Hhl]. apply pnil_eq in Hp. subst p. apply negb_true_iff in Hhl. subst hl.
      simpl in Hf. destruct fuel as [|fuel]; [lia|].
      apply (step_reg fuel n t' rest Hn); [|exact Hr]. intros r Hr'. apply (IH Hc); [lia|exact Hr'].
    + cbn [csize] in Hf. rewrite (pc_pok p Hk) in Hf. destruct fuel as [|fuel]; [lia|].
      apply (pstep_reg hl fuel p Hk n t' rest Hn). intros r Hr'. apply (IH Hc); [lia|exact Hr'].
  - (* option *)
    destruct s; [|discriminate]. apply andb_true_iff in Hp as [Hp Hc]. apply orb_true_iff in Hp as [Hp|Hk].
    + apply andb_true_iff in Hp as [Hp Hmode]. destruct (pcat2_cases hl p Hp) as [->|[-> ->]].
      * simpl in Hf. destruct fuel as [|fuel]; [lia|].
        apply (step_opt hl false fuel t' rest Hmode); [|exact Hr]. intros r Hr'. apply (IH Hc); [lia|exact Hr'].
      * simpl in Hf. destruct fuel as [|[|fuel]]; try lia. rewrite print_cat_opt. apply cat_step.
        apply (step_opt true true fuel t' (93 :: rest) eq_refl); [|apply follow93]. intros r Hr'. apply (IH Hc); [lia|exact Hr'].
    + cbn [csize] in Hf. rewrite (pc_pok p Hk) in Hf. destruct fuel as [|fuel]; [lia|].
      apply (pstep_opt hl fuel p Hk t' rest). intros r Hr'. apply (IH Hc); [lia|exact Hr'].
  - (* records *)
    destruct s; [|discriminate]. destruct ks as [ks|].
    + repeat (apply andb_true_iff in Hp as [Hp ?]).
      match goal with Hx : Nat.eqb _ _ = true |- _ => apply Nat.eqb_eq in Hx; rename Hx into Hl end.
      match goal with Hx : nonempty l = true |- _ => apply nonempty_ne in Hx; rename Hx into Hne end.
      match goal with Hx : forallb lkey_ok ks = true |- _ => rename Hx into Hkeys end.
      match goal with Hx : forallb (lark_okp hl) l = true |- _ => rename Hx into Hall end.
      apply orb_true_iff in Hp as [Hp|Hp]; [apply orb_true_iff in Hp as [Hp|Hp]|].
      * destruct (pcat2_cases hl p Hp) as [->|[-> ->]].
        -- simpl in Hf. destruct fuel as [|fuel]; [lia|].
           destruct (lparses_of_lppp hl fuel l IH Hall ltac:(unfold csum; lia)) as (Hparses & _ & Hlen).
           exact (step_rec hl false fuel ks l rest Hne Hl Hparses Hkeys Hlen).
        -- simpl in Hf. destruct fuel as [|[|fuel]]; try lia. rewrite print_cat_rec. apply cat_step.
           destruct (lparses_of_lppp true fuel l IH Hall ltac:(unfold csum; lia)) as (Hparses & _ & Hlen).
           exact (step_rec true true fuel ks l (93 :: rest) Hne Hl Hparses Hkeys Hlen).
      * apply andb_true_iff in Hp as [Hhl Hp]. subst hl.
        destruct p as [|[k v] p']; [discriminate Hp|]. destruct v as [| | | |w| |]; try discriminate Hp. destruct p'; [|discriminate Hp].
        apply andb_true_iff in Hp as [Hk Hw]. apply bytes_eqb_eq in Hk. subst k. simpl in Hf.
        destruct fuel as [|fuel]; [lia|].
        destruct (lparses_of_lppp true fuel l IH Hall ltac:(unfold csum; lia)) as (Hparses & _ & Hlen).
        exact (step_named true false fuel w ks l rest eq_refl Hw Hne Hl Hparses Hkeys Hlen).
      * apply andb_true_iff in Hp as [Hk Hrn]. apply norec_eq in Hrn.
        cbn [csize] in Hf. rewrite (pc_pok p Hk) in Hf. destruct fuel as [|fuel]; [lia|].
        destruct (lparses_of_lppp hl fuel l IH Hall ltac:(unfold csum; lia)) as (Hparses & _ & Hlen).
        exact (pstep_struct hl fuel p Hk ks l rest Hrn Hne Hl Hkeys Hparses Hlen).
    + repeat (apply andb_true_iff in Hp as [Hp ?]).
      match goal with Hx : nonempty l = true |- _ => apply nonempty_ne in Hx; rename Hx into Hne end.
      match goal with Hx : forallb (lark_okp hl) l = true |- _ => rename Hx into Hall end.
      apply orb_true_iff in Hp as [Hp|Hp].
      * destruct (pcat2_cases hl p Hp) as [->|[-> ->]].
        -- simpl in Hf. destruct fuel as [|fuel]; [lia|].
           destruct (lparses_of_lppp hl fuel l IH Hall ltac:(unfold csum; lia)) as (Hparses & _ & Hlen).
           exact (step_tuple hl false fuel l rest Hne Hparses Hlen).
        -- simpl in Hf. destruct fuel as [|[|fuel]]; try lia. rewrite print_cat_rec. apply cat_step.
           destruct (lparses_of_lppp true fuel l IH Hall ltac:(unfold csum; lia)) as (Hparses & _ & Hlen).
           exact (step_tuple true true fuel l (93 :: rest) Hne Hparses Hlen).
      * apply andb_true_iff in Hp as [Hk Hrn]. apply norec_eq in Hrn.
        cbn [csize] in Hf. rewrite (pc_pok p Hk) in Hf. destruct fuel as [|fuel]; [lia|].
        destruct (lparses_of_lppp hl fuel l IH Hall ltac:(unfold csum; lia)) as (Hparses & _ & Hlen).
        exact (pstep_tuple hl fuel p Hk l rest Hrn Hne Hparses Hlen).
  - (* unions *)
    destruct s; [|discriminate]. repeat (apply andb_true_iff in Hp as [Hp ?]).
    match goal with Hx : nonempty l = true |- _ => apply nonempty_ne in Hx; rename Hx into Hne end.
    match goal with Hx : forallb (lark_okp hl) l = true |- _ => rename Hx into Hall end.
    destruct (pclass_cases hl p Hp) as [->|[[-> ->]|Hk]].
    + simpl in Hf. destruct fuel as [|fuel]; [lia|].
      destruct (lparses_of_lppp hl fuel l IH Hall ltac:(unfold csum; lia)) as (Hparses & Hnopar & Hlen).
      exact (step_union hl false fuel l rest Hne Hparses Hnopar Hlen).
    + simpl in Hf. destruct fuel as [|[|fuel]]; try lia. rewrite print_cat_union. apply cat_step.
      destruct (lparses_of_lppp true fuel l IH Hall ltac:(unfold csum; lia)) as (Hparses & Hnopar & Hlen).
      exact (step_union true true fuel l (93 :: rest) Hne Hparses Hnopar Hlen).
    + cbn [csize] in Hf. rewrite (pc_pok p Hk) in Hf. destruct fuel as [|fuel]; [lia|].
      destruct (lparses_of_lppp hl fuel l IH Hall ltac:(unfold csum; lia)) as (Hparses & Hnopar & Hlen).
      exact (pstep_union hl fuel p Hk l rest Hne Hparses Hnopar Hlen).
Qed.

(* ---------------------------------------------------------------- enough fuel *)
Lemma csum_le_p hl (l : list rty) :
  Forall (fun t => lark_okp hl t = true -> (csize t <= length (type_tostring t))%nat) l ->
  forallb (lark_okp hl) l = true ->
  (csum l <= fold_right (fun p n => (length p + n)%nat) O (map type_tostring l))%nat.
Proof.
  unfold csum. induction 1 as [|t l Ht Hl IH]; intros Hp; simpl; [lia|].
  simpl in Hp. apply andb_true_iff in Hp as [H1 H2]. specialize (Ht H1). specialize (IH H2). lia.
Qed.

Lemma csize_le_print_p hl t : lark_okp hl t = true -> (csize t <= length (type_tostring t))%nat.
Proof.
  induction t as [p s dt|p s|p s t' IH|p s n t' IH|p s t' IH|p s ks l IH|p s l IH] using rty_ind';
    intros Hp; cbn [lark_okp] in Hp; apply orb_true_iff in Hp as [Hp|Hp];
    try (destruct (hardcoded_cases _ Hp) as [E|[E|[E|E]]]; rewrite E; vm_compute; lia); try discriminate Hp.
  - destruct s; [|discriminate]. destruct dt as [d| | | | | | | |]; try discriminate.
    destruct (pclass_cases hl p Hp) as [->|[[_ ->]|Hk]].
    + rewrite print_num; destruct d; vm_compute; lia.
    + rewrite print_cat_num, cat_len, print_num; destruct d; vm_compute; lia.
    + rewrite (print_p_num p Hk), !app_length. cbn [csize length]. rewrite (pc_pok p Hk). lia.
  - destruct s; [|discriminate]. destruct (pclass_cases hl p Hp) as [->|[[_ ->]|Hk]]; [vm_compute; lia|vm_compute; lia|].
    rewrite (print_p_unk p Hk), !app_length. cbn [csize length]. rewrite (pc_pok p Hk). lia.
  - destruct s; [|discriminate]. apply andb_true_iff in Hp as [Hp Hc]. specialize (IH Hc).
    destruct (pclass_cases hl p Hp) as [->|[[_ ->]|Hk]].
    + rewrite print_list, !app_length. cbn [csize pc]. change (length w_var) with 3%nat. lia.
    + rewrite print_cat_list, cat_len, print_list, !app_length. cbn [csize pc p_cat]. lia.
    + rewrite (print_p_list p Hk), !app_length. cbn [csize]. rewrite (pc_pok p Hk). change (length p_lvar_star) with 7%nat. lia.
  - destruct s; [|discriminate]. apply andb_true_iff in Hp as [Hp Hc]. specialize (IH Hc). apply andb_true_iff in Hp as [_ Hp].
    apply orb_true_iff in Hp as [Hp|Hk].
    + apply andb_true_iff in Hp as [Hp _]. apply pnil_eq in Hp. subst p. rewrite print_reg, !app_length. cbn [csize pc].
      change (length p_star) with 3%nat. lia.
    + rewrite (print_p_reg p Hk), !app_length. cbn [csize length]. rewrite (pc_pok p Hk). change (length p_star) with 3%nat. lia.
  - destruct s; [|discriminate]. apply andb_true_iff in Hp as [Hp Hc]. specialize (IH Hc). apply orb_true_iff in Hp as [Hp|Hk].
    + apply andb_true_iff in Hp as [Hp _]. destruct (pcat2_cases hl p Hp) as [->|[_ ->]]; [|rewrite print_cat_opt, cat_len]; rewrite print_opt;
        destruct (is_listlike t'); cbn [csize pc p_cat]; rewrite ?app_length; cbn [length]; rewrite ?app_length; cbn [length];
        change (length w_option) with 6%nat; lia.
    + rewrite (print_p_opt p Hk), !app_length. cbn [csize]. rewrite (pc_pok p Hk). change (length p_option_open) with 7%nat. lia.
  - destruct s; [|discriminate]. destruct ks as [ks|].
    + repeat (apply andb_true_iff in Hp as [Hp ?]).
      match goal with Hx : Nat.eqb _ _ = true |- _ => apply Nat.eqb_eq in Hx; rename Hx into Hl end.
      match goal with Hx : forallb (lark_okp hl) l = true |- _ => pose proof (csum_le_p hl l IH Hx) as Hsum end.
      pose proof (sep_concat_length p_comma (keyed ks (map type_tostring l))) as Hsep.
      pose proof (sep_concat_length p_comma (map type_tostring l)) as Hsep2.
      pose proof (keyed_lengths ks l Hl) as Hkl. unfold csum in Hsum.
      apply orb_true_iff in Hp as [Hp|Hp]; [apply orb_true_iff in Hp as [Hp|Hp]|].
      * destruct (pcat2_cases hl p Hp) as [->|[_ ->]]; [|rewrite print_cat_rec, cat_len]; rewrite print_rec;
          cbn [csize pc p_cat length]; rewrite app_length; cbn [length]; lia.
      * apply andb_true_iff in Hp as [_ Hp].
        destruct p as [|[k v] p']; [discriminate Hp|]. destruct v as [| | | |w| |]; try discriminate Hp. destruct p'; [|discriminate Hp].
        apply andb_true_iff in Hp as [Hk Hw]. apply bytes_eqb_eq in Hk. subst k.
        destruct (lname_parts w Hw) as ((c & w' & Hw' & Hc) & _ & Hn & Hres & _).
        rewrite (print_named w (Some ks) l Hn Hres). rewrite app_length. cbn [length]. rewrite app_length. cbn [length csize pc].
        rewrite Hw'. cbn [length]. lia.
      * apply andb_true_iff in Hp as [Hk Hrn]. rewrite (print_p_struct p Hk ks l (norec_eq p Hrn)), !app_length.
        cbn [csize]. rewrite (pc_pok p Hk). change (length p_struct_open) with 8%nat. lia.
    + repeat (apply andb_true_iff in Hp as [Hp ?]).
      match goal with Hx : forallb (lark_okp hl) l = true |- _ => pose proof (csum_le_p hl l IH Hx) as Hsum end.
      pose proof (sep_concat_length p_comma (map type_tostring l)) as Hsep. unfold csum in Hsum.
      apply orb_true_iff in Hp as [Hp|Hp].
      * destruct (pcat2_cases hl p Hp) as [->|[_ ->]]; [|rewrite print_cat_rec, cat_len]; rewrite print_tuple;
          cbn [csize pc p_cat length]; rewrite app_length; cbn [length]; lia.
      * apply andb_true_iff in Hp as [Hk Hrn]. rewrite (print_p_tuple p Hk l (norec_eq p Hrn)), !app_length.
        cbn [csize]. rewrite (pc_pok p Hk). change (length p_tuple_open) with 7%nat. lia.
  - destruct s; [|discriminate]. repeat (apply andb_true_iff in Hp as [Hp ?]).
    match goal with Hx : forallb (lark_okp hl) l = true |- _ => pose proof (csum_le_p hl l IH Hx) as Hsum end.
    pose proof (sep_concat_length p_comma (map type_tostring l)) as Hsep. unfold csum in Hsum.
    destruct (pclass_cases hl p Hp) as [->|[[_ ->]|Hk]].
    + rewrite print_union. cbn [csize pc]. rewrite app_length. change (length w_union) with 5%nat. cbn [length]. rewrite app_length. cbn [length]. lia.
    + rewrite print_cat_union, cat_len, print_union. cbn [csize pc p_cat]. rewrite app_length. change (length w_union) with 5%nat. cbn [length]. rewrite app_length. cbn [length]. lia.
    + rewrite (print_p_union p Hk), !app_length. cbn [csize]. rewrite (pc_pok p Hk). change (length p_union_open) with 6%nat. lia.
Qed.

(* ---------------------------------------------------------------- the theorems *)
Theorem lark_param_roundtrip_full hl t : lark_okp hl t = true -> lark_parse_full hl (type_tostring t) = Ok (t, false).
Proof.
  intros Hp. unfold lark_parse_full.
  rewrite <- (app_nil_r (type_tostring t)) at 2.
  rewrite (lark_param_parse_print_all hl t Hp (S (length (type_tostring t))) []).
  - reflexivity.
  - pose proof (csize_le_print_p hl t Hp). lia.
  - exact I.
Qed.

Theorem lark_param_roundtrip hl t : lark_okp hl t = true -> lark_parse hl (type_tostring t) = Ok t.
Proof. intros Hp. unfold lark_parse. rewrite (lark_param_roundtrip_full hl t Hp). reflexivity. Qed.

Theorem lark_param_roundtrip_some_mode t : lark_okp false t || lark_okp true t = true ->
  lark_parse false (type_tostring t) = Ok t \/ lark_parse true (type_tostring t) = Ok t.
Proof. intros H. apply orb_true_iff in H as [H|H]; [left|right]; apply lark_param_roundtrip, H. Qed.

(* [var * struct[["x", "y"], [[3 * int64, parameters={"__array__": "vec"}], option[bool, parameters={"n": -1}]],
    parameters={"__record__": "int", "ok": true, "z": null}], parameters={"__doc__": "hits"}]   -- low-level mode *)
Definition bsz (l : list Z) : bytes := l.
Definition ex_par : rty :=
  RList [(bsz [95; 95; 100; 111; 99; 95; 95], JStr (bsz [104; 105; 116; 115]))] []
    (RRec [(k_record, JStr (bsz [105; 110; 116])); (bsz [111; 107], JBool true); (bsz [122], JNull)] [] (Some [[120]; [121]])
       [RReg [(k_array, JStr (bsz [118; 101; 99]))] [] 3 (RNum [] [] (FD DInt64));
        ROpt [(bsz [110], JInt (-1))] [] (RNum [] [] (FD DBool))]).
Example ex_par_ok : lark_okp false ex_par = true /\ lark_okp true ex_par = true.
Proof. split; vm_compute; reflexivity. Qed.
Example ex_par_roundtrip : lark_parse false (type_tostring ex_par) = Ok ex_par /\ lark_parse true (type_tostring ex_par) = Ok ex_par.
Proof. split; apply lark_param_roundtrip; vm_compute; reflexivity. Qed.
(* what the fragment excludes, and rightly: a hidden "__categorical__": false, a float read with int() *)
Example ex_par_tight :
  lark_okp false (RNum [(k_categorical, JBool false)] [] (FD DInt64)) = false /\
  lark_parse false (type_tostring (RNum [(k_categorical, JBool false)] [] (FD DInt64))) = Ok (RNum [] [] (FD DInt64)) /\
  lark_okp false (RNum [([97], JDbl [49; 101; 51; 48])] [] (FD DInt64)) = false /\
  lark_parse false (type_tostring (RNum [([97], JDbl [49; 101; 51; 48])] [] (FD DInt64))) = Err EValue.
Proof. repeat split; vm_compute; reflexivity. Qed.

(* ---------------------------------------------------------------- the fragment extends the two others *)
Theorem lark_ok_okp hl t : lark_ok hl t = true -> lark_okp hl t = true.
Proof.
  induction t as [p s dt|p s|p s t' IH|p s n t' IH|p s t' IH|p s ks l IH|p s l IH] using rty_ind';
    intros Hp; cbn [lark_ok] in Hp; cbn [lark_okp]; apply orb_true_iff in Hp as [Hp|Hp];
    try (rewrite Hp; reflexivity); apply orb_true_iff; right.
  - destruct p; [|discriminate]. destruct s; [|discriminate]. destruct dt as [d| | | | | | | |]; try discriminate. reflexivity.
  - destruct p; [|discriminate]. destruct s; [|discriminate]. reflexivity.
  - destruct p; [|discriminate]. destruct s; [|discriminate]. exact (IH Hp).
  - destruct p; [|discriminate]. destruct s; [|discriminate].
    apply andb_true_iff in Hp as [Hn Hp]. apply andb_true_iff in Hn as [Hhl Hn].
    rewrite Hn, (IH Hp). cbn [pnil]. rewrite Hhl. reflexivity.
  - destruct p; [|discriminate]. destruct s; [|discriminate]. apply andb_true_iff in Hp as [Hm Hp].
    rewrite (IH Hp). cbn [pnil orb andb]. rewrite Hm. reflexivity.
  - destruct s; [|destruct p as [|[? []] []]; try discriminate Hp; destruct ks; discriminate Hp].
    destruct p as [|[k v] p'].
    + destruct ks as [ks|].
      * repeat (apply andb_true_iff in Hp as [Hp ?]).
        match goal with Hx : forallb (lark_ok hl) l = true |- _ => rewrite (forallb_impl _ _ l IH Hx) end.
        match goal with Hx : forallb lkey_ok ks = true |- _ => rewrite Hx end.
        match goal with Hx : Nat.eqb _ _ = true |- _ => rewrite Hx end. rewrite Hp. reflexivity.
      * apply andb_true_iff in Hp as [Hne Hall]. rewrite (forallb_impl _ _ l IH Hall), Hne. reflexivity.
    + destruct v as [| | | |w| |]; try discriminate Hp. destruct p'; [|discriminate Hp]. destruct ks as [ks|]; [|discriminate Hp].
      repeat (apply andb_true_iff in Hp as [Hp ?]). cbn [pnil pis_cat pnamed orb].
      match goal with Hx : forallb (lark_ok hl) l = true |- _ => rewrite (forallb_impl _ _ l IH Hx) end.
      match goal with Hx : forallb lkey_ok ks = true |- _ => rewrite Hx end.
      match goal with Hx : Nat.eqb _ _ = true |- _ => rewrite Hx end.
      match goal with Hx : nonempty l = true |- _ => rewrite Hx end.
      match goal with Hx : bytes_eqb k k_record = true |- _ => rewrite Hx end.
      match goal with Hx : lname_ok w = true |- _ => rewrite Hx end. rewrite Hp. rewrite andb_false_r. reflexivity.
  - destruct p; [|discriminate]. destruct s; [|discriminate]. apply andb_true_iff in Hp as [Hne Hall].
    rewrite Hne, (forallb_impl _ _ l IH Hall). reflexivity.
Qed.

Lemma pcat_pclass p : pcat p = true -> pnil p || (true && pis_cat p) = true.
Proof. intros H. destruct (pcat_cases p H) as [->| ->]; reflexivity. Qed.

Theorem lark_okc_okp t : lark_okc t = true -> lark_okp true t = true.
Proof.
  induction t as [p s dt|p s|p s t' IH|p s n t' IH|p s t' IH|p s ks l IH|p s l IH] using rty_ind';
    intros Hp; cbn [lark_okc] in Hp; cbn [lark_okp]; apply orb_true_iff in Hp as [Hp|Hp];
    try (rewrite Hp; reflexivity); try discriminate Hp; apply orb_true_iff; right.
  - destruct s; [|discriminate]. destruct dt as [d| | | | | | | |]; try discriminate.
    unfold pclass. rewrite (pcat_pclass p Hp). reflexivity.
  - destruct s; [|discriminate]. unfold pclass. rewrite (pcat_pclass p Hp). reflexivity.
  - destruct s; [|discriminate]. apply andb_true_iff in Hp as [Hp Hc].
    unfold pclass. rewrite (pcat_pclass p Hp), (IH Hc). reflexivity.
  - destruct s; [|discriminate]. apply andb_true_iff in Hp as [Hp Hc].
    rewrite (pcat_pclass p Hp), (IH Hc). reflexivity.
  - destruct s; [|discriminate]. destruct ks as [ks|].
    + repeat (apply andb_true_iff in Hp as [Hp ?]).
      match goal with Hx : forallb lark_okc l = true |- _ => rewrite (forallb_impl _ _ l IH Hx) end.
      match goal with Hx : forallb lkey_ok ks = true |- _ => rewrite Hx end.
      match goal with Hx : Nat.eqb _ _ = true |- _ => rewrite Hx end.
      match goal with Hx : nonempty l = true |- _ => rewrite Hx end.
      apply orb_true_iff in Hp as [Hp|Hp].
      * rewrite (pcat_pclass p Hp). reflexivity.
      * cbn [andb]. rewrite Hp. rewrite !orb_true_r. reflexivity.
    + repeat (apply andb_true_iff in Hp as [Hp ?]).
      match goal with Hx : forallb lark_okc l = true |- _ => rewrite (forallb_impl _ _ l IH Hx) end.
      match goal with Hx : nonempty l = true |- _ => rewrite Hx end.
      rewrite (pcat_pclass p Hp). reflexivity.
  - destruct s; [|discriminate]. repeat (apply andb_true_iff in Hp as [Hp ?]).
    match goal with Hx : forallb lark_okc l = true |- _ => rewrite (forallb_impl _ _ l IH Hx) end.
    match goal with Hx : nonempty l = true |- _ => rewrite Hx end.
    unfold pclass. rewrite (pcat_pclass p Hp). reflexivity.
Qed.
