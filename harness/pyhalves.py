"""Python halves of C03 C05 C07 C08 C09 C10: the REAL Python layer of /repo (operations/structure.py, reducers.py,
_util.py) run through pyshim on top of the real libawkward, compared with the value-level specifications of
/verif/cpy/coq/PySpec.v (extracted: /verif/.build/cpy/pyrun).

For every property P in {C03, C05, C07, C08, C09, C10}:
    cases_P(rng, tier)        -> list of common.Case
    run_P(cases, tier, rng)   -> summary dict in the format of a props module's run()
Stand-alone:  python3 /verif/harness/pyhalves.py P [--tier quick|thorough] [--seed N]   (prints the summary as JSON)
"""
import json
import os
import random
import re
import subprocess
import sys
import time
from concurrent.futures import ThreadPoolExecutor

sys.path.insert(0, os.path.dirname(os.path.abspath(__file__)))
import common as C  # noqa: E402
import gen as G  # noqa: E402

PROPS = ('C03', 'C05', 'C07', 'C08', 'C09', 'C10', 'C18')
PYTHON = '/venv/bin/python'
RUNNER = os.path.join(C.VERIF, 'harness', 'py_halves.py')
CPY = os.path.join(C.VERIF, 'cpy')
BCPY = os.path.join(C.BUILD, 'cpy')
COQ_DIR = os.path.join(CPY, 'coq')
COQ_LOGICAL = '-R /verif/coq AwkV -R . AwkPy'
THEOREMS_BY_PROP = {
    'C03': ['reduce_none_is_reduce_of_flatten'],
    'C05': ['unflatten_flatten', 'unflatten_flatten_plain', 'flatten_none_app'],
    'C07': ['cartesian_is_product', 'cartesian_length', 'cartesian_pair_index', 'cartesian_nested_pair'],
    'C08': ['concat_axis0_app', 'concat_axis1_zipapp', 'concat_axis1_lengths'],
    'C09': ['is_none_exact', 'is_none_union_exact', 'is_none_union_axis1', 'is_none_exact_axis1', 'mask_exact', 'mask_exact_lists', 'fill_none_exact', 'fill_none_exact_axis1',
            'firsts_singletons'],
    'C18': ['lift2_succeeds', 'lift2_error_wins', 'spec_ax_app', 'spec_ax_parts', 'spec_ax_fold', 'axis_top_inner', 'spec_num_app', 'spec_num_parts', 'spec_local_index_app', 'spec_local_index_parts', 'spec_pad_none_app', 'spec_pad_none_parts', 'spec_combinations_app', 'spec_combinations_parts', 'spec_argcombinations_app', 'spec_argcombinations_parts', 'spec_firsts_app', 'spec_firsts_parts', 'spec_is_none_app', 'spec_is_none_parts', 'spec_fill_none_app', 'spec_fill_none_parts', 'flatten_spec_app', 'spec_flatten_axis_app', 'spec_flatten_axis_parts', 'spec_singletons_app', 'spec_values_astype_app', 'sort_spec_app', 'sort_spec_parts', 'sort_spec_inner_app', 'reduce_spec_app', 'reduce_spec_parts', 'spec_reduce_py_app', 'spec_reduce_py_parts', 'py_reduce_rule_sound', 'spec_num_top_app', 'spec_num_top_parts', 'spec_local_index_top_parts', 'spec_local_index_top_app', 'red_leaves_closed_form', 'reduce_leaves_closed_form', 'red_val_app', 'red_val_parts', 'red_comb_unit', 'arg_parts_first_min', 'arg_parts_first_max', 'reduce_leaves_arg_parts', 'leaves_l_app', 'spec_flatten_none_app', 'spec_flatten_none_parts', 'spec_reduce_none_concat', 'reduce_none_parts', 'reduce_none_parts_exact', 'reduce_none_arg_parts', 'leaves_l_perm', 'red_val_perm', 'reduce_none_parts_records', 'reduce_none_parts_records_exact'],
    'C10': ['unzip_zip_partial', 'unzip_zip_lists', 'with_field_get_same', 'with_field_get_other', 'with_field_preserves_shape',
            'with_field_preserves_lists'],
}
THEOREMS = [t for p_ in sorted(THEOREMS_BY_PROP) for t in THEOREMS_BY_PROP[p_]]
RULE = ('value-first random layouts (every list/option encoding) wrapped in ak.Array x the Python-level function with '
        'arguments covering positive/negative/None axes, targets, nested/depth_limit options and incompatible inputs; '
        'families of arrays sharing an outer list structure for the n-ary functions; non-trivial = the call succeeded on '
        'an input with >= 1 non-empty list (and >= 1 None / record where the function is about them); distinct by case text')
ASSUMPTIONS = ['pyshim (Python substitute for awkward._ext) transports every C++ call by value to the real libawkward',
               'union types, records above the addressed axis and bool/number merges are outside the specified fragment '
               '(skipped, counted as unspecified)',
               'float leaves are integer-valued (plus nan/inf where no arithmetic happens)']


# ---------------------------------------------------------------------------------------------- building / running
DRIVERS = ('pydrv',)          # the driver behind pyshim: a props module that uses these halves must (re)build it


def build(impl=True):
    """(re)build libawkward + pydrv from /repo's current tree (so that pyshim serves the code under test), the Rocq
    sources of /verif/cpy/coq (needs the core .vo files), the extraction and pyrun"""
    os.makedirs(BCPY, exist_ok=True)
    if impl:
        C.build_impl(False, DRIVERS)
    r = C.sh('cd %s && ([ -f Makefile.coq ] && [ Makefile.coq -nt _CoqProject ] || coq_makefile -f _CoqProject -o Makefile.coq) '
             '>/dev/null 2>&1; timeout 1500 make -f Makefile.coq -j8 2>&1 | tail -30' % COQ_DIR)
    if r.returncode != 0 or 'Error' in r.stdout:
        raise C.BuildError('Rocq build of cpy failed:\n' + r.stdout[-3000:])
    r = C.sh('make -s -C %s/ocaml VERIF=%s' % (CPY, C.VERIF))
    if r.returncode != 0:
        raise C.BuildError('pyrun build failed:\n' + r.stdout[-3000:])


def rocq_obligations(prop=None):
    """audit /verif/cpy/coq, compile Props_Py.v, parse every Print Assumptions.
    Returns (n_obligations, n_discharged, problems, axioms) for the theorems of `prop` (all when None), in the
    shape of check.rocq_obligations."""
    import check as K
    theorems = THEOREMS if prop is None else THEOREMS_BY_PROP[prop]
    probs = K.audit_dir(COQ_DIR)
    r = C.sh('cd %s && timeout 900 coqc %s Props_Py.v' % (COQ_DIR, COQ_LOGICAL))
    if r.returncode != 0:
        return len(theorems), 0, probs + ['Props_Py.v no longer checks: ' + r.stdout[-600:]], {}
    src = K.strip_comments(open(os.path.join(COQ_DIR, 'Props_Py.v')).read())
    declared = re.findall(r'Theorem\s+(\w+)', src)
    printed = re.findall(r'Print Assumptions\s+(\w+)', src)
    blocks = [b for b in re.split(r'(?=Closed under the global context|Axioms:)', r.stdout)
              if b.startswith('Closed') or b.startswith('Axioms:')]
    axioms = {}
    if len(blocks) != len(printed):
        probs.append('could not match Print Assumptions output (%d blocks, %d commands)' % (len(blocks), len(printed)))
    for name, b in zip(printed, blocks):
        axioms[name] = [] if b.startswith('Closed') else re.findall(r'^(\S+)\s*:', b[len('Axioms:'):], re.M)
    for t in theorems:
        if t not in declared:
            probs.append('theorem %s not stated in Props_Py.v' % t)
        elif t not in axioms:
            probs.append('no Print Assumptions for %s' % t)
        elif axioms[t]:
            probs.append('theorem %s depends on axioms %s' % (t, ', '.join(axioms[t])))
    ok = sum(1 for t in theorems if t in declared and axioms.get(t) == [])
    return len(theorems), ok, probs, {t: axioms.get(t) for t in theorems}


LINE_ID = re.compile(r'^\((\S+) ')


def _run_py_chunk(lines):
    ids = [LINE_ID.match(l).group(1) for l in lines]
    res = {}
    pos = 0
    env = dict(os.environ)
    env['PYTHONHASHSEED'] = '0'
    env['PYTHONDONTWRITEBYTECODE'] = '1'
    while pos < len(lines):
        chunk = lines[pos:]
        try:
            p = subprocess.run([PYTHON, RUNNER], input='\n'.join(chunk) + '\n', stdout=subprocess.PIPE,
                               stderr=subprocess.PIPE, text=True, timeout=120 + 0.2 * len(chunk), env=env)
            out = p.stdout
        except subprocess.TimeoutExpired as e:
            out = e.stdout.decode() if isinstance(e.stdout, bytes) else (e.stdout or '')
        got = 0
        for ol in out.splitlines():
            m = LINE_ID.match(ol)
            if m and pos + got < len(ids) and m.group(1) == ids[pos + got]:
                res[ids[pos + got]] = ol[len(m.group(1)) + 2:-1]
                got += 1
        pos += got
        if pos < len(lines) and got < len(chunk):
            res[ids[pos]] = 'crash runner-died'
            pos += 1
    return res


def run_py(lines, jobs=8):
    """lines '(id func ...)' -> dict id -> 'ok DUMP' | 'err CLASS xMSG' | 'env-skip RULE' | 'crash ..' | 'bad ..'"""
    if not lines:
        return {}
    n = max(1, min(jobs, len(lines) // 40 or 1))
    chunks = [lines[i::n] for i in range(n)]
    out = {}
    with ThreadPoolExecutor(max_workers=n) as ex:
        for r in ex.map(_run_py_chunk, chunks):
            out.update(r)
    return out


def run_spec(lines):
    """pyrun answers line by line (flushed); a line it does not answer within the budget (a result whose value cannot be
    read in finite time) gets the verdict 'viol unreadable ...' and the run resumes after it (as common.run_model)"""
    exe = os.path.join(BCPY, 'pyrun')
    out = {}
    rest = list(lines)
    stuck = 0
    while rest:
        budget = 20 + 0.002 * len(rest)
        try:
            p = subprocess.run('ulimit -s unlimited 2>/dev/null; exec ' + exe, shell=True, input='\n'.join(rest) + '\n',
                               stdout=subprocess.PIPE, stderr=subprocess.PIPE, text=True, timeout=budget)
            stdout, rc, timed_out, err = p.stdout, p.returncode, False, p.stderr
        except subprocess.TimeoutExpired as e:
            stdout = e.stdout.decode('utf-8', 'replace') if isinstance(e.stdout, bytes) else (e.stdout or '')
            rc, timed_out, err = None, True, ''
        for ol in stdout.splitlines():
            m = LINE_ID.match(ol)
            if m:
                out[m.group(1)] = ol[len(m.group(1)) + 2:-1]
        if not timed_out:
            if rc != 0:
                raise RuntimeError('pyrun failed rc=%s: %s' % (rc, err[-2000:]))
            break
        k = 0
        while k < len(rest) and LINE_ID.match(rest[k]).group(1) in out:
            k += 1
        if k >= len(rest):
            break
        stuck += 1
        out[LINE_ID.match(rest[k]).group(1)] = ('viol unreadable (the value of the result could not be computed within %d s: '
                                                'not a readable array)' % int(budget))
        rest = rest[k + 1:]
        if stuck >= 3:
            for l in rest:
                out[LINE_ID.match(l).group(1)] = 'bad (pyrun stopped answering repeatedly)'
            break
    return out


def impl_sx(r):
    if r.startswith('ok '):
        return '(impl ok %s)' % r[3:]
    if r.startswith('err '):
        return '(impl err %s)' % r.split()[1]
    if r.startswith('env-skip'):
        return '(impl env-skip %s)' % (r.split() + ['?'])[1]
    if r.startswith('bad'):
        return None
    return '(impl crash)'


def unhex(r):
    """readable form of an 'err CLASS xHEX' result"""
    parts = r.split()
    if len(parts) >= 2 and parts[-1].startswith('x'):
        try:
            return ' '.join(parts[:-1]) + ' ' + bytes.fromhex(parts[-1][1:]).decode('utf-8', 'replace').replace('\n', ' ')
        except ValueError:
            pass
    return r


def evaluate(cases):
    lines = [c.line() for c in cases]
    t = time.time()
    res = run_py(lines)
    C.log('python layer: %d calls in %.1fs' % (len(lines), time.time() - t))
    mlines, out = [], []
    for c in cases:
        r = res.get(c.id, 'crash missing')
        isx = impl_sx(r)
        if isx is not None:
            mlines.append('(%s %s %s)' % (c.id, c.body(), isx))
    t = time.time()
    verd = run_spec(mlines) if mlines else {}
    C.log('specification: %d cases in %.1fs' % (len(mlines), time.time() - t))
    for c in cases:
        r = res.get(c.id, 'crash missing')
        v = verd.get(c.id) or ('bad (runner: %s)' % unhex(r)[:300])
        if r.startswith('impure'):
            v = unhex(r)[:900]
        out.append((c, r, v))
    return out


# ---------------------------------------------------------------------------------------------- generators: helpers
def arr(layout):
    return '(arr %s)' % G.sx(layout)


NUM = ['int64', 'int64', 'float64', 'int32', 'uint8', 'int16', 'float32']
REDUCERS = ['count', 'count_nonzero', 'sum', 'prod', 'any', 'all', 'min', 'max', 'argmin', 'argmax']
RED_LEAVES = ['int64'] * 4 + ['float64'] * 2 + ['bool', 'int8', 'uint8', 'int32', 'uint32', 'int16', 'uint16', 'float32', 'uint64']
ALL_DT = ['bool'] + G.INT_DTYPES + G.FLOAT_DTYPES


def has_none(v):
    if v is None:
        return True
    if isinstance(v, list):
        return any(has_none(x) for x in v)
    if isinstance(v, tuple) and v and v[0] == '$rec':
        return any(has_none(x) for x in v[1])
    return False


def nonempty_list(vals):
    return any(isinstance(v, list) and v for v in vals)


def nleaves(v):
    if isinstance(v, list):
        return sum(nleaves(x) for x in v)
    if isinstance(v, tuple) and v and v[0] == '$rec':
        return sum(nleaves(x) for x in v[1])
    return 0 if v is None else 1


def family(rng, k, shared, elem_types, opt_prob=0.25, none_prob=0.2, toplen=None, mismatch=False, enc_kw=None,
           special=True):
    """k arrays that share their outer list structure: the array dimension and (shared - 1) further list levels have
    the same lengths in every array (an array may have option-type lists there, missing independently); below
    that every array has its own element type elem_types[i].  With mismatch, one list of one array is longer
    (the error half).  Returns list of dict(type, vals, layout)."""
    opts = [[(lv >= 2 and rng.random() < opt_prob) for lv in range(shared + 1)] for _ in range(k)]
    bad = [rng.randrange(k), rng.randint(1, shared)] if mismatch else None
    done = [False]

    def fam(level):
        # values for one position at list level `level` (1 = elements of the arrays)
        if level == shared:
            return [G.gen_value(rng, elem_types[i], 3, special) for i in range(k)]
        m = rng.choice([0, 1, 2, 2, 3])
        kids = [fam(level + 1) for _ in range(m)]
        out = []
        for i in range(k):
            if opts[i][level + 1] and rng.random() < none_prob:
                out.append(None)
                continue
            l = [kid[i] for kid in kids]
            if bad and not done[0] and bad[0] == i and bad[1] == level + 1 and rng.random() < 0.7:
                l = l + [fam(level + 1)[i]]
                done[0] = True
            out.append(l)
        return out

    n = toplen if toplen is not None else rng.choice([0, 1, 2, 3, 3, 4])
    rows = [fam(1) for _ in range(n)]
    res = []
    for i in range(k):
        t = elem_types[i]
        for lv in range(shared, 1, -1):
            t = ('list', t)
            if opts[i][lv]:
                t = ('opt', t)
        vals = [row[i] for row in rows]
        if bad and bad[0] == i and bad[1] == 1 and mismatch:
            vals = vals + [fam(1)[i]]
            done[0] = True
        enc = G.Enc(rng, **dict(dict(special=special), **(enc_kw or {})))
        res.append(dict(type=t, vals=vals, layout=G.encode(enc, t, vals), stats=enc.stats))
    return res, (done[0] if mismatch else False)


def rec_untrimmed(layout):
    """does the layout contain a RecordArray whose field contents are longer than the record array?"""
    for _, node in G.nodes(layout):
        if node[0] == 'rec':
            for ch in node[3:]:
                n = G.child_len(ch)
                if n is not None and n > node[1]:
                    return True
    return False


def pack_hazard(layout, levels):
    """is there, within `levels` list levels from the top, an IndexedArray or a Byte/BitMaskedArray over
    non-primitive content?  (structure._pack_layout converts those without packing the result)"""
    node = layout
    while True:
        h = node[0]
        if h == 'par':
            node = node[3]
        elif h == 'ix':
            return True
        elif h in ('bym', 'bim'):
            c = node[3] if h == 'bym' else node[5]
            while c[0] == 'par':
                c = c[3]
            if c[0] != 'np':
                return True
            node = c
        elif h == 'ixo':
            node = node[3]
        elif h == 'unm':
            node = node[1]
        elif h in ('lo', 'la', 'reg'):
            if h == 'reg' and (G.child_len(node[3]) or 0) > node[1] * node[2]:
                return True          # only a non-empty RegularArray is trimmed
            if levels <= 0:
                return False
            levels -= 1
            node = node[{'lo': 3, 'la': 4, 'reg': 3}[h]]
        else:
            return False


def has_reg0(layout):
    """a regular dimension of size 0: a RegularArray node, or a zero inner dimension of an n-d NumpyArray"""
    return any((node[0] == 'reg' and node[1] == 0) or
               (node[0] in ('np', 'nps') and isinstance(node[2], list) and any(int(d) == 0 for d in node[2][1:]))
               for _, node in G.nodes(layout))


def has_nd(layout):
    """an n-d NumpyArray node (the library turns it into RegularArray levels before broadcasting)"""
    return any(node[0] in ('np', 'nps') and isinstance(node[2], list) and len(node[2]) > 1 for _, node in G.nodes(layout))


def reg_untrimmed(layout):
    """a RegularArray whose content is longer than size * length (RegularArray::broadcast_tooffsets64 hands the
    whole content on)"""
    for _, node in G.nodes(layout):
        if node[0] == 'reg' and isinstance(node[1], int):
            n = G.child_len(node[3])
            if n is not None and n > node[1] * node[2]:
                return True
    return False


LAYOUT_IN_LINE = re.compile(r'\(arr ')


def layouts_of(case):
    """the layout trees of a case (parsed back from its text)"""
    out = []
    for l in case.layouts:
        if l.startswith('(arr '):
            out.append(parse_tree(l[5:-1]))
    return out


def parse_tree(s):
    pos = [0]

    def go():
        while s[pos[0]] == ' ':
            pos[0] += 1
        if s[pos[0]] == '(':
            pos[0] += 1
            out = []
            while True:
                while s[pos[0]] == ' ':
                    pos[0] += 1
                if s[pos[0]] == ')':
                    pos[0] += 1
                    return out
                out.append(go())
        q = pos[0]
        while q < len(s) and s[q] not in ' ()':
            q += 1
        a = s[pos[0]:q]
        pos[0] = q
        try:
            return int(a)
        except ValueError:
            return a
    return go()


def has_node(layout, heads):
    return any(node[0] in heads for _, node in G.nodes(layout))


def top_node(layout):
    node = layout
    while node[0] == 'par':
        node = node[3]
    return node[0]


def top_optionlike(layout):
    node = layout
    while node[0] == 'par':
        node = node[3]
    return node[0] in ('ix', 'ixo', 'bym', 'bim', 'unm')


def tags_enc(tags, a):
    for kk in a.get('stats', {}):
        tags['enc_' + kk] = 1


def res_axis(t, axis):
    """absolute axis where it is unambiguous (None otherwise)"""
    if axis is None or axis >= 0:
        return axis
    mn, mx = G.list_depth(t)
    return mx + axis if mn == mx else None


def negrec0(axis, *types):
    """negative axis that means axis 0 of an array with records: Content::axis_wrap_if_negative compares
    minmax_depth with purelist_depth (1 for a record) and refuses"""
    return bool(axis is not None and axis < 0 and any(G.has_kind(t, 'rec') and res_axis(t, axis) == 0 for t in types))


def rec_deep(t):
    """a record type with a list-typed field (its minmax_depth differs from its purelist_depth)"""
    k = t[0]
    if k == 'rec':
        return any(G.list_depth(ft)[1] >= 2 or rec_deep(ft) for _, ft in t[1])
    if k in ('list', 'opt'):
        return rec_deep(t[1])
    if k == 'union':
        return any(rec_deep(a) for a in t[1])
    return False


def negrec(axis, *types):
    return bool(axis is not None and axis < 0 and any(G.has_rec_under_list(t) for t in types))


# ---------------------------------------------------------------------------------------------- C05
def lists_at(vals, level):
    """the (non-missing) lists found `level` list levels below the array dimension, in order (level 0 = vals itself)"""
    cur = [vals]
    for _ in range(level):
        nxt = []
        for l in cur:
            for x in l:
                if isinstance(x, list):
                    nxt.append(x)
        cur = nxt
    return cur


def partition_counts(rng, n, zeros=0.25):
    out = []
    left = n
    while left > 0:
        if rng.random() < zeros:
            out.append(0)
            continue
        c = rng.randint(1, min(left, 3))
        out.append(c)
        left -= c
    while rng.random() < zeros:
        out.insert(rng.randint(0, len(out)), 0)
    return out


def counts_layout(rng, counts, with_none):
    if with_none:
        vals = [None if (c == 0 and rng.random() < 0.6) else c for c in counts]
        enc = G.Enc(rng, special=False)
        return G.encode(enc, ('opt', ('leaf', 'int64')), vals), vals
    dt = rng.choice(['int64', 'int64', 'int32', 'uint8', 'int16'])
    return ['np', dt, [len(counts)], list(counts)], list(counts)


def cases_C05(rng, tier):
    n = 1400 if tier == 'quick' else 30000
    out = []
    for i in range(n):
        r = rng.random()
        cid = 'p%d' % i
        if rng.random() < 0.05:
            # a union at the top whose members are option-type (the branch of ak.flatten(axis=0) / ak.num / ak.local_index
            # that rewrites the union's index): outside the value-level specification (unions), but crash / purity /
            # validity of the result are still judged
            while True:
                kw = dict(allow_union=False, allow_opt=False, allow_str=False)
                ta, tb = G.gen_type(rng, rng.choice([0, 1, 2]), **kw), G.gen_type(rng, rng.choice([0, 1, 2]), **kw)
                if G.type_key(ta) != G.type_key(tb):
                    break
            t = ('union', [('opt', ta), ('opt', tb) if rng.random() < 0.5 else tb])
            vals = [G.gen_value(rng, t, 3, False) for _ in range(rng.choice([1, 2, 3, 4, 5]))]
            enc = G.Enc(rng, special=False)
            lay = G.encode(enc, t, vals)
            func = rng.choice(['flatten', 'flatten', 'flatten', 'num', 'local_index'])
            axis = rng.choice([0, 0, 0, 1, -1])
            out.append(C.Case(cid, func, [str(axis)], [arr(lay)],
                              dict(nontrivial=True, tags=dict(func=func, axis=axis, union_of_options=True), types=[t])))
            continue
        if r < 0.22:
            single = rng.random() < 0.5
            kw = dict(allow_union=rng.random() < 0.06)
            if single:
                kw['leaf_dtypes'] = [rng.choice(ALL_DT)]
            a = G.gen_array(rng, depth=rng.choice([1, 2, 3, 3, 4]), canonical_too=False, type_kw=kw, special=single)
            func = rng.choice(['flatten', 'flatten', 'ravel'])
            args = ['none'] if func == 'flatten' else []
            tags = dict(func=func + ':none', has_rec=G.has_kind(a['type'], 'rec'), has_str=G.has_kind(a['type'], 'str'),
                        rec_untrimmed=rec_untrimmed(a['layout']))
            tags_enc(tags, a)
            out.append(C.Case(cid, func, args, [arr(a['layout'])],
                              dict(nontrivial=nonempty_list(a['vals']) or nleaves(a['vals']) > 1, tags=tags, types=[a['type']])))
        elif r < 0.50:
            a = G.gen_array(rng, depth=rng.choice([1, 2, 3, 3, 4]), canonical_too=False,
                            type_kw=dict(allow_union=rng.random() < 0.06))
            func = rng.choice(['flatten', 'num', 'local_index'])
            axis = G.pick_axis(rng, a['type'], allow_zero=True)
            tags = dict(func=func, axis=axis, negaxis_rec=negrec(axis, a['type']))
            tags_enc(tags, a)
            out.append(C.Case(cid, func, [str(axis)], [arr(a['layout'])],
                              dict(nontrivial=nonempty_list(a['vals']), tags=tags, types=[a['type']])))
        elif r < 0.82:
            a = G.gen_array(rng, depth=rng.choice([1, 2, 2, 3]), canonical_too=False,
                            type_kw=dict(allow_union=False, allow_rec=rng.random() < 0.15))
            t = a['type']
            mn, mx = G.list_depth(t)
            axis = rng.randint(0, max(mn - 1, 0)) if rng.random() < 0.9 else rng.choice([mx, -1])
            tags = dict(func='unflatten', axis=axis, negaxis_rec=negrec(axis, t))
            if rng.random() < 0.08 and axis == 0:
                c = rng.choice([0, 1, 2, 3, len(a['vals']), len(a['vals']) + 1, -1])
                tags.update(counts='int')
                out.append(C.Case(cid, 'unflatten', [str(axis)], [arr(a['layout']), '(val int %d)' % c],
                                  dict(nontrivial=len(a['vals']) > 0, tags=tags, types=[t])))
                continue
            if axis >= 0 and not G.has_kind(t, 'rec'):
                ls = lists_at(a['vals'], axis)
                counts = []
                for l in ls:
                    counts.extend(partition_counts(rng, len(l)))
            else:
                counts = partition_counts(rng, len(a['vals']))
            kind = 'fit'
            e = rng.random()
            if e < 0.08 and counts:
                j = rng.randrange(len(counts))
                counts[j] += rng.choice([1, 2])
                kind = 'too-long'
            elif e < 0.14 and counts:
                counts.pop(rng.randrange(len(counts)))
                kind = 'dropped-one'
            elif e < 0.17:
                counts.append(rng.choice([1, 2]))
                kind = 'extra'
            elif e < 0.19 and counts:
                counts[rng.randrange(len(counts))] = -1
                kind = 'negative'
            elif e < 0.22 and len(counts) >= 2 and axis >= 1:
                # move one element across a list boundary
                j = rng.randrange(len(counts) - 1)
                counts[j] += 1
                counts[j + 1] = max(counts[j + 1] - 1, 0)
                kind = 'shifted'
            cl, cvals = counts_layout(rng, counts, rng.random() < 0.2 and kind != 'negative')
            if rng.random() < 0.03:
                cl = ['np', rng.choice(['float64', 'bool']), [len(counts)], [max(c, 0) % 2 for c in counts]]
                kind = 'not-integer'
            lead0 = bool(cvals) and (cvals[0] is None or cvals[0] == 0)
            tags.update(counts=kind, lead0=lead0 and axis != 0, negcount=any((c or 0) < 0 for c in cvals),
                        pack_hazard=bool(axis != 0 and pack_hazard(a['layout'], abs(axis) + 1)))
            tags_enc(tags, a)
            out.append(C.Case(cid, 'unflatten', [str(axis)], [arr(a['layout']), arr(cl)],
                              dict(nontrivial=bool(counts) and kind == 'fit', tags=tags, types=[t])))
        else:
            while True:
                a = G.gen_array(rng, depth=rng.choice([2, 3, 3, 4]), canonical_too=False,
                                type_kw=dict(allow_union=False, allow_rec=False, allow_str=rng.random() < 0.3))
                t = a['type']
                mn, mx = G.list_depth(t)
                if mn >= 2:
                    break
            axis = rng.randint(1, max(mn - 1, 1))
            ls = lists_at(a['vals'], axis - 1)
            inner = [x for l in ls for x in l if isinstance(x, list)]
            lead0 = axis >= 2 and bool(inner) and len(inner[0]) == 0
            tags = dict(func='rt_unflatten', axis=axis, lead0=lead0, has_none=has_none(a['vals']))
            tags_enc(tags, a)
            out.append(C.Case(cid, 'rt_unflatten', [str(axis)], [arr(a['layout'])],
                              dict(nontrivial=nonempty_list(a['vals']), tags=tags, types=[t])))
    return out


# ---------------------------------------------------------------------------------------------- C03
def cases_C03(rng, tier):
    n = 1400 if tier == 'quick' else 30000
    out = []
    for i in range(n):
        none_axis = rng.random() < 0.5
        rec = none_axis and rng.random() < 0.3
        leaves = [rng.choice(RED_LEAVES)] if rec else RED_LEAVES
        a = G.gen_array(rng, depth=rng.choice([1, 2, 3, 3, 4]), canonical_too=False, special=False,
                        type_kw=dict(allow_union=False, allow_str=False, leaf_dtypes=leaves, allow_rec=rec))
        t = a['type']
        red = rng.choice(REDUCERS)
        axis = None if none_axis else G.pick_axis(rng, t, allow_zero=True)
        mask = rng.choice(['default', 'default', '0', '1'])
        keep = rng.choice([0, 0, 0, 1])
        nl = sum(nleaves(v) for v in a['vals'])
        tags = dict(func='reduce', reducer=red, axis=('none' if axis is None else axis), mask=mask, keepdims=keep,
                    empty=(nl == 0), has_rec=rec, rec_untrimmed=rec_untrimmed(a['layout']))
        tags_enc(tags, a)
        out.append(C.Case('p%d' % i, 'reduce', [red, 'none' if axis is None else str(axis), mask, str(keep)],
                          [arr(a['layout'])], dict(nontrivial=nl >= 2, tags=tags, types=[t], type=t)))
    return out


# ---------------------------------------------------------------------------------------------- C07
def elem_type(rng, depth=1, **kw):
    return G.gen_type(rng, depth, **dict(dict(allow_union=False), **kw))


def nested_arg(rng, k):
    r = rng.random()
    if r < 0.35:
        return 'none', 'none'
    if r < 0.55:
        return 'true', 'all'
    if r < 0.62:
        return 'false', 'none'
    if r < 0.94:
        idx = sorted(rng.sample(range(max(k - 1, 1)), rng.randint(0, max(k - 1, 1)))) if k > 1 else []
        return '(' + ' '.join(str(j) for j in idx) + ')', ('subset' if 0 < len(idx) < k - 1 else ('all' if idx else 'none'))
    return '(%d)' % rng.choice([k - 1, k, -1]), 'invalid'


def cases_C07(rng, tier):
    n = 1300 if tier == 'quick' else 24000
    out = []
    for i in range(n):
        cid = 'p%d' % i
        r = rng.random()
        if r < 0.62:
            func = 'cartesian' if rng.random() < 0.65 else 'argcartesian'
            k = rng.choice([2, 2, 2, 3, 3, 4])
            axis = rng.choice([0, 1, 1, 1, 2, 2])
            mism = rng.random() < 0.08 and axis >= 1
            if axis == 0:
                arrs = [G.gen_array(rng, depth=rng.choice([1, 1, 2]), toplen=rng.choice([0, 1, 2, 2, 3]), canonical_too=False,
                                    type_kw=dict(allow_union=False)) for _ in range(k)]
                mm = False
            else:
                ets = []
                for _ in range(k):
                    e = ('list', elem_type(rng, rng.choice([0, 0, 1])))
                    if rng.random() < 0.2:
                        e = ('opt', e)
                    ets.append(e)
                if rng.random() < 0.05:
                    ets[rng.randrange(k)] = ('leaf', 'int64')     # not deep enough
                arrs, mm = family(rng, k, axis, ets, mismatch=mism)
            ax = axis
            if rng.random() < 0.06:
                ax = rng.choice([-1, -2, axis + 2])
            nst, nkind = nested_arg(rng, k)
            args = [str(ax), nst]
            keys = None
            if rng.random() < 0.25:
                keys = rng.sample(['x', 'y', 'z', 'w', 'a'], k)
                args.append('(keys %s)' % ' '.join(keys))
            nontriv = all(len(a['vals']) > 0 for a in arrs)
            tags = dict(func=func, k=k, axis=ax, nested=nkind, dict=bool(keys), mismatch=mm,
                        negaxis_rec=negrec(ax, *[a['type'] for a in arrs]),
                        reg0=any(has_reg0(a['layout']) for a in arrs),
                        top_optionlike=any(top_optionlike(a['layout']) for a in arrs))
            out.append(C.Case(cid, func, args, [arr(a['layout']) for a in arrs],
                              dict(nontrivial=nontriv, tags=tags, types=[a['type'] for a in arrs],
                                   lens=[len(a['vals']) for a in arrs])))
        else:
            func = 'combinations' if rng.random() < 0.6 else 'argcombinations'
            a = G.gen_array(rng, depth=rng.choice([1, 2, 3, 3]), canonical_too=False, type_kw=dict(allow_union=False))
            t = a['type']
            kk = rng.choice([1, 2, 2, 2, 3, 3, 4, 0])
            repl = rng.choice([0, 1])
            axis = G.pick_axis(rng, t, allow_zero=True)
            fr = rng.random()
            if fr < 0.5:
                fields = 'none'
            elif fr < 0.92:
                fields = '(' + ' '.join(['f%d' % j for j in range(kk)]) + ')'
            else:
                fields = '(' + ' '.join(['f%d' % j for j in range(kk + 1)]) + ')'
            tags = dict(func=func, n=kk, repl=repl, axis=axis, fields=(fields != 'none'), negaxis_rec=negrec(axis, t),
                        top_optionlike=top_optionlike(a['layout']))
            tags_enc(tags, a)
            out.append(C.Case(cid, func, [str(kk), str(repl), str(axis), fields], [arr(a['layout'])],
                              dict(nontrivial=any(isinstance(v, list) and len(v) >= max(kk, 1) for v in a['vals']) or
                                   (axis == 0 and len(a['vals']) >= max(kk, 1)), tags=tags, types=[t])))
    return out


# ---------------------------------------------------------------------------------------------- C08
def cases_C08(rng, tier):
    n = 1300 if tier == 'quick' else 24000
    out = []
    for i in range(n):
        cid = 'p%d' % i
        r = rng.random()
        pool = ['bool'] if rng.random() < 0.12 else NUM
        if r < 0.28:
            k = rng.choice([2, 2, 3, 4])
            same = rng.random() < 0.6
            t0 = G.gen_type(rng, rng.choice([0, 1, 2, 2]), allow_union=False, leaf_dtypes=pool)
            arrs = []
            for _ in range(k):
                t = t0 if same else G.gen_type(rng, rng.choice([0, 1, 2]), allow_union=False, leaf_dtypes=pool)
                nn = rng.choice([0, 1, 2, 3])
                vals = [G.gen_value(rng, t, 3, False) for _ in range(nn)]
                enc = G.Enc(rng, special=False)
                arrs.append(dict(type=t, vals=vals, layout=G.encode(enc, t, vals)))
            axis = 0 if rng.random() < 0.9 else rng.choice([-1, -2])
            tags = dict(func='concatenate:axis0', axis=axis, k=k, same_type=same,
                        has_str=any(G.has_kind(a['type'], 'str') for a in arrs),
                        negaxis_rec=negrec(axis, *[a['type'] for a in arrs]))
            out.append(C.Case(cid, 'concatenate', [str(axis)], [arr(a['layout']) for a in arrs],
                              dict(nontrivial=sum(len(a['vals']) for a in arrs) >= 2, tags=tags, types=[a['type'] for a in arrs])))
        elif r < 0.70:
            k = rng.choice([2, 2, 2, 3])
            axis = rng.choice([1, 1, 1, 2, 2, 3])
            same = rng.random() < 0.6
            e0 = G.gen_type(rng, rng.choice([0, 0, 1]), allow_union=False, leaf_dtypes=pool)
            ets = []
            for _ in range(k):
                e = ('list', e0 if same else G.gen_type(rng, rng.choice([0, 0, 1]), allow_union=False, leaf_dtypes=pool))
                if rng.random() < 0.2:
                    e = ('opt', e)
                ets.append(e)
            if rng.random() < 0.06:
                ets[rng.randrange(k)] = ('leaf', 'int64')
            arrs, mm = family(rng, k, axis, ets, mismatch=rng.random() < 0.1, special=False)
            ax = axis
            if rng.random() < 0.08:
                ax = rng.choice([-1, axis + 2, -2])
            tags = dict(func='concatenate:axis>=1', axis=ax, k=k, same_type=same, mismatch=mm,
                        has_str=any(G.has_kind(a['type'], 'str') for a in arrs),
                        negaxis_rec=negrec(ax, *[a['type'] for a in arrs]))
            out.append(C.Case(cid, 'concatenate', [str(ax)], [arr(a['layout']) for a in arrs],
                              dict(nontrivial=len(arrs[0]['vals']) > 0, tags=tags, types=[a['type'] for a in arrs])))
        else:
            a = G.gen_array(rng, depth=rng.choice([1, 2, 3]), canonical_too=False,
                            type_kw=dict(allow_union=rng.random() < 0.05), special=rng.random() < 0.3)
            to = rng.choice(ALL_DT)
            tags = dict(func='values_astype', to=to, has_str=G.has_kind(a['type'], 'str'))
            tags_enc(tags, a)
            out.append(C.Case(cid, 'values_astype', [to], [arr(a['layout'])],
                              dict(nontrivial=sum(nleaves(v) for v in a['vals']) >= 1, tags=tags, types=[a['type']])))
    return out


# ---------------------------------------------------------------------------------------------- C09
def cases_C09(rng, tier):
    n = 1400 if tier == 'quick' else 30000
    out = []
    for i in range(n):
        cid = 'p%d' % i
        r = rng.random()
        if r < 0.14:
            a = G.gen_array(rng, depth=rng.choice([1, 2, 3, 3]), canonical_too=False, type_kw=dict(allow_union=False))
            t = a['type']
            target = rng.choice([0, 1, 2, 3, 3, 4, 5, 6])
            axis = G.pick_axis(rng, t, allow_zero=True)
            clip = rng.choice([0, 1])
            tags = dict(func='pad_none', target=target, axis=axis, clip=clip, negaxis_rec=negrec(axis, t))
            tags_enc(tags, a)
            out.append(C.Case(cid, 'pad_none', [str(target), str(axis), str(clip)], [arr(a['layout'])],
                              dict(nontrivial=True, tags=tags, types=[t])))
        elif r < 0.40:
            a = G.gen_array(rng, depth=rng.choice([1, 2, 3, 3]), canonical_too=False,
                            type_kw=dict(allow_union=False, allow_str=rng.random() < 0.3, leaf_dtypes=NUM), special=False)
            t = a['type']
            mn, mx = G.list_depth(t)
            q = rng.random()
            if q < 0.15:
                axis = 'none'
            elif q < 0.25:
                axis = 'default'
            elif q < 0.80:
                axis = str(rng.randint(0, mx))
            else:
                axis = str(-rng.randint(1, mx + 1))
            ia = int(axis) if axis not in ('none', 'default') else None
            tags = dict(func='fill_none', axis=axis, negaxis_rec=negrec(ia, t))
            tags_enc(tags, a)
            out.append(C.Case(cid, 'fill_none', [axis], [arr(a['layout']), '(val int %d)' % rng.randint(-9, 99)],
                              dict(nontrivial=any(has_none(v) for v in a['vals']), tags=tags, types=[t])))
        elif r < 0.58:
            type_ = None
            if rng.random() < 0.2:
                # option-type alternatives below a union (e.g. union[?float64, string], union[?var*int64, var*?int64])
                alts, seen = [], []
                for _ in range(rng.choice([2, 2, 3])):
                    ta = G.gen_type(rng, rng.choice([0, 1, 1, 2]), allow_union=False, allow_rec=rng.random() < 0.3)
                    if ta[0] != 'opt' and rng.random() < 0.6:
                        ta = ('opt', ta)
                    key = (G.type_key(ta), G.list_depth(ta))
                    if key not in seen:
                        seen.append(key)
                        alts.append(ta)
                if len(alts) >= 2:
                    type_ = ('union', alts)
            a = G.gen_array(rng, depth=rng.choice([1, 2, 3, 3]), canonical_too=False,
                            type_kw=dict(allow_union=rng.random() < 0.05), type_=type_)
            t = a['type']
            axis = G.pick_axis(rng, t, allow_zero=True) if type_ is None else rng.choice([0, 0, 0, 1, 1, 2, -1])
            mn, mx = G.list_depth(t)
            tags = dict(func='is_none', axis=axis, negaxis_rec=negrec(axis, t), beyond=bool(axis >= mn))
            tags_enc(tags, a)
            out.append(C.Case(cid, 'is_none', [str(axis)], [arr(a['layout'])],
                              dict(nontrivial=any(has_none(v) for v in a['vals']), tags=tags, types=[t])))
        elif r < 0.82:
            shared = rng.choice([1, 1, 2, 2, 3])
            ea = G.gen_type(rng, rng.choice([0, 1, 1, 2]), allow_union=False)
            q = rng.random()
            if q < 0.72:
                em = ('leaf', 'bool')
            elif q < 0.82:
                em = ('opt', ('leaf', 'bool'))
            elif q < 0.92:
                em = ('list', ('leaf', 'bool'))
            else:
                em = ('leaf', rng.choice(['int64', 'uint8', 'float64']))
            (a, m), mm = family(rng, 2, shared, [ea, em], mismatch=rng.random() < 0.08)
            vw = rng.choice([0, 1, 1])
            tags = dict(func='mask', valid_when=vw, mask_kind=em[0] + ':' + str(em[1] if em[0] == 'leaf' else em[1][0]),
                        mismatch=mm, shared=shared)
            out.append(C.Case(cid, 'mask', [str(vw)], [arr(a['layout']), arr(m['layout'])],
                              dict(nontrivial=len(a['vals']) > 0, tags=tags, types=[a['type'], m['type']])))
        elif r < 0.92:
            a = G.gen_array(rng, depth=rng.choice([1, 2, 3, 3]), canonical_too=False, type_kw=dict(allow_union=False))
            t = a['type']
            axis = G.pick_axis(rng, t, allow_zero=True)
            tags = dict(func='firsts', axis=axis, negaxis_rec=negrec(axis, t))
            tags_enc(tags, a)
            out.append(C.Case(cid, 'firsts', [str(axis)], [arr(a['layout'])],
                              dict(nontrivial=nonempty_list(a['vals']), tags=tags, types=[t])))
        else:
            top_opt = rng.random() < 0.6
            t = G.gen_type(rng, rng.choice([0, 1, 2]), allow_union=False, allow_opt=not top_opt)
            if top_opt:
                t = ('opt', t)
            nn = rng.choice([0, 1, 2, 3, 4, 5])
            vals = [G.gen_value(rng, t, 3, True) for _ in range(nn)]
            enc = G.Enc(rng)
            lay = G.encode(enc, t, vals)
            func = 'firsts_singletons' if (top_opt and rng.random() < 0.5) else 'singletons'
            tags = dict(func=func, top_option=top_opt)
            out.append(C.Case(cid, func, [], [arr(lay)],
                              dict(nontrivial=any(has_none(v) for v in vals), tags=tags, types=[t])))
    return out


# ---------------------------------------------------------------------------------------------- C10
def record_type(rng, depth=1, nf=None):
    nf = nf if nf is not None else rng.choice([1, 1, 2, 2, 3])
    istuple = rng.random() < 0.25
    names = rng.sample(['a', 'b', 'c', 'x', 'y', 'pt'], nf)
    return ('rec', [(names[j], G.gen_type(rng, depth, allow_union=False)) for j in range(nf)], istuple)


def keys_of_type(t):
    while t[0] in ('list', 'opt'):
        t = t[1]
    if t[0] != 'rec':
        return None
    return [str(j) for j in range(len(t[1]))] if t[2] else [nm for nm, _ in t[1]]


def cases_C10(rng, tier):
    n = 1400 if tier == 'quick' else 30000
    out = []
    for i in range(n):
        cid = 'p%d' % i
        r = rng.random()
        if r < 0.42:
            func = 'zip' if rng.random() < 0.72 else 'unzip_zip'
            k = rng.choice([1, 2, 2, 2, 3, 3])
            shared = rng.choice([1, 1, 2, 2, 3])
            q = rng.random()
            ets = []
            for _ in range(k):
                if q < 0.6:
                    ets.append(G.gen_type(rng, 0, allow_union=False))           # leaves / strings below the shared levels
                else:
                    ets.append(G.gen_type(rng, rng.choice([0, 1, 1, 2]), allow_union=False))
            arrs, mm = family(rng, k, shared, ets, mismatch=rng.random() < 0.08)
            if rng.random() < 0.12 and k >= 2:
                # one shallower array: broadcast into the others
                j = rng.randrange(k)
                sh2 = rng.randint(1, shared)
                t = G.gen_type(rng, 0, allow_union=False, allow_str=False)
                vals = [G.gen_value(rng, t, 3, True) for _ in range(len(arrs[j]['vals']))]
                arrs[j] = dict(type=t, vals=vals, layout=G.encode(G.Enc(rng), t, vals))
            dq = rng.random()
            if dq < 0.55:
                dl = 'none'
            elif dq < 0.95:
                dl = str(rng.randint(1, shared + 1))
            else:
                dl = str(rng.choice([0, -1]))
            keys = 'tuple' if rng.random() < 0.4 else '(' + ' '.join(rng.sample(['x', 'y', 'z', 'w'], k)) + ')'
            def strlike(t):
                return t[0] == 'str' or (t[0] == 'opt' and t[1][0] == 'str')
            tags = dict(func=func, k=k, shared=shared, depth_limit=dl, tuple=(keys == 'tuple'), mismatch=mm,
                        all_strings=all(strlike(a['type']) for a in arrs))
            out.append(C.Case(cid, func, [dl, keys], [arr(a['layout']) for a in arrs],
                              dict(nontrivial=len(arrs[0]['vals']) > 0, tags=tags, types=[a['type'] for a in arrs])))
        elif r < 0.52:
            if rng.random() < 0.8:
                t = record_type(rng, rng.choice([0, 1]))
                for _ in range(rng.choice([0, 0, 1, 2])):
                    t = ('list', t)
                    if rng.random() < 0.2:
                        t = ('opt', t)
            else:
                t = G.gen_type(rng, 2, allow_union=False)
            nn = rng.choice([0, 1, 2, 3])
            vals = [G.gen_value(rng, t, 3, True) for _ in range(nn)]
            lay = G.encode(G.Enc(rng), t, vals)
            func = rng.choice(['unzip', 'unzip', 'fields', 'to_list'])
            tags = dict(func=func, nfields=len(keys_of_type(t) or []))
            out.append(C.Case(cid, func, [], [arr(lay)], dict(nontrivial=nn > 0, tags=tags, types=[t])))
        elif r < 0.57:
            t = G.gen_type(rng, 3, allow_union=False)
            nn = rng.choice([0, 1, 2, 3])
            vals = [G.gen_value(rng, t, 3, True) for _ in range(nn)]
            lay = G.encode(G.Enc(rng), t, vals)
            name = rng.choice(['Point', 'Vec3', 'P_1', 'none'])
            tags = dict(func='with_name', has_rec=G.has_kind(t, 'rec'))
            out.append(C.Case(cid, 'with_name', [name], [arr(lay)], dict(nontrivial=G.has_kind(t, 'rec') and nn > 0, tags=tags, types=[t])))
        else:
            func = 'with_field' if rng.random() < 0.7 else 'get_with_field'
            shared = rng.choice([1, 1, 2, 2, 3])
            nested_path = rng.random() < 0.2
            bt = record_type(rng, rng.choice([0, 1]))
            if nested_path:
                inner = record_type(rng, 0)
                bt = ('rec', bt[1] + [('sub', inner)], False)
            if rng.random() < 0.15:
                bt = ('opt', bt)
            wt = G.gen_type(rng, rng.choice([0, 0, 1]), allow_union=False)
            (b, w), mm = family(rng, 2, shared, [bt, wt], mismatch=rng.random() < 0.08)
            wq = rng.random()
            what = arr(w['layout'])
            wkind = 'array'
            if wq < 0.12:
                what = '(val int %d)' % rng.randint(-5, 50)
                wkind = 'scalar'
            elif wq < 0.24 and shared >= 2:
                # a shallower array: broadcast into the lists of records
                sh2 = rng.randint(1, shared - 1)
                (b2, w2), _ = family(rng, 2, sh2, [('leaf', 'int64'), wt], toplen=len(b['vals']))
                what = arr(w2['layout'])
                w = w2
                wkind = 'shallower'
            ks = keys_of_type(bt) or []
            rt = bt[1] if bt[0] == 'opt' else bt
            kq = rng.random()
            if nested_path and kq < 0.7:
                iks = [nm for nm, _ in inner[1]]
                where = ['sub', rng.choice(iks + ['new'])]
                wk = 'path'
            elif kq < 0.5 or not ks:
                where = ['new']
                wk = 'new'
            elif kq < 0.85:
                where = [rng.choice(ks)]
                wk = 'existing'
            else:
                where = None
                wk = 'none'
            if func == 'get_with_field' and where is None:
                where = ['new']
                wk = 'new'
            sole = bool(where) and ((len(where) == 1 and ks == where) or
                                    (len(where) == 2 and [nm for nm, _ in inner[1]] == where[1:]))
            tags = dict(func=func, where=wk, what=wkind, shared=shared, tuple=rt[2], mismatch=mm, sole_field=sole,
                        nfields=len(ks))
            out.append(C.Case(cid, func, ['(' + ' '.join(where) + ')' if where else 'none'], [arr(b['layout']), what],
                              dict(nontrivial=len(b['vals']) > 0, tags=tags, types=[b['type'], w['type']])))
    return out


# ---------------------------------------------------------------------------------------------- C18 (partitioned)
def cases_C18(rng, tier):
    """the same high-level call on an array and on ak.partitioned(pieces of it): plain values / error status must agree.
    Cuts: 1-4 partitions, empty partitions at the start / in the middle / at the end."""
    n = 2500 if tier == 'quick' else 60000
    out = []
    for i in range(n):
        cid = 'q%d' % i
        func = rng.choice(['num', 'flatten', 'local_index', 'sort', 'sort', 'argsort', 'combinations', 'combinations',
                           'argcombinations', 'pad_none', 'fill_none', 'is_none', 'reduce', 'reduce', 'reduce', 'firsts',
                           'getitem', 'getitem', 'getitem', 'to_list', 'len'])
        kw = dict(allow_union=False)
        special = True
        if func == 'reduce':
            kw.update(allow_str=False, allow_rec=False, leaf_dtypes=RED_LEAVES)
            special = False
        if func in ('sort', 'argsort'):
            kw.update(allow_rec=False, allow_str=rng.random() < 0.2)
            special = False
        if func == 'fill_none':
            kw.update(allow_str=False, leaf_dtypes=NUM)
            special = False
        a = G.gen_array(rng, depth=rng.choice([1, 2, 2, 3]), canonical_too=False, type_kw=kw, special=special,
                        toplen=rng.choice([0, 1, 2, 3, 4, 5, 6, 7, 8, 9, 11]))
        t = a['type']
        L = len(a['vals'])
        k = rng.choice([1, 2, 2, 3, 3, 4])
        cuts = sorted(rng.choice([0, L] + list(range(L + 1))) for _ in range(k - 1))
        mn, mx = G.list_depth(t)
        extra = []

        hasrec = G.has_kind(t, 'rec')

        def axis(allow_zero=True):
            r = rng.random()
            if r < 0.4 or hasrec:
                # through records a negative axis is resolved field by field (possibly to the outermost level inside one
                # field only): what the operation then means across partitions is not specified
                return rng.randint(0 if allow_zero else 1, max(mx - 1, 0 if allow_zero else 1))
            if r < 0.9:
                return -rng.randint(1, mx)
            return rng.choice([mx, -mx - 1])
        if func in ('num', 'local_index'):
            args = [str(axis())]
        elif func == 'flatten':
            args = [rng.choice(['none', str(axis(False)), str(axis(False))])]
        elif func in ('sort', 'argsort'):
            args = [str(-1 if G.has_kind(t, 'str') else axis()), rng.choice(['true', 'false']), rng.choice(['true', 'true', 'false'])]
            if func == 'argsort' or args[2] == 'false':
                args[2] = 'true' if func == 'argsort' else args[2]    # unstable argsort: any order-realising permutation is legal
        elif func in ('combinations', 'argcombinations'):
            args = [str(rng.choice([1, 2, 2, 3])), rng.choice(['true', 'false']), str(axis()), 'none']
        elif func == 'pad_none':
            args = [str(rng.choice([0, 1, 2, 3, 5])), str(axis()), rng.choice(['true', 'false'])]
        elif func == 'fill_none':
            args = [rng.choice(['none', 'default', str(axis())])]
            extra = ['(val int %d)' % rng.randint(-9, 99)]
        elif func in ('is_none', 'firsts'):
            args = [str(axis())]
        elif func == 'reduce':
            args = [rng.choice(REDUCERS), rng.choice(['none', 'none', str(axis()), str(axis())]),
                    rng.choice(['default', 'true', 'false']), rng.choice(['false', 'false', 'true'])]
        elif func == 'getitem':
            items = []
            r = rng.random()

            def bound():
                return 'none' if rng.random() < 0.3 else str(rng.randint(-L - 2, L + 2))
            if r < 0.25:
                items.append('(at %d)' % rng.randint(-L - 1, L))
            elif r < 0.75:
                items.append('(rng %s %s %s)' % (bound(), bound(), rng.choice(['none', '1', '2', '3', '4', '5', '-1', '-2', '-3', '-4'])))
            else:
                m = rng.choice([0, 1, 2, 3, 5])
                items.append('(arr %s)' % ' '.join(str(rng.randint(-L, L - 1) if L else 0) for _ in range(m)))
            if mn >= 2 and rng.random() < 0.5 and not G.has_kind(t, 'rec'):
                q = rng.random()
                if q < 0.4:
                    items.append('(at %d)' % rng.randint(-2, 2))
                elif q < 0.8 or items[0].startswith('(arr'):
                    items.append('(rng %s %s %s)' % (rng.choice(['none', '0', '1', '-1']), rng.choice(['none', '1', '2', '-1']),
                                                     rng.choice(['none', '1', '2', '-1'])))
            args = ['(' + ' '.join(items) + ')']
        else:
            args = []
        ax = None
        for x in args:
            try:
                ax = int(x)
                break
            except ValueError:
                pass
        if func in ('combinations', 'argcombinations'):
            ax = int(args[2])
        if func == 'pad_none':
            ax = int(args[1])
        if func == 'reduce':
            ax = None if args[1] == 'none' else int(args[1])
        tags = dict(func='part:' + func, nparts=k, empty_parts=sum(1 for b0, b1 in zip([0] + cuts, cuts + [L]) if b0 == b1),
                    axis=ax, negaxis_rec=negrec(ax, t) if ax is not None else False, reducer=(args[0] if func == 'reduce' else None))
        tags_enc(tags, a)
        out.append(C.Case(cid, 'part', ['(' + ' '.join(map(str, cuts)) + ')', func] + args, [arr(a['layout'])] + extra,
                          dict(nontrivial=(k >= 2 and L >= 1), tags=tags, types=[t])))
    return out


GENERATORS = dict(C03=cases_C03, C05=cases_C05, C07=cases_C07, C08=cases_C08, C09=cases_C09, C10=cases_C10, C18=cases_C18)


def case_of_line(ln, meta=None):
    """a case line '(id func args... (arr L)...)' -> common.Case"""
    tree = parse_tree(ln.strip())
    cid, op, rest = str(tree[0]), str(tree[1]), tree[2:]
    args, lays = [], []
    for x in rest:
        if isinstance(x, list) and x and x[0] in ('arr', 'val'):
            lays.append(G.sx(x))
        else:
            args.append(G.sx(x))
    return C.Case(cid, op, args, lays, meta or {})


def load_corpus(prop):
    """minimised past disagreements (/verif/cpy/corpus/<prop>.case): run before the generated cases"""
    path = os.path.join(CPY, 'corpus', prop + '.case')
    out = []
    if not os.path.exists(path):
        return out
    meta = None
    for ln in open(path):
        ln = ln.strip()
        if ln.startswith('#meta '):
            meta = json.loads(ln[6:])
        elif ln and not ln.startswith('#'):
            out.append(case_of_line(ln, meta))
            meta = None
    return out


PY_ND = 0.0       # n-d NumpyArray encodings of regular levels are exercised at the C++ level (awkdrv); the Python layer mostly
#                   converts them with toRegularArray() first, and where it does not (ak.unflatten: fixed 81cf1c4;
#                   ak.concatenate(axis=1) with an option over an n-d array: open finding) the corpus keeps the cases


def _with_corpus(prop):
    def f(rng, tier):
        old = G.DEFAULT_ND
        G.DEFAULT_ND = PY_ND
        try:
            return load_corpus(prop) + GENERATORS[prop](rng, tier)
        finally:
            G.DEFAULT_ND = old
    f.__name__ = 'cases_' + prop
    return f


CASES = {p_: _with_corpus(p_) for p_ in GENERATORS}
for _p in GENERATORS:
    globals()['cases_' + _p] = CASES[_p]


# ---------------------------------------------------------------------------------------------- signatures
def has_strnode(l):
    return isinstance(l, list) and ((len(l) > 1 and l[0] == 'par' and l[1] in ('string', 'bytestring'))
                                    or any(has_strnode(x) for x in l))


def signature(prop, c, impl, verdict):
    """stable key of a known defect of the pinned tree, or None"""
    tg = c.meta.get('tags', {})
    f = tg.get('func', c.op)
    if tg.get('negaxis_rec'):
        return 'negaxis-record-under-list'
    if f == 'part:reduce' and tg.get('reducer') in ('argmin', 'argmax') and tg.get('axis') is not None and c.meta.get('types'):
        import props.c03 as c03
        t = c.meta['types'][0]
        na = c03._negaxis(t, tg['axis'])
        mn, mx = G.list_depth(t)
        if na >= 3 or (na >= 2 and c03._opt_list_below(t, 0, mx - na)):
            return 'argminmax-nonlocal-positions'
    if f in ('part:sort', 'part:argsort') and c.meta.get('types'):
        # defects of the eager sort that show differently in each partition (registered under C06)
        import props.c06 as c06
        t = c.meta['types'][0]
        mn, mx = G.list_depth(t)
        ax = tg.get('axis')
        innermost = ax is not None and (ax == -1 or ax == mx - 1)
        if f == 'part:argsort' and not innermost:
            return 'argsort-nonlocal-positions'
        if f == 'part:argsort' and c06._opt_of_str(t):
            return 'argsort-option-strings-positions'
        if c06._optlist_under_list(t) or (not innermost and c06._optlist_anywhere(t)):
            return 'sort-option-lists-above-axis'
    msg = unhex(impl)
    if impl.startswith('err') and 'cannot broadcast' in msg and ' of length ' in msg:
        if any(reg_untrimmed(l) for l in layouts_of(c)):
            return 'regular-excess-content-same-offsets-shortcut'
    lays = layouts_of(c)
    if impl.startswith('err runtime') and 'index -1 is out of bounds' in msg and '_util.py' in msg:
        return 'broadcast-all-same-offsets-empty-indexerror'
    if c.op == 'concatenate' and tg.get('has_str'):
        return 'mergeable-parameters-of-wrapper-node'
    if c.op == 'concatenate' and any(has_nd(l) and has_node(l, ('ixo', 'bym', 'bim', 'unm')) for l in lays) and impl.startswith('ok'):
        return 'concatenate-axis1-option-over-nd-numpy'
    if any(has_reg0(l) for l in lays):
        if impl.startswith('err') and 'RegularArray of size' in msg:
            return 'regular-size1-to-size0'
        if impl.startswith('ok') or ('cannot broadcast' in msg and ' of length ' in msg):
            return 'regular-size0-length-lost'
    types = c.meta.get('types') or []
    ax = tg.get('axis')
    if isinstance(ax, int) and ax < 0 and types and negrec0(ax, *types) and impl.startswith('err'):
        return 'negaxis-zero-through-record'
    rax = res_axis(types[0], ax) if (types and isinstance(ax, int)) else ax
    if prop == 'C05' and f in ('unflatten', 'rt_unflatten') and verdict.startswith('viol closure') \
            and impl.startswith('ok') and any(has_strnode(l) for l in lays):
        return 'axis-into-string-characters'
    if verdict.startswith('viol closure') and impl.startswith('ok'):
        nchar = impl.count('(par char none (np uint8 (0) ())') + impl.count('(par byte none (np uint8 (0) ())')
        nstr = impl.count('(par string none') + impl.count('(par bytestring none')
        if nchar > 0 and nstr < impl.count('(par char none') + impl.count('(par byte none'):
            return 'string-empty-selection'
    if prop == 'C03':
        if tg.get('axis') == 'none':
            if tg.get('reducer') in ('argmin', 'argmax') and tg.get('empty'):
                return 'argminmax-axis-none-empty-raises'
            return None
        import props.c03 as c03
        sg = c03.signature(c, impl, verdict)
        if sg is None and tg.get('reducer') in ('argmin', 'argmax') and types and G.has_kind(types[0], 'opt'):
            # same defect with option-type LEAVES: rows whose element is missing are not counted either
            mn, mx = G.list_depth(types[0])
            a = tg.get('axis')
            if isinstance(a, int) and ((a < 0 and -a >= 2) or (a >= 0 and mx - a >= 2)):
                return 'argminmax-nonlocal-positions'
        return sg
    if prop == 'C05':
        if f == 'num' and rax == 0 and lays and top_node(lays[0]) == 'rec':
            return 'num-axis0-recordarray-returns-record'
        if f in ('unflatten', 'rt_unflatten') and tg.get('lead0'):
            return 'unflatten-inner-leading-zero-count'
        if f == 'unflatten' and tg.get('negcount'):
            return 'unflatten-negative-counts'
    if prop == 'C09':
        if f == 'is_none' and tg.get('beyond'):
            return 'is-none-axis-beyond-depth'
        if f == 'fill_none' and isinstance(tg.get('axis'), str) and tg['axis'].startswith('-') and types \
                and rec_deep(types[0]):
            return 'negaxis-record-not-resolved'
    if prop == 'C07':
        if f in ('cartesian', 'argcartesian'):
            if rax == 0 and tg.get('dict') and 'IndexError: list index out of range' in msg:
                # a dict's last key in `nested` ("ignored" says the code, and it is for axis >= 1): the axis=0 branch
                # reads layouts[i + 1]
                return 'cartesian-axis0-nested-last-key-indexerror'
            if rax == 0 and tg.get('nested') in ('all', 'subset'):
                return 'cartesian-axis0-nested-grouping'
            if tg.get('reg0') and tg.get('axis', 0) >= 1 and impl.startswith('err') and 'RegularArray of size' in msg:
                return 'regular-size1-to-size0'
    if prop == 'C10':
        if f in ('zip', 'unzip_zip') and tg.get('all_strings') and tg.get('depth_limit') == 'none':
            return 'zip-all-strings-gives-one-record'
    if any(has_reg0(l) for l in lays) and impl.startswith('err') and verdict.startswith('viol value'):
        return 'regular-size0-refused'
    if any(has_node(l, ('reg',)) for l in lays) and verdict.startswith('viol value'):
        # no element survives (zero-length arrays, or every row masked out): all_same_offsets compares
        # arange(0, len(content), size) of a RegularArray with the offsets of zero lists, takes the "same offsets"
        # branch and hands the RegularArray itself to the next level
        def no_leaves(part):
            # the (impl ...) / (spec ...) value of the verdict is a value without any leaf (only lists / None)
            i_ = verdict.find('(' + part + ' ')
            if i_ < 0:
                return False
            j_, depth_ = i_, 0
            while j_ < len(verdict):
                depth_ += verdict[j_] == '('
                depth_ -= verdict[j_] == ')'
                j_ += 1
                if depth_ == 0:
                    break
            body = verdict[i_ + len(part) + 2:j_ - 1]
            return body.startswith('(') and not re.search(r'[0-9]|true|false|nan|inf', body)
        if all((G.child_len(l) or 0) == 0 for l in lays) or no_leaves('impl') or no_leaves('spec'):
            return 'broadcast-all-same-offsets-regular-zero-length'
    if any(has_node(l, ('reg',)) or has_nd(l) for l in lays) and impl.startswith('err') and 'cannot broadcast' in msg \
            and ' of length ' in msg and verdict.startswith('viol value') and '(spec err)' not in verdict:
        return 'regular-level-no-left-broadcast'
    # ---- defects that have been FIXED in /repo (a fixed entry suppresses nothing: a regression is reported by name)
    if tg.get('rec_untrimmed') and (f.endswith(':none') or tg.get('axis') == 'none'):
        return 'completely-flatten-record-untrimmed-fields'
    if prop == 'C05' and f == 'unflatten' and tg.get('pack_hazard'):
        return 'unflatten-pack-leaves-unreachable-lists'
    if prop == 'C09' and f == 'pad_none' and tg.get('clip') and rax == 0 and lays and top_node(lays[0]) == 'unm':
        return 'unmasked-rpad-and-clip-axis0-no-clip'
    if prop == 'C07' and f in ('cartesian', 'combinations') and rax == 0 and tg.get('top_optionlike') \
            and verdict.startswith('viol closure'):
        return 'axis0-product-indexed-over-option'
    if prop == 'C10' and f in ('with_field', 'get_with_field') and tg.get('sole_field'):
        return 'with-field-sole-field-drops-structure'
    return None


# ---------------------------------------------------------------------------------------------- run / summary
def summarize(prop, cases, res):
    known = C.load_known()

    def is_known(sig):
        for k in known:
            if k.get('status') == 'fixed':
                continue
            if k.get('signature') == sig and (k.get('property') == prop or prop in k.get('also', [])):
                return True
        return False

    verd, dist, skips, envs = {}, {}, {}, {}
    per_func_ok, per_func_n = {}, {}
    findings, distinct, samples = [], set(), []
    for c, impl, v in res:
        kind = v.split(' ', 1)[0]
        verd[kind] = verd.get(kind, 0) + 1
        tg = c.meta.get('tags') or {}
        f = tg.get('func', c.op).split(':')[0]
        ob = 'corr:py:' + f
        per_func_ok.setdefault(ob, True)
        for k2, v2 in tg.items():
            dist.setdefault(k2, {})
            dist[k2][str(v2)] = dist[k2].get(str(v2), 0) + 1
        if kind == 'agree':
            per_func_n[ob] = per_func_n.get(ob, 0) + 1
            what = v.split(' ', 1)[1] if ' ' in v else ''
            dist.setdefault('outcome', {})
            dist['outcome'][f + ':' + what] = dist['outcome'].get(f + ':' + what, 0) + 1
            if c.meta.get('nontrivial', True) and what == 'ok':
                distinct.add(c.body())
                if len(samples) < 6:
                    samples.append(c.line()[:400])
            continue
        if kind == 'skip':
            why = v.split(' ', 1)[1] if ' ' in v else '?'
            if why.startswith('env-skip'):
                envs[why] = envs.get(why, 0) + 1
            else:
                skips[f + ':' + why] = skips.get(f + ':' + why, 0) + 1
            continue
        if kind == 'bad':
            per_func_ok[ob] = False
            findings.append(dict(kind='bad', what='correspondence %s could not be evaluated: %s' % (ob, v[:300]),
                                 case_lines=[c.line(), '# impl: ' + unhex(impl)[:600]], signature=None, no_input=True,
                                 size=len(c.line())))
            continue
        sig = signature(prop, c, impl, v)
        if sig is None or not is_known(sig):
            per_func_ok[ob] = False
        what = '%s: the Python layer %s  [%s]' % (
            f, 'crashed (%s)' % unhex(impl)[:200] if kind == 'crash' else
            ('MODIFIED ITS INPUT (operations must be pure)' if kind == 'impure' else 'differs from its specification'), v[:600])
        findings.append(dict(kind=kind, what=what, signature=sig, size=len(c.line()),
                             case_lines=[c.line(), '# impl: ' + unhex(impl)[:1200], '# verdict: ' + v[:1500]]))
    best = {}
    for fnd in findings:
        key = (fnd['kind'], fnd['what'].split(':')[0], str(fnd['signature']))
        if key not in best or fnd['size'] < best[key]['size']:
            best[key] = fnd
    fl = sorted(best.values(), key=lambda x: (x.get('no_input', False), x['size']))
    nfind = {}
    for fnd in findings:
        nfind[str(fnd['signature'])] = nfind.get(str(fnd['signature']), 0) + 1
    return dict(findings=fl, corr_obligations=per_func_ok, evaluations=len(cases), distinct_nontrivial=len(distinct),
                samples=samples, distribution=dist, verdicts=verd,
                extra=dict(py_env_skips=envs, py_unspecified=skips, py_agreements_per_function=per_func_n,
                           py_disagreements_per_signature=nfind))


def run(prop, cases, tier, rng):
    return summarize(prop, cases, evaluate(cases))


def _mk(prop):
    def cases_fn(rng, tier):
        return CASES[prop](rng, tier)

    def run_fn(cases, tier, rng):
        return run(prop, cases, tier, rng)
    return cases_fn, run_fn


for _p in PROPS:
    _c, _r = _mk(_p)
    globals()['run_' + _p] = _r


def replay_cases(path):
    out = []
    for ln in open(path):
        ln = ln.strip()
        if not ln or ln.startswith('#'):
            continue
        out.append(case_of_line(ln))
    return out


def main():
    import argparse
    ap = argparse.ArgumentParser()
    ap.add_argument('prop')
    ap.add_argument('--tier', default='quick')
    ap.add_argument('--seed', type=int, default=20260929)
    ap.add_argument('--no-build', action='store_true')
    ap.add_argument('--replay')
    ap.add_argument('--dump', help='write every (case, impl, verdict) that is not an agreement to this file')
    a = ap.parse_args()
    prop = a.prop.upper()
    if not a.no_build:
        build()
    dirty = C.sh('git -C %s status --short' % C.REPO).stdout.strip()
    if dirty:
        C.log('NOTE: %s has uncommitted changes (seeded?): %s' % (C.REPO, dirty.replace(chr(10), '; ')[:200]))
    rng = random.Random(a.seed)
    cases = replay_cases(a.replay) if a.replay else CASES[prop](rng, a.tier)
    C.log('%d cases' % len(cases))
    res = evaluate(cases)
    if a.dump:
        with open(a.dump, 'w') as f:
            for c, impl, v in res:
                if not v.startswith('agree'):
                    f.write('%s\n#   impl: %s\n#   verdict: %s\n#   sig: %s tags: %s\n' % (
                        c.line(), unhex(impl)[:700], v[:900], signature(prop, c, impl, v), c.meta.get('tags')))
    s = summarize(prop, cases, res)
    json.dump(s, sys.stdout, indent=1, sort_keys=True, default=str)
    print()


if __name__ == '__main__':
    main()
