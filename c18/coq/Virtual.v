(** C18, model of VirtualArray / ArrayGenerator / ArrayCache (no proofs in this file).

    Follows /repo/src/libawkward/array/VirtualArray.cpp ([peek_array], [array], [length], [form]) and
    /repo/src/libawkward/virtual/ArrayGenerator.cpp ([generate_and_check]); the cache behaves like
    PyArrayCache in /repo/src/python/virtual.cpp (a mapping that may have died: "broken").

    The payload type [A] (the materialised array) and the declaration type [D] (expected length and/or
    Form) are abstract; [shape_ok d a] stands for the two tests of [generate_and_check]
    ([length_ > out->length()] and [form_->equal(out->form(true), ...)]).
    A VirtualArray is identified with its cache key [k : nat]; [gen k n] is what the generator of that
    array returns at its [n]-th invocation (a payload, possibly of the wrong shape, or an exception);
    [info k] says what was declared and whether the array has a cache at all ([cache_ != nullptr]). *)
From Coq Require Import ZArith List Bool Arith.
From AwkV Require Import Base.
Import ListNotations.

Section Virtual.
  Variable A : Type.
  Variable D : Type.
  Variable shape_ok : D -> A -> bool.

  Inductive outcome := GOk (a : A) | GFail.

  Record vinfo := { vi_decl : D; vi_has_length : bool; vi_has_form : bool; vi_has_cache : bool }.

  Variable gen : nat -> nat -> outcome.
  Variable info : nat -> vinfo.

  Inductive cmode := Live | Broken.

  Record state := {
    st_cache : list (nat * A);     (* the mapping behind the ArrayCache *)
    st_mode : cmode;               (* Broken: is_broken() = true, get finds nothing, set is ignored *)
    st_count : nat -> nat;         (* invocations of generate() so far, per generator *)
    st_inferred : nat -> bool      (* ArrayGenerator::inferred_form_ is set *)
  }.

  Definition init (m : cmode) : state :=
    {| st_cache := []; st_mode := m; st_count := fun _ => O; st_inferred := fun _ => false |}.

  Fixpoint lookup (k : nat) (c : list (nat * A)) : option A :=
    match c with
    | [] => None
    | (k', a) :: r => if Nat.eqb k' k then Some a else lookup k r
    end.

  Definition remove_key (k : nat) (c : list (nat * A)) : list (nat * A) :=
    filter (fun e => negb (Nat.eqb (fst e) k)) c.

  Definition upd {X} (f : nat -> X) (k : nat) (x : X) : nat -> X :=
    fun k' => if Nat.eqb k' k then x else f k'.

  (* what the environment may do to the cache at any moment *)
  Inductive event := EvEvict (k : nat) | EvEvictAll | EvBreak.

  Definition apply_event (e : event) (s : state) : state :=
    match e with
    | EvEvict k => {| st_cache := remove_key k (st_cache s); st_mode := st_mode s;
                      st_count := st_count s; st_inferred := st_inferred s |}
    | EvEvictAll => {| st_cache := []; st_mode := st_mode s;
                       st_count := st_count s; st_inferred := st_inferred s |}
    | EvBreak => {| st_cache := []; st_mode := Broken;
                    st_count := st_count s; st_inferred := st_inferred s |}
    end.

  Definition apply_events (es : list event) (s : state) : state :=
    fold_left (fun s e => apply_event e s) es s.

  (* ArrayCache::get / ArrayCache::set *)
  Definition cache_get (s : state) (k : nat) : option A :=
    match st_mode s with Broken => None | Live => lookup k (st_cache s) end.

  Definition cache_set (s : state) (k : nat) (a : A) : state :=
    match st_mode s with
    | Broken => s
    | Live => {| st_cache := (k, a) :: remove_key k (st_cache s); st_mode := Live;
                 st_count := st_count s; st_inferred := st_inferred s |}
    end.

  (* VirtualArray::peek_array *)
  Definition peek_array (k : nat) (s : state) : option A :=
    if vi_has_cache (info k) then
      match st_mode s with Broken => None | Live => cache_get s k end
    else None.

  (* ArrayGenerator::generate_and_check: one more invocation; an exception of generate() or a failed
     length/form test is an error; inferred_form_ is recorded when no Form was declared *)
  Definition generate_and_check (k : nat) (s : state) : res A * state :=
    let n := st_count s k in
    let s1 := {| st_cache := st_cache s; st_mode := st_mode s;
                 st_count := upd (st_count s) k (S n); st_inferred := st_inferred s |} in
    match gen k n with
    | GFail => (Err EValue, s1)
    | GOk a =>
        if shape_ok (vi_decl (info k)) a then
          (Ok a, {| st_cache := st_cache s1; st_mode := st_mode s1; st_count := st_count s1;
                    st_inferred := if vi_has_form (info k) then st_inferred s1
                                   else upd (st_inferred s1) k true |})
        else (Err EValue, s1)
    end.

  (* VirtualArray::array.  [mid] = what the environment does to the cache between the moment the value is
     in hand (after get / generate) and the final cache_->set (an eviction "at any moment").
     Returns the value, whether the generator was invoked, and the new state.  On an exception nothing
     after the generator runs. *)
  Definition array (k : nat) (mid : list event) (s : state) : (res A * bool) * state :=
    let cached := vi_has_cache (info k) in
    match (if cached then cache_get s k else None) with
    | Some a =>
        let s1 := apply_events mid s in
        ((Ok a, false), if cached then cache_set s1 k a else s1)
    | None =>
        match generate_and_check k s with
        | (Ok a, s1) =>
            let s2 := apply_events mid s1 in
            ((Ok a, true), if cached then cache_set s2 k a else s2)
        | (Err e, s1) => ((Err e, true), s1)
        end
    end.

  (* an operation on the virtual array = the operation on the materialised payload *)
  Definition apply {B} (f : A -> B) (k : nat) (mid : list event) (s : state) : res B * state :=
    (rmap f (fst (fst (array k mid s))), snd (array k mid s)).

  (* where the answer of a length()/form() query comes from *)
  Inductive answer := FromDecl (d : D) | FromInferred | FromPayload (a : A).

  (* VirtualArray::length: generator_->length() when declared, else array()->length() *)
  Definition length_q (k : nat) (mid : list event) (s : state) : res answer * state :=
    if vi_has_length (info k) then (Ok (FromDecl (vi_decl (info k))), s)
    else (rmap FromPayload (fst (fst (array k mid s))), snd (array k mid s)).

  (* VirtualArray::form(true): generator_->form() (declared, or inferred by an earlier generation), else
     array()->form() *)
  Definition form_q (k : nat) (mid : list event) (s : state) : res answer * state :=
    if vi_has_form (info k) then (Ok (FromDecl (vi_decl (info k))), s)
    else if st_inferred s k then (Ok FromInferred, s)
    else (rmap FromPayload (fst (fst (array k mid s))), snd (array k mid s)).

  (* histories: any interleaving of queries and cache events *)
  Inductive step :=
  | SArray (k : nat) (mid : list event)
  | SPeek (k : nat)
  | SLength (k : nat) (mid : list event)
  | SForm (k : nat) (mid : list event)
  | SEvent (e : event).

  Definition exec (st : step) (s : state) : state :=
    match st with
    | SArray k mid => snd (array k mid s)
    | SPeek _ => s
    | SLength k mid => snd (length_q k mid s)
    | SForm k mid => snd (form_q k mid s)
    | SEvent e => apply_event e s
    end.

  Definition run (h : list step) (s : state) : state := fold_left (fun s st => exec st s) h s.

  (* the array() call a step makes, if any *)
  Definition materialises (st : step) (s : state) : option nat :=
    match st with
    | SArray k _ => Some k
    | SLength k _ => if vi_has_length (info k) then None else Some k
    | SForm k _ => if vi_has_form (info k) || st_inferred s k then None else Some k
    | SPeek _ | SEvent _ => None
    end.

  (* array() would have to call the generator *)
  Definition miss (s : state) (k : nat) : bool :=
    match (if vi_has_cache (info k) then cache_get s k else None) with None => true | Some _ => false end.
End Virtual.

Arguments GOk {A} a.
Arguments GFail {A}.
Arguments FromDecl {A D} d.
Arguments FromInferred {A D}.
Arguments FromPayload {A D} a.
