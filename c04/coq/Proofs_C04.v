(** C04 — proofs.  Part 1: laws of the specification (BroadcastSpec.v). *)
From AwkV Require Import Proofs_Lists Proofs_ToList Proofs_Carry.
From AwkBroadcast Require Import Broadcast.
From Coq Require Import Lia ZifyBool.

Definition badT (t : ty) : bool := match t with TUnion _ | TList _ (Some _) _ => true | _ => false end.

(* ------------------------------------------------------------------ one step of the specification *)
Lemma spec_v_S op ar fuel args0 :
  spec_v op ar (S fuel) args0 =
  (let args := rpad args0 in
   let ts := map fst args in
   if existsb badT ts then Err EValue
   else if existsb is_optT ts then
     if none_in args then Ok VNone else spec_v op ar fuel (map strip_opt args)
   else if existsb is_listT ts then
     do n <- list_target args;
     do cols <- mapM (column n) args;
     rmap VList (mapM (spec_v op ar fuel) (transpose (Z.to_nat n) cols))
   else if existsb is_recT ts then
     if negb ar then Err EValue else
     match somes (map rec_keys ts) with
     | [] => Err EValue
     | keys :: _ =>
         do outs <- mapM (fun key => do sub <- mapM (field_of key) args; spec_v op ar fuel sub) keys;
         if forallb (fun t => negb (is_recT t) || rec_istuple t) ts then Ok (VTup outs)
         else Ok (VRec (zip keys outs))
     end
   else
     do zs <- mapM leaf_zb args;
     Ok (mk_leaf (lk op (map fst zs)) (lf op (map fst zs) (map snd zs)))).
Proof. reflexivity. Qed.

Lemma spec_t_S op ar fuel ts0 :
  spec_t op ar (S fuel) ts0 =
  (let ts := rpad_t ts0 in
   if existsb badT ts then Err EValue
   else if existsb is_optT ts then rmap TOpt (spec_t op ar fuel (map strip_opt_t ts))
   else if existsb is_listT ts then
     let lts := filter is_listT ts in
     let next := map elemT ts in
     if forallb is_regT lts then
       do size <- dim_target (somes (map sizeT lts));
       rmap (TList (Some size) None) (spec_t op ar fuel next)
     else rmap (TList None None) (spec_t op ar fuel next)
   else if existsb is_recT ts then
     if negb ar then Err EValue else
     match somes (map rec_keys ts) with
     | [] => Err EValue
     | keys :: others =>
         if negb (forallb (same_keyset keys) others) then Err EValue else
         match keys with
         | [] => Err EValue
         | _ =>
             do fts <- mapM (fun key => do sub <- mapM (field_t key) ts; spec_t op ar fuel sub) keys;
             Ok (TRec (if forallb (fun t => negb (is_recT t) || rec_istuple t) ts then None else Some keys) fts)
         end
     end
   else Ok (TNum (if lk op (map leaf_isbool ts) then DBool else DInt64))).
Proof. reflexivity. Qed.

Lemma rpad_nocond args : rpad_cond (map fst args) = false -> rpad args = args.
Proof. intros H. unfold rpad. now rewrite H. Qed.
Lemma rpad_t_nocond ts : rpad_cond ts = false -> rpad_t ts = ts.
Proof. intros H. unfold rpad_t. now rewrite H. Qed.

(* ------------------------------------------------------------------ (d) a missing value gives a missing result *)
Lemma none_in_opt args : none_in args = true -> existsb is_optT (map fst args) = true.
Proof.
  unfold none_in. rewrite !existsb_exists. intros [a [Hin Ha]].
  exists (fst a). split; [now apply in_map|]. now apply andb_prop in Ha.
Qed.

Theorem none_propagates_step op ar fuel args :
  rpad args = args ->
  existsb badT (map fst args) = false ->
  none_in args = true ->
  spec_v op ar (S fuel) args = Ok VNone.
Proof.
  intros Hp Hb Hn. rewrite spec_v_S. cbv zeta. rewrite Hp, Hb, (none_in_opt _ Hn), Hn. reflexivity.
Qed.

(* ------------------------------------------------------------------ (e) different lengths at the same position *)
Lemma column_err n a e : column n a = Err e -> e = EValue.
Proof.
  destruct a as [t v]. unfold column. destruct t; try discriminate.
  destruct str; try discriminate. destruct v; try (now intros H; inversion H).
  destruct size as [z|].
  - destruct z as [|p|p]; try (destruct (zlen l =? n); [discriminate | now intros H; inversion H]).
    destruct p; try (destruct (zlen l =? n); [discriminate | now intros H; inversion H]).
    destruct l as [|x [|y r]]; try discriminate; now intros H; inversion H.
  - destruct (zlen l =? n); [discriminate | now intros H; inversion H].
Qed.

Lemma mapM_err_in {A B} (f : A -> res B) l x e0 :
  (forall y e, f y = Err e -> e = e0) -> In x l -> f x = Err e0 -> mapM f l = Err e0.
Proof.
  intros Hall. induction l as [|y l IH]; [contradiction|].
  intros [->|Hin] Hx; cbn.
  - now rewrite Hx.
  - destruct (f y) eqn:Hy; cbn.
    + rewrite (IH Hin Hx). reflexivity.
    + now rewrite (Hall _ _ Hy).
Qed.

Lemma column_mismatch n t l :
  is_listT t = true -> sizeT t <> Some 1 -> zlen l <> n -> column n (t, VList l) = Err EValue.
Proof.
  intros Hl Hs Hn. destruct t; try discriminate. destruct str; try discriminate. cbn in Hs.
  unfold column. destruct size as [z|].
  - destruct z as [|p|p]; try (destruct (Z.eqb_spec (zlen l) n); [contradiction|reflexivity]).
    destruct p; try (destruct (Z.eqb_spec (zlen l) n); [contradiction|reflexivity]).
    now contradiction Hs.
  - destruct (Z.eqb_spec (zlen l) n); [contradiction|reflexivity].
Qed.

Theorem length_mismatch_step op ar fuel args t l n :
  rpad args = args ->
  existsb badT (map fst args) = false ->
  existsb is_optT (map fst args) = false ->
  list_target args = Ok n ->
  In (t, VList l) args -> is_listT t = true -> sizeT t <> Some 1 -> zlen l <> n ->
  spec_v op ar (S fuel) args = Err EValue.
Proof.
  intros Hp Hb Ho Ht Hin Hl Hs Hn. rewrite spec_v_S. cbv zeta. rewrite Hp, Hb, Ho.
  assert (He : existsb is_listT (map fst args) = true).
  { apply existsb_exists. exists t. split; [|exact Hl]. change t with (fst (t, VList l)). now apply in_map. }
  rewrite He, Ht. cbn [bind].
  rewrite (mapM_err_in (column n) args (t, VList l) EValue); [reflexivity| |exact Hin|].
  - intros y e. apply column_err.
  - now apply column_mismatch.
Qed.

(* two variable-length lists of different lengths at the same position: an error, whatever they contain *)
Theorem length_mismatch_var_var op ar fuel t1 t2 l1 l2 :
  zlen l1 <> zlen l2 ->
  spec_v op ar (S fuel) [(TList None None t1, VList l1); (TList None None t2, VList l2)] = Err EValue.
Proof.
  intros H.
  apply (length_mismatch_step op ar fuel _ (TList None None t2) l2 (zlen l1)); try reflexivity.
  - right; left; reflexivity.
  - discriminate.
  - congruence.
Qed.

(* ------------------------------------------------------------------ (f) the result is as deep as the deepest argument *)
Lemma rdepth_nonneg t : 0 <= rdepth t.
Proof. induction t; cbn [rdepth]; try lia. destruct str; lia. Qed.
Lemma maxdepth_nonneg ts : 0 <= maxdepth ts.
Proof. unfold maxdepth. induction ts; cbn [map fold_right]; lia. Qed.
Lemma maxdepth_cons t ts : maxdepth (t :: ts) = Z.max (rdepth t) (maxdepth ts).
Proof. reflexivity. Qed.
Lemma maxdepth_ge ts t : In t ts -> rdepth t <= maxdepth ts.
Proof. induction ts; [contradiction|]. rewrite maxdepth_cons. intros [->|H]; [lia|]. specialize (IHts H). lia. Qed.
Lemma rdepth_padn_t k t : rdepth (padn_t k t) = Z.of_nat k + rdepth t.
Proof. induction k; [cbn [padn_t]; lia|]. cbn [padn_t]. unfold pad1_t. cbn [rdepth]. lia. Qed.
Lemma maxdepth_const ts d : ts <> [] -> 0 <= d -> (forall t, In t ts -> rdepth t = d) -> maxdepth ts = d.
Proof.
  induction ts as [|t ts IH]; [congruence|]. intros _ Hd Hall. rewrite maxdepth_cons.
  rewrite (Hall t (or_introl eq_refl)). destruct ts as [|t' ts'].
  - cbn. lia.
  - rewrite IH; [lia|discriminate|exact Hd|]. intros x Hx. apply Hall. now right.
Qed.
Lemma maxdepth_rpad_t ts : maxdepth (rpad_t ts) = maxdepth ts.
Proof.
  unfold rpad_t. destruct (rpad_cond ts); [|reflexivity].
  destruct ts as [|t0 ts0]; [reflexivity|]. set (ts := t0 :: ts0).
  apply maxdepth_const.
  - discriminate.
  - apply maxdepth_nonneg.
  - intros t Ht. apply in_map_iff in Ht. destruct Ht as [x [<- Hx]].
    rewrite rdepth_padn_t. pose proof (maxdepth_ge ts x Hx). lia.
Qed.
Lemma maxdepth_strip ts : maxdepth (map strip_opt_t ts) = maxdepth ts.
Proof.
  induction ts as [|t ts IH]; [reflexivity|]. cbn [map]. rewrite !maxdepth_cons, IH.
  f_equal. destruct t; reflexivity.
Qed.
(* below lists and options are gone: one list level less *)
Lemma maxdepth_elems_aux ts :
  existsb badT ts = false -> existsb is_optT ts = false ->
  maxdepth ts = (if existsb is_listT ts then 1 + maxdepth (map elemT ts) else 0) /\
  (existsb is_listT ts = false -> maxdepth (map elemT ts) = 0).
Proof.
  induction ts as [|t ts IH]; [split; reflexivity|]. cbn [existsb map]. intros Hb Ho.
  apply orb_false_elim in Ho. destruct Ho as [Ht Ho].
  apply orb_false_elim in Hb. destruct Hb as [Hbt Hb]. destruct (IH Hb Ho) as [IH1 IH2].
  rewrite !maxdepth_cons, IH1. pose proof (maxdepth_nonneg (map elemT ts)). pose proof (rdepth_nonneg (elemT t)).
  destruct t as [dt| |size str t0|t0|ks fs|alts];
    cbn [is_listT is_optT badT orb rdepth elemT] in *; try discriminate;
    try (destruct str; try discriminate; cbn [orb] in * );
    destruct (existsb is_listT ts); try specialize (IH2 eq_refl); split; try discriminate; intros; lia.
Qed.
Lemma maxdepth_elems ts :
  existsb badT ts = false -> existsb is_optT ts = false ->
  maxdepth ts = if existsb is_listT ts then 1 + maxdepth (map elemT ts) else 0.
Proof. intros Hb Ho. exact (proj1 (maxdepth_elems_aux ts Hb Ho)). Qed.

Theorem spec_t_depth op ar : forall fuel ts rt, spec_t op ar fuel ts = Ok rt -> rdepth rt = maxdepth ts.
Proof.
  induction fuel as [|fuel IH]; [discriminate|]. intros ts rt. rewrite spec_t_S. cbv zeta.
  rewrite <- (maxdepth_rpad_t ts). set (ts' := rpad_t ts).
  destruct (existsb badT ts') eqn:Hb; [discriminate|].
  destruct (existsb is_optT ts') eqn:Ho.
  { destruct (spec_t op ar fuel (map strip_opt_t ts')) eqn:E; [|discriminate]. cbn. intros H; inversion H; subst.
    cbn [rdepth]. rewrite (IH _ _ E). apply maxdepth_strip. }
  rewrite (maxdepth_elems ts' Hb Ho).
  destruct (existsb is_listT ts') eqn:Hl.
  { destruct (forallb is_regT (filter is_listT ts')).
    - destruct (dim_target _); [|discriminate]. cbn [bind].
      destruct (spec_t op ar fuel (map elemT ts')) eqn:E; [|discriminate]. cbn. intros H; inversion H; subst.
      cbn [rdepth]. now rewrite (IH _ _ E).
    - destruct (spec_t op ar fuel (map elemT ts')) eqn:E; [|discriminate]. cbn. intros H; inversion H; subst.
      cbn [rdepth]. now rewrite (IH _ _ E). }
  destruct (existsb is_recT ts').
  { destruct (negb ar); [discriminate|]. destruct (somes (map rec_keys ts')) as [|keys others]; [discriminate|].
    destruct (negb (forallb (same_keyset keys) others)); [discriminate|]. destruct keys; [discriminate|].
    destruct (mapM _ _); [|discriminate]. cbn. intros H; inversion H; subst. reflexivity. }
  intros H; inversion H; subst. reflexivity.
Qed.

(* ------------------------------------------------------------------ rows and columns *)
Lemma zipcons_length {A} (col : list A) rows : length (zipcons col rows) = Nat.min (length col) (length rows).
Proof. revert rows. induction col as [|x c IH]; intros [|r rs]; cbn; auto. Qed.
Lemma transpose_cons {A} n (col : list A) cols : transpose n (col :: cols) = zipcons col (transpose n cols).
Proof. reflexivity. Qed.
Lemma transpose_length {A} n (cols : list (list A)) :
  Forall (fun c => length c = n) cols -> length (transpose n cols) = n.
Proof.
  induction 1 as [|c cols Hc _ IH]; [apply repeat_length|].
  rewrite transpose_cons, zipcons_length, IH, Hc. lia.
Qed.
Lemma zipcons_rows {A} (P : A -> Prop) (Q : list A -> Prop) col rows :
  Forall P col -> Forall Q rows ->
  Forall (fun r => exists x r', r = x :: r' /\ P x /\ Q r') (zipcons col rows).
Proof.
  intros Hc. revert rows. induction Hc as [|x c Hx _ IH]; intros rows Hr; [constructor|].
  destruct Hr as [|r rs Hr1 Hr2]; [constructor|]. cbn. constructor; [eauto 6|]. now apply IH.
Qed.
(* every row takes its j-th entry from the j-th column *)
Lemma transpose_rows {A} (Ps : list (A -> Prop)) n (cols : list (list A)) :
  Forall2 (fun P c => Forall P c) Ps cols ->
  Forall (fun row => Forall2 (fun P x => P x) Ps row) (transpose n cols).
Proof.
  induction 1 as [|P c Ps cols HP _ IH].
  - cbn. apply Forall_forall. intros r Hr. apply repeat_spec in Hr. subst. constructor.
  - rewrite transpose_cons.
    pose proof (zipcons_rows P (fun r => Forall2 (fun P x => P x) Ps r) c (transpose n cols) HP IH) as H.
    eapply Forall_impl; [|exact H]. intros r (x & r' & -> & Hx & Hr'). now constructor.
Qed.

Lemma column_shape n a col :
  badT (fst a) = false -> column n a = Ok col ->
  length col = Z.to_nat n /\ Forall (fun x => fst x = elemT (fst a)) col.
Proof.
  destruct a as [t v]. cbn [fst]. intros Hb. unfold column.
  assert (Hrep : length (repeat (t, v) (Z.to_nat n)) = Z.to_nat n /\
                 Forall (fun x : sarg => fst x = t) (repeat (t, v) (Z.to_nat n))).
  { split; [apply repeat_length|]. apply Forall_forall. intros x Hx. apply repeat_spec in Hx. now subst. }
  destruct t as [dt| |size str t0|t0|ks fs|alts]; cbn [elemT]; try (intros H; inversion H; subst; exact Hrep).
  destruct str; [discriminate|]. destruct v; try discriminate.
  assert (Hmap : zlen l =? n = true -> length (map (fun x => (t0, x)) l) = Z.to_nat n /\
                 Forall (fun x : sarg => fst x = t0) (map (fun x => (t0, x)) l)).
  { intros E. split; [rewrite map_length; unfold zlen in E; lia|].
    apply Forall_forall. intros x Hx. apply in_map_iff in Hx. destruct Hx as [y [<- _]]. reflexivity. }
  assert (Hgen : (if zlen l =? n then Ok (map (fun x => (t0, x)) l) else Err EValue) = Ok col ->
                 length col = Z.to_nat n /\ Forall (fun x : sarg => fst x = t0) col).
  { destruct (zlen l =? n) eqn:E; [|discriminate]. intros H; inversion H; subst. now apply Hmap. }
  destruct size as [z|]; [|exact Hgen].
  destruct z as [|p|p]; try exact Hgen. destruct p; try exact Hgen.
  destruct l as [|x [|y r]]; try discriminate. intros H; inversion H; subst.
  split; [apply repeat_length|]. apply Forall_forall. intros y Hy. apply repeat_spec in Hy. now subst.
Qed.

Lemma mapM_Forall2 {A B} (f : A -> res B) (R : A -> B -> Prop) l ys :
  (forall x y, In x l -> f x = Ok y -> R x y) -> mapM f l = Ok ys -> Forall2 R l ys.
Proof.
  revert ys. induction l as [|a l IH]; intros ys HR H; cbn in H.
  - inversion H; subst. constructor.
  - apply bind_Ok in H as (y & Hy & H). apply bind_Ok in H as (ys' & Hys & H). inversion H; subst.
    constructor; [apply HR; [now left|exact Hy]|]. apply IH; [|exact Hys]. intros x y' Hx. apply HR. now right.
Qed.

(* the rows below a list level carry the element types of the arguments *)
Lemma rows_types n args cols :
  existsb badT (map fst args) = false ->
  mapM (column n) args = Ok cols ->
  length (transpose (Z.to_nat n) cols) = Z.to_nat n /\
  Forall (fun row => map fst row = map elemT (map fst args)) (transpose (Z.to_nat n) cols).
Proof.
  intros Hb Hc.
  assert (HF : Forall2 (fun a col => length col = Z.to_nat n /\ Forall (fun x => fst x = elemT (fst a)) col) args cols).
  { eapply mapM_Forall2; [|exact Hc]. intros a col Hin Hcol. apply column_shape; [|exact Hcol].
    destruct (badT (fst a)) eqn:E; [|reflexivity].
    assert (existsb badT (map fst args) = true); [|congruence].
    apply existsb_exists. exists (fst a). split; [now apply in_map|exact E]. }
  split.
  - apply transpose_length. clear -HF. induction HF; constructor; intuition.
  - assert (HP : Forall2 (fun (P : sarg -> Prop) c => Forall P c)
                   (map (fun a => fun x : sarg => fst x = elemT (fst a)) args) cols).
    { clear -HF. induction HF; cbn; constructor; intuition. }
    pose proof (transpose_rows _ (Z.to_nat n) cols HP) as H.
    eapply Forall_impl; [|exact H]. intros row Hrow. clear -Hrow.
    revert row Hrow. induction args as [|a args IH]; intros row Hrow; cbn in *.
    + inversion Hrow; subst. reflexivity.
    + inversion Hrow; subst. cbn. f_equal; [assumption|]. now apply IH.
Qed.

(* ------------------------------------------------------------------ (f) shape of the result *)
(* [has_shape t v]: v has the list structure t describes (regular sizes, options, leaves); leaf dtypes are not looked at *)
Fixpoint has_shape (t : ty) (v : value) {struct t} : bool :=
  match t with
  | TNum _ | TUnk => match v with VNum _ | VBool _ => true | _ => false end
  | TList sz None t' =>
      match v with
      | VList l => forallb (has_shape t') l && match sz with Some n => zlen l =? n | None => true end
      | _ => false
      end
  | TOpt t' => match v with VNone => true | _ => has_shape t' v end
  | _ => false
  end.

Lemma fst_padn k a : fst (padn k a) = padn_t k (fst a).
Proof. induction k; [reflexivity|]. cbn [padn padn_t]. unfold pad1, pad1_t. cbn [fst]. now rewrite IHk. Qed.
Lemma rpad_fst args : map fst (rpad args) = rpad_t (map fst args).
Proof.
  unfold rpad, rpad_t. destruct (rpad_cond (map fst args)); [|reflexivity].
  rewrite !map_map. apply map_ext. intros a. apply fst_padn.
Qed.
Lemma strip_fst args : map fst (map strip_opt args) = map strip_opt_t (map fst args).
Proof. rewrite !map_map. apply map_ext. intros [t v]. destruct t; reflexivity. Qed.

Lemma dim_target_cases sizes n :
  dim_target sizes = Ok n -> n = 1 \/ In n sizes.
Proof.
  unfold dim_target. destruct (filter (fun s => negb (s =? 1)) sizes) as [|x rest] eqn:E.
  - intros H; inversion H; now left.
  - destruct (forallb (Z.eqb x) rest); [|discriminate]. intros H; inversion H; subst. right.
    assert (Hin : In n (filter (fun s => negb (s =? 1)) sizes)) by (rewrite E; now left).
    apply filter_In in Hin. tauto.
Qed.
Lemma in_somes {A} (x : A) l : In x (somes l) <-> In (Some x) l.
Proof.
  induction l as [|[y|] l IH]; cbn; [tauto| |].
  - rewrite IH. split; intros [H|H]; auto; left; congruence.
  - rewrite IH. split; [auto|]. intros [H|H]; [discriminate|exact H].
Qed.
Lemma first_var_len_nonneg args n : first_var_len args = Ok n -> 0 <= n.
Proof.
  induction args as [|[t v] args IH]; [discriminate|]. cbn.
  destruct t as [dt| |[z|] [b|] t0|t0|ks fs|alts]; try exact IH.
  destruct v; try discriminate. intros H; inversion H. unfold zlen. lia.
Qed.
(* the target length of a list level is a length *)
Lemma list_target_nonneg n args cols :
  list_target args = Ok n -> mapM (column n) args = Ok cols -> 0 <= n.
Proof.
  unfold list_target. intros Ht Hc.
  destruct (forallb is_regT (filter is_listT (map fst args))); [|now apply first_var_len_nonneg in Ht].
  apply dim_target_cases in Ht. destruct Ht as [->|Hin]; [lia|].
  apply in_somes in Hin. apply in_map_iff in Hin. destruct Hin as [t [Hs Ht]].
  apply filter_In in Ht. destruct Ht as [Ht Hl]. apply in_map_iff in Ht. destruct Ht as [[t' v] [E Hin]].
  cbn in E. subst t'. destruct (mapM_Ok_In _ _ _ _ Hc Hin) as [col [Hcol _]].
  destruct t as [dt| |size str t0|t0|ks fs|alts]; try discriminate. destruct str; [discriminate|].
  cbn in Hs. subst size. unfold column in Hcol. destruct v; try discriminate.
  destruct (Z.eq_dec n 1) as [->|Hn1]; [lia|].
  assert (zlen l =? n = true).
  { destruct n as [|p|p]; try (destruct (zlen l =? _); [reflexivity|discriminate]).
    destruct p; try (destruct (zlen l =? _); [reflexivity|discriminate]). congruence. }
  unfold zlen in *. lia.
Qed.

Lemma mapM_forallb {A B} (f : A -> res B) (p : B -> bool) l ys :
  (forall x y, In x l -> f x = Ok y -> p y = true) -> mapM f l = Ok ys -> forallb p ys = true.
Proof.
  intros HR H. apply forallb_forall. intros y Hy. destruct (mapM_In_inv _ _ _ _ H Hy) as [x [Hx Hfx]]. eauto.
Qed.

Theorem spec_shape op : forall fuel args rt r,
  spec_t op false fuel (map fst args) = Ok rt -> spec_v op false fuel args = Ok r -> has_shape rt r = true.
Proof.
  induction fuel as [|fuel IH]; [discriminate|]. intros args rt r. rewrite spec_t_S, spec_v_S. cbv zeta.
  rewrite rpad_fst. set (args' := rpad args). rewrite <- (rpad_fst args). fold args'. set (ts' := map fst args').
  destruct (existsb badT ts') eqn:Hb; [discriminate|].
  destruct (existsb is_optT ts') eqn:Ho.
  { destruct (spec_t op false fuel (map strip_opt_t ts')) eqn:E; [|discriminate]. cbn [rmap]. intros H; inversion H; subst.
    destruct (none_in args'); [intros H'; inversion H'; reflexivity|]. intros Hv.
    unfold ts' in E. rewrite <- strip_fst in E. specialize (IH _ _ _ E Hv). cbn [has_shape]. now destruct r. }
  destruct (existsb is_listT ts') eqn:Hl.
  { intros Ht Hv. apply bind_Ok in Hv as (n & Hn & Hv). apply bind_Ok in Hv as (cols & Hcols & Hv).
    apply rmap_Ok in Hv as (outs & Houts & ->).
    destruct (rows_types n args' cols Hb Hcols) as [Hlen Hrows].
    pose proof (list_target_nonneg _ _ _ Hn Hcols) as Hn0.
    assert (Hz : zlen outs = n). { apply mapM_zlen in Houts. unfold zlen in *. lia. }
    assert (Hall : forall rt', spec_t op false fuel (map elemT ts') = Ok rt' -> forallb (has_shape rt') outs = true).
    { intros rt' E. eapply mapM_forallb; [|exact Houts]. intros row y Hin Hy.
      rewrite Forall_forall in Hrows. specialize (Hrows row Hin). fold ts' in Hrows.
      eapply IH; [|exact Hy]. now rewrite Hrows. }
    unfold list_target in Hn. fold ts' in Hn.
    destruct (forallb is_regT (filter is_listT ts')).
    - rewrite Hn in Ht. cbn [bind] in Ht.
      destruct (spec_t op false fuel (map elemT ts')) eqn:E; [|discriminate]. cbn in Ht. inversion Ht; subst.
      cbn [has_shape]. rewrite (Hall _ eq_refl). cbn. lia.
    - destruct (spec_t op false fuel (map elemT ts')) eqn:E; [|discriminate]. cbn in Ht. inversion Ht; subst.
      cbn [has_shape]. now rewrite (Hall _ eq_refl). }
  destruct (existsb is_recT ts'); [discriminate|].
  intros Ht Hv. inversion Ht; subst. apply bind_Ok in Hv as (zs & _ & Hv). inversion Hv; subst.
  cbn [has_shape]. unfold mk_leaf. now destruct (lk op (map fst zs)).
Qed.

(* at a list level the result is as long as every list argument that is not a size-1 regular list *)
Theorem result_length_is_argument_length op ar fuel args outs t l :
  rpad args = args ->
  existsb is_optT (map fst args) = false ->
  spec_v op ar (S fuel) args = Ok (VList outs) ->
  In (t, VList l) args -> is_listT t = true -> sizeT t <> Some 1 ->
  zlen outs = zlen l.
Proof.
  intros Hp Ho Hv Hin Hl Hs. rewrite spec_v_S in Hv. cbv zeta in Hv. rewrite Hp, Ho in Hv.
  destruct (existsb badT (map fst args)) eqn:Hb; [discriminate|].
  assert (He : existsb is_listT (map fst args) = true).
  { apply existsb_exists. exists t. split; [|exact Hl]. change t with (fst (t, VList l)). now apply in_map. }
  rewrite He in Hv. apply bind_Ok in Hv as (n & Hn & Hv). apply bind_Ok in Hv as (cols & Hcols & Hv).
  apply rmap_Ok in Hv as (outs' & Houts & E). inversion E; subst outs'.
  destruct (rows_types n args cols Hb Hcols) as [Hlen _].
  pose proof (list_target_nonneg _ _ _ Hn Hcols) as Hn0.
  assert (Hz : zlen outs = n). { apply mapM_zlen in Houts. unfold zlen in *. lia. }
  destruct (Z.eq_dec (zlen l) n) as [|Hne]; [congruence|].
  destruct (mapM_Ok_In _ _ _ _ Hcols Hin) as [col [Hcol _]].
  now rewrite (column_mismatch n t l Hl Hs Hne) in Hcol.
Qed.

(* ------------------------------------------------------------------ (c) a scalar is a length-1 array that broadcasts *)
Lemma padn_pad1 k a : padn k (pad1 a) = pad1 (padn k a).
Proof. induction k; [reflexivity|]. cbn [padn]. now rewrite IHk. Qed.
Lemma padn_t_pad1 k t : padn_t k (pad1_t t) = pad1_t (padn_t k t).
Proof. induction k; [reflexivity|]. cbn [padn_t]. now rewrite IHk. Qed.

Lemma dim_target_drop1 sizes : dim_target (sizes ++ [1]) = dim_target sizes.
Proof. unfold dim_target. rewrite filter_app. cbn. now rewrite app_nil_r. Qed.

Lemma list_target_pad1 tx vx ta va :
  is_listT tx = true -> is_leafT ta = true ->
  list_target [(tx, vx); pad1 (ta, va)] = list_target [(tx, vx); (ta, va)].
Proof.
  intros Hx Ha. assert (Hla : is_listT ta = false) by (destruct ta; try discriminate; reflexivity).
  unfold list_target, pad1. cbn [map fst snd filter is_listT]. rewrite Hx, Hla. cbn [forallb is_regT andb].
  destruct (is_regT tx) eqn:Hr.
  - cbn [map somes sizeT]. destruct (sizeT tx) as [n|]; cbn [somes].
    + exact (dim_target_drop1 [n]).
    + exact (dim_target_drop1 []).
  - destruct tx as [| |s str t0| | |]; try discriminate. destruct str; [discriminate|].
    destruct s; [discriminate|]. cbn. destruct ta; try discriminate; reflexivity.
Qed.
Lemma column_pad1 n ta va : is_leafT ta = true -> column n (pad1 (ta, va)) = column n (ta, va).
Proof. intros Ha. unfold pad1, column. cbn [fst snd]. destruct ta; try discriminate; reflexivity. Qed.

(* with a list argument X next to it, a leaf argument a (a Python scalar) and the length-1 regular list [a] give the same result *)
Theorem scalar_is_length1_array op ar : forall fuel X a,
  is_listT (fst X) = true -> is_leafT (fst a) = true ->
  spec_v op ar fuel [X; a] = spec_v op ar fuel [X; pad1 a].
Proof.
  induction fuel as [|fuel IH]; [reflexivity|]. intros [tx vx] [ta va] Hx Ha. cbn [fst] in *.
  rewrite !spec_v_S. cbv zeta.
  assert (Hra : rdepth ta = 0) by (destruct ta; try discriminate; reflexivity).
  assert (Hpa : pure_reg ta = true) by (destruct ta; try discriminate; reflexivity).
  assert (Hla : is_listT ta = false) by (destruct ta; try discriminate; reflexivity).
  assert (Hrx : 1 <= rdepth tx).
  { destruct tx as [| |s str t0| | |]; try discriminate. destruct str; [discriminate|]. cbn [rdepth]. pose proof (rdepth_nonneg t0). lia. }
  unfold rpad. cbn [map fst pad1]. unfold rpad_cond. cbn [existsb forallb pure_reg is_listT]. rewrite Hx, Hpa, Hla. cbn [orb andb].
  destruct (pure_reg tx) eqn:Hpx; cbn [andb].
  - (* purely regular: both are padded to the depth of X *)
    unfold maxdepth. cbn [map fold_right rdepth]. rewrite Hra.
    replace (Z.max (rdepth tx) (Z.max 0 0)) with (rdepth tx) by lia.
    replace (Z.max (rdepth tx) (Z.max (1 + 0) 0)) with (rdepth tx) by lia.
    replace (rdepth tx - rdepth tx) with 0 by lia. replace (rdepth tx - 0) with (rdepth tx) by lia.
    replace (rdepth tx - (1 + 0)) with (rdepth tx - 1) by lia.
    change (TList (Some 1) None ta, VList [va]) with (pad1 (ta, va)).
    rewrite padn_pad1. change (pad1 (padn ?k ?a)) with (padn (S k) a).
    replace (S (Z.to_nat (rdepth tx - 1))) with (Z.to_nat (rdepth tx)) by lia. reflexivity.
  - (* tree-left: the leaf is repeated, and so is the single element of [a] *)
    cbn [map fst existsb badT is_optT is_listT is_recT].
    assert (Hba : badT ta = false) by (destruct ta; try discriminate; reflexivity).
    assert (Hoa : is_optT ta = false) by (destruct ta; try discriminate; reflexivity).
    rewrite Hba, Hoa, Hx. rewrite !orb_false_r. cbn [orb].
    destruct (badT tx); [reflexivity|].
    assert (Hox : is_optT tx = false) by (destruct tx as [| |s str t0| | |]; try discriminate; reflexivity).
    rewrite Hox.
    rewrite (list_target_pad1 tx vx ta va Hx Ha).
    destruct (list_target [(tx, vx); (ta, va)]) as [n|e]; [|reflexivity]. cbn [bind mapM].
    now rewrite (column_pad1 n ta va Ha).
Qed.
