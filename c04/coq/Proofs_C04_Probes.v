(** C04 — outside the proved fragments: executable witnesses (vm_compute on the faithful model and on the specification).
    [.._refuted]: the model (= the code) departs from the specification — these shapes must be excluded from any refinement
    theorem on RegularArray levels.  [.._test]: sample agreements (tests, NOT theorems) for the shapes not yet proved:
    ByteMasked (both polarities) / BitMasked / Unmasked, option nodes at inner levels, RegularArray levels (equal sizes,
    size 1 repeating, NumPy-right alignment of all-regular inputs), three array inputs. *)
From AwkV Require Import Proofs_Lists Proofs_ToList.
From AwkBroadcast Require Import Broadcast Proofs_C04 Proofs_C04_Model1 Proofs_C04_Model2 Proofs_C04_Model5 Proofs_C04_Model6.

Definition np (l : list Z) : content := Numpy DInt64 [zlen l] (map DZ l).
Definition both2 u c1 c2 : res (list value) * res (list value) :=
  match to_list c1, to_list c2 with
  | Ok v1, Ok v2 => (obs (broadcast_and_apply (ufn_op u) None 12 [MC c1; MC c2]),
                     spec_broadcast (ufn_op u) false 12 [SArr (type_of c1) v1; SArr (type_of c2) v2])
  | _, _ => (Err EOob, Err EOob)
  end.
Definition both3 u c1 c2 c3 : res (list value) * res (list value) :=
  match to_list c1, to_list c2, to_list c3 with
  | Ok v1, Ok v2, Ok v3 => (obs (broadcast_and_apply (ufn_op u) None 12 [MC c1; MC c2; MC c3]),
                            spec_broadcast (ufn_op u) false 12 [SArr (type_of c1) v1; SArr (type_of c2) v2; SArr (type_of c3) v3])
  | _, _, _ => (Err EOob, Err EOob)
  end.
Definition iz (l : list Z) : list value := map (fun z => VNum (DZ z)) l.

(* ---- REFUTED 1 (known finding regular-level-no-left-broadcast): a RegularArray level over variable-length lists next to a
   shallower 1-d array.  [[[1],[2,3]],[[],[4]]] (2 * var * int64) + [10, 20]: the specification (tree-left) gives
   [[[11],[12,13]],[[],[24]]]; apply's all-RegularArray branch hands the non-list input down unchanged, the next call sees
   lengths 4 and 2: ValueError.  Minimal: one RegularArray level whose content is a list node, second input shallower. *)
Definition rl : content := Regular (ListOffset I64 [0; 1; 3; 3; 4] (np [1; 2; 3; 4])) 2 2.
Example regular_level_no_left_broadcast_refuted :
  both2 UAdd rl (np [10; 20]) =
  (Err EValue, Ok [VList [VList (iz [11]); VList (iz [12; 13])]; VList [VList []; VList (iz [24])]]).
Proof. vm_compute. reflexivity. Qed.
(* ... while the same second operand as a size-1 RegularArray column [[10],[20]] is repeated *)
Example regular_level_size1_column_test :
  both2 UAdd rl (Regular (np [10; 20]) 1 2) =
  (Ok [VList [VList (iz [11]); VList (iz [12; 13])]; VList [VList []; VList (iz [24])]],
   Ok [VList [VList (iz [11]); VList (iz [12; 13])]; VList [VList []; VList (iz [24])]]).
Proof. vm_compute. reflexivity. Qed.

(* ---- REFUTED 2 (known finding regular-size1-to-size0, here at an INNER level): sizes 0 and 1 of two RegularArray levels over
   list nodes: NumPy's rule (the specification) repeats the size-1 dimension zero times; the model refuses (maxsize = 1). *)
Example regular_inner_size1_vs_size0_refuted :
  both2 UAdd (Regular (ListOffset I64 [0] (np [])) 0 2) (Regular (ListOffset I64 [0; 1; 2] (np [5; 6])) 1 2) =
  (Err EValue, Ok [VList []; VList []]).
Proof. vm_compute. reflexivity. Qed.

(* ---- tests: RegularArray levels on which model and specification agree *)
Definition r23 : content := Regular (np [1; 2; 3; 4; 5; 6]) 3 2.     (* [[1,2,3],[4,5,6]] *)
Example regular_levels_test :
  (* equal sizes / size 1 repeats / both directions *)
  both2 UAdd r23 (Regular (np [10; 20]) 1 2) = (Ok [VList (iz [11; 12; 13]); VList (iz [24; 25; 26])], Ok [VList (iz [11; 12; 13]); VList (iz [24; 25; 26])]) /\
  both2 UAdd (Regular (np [10; 20]) 1 2) (Regular (np [100; 200; 300]) 3 1) =
    (Ok [VList (iz [110; 210; 310]); VList (iz [120; 220; 320])], Ok [VList (iz [110; 210; 310]); VList (iz [120; 220; 320])]) /\
  (* all-regular inputs of different depth align to the right, as in NumPy *)
  both2 UAdd r23 (np [1000; 2000; 3000]) = (Ok [VList (iz [1001; 2002; 3003]); VList (iz [1004; 2005; 3006])], Ok [VList (iz [1001; 2002; 3003]); VList (iz [1004; 2005; 3006])]) /\
  both2 UAdd r23 (np [1000; 2000]) = (Err EValue, Err EValue) /\
  (* a regular level against variable-length lists: lengths must agree, size 1 repeats *)
  both2 UAdd r23 (ListOffset I64 [0; 3; 6] (np [1; 1; 1; 2; 2; 2])) = (Ok [VList (iz [2; 3; 4]); VList (iz [6; 7; 8])], Ok [VList (iz [2; 3; 4]); VList (iz [6; 7; 8])]) /\
  both2 UAdd (Regular (np [10; 20]) 1 2) (ListOffset I64 [0; 3; 5] (np [1; 1; 1; 2; 2])) = (Ok [VList (iz [11; 11; 11]); VList (iz [22; 22])], Ok [VList (iz [11; 11; 11]); VList (iz [22; 22])]) /\
  both2 UAdd r23 (ListOffset I64 [0; 3; 5] (np [1; 1; 1; 2; 2])) = (Err EValue, Err EValue).
Proof. repeat split; vm_compute; reflexivity. Qed.

(* ---- tests: the other option encodings, at the top and at an inner level *)
Definition bm : content := ByteMasked [0; 1; 0] false (np [1; 2; 3]).          (* valid_when = false: [1, None, 3] *)
Definition bm2 : content := ByteMasked [0; 1; 1] true (np [1; 2; 3]).          (* valid_when = true:  [None, 2, 3] *)
Definition um : content := Unmasked (np [10; 20; 30]).                         (* [10, 20, 30] : ?int64 *)
Definition bit : content := BitMasked [5] true true 3 (np [1; 2; 3]).          (* bits 101, lsb order: [1, None, 3] *)
Example option_encodings_test :
  to_list bm = Ok [VNum (DZ 1); VNone; VNum (DZ 3)] /\ to_list bm2 = Ok [VNone; VNum (DZ 2); VNum (DZ 3)] /\
  to_list bit = Ok [VNum (DZ 1); VNone; VNum (DZ 3)] /\
  both2 UAdd bm bm2 = (Ok [VNone; VNone; VNum (DZ 6)], Ok [VNone; VNone; VNum (DZ 6)]) /\
  both2 UAdd bit um = (Ok [VNum (DZ 11); VNone; VNum (DZ 33)], Ok [VNum (DZ 11); VNone; VNum (DZ 33)]) /\
  both2 UAdd bit bm2 = (Ok [VNone; VNone; VNum (DZ 6)], Ok [VNone; VNone; VNum (DZ 6)]) /\
  (* inner level: [[1,None],[3]] + [[None,2],[3]], against lists cut differently, against a shallower array *)
  both2 UAdd (ListOffset I64 [0; 2; 3] bm) (ListOffset I64 [0; 2; 3] bm2) = (Ok [VList [VNone; VNone]; VList [VNum (DZ 6)]], Ok [VList [VNone; VNone]; VList [VNum (DZ 6)]]) /\
  both2 UAdd (ListOffset I64 [0; 2; 3] bm) (ListOffset I64 [0; 1; 3] bit) = (Err EValue, Err EValue) /\
  both2 UAdd (ListOffset I64 [0; 2; 3] bm) (np [100; 200]) = (Ok [VList [VNum (DZ 101); VNone]; VList [VNum (DZ 203)]], Ok [VList [VNum (DZ 101); VNone]; VList [VNum (DZ 203)]]).
Proof. repeat split; vm_compute; reflexivity. Qed.

(* ---- tests: three array inputs (np.clip(x, lo, hi) with arrays of different depths, a missing value, a length-1 array) *)
Example three_arrays_test :
  both3 UClip ex_c1 ex_c2 (np [5; 7]) =
    (Ok [VList [VList (iz [5; 5]); VNone]; VList [VList (iz [7; 7; 7])]], Ok [VList [VList (iz [5; 5]); VNone]; VList [VList (iz [7; 7; 7])]]) /\
  both3 UClip (np [1; 5; 9]) (np [2]) (np [6; 6; 6]) = (Ok (iz [2; 5; 6]), Ok (iz [2; 5; 6])) /\
  both3 UClip (np [1; 5; 9]) (np [2]) (np []) = (Err EValue, Err EValue) /\
  both3 UClip ex_c1 ex_c1 ex_c3 = (Err EValue, Err EValue).
Proof. repeat split; vm_compute; reflexivity. Qed.
