(** C11 property theorems (statements only; proofs are in Proofs_C11.v). *)
From AwkV Require Import Layout Valid Proofs_C11.
From AwkV Require Import Types Proofs_Lists Proofs_ToList.
(* closure of validity under the operations (second half of C11) and the C17 typing fragment *)
From AwkV Require Import Base AtAxis Carry Ops_Struct Ops_Flatten Ops_Option Ops_Getitem Ops_Fields Ops_Sort Ops_Reduce
                         Typing Proofs_CarryValid Proofs_Closure Proofs_Closure2 Proofs_Closure3 Proofs_Closure4
                         Proofs_Closure5 Proofs_Closure6 Proofs_ClosureAll.

(* The model of validityerror (checks in the C++ order) accepts exactly the layouts
   satisfying the declarative documented rules. *)
Theorem validity_exact : forall c, valid_b c = true <-> Valid None c.
Proof. exact (fun c => validity_exact_gen c None). Qed.
Print Assumptions validity_exact.

(* a layout obeying the documented rules always has a value (no failure, no out-of-bounds read),
   provided the character buffers of its strings are usable (validity, like the C++ check, does
   not look below a string node) *)
Theorem valid_layouts_have_a_value : forall c p, Valid p c -> chars_ok c = true -> exists vs, to_list c = Ok vs.
Proof. exact valid_to_list_total_partial. Qed.
Print Assumptions valid_layouts_have_a_value.

Theorem value_length_is_layout_length : forall c p vs, Valid p c -> to_list c = Ok vs -> zlen vs = clen c.
Proof. exact to_list_length. Qed.
Print Assumptions value_length_is_layout_length.

(* ---------------------------------------------------------------- closure: operations keep layouts valid *)
(* n-d leaves become RegularArray chains at the start of every structure operation *)
Theorem closure_expand : forall c p, Valid p c -> Valid p (expand c).
Proof. exact expand_valid_p. Qed.
Print Assumptions closure_expand.

(* generic: the at-axis descent keeps validity whenever the action at the axis does ([ax_frag Q]: the list nodes the
   axis points at satisfy Q; Q's first argument says "directly below an option-type / indexed node") *)
Theorem closure_at_axis : forall g unk str_ok (Q : bool -> option akind -> content -> bool),
  (forall u p c cc c', Valid p c -> list_content c = Some cc -> Q u p c = true -> (is_strk p = true -> str_ok = true) ->
                       g p c = Ok c' -> Valid None c' /\ clen c <= clen c' /\ uplain u c') ->
  (forall c', unk = Ok c' -> Valid None c' /\ 0 <= clen c' /\ plain c') ->
  forall c axis c', Valid None c -> ax_frag Q c axis = true -> model_ax g unk str_ok c axis = Ok c' ->
  Valid None c' /\ clen c <= clen c'.
Proof. exact model_ax_valid. Qed.
Print Assumptions closure_at_axis.

(* num, local_index: every valid layout (unions, strings, n-d leaves), every axis *)
Theorem closure_num : forall axis c c', Valid None c -> num_model axis c = Ok c' -> Valid None c'.
Proof. exact num_preserves_valid. Qed.
Print Assumptions closure_num.
Theorem closure_localindex : forall axis c c', Valid None c -> localindex_model axis c = Ok c' -> Valid None c'.
Proof. exact localindex_preserves_valid. Qed.
Print Assumptions closure_localindex.

(* pad_none: the list at the axis must not be a string (there the C++ result is invalid as well: known finding) and its
   content must not be option-type (the model omits simplify_optiontype) *)
Theorem closure_rpad_partial : forall target axis c c',
  Valid None c -> ax_frag Qpad c axis = true -> rpad_model target axis c = Ok c' -> Valid None c'.
Proof. exact rpad_preserves_valid_partial. Qed.
Print Assumptions closure_rpad_partial.
Theorem closure_rpadclip_partial : forall target axis c c',
  Valid None c -> ax_frag Qpad c axis = true -> rpadclip_model target axis c = Ok c' -> Valid None c'.
Proof. exact rpadclip_preserves_valid_partial. Qed.
Print Assumptions closure_rpadclip_partial.
Theorem closure_combinations_partial : forall n repl axis c c',
  Valid None c -> ax_frag Qcomb c axis = true -> comb_model n repl axis c = Ok c' -> Valid None c'.
Proof. exact comb_preserves_valid_partial. Qed.
Print Assumptions closure_combinations_partial.

(* record fields *)
Theorem closure_field_partial : forall k c vs c',
  Valid None c -> to_list c = Ok vs -> fc_frag k false c = true -> field_content k c = Ok c' -> Valid None c'.
Proof. exact field_content_preserves_valid_partial. Qed.
Print Assumptions closure_field_partial.
Theorem closure_field_chars : forall k c c',
  Valid None c -> chars_ok c = true -> fc_frag k false c = true -> field_content k c = Ok c' -> Valid None c'.
Proof. exact field_content_preserves_valid_chars. Qed.
Print Assumptions closure_field_chars.
Theorem closure_setfield : forall k c what c',
  Valid None c -> Valid None what -> setfield_model k c what = Ok c' -> Valid None c'.
Proof. exact setfield_preserves_valid. Qed.
Print Assumptions closure_setfield.

(* fill_none *)
Theorem closure_fillna_partial : forall value c c',
  Valid None c -> Valid None value -> unionlike value = false -> fn_frag c = true ->
  fillna_model value c = Ok c' -> Valid None c'.
Proof. exact fillna_preserves_valid_partial. Qed.
Print Assumptions closure_fillna_partial.

(* flatten: every valid layout that has a value *)
Theorem closure_flatten : forall axis c vs c',
  Valid None c -> to_list c = Ok vs -> flatten_model axis c = Ok c' -> Valid None c'.
Proof. exact flatten_preserves_valid. Qed.
Print Assumptions closure_flatten.
Theorem closure_flatten_chars : forall axis c c',
  Valid None c -> chars_ok c = true -> flatten_model axis c = Ok c' -> Valid None c'.
Proof. exact flatten_preserves_valid_chars. Qed.
Print Assumptions closure_flatten_chars.

(* sort / argsort: every valid layout, every axis the model handles *)
Theorem closure_sort : forall asc argsort axis c c',
  Valid None c -> sort_model asc argsort axis c = Ok c' -> Valid None c'.
Proof. exact sort_preserves_valid. Qed.
Print Assumptions closure_sort.

(* reducers *)
Theorem closure_reduce_partial : forall r axis mask keepdims c c',
  Valid None c -> red_frag mask keepdims c axis = true -> reduce_model r axis mask keepdims c = Ok c' -> Valid None c'.
Proof. exact reduce_preserves_valid_partial. Qed.
Print Assumptions closure_reduce_partial.
Theorem closure_reduce_nomask : forall r axis mask keepdims c c',
  Valid None c -> keepdims || negb mask = true -> reduce_model r axis mask keepdims c = Ok c' -> Valid None c'.
Proof. exact reduce_preserves_valid_nomask. Qed.
Print Assumptions closure_reduce_nomask.

(* slicing, all item kinds (integer, range, ellipsis, newaxis, integer arrays, field, fields): no string nodes,
   option-type / indexed nodes not nested in one another (the model omits simplify_optiontype) *)
Theorem closure_getitem_partial : forall items c c',
  Valid None c -> nostr c = true -> gi_frag c = true -> getitem_model items c = Ok c' -> Valid None c'.
Proof. exact getitem_preserves_valid_partial. Qed.
Print Assumptions closure_getitem_partial.
Theorem closure_fields : forall ks c c',
  Valid None c -> fields_content ks c = Ok c' ->
  Valid None c' /\ clen c' = clen c /\ (optionlike c = false -> optionlike c' = false).
Proof. exact fields_content_valid_all. Qed.
Print Assumptions closure_fields.

(* all of the above, carry and range slicing in one statement *)
Theorem closure_of_validity_partial : forall c, Valid None c ->
  (forall axis c', num_model axis c = Ok c' -> Valid None c') /\
  (forall axis c', localindex_model axis c = Ok c' -> Valid None c') /\
  (forall target axis c', ax_frag Qpad c axis = true -> rpad_model target axis c = Ok c' -> Valid None c') /\
  (forall target axis c', ax_frag Qpad c axis = true -> rpadclip_model target axis c = Ok c' -> Valid None c') /\
  (forall n repl axis c', ax_frag Qcomb c axis = true -> comb_model n repl axis c = Ok c' -> Valid None c') /\
  (forall k vs c', to_list c = Ok vs -> fc_frag k false c = true -> field_content k c = Ok c' -> Valid None c') /\
  (forall k what c', Valid None what -> setfield_model k c what = Ok c' -> Valid None c') /\
  (forall value c', Valid None value -> unionlike value = false -> fn_frag c = true ->
                    fillna_model value c = Ok c' -> Valid None c') /\
  (forall axis vs c', to_list c = Ok vs -> flatten_model axis c = Ok c' -> Valid None c') /\
  (forall asc argsort axis c', sort_model asc argsort axis c = Ok c' -> Valid None c') /\
  (forall r axis mask keepdims c', red_frag mask keepdims c axis = true ->
                                   reduce_model r axis mask keepdims c = Ok c' -> Valid None c') /\
  (forall vs ix c', to_list c = Ok vs -> Forall (fun i => 0 <= i < clen c) ix -> carry c ix = Ok c' -> Valid None c') /\
  (forall vs a b c', to_list c = Ok vs -> 0 <= a -> a <= b -> b <= clen c -> crange c a b = Ok c' -> Valid None c') /\
  (forall items c', nostr c = true -> gi_frag c = true -> getitem_model items c = Ok c' -> Valid None c').
Proof. exact closure_all_partial. Qed.
Print Assumptions closure_of_validity_partial.

(* ---------------------------------------------------------------- C17 fragment: the type of the result *)
Theorem expand_keeps_type : forall c p, Valid p c -> type_of_p p (expand c) = type_of_p p c.
Proof. exact expand_type_p. Qed.
Print Assumptions expand_keeps_type.
Theorem expand_keeps_value : forall c p, Valid p c -> to_list (expand c) = to_list c.
Proof. exact expand_to_list_p. Qed.
Print Assumptions expand_keeps_value.

(* the type of an at-axis result is computed from the input type alone ([ax_ty]) *)
Theorem result_type_at_axis : forall h unk_t g unk str_ok,
  (forall p c cc c', list_content c = Some cc -> g p c = Ok c' -> type_of c' = h (type_of_p p c)) ->
  (forall c', unk = Ok c' -> type_of c' = unk_t) ->
  forall c axis c', Valid None c -> model_ax g unk str_ok c axis = Ok c' ->
  ax_ty h unk_t (type_of c) 0 axis = Ok (type_of c').
Proof. exact model_ax_type. Qed.
Print Assumptions result_type_at_axis.
(* num: the structure above the axis with int64 in place of the lists at the axis *)
Theorem result_type_num : forall axis c c',
  Valid None c -> num_model axis c = Ok c' -> num_ty (type_of c) axis = Ok (type_of c').
Proof. exact Proofs_Closure5.result_type_num. Qed.
Print Assumptions result_type_num.
Theorem result_type_localindex : forall axis c c',
  Valid None c -> localindex_model axis c = Ok c' -> localindex_ty (type_of c) axis = Ok (type_of c').
Proof. exact Proofs_Closure5.result_type_localindex. Qed.
Print Assumptions result_type_localindex.
(* typing preservation: the values of the result have the predicted type *)
Theorem num_result_typed : forall axis c c' ws,
  Valid None c -> num_model axis c = Ok c' -> to_list c' = Ok ws ->
  exists t', num_ty (type_of c) axis = Ok t' /\ Forall (has_type t') ws.
Proof. exact Proofs_Closure5.num_result_typed. Qed.
Print Assumptions num_result_typed.
Theorem localindex_result_typed : forall axis c c' ws,
  Valid None c -> localindex_model axis c = Ok c' -> to_list c' = Ok ws ->
  exists t', localindex_ty (type_of c) axis = Ok t' /\ Forall (has_type t') ws.
Proof. exact Proofs_Closure5.localindex_result_typed. Qed.
Print Assumptions localindex_result_typed.

(* ---- append to coq/Props_C11.v (after the existing theorems); import line first ---- *)
From AwkV Require Import Ops_SortAxes Proofs_Closure7 Proofs_Closure8 Proofs_Closure9 Proofs_Closure10.

(* ---------------------------------------------------------------- closure, second batch: hypotheses removed *)
(* carry / range slicing: every valid layout, every index list -- no "has a value", no "indices in range" (success implies it) *)
Theorem closure_carry : forall c ix c', Valid None c -> carry c ix = Ok c' -> Valid None c'.
Proof. exact carry_valid_full. Qed.
Print Assumptions closure_carry.
Theorem closure_crange : forall c a b c', Valid None c -> crange c a b = Ok c' -> Valid None c'.
Proof. exact crange_valid_full. Qed.
Print Assumptions closure_crange.
Theorem closure_carry_length_class : forall c ix c', Valid None c -> carry c ix = Ok c' ->
  Valid None c' /\ clen c' = zlen ix /\ optionlike c' = optionlike c /\ unionlike c' = unionlike c.
Proof. exact carry_valid_len. Qed.
Print Assumptions closure_carry_length_class.

(* record-field projection: "has a value" removed; what is left is the model's missing simplify_optiontype *)
Theorem closure_field_novalue_partial : forall k c c',
  Valid None c -> fc_frag k false c = true -> field_content k c = Ok c' -> Valid None c'.
Proof. exact field_content_preserves_valid_novalue_partial. Qed.
Print Assumptions closure_field_novalue_partial.
Theorem closure_field_nopt : forall k c c',
  Valid None c -> nopt c = true -> field_content k c = Ok c' -> Valid None c'.
Proof. exact field_content_preserves_valid_nopt. Qed.
Print Assumptions closure_field_nopt.

(* flatten: every valid layout, every axis -- "has a value" removed *)
Theorem closure_flatten_full : forall axis c c',
  Valid None c -> flatten_model axis c = Ok c' -> Valid None c'.
Proof. exact flatten_preserves_valid_full. Qed.
Print Assumptions closure_flatten_full.

(* sort along a non-innermost axis, and the sort entry point for every axis: every valid layout, no hypothesis *)
Theorem closure_sort_axes : forall asc axis c c',
  Valid None c -> sort_axes_model asc axis c = Ok c' -> Valid None c'.
Proof. exact sort_axes_preserves_valid. Qed.
Print Assumptions closure_sort_axes.
Theorem closure_sort_all : forall asc argsort axis c c',
  Valid None c -> sort_model_all asc argsort axis c = Ok c' -> Valid None c'.
Proof. exact sort_all_preserves_valid. Qed.
Print Assumptions closure_sort_all.

(* every modelled operation, each with exactly the hypothesis that is left (table in Proofs_Closure9.v; flatten: none, Proofs_Closure10.v) *)
Theorem closure_all_modelled_operations : forall c, Valid None c ->
  (forall axis c', num_model axis c = Ok c' -> Valid None c') /\
  (forall axis c', localindex_model axis c = Ok c' -> Valid None c') /\
  (forall target axis c', ax_frag Qpad c axis = true -> rpad_model target axis c = Ok c' -> Valid None c') /\
  (forall target axis c', ax_frag Qpad c axis = true -> rpadclip_model target axis c = Ok c' -> Valid None c') /\
  (forall n repl axis c', ax_frag Qcomb c axis = true -> comb_model n repl axis c = Ok c' -> Valid None c') /\
  (forall k c', fc_frag k false c = true -> field_content k c = Ok c' -> Valid None c') /\
  (forall ks c', fields_content ks c = Ok c' -> Valid None c') /\
  (forall k what c', Valid None what -> setfield_model k c what = Ok c' -> Valid None c') /\
  (forall value c', Valid None value -> unionlike value = false -> fn_frag c = true ->
                    fillna_model value c = Ok c' -> Valid None c') /\
  (forall axis c', flatten_model axis c = Ok c' -> Valid None c') /\
  (forall asc argsort axis c', sort_model asc argsort axis c = Ok c' -> Valid None c') /\
  (forall asc axis c', sort_axes_model asc axis c = Ok c' -> Valid None c') /\
  (forall asc argsort axis c', sort_model_all asc argsort axis c = Ok c' -> Valid None c') /\
  (forall r axis mask keepdims c', red_frag mask keepdims c axis = true ->
                                   reduce_model r axis mask keepdims c = Ok c' -> Valid None c') /\
  (forall ix c', carry c ix = Ok c' -> Valid None c') /\
  (forall a b c', crange c a b = Ok c' -> Valid None c') /\
  (forall items c', nostr c = true -> gi_frag c = true -> getitem_model items c = Ok c' -> Valid None c').
Proof. exact closure_all_modelled_full. Qed.
Print Assumptions closure_all_modelled_operations.

(* the operations closed on EVERY valid layout with no hypothesis at all *)
Theorem closure_unconditional_operations : forall c, Valid None c ->
  Valid None (expand c) /\
  (forall axis c', num_model axis c = Ok c' -> Valid None c') /\
  (forall axis c', localindex_model axis c = Ok c' -> Valid None c') /\
  (forall ks c', fields_content ks c = Ok c' -> Valid None c') /\
  (forall k what c', Valid None what -> setfield_model k c what = Ok c' -> Valid None c') /\
  (forall axis c', flatten_model axis c = Ok c' -> Valid None c') /\
  (forall asc argsort axis c', sort_model_all asc argsort axis c = Ok c' -> Valid None c') /\
  (forall r axis mask keepdims c', keepdims || negb mask = true -> reduce_model r axis mask keepdims c = Ok c' -> Valid None c') /\
  (forall ix c', carry c ix = Ok c' -> Valid None c') /\
  (forall a b c', crange c a b = Ok c' -> Valid None c').
Proof. exact closure_unconditional_full. Qed.
Print Assumptions closure_unconditional_operations.
