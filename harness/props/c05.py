"""C05: flatten / num / local_index (C++ layer) vs the list-structure laws."""
import common as C
import gen as G

THEOREMS = ['unflatten_flatten', 'flatten_concatenates_in_order', 'missing_list_contributes_nothing',
            'num_gives_lengths', 'local_index_counts_from_zero', 'offsets_are_running_sums', 'num_refines_spec',
            'local_index_refines_spec', 'value_has_layout_length', 'flatten_refines_spec_partial',
            'flatten_axis1_refines_spec_partial', 'flatten_level_invariant', 'inner_offsets_cut_back']
PY_HALF = True     # harness/pyhalves.py: the Python-layer functions of this property under pyshim
RULE = ('value-first random layouts x (num | localindex | flatten) x axis (positive, negative, some out of range); '
        'non-trivial = the input has >= 1 non-empty list and the operation succeeded; distinct by case text')
ASSUMPTIONS = ['types containing unions are outside the specified fragment (skipped, counted)',
               'axis=0 forms (scalar results) are not exercised through this operation-level interface']
OPS = ['num', 'localindex', 'flatten']


def cases(rng, tier):
    n = 15000 if tier == 'quick' else 400000
    out = []
    for i in range(n):
        a = G.gen_array(rng, depth=rng.choice([2, 3, 3, 4]), canonical_too=False,
                        type_kw=dict(allow_union=rng.random() < 0.1),
                        enc_kw=dict(weird_empty=0.08, strided=0.08))
        t = a['type']
        op = rng.choice(OPS)
        axis = G.pick_axis(rng, t)
        nontriv = '[' in repr(a['vals']) and any(isinstance(v, list) and v for v in a['vals'])
        tags = dict(op=op, axis=axis, negaxis_rec=bool(axis < 0 and G.has_rec_under_list(t)))
        tags.update({'enc_' + k: 1 for k in a['stats']})
        out.append(C.Case('c%d' % i, op, [str(axis)], [G.sx(a['layout'])], dict(nontrivial=nontriv, tags=tags)))
    return out


def signature(c, impl, v):
    if c.meta.get('tags', {}).get('negaxis_rec'):
        return 'negaxis-record-under-list'
    return None
