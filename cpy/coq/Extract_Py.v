(** Extraction of the Python-layer specifications (ExtrOcamlBasic only; Z stays inductive). *)
From Coq Require Import Extraction ExtrOcamlBasic.
From AwkV Require Import Layout Valid Types AtAxis Ops_Struct Ops_Flatten Ops_Option Ops_Reduce Ops_Getitem Ops_Fields.
From AwkPy Require Import PySpec.
Extraction Language OCaml.
Extraction "pymodel.ml" Z.add Z.mul Z.sub Z.div Z.modulo Z.eqb Z.ltb Z.leb Z.of_nat Z.to_nat Z.opp
  to_list value_eqb valid_b clen type_of has_union minmax resolve_axis
  spec_flatten spec_num spec_local_index spec_unflatten spec_rt_unflatten
  spec_reduce_py
  spec_combinations spec_argcombinations spec_cartesian spec_argcartesian
  spec_concat_axis spec_values_astype concat_type_ok
  spec_pad_none spec_is_none spec_fill_none spec_mask spec_firsts spec_singletons spec_firsts_singletons
  spec_zip spec_unzip spec_unzip_zip spec_fields spec_with_field spec_get_with_field with_name_ok.
